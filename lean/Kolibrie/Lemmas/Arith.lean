import Kolibrie.Model.Arith
/-! helper lemmas for the arithmetic-chain theorem of Props/C16 -/
namespace Kolibrie.Arith

def chainToks (xs : List String) : List Tok := xs.flatMap (fun x => [Tok.op '-', Tok.atom x])

theorem productLoop_stop_nil (f : Nat) (e : AExpr) : productLoop (f + 1) e [] = some (e, []) := by
  simp [productLoop]

theorem productLoop_stop_minus (f : Nat) (e : AExpr) (rest : List Tok) :
    productLoop (f + 1) e (Tok.op '-' :: rest) = some (e, Tok.op '-' :: rest) := by
  simp [productLoop]

theorem parseProduct_atom (f : Nat) (x : String) (xs : List String) :
    parseProduct (f + 2) (Tok.atom x :: chainToks xs) = some (.opnd x, chainToks xs) := by
  cases xs with
  | nil => simp [parseProduct, parseOperand, chainToks, productLoop]
  | cons y ys => simp [parseProduct, parseOperand, chainToks, productLoop]

theorem sumLoop_chain (xs : List String) : ∀ (acc : AExpr) (fuel : Nat), 3 * xs.length + 3 ≤ fuel →
    sumLoop fuel acc (chainToks xs) = some (xs.foldl (fun a x => .sub a (.opnd x)) acc, []) := by
  induction xs with
  | nil =>
    intro acc fuel h
    obtain ⟨f, rfl⟩ : ∃ f, fuel = f + 1 := ⟨fuel - 1, by omega⟩
    simp [chainToks, sumLoop]
  | cons x xs ih =>
    intro acc fuel h
    obtain ⟨f, rfl⟩ : ∃ f, fuel = f + 3 := ⟨fuel - 3, by simp at h; omega⟩
    have hp := parseProduct_atom f x xs
    have : chainToks (x :: xs) = Tok.op '-' :: Tok.atom x :: chainToks xs := by simp [chainToks]
    rw [this]
    simp only [sumLoop]
    simp [hp]
    exact ih _ _ (by simp at h; omega)


/-! ### fuel monotonicity and the general round trip `parse (print e) = e` -/

theorem fuel_mono : ∀ f : Nat,
    (∀ ts r, parseOperand f ts = some r → parseOperand (f + 1) ts = some r) ∧
    (∀ acc ts r, productLoop f acc ts = some r → productLoop (f + 1) acc ts = some r) ∧
    (∀ ts r, parseProduct f ts = some r → parseProduct (f + 1) ts = some r) ∧
    (∀ acc ts r, sumLoop f acc ts = some r → sumLoop (f + 1) acc ts = some r) ∧
    (∀ ts r, parseSum f ts = some r → parseSum (f + 1) ts = some r) := by
  intro f
  induction f with
  | zero =>
    refine ⟨?_, ?_, ?_, ?_, ?_⟩ <;> intros <;> simp_all [parseOperand, productLoop, parseProduct, sumLoop, parseSum]
  | succ f ih =>
    obtain ⟨hO, hPL, hP, hSL, hS⟩ := ih
    refine ⟨?_, ?_, ?_, ?_, ?_⟩
    · intro ts r h
      cases ts with
      | nil => simp [parseOperand] at h
      | cons t rest =>
        cases t with
        | atom s => simpa [parseOperand] using h
        | op c => simp [parseOperand] at h
        | rp => simp [parseOperand] at h
        | lp =>
          simp only [parseOperand] at h ⊢
          cases hs : parseSum f rest with
          | none => simp [hs] at h
          | some x =>
            rw [hS rest x hs]
            rw [hs] at h
            exact h
    · intro acc ts r h
      cases ts with
      | nil => simpa [productLoop] using h
      | cons t rest =>
        cases t with
        | atom s => simpa [productLoop] using h
        | lp => simpa [productLoop] using h
        | rp => simpa [productLoop] using h
        | op c =>
          simp only [productLoop] at h ⊢
          split at h
          · rename_i hc
            rw [if_pos hc]
            cases ho : parseOperand f rest with
            | none => simp [ho] at h
            | some x =>
              rw [hO rest x ho]
              rw [ho] at h
              simp only at h ⊢
              exact hPL _ _ _ h
          · rename_i hc
            rw [if_neg hc]
            exact h
    · intro ts r h
      simp only [parseProduct] at h ⊢
      cases ho : parseOperand f ts with
      | none => simp [ho] at h
      | some x =>
        rw [hO ts x ho]
        rw [ho] at h
        simp only at h ⊢
        exact hPL _ _ _ h
    · intro acc ts r h
      cases ts with
      | nil => simpa [sumLoop] using h
      | cons t rest =>
        cases t with
        | atom s => simpa [sumLoop] using h
        | lp => simpa [sumLoop] using h
        | rp => simpa [sumLoop] using h
        | op c =>
          simp only [sumLoop] at h ⊢
          split at h
          · rename_i hc
            rw [if_pos hc]
            cases ho : parseProduct f rest with
            | none => simp [ho] at h
            | some x =>
              rw [hP rest x ho]
              rw [ho] at h
              simp only at h ⊢
              exact hSL _ _ _ h
          · rename_i hc
            rw [if_neg hc]
            exact h
    · intro ts r h
      simp only [parseSum] at h ⊢
      cases ho : parseProduct f ts with
      | none => simp [ho] at h
      | some x =>
        rw [hP ts x ho]
        rw [ho] at h
        simp only at h ⊢
        exact hSL _ _ _ h

theorem le_lift {P : Nat → Prop} (h : ∀ f, P f → P (f + 1)) {f g : Nat} (hle : f ≤ g) (hf : P f) : P g := by
  induction hle with
  | refl => exact hf
  | step _ ih => exact h _ ih

theorem operand_le {f g : Nat} (h : f ≤ g) {ts r} (hf : parseOperand f ts = some r) : parseOperand g ts = some r :=
  le_lift (P := fun f => parseOperand f ts = some r) (fun f => (fuel_mono f).1 ts r) h hf
theorem ploop_le {f g : Nat} (h : f ≤ g) {acc ts r} (hf : productLoop f acc ts = some r) : productLoop g acc ts = some r :=
  le_lift (P := fun f => productLoop f acc ts = some r) (fun f => (fuel_mono f).2.1 acc ts r) h hf
theorem product_le {f g : Nat} (h : f ≤ g) {ts r} (hf : parseProduct f ts = some r) : parseProduct g ts = some r :=
  le_lift (P := fun f => parseProduct f ts = some r) (fun f => (fuel_mono f).2.2.1 ts r) h hf
theorem sloop_le {f g : Nat} (h : f ≤ g) {acc ts r} (hf : sumLoop f acc ts = some r) : sumLoop g acc ts = some r :=
  le_lift (P := fun f => sumLoop f acc ts = some r) (fun f => (fuel_mono f).2.2.2.1 acc ts r) h hf
theorem sum_le {f g : Nat} (h : f ≤ g) {ts r} (hf : parseSum f ts = some r) : parseSum g ts = some r :=
  le_lift (P := fun f => parseSum f ts = some r) (fun f => (fuel_mono f).2.2.2.2 ts r) h hf

/-- the continuation does not start with a multiplicative operator -/
def NoMul : List Tok → Prop
  | Tok.op c :: _ => c ≠ '*' ∧ c ≠ '/'
  | _ => True

theorem ploop_stop (e : AExpr) (rest : List Tok) (h : NoMul rest) : productLoop 1 e rest = some (e, rest) := by
  cases rest with
  | nil => simp [productLoop]
  | cons t r =>
    cases t with
    | op c => simp only [NoMul] at h; simp [productLoop, h.1, h.2]
    | atom s => simp [productLoop]
    | lp => simp [productLoop]
    | rp => simp [productLoop]

/-- parse an operand and continue the product loop -/
theorem product_of_operand {f g : Nat} {ts rest : List Tok} {e : AExpr} {r}
    (ho : parseOperand f ts = some (e, rest)) (hl : productLoop g e rest = some r) :
    parseProduct (max f g + 1) ts = some r := by
  simp only [parseProduct, operand_le (Nat.le_max_left f g) ho]
  exact ploop_le (Nat.le_max_right f g) hl

theorem sum_of_product {f g : Nat} {ts rest : List Tok} {e : AExpr} {r}
    (hp : parseProduct f ts = some (e, rest)) (hl : sumLoop g e rest = some r) :
    parseSum (max f g + 1) ts = some r := by
  simp only [parseSum, product_le (Nat.le_max_left f g) hp]
  exact sloop_le (Nat.le_max_right f g) hl

theorem ploop_step {f g : Nat} (c : Char) (hc : c = '*' ∨ c = '/') {acc x : AExpr} {ts rest : List Tok} {r}
    (ho : parseOperand f ts = some (x, rest))
    (hl : productLoop g (if c = '*' then .mul acc x else .div acc x) rest = some r) :
    productLoop (max f g + 1) acc (Tok.op c :: ts) = some r := by
  simp only [productLoop, if_pos hc, operand_le (Nat.le_max_left f g) ho]
  exact ploop_le (Nat.le_max_right f g) hl

theorem sloop_step {f g : Nat} (c : Char) (hc : c = '+' ∨ c = '-') {acc x : AExpr} {ts rest : List Tok} {r}
    (hp : parseProduct f ts = some (x, rest))
    (hl : sumLoop g (if c = '+' then .add acc x else .sub acc x) rest = some r) :
    sumLoop (max f g + 1) acc (Tok.op c :: ts) = some r := by
  simp only [sumLoop, if_pos hc, product_le (Nat.le_max_left f g) hp]
  exact sloop_le (Nat.le_max_right f g) hl


/-- number of nodes -/
def size : AExpr → Nat
  | .opnd _ => 1
  | .add l r | .sub l r | .mul l r | .div l r => 1 + size l + size r

theorem size_pos (e : AExpr) : 1 ≤ size e := by cases e <;> simp [size] <;> omega

theorem ploop_fuel_pos {g acc ts r} (h : productLoop g acc ts = some r) : 1 ≤ g := by
  cases g with
  | zero => simp [productLoop] at h
  | succ n => omega
theorem sloop_fuel_pos {g acc ts r} (h : sumLoop g acc ts = some r) : 1 ≤ g := by
  cases g with
  | zero => simp [sumLoop] at h
  | succ n => omega

section Main
variable (extra : Bool)

def W (need : Nat) (e : AExpr) : List Tok := wrap extra need e.level (printTop extra e)

def PA (e : AExpr) : Prop := ∀ rest, parseOperand (7 * size e + 3) (W extra 2 e ++ rest) = some (e, rest)
def PB (e : AExpr) : Prop := 1 ≤ e.level → ∀ rest r g, productLoop g e rest = some r →
  parseProduct (g + 7 * size e) (printTop extra e ++ rest) = some r
def PD (e : AExpr) : Prop := ∀ rest r g, NoMul rest → sumLoop g e rest = some r →
  parseSum (g + 7 * size e + 1) (printTop extra e ++ rest) = some r

theorem W_paren (need : Nat) (e : AExpr) (h : (decide (e.level < need) || (extra && decide (e.level < 2))) = true) :
    W extra need e = Tok.lp :: printTop extra e ++ [Tok.rp] := by
  simp only [W, wrap, h, if_true]
theorem W_plain (need : Nat) (e : AExpr) (h : (decide (e.level < need) || (extra && decide (e.level < 2))) = false) :
    W extra need e = printTop extra e := by
  simp only [W, wrap, h]; rfl

theorem B1 (x : AExpr) (ha : PA extra x) (hb : PB extra x) (rest : List Tok) (r : AExpr × List Tok) (g : Nat)
    (hg : productLoop g x rest = some r) : parseProduct (g + 7 * size x + 3) (W extra 1 x ++ rest) = some r := by
  have hg1 := ploop_fuel_pos hg
  cases hp : (decide (x.level < 1) || (extra && decide (x.level < 2))) with
  | true =>
    have h2 : (decide (x.level < 2) || (extra && decide (x.level < 2))) = true := by
      cases extra <;> simp_all <;> omega
    have hf := ha rest
    rw [W_paren extra 2 x h2] at hf
    rw [W_paren extra 1 x hp]
    exact product_le (by omega) (product_of_operand hf hg)
  | false =>
    rw [W_plain extra 1 x hp]
    have hlev : 1 ≤ x.level := by
      cases extra <;> simp_all <;> omega
    exact product_le (by omega) (hb hlev rest r g hg)

theorem D0 (x : AExpr) (ha : PA extra x) (hd : PD extra x) (rest : List Tok) (r : AExpr × List Tok) (g : Nat)
    (hn : NoMul rest) (hg : sumLoop g x rest = some r) : parseSum (g + 7 * size x + 4) (W extra 0 x ++ rest) = some r := by
  have hg1 := sloop_fuel_pos hg
  cases hp : (decide (x.level < 0) || (extra && decide (x.level < 2))) with
  | true =>
    have h2 : (decide (x.level < 2) || (extra && decide (x.level < 2))) = true := by
      cases extra <;> simp_all
    have hf := ha rest
    rw [W_paren extra 2 x h2] at hf
    rw [W_paren extra 0 x hp]
    have hprod := product_of_operand hf (ploop_stop x rest hn)
    exact sum_le (by omega) (sum_of_product hprod hg)
  | false =>
    rw [W_plain extra 0 x hp]
    exact sum_le (by omega) (hd rest r g hn hg)

theorem noMul_rp (rest : List Tok) : NoMul (Tok.rp :: rest) := trivial

theorem sloop_stop_rp (e : AExpr) (rest : List Tok) : sumLoop 1 e (Tok.rp :: rest) = some (e, Tok.rp :: rest) := by
  simp [sumLoop]

theorem PA_of_PD (e : AExpr) (hlev : e.level < 2) (hd : PD extra e) : PA extra e := by
  intro rest
  have h2 : (decide (e.level < 2) || (extra && decide (e.level < 2))) = true := by simp [hlev]
  rw [W_paren extra 2 e h2]
  have hf := hd (Tok.rp :: rest) (e, Tok.rp :: rest) 1 (noMul_rp rest) (sloop_stop_rp e rest)
  have : Tok.lp :: printTop extra e ++ [Tok.rp] ++ rest = Tok.lp :: (printTop extra e ++ Tok.rp :: rest) := by simp
  rw [this]
  have e2 : 7 * size e + 3 = (1 + 7 * size e + 1) + 1 := by omega
  rw [e2]
  simp only [parseOperand, hf]

theorem PD_of_PB (e : AExpr) (hlev : 1 ≤ e.level) (hb : PB extra e) : PD extra e := by
  intro rest r g hn hg
  have hg1 := sloop_fuel_pos hg
  have hf := hb hlev rest (e, rest) 1 (ploop_stop e rest hn)
  exact sum_le (by omega) (sum_of_product hf hg)

theorem roundtrip_main : ∀ e : AExpr, PA extra e ∧ PB extra e ∧ PD extra e := by
  intro e
  induction e with
  | opnd s =>
    have hprint : printTop extra (.opnd s) = [Tok.atom s] := rfl
    have hb : PB extra (.opnd s) := by
      intro _ rest r g hg
      have hg1 := ploop_fuel_pos hg
      rw [hprint]
      have ho : parseOperand 1 ([Tok.atom s] ++ rest) = some (.opnd s, rest) := by simp [parseOperand]
      exact product_le (by simp [size]; omega) (product_of_operand ho hg)
    refine ⟨?_, hb, PD_of_PB extra _ (by simp [AExpr.level]) hb⟩
    intro rest
    have : W extra 2 (.opnd s) = [Tok.atom s] := by
      simp [W, wrap, AExpr.level, hprint]
    rw [this]; simp [parseOperand, size]
  | add l r ihl ihr =>
    obtain ⟨al, bl, dl⟩ := ihl
    obtain ⟨ar, br, dr⟩ := ihr
    have hprint : printTop extra (.add l r) = W extra 0 l ++ Tok.op '+' :: W extra 1 r := rfl
    have hd : PD extra (.add l r) := by
      intro rest res g hn hg
      have hg1 := sloop_fuel_pos hg
      rw [hprint]
      have h1 := B1 extra r ar br rest (r, rest) 1 (ploop_stop r rest hn)
      have hstep := sloop_step (acc := l) '+' (Or.inl rfl) h1 (by simpa using hg)
      have hn' : NoMul (Tok.op '+' :: (W extra 1 r ++ rest)) := by simp [NoMul]
      have h2 := D0 extra l al dl _ res _ hn' hstep
      have := sum_le (g := g + 7 * size (.add l r) + 1) (by simp [size]; omega) h2
      simpa [List.append_assoc] using this
    exact ⟨PA_of_PD extra _ (by simp [AExpr.level]) hd, fun h => by simp [AExpr.level] at h, hd⟩
  | sub l r ihl ihr =>
    obtain ⟨al, bl, dl⟩ := ihl
    obtain ⟨ar, br, dr⟩ := ihr
    have hprint : printTop extra (.sub l r) = W extra 0 l ++ Tok.op '-' :: W extra 1 r := rfl
    have hd : PD extra (.sub l r) := by
      intro rest res g hn hg
      have hg1 := sloop_fuel_pos hg
      rw [hprint]
      have h1 := B1 extra r ar br rest (r, rest) 1 (ploop_stop r rest hn)
      have hstep := sloop_step (acc := l) '-' (Or.inr rfl) h1 (by simpa using hg)
      have hn' : NoMul (Tok.op '-' :: (W extra 1 r ++ rest)) := by simp [NoMul]
      have h2 := D0 extra l al dl _ res _ hn' hstep
      have := sum_le (g := g + 7 * size (.sub l r) + 1) (by simp [size]; omega) h2
      simpa [List.append_assoc] using this
    exact ⟨PA_of_PD extra _ (by simp [AExpr.level]) hd, fun h => by simp [AExpr.level] at h, hd⟩
  | mul l r ihl ihr =>
    obtain ⟨al, bl, dl⟩ := ihl
    obtain ⟨ar, br, dr⟩ := ihr
    have hprint : printTop extra (.mul l r) = W extra 1 l ++ Tok.op '*' :: W extra 2 r := rfl
    have hb : PB extra (.mul l r) := by
      intro _ rest res g hg
      have hg1 := ploop_fuel_pos hg
      rw [hprint]
      have h1 := ar rest
      have hstep := ploop_step (acc := l) '*' (Or.inl rfl) h1 (by simpa using hg)
      have h2 := B1 extra l al bl _ res _ hstep
      have := product_le (g := g + 7 * size (.mul l r)) (by simp [size]; omega) h2
      simpa [List.append_assoc] using this
    have hd := PD_of_PB extra _ (by simp [AExpr.level]) hb
    exact ⟨PA_of_PD extra _ (by simp [AExpr.level]) hd, hb, hd⟩
  | div l r ihl ihr =>
    obtain ⟨al, bl, dl⟩ := ihl
    obtain ⟨ar, br, dr⟩ := ihr
    have hprint : printTop extra (.div l r) = W extra 1 l ++ Tok.op '/' :: W extra 2 r := rfl
    have hb : PB extra (.div l r) := by
      intro _ rest res g hg
      have hg1 := ploop_fuel_pos hg
      rw [hprint]
      have h1 := ar rest
      have hstep := ploop_step (acc := l) '/' (Or.inr rfl) h1 (by simpa using hg)
      have h2 := B1 extra l al bl _ res _ hstep
      have := product_le (g := g + 7 * size (.div l r)) (by simp [size]; omega) h2
      simpa [List.append_assoc] using this
    have hd := PD_of_PB extra _ (by simp [AExpr.level]) hb
    exact ⟨PA_of_PD extra _ (by simp [AExpr.level]) hd, hb, hd⟩

theorem size_le_length (e : AExpr) : size e ≤ (printTop extra e).length := by
  induction e with
  | opnd s => simp [size, printTop]
  | add l r ihl ihr | sub l r ihl ihr | mul l r ihl ihr | div l r ihl ihr =>
    simp only [size, printTop, List.length_append, List.length_cons]
    have hw : ∀ need x, (printTop extra x).length ≤ (wrap extra need x.level (printTop extra x)).length := by
      intro need x; unfold wrap; split <;> simp <;> omega
    have h1 := hw 0 l; have h2 := hw 1 r; have h3 := hw 1 l; have h4 := hw 2 r
    omega

/-- with fuel `8 * length + 8` the round trip succeeds -/
theorem roundtrip (e : AExpr) : parseSum (8 * (printA extra e).length + 8) (printA extra e) = some (e, []) := by
  have hf := (roundtrip_main extra e).2.2 [] (e, []) 1 trivial (by simp [sumLoop])
  have hs := size_le_length extra e
  have := sum_le (g := 8 * (printA extra e).length + 8) (by simp only [printA]; omega) hf
  simpa [printA] using this
end Main

end Kolibrie.Arith
