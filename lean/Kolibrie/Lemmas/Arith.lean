import Kolibrie.Model.Arith
/-! helper lemmas for the arithmetic-chain theorem of Props/C16 -/
namespace Kolibrie.Arith

def chainToks (xs : List String) : List Tok := xs.flatMap (fun x => [Tok.op '-', Tok.atom x])

theorem productLoop_stop_nil (f : Nat) (e : AExpr) : productLoop (f + 1) e [] = some (e, []) := by
  simp [productLoop]

theorem productLoop_stop_minus (f : Nat) (e : AExpr) (rest : List Tok) :
    productLoop (f + 1) e (Tok.op '-' :: rest) = some (e, Tok.op '-' :: rest) := by
  simp [productLoop]

theorem parseProduct_atom (f : Nat) (x : String) (xs : List String) :
    parseProduct (f + 2) (Tok.atom x :: chainToks xs) = some (.opnd x, chainToks xs) := by
  cases xs with
  | nil => simp [parseProduct, parseOperand, chainToks, productLoop]
  | cons y ys => simp [parseProduct, parseOperand, chainToks, productLoop]

theorem sumLoop_chain (xs : List String) : ∀ (acc : AExpr) (fuel : Nat), 3 * xs.length + 3 ≤ fuel →
    sumLoop fuel acc (chainToks xs) = some (xs.foldl (fun a x => .sub a (.opnd x)) acc, []) := by
  induction xs with
  | nil =>
    intro acc fuel h
    obtain ⟨f, rfl⟩ : ∃ f, fuel = f + 1 := ⟨fuel - 1, by omega⟩
    simp [chainToks, sumLoop]
  | cons x xs ih =>
    intro acc fuel h
    obtain ⟨f, rfl⟩ : ∃ f, fuel = f + 3 := ⟨fuel - 3, by simp at h; omega⟩
    have hp := parseProduct_atom f x xs
    have : chainToks (x :: xs) = Tok.op '-' :: Tok.atom x :: chainToks xs := by simp [chainToks]
    rw [this]
    simp only [sumLoop]
    simp [hp]
    exact ih _ _ (by simp at h; omega)


end Kolibrie.Arith
