import Kolibrie.Lemmas.RepairSearch
/-! Enumeration of repairs in the specification, the IAR query, repair-aware materialisation (C19). -/
namespace Kolibrie.Repairs
open Kolibrie.Terms Kolibrie.RepairSpec

section
variable {α : Type}

theorem subs_subset : ∀ (F S : List α), S ∈ subs F → S ⊆ F := by
  intro F
  induction F with
  | nil => intro S h; simp [subs] at h; subst h; simp
  | cons a F ih =>
    intro S h
    simp only [subs, List.mem_append, List.mem_map] at h
    rcases h with ⟨S', hS', rfl⟩ | h
    · intro x hx
      rcases List.mem_cons.1 hx with rfl | hx
      · simp
      · exact List.mem_cons_of_mem _ (ih S' hS' hx)
    · exact fun x hx => List.mem_cons_of_mem _ (ih S h hx)

theorem filter_mem_subs (p : α → Bool) : ∀ F : List α, F.filter p ∈ subs F := by
  intro F
  induction F with
  | nil => simp [subs]
  | cons a F ih =>
    simp only [subs, List.filter_cons, List.mem_append, List.mem_map]
    cases p a
    · exact Or.inr (by simpa using ih)
    · exact Or.inl ⟨_, ih, by simp⟩

variable [DecidableEq α]

theorem allRepairs_iff {viol : List α → Bool} (hv : SetInv viol) (F S : List α) :
    S ∈ allRepairs viol F ↔ S ∈ subs F ∧ IsRepair viol F S := by
  simp only [allRepairs, List.mem_filter, Bool.and_eq_true, Bool.not_eq_true', List.all_eq_true,
    Bool.or_eq_true]
  constructor
  · rintro ⟨hS, hcons, hmax⟩
    refine ⟨hS, subs_subset F S hS, hcons, ?_⟩
    intro T hTF hST hT
    -- normalise T to a sublist of F
    have hmem : ∀ x, x ∈ F.filter (fun x => decide (x ∈ T)) ↔ x ∈ T := by
      intro x; simp only [List.mem_filter, decide_eq_true_eq]; exact ⟨fun h => h.2, fun h => ⟨hTF h, h⟩⟩
    have hT' : viol (F.filter fun x => decide (x ∈ T)) = false := by rw [hv _ T hmem]; exact hT
    rcases hmax _ (filter_mem_subs _ F) with (h | h) | h
    · have : sup (F.filter fun x => decide (x ∈ T)) S = true :=
        sup_iff.2 fun x hx => (hmem x).2 (hST hx)
      rw [this] at h; cases h
    · rw [hT'] at h; cases h
    · exact fun x hx => sup_iff.1 h ((hmem x).2 hx)
  · rintro ⟨hS, _, hcons, hmax⟩
    refine ⟨hS, hcons, ?_⟩
    intro T hT
    cases h1 : sup T S with
    | false => simp
    | true =>
      cases h2 : viol T with
      | true => simp
      | false =>
        exact Or.inr (sup_iff.2 (hmax T (subs_subset F T hT) (sup_iff.1 h1) h2))

omit [DecidableEq α] in
theorem maxByLen_mem : ∀ (l : List (List α)) (b : List α), maxByLen l = some b → b ∈ l := by
  intro l b h
  cases l with
  | nil => simp [maxByLen] at h
  | cons r rs =>
    simp only [maxByLen, Option.some.injEq] at h
    subst h
    have : ∀ (rs : List (List α)) (r : List α),
        rs.foldl (fun best x => if x.length ≥ best.length then x else best) r ∈ r :: rs := by
      intro rs
      induction rs with
      | nil => intro r; simp
      | cons x rs ih =>
        intro r
        simp only [List.foldl_cons]
        have := ih (if x.length ≥ r.length then x else r)
        rcases List.mem_cons.1 this with h | h
        · rw [h]; split <;> simp
        · simp [h]
    exact this rs r

end

/-! ### query -/

theorem queryWithRepairs_spec {viol : List Fact → Bool} {F : List Fact} {R : List (List Fact)}
    (h0 : viol [] = false) (hs : ∀ r ∈ R, IsRepair viol F r) (hc : ∀ S, IsRepair viol F S → Repr' R S)
    (q : Pattern) (b : Binding) :
    b ∈ queryWithRepairs R q ↔ ∃ f, matchPat q f [] = some b ∧ ∀ S, IsRepair viol F S → f ∈ S := by
  cases R with
  | nil =>
    obtain ⟨S, hS⟩ := exists_repair (viol := viol) (F := F) h0
    obtain ⟨r, hr, _⟩ := hc S hS
    simp at hr
  | cons first rest =>
    simp only [queryWithRepairs, List.mem_filter, List.mem_filterMap, List.all_eq_true, List.any_eq_true,
      beq_iff_eq]
    constructor
    · rintro ⟨⟨f, hf, hm⟩, hall⟩
      refine ⟨f, hm, ?_⟩
      intro S hS
      obtain ⟨r, hr, _, hrS⟩ := hc S hS
      rcases List.mem_cons.1 hr with rfl | hr
      · exact hrS hf
      · obtain ⟨f', hf', hm'⟩ := hall r hr
        rw [matchPat_inj hm hm']; exact hrS hf'
    · rintro ⟨f, hm, hall⟩
      refine ⟨⟨f, hall first (hs first (by simp)), hm⟩, ?_⟩
      intro r hr
      exact ⟨f, hall r (hs r (by simp [hr])), hm⟩

/-! ### materialisation -/

theorem addCandidate_consistent (C : List (List Pattern)) (a : Acc) (f : Fact)
    (h : violates C a.all = false) : violates C (addCandidate C a f).all = false := by
  unfold addCandidate
  by_cases hf : f ∈ a.all
  · simp only [hf, ↓reduceIte, not_true_eq_false]; split <;> exact h
  · simp only [hf, ↓reduceIte, not_false_eq_true]
    cases hv : violates C (a.all ++ [f]) <;> simp [hv, h]

theorem foldl_inv {β γ : Type} (P : β → Prop) (f : β → γ → β) (hf : ∀ b c, P b → P (f b c)) :
    ∀ (l : List γ) (b : β), P b → P (l.foldl f b) := by
  intro l
  induction l with
  | nil => intro b h; exact h
  | cons c l ih => intro b h; exact ih _ (hf b c h)

theorem inferRound_consistent (C : List (List Pattern)) (rules : List Rule) (ord : List Binding → List Binding)
    (all delta inferred : List Fact) (h : violates C all = false) :
    violates C (inferRound C rules ord all delta inferred).all = false := by
  unfold inferRound
  apply foldl_inv (fun a : Acc => violates C a.all = false)
  · intro a rule ha
    apply foldl_inv (fun a : Acc => violates C a.all = false)
    · intro a b ha
      apply foldl_inv (fun a : Acc => violates C a.all = false)
      · intro a c ha; exact addCandidate_consistent C a _ ha
      · exact ha
    · exact ha
  · exact h

theorem inferLoop_consistent (C : List (List Pattern)) (rules : List Rule) (ord : List Binding → List Binding) :
    ∀ (fuel : Nat) (all delta inferred : List Fact) (res : List Fact × List Fact),
      violates C all = false → inferLoop C rules ord fuel all delta inferred = some res →
      violates C res.1 = false := by
  intro fuel
  induction fuel with
  | zero => intro all delta inferred res _ h; simp [inferLoop] at h
  | succ n ih =>
    intro all delta inferred res hall h
    simp only [inferLoop] at h
    have hr := inferRound_consistent C rules ord all delta inferred hall
    split at h
    · cases h; exact hr
    · exact ih _ _ _ res hr h

end Kolibrie.Repairs
