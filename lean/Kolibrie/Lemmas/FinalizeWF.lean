import Kolibrie.Lemmas.Filters
/-! `finalize_subquery` keeps rows canonical (used by the sub-select case of the lowering-soundness theorem) -/
namespace Kolibrie.Engine
open List

theorem mem_insertBy (order : List (Var × Bool)) (x : Row) (l : List Row) (r : Row) :
    r ∈ insertBy order x l → r = x ∨ r ∈ l := by
  induction l with
  | nil => intro h; simp [insertBy] at h; exact Or.inl h
  | cons y ys ih =>
    intro h
    unfold insertBy at h
    split at h
    · simpa using h
    · simp only [mem_cons] at h ⊢
      rcases h with h | h
      · exact Or.inr (Or.inl h)
      · rcases ih h with h | h
        · exact Or.inl h
        · exact Or.inr (Or.inr h)

theorem mem_sortRows (order : List (Var × Bool)) (rows : List Row) (r : Row) : r ∈ sortRows order rows → r ∈ rows := by
  induction rows with
  | nil => intro h; simp [sortRows] at h
  | cons x xs ih =>
    intro h
    simp only [sortRows, foldr_cons] at h
    rcases mem_insertBy order x _ r h with h | h
    · exact mem_cons.2 (Or.inl h)
    · exact mem_cons.2 (Or.inr (ih h))

theorem aggregate_wf (aggs : List ProjItem) (gv : List Var) (rows : List Row) (h : AllWF rows) :
    AllWF (aggregate aggs gv rows) := by
  unfold aggregate
  simp only
  split
  · exact h
  · intro r hr
    simp only [mem_map] at hr
    obtain ⟨grp, hg, rfl⟩ := hr
    have hbase : Row.WF (grp.head?.getD []) := by
      have hgrp : ∀ x ∈ grp, Row.WF x := by
        split at hg
        · simp at hg; subst hg; intro x hx; simp at hx
        · simp only [groupRows, mem_map] at hg
          obtain ⟨k, _, rfl⟩ := hg
          intro x hx
          exact h x (mem_filter.1 hx).1
      cases grp with
      | nil => exact Row.wf_nil
      | cons a as => simpa using hgrp a (by simp)
    generalize grp.head?.getD [] = base at hbase
    generalize (aggs.filter _) = l
    induction l generalizing base with
    | nil => simpa using hbase
    | cons p ps ih =>
      simp only [foldl_cons]
      apply ih
      cases p with
      | var _ => exact hbase
      | agg k input out =>
        simp only
        split
        · exact Row.wf_insert _ _ _ hbase
        · exact wf_erase _ _ hbase

theorem allWF_take {l : List Row} (n : Nat) (h : AllWF l) : AllWF (l.take n) :=
  fun r hr => h r (List.mem_of_mem_take hr)
theorem allWF_eraseDups {l : List Row} (h : AllWF l) : AllWF l.eraseDups :=
  fun r hr => h r (List.mem_eraseDups.1 hr)
theorem allWF_restrict {l : List Row} (vs : List Var) (h : AllWF l) : AllWF (l.map (fun r => Row.restrict r vs)) := by
  intro r hr; simp only [mem_map] at hr; obtain ⟨x, hx, rfl⟩ := hr; exact wf_restrict _ _ (h x hx)
theorem allWF_sortRows {l : List Row} (order : List (Var × Bool)) (h : AllWF l) : AllWF (sortRows order l) :=
  fun r hr => h r (mem_sortRows _ _ _ hr)

theorem finalizeSub_wf (spec : Spec) (rows : List Row) (h : AllWF rows) : AllWF (finalizeSub spec rows) := by
  have h1 := aggregate_wf (spec.proj.getD []) spec.groupVars rows h
  unfold finalizeSub
  simp only
  repeat' (first
    | exact h1
    | apply allWF_take
    | apply allWF_eraseDups
    | apply allWF_restrict
    | apply allWF_sortRows
    | split)
end Kolibrie.Engine
