import Kolibrie.Lemmas.Filters
import Kolibrie.Lemmas.FinalizeWF
/-! The lowering is sound: the all-bind-join reference plan of a lowered group pattern computes the algebra's
    solutions (fragment: BGPs, nested groups with group-scoped FILTERs, UNION, GRAPH <iri>/?g, VALUES). -/
namespace Kolibrie.Engine
open List

/-- the reference implementation used to relate plans to the algebra: every join is a bind join -/
def implBind : Logical → Plan
  | .unit => .unit
  | .empty => .empty
  | .scan pat => .scan pat
  | .union l r => .union (implBind l) (implBind r)
  | .graph i g => .graph (implBind i) g
  | .filter i c => .filter (implBind i) c
  | .join l r => .bindJoin (implBind l) (implBind r)
  | .values vars rows => .values vars rows
  | .subquery i spec => .subquery (implBind i) spec
  | .bind i args out => .bind (implBind i) args out

theorem implement_allBind (L : Logical) (n : Nat) :
    ∃ m, implement (List.replicate (n + m) JoinAlg.bind) L = (implBind L, List.replicate n JoinAlg.bind) := by
  induction L generalizing n with
  | unit => exact ⟨0, rfl⟩
  | empty => exact ⟨0, rfl⟩
  | scan _ => exact ⟨0, rfl⟩
  | values _ _ => exact ⟨0, rfl⟩
  | union l r ihl ihr =>
    obtain ⟨mr, hr⟩ := ihr n
    obtain ⟨ml, hl⟩ := ihl (n + mr)
    refine ⟨mr + ml, ?_⟩
    simp only [implement, implBind]
    rw [show n + (mr + ml) = n + mr + ml by omega, hl, hr]
  | graph i g ih => obtain ⟨m, h⟩ := ih n; exact ⟨m, by simp only [implement, implBind, h]⟩
  | filter i c ih => obtain ⟨m, h⟩ := ih n; exact ⟨m, by simp only [implement, implBind, h]⟩
  | subquery i spec ih => obtain ⟨m, h⟩ := ih n; exact ⟨m, by simp only [implement, implBind, h]⟩
  | bind i args out ih => obtain ⟨m, h⟩ := ih n; exact ⟨m, by simp only [implement, implBind, h]⟩
  | join l r ihl ihr =>
    obtain ⟨mr, hr⟩ := ihr n
    obtain ⟨ml, hl⟩ := ihl (n + mr)
    refine ⟨mr + ml + 1, ?_⟩
    have e : n + (mr + ml + 1) = (n + mr + ml) + 1 := by omega
    simp only [implement, implBind, e, List.replicate_succ, List.head?_cons, Option.getD_some, List.tail_cons,
      hl, hr, mkJoin]

/-- the unit elimination of `append_join` is invisible to the executor -/
theorem exec_appendJoin (db : DB) (a b : Logical) (ctx : Ctx) (inc : List Row) :
    exec db (implBind (appendJoin a b)) ctx inc = exec db (implBind b) ctx (exec db (implBind a) ctx inc) := by
  unfold appendJoin
  split
  · simp [implBind, exec_unit]
  · simp [implBind, exec_unit]
  · simp [implBind, exec_bindJoin]

/-! ### graph scope carried on scans = active graph of the algebra -/

/-- the situation in which a lowered pattern with graph scope `scope` is executed -/
def ScopeOK (db : DB) (scope : GTerm) (ctx : Ctx) (inc : List Row) : Prop :=
  match scope with
  | .dflt => True
  | .named g => ctx.active = some g ∧ visibleNamed db ctx g = true
  | .var v => ∃ g, ctx.active = some g ∧ visibleNamed db ctx g = true ∧ ∀ r ∈ inc, Row.get r v = some g

theorem graphSeed_bound (v : Var) (g : Val) (row : Row) (h : Row.get row v = some g) :
    graphSeed (some (v, g)) row = some row := by
  simp [graphSeed, h]

theorem scanRow_scope (db : DB) (ctx : Ctx) (s p o : Term) (scope : GTerm) (row : Row)
    (h : ScopeOK db scope ctx [row]) :
    scanRow db ctx ⟨s, p, o, scope⟩ row = scanRow db ctx ⟨s, p, o, .dflt⟩ row := by
  cases scope with
  | dflt => rfl
  | named g =>
    obtain ⟨ha, hv⟩ := h
    simp only [scanRow, ha, hv, if_true]
    unfold scanOneGraph queryGraph boundOf
    rfl
  | var v =>
    obtain ⟨g, ha, hv, hr⟩ := h
    have hg := hr row (by simp)
    simp only [scanRow, ha, hg, hv, if_true]
    unfold scanOneGraph
    rw [graphSeed_bound v g row hg]
    simp only [graphSeed]
    rfl

theorem scopeOK_of_extends (db : DB) (scope : GTerm) (ctx : Ctx) (inc acc : List Row)
    (h : ScopeOK db scope ctx inc) (he : ∀ b ∈ acc, ∃ i ∈ inc, Extends i b) : ScopeOK db scope ctx acc := by
  cases scope with
  | dflt => trivial
  | named g => exact h
  | var v =>
    obtain ⟨g, ha, hv, hr⟩ := h
    refine ⟨g, ha, hv, ?_⟩
    intro b hb
    obtain ⟨i, hi, hext⟩ := he b hb
    exact hext v g (hr i hi)

theorem scan_scope (db : DB) (ctx : Ctx) (s p o : Term) (scope : GTerm) (inc : List Row)
    (h : ScopeOK db scope ctx inc) :
    scan db ctx ⟨s, p, o, scope⟩ inc = scan db ctx ⟨s, p, o, .dflt⟩ inc := by
  unfold scan
  apply flatMap_congr'
  intro row hrow
  apply scanRow_scope
  exact scopeOK_of_extends db scope ctx inc [row] h (fun b hb => by
    simp at hb; subst hb; exact ⟨b, hrow, extends_refl b⟩)


/-! ### plans without projection / BIND only extend rows -/

def plain : Plan → Bool
  | .unit => true
  | .empty => true
  | .scan _ => true
  | .star _ => true
  | .values _ _ => true
  | .subquery _ _ => true
  | .union l r => plain l && plain r
  | .bindJoin l r => plain l && plain r
  | .hashJoin l r => plain l && plain r
  | .nlJoin l r => plain l && plain r
  | .graph i _ => plain i
  | .filter i _ => plain i
  | .project _ _ => false
  | .bind _ _ _ => false

/-- turn every filter into a trivially safe one: `exec_facts` does not look at filter conditions -/
theorem exec_extends_plain (db : DB) (p : Plan) (hp : plain p = true) :
    ∀ (ctx : Ctx) (inc : List Row), AllWF inc → ∀ b ∈ exec db p ctx inc,
      (∃ i ∈ inc, Extends i b) ∧ ∀ v ∈ planCertain p, (Row.get b v).isSome = true := by
  induction p with
  | unit => intro ctx inc hi; exact exec_facts db .unit rfl ctx inc hi
  | empty => intro ctx inc hi; exact exec_facts db .empty rfl ctx inc hi
  | scan pat => intro ctx inc hi; exact exec_facts db (.scan pat) rfl ctx inc hi
  | star pats => intro ctx inc hi; exact exec_facts db (.star pats) rfl ctx inc hi
  | values a b => intro ctx inc hi; exact exec_facts db (.values a b) rfl ctx inc hi
  | subquery i spec _ => intro ctx inc hi; exact exec_facts db (.subquery i spec) rfl ctx inc hi
  | project _ _ _ => simp [plain] at hp
  | bind _ _ _ _ => simp [plain] at hp
  | filter i c ih =>
    intro ctx inc hi b hb
    simp only [plain] at hp
    rw [exec_filter] at hb
    exact ih hp ctx inc hi b (mem_filter.1 hb).1
  | union l r ihl ihr =>
    intro ctx inc hi b hb
    simp only [plain, Bool.and_eq_true] at hp
    rw [exec_union] at hb
    rcases mem_append.1 hb with hb | hb
    · obtain ⟨h1, h2⟩ := ihl hp.1 ctx inc hi b hb
      exact ⟨h1, fun v hv => h2 v (by simp [planCertain] at hv; exact hv.1)⟩
    · obtain ⟨h1, h2⟩ := ihr hp.2 ctx inc hi b hb
      exact ⟨h1, fun v hv => h2 v (by simp [planCertain] at hv; exact hv.2)⟩
  | graph i g ih =>
    intro ctx inc hi b hb
    simp only [plain] at hp
    rw [exec_graph] at hb
    cases g with
    | dflt => exact ih hp _ inc hi b hb
    | named gn =>
      simp only at hb
      split at hb
      · exact ih hp _ inc hi b hb
      · simp at hb
    | var v =>
      simp only at hb
      obtain ⟨row, hrow, hb'⟩ := mem_flatMap.1 hb
      unfold graphVarRow at hb'
      cases hg : Row.get row v with
      | none =>
        rw [hg] at hb'; simp only at hb'
        obtain ⟨g, _, hb''⟩ := mem_flatMap.1 hb'
        have hw : AllWF [Row.insert row v g] := fun r hr => by
          simp at hr; subst hr; exact Row.wf_insert row v g (hi row hrow)
        obtain ⟨⟨i', hi', hext⟩, hc⟩ := ih hp _ _ hw b hb''
        simp at hi'; subst hi'
        refine ⟨⟨row, hrow, ?_⟩, hc⟩
        intro w x hw'
        apply hext
        by_cases hwv : w = v
        · subst hwv; rw [hg] at hw'; cases hw'
        · rw [Row.get_insert_ne _ _ _ _ hwv]; exact hw'
      | some g =>
        rw [hg] at hb'; simp only at hb'
        split at hb'
        · have hw : AllWF [row] := fun r hr => by simp at hr; rw [hr]; exact hi row hrow
          obtain ⟨⟨i', hi', hext⟩, hc⟩ := ih hp _ _ hw b hb'
          simp at hi'; subst hi'
          exact ⟨⟨i', hrow, hext⟩, hc⟩
        · simp at hb'
  | bindJoin l r ihl ihr =>
    intro ctx inc hi b hb
    simp only [plain, Bool.and_eq_true] at hp
    rw [exec_bindJoin] at hb
    obtain ⟨⟨m, hm, hext⟩, hc⟩ := ihr hp.2 ctx _ (exec_wf db l ctx inc hi) b hb
    obtain ⟨⟨i, hi', hext'⟩, hc'⟩ := ihl hp.1 ctx inc hi m hm
    refine ⟨⟨i, hi', extends_trans hext' hext⟩, ?_⟩
    intro v hv
    simp only [planCertain, mem_append] at hv
    rcases hv with hv | hv
    · exact hext.isSome v (hc' v hv)
    · exact hc v hv
  | hashJoin l r ihl ihr =>
    intro ctx inc hi b hb
    simp only [plain, Bool.and_eq_true] at hp
    rw [exec_hashJoin] at hb
    have hb2 : b ∈ nlJoin (exec db l ctx inc) (exec db r ctx [[]]) := (guarded_hash_perm _ _).subset hb
    unfold nlJoin at hb2
    obtain ⟨m, hm, hb'⟩ := mem_flatMap.1 hb2
    obtain ⟨n, hn, hmn⟩ := mem_filterMap.1 hb'
    obtain ⟨⟨i, hi', hext'⟩, hc'⟩ := ihl hp.1 ctx inc hi m hm
    obtain ⟨_, hcr⟩ := ihr hp.2 ctx [[]] allWF_unit n hn
    obtain ⟨e1, e2⟩ := mergeRows_extends m n b (exec_wf db l ctx inc hi m hm) hmn
    refine ⟨⟨i, hi', extends_trans hext' e1⟩, ?_⟩
    intro v hv
    simp only [planCertain, mem_append] at hv
    rcases hv with hv | hv
    · exact e1.isSome v (hc' v hv)
    · exact e2.isSome v (hcr v hv)
  | nlJoin l r ihl ihr =>
    intro ctx inc hi b hb
    simp only [plain, Bool.and_eq_true] at hp
    rw [exec_nlJoin, hash_or_nl_empty] at hb
    unfold nlJoin at hb
    obtain ⟨m, hm, hb'⟩ := mem_flatMap.1 hb
    obtain ⟨n, hn, hmn⟩ := mem_filterMap.1 hb'
    obtain ⟨⟨i, hi', hext'⟩, hc'⟩ := ihl hp.1 ctx inc hi m hm
    obtain ⟨_, hcr⟩ := ihr hp.2 ctx [[]] allWF_unit n hn
    obtain ⟨e1, e2⟩ := mergeRows_extends m n b (exec_wf db l ctx inc hi m hm) hmn
    refine ⟨⟨i, hi', extends_trans hext' e1⟩, ?_⟩
    intro v hv
    simp only [planCertain, mem_append] at hv
    rcases hv with hv | hv
    · exact e1.isSome v (hc' v hv)
    · exact e2.isSome v (hcr v hv)


/-! ### the fragment -/

mutual
/-- variables certainly bound by a pattern, computed the way `planCertain` sees its lowering -/
def certainP : Pat → List Var
  | .unit => []
  | .bgp tps => tps.flatMap (fun t => termVar t.1 ++ termVar t.2.1 ++ termVar t.2.2)
  | .group elems => certainPs elems
  | .union bs => certainPU bs
  | .graph _ p => certainP p
  | .filter _ => []
  | .bind _ _ => []
  | .values _ _ => []
  | .sub _ _ => []
def certainPs : List Pat → List Var
  | [] => []
  | p :: rest => certainP p ++ certainPs rest
def certainPU : List Pat → List Var
  | [] => []
  | p :: rest => (certainP p).filter (fun v => (certainPU rest).contains v)
end

def filtersOk (cert : List Var) : List Pat → Bool
  | [] => true
  | .filter c :: rest => c.vars.all (fun v => cert.contains v) && filtersOk cert rest
  | _ :: rest => filtersOk cert rest

/-- the sub-selects of the fragment: any solution modifiers (aggregates, GROUP BY, ORDER BY, DISTINCT, LIMIT, projection)
    over a single triple pattern (a join-free inner plan: the optimizer has no choice inside) -/
def okSub : Pat → Bool
  | .bgp [_] => true
  | _ => false

theorem okSub_shape (q : Pat) (h : okSub q = true) : ∃ t, q = .bgp [t] := by
  unfold okSub at h
  split at h
  · exact ⟨_, rfl⟩
  · simp at h

mutual
/-- the fragment of the lowering-soundness theorem: BGPs, nested groups whose FILTERs only mention variables the
    group certainly binds, UNION, GRAPH <iri> / GRAPH ?g, VALUES, sub-selects over one triple pattern (no BIND) -/
def okPat : Pat → Bool
  | .unit => true
  | .bgp _ => true
  | .group elems => okElems elems && filtersOk (certainPs elems) elems
  | .union bs => okAll bs
  | .graph name p => (match name with | .dflt => false | _ => true) && okPat p
  | .filter _ => false
  | .bind _ _ => false
  | .values _ _ => true
  | .sub q _ => okSub q
def okElems : List Pat → Bool
  | [] => true
  | .filter _ :: rest => okElems rest
  | p :: rest => okPat p && okElems rest
def okAll : List Pat → Bool
  | [] => true
  | p :: rest => okPat p && okAll rest
end

/-- the executor on the elements of a group, one after the other (FILTERs are deferred) -/
def runGroup (db : DB) (scope : GTerm) (ctx : Ctx) (acc : List Row) : List Pat → List Row
  | [] => acc
  | .filter _ :: rest => runGroup db scope ctx acc rest
  | p :: rest => runGroup db scope ctx (exec db (implBind (lower scope p)) ctx acc) rest

theorem lowerGroup_exec (db : DB) (scope : GTerm) (ctx : Ctx) (elems : List Pat) (he : okElems elems = true) :
    ∀ (plan : Logical) (inc : List Row),
      exec db (implBind (lowerGroup scope plan elems)) ctx inc =
        runGroup db scope ctx (exec db (implBind plan) ctx inc) elems := by
  induction elems with
  | nil => intro plan inc; simp [lowerGroup, runGroup]
  | cons e rest ih =>
    intro plan inc
    cases e with
    | filter c =>
      simp only [okElems] at he
      simp only [lowerGroup, runGroup]; exact ih he plan inc
    | bind args out => simp [okElems, okPat] at he
    | unit =>
      simp only [okElems, Bool.and_eq_true] at he
      simp only [lowerGroup, runGroup, ih he.2, exec_appendJoin]
    | bgp tps =>
      simp only [okElems, Bool.and_eq_true] at he
      simp only [lowerGroup, runGroup, ih he.2, exec_appendJoin]
    | group es =>
      simp only [okElems, Bool.and_eq_true] at he
      simp only [lowerGroup, runGroup, ih he.2, exec_appendJoin]
    | union bs =>
      simp only [okElems, Bool.and_eq_true] at he
      simp only [lowerGroup, runGroup, ih he.2, exec_appendJoin]
    | graph n q =>
      simp only [okElems, Bool.and_eq_true] at he
      simp only [lowerGroup, runGroup, ih he.2, exec_appendJoin]
    | values vs rs =>
      simp only [okElems, Bool.and_eq_true] at he
      simp only [lowerGroup, runGroup, ih he.2, exec_appendJoin]
    | sub q spec =>
      simp only [okElems, Bool.and_eq_true] at he
      simp only [lowerGroup, runGroup, ih he.2, exec_appendJoin]

theorem lowerFilters_execB (db : DB) (ctx : Ctx) (inc : List Row) (plan : Logical) (elems : List Pat) :
    exec db (implBind (lowerFilters plan elems)) ctx inc = implFilters (exec db (implBind plan) ctx inc) elems := by
  induction elems generalizing plan with
  | nil => simp [lowerFilters, implFilters]
  | cons e rest ih =>
    cases e <;> simp only [lowerFilters, implFilters, ih, implBind, exec_filter]

/-! ### folds of joins -/

theorem fold_nlJoin_assoc {α} (xs : List α) (f : α → List Row) (hf : ∀ x ∈ xs, AllWF (f x))
    (acc B : List Row) (ha : AllWF acc) (hB : AllWF B) :
    xs.foldl (fun a x => nlJoin a (f x)) (nlJoin acc B) = nlJoin acc (xs.foldl (fun a x => nlJoin a (f x)) B) := by
  induction xs generalizing B with
  | nil => rfl
  | cons x xs ih =>
    simp only [foldl_cons]
    rw [nlJoin_assoc acc B (f x) ha hB]
    exact ih (fun y hy => hf y (by simp [hy])) _ (nlJoin_wf B (f x) hB)

theorem semGroup_assoc (db : DB) (ctx : Ctx) (elems : List Pat) (acc B : List Row) (ha : AllWF acc)
    (hB : AllWF B) (hne : ∀ args out, Pat.bind args out ∉ elems) :
    semGroup db ctx (nlJoin acc B) elems = nlJoin acc (semGroup db ctx B elems) := by
  induction elems generalizing B with
  | nil => simp [semGroup]
  | cons e rest ih =>
    have hne' : ∀ args out, Pat.bind args out ∉ rest := fun a o h => hne a o (by simp [h])
    cases e with
    | filter c => simp only [semGroup]; exact ih B hB hne'
    | bind args out => exact absurd (by simp) (hne args out)
    | unit =>
      simp only [semGroup]
      rw [nlJoin_assoc acc B _ ha hB]; exact ih _ (nlJoin_wf B _ hB) hne'
    | bgp tps =>
      simp only [semGroup]
      rw [nlJoin_assoc acc B _ ha hB]; exact ih _ (nlJoin_wf B _ hB) hne'
    | group es =>
      simp only [semGroup]
      rw [nlJoin_assoc acc B _ ha hB]; exact ih _ (nlJoin_wf B _ hB) hne'
    | union bs =>
      simp only [semGroup]
      rw [nlJoin_assoc acc B _ ha hB]; exact ih _ (nlJoin_wf B _ hB) hne'
    | graph n q =>
      simp only [semGroup]
      rw [nlJoin_assoc acc B _ ha hB]; exact ih _ (nlJoin_wf B _ hB) hne'
    | values vs rs =>
      simp only [semGroup]
      rw [nlJoin_assoc acc B _ ha hB]; exact ih _ (nlJoin_wf B _ hB) hne'
    | sub q spec =>
      simp only [semGroup]
      rw [nlJoin_assoc acc B _ ha hB]; exact ih _ (nlJoin_wf B _ hB) hne'

theorem implFilters_perm {a b : List Row} (elems : List Pat) (h : a ~ b) : implFilters a elems ~ implFilters b elems := by
  induction elems generalizing a b with
  | nil => exact h
  | cons e rest ih =>
    cases e with
    | filter c => simp only [implFilters]; exact ih (h.filter _)
    | _ => simp only [implFilters]; exact ih h

theorem implFilters_nlJoin (inc G : List Row) (elems : List Pat) (hi : AllWF inc)
    (hb : ∀ c, Pat.filter c ∈ elems → ∀ r ∈ G, ∀ v ∈ c.vars, (Row.get r v).isSome = true) :
    implFilters (nlJoin inc G) elems = nlJoin inc (implFilters G elems) := by
  induction elems generalizing G with
  | nil => rfl
  | cons e rest ih =>
    cases e with
    | filter c =>
      simp only [implFilters]
      rw [filter_nlJoin c inc G hi (hb c (by simp))]
      apply ih
      intro c' hc' r hr
      exact hb c' (by simp [hc']) r (mem_filter.1 hr).1
    | _ =>
      simp only [implFilters]
      apply ih
      intro c' hc' r hr
      exact hb c' (by simp [hc']) r hr


/-! ### lowered patterns of the fragment are plain, and bind the pattern's certain variables -/

theorem plain_appendJoin (a b : Logical) (ha : plain (implBind a) = true) (hb : plain (implBind b) = true) :
    plain (implBind (appendJoin a b)) = true := by
  unfold appendJoin; split <;> simp_all [implBind, plain]

theorem planCertain_appendJoin (a b : Logical) :
    planCertain (implBind (appendJoin a b)) = planCertain (implBind a) ++ planCertain (implBind b) := by
  unfold appendJoin; split <;> simp [implBind, planCertain]

theorem plain_lowerFilters (plan : Logical) (elems : List Pat) (h : plain (implBind plan) = true) :
    plain (implBind (lowerFilters plan elems)) = true := by
  induction elems generalizing plan with
  | nil => simpa [lowerFilters]
  | cons e rest ih => cases e <;> simp only [lowerFilters] <;> apply ih <;> simpa [implBind, plain] using h

theorem planCertain_lowerFilters (plan : Logical) (elems : List Pat) :
    planCertain (implBind (lowerFilters plan elems)) = planCertain (implBind plan) := by
  induction elems generalizing plan with
  | nil => simp [lowerFilters]
  | cons e rest ih => cases e <;> simp only [lowerFilters, ih, implBind, planCertain]

theorem bgp_fold_facts (scope : GTerm) (tps : List (Term × Term × Term)) (L0 : Logical)
    (h0 : plain (implBind L0) = true) :
    plain (implBind (tps.foldl (fun acc t => appendJoin acc (.scan ⟨t.1, t.2.1, t.2.2, scope⟩)) L0)) = true ∧
    ∀ v, (v ∈ planCertain (implBind L0) ∨ v ∈ tps.flatMap (fun t => termVar t.1 ++ termVar t.2.1 ++ termVar t.2.2)) →
      v ∈ planCertain (implBind (tps.foldl (fun acc t => appendJoin acc (.scan ⟨t.1, t.2.1, t.2.2, scope⟩)) L0)) := by
  induction tps generalizing L0 with
  | nil => exact ⟨h0, fun v hv => by simpa using hv⟩
  | cons t rest ih =>
    simp only [foldl_cons]
    have hp := plain_appendJoin L0 (.scan ⟨t.1, t.2.1, t.2.2, scope⟩) h0 rfl
    obtain ⟨h1, h2⟩ := ih _ hp
    refine ⟨h1, ?_⟩
    intro v hv
    apply h2
    rw [planCertain_appendJoin]
    simp only [flatMap_cons, mem_append] at hv ⊢
    rcases hv with hv | (hv | hv)
    · exact Or.inl (Or.inl hv)
    · exact Or.inl (Or.inr (by simpa [implBind, planCertain, mem_append, or_assoc] using hv))
    · exact Or.inr hv

theorem lower_bgp_eq (scope : GTerm) (tps : List (Term × Term × Term)) :
    lower scope (.bgp tps) = tps.foldl (fun acc t => appendJoin acc (.scan ⟨t.1, t.2.1, t.2.2, scope⟩)) .unit := by
  simp only [lower]

mutual
theorem lower_facts (scope : GTerm) : (p : Pat) → okPat p = true →
    plain (implBind (lower scope p)) = true ∧ ∀ v ∈ certainP p, v ∈ planCertain (implBind (lower scope p))
  | .unit, _ => ⟨rfl, fun v hv => by simp [certainP] at hv⟩
  | .bgp tps, _ => by
      rw [lower_bgp_eq]
      obtain ⟨h1, h2⟩ := bgp_fold_facts scope tps .unit rfl
      exact ⟨h1, fun v hv => h2 v (Or.inr (by simpa [certainP] using hv))⟩
  | .group elems, h => by
      simp only [okPat, Bool.and_eq_true] at h
      obtain ⟨h1, h2⟩ := lowerGroup_facts scope elems h.1 .unit rfl
      simp only [lower]
      refine ⟨plain_lowerFilters _ _ h1, ?_⟩
      intro v hv
      rw [planCertain_lowerFilters]
      exact h2 v (Or.inr (by simpa [certainP] using hv))
  | .union bs, h => by
      simp only [okPat] at h
      simp only [lower, certainP]
      exact lowerUnion_facts scope bs h
  | .graph name p, h => by
      simp only [okPat, Bool.and_eq_true] at h
      obtain ⟨h1, h2⟩ := lower_facts name p h.2
      simp only [lower, implBind, plain, planCertain, certainP]
      exact ⟨h1, h2⟩
  | .filter _, h => by simp [okPat] at h
  | .bind _ _, h => by simp [okPat] at h
  | .values vs rs, _ => ⟨rfl, fun v hv => by simp [certainP] at hv⟩
  | .sub q spec, _ => ⟨by simp only [lower, implBind, plain], fun v hv => by simp [certainP] at hv⟩

theorem lowerGroup_facts (scope : GTerm) : (elems : List Pat) → okElems elems = true → (plan : Logical) →
    plain (implBind plan) = true →
    plain (implBind (lowerGroup scope plan elems)) = true ∧
    ∀ v, (v ∈ planCertain (implBind plan) ∨ v ∈ certainPs elems) →
      v ∈ planCertain (implBind (lowerGroup scope plan elems))
  | [], _, plan, hp => ⟨by simpa [lowerGroup] using hp, fun v hv => by simpa [lowerGroup, certainPs] using hv⟩
  | e :: rest, he, plan, hp => by
      cases e with
      | filter c =>
        simp only [okElems] at he
        obtain ⟨h1, h2⟩ := lowerGroup_facts scope rest he plan hp
        simp only [lowerGroup]
        exact ⟨h1, fun v hv => h2 v (by simpa [certainPs, certainP] using hv)⟩
      | bind args out => simp [okElems, okPat] at he
      | sub q spec =>
        simp only [okElems, Bool.and_eq_true] at he
        obtain ⟨f1, f2⟩ := lower_facts scope (.sub q spec) he.1
        obtain ⟨h1, h2⟩ := lowerGroup_facts scope rest he.2 _ (plain_appendJoin plan _ hp f1)
        simp only [lowerGroup]
        refine ⟨h1, fun v hv => h2 v ?_⟩
        rw [planCertain_appendJoin]
        simp only [certainPs, mem_append] at hv ⊢
        rcases hv with hv | hv | hv
        · exact Or.inl (Or.inl hv)
        · exact Or.inl (Or.inr (f2 v hv))
        · exact Or.inr hv
      | unit =>
        simp only [okElems, Bool.and_eq_true] at he
        obtain ⟨f1, f2⟩ := lower_facts scope .unit he.1
        obtain ⟨h1, h2⟩ := lowerGroup_facts scope rest he.2 _ (plain_appendJoin plan _ hp f1)
        simp only [lowerGroup]
        refine ⟨h1, fun v hv => h2 v ?_⟩
        rw [planCertain_appendJoin]
        simp only [certainPs, mem_append] at hv ⊢
        rcases hv with hv | hv | hv
        · exact Or.inl (Or.inl hv)
        · exact Or.inl (Or.inr (f2 v hv))
        · exact Or.inr hv
      | bgp tps =>
        simp only [okElems, Bool.and_eq_true] at he
        obtain ⟨f1, f2⟩ := lower_facts scope (.bgp tps) he.1
        obtain ⟨h1, h2⟩ := lowerGroup_facts scope rest he.2 _ (plain_appendJoin plan _ hp f1)
        simp only [lowerGroup]
        refine ⟨h1, fun v hv => h2 v ?_⟩
        rw [planCertain_appendJoin]
        simp only [certainPs, mem_append] at hv ⊢
        rcases hv with hv | hv | hv
        · exact Or.inl (Or.inl hv)
        · exact Or.inl (Or.inr (f2 v hv))
        · exact Or.inr hv
      | group es =>
        simp only [okElems, Bool.and_eq_true] at he
        obtain ⟨f1, f2⟩ := lower_facts scope (.group es) he.1
        obtain ⟨h1, h2⟩ := lowerGroup_facts scope rest he.2 _ (plain_appendJoin plan _ hp f1)
        simp only [lowerGroup]
        refine ⟨h1, fun v hv => h2 v ?_⟩
        rw [planCertain_appendJoin]
        simp only [certainPs, mem_append] at hv ⊢
        rcases hv with hv | hv | hv
        · exact Or.inl (Or.inl hv)
        · exact Or.inl (Or.inr (f2 v hv))
        · exact Or.inr hv
      | union bs =>
        simp only [okElems, Bool.and_eq_true] at he
        obtain ⟨f1, f2⟩ := lower_facts scope (.union bs) he.1
        obtain ⟨h1, h2⟩ := lowerGroup_facts scope rest he.2 _ (plain_appendJoin plan _ hp f1)
        simp only [lowerGroup]
        refine ⟨h1, fun v hv => h2 v ?_⟩
        rw [planCertain_appendJoin]
        simp only [certainPs, mem_append] at hv ⊢
        rcases hv with hv | hv | hv
        · exact Or.inl (Or.inl hv)
        · exact Or.inl (Or.inr (f2 v hv))
        · exact Or.inr hv
      | graph n q =>
        simp only [okElems, Bool.and_eq_true] at he
        obtain ⟨f1, f2⟩ := lower_facts scope (.graph n q) he.1
        obtain ⟨h1, h2⟩ := lowerGroup_facts scope rest he.2 _ (plain_appendJoin plan _ hp f1)
        simp only [lowerGroup]
        refine ⟨h1, fun v hv => h2 v ?_⟩
        rw [planCertain_appendJoin]
        simp only [certainPs, mem_append] at hv ⊢
        rcases hv with hv | hv | hv
        · exact Or.inl (Or.inl hv)
        · exact Or.inl (Or.inr (f2 v hv))
        · exact Or.inr hv
      | values vs rs =>
        simp only [okElems, Bool.and_eq_true] at he
        obtain ⟨f1, f2⟩ := lower_facts scope (.values vs rs) he.1
        obtain ⟨h1, h2⟩ := lowerGroup_facts scope rest he.2 _ (plain_appendJoin plan _ hp f1)
        simp only [lowerGroup]
        refine ⟨h1, fun v hv => h2 v ?_⟩
        rw [planCertain_appendJoin]
        simp only [certainPs, mem_append] at hv ⊢
        rcases hv with hv | hv | hv
        · exact Or.inl (Or.inl hv)
        · exact Or.inl (Or.inr (f2 v hv))
        · exact Or.inr hv

theorem lowerUnion_facts (scope : GTerm) : (bs : List Pat) → okAll bs = true →
    plain (implBind (lowerUnion scope bs)) = true ∧
    ∀ v ∈ certainPU bs, v ∈ planCertain (implBind (lowerUnion scope bs))
  | [], _ => ⟨rfl, fun v hv => by simp [certainPU] at hv⟩
  | b :: rest, h => by
      simp only [okAll, Bool.and_eq_true] at h
      obtain ⟨f1, f2⟩ := lower_facts scope b h.1
      obtain ⟨g1, g2⟩ := lowerUnion_facts scope rest h.2
      simp only [lowerUnion, implBind, plain, planCertain, certainPU, f1, g1, Bool.and_self, true_and]
      intro v hv
      simp only [mem_filter, contains_eq_mem, decide_eq_true_eq] at hv ⊢
      exact ⟨f2 v hv.1, g2 v hv.2⟩
end


/-! ### rows of the algebra are canonical -/

theorem valuesRows_wf (vars : List Var) (rows : List (List (Option Val))) : AllWF (valuesRows vars rows) := by
  intro r hr
  unfold valuesRows at hr
  obtain ⟨cells, _, rfl⟩ := mem_map.1 hr
  generalize vars.zip cells = zs
  suffices h : ∀ (acc : Row), Row.WF acc → Row.WF (zs.foldl valuesStep acc) from h [] Row.wf_nil
  intro acc hacc
  induction zs generalizing acc with
  | nil => exact hacc
  | cons z zs ih =>
    simp only [foldl_cons]
    apply ih
    unfold valuesStep
    cases z.2 with
    | none => exact hacc
    | some y => exact Row.wf_insert acc z.1 y hacc

theorem nlJoin_extends (acc X : List Row) (ha : AllWF acc) : ∀ b ∈ nlJoin acc X, ∃ i ∈ acc, Extends i b := by
  intro b hb
  unfold nlJoin at hb
  obtain ⟨i, hi, hb'⟩ := mem_flatMap.1 hb
  obtain ⟨x, _, hm⟩ := mem_filterMap.1 hb'
  exact ⟨i, hi, (mergeRows_extends i x b (ha i hi) hm).1⟩

theorem bgp_fold_wf (db : DB) (ctx : Ctx) (tps : List (Term × Term × Term)) (acc : List Row) (hacc : AllWF acc) :
    AllWF (tps.foldl (fun acc (x : Term × Term × Term) => nlJoin acc (scan db ctx ⟨x.1, x.2.1, x.2.2, .dflt⟩ [[]])) acc) := by
  induction tps generalizing acc with
  | nil => exact hacc
  | cons t rest ih => simp only [foldl_cons]; exact ih _ (nlJoin_wf acc _ hacc)

mutual
theorem sem_wf (db : DB) : (p : Pat) → okPat p = true → ∀ ctx : Ctx, AllWF (sem db ctx p)
  | .unit, _, _ => by simp only [sem]; exact allWF_unit
  | .bgp tps, _, ctx => by
      simp only [sem]
      exact bgp_fold_wf db ctx tps [[]] allWF_unit
  | .group elems, h, ctx => by
      simp only [okPat, Bool.and_eq_true] at h
      simp only [sem]
      have hg := semGroup_wf db elems h.1 ctx [[]] allWF_unit
      generalize semGroup db ctx [[]] elems = G at hg
      clear h
      induction elems generalizing G with
      | nil => simpa [semFilters] using hg
      | cons e rest ih =>
        cases e with
        | filter c => simp only [semFilters]; exact ih _ (allWF_filter _ hg)
        | _ => simp only [semFilters]; exact ih _ hg
  | .union bs, h, ctx => by
      simp only [okPat] at h
      simp only [sem]; exact semUnion_wf db bs h ctx
  | .graph name p, h, ctx => by
      simp only [okPat, Bool.and_eq_true] at h
      simp only [sem]
      cases name with
      | dflt => simp at h
      | named g =>
        simp only
        split
        · exact sem_wf db p h.2 _
        · exact allWF_nil
      | var v =>
        simp only
        apply allWF_flatMap
        intro g _
        apply nlJoin_wf
        intro r hr; simp at hr; subst hr; exact wf_single v g
  | .filter _, h, _ => by simp [okPat] at h
  | .bind _ _, h, _ => by simp [okPat] at h
  | .values vs rs, _, _ => by simp only [sem]; exact valuesRows_wf vs rs
  | .sub q spec, h, ctx => by
      simp only [okPat] at h
      obtain ⟨t, rfl⟩ := okSub_shape q h
      simp only [sem]
      exact finalizeSub_wf spec _ (bgp_fold_wf db ctx [t] [[]] allWF_unit)

theorem semGroup_wf (db : DB) : (elems : List Pat) → okElems elems = true → ∀ (ctx : Ctx) (acc : List Row),
    AllWF acc → AllWF (semGroup db ctx acc elems)
  | [], _, _, acc, ha => by simpa [semGroup] using ha
  | e :: rest, he, ctx, acc, ha => by
      cases e with
      | filter c => simp only [okElems] at he; simp only [semGroup]; exact semGroup_wf db rest he ctx acc ha
      | bind args out => simp [okElems, okPat] at he
      | sub q spec => simp only [okElems, Bool.and_eq_true] at he; simp only [semGroup]; exact semGroup_wf db rest he.2 ctx _ (nlJoin_wf acc _ ha)
      | unit => simp only [okElems, Bool.and_eq_true] at he; simp only [semGroup]; exact semGroup_wf db rest he.2 ctx _ (nlJoin_wf acc _ ha)
      | bgp tps => simp only [okElems, Bool.and_eq_true] at he; simp only [semGroup]; exact semGroup_wf db rest he.2 ctx _ (nlJoin_wf acc _ ha)
      | group es => simp only [okElems, Bool.and_eq_true] at he; simp only [semGroup]; exact semGroup_wf db rest he.2 ctx _ (nlJoin_wf acc _ ha)
      | union bs => simp only [okElems, Bool.and_eq_true] at he; simp only [semGroup]; exact semGroup_wf db rest he.2 ctx _ (nlJoin_wf acc _ ha)
      | graph n q => simp only [okElems, Bool.and_eq_true] at he; simp only [semGroup]; exact semGroup_wf db rest he.2 ctx _ (nlJoin_wf acc _ ha)
      | values vs rs => simp only [okElems, Bool.and_eq_true] at he; simp only [semGroup]; exact semGroup_wf db rest he.2 ctx _ (nlJoin_wf acc _ ha)

theorem semUnion_wf (db : DB) : (bs : List Pat) → okAll bs = true → ∀ ctx : Ctx, AllWF (semUnion db ctx bs)
  | [], _, _ => by simp only [semUnion]; exact allWF_nil
  | b :: rest, h, ctx => by
      simp only [okAll, Bool.and_eq_true] at h
      simp only [semUnion]
      exact allWF_append (sem_wf db b h.1 ctx) (semUnion_wf db rest h.2 ctx)
end

theorem okElems_no_bind (elems : List Pat) (h : okElems elems = true) : ∀ args out, Pat.bind args out ∉ elems := by
  induction elems with
  | nil => intro a o hm; simp at hm
  | cons e rest ih =>
    intro a o hm
    cases e with
    | bind args out => simp [okElems, okPat] at h
    | filter c => simp only [okElems] at h; simp at hm; exact ih h a o hm
    | unit => simp only [okElems, Bool.and_eq_true] at h; simp at hm; exact ih h.2 a o hm
    | bgp _ => simp only [okElems, Bool.and_eq_true] at h; simp at hm; exact ih h.2 a o hm
    | group _ => simp only [okElems, Bool.and_eq_true] at h; simp at hm; exact ih h.2 a o hm
    | union _ => simp only [okElems, Bool.and_eq_true] at h; simp at hm; exact ih h.2 a o hm
    | graph _ _ => simp only [okElems, Bool.and_eq_true] at h; simp at hm; exact ih h.2 a o hm
    | values _ _ => simp only [okElems, Bool.and_eq_true] at h; simp at hm; exact ih h.2 a o hm
    | sub _ _ => simp only [okElems, Bool.and_eq_true] at h; simp at hm; exact ih h.2 a o hm

theorem runGroup_perm (db : DB) (scope : GTerm) (ctx : Ctx) (elems : List Pat) {a b : List Row} (h : a ~ b) :
    runGroup db scope ctx a elems ~ runGroup db scope ctx b elems := by
  induction elems generalizing a b with
  | nil => exact h
  | cons e rest ih =>
    cases e with
    | filter c => simp only [runGroup]; exact ih h
    | _ => simp only [runGroup]; exact ih (exec_perm db _ ctx h)


/-! ### the main theorem -/

theorem bgp_exec (db : DB) (scope : GTerm) (ctx : Ctx) (tps : List (Term × Term × Term)) (L0 : Logical)
    (inc : List Row) :
    exec db (implBind (tps.foldl (fun acc t => appendJoin acc (.scan ⟨t.1, t.2.1, t.2.2, scope⟩)) L0)) ctx inc =
      tps.foldl (fun a t => scan db ctx ⟨t.1, t.2.1, t.2.2, scope⟩ a) (exec db (implBind L0) ctx inc) := by
  induction tps generalizing L0 with
  | nil => rfl
  | cons t rest ih =>
    simp only [foldl_cons]
    rw [ih, exec_appendJoin]
    simp [implBind, exec_scan]

theorem bgp_scoped (db : DB) (scope : GTerm) (ctx : Ctx) (hc : ctx.WF) (tps : List (Term × Term × Term)) :
    ∀ acc, AllWF acc → ScopeOK db scope ctx acc →
      tps.foldl (fun a t => scan db ctx ⟨t.1, t.2.1, t.2.2, scope⟩ a) acc =
      tps.foldl (fun a (t : Term × Term × Term) => nlJoin a (scan db ctx ⟨t.1, t.2.1, t.2.2, .dflt⟩ [[]])) acc := by
  induction tps with
  | nil => intro acc _ _; rfl
  | cons t rest ih =>
    intro acc ha hs
    simp only [foldl_cons]
    have e : scan db ctx ⟨t.1, t.2.1, t.2.2, scope⟩ acc = nlJoin acc (scan db ctx ⟨t.1, t.2.1, t.2.2, .dflt⟩ [[]]) := by
      rw [scan_scope db ctx _ _ _ scope acc hs, scan_seed db ctx _ acc ha hc]
    rw [e]
    exact ih _ (nlJoin_wf acc _ ha) (scopeOK_of_extends db scope ctx acc _ hs (nlJoin_extends acc _ ha))

theorem graphVar_scope (db : DB) (ctx : Ctx) (v : Var) (g : Val) (row : Row)
    (hvis : visibleNamed db ctx g = true) (hv : Row.get row v = some g) :
    ScopeOK db (.var v) { ctx with active := some g } [row] :=
  ⟨g, rfl, hvis, fun r hr => by simp at hr; rw [hr]; exact hv⟩

/-- the graph scope a sub-select's scans carry is in force on the unit solution the sub-select starts from -/
theorem scopeOK_subScope (db : DB) (scope : GTerm) (ctx : Ctx) (inc : List Row) (hs : ScopeOK db scope ctx inc) :
    ScopeOK db (subScope scope) ctx [[]] := by
  cases scope with
  | dflt => trivial
  | named g => exact hs
  | var v => trivial

/-- a BGP evaluated by the reference plan on the unit solution is *equal* to the algebra's solutions -/
theorem bgp_exec_unit (db : DB) (ctx : Ctx) (hc : ctx.WF) (scope : GTerm) (hs : ScopeOK db scope ctx [[]])
    (tps : List (Term × Term × Term)) :
    exec db (implBind (lower scope (.bgp tps))) ctx [[]] = sem db ctx (.bgp tps) := by
  rw [lower_bgp_eq, bgp_exec]
  simp only [implBind, exec_unit]
  rw [bgp_scoped db scope ctx hc tps [[]] allWF_unit hs]
  simp only [sem]

/-- **sub-select**: the inner pattern is evaluated once, on the unit solution, under the active graph (a variable
    graph scope is not carried inside: `subScope`), the modifiers are applied, and the result is joined with the
    incoming solutions - as an equality, so that LIMIT / ORDER BY / aggregates see the same sequence -/
theorem sub_bgp_sound (db : DB) (ctx : Ctx) (hc : ctx.WF) (scope : GTerm) (inc : List Row)
    (hs : ScopeOK db scope ctx inc) (tps : List (Term × Term × Term)) (spec : Spec) :
    exec db (implBind (lower scope (.sub (.bgp tps) spec))) ctx inc =
      nlJoin inc (sem db ctx (.sub (.bgp tps) spec)) := by
  have e : lower scope (.sub (.bgp tps) spec) = .subquery (lower (subScope scope) (.bgp tps)) spec := by
    simp only [lower]
  rw [e]
  simp only [implBind]
  rw [exec_subquery, bgp_exec_unit db ctx hc (subScope scope) (scopeOK_subScope db scope ctx inc hs) tps]
  simp only [sem]

theorem group_step (db : DB) (scope : GTerm) (ctx : Ctx) (q : Pat) (rest : List Pat) (acc : List Row)
    (ha : AllWF acc) (hs : ScopeOK db scope ctx acc)
    (h1 : exec db (implBind (lower scope q)) ctx acc ~ nlJoin acc (sem db ctx q))
    (hrec : ∀ acc', AllWF acc' → ScopeOK db scope ctx acc' →
      runGroup db scope ctx acc' rest ~ semGroup db ctx acc' rest) :
    runGroup db scope ctx (exec db (implBind (lower scope q)) ctx acc) rest ~
      semGroup db ctx (nlJoin acc (sem db ctx q)) rest := by
  have ha' : AllWF (nlJoin acc (sem db ctx q)) := nlJoin_wf acc _ ha
  have hs' : ScopeOK db scope ctx (nlJoin acc (sem db ctx q)) :=
    scopeOK_of_extends db scope ctx acc _ hs (nlJoin_extends acc _ ha)
  exact (runGroup_perm db scope ctx rest h1).trans (hrec _ ha' hs')

mutual
/-- **Soundness of the lowering** on the fragment: executing the (all-bind-join) plan of a pattern with incoming
    solutions yields the join of the incoming solutions with the algebra's solutions of the pattern. -/
theorem lower_sound (db : DB) : (p : Pat) → okPat p = true →
    ∀ (scope : GTerm) (ctx : Ctx) (inc : List Row), ctx.WF → AllWF inc → ScopeOK db scope ctx inc →
      exec db (implBind (lower scope p)) ctx inc ~ nlJoin inc (sem db ctx p)
  | .unit, _, scope, ctx, inc, _, _, _ => by
      simp only [lower, implBind, exec_unit, sem, nlJoin_unit_right]; exact Perm.refl _
  | .bgp tps, _, scope, ctx, inc, hc, hi, hs => by
      rw [lower_bgp_eq, bgp_exec]
      simp only [implBind, exec_unit, sem]
      rw [bgp_scoped db scope ctx hc tps inc hi hs]
      have h := fold_nlJoin_assoc tps (fun (t : Term × Term × Term) => scan db ctx ⟨t.1, t.2.1, t.2.2, .dflt⟩ [[]])
        (fun t _ => scan_wf db ctx _ _ allWF_unit) inc [[]] hi allWF_unit
      rw [nlJoin_unit_right] at h
      rw [h]
  | .values vs rs, _, scope, ctx, inc, _, _, _ => by
      simp only [lower, implBind, exec_values, sem]; exact Perm.refl _
  | .filter _, h, _, _, _, _, _, _ => by simp [okPat] at h
  | .bind _ _, h, _, _, _, _, _, _ => by simp [okPat] at h
  | .sub q spec, h, scope, ctx, inc, hc, _, hs => by
      simp only [okPat] at h
      obtain ⟨t, rfl⟩ := okSub_shape q h
      rw [sub_bgp_sound db ctx hc scope inc hs [t] spec]
  | .union bs, h, scope, ctx, inc, hc, hi, hs => by
      simp only [okPat] at h
      simp only [lower, sem]
      exact lowerUnion_sound db bs h scope ctx inc hc hi hs
  | .graph name p, h, scope, ctx, inc, hc, hi, _ => by
      simp only [okPat, Bool.and_eq_true] at h
      simp only [lower, implBind, exec_graph, sem]
      cases name with
      | dflt => simp at h
      | named g =>
        simp only
        by_cases hv : visibleNamed db ctx g = true
        · rw [if_pos hv, if_pos hv]
          have hc' : ({ ctx with active := some g } : Ctx).WF := hc
          exact lower_sound db p h.2 (.named g) { ctx with active := some g } inc hc' hi ⟨rfl, hv⟩
        · rw [if_neg hv, if_neg hv]; simp [nlJoin_nil_right]
      | var v =>
        simp only
        rw [nlJoin_single_flat]
        apply perm_flatMap_congr
        intro row hrow
        have hrw : Row.WF row := hi row hrow
        have hrow1 : AllWF [row] := fun r hr => by simp at hr; rw [hr]; exact hrw
        have hcg : ∀ g, ({ ctx with active := some g } : Ctx).WF := fun _ => hc
        have hvisL : ∀ g, g ∈ ctx.view.named.filter (fun g => db.graphExists g) → visibleNamed db ctx g = true := by
          intro g hg; simp only [mem_filter] at hg; simp [visibleNamed, hg.1, hg.2]
        -- right-hand side, block by block
        have hR : nlJoin [row] ((ctx.view.named.filter (fun g => db.graphExists g)).flatMap
              (fun g => nlJoin [[(v, g)]] (sem db { ctx with active := some g } p))) ~
            (ctx.view.named.filter (fun g => db.graphExists g)).flatMap
              (fun g => nlJoin (nlJoin [row] [[(v, g)]]) (sem db { ctx with active := some g } p)) := by
          refine (nlJoin_flatMap_right [row] _ _).trans ?_
          apply perm_flatMap_congr
          intro g _
          have hwg : AllWF [[(v, g)]] := fun r hr => by simp at hr; subst hr; exact wf_single v g
          rw [nlJoin_assoc [row] _ _ hrow1 hwg]
        refine Perm.trans ?_ hR.symm
        unfold graphVarRow
        cases hg : Row.get row v with
        | none =>
          simp only
          apply perm_flatMap_congr
          intro g hgL
          rw [graphVar_unbound row v g hrw hg]
          have hw1 : AllWF [Row.insert row v g] := fun r hr => by
            simp at hr; subst hr; exact Row.wf_insert row v g hrw
          exact lower_sound db p h.2 (.var v) { ctx with active := some g } _ (hcg g) hw1
            (graphVar_scope db ctx v g _ (hvisL g hgL) (Row.get_insert_self row v g))
        | some g0 =>
          simp only
          have hL : (ctx.view.named.filter (fun g => db.graphExists g)).Nodup := nodup_filter' _ hc
          rw [flatMap_single_of_nodup _ hL g0 _ (fun g' _ hne => by
            rw [graphVar_bound row v g' g0 hrw hg]
            have : (g0 == g') = false := beq_false_of_ne (fun e => hne e.symm)
            simp [this, nlJoin])]
          have hvis : visibleNamed db ctx g0 = true ↔ g0 ∈ ctx.view.named.filter (fun g => db.graphExists g) := by
            simp [visibleNamed, mem_filter]
          by_cases hm : g0 ∈ ctx.view.named.filter (fun g => db.graphExists g)
          · rw [if_pos hm, if_pos (hvis.2 hm), graphVar_bound row v g0 g0 hrw hg]
            simp only [beq_self_eq_true, if_true]
            exact lower_sound db p h.2 (.var v) { ctx with active := some g0 } [row] (hcg g0) hrow1
              (graphVar_scope db ctx v g0 row (hvis.2 hm) hg)
          · rw [if_neg hm, if_neg (fun x => hm (hvis.1 x))]
  | .group elems, h, scope, ctx, inc, hc, hi, hs => by
      simp only [okPat, Bool.and_eq_true] at h
      obtain ⟨he, hf⟩ := h
      have hnb := okElems_no_bind elems he
      simp only [lower, sem]
      rw [lowerFilters_execB, lowerGroup_exec db scope ctx elems he]
      simp only [implBind, exec_unit]
      -- the group's own solutions
      have hG : AllWF (semGroup db ctx [[]] elems) := semGroup_wf db elems he ctx [[]] allWF_unit
      -- run with the incoming solutions
      have h1 := runGroup_sound db elems he scope ctx inc hc hi hs
      have h2 : semGroup db ctx inc elems = nlJoin inc (semGroup db ctx [[]] elems) := by
        have := semGroup_assoc db ctx elems inc [[]] hi allWF_unit hnb
        rwa [nlJoin_unit_right] at this
      rw [h2] at h1
      -- every solution of the group binds the group's certain variables
      have hbound : ∀ r ∈ semGroup db ctx [[]] elems, ∀ v ∈ certainPs elems, (Row.get r v).isSome = true := by
        have h0 := runGroup_sound db elems he .dflt ctx [[]] hc allWF_unit trivial
        have hfacts := lowerGroup_facts .dflt elems he .unit rfl
        intro r hr v hv
        have hr' : r ∈ runGroup db .dflt ctx [[]] elems := h0.symm.subset hr
        rw [← exec_unit db ctx [[]], show exec db .unit ctx [[]] = exec db (implBind .unit) ctx [[]] from rfl,
          ← lowerGroup_exec db .dflt ctx elems he] at hr'
        exact (exec_extends_plain db _ hfacts.1 ctx [[]] allWF_unit r hr').2 v (hfacts.2 v (Or.inr hv))
      have hfb : ∀ c, Pat.filter c ∈ elems → ∀ r ∈ semGroup db ctx [[]] elems, ∀ v ∈ c.vars,
          (Row.get r v).isSome = true := by
        intro c hcm r hr v hv
        apply hbound r hr v
        have : ∀ (es : List Pat), filtersOk (certainPs elems) es = true → Pat.filter c ∈ es →
            (certainPs elems).contains v = true := by
          intro es
          induction es with
          | nil => intro _ hm; simp at hm
          | cons e rest ih =>
            intro hok hm
            cases e with
            | filter c' =>
              simp only [filtersOk, Bool.and_eq_true] at hok
              rcases mem_cons.1 hm with heq | hm'
              · cases heq; exact (List.all_eq_true.1 hok.1) v hv
              · exact ih hok.2 hm'
            | _ =>
              simp only [filtersOk] at hok
              rcases mem_cons.1 hm with heq | hm'
              · cases heq
              · exact ih hok hm'
        simpa using this elems hf hcm
      refine (implFilters_perm elems h1).trans ?_
      rw [implFilters_nlJoin inc _ elems hi hfb]
      rw [group_filters_agree' _ elems (fun c hcm r hr v hv => hfb c hcm r hr v hv)]

theorem runGroup_sound (db : DB) : (elems : List Pat) → okElems elems = true →
    ∀ (scope : GTerm) (ctx : Ctx) (acc : List Row), ctx.WF → AllWF acc → ScopeOK db scope ctx acc →
      runGroup db scope ctx acc elems ~ semGroup db ctx acc elems
  | [], _, _, _, acc, _, _, _ => by simp only [runGroup, semGroup]; exact Perm.refl _
  | e :: rest, he, scope, ctx, acc, hc, ha, hs => by
      cases e with
      | filter c =>
        simp only [okElems] at he
        simp only [runGroup, semGroup]
        exact runGroup_sound db rest he scope ctx acc hc ha hs
      | bind args out => simp [okElems, okPat] at he
      | sub q spec =>
        simp only [okElems, Bool.and_eq_true] at he
        simp only [runGroup, semGroup]
        exact group_step db scope ctx (.sub q spec) rest acc ha hs (lower_sound db (.sub q spec) he.1 scope ctx acc hc ha hs)
          (fun acc' ha' hs' => runGroup_sound db rest he.2 scope ctx acc' hc ha' hs')
      | unit =>
        simp only [okElems, Bool.and_eq_true] at he
        simp only [runGroup, semGroup]
        exact group_step db scope ctx .unit rest acc ha hs (lower_sound db .unit he.1 scope ctx acc hc ha hs)
          (fun acc' ha' hs' => runGroup_sound db rest he.2 scope ctx acc' hc ha' hs')
      | bgp tps =>
        simp only [okElems, Bool.and_eq_true] at he
        simp only [runGroup, semGroup]
        exact group_step db scope ctx (.bgp tps) rest acc ha hs (lower_sound db (.bgp tps) he.1 scope ctx acc hc ha hs)
          (fun acc' ha' hs' => runGroup_sound db rest he.2 scope ctx acc' hc ha' hs')
      | group es =>
        simp only [okElems, Bool.and_eq_true] at he
        simp only [runGroup, semGroup]
        exact group_step db scope ctx (.group es) rest acc ha hs (lower_sound db (.group es) he.1 scope ctx acc hc ha hs)
          (fun acc' ha' hs' => runGroup_sound db rest he.2 scope ctx acc' hc ha' hs')
      | union bs =>
        simp only [okElems, Bool.and_eq_true] at he
        simp only [runGroup, semGroup]
        exact group_step db scope ctx (.union bs) rest acc ha hs (lower_sound db (.union bs) he.1 scope ctx acc hc ha hs)
          (fun acc' ha' hs' => runGroup_sound db rest he.2 scope ctx acc' hc ha' hs')
      | graph n q =>
        simp only [okElems, Bool.and_eq_true] at he
        simp only [runGroup, semGroup]
        exact group_step db scope ctx (.graph n q) rest acc ha hs (lower_sound db (.graph n q) he.1 scope ctx acc hc ha hs)
          (fun acc' ha' hs' => runGroup_sound db rest he.2 scope ctx acc' hc ha' hs')
      | values vs rs =>
        simp only [okElems, Bool.and_eq_true] at he
        simp only [runGroup, semGroup]
        exact group_step db scope ctx (.values vs rs) rest acc ha hs (lower_sound db (.values vs rs) he.1 scope ctx acc hc ha hs)
          (fun acc' ha' hs' => runGroup_sound db rest he.2 scope ctx acc' hc ha' hs')

theorem lowerUnion_sound (db : DB) : (bs : List Pat) → okAll bs = true →
    ∀ (scope : GTerm) (ctx : Ctx) (inc : List Row), ctx.WF → AllWF inc → ScopeOK db scope ctx inc →
      exec db (implBind (lowerUnion scope bs)) ctx inc ~ nlJoin inc (semUnion db ctx bs)
  | [], _, _, ctx, inc, _, _, _ => by
      simp only [lowerUnion, implBind, exec_empty, semUnion, nlJoin_nil_right]; exact Perm.refl _
  | b :: rest, h, scope, ctx, inc, hc, hi, hs => by
      simp only [okAll, Bool.and_eq_true] at h
      simp only [lowerUnion, implBind, exec_union, semUnion]
      exact ((lower_sound db b h.1 scope ctx inc hc hi hs).append
        (lowerUnion_sound db rest h.2 scope ctx inc hc hi hs)).trans (nlJoin_append_right inc _ _).symm
end


/-! ### the lowered plans of the fragment are safe, hence every physical plan computes the algebra -/

theorem planCertain_implBind (L : Logical) : planCertain (implBind L) = certainL L := by
  induction L with
  | unit => rfl
  | empty => rfl
  | scan _ => rfl
  | values _ _ => rfl
  | subquery i spec ih => simp [implBind, planCertain, certainL]
  | bind i args out ih => simp [implBind, planCertain, certainL]
  | union l r ihl ihr => simp only [implBind, planCertain, certainL, ihl, ihr]
  | graph i g ih => simp only [implBind, planCertain, certainL, ih]
  | filter i c ih => simp only [implBind, planCertain, certainL, ih]
  | join l r ihl ihr => simp only [implBind, planCertain, certainL, ihl, ihr]

theorem safeL_appendJoin (a b : Logical) (ha : safeL a = true) (hb : safeL b = true) : safeL (appendJoin a b) = true := by
  unfold appendJoin; split <;> simp_all [safeL]

theorem safeL_bgp_fold (scope : GTerm) (tps : List (Term × Term × Term)) (L0 : Logical) (h0 : safeL L0 = true) :
    safeL (tps.foldl (fun acc t => appendJoin acc (.scan ⟨t.1, t.2.1, t.2.2, scope⟩)) L0) = true := by
  induction tps generalizing L0 with
  | nil => exact h0
  | cons t rest ih => simp only [foldl_cons]; exact ih _ (safeL_appendJoin _ _ h0 rfl)

theorem safeL_lowerFilters (plan : Logical) (cert : List Var) (elems : List Pat) (hp : safeL plan = true)
    (hc : ∀ v, cert.contains v = true → (certainL plan).contains v = true) (hf : filtersOk cert elems = true) :
    safeL (lowerFilters plan elems) = true := by
  induction elems generalizing plan with
  | nil => simpa [lowerFilters]
  | cons e rest ih =>
    cases e with
    | filter c =>
      simp only [filtersOk, Bool.and_eq_true] at hf
      simp only [lowerFilters]
      apply ih
      · simp only [safeL, hp, Bool.true_and]
        rw [List.all_eq_true]
        intro v hv
        exact hc v ((List.all_eq_true.1 hf.1) v hv)
      · simpa [certainL] using hc
      · exact hf.2
    | _ => simp only [filtersOk] at hf; simp only [lowerFilters]; exact ih plan hp hc hf

mutual
theorem safeL_lower (scope : GTerm) : (p : Pat) → okPat p = true → safeL (lower scope p) = true
  | .unit, _ => rfl
  | .bgp tps, _ => by rw [lower_bgp_eq]; exact safeL_bgp_fold scope tps .unit rfl
  | .group elems, h => by
      simp only [okPat, Bool.and_eq_true] at h
      simp only [lower]
      apply safeL_lowerFilters _ (certainPs elems) elems (safeL_lowerGroup scope elems h.1 .unit rfl) _ h.2
      intro v hv
      have := (lowerGroup_facts scope elems h.1 .unit rfl).2 v (Or.inr (by simpa using hv))
      rw [planCertain_implBind] at this
      simpa using this
  | .union bs, h => by simp only [okPat] at h; simp only [lower]; exact safeL_lowerUnion scope bs h
  | .graph name p, h => by
      simp only [okPat, Bool.and_eq_true] at h
      simp only [lower, safeL]; exact safeL_lower name p h.2
  | .filter _, h => by simp [okPat] at h
  | .bind _ _, h => by simp [okPat] at h
  | .values _ _, _ => rfl
  | .sub q spec, h => by
      simp only [okPat] at h
      obtain ⟨t, rfl⟩ := okSub_shape q h
      simp [lower, appendJoin, safeL, joinFree]

theorem safeL_lowerGroup (scope : GTerm) : (elems : List Pat) → okElems elems = true → (plan : Logical) →
    safeL plan = true → safeL (lowerGroup scope plan elems) = true
  | [], _, plan, hp => by simpa [lowerGroup] using hp
  | e :: rest, he, plan, hp => by
      cases e with
      | filter c => simp only [okElems] at he; simp only [lowerGroup]; exact safeL_lowerGroup scope rest he plan hp
      | bind args out => simp [okElems, okPat] at he
      | sub q spec =>
        simp only [okElems, Bool.and_eq_true] at he; simp only [lowerGroup]
        exact safeL_lowerGroup scope rest he.2 _ (safeL_appendJoin _ _ hp (safeL_lower scope (.sub q spec) he.1))
      | unit =>
        simp only [okElems, Bool.and_eq_true] at he; simp only [lowerGroup]
        exact safeL_lowerGroup scope rest he.2 _ (safeL_appendJoin _ _ hp (safeL_lower scope .unit he.1))
      | bgp tps =>
        simp only [okElems, Bool.and_eq_true] at he; simp only [lowerGroup]
        exact safeL_lowerGroup scope rest he.2 _ (safeL_appendJoin _ _ hp (safeL_lower scope (.bgp tps) he.1))
      | group es =>
        simp only [okElems, Bool.and_eq_true] at he; simp only [lowerGroup]
        exact safeL_lowerGroup scope rest he.2 _ (safeL_appendJoin _ _ hp (safeL_lower scope (.group es) he.1))
      | union bs =>
        simp only [okElems, Bool.and_eq_true] at he; simp only [lowerGroup]
        exact safeL_lowerGroup scope rest he.2 _ (safeL_appendJoin _ _ hp (safeL_lower scope (.union bs) he.1))
      | graph n q =>
        simp only [okElems, Bool.and_eq_true] at he; simp only [lowerGroup]
        exact safeL_lowerGroup scope rest he.2 _ (safeL_appendJoin _ _ hp (safeL_lower scope (.graph n q) he.1))
      | values vs rs =>
        simp only [okElems, Bool.and_eq_true] at he; simp only [lowerGroup]
        exact safeL_lowerGroup scope rest he.2 _ (safeL_appendJoin _ _ hp (safeL_lower scope (.values vs rs) he.1))

theorem safeL_lowerUnion (scope : GTerm) : (bs : List Pat) → okAll bs = true → safeL (lowerUnion scope bs) = true
  | [], _ => rfl
  | b :: rest, h => by
      simp only [okAll, Bool.and_eq_true] at h
      simp only [lowerUnion, safeL, safeL_lower scope b h.1, safeL_lowerUnion scope rest h.2, Bool.and_self]
end

/-- **Every physical plan of a pattern of the fragment computes the algebra's solution multiset** -/
theorem plans_compute_algebra (db : DB) (p : Pat) (h : okPat p = true) (algs : List JoinAlg) (ctx : Ctx)
    (hc : ctx.WF) : exec db (implement algs (lower .dflt p)).1 ctx [[]] ~ sem db ctx p := by
  have hs := safeL_lower .dflt p h
  obtain ⟨m, hm⟩ := implement_allBind (lower .dflt p) 0
  have h1 := implement_any_two db _ hs algs (List.replicate (0 + m) JoinAlg.bind) ctx hc
  rw [hm] at h1
  have h2 := lower_sound db p h .dflt ctx [[]] hc allWF_unit trivial
  rw [nlJoin_unit_left _ (sem_wf db p h ctx)] at h2
  exact h1.trans h2

end Kolibrie.Engine
