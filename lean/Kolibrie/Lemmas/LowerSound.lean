import Kolibrie.Lemmas.Implement
/-! The lowering is sound: the all-bind-join reference plan of a lowered group pattern computes the algebra's
    solutions (fragment: BGPs, nested groups with group-scoped FILTERs, UNION, GRAPH <iri>/?g, VALUES). -/
namespace Kolibrie.Engine
open List

/-- the reference implementation used to relate plans to the algebra: every join is a bind join -/
def implBind : Logical → Plan
  | .unit => .unit
  | .empty => .empty
  | .scan pat => .scan pat
  | .union l r => .union (implBind l) (implBind r)
  | .graph i g => .graph (implBind i) g
  | .filter i c => .filter (implBind i) c
  | .join l r => .bindJoin (implBind l) (implBind r)
  | .values vars rows => .values vars rows
  | .subquery i spec => .subquery (implBind i) spec
  | .bind i args out => .bind (implBind i) args out

theorem implement_allBind (L : Logical) (n : Nat) :
    ∃ m, implement (List.replicate (n + m) JoinAlg.bind) L = (implBind L, List.replicate n JoinAlg.bind) := by
  induction L generalizing n with
  | unit => exact ⟨0, rfl⟩
  | empty => exact ⟨0, rfl⟩
  | scan _ => exact ⟨0, rfl⟩
  | values _ _ => exact ⟨0, rfl⟩
  | union l r ihl ihr =>
    obtain ⟨mr, hr⟩ := ihr n
    obtain ⟨ml, hl⟩ := ihl (n + mr)
    refine ⟨mr + ml, ?_⟩
    simp only [implement, implBind]
    rw [show n + (mr + ml) = n + mr + ml by omega, hl, hr]
  | graph i g ih => obtain ⟨m, h⟩ := ih n; exact ⟨m, by simp only [implement, implBind, h]⟩
  | filter i c ih => obtain ⟨m, h⟩ := ih n; exact ⟨m, by simp only [implement, implBind, h]⟩
  | subquery i spec ih => obtain ⟨m, h⟩ := ih n; exact ⟨m, by simp only [implement, implBind, h]⟩
  | bind i args out ih => obtain ⟨m, h⟩ := ih n; exact ⟨m, by simp only [implement, implBind, h]⟩
  | join l r ihl ihr =>
    obtain ⟨mr, hr⟩ := ihr n
    obtain ⟨ml, hl⟩ := ihl (n + mr)
    refine ⟨mr + ml + 1, ?_⟩
    have e : n + (mr + ml + 1) = (n + mr + ml) + 1 := by omega
    simp only [implement, implBind, e, List.replicate_succ, List.head?_cons, Option.getD_some, List.tail_cons,
      hl, hr, mkJoin]

/-- the unit elimination of `append_join` is invisible to the executor -/
theorem exec_appendJoin (db : DB) (a b : Logical) (ctx : Ctx) (inc : List Row) :
    exec db (implBind (appendJoin a b)) ctx inc = exec db (implBind b) ctx (exec db (implBind a) ctx inc) := by
  unfold appendJoin
  split
  · simp [implBind, exec_unit]
  · simp [implBind, exec_unit]
  · simp [implBind, exec_bindJoin]

/-! ### graph scope carried on scans = active graph of the algebra -/

/-- the situation in which a lowered pattern with graph scope `scope` is executed -/
def ScopeOK (db : DB) (scope : GTerm) (ctx : Ctx) (inc : List Row) : Prop :=
  match scope with
  | .dflt => True
  | .named g => ctx.active = some g ∧ visibleNamed db ctx g = true
  | .var v => ∃ g, ctx.active = some g ∧ visibleNamed db ctx g = true ∧ ∀ r ∈ inc, Row.get r v = some g

theorem graphSeed_bound (v : Var) (g : Val) (row : Row) (h : Row.get row v = some g) :
    graphSeed (some (v, g)) row = some row := by
  simp [graphSeed, h]

theorem scanRow_scope (db : DB) (ctx : Ctx) (s p o : Term) (scope : GTerm) (row : Row)
    (h : ScopeOK db scope ctx [row]) :
    scanRow db ctx ⟨s, p, o, scope⟩ row = scanRow db ctx ⟨s, p, o, .dflt⟩ row := by
  cases scope with
  | dflt => rfl
  | named g =>
    obtain ⟨ha, hv⟩ := h
    simp only [scanRow, ha, hv, if_true]
    unfold scanOneGraph queryGraph boundOf
    rfl
  | var v =>
    obtain ⟨g, ha, hv, hr⟩ := h
    have hg := hr row (by simp)
    simp only [scanRow, ha, hg, hv, if_true]
    unfold scanOneGraph
    rw [graphSeed_bound v g row hg]
    simp only [graphSeed]
    rfl

theorem scopeOK_of_extends (db : DB) (scope : GTerm) (ctx : Ctx) (inc acc : List Row)
    (h : ScopeOK db scope ctx inc) (he : ∀ b ∈ acc, ∃ i ∈ inc, Extends i b) : ScopeOK db scope ctx acc := by
  cases scope with
  | dflt => trivial
  | named g => exact h
  | var v =>
    obtain ⟨g, ha, hv, hr⟩ := h
    refine ⟨g, ha, hv, ?_⟩
    intro b hb
    obtain ⟨i, hi, hext⟩ := he b hb
    exact hext v g (hr i hi)

theorem scan_scope (db : DB) (ctx : Ctx) (s p o : Term) (scope : GTerm) (inc : List Row)
    (h : ScopeOK db scope ctx inc) :
    scan db ctx ⟨s, p, o, scope⟩ inc = scan db ctx ⟨s, p, o, .dflt⟩ inc := by
  unfold scan
  apply flatMap_congr'
  intro row hrow
  apply scanRow_scope
  exact scopeOK_of_extends db scope ctx inc [row] h (fun b hb => by
    simp at hb; subst hb; exact ⟨b, hrow, extends_refl b⟩)

end Kolibrie.Engine
