import Kolibrie.Model.Scan
/-
Boundary / no-panic / progress theorems for the byte-level scanner model (`Model/Scan.lean`).  Core Lean only.

For EVERY oracle `cls : CharClass`, EVERY `s : Bytes` with `WF s` (structural UTF-8 well-formedness, satisfied by
every Rust `&str`) and every scanner X ∈ {Var, Iri, Bnode, Pname, Num, Lit}:

  scanX_good          the single invariant `Good s 0 (scanX cls s)` from which the others follow
  scanX_no_panic      scanX cls s ≠ .panic         (no slice off a char boundary / out of range, no failed `expect`)
  scanX_no_fuel       scanX cls s ≠ .fuel          (the model's loop budget `s.length + 1` always suffices)
  scanX_boundary      scanX cls s = .ok n a l → n ≤ |s| ∧ boundary n ∧ boundary a ∧ boundary (a+l) ∧ a + l = n
  scanX_err_boundary  scanX cls s = .err k off len → off + len ≤ |s| ∧ boundary off ∧ boundary (off+len)
  scanX_progress      scanX cls s = .ok n a l → 0 < l
  skipWs_boundary     skipWs cls s = .ok w 0 0 for some boundary w ≤ |s|   (skip_ws cannot fail)
  skipWs_idempotent   skipWs cls s = .ok w _ _ → skipWsAt cls s w = .ok w 0 0   (also from any boundary: skipWsAt_idempotent)

The `…At` forms (`varAt_good` …) hold from any boundary `b` of `s`, which is what the nested calls of
`sparql_quoted_literal` (`^^` datatype → `sparql_iri` / `sparql_prefixed_name` on a suffix) use.

All statements carry the hypothesis `WF s`.  For `scanX_progress` the hypothesis is not essential:
/- FULL: theorem scanX_progress' (cls) (s : Bytes) : scanX cls s = .ok n a l → 0 < l      (no `WF s`)
   not proved separately: it needs a second pass over every loop with the index inequalities only (`w < te`, `i ≤ j`)
   and no boundary facts.  Every input the Rust scanners can receive is a `&str`, hence `WF`. -/
Proof shape: `Chars` (inductive view of `WF`) → `char_step` (from a boundary, the decoded character ends on a boundary and
no boundary lies inside it) → one loop invariant per Rust loop ("index is a boundary, fuel covers the rest") → `Good`.
-/
namespace Kolibrie.Scan
open Kolibrie.Utf8

/-! ## UTF-8 structure -/

/-- a byte string that is a concatenation of characters (lead byte + `leadLen - 1` continuation bytes) -/
inductive Chars : Bytes → Prop
  | nil : Chars []
  | cons (b : UInt8) (cs rest : Bytes) : isCont b = false → cs.length = leadLen b - 1 →
      (∀ c ∈ cs, isCont c = true) → Chars rest → Chars (b :: (cs ++ rest))

theorem chars_of_wellFormed : ∀ (f : Nat) (s : Bytes), wellFormed f s = true → Chars s := by
  intro f
  induction f with
  | zero =>
    intro s h
    cases s with
    | nil => exact .nil
    | cons b t => simp [wellFormed] at h
  | succ f ih =>
    intro s h
    cases s with
    | nil => exact .nil
    | cons b t =>
      simp only [wellFormed, Bool.and_eq_true] at h
      obtain ⟨⟨⟨h1, h2⟩, h3⟩, h4⟩ := h
      have hr := ih _ h4
      rw [← List.take_append_drop (leadLen b - 1) t]
      exact .cons b _ _ (by simpa using h1) (by simpa using h2) (by simpa using h3) hr

theorem chars_of_WF {s : Bytes} (h : WF s) : Chars s := chars_of_wellFormed _ _ h

theorem leadLen_pos (b : UInt8) : 1 ≤ leadLen b := by
  unfold leadLen; split <;> (try split) <;> (try split) <;> omega

/-- in a character string every boundary is the start of a character string -/
theorem chars_drop {s : Bytes} (h : Chars s) : ∀ i, isBoundary s i = true → Chars (s.drop i) := by
  induction h with
  | nil => intro i _; simp; exact .nil
  | cons b cs rest hb hlen hcs hrest ih =>
    intro i hi
    cases i with
    | zero => exact .cons b cs rest hb hlen hcs hrest
    | succ k =>
      simp only [List.drop_succ_cons]
      by_cases hk : k < cs.length
      · exfalso
        have : (b :: (cs ++ rest))[k + 1]? = some cs[k] := by
          simp [List.getElem?_append_left hk]
        simp [isBoundary, this, hcs cs[k] (List.getElem_mem hk)] at hi
      · have hk' : cs.length ≤ k := Nat.le_of_not_lt hk
        rw [List.drop_append, List.drop_eq_nil_of_le hk', List.nil_append]
        apply ih
        by_cases h0 : k - cs.length = 0
        · simp [isBoundary, h0]
        · have hget : (b :: (cs ++ rest))[k + 1]? = rest[k - cs.length]? := by
            simp [List.getElem?_append_right hk']
          have hl : (b :: (cs ++ rest)).length = rest.length + cs.length + 1 := by simp; omega
          simp only [isBoundary, hget, hl] at hi
          simp only [isBoundary]
          simp at hi ⊢
          cases hr : rest[k - cs.length]? with
          | none => simp [hr] at hi ⊢; omega
          | some x => simp [hr] at hi ⊢; exact Or.inr hi

theorem bd_le {s : Bytes} {i : Nat} (h : isBoundary s i = true) : i ≤ s.length := by
  unfold isBoundary at h
  by_cases h0 : i = 0
  · omega
  · simp only [beq_iff_eq, h0, if_false] at h
    cases hg : s[i]? with
    | none => simp [hg] at h; omega
    | some b => have := (List.getElem?_eq_some_iff.mp hg).1; omega

theorem bd_zero (s : Bytes) : isBoundary s 0 = true := by simp [isBoundary]

theorem bd_length (s : Bytes) : isBoundary s s.length = true := by
  unfold isBoundary
  by_cases h : s.length = 0
  · simp [h]
  · simp [h]

theorem bd_of_chars_drop {s : Bytes} {j : Nat} (h : Chars (s.drop j)) (hj : j ≤ s.length) :
    isBoundary s j = true := by
  unfold isBoundary
  by_cases h0 : j = 0
  · simp [h0]
  · simp only [beq_iff_eq, h0, if_false]
    have hg : s[j]? = (s.drop j)[0]? := by simp
    rw [hg]
    generalize hd : s.drop j = l at h
    cases h with
    | nil => simp; have := congrArg List.length hd; simp at this; omega
    | cons b cs rest hb _ _ _ => simp [hb]

/-- the character starting at a boundary `i < len` of a well-formed string -/
theorem bd_char {s : Bytes} {i : Nat} (hw : WF s) (hi : isBoundary s i = true) (hlt : i < s.length) :
    ∃ b cs rest, s.drop i = b :: (cs ++ rest) ∧ isCont b = false ∧ cs.length = leadLen b - 1 ∧
      (∀ c ∈ cs, isCont c = true) ∧ Chars rest := by
  have h := chars_drop (chars_of_WF hw) i hi
  generalize hd : s.drop i = l at h
  cases h with
  | nil => have := congrArg List.length hd; simp at this; omega
  | cons b cs rest hb hl hc hr => exact ⟨b, cs, rest, rfl, hb, hl, hc, hr⟩

theorem decodeHead_len {b : UInt8} {t : Bytes} {c : Nat × Nat} (h : decodeHead (b :: t) = some c) :
    c.2 = leadLen b := by
  unfold decodeHead at h
  simp only at h
  split at h <;> simp at h <;> subst h <;> simp_all

theorem decodeAt_lt {s : Bytes} {i : Nat} {c : Nat × Nat} (h : decodeAt s i = some c) : i < s.length := by
  unfold decodeAt at h
  by_cases hl : i < s.length
  · exact hl
  · rw [List.drop_eq_nil_of_le (by omega)] at h; simp [decodeHead] at h

theorem decodeAt_none {s : Bytes} {i : Nat} (h : decodeAt s i = none) : s.length ≤ i := by
  unfold decodeAt at h
  by_cases hl : i < s.length
  · exfalso
    cases hd : s.drop i with
    | nil => have := congrArg List.length hd; simp at this; omega
    | cons b t => rw [hd] at h; unfold decodeHead at h; simp only at h; split at h <;> simp at h
  · omega

theorem bAt_lt {s : Bytes} {i : Nat} (h : bAt s i < 256) : i < s.length := by
  unfold bAt at h
  cases hg : s[i]? with
  | none => simp [hg] at h
  | some b => exact (List.getElem?_eq_some_iff.mp hg).1

/-- one character step: from a boundary, the decoded character ends on a boundary, and no boundary lies
    strictly inside it -/
theorem char_step {s : Bytes} {i : Nat} {c : Nat × Nat} (hw : WF s) (hi : isBoundary s i = true)
    (hc : decodeAt s i = some c) :
    1 ≤ c.2 ∧ isBoundary s (i + c.2) = true ∧ (bAt s i < 128 → c.2 = 1) ∧
      (∀ k, i < k → k < i + c.2 → isBoundary s k = false) := by
  have hlt := decodeAt_lt hc
  obtain ⟨b, cs, rest, hd, hb, hl, hcs, hr⟩ := bd_char hw hi hlt
  have hc2 : c.2 = leadLen b := by unfold decodeAt at hc; rw [hd] at hc; exact decodeHead_len hc
  have hpos := leadLen_pos b
  have hlen : s.length - i = cs.length + rest.length + 1 := by
    have := congrArg List.length hd; simp at this; omega
  refine ⟨by omega, ?_, ?_, ?_⟩
  · apply bd_of_chars_drop
    · have : s.drop (i + c.2) = rest := by
        rw [← List.drop_drop, hd, hc2]
        have : leadLen b = cs.length + 1 := by omega
        rw [this, List.drop_succ_cons, List.drop_left]
      rw [this]; exact hr
    · omega
  · intro ha
    have hg : s[i]? = some b := by
      have : s[i]? = (s.drop i)[0]? := by simp
      rw [this, hd]; rfl
    have : b.toNat < 128 := by simpa [bAt, hg] using ha
    rw [hc2]; unfold leadLen; simp [this]
  · intro k hk1 hk2
    obtain ⟨m, hm⟩ : ∃ m, k - i = m + 1 := ⟨k - i - 1, by omega⟩
    have hml : m < cs.length := by omega
    have hg : s[k]? = some cs[m] := by
      have : s[k]? = (s.drop i)[k - i]? := by simp; congr 1; omega
      rw [this, hd, hm, List.getElem?_cons_succ, List.getElem?_append_left hml]
      simp
    unfold isBoundary
    have : k ≠ 0 := by omega
    simp [this, hg, hcs _ (List.getElem_mem hml)]

theorem decodeAt_some {s : Bytes} {i : Nat} (h : i < s.length) : ∃ c, decodeAt s i = some c := by
  cases hd : decodeAt s i with
  | none => have := decodeAt_none hd; omega
  | some c => exact ⟨c, rfl⟩

/-- after an ASCII byte at a boundary comes a boundary -/
theorem bd_ascii {s : Bytes} {i : Nat} (hw : WF s) (hi : isBoundary s i = true) (ha : bAt s i < 128) :
    isBoundary s (i + 1) = true := by
  obtain ⟨c, hc⟩ := decodeAt_some (bAt_lt (by omega : bAt s i < 256))
  have := char_step hw hi hc
  rw [← this.2.2.1 ha]; exact this.2.1

theorem bd_of_ascii {s : Bytes} {i : Nat} (ha : bAt s i < 128) : isBoundary s i = true := by
  unfold bAt at ha
  unfold isBoundary
  by_cases h0 : i = 0
  · simp [h0]
  · cases hg : s[i]? with
    | none => simp [hg] at ha
    | some b =>
      simp only [hg] at ha
      simp only [beq_iff_eq, h0, if_false, isCont]
      have : b.toNat / 64 ≠ 2 := by omega
      simp [this]

/-- a run of ASCII bytes after a boundary ends on a boundary -/
theorem bd_run {s : Bytes} (hw : WF s) : ∀ (n i : Nat), isBoundary s i = true →
    (∀ k, k < n → bAt s (i + k) < 128) → isBoundary s (i + n) = true := by
  intro n
  induction n with
  | zero => intro i hi _; simpa using hi
  | succ n ih =>
    intro i hi h
    have h1 := bd_ascii hw hi (by simpa using h 0 (by omega))
    have := ih (i + 1) h1 (fun k hk => by have := h (k + 1) (by omega); rwa [show i + 1 + k = i + (k + 1) by omega])
    rwa [show i + 1 + n = i + (n + 1) by omega] at this

theorem takeWhile_get (p : UInt8 → Bool) : ∀ (l : Bytes) (k : Nat), k < (l.takeWhile p).length →
    ∃ b, l[k]? = some b ∧ p b = true := by
  intro l
  induction l with
  | nil => intro k h; simp at h
  | cons a t ih =>
    intro k h
    rw [List.takeWhile_cons] at h
    by_cases hp : p a = true
    · simp only [hp, if_true, List.length_cons] at h
      cases k with
      | zero => exact ⟨a, by simp, hp⟩
      | succ k => simpa using ih k (by omega)
    · simp [hp] at h

theorem takeWhile_stop (p : UInt8 → Bool) : ∀ (l : Bytes), (l.takeWhile p).length < l.length →
    ∃ b, l[(l.takeWhile p).length]? = some b ∧ p b = false := by
  intro l
  induction l with
  | nil => intro h; simp at h
  | cons a t ih =>
    intro h
    rw [List.takeWhile_cons] at h ⊢
    by_cases hp : p a = true
    · simp only [hp, if_true, List.length_cons] at h ⊢
      simpa using ih (by omega)
    · simp only [hp]
      exact ⟨a, by simp, by simpa using hp⟩

theorem takeWhile_len_le (p : UInt8 → Bool) (l : Bytes) : (l.takeWhile p).length ≤ l.length :=
  (List.takeWhile_sublist p).length_le

theorem bAt_drop {s : Bytes} {i k : Nat} {b : UInt8} (h : (s.drop i)[k]? = some b) : bAt s (i + k) = b.toNat := by
  have : s[i + k]? = some b := by simpa using h
  simp [bAt, this]

theorem runLen_get {p : Nat → Bool} {s : Bytes} {i k : Nat} (h : k < runLen p s i) : p (bAt s (i + k)) = true := by
  obtain ⟨b, hb, hp⟩ := takeWhile_get (fun b => p b.toNat) (s.drop i) k h
  rw [bAt_drop hb]; exact hp

theorem runLen_le (p : Nat → Bool) (s : Bytes) (i : Nat) : i + runLen p s i ≤ max i s.length := by
  have := takeWhile_len_le (fun b => p b.toNat) (s.drop i)
  simp only [List.length_drop] at this
  unfold runLen; omega

theorem findByte_ge (stop : Nat → Bool) (s : Bytes) (k : Nat) : k ≤ findByte stop s k := by
  unfold findByte; omega

theorem findByte_stop {stop : Nat → Bool} {s : Bytes} {k : Nat} (h : findByte stop s k < s.length) :
    stop (bAt s (findByte stop s k)) = true := by
  unfold findByte at h ⊢
  have hlt : ((s.drop k).takeWhile (fun b => !stop b.toNat)).length < (s.drop k).length := by
    simp only [List.length_drop]; omega
  obtain ⟨b, hb, hp⟩ := takeWhile_stop _ _ hlt
  rw [bAt_drop hb]; simpa using hp

theorem isDigitB_ascii {x : Nat} (h : isDigitB x = true) : x < 128 := by
  simp [isDigitB] at h; omega
theorem isAlphaB_ascii {x : Nat} (h : isAlphaB x = true) : x < 128 := by
  simp [isAlphaB] at h; omega
theorem isAlnumB_ascii {x : Nat} (h : isAlnumB x = true) : x < 128 := by
  simp only [isAlnumB, Bool.or_eq_true] at h
  cases h with
  | inl h => exact isAlphaB_ascii h
  | inr h => exact isDigitB_ascii h
theorem isHexB_ascii {x : Nat} (h : isHexB x = true) : x < 128 := by
  simp [isHexB, isDigitB] at h; omega

/-- a run of bytes of an ASCII class after a boundary ends on a boundary -/
theorem bd_runLen {s : Bytes} (hw : WF s) {p : Nat → Bool} (hp : ∀ x, p x = true → x < 128) {i : Nat}
    (hi : isBoundary s i = true) : isBoundary s (i + runLen p s i) = true :=
  bd_run hw _ i hi (fun _ hk => hp _ (runLen_get hk))

theorem all_take_get (p : UInt8 → Bool) : ∀ (l : Bytes) (n k : Nat), (l.take n).all p = true → k < n → k < l.length →
    ∃ b, l[k]? = some b ∧ p b = true := by
  intro l
  induction l with
  | nil => intro n k _ _ h; simp at h
  | cons a t ih =>
    intro n k h hk hl
    cases n with
    | zero => omega
    | succ n =>
      simp only [List.take_succ_cons, List.all_cons, Bool.and_eq_true] at h
      cases k with
      | zero => exact ⟨a, by simp, h.1⟩
      | succ k => simpa using ih n k h.2 (by omega) (by simpa using hl)

theorem allHex_ascii {s : Bytes} {i n : Nat} (h : allHex s i n = true) : ∀ k, k < n → bAt s (i + k) < 128 := by
  intro k hk
  simp only [allHex, Bool.and_eq_true, decide_eq_true_eq] at h
  obtain ⟨b, hb, hp⟩ := all_take_get (fun b => isHexB b.toNat) (s.drop i) n k h.2 hk (by simp; omega)
  rw [bAt_drop hb]; exact isHexB_ascii hp

theorem allHex_le {s : Bytes} {i n : Nat} (h : allHex s i n = true) : i + n ≤ s.length := by
  simp only [allHex, Bool.and_eq_true, decide_eq_true_eq] at h; exact h.1

/-! ## loops -/

theorem spanChars_spec {s : Bytes} (hw : WF s) (p : Nat → Bool) : ∀ (f i : Nat), s.length < f + i →
    isBoundary s i = true → ∃ j, spanChars p s f i = some j ∧ isBoundary s j = true ∧ i ≤ j := by
  intro f
  induction f with
  | zero => intro i hf hi; have := bd_le hi; omega
  | succ f ih =>
    intro i hf hi
    unfold spanChars
    cases hd : decodeAt s i with
    | none => exact ⟨i, rfl, hi, Nat.le_refl _⟩
    | some c =>
      obtain ⟨cp, n⟩ := c
      simp only
      have hs := char_step hw hi hd
      by_cases hp : p cp = true
      · simp only [hp, if_true]
        obtain ⟨j, h1, h2, h3⟩ := ih (i + n) (by simp at hs; omega) hs.2.1
        exact ⟨j, h1, h2, by omega⟩
      · simp only [hp]; exact ⟨i, rfl, hi, Nat.le_refl _⟩

/-- where `sparql_skip_ws` stops: the next character is neither whitespace nor `#` -/
def WsStop (cls : CharClass) (s : Bytes) (w : Nat) : Prop :=
  (∀ c, decodeAt s w = some c → isWhite cls c.1 = false) ∧ bAt s w ≠ 0x23

theorem spanChars_self {s : Bytes} (hw : WF s) (p : Nat → Bool) {i : Nat} (hi : isBoundary s i = true)
    (h : spanChars p s (s.length + 1) i = some i) : ∀ c, decodeAt s i = some c → p c.1 = false := by
  intro c hc
  unfold spanChars at h
  simp only [hc] at h
  by_cases hp : p c.1 = true
  · exfalso
    simp only [hp, if_true] at h
    have hs := char_step hw hi hc
    obtain ⟨j, hj, _, hij⟩ := spanChars_spec hw p s.length (i + c.2) (by omega) hs.2.1
    rw [hj] at h
    have : j = i := by simpa using h
    omega
  · simpa using hp

theorem spanChars_stop {s : Bytes} (p : Nat → Bool) {i : Nat} (h : ∀ c, decodeAt s i = some c → p c.1 = false)
    (f : Nat) : spanChars p s (f + 1) i = some i := by
  unfold spanChars
  cases hd : decodeAt s i with
  | none => rfl
  | some c => simp [h c hd]

theorem skipWsLoop_spec {s : Bytes} (hw : WF s) (cls : CharClass) : ∀ (f i : Nat), s.length < f + i →
    isBoundary s i = true →
    ∃ w, skipWsLoop cls s f i = .ok w 0 0 ∧ isBoundary s w = true ∧ i ≤ w ∧ WsStop cls s w := by
  intro f
  induction f with
  | zero => intro i hf hi; have := bd_le hi; omega
  | succ f ih =>
    intro i hf hi
    unfold skipWsLoop
    obtain ⟨j, hj, hbj, hij⟩ := spanChars_spec hw (isWhite cls) (s.length + 1) i (by omega) hi
    simp only [hj]
    by_cases hc : bAt s j = 0x23
    · have hjl : j < s.length := bAt_lt (by omega)
      simp only [hc, beq_self_eq_true, if_true]
      have hge := findByte_ge (fun b => b == 0x0D || b == 0x0A) s (j + 1)
      by_cases hnl : findByte (fun b => b == 0x0D || b == 0x0A) s (j + 1) < s.length
      · have hst := findByte_stop hnl
        have hbn : isBoundary s (findByte (fun b => b == 0x0D || b == 0x0A) s (j + 1)) = true := by
          apply bd_of_ascii
          simp at hst; omega
        simp only [hnl, if_true, hbn]
        obtain ⟨w, h1, h2, h3, h4⟩ := ih _ (by omega) hbn
        exact ⟨w, h1, h2, by omega, h4⟩
      · simp only [hnl, if_false]
        obtain ⟨w, h1, h2, h3, h4⟩ := ih s.length (by omega) (bd_length s)
        exact ⟨w, h1, h2, by omega, h4⟩
    · have : (bAt s j == 0x23) = false := by simpa using hc
      simp only [this]
      by_cases hji : j = i
      · subst hji
        exact ⟨j, by simp, hbj, Nat.le_refl _, spanChars_self hw _ hbj hj, hc⟩
      · have : (j == i) = false := by simpa using hji
        simp only [this]
        obtain ⟨w, h1, h2, h3, h4⟩ := ih j (by omega) hbj
        exact ⟨w, by simpa using h1, h2, by omega, h4⟩

theorem skipWsAt_spec {s : Bytes} (hw : WF s) (cls : CharClass) {b : Nat} (hb : isBoundary s b = true) :
    ∃ w, skipWsAt cls s b = .ok w 0 0 ∧ isBoundary s w = true ∧ b ≤ w := by
  obtain ⟨w, h1, h2, h3, _⟩ := skipWsLoop_spec hw cls (s.length + 1) b (by omega) hb
  exact ⟨w, h1, h2, h3⟩

theorem skipWsAt_stop {s : Bytes} (hw : WF s) (cls : CharClass) {b w : Nat} (hb : isBoundary s b = true)
    {x y : Nat} (h : skipWsAt cls s b = .ok w x y) : WsStop cls s w := by
  obtain ⟨w', h1, _, _, h4⟩ := skipWsLoop_spec hw cls (s.length + 1) b (by omega) hb
  unfold skipWsAt at h
  rw [h1] at h
  have : w' = w := by simpa using (Res.ok.inj h).1
  rw [← this]; exact h4

/-- skipping from a stop position skips nothing -/
theorem skipWsAt_of_stop (cls : CharClass) {s : Bytes} {w : Nat} (h : WsStop cls s w) :
    skipWsAt cls s w = .ok w 0 0 := by
  unfold skipWsAt skipWsLoop
  rw [spanChars_stop _ h.1]
  have : (bAt s w == 0x23) = false := by simpa using h.2
  simp [this]

/-! ## results -/

/-- what every scanner result satisfies on a well-formed string: all slice end points are boundaries, the token
    is non-empty and ends where the remaining input starts; no panic, no fuel exhaustion.
    `lo` = where the scanner's input started. -/
def Good (s : Bytes) (lo : Nat) : Res → Prop
  | .ok n a l => isBoundary s n = true ∧ isBoundary s a = true ∧ a + l = n ∧ 0 < l ∧ lo ≤ a
  | .err _ off l => isBoundary s off = true ∧ isBoundary s (off + l) = true
  | .panic => False
  | .fuel => False

/-- results of loops that compute an index (`.ok n 0 0`) -/
def GoodIdx (s : Bytes) (lo : Nat) : Res → Prop
  | .ok n _ _ => isBoundary s n = true ∧ lo ≤ n
  | .err _ off l => isBoundary s off = true ∧ isBoundary s (off + l) = true
  | .panic => False
  | .fuel => False

theorem good_err_tail {s : Bytes} {lo i : Nat} (k : String) (hi : isBoundary s i = true) :
    Good s lo (.err k i (s.length - i)) := by
  have := bd_le hi
  refine ⟨hi, ?_⟩
  rw [show i + (s.length - i) = s.length by omega]; exact bd_length s

theorem goodIdx_err_tail {s : Bytes} {lo i : Nat} (k : String) (hi : isBoundary s i = true) :
    GoodIdx s lo (.err k i (s.length - i)) := by
  have := bd_le hi
  refine ⟨hi, ?_⟩
  rw [show i + (s.length - i) = s.length by omega]; exact bd_length s

theorem good_mono {s : Bytes} {lo lo' : Nat} {r : Res} (h : Good s lo r) (hl : lo' ≤ lo) : Good s lo' r := by
  cases r with
  | ok n a l => exact ⟨h.1, h.2.1, h.2.2.1, h.2.2.2.1, by have := h.2.2.2.2; omega⟩
  | err k o l => exact h
  | panic => exact h
  | fuel => exact h

theorem tokEnd_good {s : Bytes} {w te : Nat} (hw : isBoundary s w = true) (hte : isBoundary s te = true)
    (hlt : w < te) : Good s w (tokEnd s w te) := by
  unfold tokEnd; simp only [hte, if_true]
  exact ⟨hte, hw, by omega, by omega, Nat.le_refl _⟩

/-! ## sparql_variable -/

theorem varAt_good {s : Bytes} (hw : WF s) (cls : CharClass) {b : Nat} (hb : isBoundary s b = true) :
    Good s b (varAt cls s b) := by
  obtain ⟨w, hws, hbw, hle⟩ := skipWsAt_spec hw cls hb
  unfold varAt
  simp only [hws]
  cases hd : decodeAt s w with
  | none => exact good_err_tail _ hbw
  | some c =>
    simp only
    split
    · exact good_err_tail _ hbw
    · have hs := char_step hw hbw hd
      simp only [hs.2.1, Bool.not_true, Bool.false_eq_true, if_false]
      obtain ⟨j, hj, hbj, hij⟩ := spanChars_spec hw (fun cp => isAlnum cls cp || cp == 0x5F) (s.length + 1)
        (w + c.2) (by omega) hs.2.1
      simp only [hj]
      split
      · exact good_err_tail _ hbw
      · rename_i hne
        simp only [hbj, Bool.not_true, Bool.false_eq_true, if_false]
        have : j ≠ w + c.2 := by simpa using hne
        exact ⟨hbj, hbw, by omega, by omega, hle⟩

/-! ## sparql_unicode_escape_len / sparql_iri -/

theorem uEscLen_spec {s : Bytes} (hw : WF s) {i : Nat} (hi : isBoundary s i = true) (hc : bAt s i = 0x5C) :
    uEscLen s i ≠ .panic ∧ ∀ e, uEscLen s i = .len e → isBoundary s (i + e) = true ∧ 0 < e := by
  have h1 := bd_ascii hw hi (by omega)
  unfold uEscLen
  generalize hd : (if bAt s (i + 1) == 0x75 then 4 else if bAt s (i + 1) == 0x55 then 8 else 0) = d
  simp only
  by_cases hd0 : d = 0
  · simp [hd0]
  · have hu : bAt s (i + 1) < 128 := by
      by_cases h75 : bAt s (i + 1) = 0x75
      · omega
      · by_cases h55 : bAt s (i + 1) = 0x55
        · omega
        · simp [h75, h55] at hd; omega
    have hd0' : (d == 0) = false := by simpa using hd0
    simp only [hd0', Bool.false_eq_true, if_false]
    by_cases hall : allHex s (i + 2) d = true
    · have h2 : isBoundary s (i + 2) = true := bd_ascii hw h1 hu
      have h3 := bd_run hw _ (i + 2) h2 (allHex_ascii hall)
      have he : i + (2 + d) = i + 2 + d := by omega
      simp only [hall, h2, he, h3, Bool.and_self, Bool.not_true, Bool.false_eq_true, if_false]
      split
      · simp
      · refine ⟨by simp, ?_⟩
        intro e hee
        have : e = 2 + d := by simpa using hee.symm
        subst this
        exact ⟨by rw [he]; exact h3, by omega⟩
    · have : allHex s (i + 2) d = false := by simpa using hall
      simp [this]

theorem iriLoop_good {s : Bytes} (hw : WF s) {w : Nat} (hbw : isBoundary s w = true) : ∀ (f i : Nat),
    s.length < f + i → isBoundary s i = true → w < i → Good s w (iriLoop s w f i) := by
  intro f
  induction f with
  | zero => intro i hf hi _; have := bd_le hi; omega
  | succ f ih =>
    intro i hf hi hwi
    unfold iriLoop
    split
    · rename_i hlt
      simp only [hi, Bool.not_true, Bool.false_eq_true, if_false]
      split
      · rename_i hgt
        have : bAt s i = 0x3E := by simpa using hgt
        have h1 := bd_ascii hw hi (by omega)
        simp only [h1, if_true]
        exact ⟨h1, hbw, by omega, by omega, Nat.le_refl _⟩
      · split
        · rename_i hbs
          have hbs' : bAt s i = 0x5C := by simpa using hbs
          have hsp := uEscLen_spec hw hi hbs'
          split
          · exact good_err_tail _ hi
          · rename_i hp; exact absurd hp hsp.1
          · rename_i e he
            have := hsp.2 e he
            exact ih (i + e) (by omega) this.1 (by omega)
        · obtain ⟨c, hc⟩ := decodeAt_some hlt
          simp only [hc]
          have hs := char_step hw hi hc
          split
          · exact good_err_tail _ hi
          · exact ih (i + c.2) (by omega) hs.2.1 (by omega)
    · exact good_err_tail _ hbw

theorem iriAt_good {s : Bytes} (hw : WF s) (cls : CharClass) {b : Nat} (hb : isBoundary s b = true) :
    Good s b (iriAt cls s b) := by
  obtain ⟨w, hws, hbw, hle⟩ := skipWsAt_spec hw cls hb
  unfold iriAt
  simp only [hws]
  split
  · exact good_err_tail _ hbw
  · rename_i hlt
    have : bAt s w = 0x3C := by simpa using hlt
    have h1 := bd_ascii hw hbw (by omega)
    exact good_mono (iriLoop_good hw hbw _ _ (by omega) h1 (by omega)) hle

/-! ## sparql_blank_node -/

theorem isCh_len {c : Nat × Nat} {x : Nat} (h : isCh c x = true) : c.2 = 1 := by
  simp [isCh] at h; exact h.2

theorem bnodeLoop_good {s : Bytes} (hw : WF s) (cls : CharClass) {w : Nat} (hbw : isBoundary s w = true) :
    ∀ (f i te : Nat), s.length < f + i → isBoundary s i = true → isBoundary s te = true → w < te → te ≤ i →
      Good s w (bnodeLoop cls s w f i te) := by
  intro f
  induction f with
  | zero => intro i te hf hi _ _ _; have := bd_le hi; omega
  | succ f ih =>
    intro i te hf hi hte hwt hti
    unfold bnodeLoop
    split
    · rename_i hlt
      simp only [hi, Bool.not_true, Bool.false_eq_true, if_false]
      obtain ⟨c, hc⟩ := decodeAt_some hlt
      simp only [hc]
      have hs := char_step hw hi hc
      split
      · exact ih _ _ (by omega) hs.2.1 hs.2.1 (by omega) (Nat.le_refl _)
      · split
        · rename_i hdot
          have h1 : isBoundary s (i + 1) = true := by rw [← isCh_len hdot]; exact hs.2.1
          exact ih _ _ (by omega) h1 hte hwt (by omega)
        · exact tokEnd_good hbw hte hwt
    · exact tokEnd_good hbw hte hwt

theorem bnodeAt_good {s : Bytes} (hw : WF s) (cls : CharClass) {b : Nat} (hb : isBoundary s b = true) :
    Good s b (bnodeAt cls s b) := by
  obtain ⟨w, hws, hbw, hle⟩ := skipWsAt_spec hw cls hb
  unfold bnodeAt
  simp only [hws]
  split
  · exact good_err_tail _ hbw
  · rename_i htag
    have htag' : bAt s w = 0x5F ∧ bAt s (w + 1) = 0x3A := by simpa using htag
    have h1 := bd_ascii hw hbw (by omega)
    have h2 := bd_ascii hw h1 (by omega)
    cases hd : decodeAt s (w + 2) with
    | none => exact good_err_tail _ hbw
    | some c =>
      simp only
      have hs := char_step hw h2 hd
      split
      · exact good_err_tail _ h2
      · exact good_mono (bnodeLoop_good hw cls hbw _ _ _ (by omega) hs.2.1 hs.2.1 (by omega) (Nat.le_refl _)) hle

/-! ## sparql_invalid_pn_prefix / sparql_prefixed_name -/

def PfxGood (s : Bytes) (colon : Nat) : PfxRes → Prop
  | .valid => True
  | .bad off => isBoundary s off = true ∧ off ≤ colon
  | .panic => False
  | .fuel => False

theorem pfxLoop_good {s : Bytes} (hw : WF s) (cls : CharClass) {colon : Nat} (hbc : isBoundary s colon = true) :
    ∀ (f j : Nat) (dot : Bool), s.length < f + j → isBoundary s j = true → j ≤ colon →
      (dot = true → 1 ≤ j ∧ isBoundary s (j - 1) = true) → PfxGood s colon (pfxLoop cls s colon f j dot) := by
  intro f
  induction f with
  | zero => intro j dot hf hj _ _; have := bd_le hj; omega
  | succ f ih =>
    intro j dot hf hj hjc hdot
    unfold pfxLoop
    have hcl := bd_le hbc
    split
    · rename_i hlt
      obtain ⟨c, hc⟩ := decodeAt_some (by omega : j < s.length)
      simp only [hc]
      have hs := char_step hw hj hc
      have hin : j + c.2 ≤ colon := by
        by_cases h : j + c.2 ≤ colon
        · exact h
        · have := hs.2.2.2 colon hlt (by omega); simp [hbc] at this
      split
      · rename_i hd
        have h1 := isCh_len hd
        refine ih _ _ (by omega) hs.2.1 hin (fun _ => ⟨by omega, ?_⟩)
        rw [h1]; simpa using hj
      · split
        · exact ih _ _ (by omega) hs.2.1 hin (fun h => by simp at h)
        · exact ⟨hj, hjc⟩
    · split
      · rename_i hd
        have hjeq : j = colon := by omega
        subst hjeq
        have := hdot hd
        simp only [this.1, this.2, decide_true, Bool.and_self, if_true]
        exact ⟨this.2, by omega⟩
      · trivial

theorem invalidPfx_good {s : Bytes} (hw : WF s) (cls : CharClass) {w colon : Nat} (hbw : isBoundary s w = true)
    (hbc : isBoundary s colon = true) (hwc : w ≤ colon) : PfxGood s colon (invalidPfx cls s w colon) := by
  unfold invalidPfx
  split
  · trivial
  · rename_i hlt
    cases hd : decodeAt s w with
    | none => trivial
    | some c =>
      simp only
      have hs := char_step hw hbw hd
      have hin : w + c.2 ≤ colon := by
        by_cases h : w + c.2 ≤ colon
        · exact h
        · have := hs.2.2.2 colon (by omega) (by omega); simp [hbc] at this
      split
      · exact ⟨hbw, hwc⟩
      · simp only [hs.2.1, hin, decide_true, Bool.and_self, Bool.not_true, Bool.false_eq_true, if_false]
        exact pfxLoop_good hw cls hbc _ _ _ (by omega) hs.2.1 hin (fun h => by simp at h)

theorem pnameLoop_good {s : Bytes} (hw : WF s) (cls : CharClass) {w : Nat} (hbw : isBoundary s w = true) :
    ∀ (f i te : Nat) (first : Bool), s.length < f + i → isBoundary s i = true → isBoundary s te = true → w < te →
      te ≤ i → Good s w (pnameLoop cls s w f i te first) := by
  intro f
  induction f with
  | zero => intro i te first hf hi _ _ _; have := bd_le hi; omega
  | succ f ih =>
    intro i te first hf hi hte hwt hti
    unfold pnameLoop
    split
    · rename_i hlt
      simp only [hi, Bool.not_true, Bool.false_eq_true, if_false]
      obtain ⟨c, hc⟩ := decodeAt_some hlt
      simp only [hc]
      have hs := char_step hw hi hc
      split
      · exact ih _ _ _ (by omega) hs.2.1 hs.2.1 (by omega) (Nat.le_refl _)
      · split
        · rename_i hdot
          have h1 : isBoundary s (i + 1) = true := by rw [← isCh_len hdot]; exact hs.2.1
          split
          · exact tokEnd_good hbw hte hwt
          · exact ih _ _ _ (by omega) h1 hte hwt (by omega)
        · split
          · rename_i hpct
            have h1 : isBoundary s (i + 1) = true := by rw [← isCh_len hpct]; exact hs.2.1
            split
            · exact good_err_tail _ hi
            · rename_i hesc
              have hesc' : (3 ≤ s.length - i ∧ isHexB (bAt s (i + 1)) = true) ∧ isHexB (bAt s (i + 2)) = true := by
                simpa [not_or] using hesc
              have h2 := bd_ascii hw h1 (isHexB_ascii hesc'.1.2)
              have h3 := bd_ascii hw h2 (isHexB_ascii hesc'.2)
              exact ih _ _ _ (by omega) h3 h3 (by omega) (Nat.le_refl _)
          · split
            · rename_i hbs
              have h1 : isBoundary s (i + 1) = true := by rw [← isCh_len hbs]; exact hs.2.1
              simp only [h1, Bool.not_true, Bool.false_eq_true, if_false]
              cases hd : decodeAt s (i + 1) with
              | none => exact good_err_tail _ hi
              | some e =>
                simp only
                have hs2 := char_step hw h1 hd
                split
                · exact good_err_tail _ hi
                · exact ih _ _ _ (by omega) hs2.2.1 hs2.2.1 (by omega) (Nat.le_refl _)
            · exact tokEnd_good hbw hte hwt
    · exact tokEnd_good hbw hte hwt

theorem pnameAt_good {s : Bytes} (hw : WF s) (cls : CharClass) {b : Nat} (hb : isBoundary s b = true) :
    Good s b (pnameAt cls s b) := by
  obtain ⟨w, hws, hbw, hle⟩ := skipWsAt_spec hw cls hb
  unfold pnameAt
  simp only [hws]
  generalize hcol : findByte (fun x => x == 0x3A) s w = colon
  have hge : w ≤ colon := by rw [← hcol]; exact findByte_ge _ _ _
  split
  · exact good_err_tail _ hbw
  · rename_i hlt
    have hst : bAt s colon = 0x3A := by
      have := findByte_stop (stop := fun x => x == 0x3A) (s := s) (k := w) (by omega)
      rw [hcol] at this; simpa using this
    have hbc : isBoundary s colon = true := bd_of_ascii (by omega)
    have hbc1 := bd_ascii hw hbc (by omega)
    simp only [hbc, hge, decide_true, Bool.and_self, Bool.not_true, Bool.false_eq_true, if_false]
    have hp := invalidPfx_good hw cls hbw hbc hge
    split
    · rename_i off hoff
      rw [hoff] at hp
      refine ⟨hp.1, ?_⟩
      rw [show off + (colon - off) = colon by have := hp.2; omega]; exact hbc
    · rename_i hpn; rw [hpn] at hp; exact hp
    · rename_i hpn; rw [hpn] at hp; exact hp
    · simp only [hbc1, Bool.not_true, Bool.false_eq_true, if_false]
      exact good_mono (pnameLoop_good hw cls hbw _ _ _ _ (by omega) hbc1 hbc1 (by omega) (Nat.le_refl _)) hle

/-! ## sparql_numeric_literal -/

theorem numSignEnd_spec {s : Bytes} (hw : WF s) {i : Nat} (hi : isBoundary s i = true) :
    isBoundary s (numSignEnd s i) = true ∧ i ≤ numSignEnd s i := by
  unfold numSignEnd
  split
  · rename_i h
    have : bAt s i < 128 := by
      simp only [Bool.or_eq_true, beq_iff_eq] at h; omega
    exact ⟨bd_ascii hw hi this, by omega⟩
  · exact ⟨hi, Nat.le_refl _⟩

theorem digitsEnd_spec {s : Bytes} (hw : WF s) {i : Nat} (hi : isBoundary s i = true) :
    isBoundary s (digitsEnd s i) = true ∧ i ≤ digitsEnd s i :=
  ⟨bd_runLen hw (fun _ => isDigitB_ascii) hi, by unfold digitsEnd; omega⟩

theorem numFracEnd_spec {s : Bytes} (hw : WF s) {i : Nat} (hi : isBoundary s i = true) :
    isBoundary s (numFracEnd s i) = true ∧ i ≤ numFracEnd s i ∧ (numFracDigits s i ≠ 0 → i < numFracEnd s i) := by
  unfold numFracEnd numFracDigits
  split
  · rename_i h
    have hdot : bAt s i = 0x2E := by
      simp only [numHasFrac, Bool.and_eq_true, beq_iff_eq] at h; exact h.1
    have h1 := bd_ascii hw hi (by omega)
    have := digitsEnd_spec hw h1
    exact ⟨this.1, by omega, fun _ => by omega⟩
  · exact ⟨hi, Nat.le_refl _, fun h => absurd rfl h⟩

theorem numExpEnd_spec {s : Bytes} (hw : WF s) {i : Nat} (hi : isBoundary s i = true) :
    isBoundary s (numExpEnd s i) = true ∧ i ≤ numExpEnd s i := by
  unfold numExpEnd
  split
  · rename_i h
    have he : bAt s i < 128 := by
      simp only [Bool.or_eq_true, beq_iff_eq] at h; omega
    have h1 := bd_ascii hw hi he
    have h2 := numSignEnd_spec hw h1
    have h3 := digitsEnd_spec hw h2.1
    split
    · exact ⟨hi, Nat.le_refl _⟩
    · exact ⟨h3.1, by omega⟩
  · exact ⟨hi, Nat.le_refl _⟩

theorem numAt_good {s : Bytes} (hw : WF s) (cls : CharClass) {b : Nat} (hb : isBoundary s b = true) :
    Good s b (numAt cls s b) := by
  obtain ⟨w, hws, hbw, hle⟩ := skipWsAt_spec hw cls hb
  unfold numAt
  simp only [hws]
  have h0 := numSignEnd_spec hw hbw
  have h1 := digitsEnd_spec hw h0.1
  have h2 := numFracEnd_spec hw h1.1
  have h3 := numExpEnd_spec hw h2.1
  split
  · exact good_err_tail _ hbw
  · rename_i hdig
    have hpos : w < numExpEnd s (numFracEnd s (digitsEnd s (numSignEnd s w))) := by
      by_cases hint : digitsEnd s (numSignEnd s w) - numSignEnd s w = 0
      · have hfr : numFracDigits s (digitsEnd s (numSignEnd s w)) ≠ 0 := by
          intro hf; apply hdig; simp [hint, hf]
        have := h2.2.2 hfr
        omega
      · omega
    unfold numFinish
    simp only [h3.1, Bool.not_true, Bool.false_eq_true, if_false]
    have hok : Good s b (.ok (numExpEnd s (numFracEnd s (digitsEnd s (numSignEnd s w)))) w
        (numExpEnd s (numFracEnd s (digitsEnd s (numSignEnd s w))) - w)) :=
      ⟨h3.1, hbw, by omega, by omega, hle⟩
    split
    · split
      · exact good_err_tail _ hbw
      · exact hok
    · exact hok

/-! ## sparql_quoted_literal -/

theorem litLoop_good {s : Bytes} (hw : WF s) {w q : Nat} (triple : Bool) (hbw : isBoundary s w = true)
    (hq : q < 128) (lo : Nat) : ∀ (f i : Nat), s.length < f + i → isBoundary s i = true → lo ≤ i →
      GoodIdx s lo (litLoop s w q triple f i) := by
  intro f
  induction f with
  | zero => intro i hf hi _; have := bd_le hi; omega
  | succ f ih =>
    intro i hf hi hlo
    unfold litLoop
    by_cases hlt : i < s.length
    · rw [if_pos hlt]
      rw [if_neg (by simp [hi])]
      by_cases hdel : startsDelim s i q triple = true
      · rw [if_pos hdel]
        simp only [startsDelim, Bool.and_eq_true, beq_iff_eq, Bool.or_eq_true, Bool.not_eq_true'] at hdel
        have h1 := bd_ascii hw hi (by omega)
        cases triple with
        | false => exact ⟨by simpa using h1, by simp; omega⟩
        | true =>
          have hd2 : bAt s (i + 1) = q ∧ bAt s (i + 2) = q := by simpa using hdel.2
          have h2 := bd_ascii hw h1 (by omega)
          have h3 := bd_ascii hw h2 (by rw [show i + 1 + 1 = i + 2 by omega]; omega)
          exact ⟨by simpa using h3, by simp; omega⟩
      · rw [if_neg hdel]
        obtain ⟨c, hc⟩ := decodeAt_some hlt
        simp only [hc]
        have hs := char_step hw hi hc
        split
        · exact goodIdx_err_tail _ hi
        · split
          · rename_i hbs
            have h1 : isBoundary s (i + 1) = true := by rw [← isCh_len hbs]; exact hs.2.1
            simp only [h1, Bool.not_true, Bool.false_eq_true, if_false]
            cases hd : decodeAt s (i + 1) with
            | none => exact goodIdx_err_tail _ hi
            | some e =>
              simp only
              have hs2 := char_step hw h1 hd
              split
              · exact ih _ (by omega) hs2.2.1 (by omega)
              · split
                · simp only [hs2.2.1, Bool.not_true, Bool.false_eq_true, if_false]
                  generalize (if (e.1 == 0x75) = true then 4 else 8) = digits
                  split
                  · exact goodIdx_err_tail _ hi
                  · rename_i hall
                    have hall' : allHex s (i + 1 + e.2) digits = true := by simpa using hall
                    have h3 := bd_run hw _ _ hs2.2.1 (allHex_ascii hall')
                    simp only [h3, Bool.not_true, Bool.false_eq_true, if_false]
                    split
                    · exact goodIdx_err_tail _ hi
                    · exact ih _ (by omega) h3 (by omega)
                · exact goodIdx_err_tail _ hi
          · exact ih _ (by omega) hs.2.1 (by omega)
    · rw [if_neg hlt]; exact goodIdx_err_tail _ hbw

theorem langLoop_good {s : Bytes} (hw : WF s) {le : Nat} (hble : isBoundary s le = true) (lo : Nat) :
    ∀ (f e : Nat), s.length < f + e → isBoundary s e = true → lo ≤ e → GoodIdx s lo (langLoop s le f e) := by
  intro f
  induction f with
  | zero => intro e hf he _; have := bd_le he; omega
  | succ f ih =>
    intro e hf he hlo
    unfold langLoop
    split
    · rename_i hdash
      have : bAt s e = 0x2D := by simpa using hdash
      have h1 := bd_ascii hw he (by omega)
      simp only [h1, Bool.not_true, Bool.false_eq_true, if_false]
      split
      · exact goodIdx_err_tail _ hble
      · have h2 : isBoundary s (e + 1 + runLen isAlnumB s (e + 1)) = true :=
          bd_runLen hw (fun _ => isAlnumB_ascii) h1
        exact ih _ (by omega) h2 (by omega)
    · exact ⟨he, hlo⟩

theorem good_of_goodIdx_notok {s : Bytes} {lo lo' : Nat} {r : Res} (h : GoodIdx s lo r)
    (hn : ∀ n a l, r ≠ .ok n a l) : Good s lo' r := by
  cases r with
  | ok n a l => exact absurd rfl (hn n a l)
  | err k o l => exact h
  | panic => exact h
  | fuel => exact h

theorem good_notok_lo {s : Bytes} {lo lo' : Nat} {r : Res} (h : Good s lo r)
    (hn : ∀ n a l, r ≠ .ok n a l) : Good s lo' r := by
  cases r with
  | ok n a l => exact absurd rfl (hn n a l)
  | err k o l => exact h
  | panic => exact h
  | fuel => exact h

theorem litSuffix_good {s : Bytes} (hw : WF s) (cls : CharClass) {w le : Nat} (hbw : isBoundary s w = true)
    (hble : isBoundary s le = true) (hwl : w < le) : Good s w (litSuffix cls s w le) := by
  unfold litSuffix
  rw [if_neg (by simp [hble])]
  by_cases hat : (bAt s le == 0x40) = true
  · rw [if_pos hat]
    have hat' : bAt s le = 0x40 := by simpa using hat
    have h1 := bd_ascii hw hble (by omega)
    split
    · exact good_err_tail _ hble
    · have h2 : isBoundary s (le + 1 + runLen isAlphaB s (le + 1)) = true :=
        bd_runLen hw (fun _ => isAlphaB_ascii) h1
      have hl := langLoop_good hw hble (le + 1) (s.length + 1) _ (by omega) h2 (by omega)
      cases hr : langLoop s le (s.length + 1) (le + 1 + runLen isAlphaB s (le + 1)) with
      | ok e x y =>
        rw [hr] at hl
        simp only
        rw [if_neg (by simp [hl.1])]
        have hok := tokEnd_good hbw hl.1 (by have := hl.2; omega)
        split
        · split
          · exact good_err_tail _ hble
          · exact hok
        · exact hok
      | err k o l => rw [hr] at hl; exact hl
      | panic => rw [hr] at hl; exact hl
      | fuel => rw [hr] at hl; exact hl
  · rw [if_neg hat]
    by_cases hdt : (bAt s le == 0x5E && bAt s (le + 1) == 0x5E) = true
    · rw [if_pos hdt]
      have hdt' : bAt s le = 0x5E ∧ bAt s (le + 1) = 0x5E := by simpa using hdt
      have h1 := bd_ascii hw hble (by omega)
      have h2 := bd_ascii hw h1 (by omega)
      obtain ⟨d, hds, hbd, hdle⟩ := skipWsAt_spec hw cls h2
      rw [show le + 1 + 1 = le + 2 by omega] at hds
      simp only [hds]
      have hiri := iriAt_good hw cls hbd
      cases hr : iriAt cls s d with
      | ok n a l =>
        rw [hr] at hiri
        simp only
        exact tokEnd_good hbw hiri.1 (by have := hiri.2.2; omega)
      | err k o l =>
        simp only
        have hpn := pnameAt_good hw cls hbd
        cases hr2 : pnameAt cls s d with
        | ok n a l =>
          rw [hr2] at hpn
          simp only
          exact tokEnd_good hbw hpn.1 (by have := hpn.2.2; omega)
        | err k o l => rw [hr2] at hpn; exact hpn
        | panic => rw [hr2] at hpn; exact hpn
        | fuel => rw [hr2] at hpn; exact hpn
      | panic => rw [hr] at hiri; exact hiri
      | fuel => rw [hr] at hiri; exact hiri
    · rw [if_neg hdt]
      exact tokEnd_good hbw hble hwl

theorem litAt_good {s : Bytes} (hw : WF s) (cls : CharClass) {b : Nat} (hb : isBoundary s b = true) :
    Good s b (litAt cls s b) := by
  obtain ⟨w, hws, hbw, hle⟩ := skipWsAt_spec hw cls hb
  unfold litAt
  simp only [hws]
  cases hd : decodeAt s w with
  | none => exact good_err_tail _ hbw
  | some c =>
    simp only
    have hs := char_step hw hbw hd
    split
    · exact good_err_tail _ hbw
    · rename_i hquote
      have hq : (c.1 = 0x27 ∨ c.1 = 0x22) ∧ c.2 = 1 := by
        have : ¬c.1 = 0x27 ∨ ¬c.2 = 1 → c.1 = 0x22 ∧ c.2 = 1 := by simpa [isCh] using hquote
        omega
      have hstart : isBoundary s (w + (if litTriple s w c.1 then 3 else 1)) = true := by
        by_cases ht : litTriple s w c.1 = true
        · simp only [ht, if_true]
          have ht' : (bAt s w = c.1 ∧ bAt s (w + 1) = c.1) ∧ bAt s (w + 2) = c.1 := by
            simpa [litTriple] using ht
          have h1 := bd_ascii hw hbw (by omega)
          have h2 := bd_ascii hw h1 (by omega)
          exact bd_ascii hw h2 (by rw [show w + 1 + 1 = w + 2 by omega]; omega)
        · simp only [ht]
          rw [← hq.2]; exact hs.2.1
      have hl := litLoop_good hw (litTriple s w c.1) hbw (by omega : c.1 < 128) (w + 1) (s.length + 1) _
        (by omega) hstart (by split <;> omega)
      cases hr : litLoop s w c.1 (litTriple s w c.1) (s.length + 1) (w + (if litTriple s w c.1 then 3 else 1)) with
      | ok le x y =>
        rw [hr] at hl
        simp only
        exact good_mono (litSuffix_good hw cls hbw hl.1 (by have := hl.2; omega)) hle
      | err k o l => rw [hr] at hl; exact hl
      | panic => rw [hr] at hl; exact hl
      | fuel => rw [hr] at hl; exact hl

/-! ## the theorems, per scanner -/

theorem good_no_panic {s : Bytes} {lo : Nat} {r : Res} (h : Good s lo r) : r ≠ .panic := by
  intro hr; rw [hr] at h; exact h
theorem good_no_fuel {s : Bytes} {lo : Nat} {r : Res} (h : Good s lo r) : r ≠ .fuel := by
  intro hr; rw [hr] at h; exact h
theorem good_boundary {s : Bytes} {lo : Nat} {r : Res} {n a l : Nat} (h : Good s lo r) (hr : r = .ok n a l) :
    n ≤ s.length ∧ isBoundary s n = true ∧ isBoundary s a = true ∧ isBoundary s (a + l) = true ∧ a + l = n := by
  rw [hr] at h
  exact ⟨bd_le h.1, h.1, h.2.1, by rw [h.2.2.1]; exact h.1, h.2.2.1⟩
theorem good_err_boundary {s : Bytes} {lo : Nat} {r : Res} {k : String} {off len : Nat} (h : Good s lo r)
    (hr : r = .err k off len) :
    off + len ≤ s.length ∧ isBoundary s off = true ∧ isBoundary s (off + len) = true := by
  rw [hr] at h
  exact ⟨bd_le h.2, h.1, h.2⟩
theorem good_progress {s : Bytes} {lo : Nat} {r : Res} {n a l : Nat} (h : Good s lo r) (hr : r = .ok n a l) :
    0 < l := by
  rw [hr] at h; exact h.2.2.2.1

/-! ### sparql_skip_ws -/

/-- `sparql_skip_ws` never fails, and the returned slice starts on a character boundary of the input -/
theorem skipWs_boundary (cls : CharClass) {s : Bytes} (hw : WF s) :
    ∃ w, skipWs cls s = .ok w 0 0 ∧ w ≤ s.length ∧ isBoundary s w = true := by
  obtain ⟨w, h1, h2, _⟩ := skipWsAt_spec hw cls (bd_zero s)
  exact ⟨w, h1, bd_le h2, h2⟩

/-- skipping whitespace again from where `sparql_skip_ws` stopped skips nothing -/
theorem skipWs_idempotent (cls : CharClass) {s : Bytes} (hw : WF s) {w x y : Nat}
    (h : skipWs cls s = .ok w x y) : skipWsAt cls s w = .ok w 0 0 :=
  skipWsAt_of_stop cls (skipWsAt_stop hw cls (bd_zero s) h)

/-- the same from any boundary (what the nested calls `scanner(sparql_skip_ws(x))` rely on) -/
theorem skipWsAt_idempotent (cls : CharClass) {s : Bytes} (hw : WF s) {b w x y : Nat}
    (hb : isBoundary s b = true) (h : skipWsAt cls s b = .ok w x y) : skipWsAt cls s w = .ok w 0 0 :=
  skipWsAt_of_stop cls (skipWsAt_stop hw cls hb h)

/-! ### sparql_variable -/

theorem scanVar_good (cls : CharClass) {s : Bytes} (hw : WF s) : Good s 0 (scanVar cls s) :=
  varAt_good hw cls (bd_zero s)

/-- `sparql_variable` never slices its input off a character boundary or out of range -/
theorem scanVar_no_panic (cls : CharClass) {s : Bytes} (hw : WF s) : scanVar cls s ≠ .panic :=
  good_no_panic (scanVar_good cls hw)

/-- the model's loop budget is never exhausted -/
theorem scanVar_no_fuel (cls : CharClass) {s : Bytes} (hw : WF s) : scanVar cls s ≠ .fuel :=
  good_no_fuel (scanVar_good cls hw)

/-- on success the remaining input and the token both start and end on character boundaries, and the token ends
    exactly where the remaining input starts -/
theorem scanVar_boundary (cls : CharClass) {s : Bytes} (hw : WF s) {n a l : Nat} (h : scanVar cls s = .ok n a l) :
    n ≤ s.length ∧ isBoundary s n = true ∧ isBoundary s a = true ∧ isBoundary s (a + l) = true ∧ a + l = n :=
  good_boundary (scanVar_good cls hw) h

/-- the error's `input` slice lies inside the scanner's input, on character boundaries -/
theorem scanVar_err_boundary (cls : CharClass) {s : Bytes} (hw : WF s) {k : String} {off len : Nat}
    (h : scanVar cls s = .err k off len) :
    off + len ≤ s.length ∧ isBoundary s off = true ∧ isBoundary s (off + len) = true :=
  good_err_boundary (scanVar_good cls hw) h

/-- a successful scan returns a non-empty token -/
theorem scanVar_progress (cls : CharClass) {s : Bytes} (hw : WF s) {n a l : Nat} (h : scanVar cls s = .ok n a l) :
    0 < l :=
  good_progress (scanVar_good cls hw) h

/-! ### sparql_iri -/

theorem scanIri_good (cls : CharClass) {s : Bytes} (hw : WF s) : Good s 0 (scanIri cls s) :=
  iriAt_good hw cls (bd_zero s)

/-- `sparql_iri` never slices its input off a character boundary or out of range -/
theorem scanIri_no_panic (cls : CharClass) {s : Bytes} (hw : WF s) : scanIri cls s ≠ .panic :=
  good_no_panic (scanIri_good cls hw)

/-- the model's loop budget is never exhausted -/
theorem scanIri_no_fuel (cls : CharClass) {s : Bytes} (hw : WF s) : scanIri cls s ≠ .fuel :=
  good_no_fuel (scanIri_good cls hw)

/-- on success the remaining input and the token both start and end on character boundaries, and the token ends
    exactly where the remaining input starts -/
theorem scanIri_boundary (cls : CharClass) {s : Bytes} (hw : WF s) {n a l : Nat} (h : scanIri cls s = .ok n a l) :
    n ≤ s.length ∧ isBoundary s n = true ∧ isBoundary s a = true ∧ isBoundary s (a + l) = true ∧ a + l = n :=
  good_boundary (scanIri_good cls hw) h

/-- the error's `input` slice lies inside the scanner's input, on character boundaries -/
theorem scanIri_err_boundary (cls : CharClass) {s : Bytes} (hw : WF s) {k : String} {off len : Nat}
    (h : scanIri cls s = .err k off len) :
    off + len ≤ s.length ∧ isBoundary s off = true ∧ isBoundary s (off + len) = true :=
  good_err_boundary (scanIri_good cls hw) h

/-- a successful scan returns a non-empty token -/
theorem scanIri_progress (cls : CharClass) {s : Bytes} (hw : WF s) {n a l : Nat} (h : scanIri cls s = .ok n a l) :
    0 < l :=
  good_progress (scanIri_good cls hw) h

/-! ### sparql_blank_node -/

theorem scanBnode_good (cls : CharClass) {s : Bytes} (hw : WF s) : Good s 0 (scanBnode cls s) :=
  bnodeAt_good hw cls (bd_zero s)

/-- `sparql_blank_node` never slices its input off a character boundary or out of range -/
theorem scanBnode_no_panic (cls : CharClass) {s : Bytes} (hw : WF s) : scanBnode cls s ≠ .panic :=
  good_no_panic (scanBnode_good cls hw)

/-- the model's loop budget is never exhausted -/
theorem scanBnode_no_fuel (cls : CharClass) {s : Bytes} (hw : WF s) : scanBnode cls s ≠ .fuel :=
  good_no_fuel (scanBnode_good cls hw)

/-- on success the remaining input and the token both start and end on character boundaries, and the token ends
    exactly where the remaining input starts -/
theorem scanBnode_boundary (cls : CharClass) {s : Bytes} (hw : WF s) {n a l : Nat} (h : scanBnode cls s = .ok n a l) :
    n ≤ s.length ∧ isBoundary s n = true ∧ isBoundary s a = true ∧ isBoundary s (a + l) = true ∧ a + l = n :=
  good_boundary (scanBnode_good cls hw) h

/-- the error's `input` slice lies inside the scanner's input, on character boundaries -/
theorem scanBnode_err_boundary (cls : CharClass) {s : Bytes} (hw : WF s) {k : String} {off len : Nat}
    (h : scanBnode cls s = .err k off len) :
    off + len ≤ s.length ∧ isBoundary s off = true ∧ isBoundary s (off + len) = true :=
  good_err_boundary (scanBnode_good cls hw) h

/-- a successful scan returns a non-empty token -/
theorem scanBnode_progress (cls : CharClass) {s : Bytes} (hw : WF s) {n a l : Nat} (h : scanBnode cls s = .ok n a l) :
    0 < l :=
  good_progress (scanBnode_good cls hw) h

/-! ### sparql_prefixed_name -/

theorem scanPname_good (cls : CharClass) {s : Bytes} (hw : WF s) : Good s 0 (scanPname cls s) :=
  pnameAt_good hw cls (bd_zero s)

/-- `sparql_prefixed_name` never slices its input off a character boundary or out of range -/
theorem scanPname_no_panic (cls : CharClass) {s : Bytes} (hw : WF s) : scanPname cls s ≠ .panic :=
  good_no_panic (scanPname_good cls hw)

/-- the model's loop budget is never exhausted -/
theorem scanPname_no_fuel (cls : CharClass) {s : Bytes} (hw : WF s) : scanPname cls s ≠ .fuel :=
  good_no_fuel (scanPname_good cls hw)

/-- on success the remaining input and the token both start and end on character boundaries, and the token ends
    exactly where the remaining input starts -/
theorem scanPname_boundary (cls : CharClass) {s : Bytes} (hw : WF s) {n a l : Nat} (h : scanPname cls s = .ok n a l) :
    n ≤ s.length ∧ isBoundary s n = true ∧ isBoundary s a = true ∧ isBoundary s (a + l) = true ∧ a + l = n :=
  good_boundary (scanPname_good cls hw) h

/-- the error's `input` slice lies inside the scanner's input, on character boundaries -/
theorem scanPname_err_boundary (cls : CharClass) {s : Bytes} (hw : WF s) {k : String} {off len : Nat}
    (h : scanPname cls s = .err k off len) :
    off + len ≤ s.length ∧ isBoundary s off = true ∧ isBoundary s (off + len) = true :=
  good_err_boundary (scanPname_good cls hw) h

/-- a successful scan returns a non-empty token -/
theorem scanPname_progress (cls : CharClass) {s : Bytes} (hw : WF s) {n a l : Nat} (h : scanPname cls s = .ok n a l) :
    0 < l :=
  good_progress (scanPname_good cls hw) h

/-! ### sparql_numeric_literal -/

theorem scanNum_good (cls : CharClass) {s : Bytes} (hw : WF s) : Good s 0 (scanNum cls s) :=
  numAt_good hw cls (bd_zero s)

/-- `sparql_numeric_literal` never slices its input off a character boundary or out of range -/
theorem scanNum_no_panic (cls : CharClass) {s : Bytes} (hw : WF s) : scanNum cls s ≠ .panic :=
  good_no_panic (scanNum_good cls hw)

/-- the model's loop budget is never exhausted -/
theorem scanNum_no_fuel (cls : CharClass) {s : Bytes} (hw : WF s) : scanNum cls s ≠ .fuel :=
  good_no_fuel (scanNum_good cls hw)

/-- on success the remaining input and the token both start and end on character boundaries, and the token ends
    exactly where the remaining input starts -/
theorem scanNum_boundary (cls : CharClass) {s : Bytes} (hw : WF s) {n a l : Nat} (h : scanNum cls s = .ok n a l) :
    n ≤ s.length ∧ isBoundary s n = true ∧ isBoundary s a = true ∧ isBoundary s (a + l) = true ∧ a + l = n :=
  good_boundary (scanNum_good cls hw) h

/-- the error's `input` slice lies inside the scanner's input, on character boundaries -/
theorem scanNum_err_boundary (cls : CharClass) {s : Bytes} (hw : WF s) {k : String} {off len : Nat}
    (h : scanNum cls s = .err k off len) :
    off + len ≤ s.length ∧ isBoundary s off = true ∧ isBoundary s (off + len) = true :=
  good_err_boundary (scanNum_good cls hw) h

/-- a successful scan returns a non-empty token -/
theorem scanNum_progress (cls : CharClass) {s : Bytes} (hw : WF s) {n a l : Nat} (h : scanNum cls s = .ok n a l) :
    0 < l :=
  good_progress (scanNum_good cls hw) h

/-! ### sparql_quoted_literal -/

theorem scanLit_good (cls : CharClass) {s : Bytes} (hw : WF s) : Good s 0 (scanLit cls s) :=
  litAt_good hw cls (bd_zero s)

/-- `sparql_quoted_literal` never slices its input off a character boundary or out of range -/
theorem scanLit_no_panic (cls : CharClass) {s : Bytes} (hw : WF s) : scanLit cls s ≠ .panic :=
  good_no_panic (scanLit_good cls hw)

/-- the model's loop budget is never exhausted -/
theorem scanLit_no_fuel (cls : CharClass) {s : Bytes} (hw : WF s) : scanLit cls s ≠ .fuel :=
  good_no_fuel (scanLit_good cls hw)

/-- on success the remaining input and the token both start and end on character boundaries, and the token ends
    exactly where the remaining input starts -/
theorem scanLit_boundary (cls : CharClass) {s : Bytes} (hw : WF s) {n a l : Nat} (h : scanLit cls s = .ok n a l) :
    n ≤ s.length ∧ isBoundary s n = true ∧ isBoundary s a = true ∧ isBoundary s (a + l) = true ∧ a + l = n :=
  good_boundary (scanLit_good cls hw) h

/-- the error's `input` slice lies inside the scanner's input, on character boundaries -/
theorem scanLit_err_boundary (cls : CharClass) {s : Bytes} (hw : WF s) {k : String} {off len : Nat}
    (h : scanLit cls s = .err k off len) :
    off + len ≤ s.length ∧ isBoundary s off = true ∧ isBoundary s (off + len) = true :=
  good_err_boundary (scanLit_good cls hw) h

/-- a successful scan returns a non-empty token -/
theorem scanLit_progress (cls : CharClass) {s : Bytes} (hw : WF s) {n a l : Nat} (h : scanLit cls s = .ok n a l) :
    0 < l :=
  good_progress (scanLit_good cls hw) h

/-! ## non-vacuity: evaluations on multi-byte inputs -/

/-- é (U+00E9) and 語 (U+8A9E) alphabetic, U+00A0 whitespace -/
def exCls : CharClass :=
  { alpha := fun cp => cp == 0xE9 || cp == 0x8A9E, numeric := fun _ => false, white := fun cp => cp == 0xA0 }

/-- `<http://é/語> .` -/
def exIri : Bytes := [0x3C, 0x68, 0x74, 0x74, 0x70, 0x3A, 0x2F, 0x2F, 0xC3, 0xA9, 0x2F, 0xE8, 0xAA, 0x9E, 0x3E, 0x20, 0x2E]
example : WF exIri := by unfold WF; decide +kernel
example : scanIri exCls exIri = .ok 15 0 15 := by decide +kernel
/-- ` U+00A0 ?é1 ` -/
def exVar : Bytes := [0x20, 0xC2, 0xA0, 0x3F, 0xC3, 0xA9, 0x31, 0x20]
example : WF exVar := by unfold WF; decide +kernel
example : skipWs exCls exVar = .ok 3 0 0 := by decide +kernel
example : scanVar exCls exVar = .ok 7 3 4 := by decide +kernel
/-- `é:語.` — the trailing dot is not part of the name -/
def exPname : Bytes := [0xC3, 0xA9, 0x3A, 0xE8, 0xAA, 0x9E, 0x2E]
example : WF exPname := by unfold WF; decide +kernel
example : scanPname exCls exPname = .ok 6 0 6 := by decide +kernel
/-- `é.:a` — the error slice of a prefix ending in a dot is the middle slice `&prefix[prefix.len() - 1..]` -/
def exPnameDot : Bytes := [0xC3, 0xA9, 0x2E, 0x3A, 0x61]
example : scanPname exCls exPnameDot = .err "Verify" 2 1 := by decide +kernel
/-- `_:é.語.` -/
def exBnode : Bytes := [0x5F, 0x3A, 0xC3, 0xA9, 0x2E, 0xE8, 0xAA, 0x9E, 0x2E]
example : WF exBnode := by unfold WF; decide +kernel
example : scanBnode exCls exBnode = .ok 8 0 8 := by decide +kernel
/-- `'é'@en-GB;` -/
def exLit : Bytes := [0x27, 0xC3, 0xA9, 0x27, 0x40, 0x65, 0x6E, 0x2D, 0x47, 0x42, 0x3B]
example : WF exLit := by unfold WF; decide +kernel
example : scanLit exCls exLit = .ok 10 0 10 := by decide +kernel
/-- `"é"^^<é>` -/
def exLitDt : Bytes := [0x22, 0xC3, 0xA9, 0x22, 0x5E, 0x5E, 0x3C, 0xC3, 0xA9, 0x3E]
example : scanLit exCls exLitDt = .ok 10 0 10 := by decide +kernel
/-- `-1.5e3é`: a letter right after the number is an error over the whole input -/
def exNum : Bytes := [0x2D, 0x31, 0x2E, 0x35, 0x65, 0x33, 0xC3, 0xA9]
example : WF exNum := by unfold WF; decide +kernel
example : scanNum exCls exNum = .err "Verify" 0 8 := by decide +kernel
example : scanNum exCls (exNum.take 6) = .ok 6 0 6 := by decide +kernel
/-- `<é >`: the error slice starts after the two-byte character -/
example : scanIri exCls [0x3C, 0xC3, 0xA9, 0x20, 0x3E] = .err "Verify" 3 2 := by decide +kernel
/-- `panic` is reachable in the model, so `…_no_panic` says something: `<\u00e9` followed by a stray continuation
    byte (not a `&str`) makes `&input[2..end]` in `sparql_unicode_escape_len` a non-boundary slice -/
def exBad : Bytes := [0x3C, 0x5C, 0x75, 0x30, 0x30, 0x65, 0x39, 0xA9, 0x3E]
example : ¬ WF exBad := by unfold WF; decide +kernel
example : scanIri exCls exBad = .panic := by decide +kernel

end Kolibrie.Scan
