import Kolibrie.Model.Dict
import Kolibrie.Spec.TermIds
/-!
Helper lemmas for C15: association lists as hash maps, the id range test, the invariants of the dictionary and of
the quoted-triple store, lexical denotation, `reencode_term_id`, `union`.
-/
namespace Kolibrie.Dict
open Kolibrie.Extracted

/-! ## the range test -/

theorem and_two_pow_eq_zero (id k : Nat) : (id &&& 2^k = 0) ↔ id.testBit k = false := by
  constructor
  · intro h
    have := congrArg (fun x => x.testBit k) h
    simpa [Nat.testBit_and, Nat.testBit_two_pow] using this
  · intro h
    apply Nat.eq_of_testBit_eq
    intro i
    simp only [Nat.testBit_and, Nat.testBit_two_pow, Nat.zero_testBit]
    by_cases e : k = i
    · subst e; simp [h]
    · simp [e]

/-- the extracted constant is the single bit 31 (re-checked against the source on every run) -/
theorem quotedBit_eq : quotedBit = 2 ^ 31 := by decide

theorem isQuoted_iff (id : Nat) (h : id < 2^32) : isQuoted id = true ↔ quotedBit ≤ id := by
  unfold isQuoted
  rw [quotedBit_eq]
  simp only [bne_iff_ne, ne_eq, and_two_pow_eq_zero, Nat.testBit_eq_decide_div_mod_eq]
  simp only [decide_eq_false_iff_not, Decidable.not_not]
  omega

theorem isQuoted_lt (id : Nat) (h : id < quotedBit) : isQuoted id = false := by
  unfold isQuoted
  have : id &&& quotedBit = 0 := by
    rw [quotedBit_eq, and_two_pow_eq_zero]; exact Nat.testBit_lt_two_pow (by rw [← quotedBit_eq]; exact h)
  simp [this]

theorem isQuoted_ge (id : Nat) (h : isQuoted id = true) : quotedBit ≤ id := by
  unfold isQuoted at h
  rw [quotedBit_eq] at *
  simp only [bne_iff_ne, ne_eq, and_two_pow_eq_zero] at h
  exact Nat.ge_two_pow_of_testBit (by simpa using h)

theorem quotedBit_lt_u32Max : quotedBit < u32Max := by decide

/-! ## association lists -/

section assoc
variable {κ : Type} {ν : Type} [BEq κ] [LawfulBEq κ]

theorem lookup_filter_ne (l : List (κ × ν)) (k k' : κ) :
    (l.filter (fun e => !(e.1 == k))).lookup k' = if k' == k then none else l.lookup k' := by
  induction l with
  | nil => simp
  | cons e l ih =>
    obtain ⟨a, b⟩ := e
    by_cases h : a == k
    · have hak : a = k := eq_of_beq h
      subst hak
      simp only [List.filter_cons, BEq.rfl, Bool.not_true, Bool.false_eq_true, ↓reduceIte, ih, List.lookup_cons]
      by_cases h2 : k' == a <;> simp [h2]
    · simp only [List.filter_cons, h, Bool.not_false, ↓reduceIte, List.lookup_cons, ih]
      by_cases h2 : k' == a
      · have : k' = a := eq_of_beq h2
        subst this
        simp [h]
      · simp [h2]

theorem lookup_put (l : List (κ × ν)) (k k' : κ) (v : ν) :
    (put l k v).lookup k' = if k' == k then some v else l.lookup k' := by
  unfold put
  rw [List.lookup_cons, lookup_filter_ne]
  by_cases h : k' == k <;> simp [h]

theorem lookup_mem {l : List (κ × ν)} {k : κ} {v : ν} (h : l.lookup k = some v) : (k, v) ∈ l := by
  induction l with
  | nil => simp at h
  | cons e l ih =>
    obtain ⟨a, b⟩ := e
    rw [List.lookup_cons] at h
    by_cases h2 : k == a
    · have : k = a := eq_of_beq h2
      subst this
      simp at h; subst h; simp
    · simp [h2] at h; exact List.mem_cons_of_mem _ (ih h)

theorem lookup_isSome_of_mem {l : List (κ × ν)} {k : κ} {v : ν} (h : (k, v) ∈ l) : (l.lookup k).isSome := by
  induction l with
  | nil => simp at h
  | cons e l ih =>
    obtain ⟨a, b⟩ := e
    rw [List.lookup_cons]
    by_cases h2 : k == a
    · simp [h2]
    · simp only [h2]
      rcases List.mem_cons.1 h with e | e
      · cases e; simp at h2
      · exact ih e

theorem mem_keys_iff {l : List (κ × ν)} {k : κ} : k ∈ keys l ↔ ∃ v, l.lookup k = some v := by
  unfold keys
  constructor
  · intro h
    obtain ⟨⟨a, b⟩, hm, rfl⟩ := List.mem_map.1 h
    exact Option.isSome_iff_exists.1 (lookup_isSome_of_mem hm)
  · rintro ⟨v, h⟩
    exact List.mem_map.2 ⟨(k, v), lookup_mem h, rfl⟩

theorem keys_put_nodup {l : List (κ × ν)} (k : κ) (v : ν) (h : (keys l).Nodup) : (keys (put l k v)).Nodup := by
  unfold keys put at *
  rw [List.map_cons, List.nodup_cons]
  constructor
  · intro hm
    obtain ⟨⟨a, b⟩, hm, e⟩ := List.mem_map.1 hm
    simp only at e; subst e
    simp at hm
  · exact (List.filter_sublist.map _).nodup h

end assoc

/-! ## a pair of maps kept in lock-step with a counter -/

section bimap
variable {κ : Type} [BEq κ] [LawfulBEq κ]

/-- the two maps are mutually inverse, keys are unique, every id lies in `[lo, next)` -/
structure BInv (fwd : List (κ × Nat)) (bwd : List (Nat × κ)) (lo next : Nat) : Prop where
  inv : ∀ k i, fwd.lookup k = some i ↔ bwd.lookup i = some k
  range : ∀ i k, bwd.lookup i = some k → lo ≤ i ∧ i < next
  nodupF : (keys fwd).Nodup
  nodupB : (keys bwd).Nodup

omit [LawfulBEq κ] in
theorem BInv.empty (lo next : Nat) : BInv ([] : List (κ × Nat)) [] lo next :=
  ⟨by simp, by simp, by simp [keys], by simp [keys]⟩

theorem BInv.put {fwd : List (κ × Nat)} {bwd : List (Nat × κ)} {lo n : Nat} (h : BInv fwd bwd lo n)
    (k : κ) (hk : fwd.lookup k = none) (hlo : lo ≤ n) :
    BInv (put fwd k n) (put bwd n k) lo (n + 1) := by
  refine ⟨?_, ?_, keys_put_nodup _ _ h.nodupF, keys_put_nodup _ _ h.nodupB⟩
  · intro k' i
    rw [lookup_put, lookup_put]
    by_cases e1 : k' = k
    · subst e1
      by_cases e2 : i = n
      · subst e2; simp
      · have : ¬ bwd.lookup i = some k' := fun hb => by
          have := (h.inv k' i).2 hb; rw [hk] at this; cases this
        simp [e2, this, Ne.symm e2]
    · by_cases e2 : i = n
      · subst e2
        have : ¬ fwd.lookup k' = some i := fun hf => by
          have := (h.range i k' ((h.inv k' i).1 hf)).2; omega
        simp [e1, this, Ne.symm e1]
      · simp [e1, e2, h.inv k' i]
  · intro i k'
    rw [lookup_put]
    by_cases e2 : i = n
    · subst e2; intro _; omega
    · simp only [beq_iff_eq, e2, ↓reduceIte]
      intro hb; have := h.range i k' hb; omega

omit [LawfulBEq κ] in
/-- two keys never share an id -/
theorem BInv.inj {fwd : List (κ × Nat)} {bwd : List (Nat × κ)} {lo n : Nat} (h : BInv fwd bwd lo n)
    {k k' : κ} {i : Nat} (h1 : fwd.lookup k = some i) (h2 : fwd.lookup k' = some i) : k = k' := by
  have a := (h.inv k i).1 h1
  have b := (h.inv k' i).1 h2
  rw [a] at b; cases b; rfl

end bimap

/-! ## `Dictionary` -/

/-- the dictionary invariant: the two maps are mutually inverse with unique keys, every id is below the counter
    and below the quoted range -/
structure DInv (d : Dict) : Prop where
  bi : BInv d.s2i d.i2s 0 d.next
  below : ∀ i s, d.i2s.lookup i = some s → i < quotedBit

theorem DInv.start (n : Nat) : DInv ⟨[], [], n⟩ := ⟨BInv.empty 0 n, by simp⟩

theorem encode_spec {d d' : Dict} {s : String} {i : Nat} (h : DInv d) (he : d.encode s = .ok (d', i)) :
    DInv d' ∧ d'.s2i.lookup s = some i ∧ d'.decode i = some s ∧ i < quotedBit ∧
    (∀ t j, d.s2i.lookup t = some j → d'.s2i.lookup t = some j) ∧
    (∀ j t, d.decode j = some t → d'.decode j = some t) ∧
    (∀ j t, d'.decode j = some t → d.decode j = some t ∨ (j = i ∧ t = s)) ∧ d.next ≤ d'.next := by
  unfold Dict.encode at he
  cases hl : d.s2i.lookup s with
  | some id =>
    simp only [hl, Except.ok.injEq, Prod.mk.injEq] at he
    obtain ⟨rfl, rfl⟩ := he
    have hd := (h.bi.inv s id).1 hl
    exact ⟨h, hl, hd, h.below _ _ hd, fun _ _ x => x, fun _ _ x => x, fun _ _ x => Or.inl x, Nat.le_refl _⟩
  | none =>
    simp only [hl] at he
    by_cases hn : d.next < quotedBit
    · simp only [hn, ↓reduceIte, Except.ok.injEq, Prod.mk.injEq] at he
      obtain ⟨rfl, rfl⟩ := he
      refine ⟨⟨h.bi.put s hl (Nat.zero_le _), ?_⟩, ?_, ?_, hn, ?_, ?_, ?_, Nat.le_succ _⟩
      · intro i t; simp only [lookup_put]
        by_cases e : i = d.next
        · subst e; intro _; exact hn
        · simp only [beq_iff_eq, e, ↓reduceIte]; exact h.below i t
      · simp [lookup_put]
      · simp [Dict.decode, lookup_put]
      · intro t j ht; simp only [lookup_put]
        by_cases e : t = s
        · subst e; rw [hl] at ht; cases ht
        · simp [e, ht]
      · intro j t ht; simp only [Dict.decode, lookup_put]
        have := (h.bi.range j t ht).2
        have e : j ≠ d.next := by omega
        simp [e]; exact ht
      · intro j t; simp only [Dict.decode, lookup_put]
        by_cases e : j = d.next
        · subst e; simp; intro x; exact Or.inr x.symm
        · simp only [beq_iff_eq, e, ↓reduceIte]; exact Or.inl
    · simp [hn] at he

/-! ## `QuotedTripleStore` -/

/-- the store invariant: the two maps are mutually inverse with unique keys, every id lies in
    `[quotedBit, next)` and is a `u32` -/
structure QInv (q : QStore) : Prop where
  bi : BInv q.c2i q.i2c quotedBit q.next
  lo : quotedBit ≤ q.next
  hi : q.next ≤ u32Max

/-- nesting is well-founded: a component that is itself a quoted id is smaller than the id it is part of -/
def QWf (q : QStore) : Prop :=
  ∀ id a b c, q.decode id = some (a, b, c) →
    (isQuoted a = true → a < id) ∧ (isQuoted b = true → b < id) ∧ (isQuoted c = true → c < id)

theorem QInv.start (n : Nat) (h1 : quotedBit ≤ n) (h2 : n ≤ u32Max) : QInv ⟨[], [], n⟩ := ⟨BInv.empty _ _, h1, h2⟩

theorem QInv.isQuoted {q : QStore} (h : QInv q) {id : Nat} {c : Comp} (hd : q.decode id = some c) :
    isQuoted id = true ∧ id < q.next := by
  have := h.bi.range id c hd
  have hh := h.hi
  refine ⟨(isQuoted_iff id ?_).2 this.1, this.2⟩
  have : u32Max < 2 ^ 32 := by decide
  omega

theorem qencode_spec {q q' : QStore} {c : Comp} {i : Nat} (h : QInv q) (he : q.encode c = .ok (q', i)) :
    QInv q' ∧ q'.c2i.lookup c = some i ∧ q'.decode i = some c ∧
    (∀ t j, q.c2i.lookup t = some j → q'.c2i.lookup t = some j) ∧
    (∀ j t, q.decode j = some t → q'.decode j = some t) ∧
    (∀ j t, q'.decode j = some t → q.decode j = some t ∨ (j = i ∧ t = c ∧ i = q.next)) ∧ q.next ≤ q'.next := by
  unfold QStore.encode at he
  cases hl : q.c2i.lookup c with
  | some id =>
    simp only [hl, Except.ok.injEq, Prod.mk.injEq] at he
    obtain ⟨rfl, rfl⟩ := he
    have hd := (h.bi.inv c id).1 hl
    exact ⟨h, hl, hd, fun _ _ x => x, fun _ _ x => x, fun _ _ x => Or.inl x, Nat.le_refl _⟩
  | none =>
    simp only [hl] at he
    by_cases hn : q.next < u32Max
    · simp only [hn, ↓reduceIte, Except.ok.injEq, Prod.mk.injEq] at he
      obtain ⟨rfl, rfl⟩ := he
      refine ⟨⟨h.bi.put c hl h.lo, ?_, ?_⟩, ?_, ?_, ?_, ?_, ?_, Nat.le_succ _⟩
      · have := h.lo; simp only; omega
      · simp only; omega
      · simp [lookup_put]
      · simp [QStore.decode, lookup_put]
      · intro t j ht; simp only [lookup_put]
        by_cases e : t = c
        · subst e; rw [hl] at ht; cases ht
        · simp [e, ht]
      · intro j t ht; simp only [QStore.decode, lookup_put]
        have := (h.bi.range j t ht).2
        have e : j ≠ q.next := by omega
        simp [e]; exact ht
      · intro j t; simp only [QStore.decode, lookup_put]
        by_cases e : j = q.next
        · subst e; simp; intro x; exact Or.inr x.symm
        · simp only [beq_iff_eq, e, ↓reduceIte]; exact Or.inl
    · simp [hn] at he

/-- encoding a triple whose quoted components are already allocated keeps nesting well-founded -/
theorem qencode_wf {q q' : QStore} {a b c : Nat} {i : Nat} (h : QInv q) (hw : QWf q)
    (he : q.encode (a, b, c) = .ok (q', i))
    (ha : isQuoted a = true → a < q.next) (hb : isQuoted b = true → b < q.next) (hc : isQuoted c = true → c < q.next) :
    QWf q' := by
  obtain ⟨_, _, _, _, _, hnew, _⟩ := qencode_spec h he
  intro id x y z hd
  rcases hnew id _ hd with old | ⟨rfl, e, rfl⟩
  · exact hw id x y z old
  · cases e; exact ⟨ha, hb, hc⟩

/-! ## lexical denotation -/

theorem Den.functional {d : Dict} {q : QStore} {id : Nat} {τ τ' : LTerm}
    (h : Den d q id τ) (h' : Den d q id τ') : τ = τ' := by
  induction h generalizing τ' with
  | plain hq hd =>
    cases h' with
    | plain _ hd' => rw [hd] at hd'; cases hd'; rfl
    | quoted hq' _ _ _ _ => rw [hq] at hq'; cases hq'
  | quoted hq hd _ _ _ iha ihb ihc =>
    cases h' with
    | plain hq' _ => rw [hq] at hq'; cases hq'
    | quoted _ hd' ha' hb' hc' =>
      rw [hd] at hd'; cases hd'
      rw [iha ha', ihb hb', ihc hc']

theorem Den.mono {d d' : Dict} {q q' : QStore} {id : Nat} {τ : LTerm}
    (hd : ∀ j t, d.decode j = some t → d'.decode j = some t)
    (hq : ∀ j t, q.decode j = some t → q'.decode j = some t)
    (h : Den d q id τ) : Den d' q' id τ := by
  induction h with
  | plain hq' hd' => exact .plain hq' (hd _ _ hd')
  | quoted hq' hd' _ _ _ iha ihb ihc => exact .quoted hq' (hq _ _ hd') iha ihb ihc

/-- **distinct identifiers denote distinct terms** (with `Den.functional`: identifiers ↔ terms is a bijection) -/
theorem Den.inj {d : Dict} {q : QStore} (hD : DInv d) (hQ : QInv q) {id id' : Nat} {τ : LTerm}
    (h : Den d q id τ) (h' : Den d q id' τ) : id = id' := by
  induction h generalizing id' with
  | plain _ hd =>
    cases h' with
    | plain _ hd' =>
      have a := (hD.bi.inv _ _).2 hd
      have b := (hD.bi.inv _ _).2 hd'
      rw [a] at b; cases b; rfl
  | quoted _ hd _ _ _ iha ihb ihc =>
    cases h' with
    | quoted _ hd' ha' hb' hc' =>
      have ea := iha ha'; have eb := ihb hb'; have ec := ihc hc'
      subst ea; subst eb; subst ec
      have a := (hQ.bi.inv _ _).2 hd
      have b := (hQ.bi.inv _ _).2 hd'
      rw [a] at b; cases b; rfl

/-- an identifier that denotes something is an allocated identifier -/
theorem Den.valid {d : Dict} {q : QStore} {id : Nat} {τ : LTerm} (h : Den d q id τ) : validId d q id = true := by
  cases h with
  | plain hq hd => simp [validId, hq, hd]
  | quoted hq hd _ _ _ => simp [validId, hq, hd]

theorem Den.lt_next {d : Dict} {q : QStore} (hQ : QInv q) {id : Nat} {τ : LTerm} (h : Den d q id τ)
    (hq : isQuoted id = true) : id < q.next := by
  cases h with
  | plain hq' _ => rw [hq] at hq'; cases hq'
  | quoted _ hd _ _ _ => exact (hQ.isQuoted hd).2

/-- `decode_term` only ever returns the denotation -/
theorem decodeTermF_sound (d : Dict) (q : QStore) : ∀ (f id : Nat) (τ : LTerm),
    decodeTermF d q f id = .ok (some τ) → Den d q id τ := by
  intro f
  induction f with
  | zero => intro id τ h; simp [decodeTermF] at h
  | succ f ih =>
    intro id τ h
    unfold decodeTermF at h
    by_cases hq : isQuoted id = true
    · simp only [hq, ↓reduceIte] at h
      cases hd : q.decode id with
      | none => simp [hd] at h
      | some c =>
        obtain ⟨a, b, c⟩ := c
        simp only [hd] at h
        cases ha : decodeTermF d q f a with
        | error e => simp [ha] at h
        | ok ra =>
          cases ra with
          | none => simp [ha] at h
          | some ta =>
            simp only [ha] at h
            cases hb : decodeTermF d q f b with
            | error e => simp [hb] at h
            | ok rb =>
              cases rb with
              | none => simp [hb] at h
              | some tb =>
                simp only [hb] at h
                cases hc : decodeTermF d q f c with
                | error e => simp [hc] at h
                | ok rc =>
                  cases rc with
                  | none => simp [hc] at h
                  | some tc =>
                    simp only [hc, Except.ok.injEq, Option.some.injEq] at h
                    subst h
                    exact .quoted hq hd (ih _ _ ha) (ih _ _ hb) (ih _ _ hc)
    · have hq' : isQuoted id = false := by simpa using hq
      simp only [hq', Bool.false_eq_true, ↓reduceIte, Except.ok.injEq] at h
      cases hd : d.decode id with
      | none => simp [hd] at h
      | some s => simp [hd] at h; subst h; exact .plain hq' hd

/-- enough fuel for `id`: one unit for a plain id, more than `id` for a quoted one -/
def fuelOK (f id : Nat) : Prop := 1 ≤ f ∧ (isQuoted id = true → id < f)

theorem fuelOK_fuelFor (id : Nat) : fuelOK (fuelFor id) id := by
  unfold fuelOK fuelFor; omega

theorem quotedBit_pos : 0 < quotedBit := by decide

theorem fuelOK_comp {f id x : Nat} (h : fuelOK (f + 1) id) (hq : isQuoted id = true)
    (hx : isQuoted x = true → x < id) : fuelOK f x := by
  have := isQuoted_ge id hq
  have := quotedBit_pos
  obtain ⟨_, h2⟩ := h
  have h2 := h2 hq
  refine ⟨by omega, fun hxq => ?_⟩
  have := hx hxq
  omega

/-- in a well-founded store `decode_term` finds the denotation of every identifier that has one -/
theorem decodeTermF_complete (d : Dict) (q : QStore) (hw : QWf q) {id : Nat} {τ : LTerm} (h : Den d q id τ) :
    ∀ f, fuelOK f id → decodeTermF d q f id = .ok (some τ) := by
  induction h with
  | plain hq hd =>
    intro f hf
    obtain ⟨f, rfl⟩ : ∃ g, f = g + 1 := ⟨f - 1, by have := hf.1; omega⟩
    simp [decodeTermF, hq, hd]
  | @quoted id a b c ta tb tc hq hd _ _ _ iha ihb ihc =>
    intro f hf
    obtain ⟨f, rfl⟩ : ∃ g, f = g + 1 := ⟨f - 1, by have := hf.1; omega⟩
    obtain ⟨wa, wb, wc⟩ := hw id a b c hd
    simp [decodeTermF, hq, hd, iha f (fuelOK_comp hf hq wa), ihb f (fuelOK_comp hf hq wb), ihc f (fuelOK_comp hf hq wc)]

theorem decodeTerm_iff (d : Dict) (q : QStore) (hw : QWf q) (id : Nat) (τ : LTerm) :
    decodeTerm d q id = .ok (some τ) ↔ Den d q id τ :=
  ⟨decodeTermF_sound d q _ id τ, fun h => decodeTermF_complete d q hw h _ (fuelOK_fuelFor id)⟩

theorem den_iff (db : DB) (hw : QWf db.q) (id : Nat) (τ : LTerm) : db.den id = some τ ↔ Den db.d db.q id τ := by
  have key := decodeTerm_iff db.d db.q hw id τ
  unfold DB.den
  generalize decodeTerm db.d db.q id = r at key ⊢
  cases r with
  | ok r => simpa using key
  | error e => simpa using key

end Kolibrie.Dict

namespace Kolibrie.Dict
open Kolibrie.Extracted

/-! ## `reencode_term_id` -/

/-- invariant of the re-encoding target (merged dictionary + merged quoted store) -/
structure TInv (t : Tgt) : Prop where
  d : DInv t.d
  q : QInv t.q
  wf : QWf t.q
  closed : ∀ id c, t.q.decode id = some c → ∃ τ, Den t.d t.q id τ

/-- every cache entry maps a source id to a target id with the same denotation -/
def CacheOK (sd : Dict) (sq : QStore) (t : Tgt) : Prop :=
  ∀ i j, t.cache.lookup i = some j → ∃ τ, Den sd sq i τ ∧ Den t.d t.q j τ

/-- the target only grows: nothing that decoded before decodes differently afterwards -/
def Ext (t t' : Tgt) : Prop :=
  (∀ j s, t.d.decode j = some s → t'.d.decode j = some s) ∧ (∀ j c, t.q.decode j = some c → t'.q.decode j = some c)

/-- nothing is added to the target except terms of the source -/
def NoJunk (sd : Dict) (sq : QStore) (t t' : Tgt) : Prop :=
  ∀ x τ, Den t'.d t'.q x τ → Den t.d t.q x τ ∨ ∃ i, Den sd sq i τ

theorem Ext.refl (t : Tgt) : Ext t t := ⟨fun _ _ h => h, fun _ _ h => h⟩
theorem Ext.trans {a b c : Tgt} (h1 : Ext a b) (h2 : Ext b c) : Ext a c :=
  ⟨fun j s h => h2.1 j s (h1.1 j s h), fun j s h => h2.2 j s (h1.2 j s h)⟩
theorem Ext.den {t t' : Tgt} (h : Ext t t') {id : Nat} {τ : LTerm} (hd : Den t.d t.q id τ) : Den t'.d t'.q id τ :=
  hd.mono h.1 h.2
theorem NoJunk.refl (sd : Dict) (sq : QStore) (t : Tgt) : NoJunk sd sq t t := fun _ _ h => Or.inl h
theorem NoJunk.trans {sd : Dict} {sq : QStore} {a b c : Tgt} (h1 : NoJunk sd sq a b) (h2 : NoJunk sd sq b c) :
    NoJunk sd sq a c := fun x τ h => by
  rcases h2 x τ h with h | h
  · exact h1 x τ h
  · exact Or.inr h

/-- what one successful re-encoding step establishes -/
structure Step (sd : Dict) (sq : QStore) (t t' : Tgt) : Prop where
  inv : TInv t'
  cache : CacheOK sd sq t'
  ext : Ext t t'
  nojunk : NoJunk sd sq t t'

theorem Step.trans {sd : Dict} {sq : QStore} {a b c : Tgt} (h1 : Step sd sq a b) (h2 : Step sd sq b c) : Step sd sq a c :=
  ⟨h2.inv, h2.cache, h1.ext.trans h2.ext, h1.nojunk.trans h2.nojunk⟩

theorem cacheOK_put {sd : Dict} {sq : QStore} {t t' : Tgt} {id j : Nat} {τ : LTerm}
    (hc : CacheOK sd sq t) (he : Ext t t') (hs : Den sd sq id τ) (ht : Den t'.d t'.q j τ)
    (hcache : t'.cache = put t.cache id j) : CacheOK sd sq t' := by
  intro i k hl
  rw [hcache, lookup_put] at hl
  by_cases e : i = id
  · subst e; simp at hl; subst hl; exact ⟨τ, hs, ht⟩
  · simp [e] at hl
    obtain ⟨τ', a, b⟩ := hc i k hl
    exact ⟨τ', a, he.den b⟩

/-- **`reencode_term_id` preserves lexical denotation.**  Whenever the call returns, the returned target id denotes
    in the (extended) target exactly what `id` denotes in the source; the target invariant and the cache stay
    correct; nothing already in the target changes; nothing but source terms is added. -/
theorem reencodeF_spec (sd : Dict) (sq : QStore) : ∀ (f id : Nat) (t t' : Tgt) (j : Nat),
    reencodeF sd sq f id t = .ok (t', j) → TInv t → CacheOK sd sq t →
    Step sd sq t t' ∧ ∃ τ, Den sd sq id τ ∧ Den t'.d t'.q j τ := by
  intro f
  induction f with
  | zero => intro id t t' j h; simp [reencodeF] at h
  | succ f ih =>
    intro id t t' j h hT hC
    unfold reencodeF at h
    cases hl : t.cache.lookup id with
    | some tr =>
      simp only [hl, Except.ok.injEq, Prod.mk.injEq] at h
      obtain ⟨rfl, rfl⟩ := h
      exact ⟨⟨hT, hC, Ext.refl _, NoJunk.refl _ _ _⟩, hC id tr hl⟩
    | none =>
      simp only [hl] at h
      by_cases hq : isQuoted id = true
      · simp only [hq, ↓reduceIte] at h
        cases hd : sq.decode id with
        | none => simp [hd] at h
        | some c =>
          obtain ⟨a, b, c⟩ := c
          simp only [hd] at h
          cases h1 : reencodeF sd sq f a t with
          | error e => simp [h1] at h
          | ok r1 =>
            obtain ⟨t1, a'⟩ := r1
            simp only [h1] at h
            obtain ⟨s1, τa, da, da'⟩ := ih a t t1 a' h1 hT hC
            cases h2 : reencodeF sd sq f b t1 with
            | error e => simp [h2] at h
            | ok r2 =>
              obtain ⟨t2, b'⟩ := r2
              simp only [h2] at h
              obtain ⟨s2, τb, db, db'⟩ := ih b t1 t2 b' h2 s1.inv s1.cache
              cases h3 : reencodeF sd sq f c t2 with
              | error e => simp [h3] at h
              | ok r3 =>
                obtain ⟨t3, c'⟩ := r3
                simp only [h3] at h
                obtain ⟨s3, τc, dc, dc'⟩ := ih c t2 t3 c' h3 s2.inv s2.cache
                cases h4 : t3.q.encode (a', b', c') with
                | error e => simp [h4] at h
                | ok r4 =>
                  obtain ⟨q', id'⟩ := r4
                  simp only [h4, Except.ok.injEq, Prod.mk.injEq] at h
                  obtain ⟨rfl, rfl⟩ := h
                  have s13 : Step sd sq t t3 := (s1.trans s2).trans s3
                  have T3 := s3.inv
                  obtain ⟨Q', _, hdec, _, hqext, hqnew, _⟩ := qencode_spec T3.q h4
                  -- denotations of the translated components, in t3 and in the final target
                  have A3 : Den t3.d t3.q a' τa := s3.ext.den (s2.ext.den da')
                  have B3 : Den t3.d t3.q b' τb := s3.ext.den db'
                  have E : Ext t3 ⟨t3.d, q', put t3.cache id id'⟩ := ⟨fun _ _ x => x, hqext⟩
                  have hj : isQuoted id' = true := (Q'.isQuoted hdec).1
                  have DJ : Den t3.d q' id' (.quoted τa τb τc) := .quoted hj hdec (E.den A3) (E.den B3) (E.den dc')
                  have WF : QWf q' := qencode_wf T3.q T3.wf h4 (A3.lt_next T3.q) (B3.lt_next T3.q) (dc'.lt_next T3.q)
                  have SRC : Den sd sq id (.quoted τa τb τc) := .quoted hq hd da db dc
                  have step : Step sd sq t3 ⟨t3.d, q', put t3.cache id id'⟩ := by
                    refine ⟨⟨T3.d, Q', WF, ?_⟩, cacheOK_put s3.cache E SRC DJ rfl, E, ?_⟩
                    · intro x cx hx
                      rcases hqnew x cx hx with old | ⟨rfl, _, _⟩
                      · obtain ⟨τ, hτ⟩ := T3.closed x cx old
                        exact ⟨τ, E.den hτ⟩
                      · exact ⟨_, DJ⟩
                    · intro x τ hx
                      cases hx with
                      | plain hxq hxd => exact Or.inl (.plain hxq hxd)
                      | @quoted _ xa xb xc ta tb tc hxq hxd ha hb hc =>
                        rcases hqnew x _ hxd with old | ⟨rfl, _, _⟩
                        · obtain ⟨τ0, hτ0⟩ := T3.closed x _ old
                          have := (E.den hτ0).functional (Den.quoted hxq hxd ha hb hc)
                          rw [← this]; exact Or.inl hτ0
                        · have := DJ.functional (Den.quoted hxq hxd ha hb hc)
                          rw [← this]; exact Or.inr ⟨id, SRC⟩
                  exact ⟨s13.trans step, _, SRC, DJ⟩
      · have hq' : isQuoted id = false := by simpa using hq
        simp only [hq', Bool.false_eq_true, ↓reduceIte] at h
        cases hd : sd.decode id with
        | none => simp [hd] at h
        | some lex =>
          simp only [hd] at h
          cases h4 : t.d.encode lex with
          | error e => simp [h4] at h
          | ok r4 =>
            obtain ⟨d', id'⟩ := r4
            simp only [h4, Except.ok.injEq, Prod.mk.injEq] at h
            obtain ⟨rfl, rfl⟩ := h
            obtain ⟨D', _, hdec, hlt, _, hdext, hdnew, _⟩ := encode_spec hT.d h4
            have E : Ext t ⟨d', t.q, put t.cache id id'⟩ := ⟨hdext, fun _ _ x => x⟩
            have SRC : Den sd sq id (.plain lex) := .plain hq' hd
            have DJ : Den d' t.q id' (.plain lex) := .plain (isQuoted_lt id' hlt) hdec
            refine ⟨⟨⟨D', hT.q, hT.wf, ?_⟩, cacheOK_put hC E SRC DJ rfl, E, ?_⟩, _, SRC, DJ⟩
            · intro x cx hx
              obtain ⟨τ, hτ⟩ := hT.closed x cx hx
              exact ⟨τ, E.den hτ⟩
            · intro x τ hx
              cases hx with
              | plain hxq hxd =>
                rcases hdnew x _ hxd with old | ⟨rfl, rfl⟩
                · exact Or.inl (.plain hxq old)
                · exact Or.inr ⟨id, SRC⟩
              | @quoted _ xa xb xc ta tb tc hxq hxd ha hb hc =>
                obtain ⟨τ0, hτ0⟩ := hT.closed x _ hxd
                have := (E.den hτ0).functional (Den.quoted hxq hxd ha hb hc)
                rw [← this]; exact Or.inl hτ0

end Kolibrie.Dict

namespace Kolibrie.Dict
open Kolibrie.Extracted

/-! ## translating lists of ids, quads, seeds -/

/-- source id `i` and target id `x` denote the same term -/
def SameId (sd : Dict) (sq : QStore) (t : Tgt) (i x : Nat) : Prop := ∃ τ, Den sd sq i τ ∧ Den t.d t.q x τ

theorem SameId.mono {sd : Dict} {sq : QStore} {t t' : Tgt} {i x : Nat} (h : SameId sd sq t i x) (e : Ext t t') :
    SameId sd sq t' i x := by
  obtain ⟨τ, a, b⟩ := h; exact ⟨τ, a, e.den b⟩

theorem reencode_spec (sd : Dict) (sq : QStore) (id : Nat) (t t' : Tgt) (j : Nat)
    (h : reencode sd sq id t = .ok (t', j)) (hT : TInv t) (hC : CacheOK sd sq t) :
    Step sd sq t t' ∧ SameId sd sq t' id j :=
  reencodeF_spec sd sq _ id t t' j h hT hC

/-- element-wise `SameId` -/
def SameIds (sd : Dict) (sq : QStore) (t : Tgt) : List Nat → List Nat → Prop
  | [], [] => True
  | i :: is, x :: xs => SameId sd sq t i x ∧ SameIds sd sq t is xs
  | _, _ => False

theorem SameIds.mono {sd : Dict} {sq : QStore} {t t' : Tgt} (e : Ext t t') :
    ∀ {is xs : List Nat}, SameIds sd sq t is xs → SameIds sd sq t' is xs
  | [], [], _ => trivial
  | _ :: _, _ :: _, ⟨a, b⟩ => ⟨a.mono e, SameIds.mono e b⟩
  | [], _ :: _, h => h.elim
  | _ :: _, [], h => h.elim

theorem SameIds.fwd {sd : Dict} {sq : QStore} {t : Tgt} :
    ∀ {is xs : List Nat}, SameIds sd sq t is xs → ∀ i ∈ is, ∃ x ∈ xs, SameId sd sq t i x
  | [], [], _, i, hi => by simp at hi
  | j :: is, y :: xs, ⟨a, b⟩, i, hi => by
    rcases List.mem_cons.1 hi with e | e
    · subst e; exact ⟨y, by simp, a⟩
    · obtain ⟨x, hx, hs⟩ := SameIds.fwd b i e
      exact ⟨x, List.mem_cons_of_mem _ hx, hs⟩
  | [], _ :: _, h, _, _ => h.elim
  | _ :: _, [], h, _, _ => h.elim

theorem SameIds.bwd {sd : Dict} {sq : QStore} {t : Tgt} :
    ∀ {is xs : List Nat}, SameIds sd sq t is xs → ∀ x ∈ xs, ∃ i ∈ is, SameId sd sq t i x
  | [], [], _, x, hx => by simp at hx
  | j :: is, y :: xs, ⟨a, b⟩, x, hx => by
    rcases List.mem_cons.1 hx with e | e
    · subst e; exact ⟨j, by simp, a⟩
    · obtain ⟨i, hi, hs⟩ := SameIds.bwd b x e
      exact ⟨i, List.mem_cons_of_mem _ hi, hs⟩
  | [], _ :: _, h, _, _ => h.elim
  | _ :: _, [], h, _, _ => h.elim

theorem reencList_spec (sd : Dict) (sq : QStore) : ∀ (ids : List Nat) (t t' : Tgt) (xs : List Nat),
    reencList sd sq ids t = .ok (t', xs) → TInv t → CacheOK sd sq t →
    Step sd sq t t' ∧ SameIds sd sq t' ids xs := by
  intro ids
  induction ids with
  | nil =>
    intro t t' xs h hT hC
    simp only [reencList, Except.ok.injEq, Prod.mk.injEq] at h
    obtain ⟨rfl, rfl⟩ := h
    exact ⟨⟨hT, hC, Ext.refl _, NoJunk.refl _ _ _⟩, trivial⟩
  | cons id rest ih =>
    intro t t' xs h hT hC
    unfold reencList at h
    cases h1 : reencode sd sq id t with
    | error e => simp [h1] at h
    | ok r1 =>
      obtain ⟨t1, x⟩ := r1
      simp only [h1] at h
      obtain ⟨s1, sx⟩ := reencode_spec sd sq id t t1 x h1 hT hC
      cases h2 : reencList sd sq rest t1 with
      | error e => simp [h2] at h
      | ok r2 =>
        obtain ⟨t2, xs'⟩ := r2
        simp only [h2, Except.ok.injEq, Prod.mk.injEq] at h
        obtain ⟨rfl, rfl⟩ := h
        obtain ⟨s2, sxs⟩ := ih t1 t2 xs' h2 s1.inv s1.cache
        exact ⟨s1.trans s2, sx.mono s2.ext, sxs⟩

def SameTriple (sd : Dict) (sq : QStore) (t : Tgt) (c c' : Comp) : Prop :=
  SameId sd sq t c.1 c'.1 ∧ SameId sd sq t c.2.1 c'.2.1 ∧ SameId sd sq t c.2.2 c'.2.2

theorem reencTriple_spec (sd : Dict) (sq : QStore) (c : Comp) (t t' : Tgt) (c' : Comp)
    (h : reencTriple sd sq c t = .ok (t', c')) (hT : TInv t) (hC : CacheOK sd sq t) :
    Step sd sq t t' ∧ SameTriple sd sq t' c c' := by
  unfold reencTriple at h
  cases h1 : reencList sd sq [c.1, c.2.1, c.2.2] t with
  | error e => simp [h1] at h
  | ok r =>
    obtain ⟨t1, xs⟩ := r
    obtain ⟨s1, sx⟩ := reencList_spec sd sq _ t t1 xs h1 hT hC
    match xs, sx with
    | [a, b, c''], ⟨ha, hb, hc, _⟩ =>
      simp only [h1, Except.ok.injEq, Prod.mk.injEq] at h
      obtain ⟨rfl, rfl⟩ := h
      exact ⟨s1, ha, hb, hc⟩

def SameQuad (sd : Dict) (sq : QStore) (t : Tgt) (a b : QuadI) : Prop :=
  SameId sd sq t a.s b.s ∧ SameId sd sq t a.p b.p ∧ SameId sd sq t a.o b.o ∧
  match a.g, b.g with
  | none, none => True
  | some g, some g' => SameId sd sq t g g'
  | _, _ => False

theorem SameTriple.mono {sd : Dict} {sq : QStore} {t t' : Tgt} {c c' : Comp} (h : SameTriple sd sq t c c') (e : Ext t t') :
    SameTriple sd sq t' c c' := ⟨h.1.mono e, h.2.1.mono e, h.2.2.mono e⟩

theorem SameQuad.mono {sd : Dict} {sq : QStore} {t t' : Tgt} {a b : QuadI} (h : SameQuad sd sq t a b) (e : Ext t t') :
    SameQuad sd sq t' a b := by
  obtain ⟨h1, h2, h3, h4⟩ := h
  refine ⟨h1.mono e, h2.mono e, h3.mono e, ?_⟩
  cases ha : a.g <;> cases hb : b.g <;> simp only [ha, hb] at h4 ⊢
  exact h4.mono e

theorem reencQuad_spec (sd : Dict) (sq : QStore) (qd : QuadI) (t t' : Tgt) (qd' : QuadI)
    (h : reencQuad sd sq qd t = .ok (t', qd')) (hT : TInv t) (hC : CacheOK sd sq t) :
    Step sd sq t t' ∧ SameQuad sd sq t' qd qd' := by
  unfold reencQuad at h
  cases h1 : reencTriple sd sq (qd.s, qd.p, qd.o) t with
  | error e => simp [h1] at h
  | ok r =>
    obtain ⟨t1, s, p, o⟩ := r
    simp only [h1] at h
    obtain ⟨s1, hs, hp, ho⟩ := reencTriple_spec sd sq _ t t1 _ h1 hT hC
    cases hg : qd.g with
    | none =>
      simp only [hg, Except.ok.injEq, Prod.mk.injEq] at h
      obtain ⟨rfl, rfl⟩ := h
      exact ⟨s1, hs, hp, ho, by simp [hg]⟩
    | some g =>
      simp only [hg] at h
      cases h2 : reencode sd sq g t1 with
      | error e => simp [h2] at h
      | ok r2 =>
        obtain ⟨t2, g'⟩ := r2
        simp only [h2, Except.ok.injEq, Prod.mk.injEq] at h
        obtain ⟨rfl, rfl⟩ := h
        obtain ⟨s2, sg⟩ := reencode_spec sd sq g t1 t2 g' h2 s1.inv s1.cache
        exact ⟨s1.trans s2, hs.mono s2.ext, hp.mono s2.ext, ho.mono s2.ext, by simpa [hg] using sg⟩

/-- element-wise relation between two lists -/
def All2 {α β} (R : α → β → Prop) : List α → List β → Prop
  | [], [] => True
  | a :: as, b :: bs => R a b ∧ All2 R as bs
  | _, _ => False

theorem All2.imp {α β} {R S : α → β → Prop} (h : ∀ a b, R a b → S a b) :
    ∀ {as : List α} {bs : List β}, All2 R as bs → All2 S as bs
  | [], [], _ => trivial
  | _ :: _, _ :: _, ⟨a, b⟩ => ⟨h _ _ a, All2.imp h b⟩
  | [], _ :: _, x => x.elim
  | _ :: _, [], x => x.elim

theorem All2.fwd {α β} {R : α → β → Prop} :
    ∀ {as : List α} {bs : List β}, All2 R as bs → ∀ a ∈ as, ∃ b ∈ bs, R a b
  | [], [], _, a, ha => by simp at ha
  | x :: as, y :: bs, ⟨h1, h2⟩, a, ha => by
    rcases List.mem_cons.1 ha with e | e
    · subst e; exact ⟨y, by simp, h1⟩
    · obtain ⟨b, hb, hr⟩ := All2.fwd h2 a e
      exact ⟨b, List.mem_cons_of_mem _ hb, hr⟩
  | [], _ :: _, x, _, _ => x.elim
  | _ :: _, [], x, _, _ => x.elim

theorem All2.bwd {α β} {R : α → β → Prop} :
    ∀ {as : List α} {bs : List β}, All2 R as bs → ∀ b ∈ bs, ∃ a ∈ as, R a b
  | [], [], _, b, hb => by simp at hb
  | x :: as, y :: bs, ⟨h1, h2⟩, b, hb => by
    rcases List.mem_cons.1 hb with e | e
    · subst e; exact ⟨x, by simp, h1⟩
    · obtain ⟨a, ha, hr⟩ := All2.bwd h2 b e
      exact ⟨a, List.mem_cons_of_mem _ ha, hr⟩
  | [], _ :: _, x, _, _ => x.elim
  | _ :: _, [], x, _, _ => x.elim

theorem reencQuads_spec (sd : Dict) (sq : QStore) : ∀ (qs : List QuadI) (t t' : Tgt) (qs' : List QuadI),
    reencQuads sd sq qs t = .ok (t', qs') → TInv t → CacheOK sd sq t →
    Step sd sq t t' ∧ All2 (SameQuad sd sq t') qs qs' := by
  intro qs
  induction qs with
  | nil =>
    intro t t' xs h hT hC
    simp only [reencQuads, Except.ok.injEq, Prod.mk.injEq] at h
    obtain ⟨rfl, rfl⟩ := h
    exact ⟨⟨hT, hC, Ext.refl _, NoJunk.refl _ _ _⟩, trivial⟩
  | cons qd rest ih =>
    intro t t' xs h hT hC
    unfold reencQuads at h
    cases h1 : reencQuad sd sq qd t with
    | error e => simp [h1] at h
    | ok r1 =>
      obtain ⟨t1, x⟩ := r1
      simp only [h1] at h
      obtain ⟨s1, sx⟩ := reencQuad_spec sd sq qd t t1 x h1 hT hC
      cases h2 : reencQuads sd sq rest t1 with
      | error e => simp [h2] at h
      | ok r2 =>
        obtain ⟨t2, xs'⟩ := r2
        simp only [h2, Except.ok.injEq, Prod.mk.injEq] at h
        obtain ⟨rfl, rfl⟩ := h
        obtain ⟨s2, sxs⟩ := ih t1 t2 xs' h2 s1.inv s1.cache
        exact ⟨s1.trans s2, sx.mono s2.ext, sxs⟩

def SameSeed (sd : Dict) (sq : QStore) (t : Tgt) (a b : Seed) : Prop := SameTriple sd sq t a.1 b.1 ∧ a.2 = b.2

theorem reencSeeds_spec (sd : Dict) (sq : QStore) : ∀ (ss : List Seed) (t t' : Tgt) (ss' : List Seed),
    reencSeeds sd sq ss t = .ok (t', ss') → TInv t → CacheOK sd sq t →
    Step sd sq t t' ∧ All2 (SameSeed sd sq t') ss ss' := by
  intro ss
  induction ss with
  | nil =>
    intro t t' xs h hT hC
    simp only [reencSeeds, Except.ok.injEq, Prod.mk.injEq] at h
    obtain ⟨rfl, rfl⟩ := h
    exact ⟨⟨hT, hC, Ext.refl _, NoJunk.refl _ _ _⟩, trivial⟩
  | cons e rest ih =>
    intro t t' xs h hT hC
    obtain ⟨c, pr⟩ := e
    unfold reencSeeds at h
    cases h1 : reencTriple sd sq c t with
    | error e => simp [h1] at h
    | ok r1 =>
      obtain ⟨t1, x⟩ := r1
      simp only [h1] at h
      obtain ⟨s1, sx⟩ := reencTriple_spec sd sq c t t1 x h1 hT hC
      cases h2 : reencSeeds sd sq rest t1 with
      | error e => simp [h2] at h
      | ok r2 =>
        obtain ⟨t2, xs'⟩ := r2
        simp only [h2, Except.ok.injEq, Prod.mk.injEq] at h
        obtain ⟨rfl, rfl⟩ := h
        obtain ⟨s2, sxs⟩ := ih t1 t2 xs' h2 s1.inv s1.cache
        exact ⟨s1.trans s2, ⟨sx.mono s2.ext, rfl⟩, sxs⟩

end Kolibrie.Dict

namespace Kolibrie.Dict
open Kolibrie.Extracted

/-! ## the dataset part of `union` -/

theorem mem_insL {α} [DecidableEq α] (l : List α) (a b : α) : b ∈ insL l a ↔ b ∈ l ∨ b = a := by
  unfold insL; split
  · constructor
    · exact Or.inl
    · rintro (h | rfl) <;> assumption
  · simp

theorem foldl_createGraph (gs : List Nat) (db : DB) :
    (∀ g, g ∈ (gs.foldl DB.createGraph db).graphs ↔ g ∈ db.graphs ∨ g ∈ gs) ∧
    (gs.foldl DB.createGraph db).quads = db.quads := by
  induction gs generalizing db with
  | nil => simp
  | cons x gs ih =>
    obtain ⟨h1, h2⟩ := ih (db.createGraph x)
    refine ⟨fun g => ?_, by simpa [DB.createGraph] using h2⟩
    rw [List.foldl_cons, h1]
    simp only [DB.createGraph, mem_insL, List.mem_cons]
    constructor
    · rintro ((a | a) | a)
      · exact Or.inl a
      · exact Or.inr (Or.inl a)
      · exact Or.inr (Or.inr a)
    · rintro (a | a | a)
      · exact Or.inl (Or.inl a)
      · exact Or.inl (Or.inr a)
      · exact Or.inr a

theorem foldl_insertQuad (qs : List QuadI) (db : DB) :
    (∀ g, g ∈ (qs.foldl DB.insertQuad db).graphs ↔ g ∈ db.graphs ∨ ∃ qd ∈ qs, qd.g = some g) ∧
    (∀ qd, qd ∈ (qs.foldl DB.insertQuad db).quads ↔ qd ∈ db.quads ∨ qd ∈ qs) := by
  induction qs generalizing db with
  | nil => simp
  | cons x qs ih =>
    obtain ⟨h1, h2⟩ := ih (db.insertQuad x)
    constructor
    · intro g
      rw [List.foldl_cons, h1]
      have hg : g ∈ (db.insertQuad x).graphs ↔ g ∈ db.graphs ∨ x.g = some g := by
        unfold DB.insertQuad
        cases hx : x.g with
        | none => simp
        | some g' => simp only [mem_insL, Option.some.injEq]; constructor <;> rintro (a | a) <;> simp [a]
      rw [hg]
      simp only [List.mem_cons, exists_eq_or_imp]
      constructor
      · rintro ((a | a) | a)
        · exact Or.inl a
        · exact Or.inr (Or.inl a)
        · exact Or.inr (Or.inr a)
      · rintro (a | a | a)
        · exact Or.inl (Or.inl a)
        · exact Or.inl (Or.inr a)
        · exact Or.inr a
    · intro qd
      rw [List.foldl_cons, h2]
      simp only [DB.insertQuad, mem_insL, List.mem_cons]
      constructor
      · rintro ((a | a) | a)
        · exact Or.inl a
        · exact Or.inr (Or.inl a)
        · exact Or.inr (Or.inr a)
      · rintro (a | a | a)
        · exact Or.inl (Or.inl a)
        · exact Or.inl (Or.inr a)
        · exact Or.inr a

section putfold
variable {κ : Type} {ν : Type} [BEq κ] [LawfulBEq κ]

theorem mem_put (l : List (κ × ν)) (k k' : κ) (v v' : ν) :
    (k', v') ∈ put l k v ↔ (k' = k ∧ v' = v) ∨ ((k', v') ∈ l ∧ k' ≠ k) := by
  unfold put
  simp only [List.mem_cons, Prod.mk.injEq, List.mem_filter, Bool.not_eq_eq_eq_not, Bool.not_true, beq_eq_false_iff_ne, ne_eq]

theorem mem_foldl_put (ss acc : List (κ × ν)) (hn : (keys ss).Nodup) (k : κ) (v : ν) :
    (k, v) ∈ ss.foldl (fun acc e => put acc e.1 e.2) acc ↔ (k, v) ∈ ss ∨ ((k, v) ∈ acc ∧ k ∉ keys ss) := by
  induction ss generalizing acc with
  | nil => simp [keys]
  | cons e ss ih =>
    obtain ⟨k0, v0⟩ := e
    have hn' : (keys ss).Nodup := by unfold keys at hn ⊢; exact (List.nodup_cons.1 hn).2
    have hk0 : k0 ∉ keys ss := by unfold keys at hn ⊢; exact (List.nodup_cons.1 hn).1
    rw [List.foldl_cons, ih _ hn', mem_put]
    have hkeys : k ∉ keys ((k0, v0) :: ss) ↔ k ≠ k0 ∧ k ∉ keys ss := by simp [keys]
    rw [hkeys]
    simp only [List.mem_cons, Prod.mk.injEq]
    constructor
    · rintro (a | ⟨(⟨rfl, rfl⟩ | ⟨a, b⟩), c⟩)
      · exact Or.inl (Or.inr a)
      · exact Or.inl (Or.inl ⟨rfl, rfl⟩)
      · exact Or.inr ⟨a, b, c⟩
    · rintro ((⟨rfl, rfl⟩ | a) | ⟨a, b, c⟩)
      · exact Or.inr ⟨Or.inl ⟨rfl, rfl⟩, hk0⟩
      · exact Or.inl a
      · exact Or.inr ⟨Or.inr ⟨a, b⟩, c⟩

end putfold

theorem All2.nodup_keys {α β γ δ} {R : α → β → Prop} (ka : α → γ) (kb : β → δ)
    (hinj : ∀ a a' b b', R a b → R a' b' → kb b = kb b' → ka a = ka a') :
    ∀ {as : List α} {bs : List β}, All2 R as bs → (as.map ka).Nodup → (bs.map kb).Nodup
  | [], [], _, _ => by simp
  | a :: as, b :: bs, ⟨h1, h2⟩, hn => by
    rw [List.map_cons, List.nodup_cons] at hn ⊢
    refine ⟨fun hm => ?_, All2.nodup_keys ka kb hinj h2 hn.2⟩
    obtain ⟨b', hb', e⟩ := List.mem_map.1 hm
    obtain ⟨a', ha', hr⟩ := All2.bwd h2 b' hb'
    exact hn.1 (List.mem_map.2 ⟨a', ha', (hinj a a' b b' h1 hr e.symm).symm⟩)
  | [], _ :: _, x, _ => x.elim
  | _ :: _, [], x, _ => x.elim

end Kolibrie.Dict

namespace Kolibrie.Dict
open Kolibrie.Extracted

/-! ## database invariant -/

def HasDen (db : DB) (id : Nat) : Prop := ∃ τ, Den db.d db.q id τ

/-- what every database populated through the API satisfies (see `build_inv`) -/
structure DBInv (db : DB) : Prop where
  d : DInv db.d
  q : QInv db.q
  wf : QWf db.q
  cq : ∀ id c, db.q.decode id = some c → HasDen db id
  cg : ∀ g ∈ db.graphs, HasDen db g
  cquads : ∀ qd ∈ db.quads, HasDen db qd.s ∧ HasDen db qd.p ∧ HasDen db qd.o ∧ ∀ g, qd.g = some g → HasDen db g
  cseeds : ∀ e ∈ db.seeds, HasDen db e.1.1 ∧ HasDen db e.1.2.1 ∧ HasDen db e.1.2.2
  gq : ∀ qd ∈ db.quads, ∀ g, qd.g = some g → g ∈ db.graphs
  seedKeys : (keys db.seeds).Nodup

def ids (db : DB) : List Nat := keys db.d.i2s ++ keys db.q.i2c

theorem mem_ids_of_den {d : Dict} {q : QStore} {x : Nat} {τ : LTerm} (h : Den d q x τ) :
    x ∈ keys d.i2s ++ keys q.i2c := by
  cases h with
  | plain _ hd => exact List.mem_append_left _ (mem_keys_iff.2 ⟨_, hd⟩)
  | quoted _ hd _ _ _ => exact List.mem_append_right _ (mem_keys_iff.2 ⟨_, hd⟩)

theorem den_of_mem_ids {d : Dict} {q : QStore} (hD : DInv d)
    (hc : ∀ id c, q.decode id = some c → ∃ τ, Den d q id τ) {x : Nat}
    (h : x ∈ keys d.i2s ++ keys q.i2c) : ∃ τ, Den d q x τ := by
  rcases List.mem_append.1 h with h | h
  · obtain ⟨s, hs⟩ := mem_keys_iff.1 h
    exact ⟨_, .plain (isQuoted_lt x (hD.below x s hs)) hs⟩
  · obtain ⟨c, hc'⟩ := mem_keys_iff.1 h
    exact hc x c hc'

theorem mem_insSorted (a x : Nat) (l : List Nat) : x ∈ insSorted a l ↔ x = a ∨ x ∈ l := by
  induction l with
  | nil => simp [insSorted]
  | cons b l ih =>
    unfold insSorted
    split
    · simp
    · simp only [List.mem_cons, ih]
      constructor
      · rintro (h | h | h)
        · exact Or.inr (Or.inl h)
        · exact Or.inl h
        · exact Or.inr (Or.inr h)
      · rintro (h | h | h)
        · exact Or.inr (Or.inl h)
        · exact Or.inl h
        · exact Or.inr (Or.inr h)

theorem mem_sortNat (x : Nat) (l : List Nat) : x ∈ sortNat l ↔ x ∈ l := by
  unfold sortNat
  induction l with
  | nil => simp
  | cons a l ih => simp [List.foldr_cons, mem_insSorted, ih]

/-- everything `union` establishes, at the level of identifiers -/
structure UnionFacts (a b u : DB) : Prop where
  tinv : TInv ⟨u.d, u.q, []⟩
  keepA : ∀ x τ, Den a.d a.q x τ → Den u.d u.q x τ
  nojunk : ∀ x τ, Den u.d u.q x τ → Den a.d a.q x τ ∨ ∃ i, Den b.d b.q i τ
  allB : ∀ i τ, Den b.d b.q i τ → ∃ x, Den u.d u.q x τ
  graphs : ∃ gs, SameIds b.d b.q ⟨u.d, u.q, []⟩ b.graphs gs ∧ ∃ qs, All2 (SameQuad b.d b.q ⟨u.d, u.q, []⟩) b.quads qs ∧
    (∀ g, g ∈ u.graphs ↔ g ∈ a.graphs ∨ (∃ qd ∈ a.quads, qd.g = some g) ∨ g ∈ gs ∨ ∃ qd ∈ qs, qd.g = some g) ∧
    (∀ qd, qd ∈ u.quads ↔ qd ∈ a.quads ∨ qd ∈ qs)
  seeds : ∃ ss, All2 (SameSeed b.d b.q ⟨u.d, u.q, []⟩) b.seeds ss ∧
    u.seeds = ss.foldl (fun acc e => put acc e.1 e.2) a.seeds

theorem SameId.retarget {sd : Dict} {sq : QStore} {t t' : Tgt} {i x : Nat} (h : SameId sd sq t i x)
    (hd : t.d = t'.d) (hq : t.q = t'.q) : SameId sd sq t' i x := by
  obtain ⟨τ, a, b⟩ := h; exact ⟨τ, a, by rw [← hd, ← hq]; exact b⟩

theorem union_facts (a b u : DB) (ha : DBInv a) (h : union a b = .ok u) : UnionFacts a b u := by
  unfold union at h
  simp only at h
  have T0 : TInv ⟨a.d, a.q, []⟩ := ⟨ha.d, ha.q, ha.wf, ha.cq⟩
  have C0 : CacheOK b.d b.q ⟨a.d, a.q, []⟩ := by intro i j hl; simp at hl
  cases h1 : reencList b.d b.q (sortNat (keys b.d.i2s)) ⟨a.d, a.q, []⟩ with
  | error e => simp [h1] at h
  | ok r1 =>
  obtain ⟨t1, xs1⟩ := r1
  simp only [h1] at h
  obtain ⟨s1, m1⟩ := reencList_spec _ _ _ _ _ _ h1 T0 C0
  cases h2 : reencList b.d b.q (sortNat (keys b.q.i2c)) t1 with
  | error e => simp [h2] at h
  | ok r2 =>
  obtain ⟨t2, xs2⟩ := r2
  simp only [h2] at h
  obtain ⟨s2, m2⟩ := reencList_spec _ _ _ _ _ _ h2 s1.inv s1.cache
  cases h3 : reencList b.d b.q b.graphs t2 with
  | error e => simp [h3] at h
  | ok r3 =>
  obtain ⟨t3, gs⟩ := r3
  simp only [h3] at h
  obtain ⟨s3, m3⟩ := reencList_spec _ _ _ _ _ _ h3 s2.inv s2.cache
  cases h4 : reencQuads b.d b.q b.quads t3 with
  | error e => simp [h4] at h
  | ok r4 =>
  obtain ⟨t4, qs⟩ := r4
  simp only [h4] at h
  obtain ⟨s4, m4⟩ := reencQuads_spec _ _ _ _ _ _ h4 s3.inv s3.cache
  cases h5 : reencSeeds b.d b.q b.seeds t4 with
  | error e => simp [h5] at h
  | ok r5 =>
  obtain ⟨t5, ss⟩ := r5
  simp only [h5, Except.ok.injEq] at h
  obtain ⟨s5, m5⟩ := reencSeeds_spec _ _ _ _ _ _ h5 s4.inv s4.cache
  subst h
  have S : Step b.d b.q ⟨a.d, a.q, []⟩ t5 := (((s1.trans s2).trans s3).trans s4).trans s5
  have E25 : Ext t2 t5 := (s3.ext.trans s4.ext).trans s5.ext
  have E15 : Ext t1 t5 := s2.ext.trans E25
  refine ⟨⟨S.inv.d, S.inv.q, S.inv.wf, S.inv.closed⟩, fun x τ hx => S.ext.den hx, S.nojunk, ?_, ?_, ?_⟩
  · intro i τ hi
    have hmem := mem_ids_of_den hi
    rcases List.mem_append.1 hmem with hm | hm
    · obtain ⟨x, _, τ', p1, p2⟩ := SameIds.fwd m1 i ((mem_sortNat _ _).2 hm)
      rw [hi.functional p1]; exact ⟨x, E15.den p2⟩
    · obtain ⟨x, _, τ', p1, p2⟩ := SameIds.fwd m2 i ((mem_sortNat _ _).2 hm)
      rw [hi.functional p1]; exact ⟨x, E25.den p2⟩
  · refine ⟨gs, ?_, qs, ?_, ?_, ?_⟩
    · exact SameIds.mono (t := t3) (t' := ⟨t5.d, t5.q, []⟩) ⟨(s4.ext.trans s5.ext).1, (s4.ext.trans s5.ext).2⟩ m3
    · exact All2.imp (fun x y hxy => SameQuad.mono (t := t4) (t' := ⟨t5.d, t5.q, []⟩) hxy ⟨s5.ext.1, s5.ext.2⟩) m4
    · intro g
      simp only
      rw [(foldl_insertQuad qs _).1, (foldl_createGraph gs _).1, (foldl_insertQuad a.quads _).1,
        (foldl_createGraph a.graphs _).1]
      simp only [DB.empty, List.not_mem_nil, false_or]
      constructor
      · rintro (((a1 | a1) | a1) | a1)
        · exact Or.inl a1
        · exact Or.inr (Or.inl a1)
        · exact Or.inr (Or.inr (Or.inl a1))
        · exact Or.inr (Or.inr (Or.inr a1))
      · rintro (a1 | a1 | a1 | a1)
        · exact Or.inl (Or.inl (Or.inl a1))
        · exact Or.inl (Or.inl (Or.inr a1))
        · exact Or.inl (Or.inr a1)
        · exact Or.inr a1
    · intro qd
      simp only
      rw [(foldl_insertQuad qs _).2, (foldl_createGraph gs _).2, (foldl_insertQuad a.quads _).2,
        (foldl_createGraph a.graphs _).2]
      simp [DB.empty]
  · exact ⟨ss, All2.imp (fun x y hxy => ⟨SameTriple.mono (t := t5) (t' := ⟨t5.d, t5.q, []⟩) hxy.1 ⟨fun _ _ z => z, fun _ _ z => z⟩, hxy.2⟩) m5, rfl⟩

end Kolibrie.Dict

namespace Kolibrie.Dict

theorem mem_lexSeeds (db : DB) (lk : OT × OT × OT) (v : Nat) :
    (lk, v) ∈ db.lex.seeds ↔ ∃ k, (k, v) ∈ db.seeds ∧ db.denTriple k = lk := by
  simp only [DB.lex, List.mem_map, Prod.mk.injEq]
  constructor
  · rintro ⟨⟨k, w⟩, hm, e1, e2⟩
    simp only at e1 e2; subst e2; exact ⟨k, hm, e1⟩
  · rintro ⟨k, hm, e⟩; exact ⟨(k, v), hm, e, rfl⟩

theorem any_lexSeeds (db : DB) (lk : OT × OT × OT) :
    (db.lex.seeds.any (fun f => f.1 == lk)) = true ↔ ∃ c w, (c, w) ∈ db.seeds ∧ db.denTriple c = lk := by
  simp only [List.any_eq_true, beq_iff_eq]
  constructor
  · rintro ⟨⟨lk', w⟩, hm, e⟩
    simp only at e; subst e
    obtain ⟨k, hk, e⟩ := (mem_lexSeeds db lk' w).1 hm
    exact ⟨k, w, hk, e⟩
  · rintro ⟨c, w, hm, e⟩
    exact ⟨(lk, w), (mem_lexSeeds db lk w).2 ⟨c, hm, e⟩, rfl⟩

theorem mem_lunion_seeds (x y : LDB) (lk : OT × OT × OT) (v : Nat) :
    (lk, v) ∈ (lunion x y).seeds ↔
      ((lk, v) ∈ x.seeds ∧ ¬ (y.seeds.any (fun f => f.1 == lk)) = true) ∨ (lk, v) ∈ y.seeds := by
  simp only [lunion, List.mem_append, List.mem_filter, Bool.not_eq_eq_eq_not, Bool.not_true, Bool.eq_false_iff,
    ne_eq]

end Kolibrie.Dict

namespace Kolibrie.Dict
open Kolibrie.Extracted

/-! ## refinement to the first-appearance dictionary -/

section fa
variable {κ : Type} [BEq κ] [LawfulBEq κ]

omit [LawfulBEq κ] in
theorem idxOf?_append (k x : κ) (l : List κ) :
    idxOf? k (l ++ [x]) = match idxOf? k l with
      | some n => some n
      | none => if x == k then some l.length else none := by
  induction l with
  | nil => simp [idxOf?]
  | cons b l ih =>
    simp only [List.cons_append, idxOf?]
    by_cases hb : b == k
    · simp [hb]
    · simp only [hb, Bool.false_eq_true, ↓reduceIte, ih]
      cases idxOf? k l with
      | some n => simp
      | none => by_cases hx : x == k <;> simp [hx]

/-- the two maps and the counter hold exactly the first-appearance list -/
structure FRel (fwd : List (κ × Nat)) (bwd : List (Nat × κ)) (next : Nat) (a : FA κ) : Prop where
  next_eq : next = a.base + a.items.length
  fwd_eq : ∀ k, fwd.lookup k = (idxOf? k a.items).map (a.base + ·)
  bwd_eq : ∀ i, bwd.lookup i = a.decode i

omit [LawfulBEq κ] in
theorem FRel.empty (n : Nat) : FRel ([] : List (κ × Nat)) [] n ⟨n, []⟩ :=
  ⟨by simp, by simp [idxOf?], by simp [FA.decode]⟩

theorem FRel.put {fwd : List (κ × Nat)} {bwd : List (Nat × κ)} {n : Nat} {a : FA κ} (h : FRel fwd bwd n a)
    (k : κ) (hk : idxOf? k a.items = none) :
    FRel (put fwd k n) (put bwd n k) (n + 1) ⟨a.base, a.items ++ [k]⟩ := by
  have hn := h.next_eq
  refine ⟨by simp [hn]; omega, ?_, ?_⟩
  · intro k'
    rw [lookup_put, idxOf?_append]
    by_cases e : k' = k
    · subst e; simp [hk, hn]
    · rw [h.fwd_eq k']
      have e' : ¬ (k == k') = true := by simpa using Ne.symm e
      cases idxOf? k' a.items with
      | some m => simp [e]
      | none => simp [e, e']
  · intro i
    rw [lookup_put, h.bwd_eq i]
    simp only [FA.decode]
    by_cases e : i = n
    · subst e
      have : a.base ≤ a.base + a.items.length := Nat.le_add_right _ _
      simp [hn]
    · simp only [beq_iff_eq, e, ↓reduceIte]
      by_cases hb : a.base ≤ i
      · simp only [hb, ↓reduceIte]
        by_cases hl : i - a.base < a.items.length
        · rw [List.getElem?_append_left hl]
        · have h1 : a.items.length ≤ i - a.base := by omega
          have h2 : (a.items ++ [k]).length ≤ i - a.base := by simp; omega
          rw [List.getElem?_eq_none h1, List.getElem?_eq_none h2]
      · simp [hb]

/-- one `encode` on the lock-step maps is one `encode` on the first-appearance list -/
theorem FRel.encode_agree {fwd : List (κ × Nat)} {bwd : List (Nat × κ)} {n limit : Nat} {a : FA κ}
    (h : FRel fwd bwd n a) (k : κ) :
    (∀ i, fwd.lookup k = some i → a.encode limit k = .ok (a, i)) ∧
    (fwd.lookup k = none → n < limit →
      a.encode limit k = .ok (⟨a.base, a.items ++ [k]⟩, n) ∧
      FRel (Kolibrie.Dict.put fwd k n) (Kolibrie.Dict.put bwd n k) (n + 1) ⟨a.base, a.items ++ [k]⟩) ∧
    (fwd.lookup k = none → ¬ n < limit → a.encode limit k = .error .panic) := by
  have hf := h.fwd_eq k
  have hn := h.next_eq
  refine ⟨?_, ?_, ?_⟩
  · intro i hi
    rw [hi] at hf
    cases hx : idxOf? k a.items with
    | none => simp [hx] at hf
    | some m => simp [hx] at hf; simp [FA.encode, hx, hf]
  · intro hnone hlt
    rw [hnone] at hf
    cases hx : idxOf? k a.items with
    | some m => simp [hx] at hf
    | none =>
      refine ⟨?_, h.put k hx⟩
      have : a.base + a.items.length < limit := by omega
      simp [FA.encode, hx, this, hn]
  · intro hnone hlt
    rw [hnone] at hf
    cases hx : idxOf? k a.items with
    | some m => simp [hx] at hf
    | none =>
      have : ¬ a.base + a.items.length < limit := by omega
      simp [FA.encode, hx, this]

end fa

/-- the dictionary and the quoted store together refine `Abs` -/
structure ARel (st : Dict × QStore) (a : Abs) : Prop where
  d : FRel st.1.s2i st.1.i2s st.1.next a.strs
  q : FRel st.2.c2i st.2.i2c st.2.next a.comps

theorem step_refines (st : Dict × QStore) (a : Abs) (h : ARel st a) (op : SOp) :
    (mStep st op).2 = (aStep a op).2 ∧ ARel (mStep st op).1 (aStep a op).1 := by
  obtain ⟨d, q⟩ := st
  cases op with
  | enc s =>
    obtain ⟨h1, h2, h3⟩ := h.d.encode_agree (limit := quotedBit) s
    simp only [mStep, aStep, Dict.encode, Abs.encode]
    cases hl : d.s2i.lookup s with
    | some i => simp only [h1 i hl, outOf]; exact ⟨by first | rfl | trivial, h⟩
    | none =>
      by_cases hn : d.next < quotedBit
      · obtain ⟨e, r⟩ := h2 hl hn
        simp only [hn, ↓reduceIte, e, outOf]
        exact ⟨by first | rfl | trivial, ⟨r, h.q⟩⟩
      · simp only [hn, ↓reduceIte, h3 hl hn, outOf]; exact ⟨by first | rfl | trivial, h⟩
  | dec i => exact ⟨by simp [mStep, aStep, Dict.decode, Abs.decode, h.d.bwd_eq i], h⟩
  | qenc c =>
    obtain ⟨h1, h2, h3⟩ := h.q.encode_agree (limit := u32Max) c
    simp only [mStep, aStep, QStore.encode, Abs.qencode]
    cases hl : q.c2i.lookup c with
    | some i => simp only [h1 i hl, outOf]; exact ⟨by first | rfl | trivial, h⟩
    | none =>
      by_cases hn : q.next < u32Max
      · obtain ⟨e, r⟩ := h2 hl hn
        simp only [hn, ↓reduceIte, e, outOf]
        exact ⟨by first | rfl | trivial, ⟨h.d, r⟩⟩
      · simp only [hn, ↓reduceIte, h3 hl hn, outOf]; exact ⟨by first | rfl | trivial, h⟩
  | qdec i => exact ⟨by simp [mStep, aStep, QStore.decode, Abs.qdecode, h.q.bwd_eq i], h⟩

/-! ## histories -/

theorem encRun_inv (d : Dict) (h : DInv d) (ss : List String) : DInv (encRun d ss) := by
  induction ss generalizing d with
  | nil => exact h
  | cons s rest ih =>
    unfold encRun
    cases he : d.encode s with
    | error e => exact ih d h
    | ok r => obtain ⟨d', i⟩ := r; exact ih d' (encode_spec h he).1

theorem encRun_stable (d : Dict) (h : DInv d) (ss : List String) :
    (∀ t j, d.s2i.lookup t = some j → (encRun d ss).s2i.lookup t = some j) ∧
    (∀ j t, d.decode j = some t → (encRun d ss).decode j = some t) := by
  induction ss generalizing d with
  | nil => exact ⟨fun _ _ x => x, fun _ _ x => x⟩
  | cons s rest ih =>
    unfold encRun
    cases he : d.encode s with
    | error e => exact ih d h
    | ok r =>
      obtain ⟨d', i⟩ := r
      obtain ⟨h', _, _, _, s1, s2, _, _⟩ := encode_spec h he
      obtain ⟨r1, r2⟩ := ih d' h'
      exact ⟨fun t j x => r1 t j (s1 t j x), fun j t x => r2 j t (s2 j t x)⟩

theorem qRun_inv (q : QStore) (h : QInv q) (cs : List Comp) : QInv (qRun q cs) := by
  induction cs generalizing q with
  | nil => exact h
  | cons c rest ih =>
    unfold qRun
    cases he : q.encode c with
    | error e => exact ih q h
    | ok r => obtain ⟨q', i⟩ := r; exact ih q' (qencode_spec h he).1

theorem qRun_stable (q : QStore) (h : QInv q) (cs : List Comp) :
    (∀ t j, q.c2i.lookup t = some j → (qRun q cs).c2i.lookup t = some j) ∧
    (∀ j t, q.decode j = some t → (qRun q cs).decode j = some t) := by
  induction cs generalizing q with
  | nil => exact ⟨fun _ _ x => x, fun _ _ x => x⟩
  | cons c rest ih =>
    unfold qRun
    cases he : q.encode c with
    | error e => exact ih q h
    | ok r =>
      obtain ⟨q', i⟩ := r
      obtain ⟨h', _, _, s1, s2, _, _⟩ := qencode_spec h he
      obtain ⟨r1, r2⟩ := ih q' h'
      exact ⟨fun t j x => r1 t j (s1 t j x), fun j t x => r2 j t (s2 j t x)⟩

theorem qRun_wf (q : QStore) (h : QInv q) (hw : QWf q) (cs : List Comp) (hh : WfHist q cs) : QWf (qRun q cs) := by
  induction cs generalizing q with
  | nil => exact hw
  | cons c rest ih =>
    unfold qRun
    unfold WfHist at hh
    obtain ⟨nf, hh⟩ := hh
    cases he : q.encode c with
    | error e => simp only [he] at hh; exact ih q h hw hh
    | ok r =>
      obtain ⟨q', i⟩ := r
      simp only [he] at hh
      obtain ⟨a, b, c⟩ := c
      exact ih q' (qencode_spec h he).1 (qencode_wf h hw he nf.1 nf.2.1 nf.2.2) hh

end Kolibrie.Dict

namespace Kolibrie.Dict
open Kolibrie.Extracted

/-! ## populating a database through the API -/

/-- `encode_term_star` returns an identifier that denotes the given term -/
theorem encodeStar_spec : ∀ (τ : LTerm) (d : Dict) (q : QStore) (d' : Dict) (q' : QStore) (i : Nat),
    encodeStar d q τ = .ok (d', q', i) → TInv ⟨d, q, []⟩ →
    TInv ⟨d', q', []⟩ ∧ Ext ⟨d, q, []⟩ ⟨d', q', []⟩ ∧ Den d' q' i τ := by
  intro τ
  induction τ with
  | plain s =>
    intro d q d' q' i h hT
    unfold encodeStar at h
    cases he : d.encode s with
    | error e => simp [he] at h
    | ok r =>
      obtain ⟨d1, id⟩ := r
      simp only [he, Except.ok.injEq, Prod.mk.injEq] at h
      obtain ⟨rfl, rfl, rfl⟩ := h
      obtain ⟨D', _, hdec, hlt, _, hdext, _, _⟩ := encode_spec hT.d he
      have E : Ext ⟨d, q, []⟩ ⟨d1, q, []⟩ := ⟨hdext, fun _ _ x => x⟩
      refine ⟨⟨D', hT.q, hT.wf, ?_⟩, E, .plain (isQuoted_lt _ hlt) hdec⟩
      intro x cx hx
      obtain ⟨τ, hτ⟩ := hT.closed x cx hx
      exact ⟨τ, E.den hτ⟩
  | quoted s p o ihs ihp iho =>
    intro d q d' q' i h hT
    unfold encodeStar at h
    cases h1 : encodeStar d q s with
    | error e => simp [h1] at h
    | ok r1 =>
    obtain ⟨d1, q1, si⟩ := r1
    simp only [h1] at h
    obtain ⟨T1, E1, D1⟩ := ihs d q d1 q1 si h1 hT
    cases h2 : encodeStar d1 q1 p with
    | error e => simp [h2] at h
    | ok r2 =>
    obtain ⟨d2, q2, pi⟩ := r2
    simp only [h2] at h
    obtain ⟨T2, E2, D2⟩ := ihp d1 q1 d2 q2 pi h2 T1
    cases h3 : encodeStar d2 q2 o with
    | error e => simp [h3] at h
    | ok r3 =>
    obtain ⟨d3, q3, oi⟩ := r3
    simp only [h3] at h
    obtain ⟨T3, E3, D3⟩ := iho d2 q2 d3 q3 oi h3 T2
    cases h4 : q3.encode (si, pi, oi) with
    | error e => simp [h4] at h
    | ok r4 =>
    obtain ⟨q4, id⟩ := r4
    simp only [h4, Except.ok.injEq, Prod.mk.injEq] at h
    obtain ⟨rfl, rfl, rfl⟩ := h
    obtain ⟨Q', _, hdec, _, hqext, hqnew, _⟩ := qencode_spec T3.q h4
    have A3 : Den d3 q3 si s := E3.den (E2.den D1)
    have B3 : Den d3 q3 pi p := E3.den D2
    have E : Ext ⟨d3, q3, []⟩ ⟨d3, q4, []⟩ := ⟨fun _ _ x => x, hqext⟩
    have DJ : Den d3 q4 id (.quoted s p o) := .quoted (Q'.isQuoted hdec).1 hdec (E.den A3) (E.den B3) (E.den D3)
    have WF : QWf q4 := qencode_wf T3.q T3.wf h4 (A3.lt_next T3.q) (B3.lt_next T3.q) (D3.lt_next T3.q)
    refine ⟨⟨T3.d, Q', WF, ?_⟩, ((E1.trans E2).trans E3).trans E, DJ⟩
    intro x cx hx
    rcases hqnew x cx hx with old | ⟨rfl, _, _⟩
    · obtain ⟨τ, hτ⟩ := T3.closed x cx old
      exact ⟨τ, E.den hτ⟩
    · exact ⟨_, DJ⟩

/-- three dictionary `encode`s in a row -/
theorem enc3_spec (d d' : Dict) (s p o : String) (c : Comp) (h : enc3 d s p o = .ok (d', c)) (hD : DInv d) :
    DInv d' ∧ (∀ j t, d.decode j = some t → d'.decode j = some t) ∧
    (isQuoted c.1 = false ∧ d'.decode c.1 = some s) ∧ (isQuoted c.2.1 = false ∧ d'.decode c.2.1 = some p) ∧
    (isQuoted c.2.2 = false ∧ d'.decode c.2.2 = some o) := by
  unfold enc3 at h
  cases h1 : d.encode s with
  | error e => simp [h1] at h
  | ok r1 =>
  obtain ⟨d1, si⟩ := r1
  simp only [h1] at h
  obtain ⟨D1, _, dec1, lt1, _, ext1, _, _⟩ := encode_spec hD h1
  cases h2 : d1.encode p with
  | error e => simp [h2] at h
  | ok r2 =>
  obtain ⟨d2, pi⟩ := r2
  simp only [h2] at h
  obtain ⟨D2, _, dec2, lt2, _, ext2, _, _⟩ := encode_spec D1 h2
  cases h3 : d2.encode o with
  | error e => simp [h3] at h
  | ok r3 =>
  obtain ⟨d3, oi⟩ := r3
  simp only [h3, Except.ok.injEq, Prod.mk.injEq] at h
  obtain ⟨rfl, rfl⟩ := h
  obtain ⟨D3, _, dec3, lt3, _, ext3, _, _⟩ := encode_spec D2 h3
  exact ⟨D3, fun j t x => ext3 j t (ext2 j t (ext1 j t x)), ⟨isQuoted_lt _ lt1, ext3 _ _ (ext2 _ _ dec1)⟩,
    ⟨isQuoted_lt _ lt2, ext3 _ _ dec2⟩, ⟨isQuoted_lt _ lt3, dec3⟩⟩

/-- the identifiers a raw (id-level) API call mentions all decode; the string/term-level calls need nothing -/
def OpOK (db : DB) : BOp → Prop
  | .qenc c => HasDen db c.1 ∧ HasDen db c.2.1 ∧ HasDen db c.2.2
  | .quad qd => HasDen db qd.s ∧ HasDen db qd.p ∧ HasDen db qd.o ∧ ∀ g, qd.g = some g → HasDen db g
  | .create g => HasDen db g
  | .seed c _ => HasDen db c.1 ∧ HasDen db c.2.1 ∧ HasDen db c.2.2
  | _ => True

/-- a build script in which every raw call is `OpOK` at the time it is made -/
def OpsOK (db : DB) : List BOp → Prop
  | [] => True
  | op :: rest => OpOK db op ∧ ∀ db', db.step op = .ok db' → OpsOK db' rest

theorem DBInv.start (n : Nat) : DBInv { DB.empty with d := ⟨[], [], n⟩ } :=
  ⟨DInv.start n, QInv.start _ (Nat.le_refl _) (Nat.le_of_lt quotedBit_lt_u32Max),
   by intro id a b c h; simp [DB.empty, QStore.empty, QStore.decode] at h,
   by intro id c h; simp [DB.empty, QStore.empty, QStore.decode] at h,
   by simp [DB.empty], by simp [DB.empty], by simp [DB.empty], by simp [DB.empty], by simp [DB.empty, keys]⟩

/-- growing the dictionary / quoted store keeps every dataset-level clause of the invariant -/
theorem DBInv.grow {db : DB} (h : DBInv db) (d' : Dict) (q' : QStore)
    (T : TInv ⟨d', q', []⟩) (E : Ext ⟨db.d, db.q, []⟩ ⟨d', q', []⟩) : DBInv { db with d := d', q := q' } := by
  have up : ∀ x, HasDen db x → HasDen { db with d := d', q := q' } x := fun x ⟨τ, hτ⟩ => ⟨τ, E.den hτ⟩
  refine ⟨T.d, T.q, T.wf, T.closed, fun g hg => up g (h.cg g hg), ?_, ?_, h.gq, h.seedKeys⟩
  · intro qd hqd
    obtain ⟨a, b, c, e⟩ := h.cquads qd hqd
    exact ⟨up _ a, up _ b, up _ c, fun g hg => up _ (e g hg)⟩
  · intro e he
    obtain ⟨a, b, c⟩ := h.cseeds e he
    exact ⟨up _ a, up _ b, up _ c⟩

theorem DBInv.insertQuad {db : DB} (h : DBInv db) (qd : QuadI)
    (ok : HasDen db qd.s ∧ HasDen db qd.p ∧ HasDen db qd.o ∧ ∀ g, qd.g = some g → HasDen db g) :
    DBInv (db.insertQuad qd) := by
  refine ⟨h.d, h.q, h.wf, h.cq, ?_, ?_, h.cseeds, ?_, h.seedKeys⟩
  · intro g hg
    simp only [DB.insertQuad] at hg
    cases hq : qd.g with
    | none => simp only [hq] at hg; exact h.cg g hg
    | some g' =>
      simp only [hq, mem_insL] at hg
      rcases hg with hg | rfl
      · exact h.cg g hg
      · exact ok.2.2.2 g hq
  · intro x hx
    simp only [DB.insertQuad, mem_insL] at hx
    rcases hx with hx | rfl
    · exact h.cquads x hx
    · exact ok
  · intro x hx g hg
    simp only [DB.insertQuad, mem_insL] at hx ⊢
    rcases hx with hx | rfl
    · have := h.gq x hx g hg
      cases hq : qd.g with
      | none => simpa using this
      | some g' => simp only [mem_insL]; exact Or.inl this
    · simp [hg, mem_insL]

theorem DBInv.setSeed {db : DB} (h : DBInv db) (c : Comp) (p : Nat)
    (ok : HasDen db c.1 ∧ HasDen db c.2.1 ∧ HasDen db c.2.2) : DBInv (db.setSeed c p) := by
  refine ⟨h.d, h.q, h.wf, h.cq, h.cg, h.cquads, ?_, h.gq, keys_put_nodup _ _ h.seedKeys⟩
  intro e he
  obtain ⟨k, v⟩ := e
  simp only [DB.setSeed] at he
  rcases (mem_put _ _ _ _ _).1 he with ⟨rfl, _⟩ | ⟨hm, _⟩
  · exact ok
  · exact h.cseeds _ hm

theorem hasDen_plain {db : DB} {i : Nat} {s : String} (h : isQuoted i = false ∧ db.d.decode i = some s) : HasDen db i :=
  ⟨_, .plain h.1 h.2⟩

/-- **every API call keeps the database invariant** -/
theorem step_inv (db db' : DB) (op : BOp) (h : DBInv db) (ok : OpOK db op) (hs : db.step op = .ok db') : DBInv db' := by
  have T0 : TInv ⟨db.d, db.q, []⟩ := ⟨h.d, h.q, h.wf, h.cq⟩
  cases op with
  | enc s =>
    simp only [DB.step] at hs
    cases he : db.d.encode s with
    | error e => simp [he] at hs
    | ok r =>
      obtain ⟨d1, i⟩ := r
      simp only [he, Except.ok.injEq] at hs; subst hs
      obtain ⟨T, E, _⟩ := encodeStar_spec (.plain s) db.d db.q d1 db.q i (by simp [encodeStar, he]) T0
      exact h.grow d1 db.q T E
  | qenc c =>
    simp only [DB.step] at hs
    cases he : db.q.encode c with
    | error e => simp [he] at hs
    | ok r =>
      obtain ⟨q1, i⟩ := r
      simp only [he, Except.ok.injEq] at hs; subst hs
      obtain ⟨a, b, c⟩ := c
      obtain ⟨⟨ta, da⟩, ⟨tb, db_⟩, ⟨tc, dc⟩⟩ := ok
      obtain ⟨Q', _, hdec, _, hqext, hqnew, _⟩ := qencode_spec h.q he
      have E : Ext ⟨db.d, db.q, []⟩ ⟨db.d, q1, []⟩ := ⟨fun _ _ x => x, hqext⟩
      have DJ : Den db.d q1 i (.quoted ta tb tc) := .quoted (Q'.isQuoted hdec).1 hdec (E.den da) (E.den db_) (E.den dc)
      have WF : QWf q1 := qencode_wf h.q h.wf he (da.lt_next h.q) (db_.lt_next h.q) (dc.lt_next h.q)
      refine h.grow db.d q1 ⟨h.d, Q', WF, ?_⟩ E
      intro x cx hx
      rcases hqnew x cx hx with old | ⟨rfl, _, _⟩
      · obtain ⟨τ, hτ⟩ := h.cq x cx old
        exact ⟨τ, E.den hτ⟩
      · exact ⟨_, DJ⟩
  | star t =>
    simp only [DB.step] at hs
    cases he : encodeStar db.d db.q t with
    | error e => simp [he] at hs
    | ok r =>
      obtain ⟨d1, q1, i⟩ := r
      simp only [he, Except.ok.injEq] at hs; subst hs
      obtain ⟨T, E, _⟩ := encodeStar_spec t db.d db.q d1 q1 i he T0
      exact h.grow d1 q1 T E
  | quad qd => simp only [DB.step, Except.ok.injEq] at hs; subst hs; exact h.insertQuad qd ok
  | create g =>
    simp only [DB.step, Except.ok.injEq] at hs; subst hs
    refine ⟨h.d, h.q, h.wf, h.cq, ?_, h.cquads, h.cseeds, ?_, h.seedKeys⟩
    · intro x hx
      simp only [DB.createGraph, mem_insL] at hx
      rcases hx with hx | rfl
      · exact h.cg x hx
      · exact ok
    · intro x hx g' hg'
      simp only [DB.createGraph, mem_insL]
      exact Or.inl (h.gq x hx g' hg')
  | seed c p => simp only [DB.step, Except.ok.injEq] at hs; subst hs; exact h.setSeed c p ok
  | triple s p o =>
    simp only [DB.step] at hs
    cases he : enc3 db.d s p o with
    | error e => simp [he] at hs
    | ok r =>
      obtain ⟨d1, si, pi, oi⟩ := r
      simp only [he, Except.ok.injEq] at hs; subst hs
      obtain ⟨D1, ext, a, b, c⟩ := enc3_spec _ _ _ _ _ _ he h.d
      have E : Ext ⟨db.d, db.q, []⟩ ⟨d1, db.q, []⟩ := ⟨ext, fun _ _ x => x⟩
      have G := h.grow d1 db.q ⟨D1, h.q, h.wf, fun x cx hx => by
        obtain ⟨τ, hτ⟩ := h.cq x cx hx; exact ⟨τ, E.den hτ⟩⟩ E
      exact G.insertQuad ⟨si, pi, oi, none⟩ ⟨hasDen_plain a, hasDen_plain b, hasDen_plain c, by simp⟩
  | tagged s p o pr =>
    simp only [DB.step] at hs
    cases he : enc3 db.d s p o with
    | error e => simp [he] at hs
    | ok r =>
      obtain ⟨d1, si, pi, oi⟩ := r
      simp only [he, Except.ok.injEq] at hs; subst hs
      obtain ⟨D1, ext, a, b, c⟩ := enc3_spec _ _ _ _ _ _ he h.d
      have E : Ext ⟨db.d, db.q, []⟩ ⟨d1, db.q, []⟩ := ⟨ext, fun _ _ x => x⟩
      have G := h.grow d1 db.q ⟨D1, h.q, h.wf, fun x cx hx => by
        obtain ⟨τ, hτ⟩ := h.cq x cx hx; exact ⟨τ, E.den hτ⟩⟩ E
      have G2 := G.insertQuad ⟨si, pi, oi, none⟩ ⟨hasDen_plain a, hasDen_plain b, hasDen_plain c, by simp⟩
      exact G2.setSeed (si, pi, oi) pr ⟨hasDen_plain a, hasDen_plain b, hasDen_plain c⟩
  | quadParts s p o g =>
    simp only [DB.step] at hs
    cases h1 : encodeStar db.d db.q s with
    | error e => simp [h1] at hs
    | ok r1 =>
    obtain ⟨d1, q1, si⟩ := r1
    simp only [h1] at hs
    obtain ⟨T1, E1, D1⟩ := encodeStar_spec s _ _ _ _ _ h1 T0
    cases h2 : encodeStar d1 q1 p with
    | error e => simp [h2] at hs
    | ok r2 =>
    obtain ⟨d2, q2, pi⟩ := r2
    simp only [h2] at hs
    obtain ⟨T2, E2, D2⟩ := encodeStar_spec p _ _ _ _ _ h2 T1
    cases h3 : encodeStar d2 q2 o with
    | error e => simp [h3] at hs
    | ok r3 =>
    obtain ⟨d3, q3, oi⟩ := r3
    simp only [h3] at hs
    obtain ⟨T3, E3, D3⟩ := encodeStar_spec o _ _ _ _ _ h3 T2
    cases h4 : d3.encode g with
    | error e => simp [h4] at hs
    | ok r4 =>
    obtain ⟨d4, gi⟩ := r4
    simp only [h4, Except.ok.injEq] at hs; subst hs
    obtain ⟨T4, E4, D4⟩ := encodeStar_spec (.plain g) d3 q3 d4 q3 gi (by simp [encodeStar, h4]) T3
    have E : Ext ⟨db.d, db.q, []⟩ ⟨d4, q3, []⟩ := ((E1.trans E2).trans E3).trans E4
    have G := h.grow d4 q3 T4 E
    exact G.insertQuad ⟨si, pi, oi, some gi⟩
      ⟨⟨_, E4.den (E3.den (E2.den D1))⟩, ⟨_, E4.den (E3.den D2)⟩, ⟨_, E4.den D3⟩, fun g' hg' => by
        simp only [Option.some.injEq] at hg'; subst hg'; exact ⟨_, D4⟩⟩

theorem build_inv : ∀ (ops : List BOp) (db db' : DB), DBInv db → OpsOK db ops → DB.build ops db = .ok db' → DBInv db'
  | [], db, db', h, _, hb => by simp only [DB.build, Except.ok.injEq] at hb; subst hb; exact h
  | op :: rest, db, db', h, ok, hb => by
    unfold DB.build at hb
    cases hs : db.step op with
    | error e => simp [hs] at hb
    | ok db1 =>
      simp only [hs] at hb
      exact build_inv rest db1 db' (step_inv db db1 op h ok.1 hs) (ok.2 db1 hs) hb

end Kolibrie.Dict

namespace Kolibrie.Dict
open Kolibrie.Extracted

/-! ## the union is again a well-formed database; the model's fuel never runs out -/

theorem keys_foldl_put_nodup {κ ν : Type} [BEq κ] [LawfulBEq κ] (ss acc : List (κ × ν)) (h : (keys acc).Nodup) :
    (keys (ss.foldl (fun acc e => put acc e.1 e.2) acc)).Nodup := by
  induction ss generalizing acc with
  | nil => exact h
  | cons e ss ih => exact ih _ (keys_put_nodup _ _ h)

theorem mem_foldl_put_sub {κ ν : Type} [BEq κ] [LawfulBEq κ] (ss acc : List (κ × ν)) (k : κ) (v : ν)
    (h : (k, v) ∈ ss.foldl (fun acc e => put acc e.1 e.2) acc) : (k, v) ∈ ss ∨ (k, v) ∈ acc := by
  induction ss generalizing acc with
  | nil => exact Or.inr h
  | cons e ss ih =>
    rcases ih _ h with h1 | h1
    · exact Or.inl (List.mem_cons_of_mem _ h1)
    · rcases (mem_put _ _ _ _ _).1 h1 with ⟨rfl, rfl⟩ | ⟨hm, _⟩
      · exact Or.inl (by simp)
      · exact Or.inr hm

theorem union_inv (a b u : DB) (ha : DBInv a) (h : union a b = .ok u) : DBInv u := by
  have F := union_facts a b u ha h
  obtain ⟨gs, mgs, qs, mqs, hgraphs, hquads⟩ := F.graphs
  obtain ⟨ss, mss, hseeds⟩ := F.seeds
  have up : ∀ x, HasDen a x → HasDen u x := fun x ⟨τ, hτ⟩ => ⟨τ, F.keepA x τ hτ⟩
  have tg : ∀ i x, SameId b.d b.q ⟨u.d, u.q, []⟩ i x → HasDen u x := fun i x ⟨τ, _, p⟩ => ⟨τ, p⟩
  have quadOK : ∀ qd ∈ u.quads, HasDen u qd.s ∧ HasDen u qd.p ∧ HasDen u qd.o ∧ ∀ g, qd.g = some g → HasDen u g := by
    intro qd hqd
    rcases (hquads qd).1 hqd with h1 | h1
    · obtain ⟨x, y, z, w⟩ := ha.cquads qd h1
      exact ⟨up _ x, up _ y, up _ z, fun g hg => up _ (w g hg)⟩
    · obtain ⟨qd0, _, s1, s2, s3, s4⟩ := All2.bwd mqs qd h1
      refine ⟨tg _ _ s1, tg _ _ s2, tg _ _ s3, fun g hg => ?_⟩
      cases hg0 : qd0.g with
      | none => simp [hg0, hg] at s4
      | some i => simp only [hg0, hg] at s4; exact tg _ _ s4
  refine ⟨F.tinv.d, F.tinv.q, F.tinv.wf, F.tinv.closed, ?_, quadOK, ?_, ?_, ?_⟩
  · intro g hg
    rcases (hgraphs g).1 hg with h1 | ⟨qd, hqd, hqg⟩ | h1 | ⟨qd', hqd', hqg⟩
    · exact up g (ha.cg g h1)
    · exact up g (ha.cg g (ha.gq qd hqd g hqg))
    · obtain ⟨i, _, hs⟩ := SameIds.bwd mgs g h1; exact tg i g hs
    · exact (quadOK qd' ((hquads qd').2 (Or.inr hqd'))).2.2.2 g hqg
  · intro e he
    obtain ⟨k, v⟩ := e
    rw [hseeds] at he
    have := mem_foldl_put_sub ss a.seeds k v he
    rcases this with h1 | h1
    · obtain ⟨⟨c, w⟩, _, ⟨s1, s2, s3⟩, _⟩ := All2.bwd mss (k, v) h1
      exact ⟨tg _ _ s1, tg _ _ s2, tg _ _ s3⟩
    · obtain ⟨x, y, z⟩ := ha.cseeds (k, v) h1
      exact ⟨up _ x, up _ y, up _ z⟩
  · intro qd hqd g hg
    rcases (hquads qd).1 hqd with h1 | h1
    · exact (hgraphs g).2 (Or.inr (Or.inl ⟨qd, h1, hg⟩))
    · exact (hgraphs g).2 (Or.inr (Or.inr (Or.inr ⟨qd, h1, hg⟩)))
  · rw [hseeds]; exact keys_foldl_put_nodup ss a.seeds ha.seedKeys

end Kolibrie.Dict

namespace Kolibrie.Dict
open Kolibrie.Extracted

theorem dict_encode_err {d : Dict} {s : String} {e : Err} (h : d.encode s = .error e) : e = .panic := by
  unfold Dict.encode at h
  cases hl : d.s2i.lookup s with
  | some i => simp [hl] at h
  | none =>
    by_cases hn : d.next < quotedBit
    · simp [hl, hn] at h
    · simp [hl, hn] at h; exact h.symm

theorem q_encode_err {q : QStore} {c : Comp} {e : Err} (h : q.encode c = .error e) : e = .panic := by
  unfold QStore.encode at h
  cases hl : q.c2i.lookup c with
  | some i => simp [hl] at h
  | none =>
    by_cases hn : q.next < u32Max
    · simp [hl, hn] at h
    · simp [hl, hn] at h; exact h.symm

/-- with a well-founded source store the recursion budget `fuelFor id` always suffices -/
theorem reencodeF_err (sd : Dict) (sq : QStore) (hw : QWf sq) : ∀ (f id : Nat) (t : Tgt) (e : Err),
    fuelOK f id → reencodeF sd sq f id t = .error e → e = .panic := by
  intro f
  induction f with
  | zero => intro id t e hf; have := hf.1; omega
  | succ f ih =>
    intro id t e hf h
    unfold reencodeF at h
    cases hl : t.cache.lookup id with
    | some tr => simp [hl] at h
    | none =>
      simp only [hl] at h
      by_cases hq : isQuoted id = true
      · simp only [hq, ↓reduceIte] at h
        cases hd : sq.decode id with
        | none => simp [hd] at h; exact h.symm
        | some c =>
          obtain ⟨a, b, c⟩ := c
          simp only [hd] at h
          obtain ⟨wa, wb, wc⟩ := hw id a b c hd
          cases h1 : reencodeF sd sq f a t with
          | error e1 => simp only [h1, Except.error.injEq] at h; subst h; exact ih a t _ (fuelOK_comp hf hq wa) h1
          | ok r1 =>
            obtain ⟨t1, a'⟩ := r1
            simp only [h1] at h
            cases h2 : reencodeF sd sq f b t1 with
            | error e2 => simp only [h2, Except.error.injEq] at h; subst h; exact ih b t1 _ (fuelOK_comp hf hq wb) h2
            | ok r2 =>
              obtain ⟨t2, b'⟩ := r2
              simp only [h2] at h
              cases h3 : reencodeF sd sq f c t2 with
              | error e3 => simp only [h3, Except.error.injEq] at h; subst h; exact ih c t2 _ (fuelOK_comp hf hq wc) h3
              | ok r3 =>
                obtain ⟨t3, c'⟩ := r3
                simp only [h3] at h
                cases h4 : t3.q.encode (a', b', c') with
                | error e4 => simp only [h4, Except.error.injEq] at h; subst h; exact q_encode_err h4
                | ok r4 => simp [h4] at h
      · have hq' : isQuoted id = false := by simpa using hq
        simp only [hq', Bool.false_eq_true, ↓reduceIte] at h
        cases hd : sd.decode id with
        | none => simp [hd] at h; exact h.symm
        | some lex =>
          simp only [hd] at h
          cases h4 : t.d.encode lex with
          | error e4 => simp only [h4, Except.error.injEq] at h; subst h; exact dict_encode_err h4
          | ok r4 => simp [h4] at h

theorem reencList_err (sd : Dict) (sq : QStore) (hw : QWf sq) : ∀ (ids : List Nat) (t : Tgt) (e : Err),
    reencList sd sq ids t = .error e → e = .panic := by
  intro ids
  induction ids with
  | nil => intro t e h; simp [reencList] at h
  | cons id rest ih =>
    intro t e h
    unfold reencList at h
    cases h1 : reencode sd sq id t with
    | error e1 =>
      simp only [h1, Except.error.injEq] at h; subst h
      exact reencodeF_err sd sq hw _ id t _ (fuelOK_fuelFor id) h1
    | ok r1 =>
      obtain ⟨t1, x⟩ := r1
      simp only [h1] at h
      cases h2 : reencList sd sq rest t1 with
      | error e2 => simp only [h2, Except.error.injEq] at h; subst h; exact ih t1 _ h2
      | ok r2 => simp [h2] at h

theorem reencList_length (sd : Dict) (sq : QStore) : ∀ (ids : List Nat) (t t' : Tgt) (xs : List Nat),
    reencList sd sq ids t = .ok (t', xs) → xs.length = ids.length := by
  intro ids
  induction ids with
  | nil => intro t t' xs h; simp only [reencList, Except.ok.injEq, Prod.mk.injEq] at h; simp [← h.2]
  | cons id rest ih =>
    intro t t' xs h
    unfold reencList at h
    cases h1 : reencode sd sq id t with
    | error e1 => simp [h1] at h
    | ok r1 =>
      obtain ⟨t1, x⟩ := r1
      simp only [h1] at h
      cases h2 : reencList sd sq rest t1 with
      | error e2 => simp [h2] at h
      | ok r2 =>
        obtain ⟨t2, xs'⟩ := r2
        simp only [h2, Except.ok.injEq, Prod.mk.injEq] at h
        rw [← h.2]; simp [ih t1 t2 xs' h2]

theorem reencTriple_err (sd : Dict) (sq : QStore) (hw : QWf sq) (c : Comp) (t : Tgt) (e : Err)
    (h : reencTriple sd sq c t = .error e) : e = .panic := by
  unfold reencTriple at h
  cases h1 : reencList sd sq [c.1, c.2.1, c.2.2] t with
  | error e1 => simp only [h1, Except.error.injEq] at h; subst h; exact reencList_err sd sq hw _ t _ h1
  | ok r =>
    obtain ⟨t1, xs⟩ := r
    have hl := reencList_length sd sq _ t t1 xs h1
    match xs, hl with
    | [x, y, z], _ => simp [h1] at h

theorem reencQuads_err (sd : Dict) (sq : QStore) (hw : QWf sq) : ∀ (qs : List QuadI) (t : Tgt) (e : Err),
    reencQuads sd sq qs t = .error e → e = .panic := by
  intro qs
  induction qs with
  | nil => intro t e h; simp [reencQuads] at h
  | cons qd rest ih =>
    intro t e h
    unfold reencQuads at h
    cases h1 : reencQuad sd sq qd t with
    | error e1 =>
      simp only [h1, Except.error.injEq] at h; subst h
      unfold reencQuad at h1
      cases h2 : reencTriple sd sq (qd.s, qd.p, qd.o) t with
      | error e2 => simp only [h2, Except.error.injEq] at h1; subst h1; exact reencTriple_err sd sq hw _ t _ h2
      | ok r2 =>
        obtain ⟨t1, s, p, o⟩ := r2
        simp only [h2] at h1
        cases hg : qd.g with
        | none => simp [hg] at h1
        | some g =>
          simp only [hg] at h1
          cases h3 : reencode sd sq g t1 with
          | error e3 =>
            simp only [h3, Except.error.injEq] at h1; subst h1
            exact reencodeF_err sd sq hw _ g t1 _ (fuelOK_fuelFor g) h3
          | ok r3 => simp [h3] at h1
    | ok r1 =>
      obtain ⟨t1, x⟩ := r1
      simp only [h1] at h
      cases h2 : reencQuads sd sq rest t1 with
      | error e2 => simp only [h2, Except.error.injEq] at h; subst h; exact ih t1 _ h2
      | ok r2 => simp [h2] at h

theorem reencSeeds_err (sd : Dict) (sq : QStore) (hw : QWf sq) : ∀ (ss : List Seed) (t : Tgt) (e : Err),
    reencSeeds sd sq ss t = .error e → e = .panic := by
  intro ss
  induction ss with
  | nil => intro t e h; simp [reencSeeds] at h
  | cons sd0 rest ih =>
    intro t e h
    obtain ⟨c, pr⟩ := sd0
    unfold reencSeeds at h
    cases h1 : reencTriple sd sq c t with
    | error e1 => simp only [h1, Except.error.injEq] at h; subst h; exact reencTriple_err sd sq hw _ t _ h1
    | ok r1 =>
      obtain ⟨t1, x⟩ := r1
      simp only [h1] at h
      cases h2 : reencSeeds sd sq rest t1 with
      | error e2 => simp only [h2, Except.error.injEq] at h; subst h; exact ih t1 _ h2
      | ok r2 => simp [h2] at h

/-- `union` never reports the model's own `fuel` outcome when `other`'s quoted store is well-founded: every error
    is an implementation panic -/
theorem union_err (a b : DB) (hw : QWf b.q) (e : Err) (h : union a b = .error e) : e = .panic := by
  unfold union at h
  simp only at h
  cases h1 : reencList b.d b.q (sortNat (keys b.d.i2s)) ⟨a.d, a.q, []⟩ with
  | error e1 => simp only [h1, Except.error.injEq] at h; subst h; exact reencList_err _ _ hw _ _ _ h1
  | ok r1 =>
  obtain ⟨t1, xs1⟩ := r1
  simp only [h1] at h
  cases h2 : reencList b.d b.q (sortNat (keys b.q.i2c)) t1 with
  | error e1 => simp only [h2, Except.error.injEq] at h; subst h; exact reencList_err _ _ hw _ _ _ h2
  | ok r2 =>
  obtain ⟨t2, xs2⟩ := r2
  simp only [h2] at h
  cases h3 : reencList b.d b.q b.graphs t2 with
  | error e1 => simp only [h3, Except.error.injEq] at h; subst h; exact reencList_err _ _ hw _ _ _ h3
  | ok r3 =>
  obtain ⟨t3, gs⟩ := r3
  simp only [h3] at h
  cases h4 : reencQuads b.d b.q b.quads t3 with
  | error e1 => simp only [h4, Except.error.injEq] at h; subst h; exact reencQuads_err _ _ hw _ _ _ h4
  | ok r4 =>
  obtain ⟨t4, qs⟩ := r4
  simp only [h4] at h
  cases h5 : reencSeeds b.d b.q b.seeds t4 with
  | error e1 => simp only [h5, Except.error.injEq] at h; subst h; exact reencSeeds_err _ _ hw _ _ _ h5
  | ok r5 => simp [h5] at h

end Kolibrie.Dict

namespace Kolibrie.Dict
open Kolibrie.Extracted

/-! ## the decidable checks the driver reports (`forward_ref`, `dangling_ids`) imply the closure clauses -/

theorem wf_of_check (q : QStore) (h : q.wf = true) : QWf q := by
  intro id a b c hd
  have hm := lookup_mem hd
  unfold QStore.wf at h
  have := List.all_eq_true.1 h _ hm
  simp only [Bool.and_eq_true, Bool.or_eq_true, Bool.not_eq_eq_eq_not, Bool.not_true, decide_eq_true_eq] at this
  obtain ⟨⟨h1, h2⟩, h3⟩ := this
  refine ⟨fun x => ?_, fun x => ?_, fun x => ?_⟩
  · rcases h1 with h1 | h1
    · rw [x] at h1; cases h1
    · exact h1
  · rcases h2 with h2 | h2
    · rw [x] at h2; cases h2
    · exact h2
  · rcases h3 with h3 | h3
    · rw [x] at h3; cases h3
    · exact h3

/-- if every component of every stored quoted triple is an allocated id and nesting is well-founded, every
    allocated id has a denotation -/
theorem hasDen_of_valid (d : Dict) (q : QStore) (hw : QWf q)
    (hc : ∀ id a b c, q.decode id = some (a, b, c) → validId d q a = true ∧ validId d q b = true ∧ validId d q c = true) :
    ∀ id, validId d q id = true → ∃ τ, Den d q id τ := by
  intro id
  induction id using Nat.strongRecOn with
  | _ id ih =>
    intro hv
    unfold validId at hv
    by_cases hq : isQuoted id = true
    · simp only [hq, ↓reduceIte] at hv
      obtain ⟨⟨a, b, c⟩, hd⟩ := Option.isSome_iff_exists.1 hv
      obtain ⟨va, vb, vc⟩ := hc id a b c hd
      obtain ⟨wa, wb, wc⟩ := hw id a b c hd
      have sub : ∀ x, validId d q x = true → (isQuoted x = true → x < id) → ∃ τ, Den d q x τ := by
        intro x vx wx
        by_cases hx : isQuoted x = true
        · exact ih x (wx hx) vx
        · have hx' : isQuoted x = false := by simpa using hx
          unfold validId at vx
          simp only [hx', Bool.false_eq_true, ↓reduceIte] at vx
          obtain ⟨s, hs⟩ := Option.isSome_iff_exists.1 vx
          exact ⟨_, .plain hx' hs⟩
      obtain ⟨ta, da⟩ := sub a va wa
      obtain ⟨tb, db⟩ := sub b vb wb
      obtain ⟨tc, dc⟩ := sub c vc wc
      exact ⟨_, .quoted hq hd da db dc⟩
    · have hq' : isQuoted id = false := by simpa using hq
      simp only [hq', Bool.false_eq_true, ↓reduceIte] at hv
      obtain ⟨s, hs⟩ := Option.isSome_iff_exists.1 hv
      exact ⟨_, .plain hq' hs⟩

/-- the database invariant from the two map invariants plus the **decidable** checks of the driver -/
theorem dbInv_of_checks (db : DB) (hd : DInv db.d) (hq : QInv db.q) (hwf : db.q.wf = true) (hcl : db.closed = true)
    (hgq : ∀ qd ∈ db.quads, ∀ g, qd.g = some g → g ∈ db.graphs) (hsk : (keys db.seeds).Nodup) : DBInv db := by
  have W := wf_of_check db.q hwf
  unfold DB.closed at hcl
  simp only [Bool.and_eq_true, List.all_eq_true] at hcl
  obtain ⟨⟨⟨c1, c2⟩, c3⟩, c4⟩ := hcl
  have V := hasDen_of_valid db.d db.q W (by
    intro id a b c hdec
    have := c1 _ (lookup_mem hdec)
    simpa [Bool.and_eq_true, and_assoc] using this)
  refine ⟨hd, hq, W, ?_, fun g hg => V g (c2 g hg), ?_, ?_, hgq, hsk⟩
  · intro id c hdec
    exact V id (by simp [validId, (hq.isQuoted hdec).1, hdec])
  · intro qd hqd
    have := c3 qd hqd
    obtain ⟨⟨⟨a, b⟩, c⟩, g⟩ := this
    refine ⟨V _ a, V _ b, V _ c, fun g' hg' => ?_⟩
    rw [hg'] at g
    exact V _ g
  · intro e he
    have := c4 e he
    obtain ⟨⟨a, b⟩, c⟩ := this
    exact ⟨V _ a, V _ b, V _ c⟩

end Kolibrie.Dict

namespace Kolibrie.Dict

/-- `decode_any` agrees between two databases on ids that denote the same term -/
theorem den_eq_of_den {x y : DB} (hx : QWf x.q) (hy : QWf y.q) {i j : Nat} {τ : LTerm}
    (h1 : Den x.d x.q i τ) (h2 : Den y.d y.q j τ) : x.den i = y.den j := by
  rw [(den_iff x hx i τ).2 h1, (den_iff y hy j τ).2 h2]

end Kolibrie.Dict
