import Kolibrie.Model.Engine
import Kolibrie.Spec.Algebra
/-! Helper lemmas for C01/C02 (core Lean only). -/
namespace Kolibrie.Engine
open List

/-! ### list/permutation utilities -/

theorem perm_flatMap_congr {α β} (l : List α) (f g : α → List β) (h : ∀ a ∈ l, f a ~ g a) :
    l.flatMap f ~ l.flatMap g := by
  induction l with
  | nil => simp
  | cons a l ih =>
    simp only [flatMap_cons]
    exact (h a (by simp)).append (ih (fun b hb => h b (by simp [hb])))

theorem filterMap_eq_nil_of_forall {α β} (l : List α) (f : α → Option β) (h : ∀ a ∈ l, f a = none) :
    l.filterMap f = [] := by
  induction l with
  | nil => rfl
  | cons a l ih =>
    rw [filterMap_cons, h a (by simp)]
    exact ih (fun b hb => h b (by simp [hb]))

/-! ### rows -/

theorem Row.get_mem {r : Row} {v : Var} {x : Val} (h : Row.get r v = some x) : (v, x) ∈ r := by
  induction r with
  | nil => simp [Row.get] at h
  | cons e rest ih =>
    obtain ⟨k, y⟩ := e
    unfold Row.get at h
    by_cases hk : (k == v) = true
    · rw [if_pos hk] at h
      have hk' : k = v := by simpa using hk
      cases h; subst hk'; simp
    · rw [if_neg hk] at h
      exact List.mem_cons_of_mem _ (ih h)

/-- rows that bind a shared variable to different values do not merge -/
theorem mergeRows_conflict (a b : Row) (v : Var) (x y : Val)
    (ha : Row.get a v = some x) (hb : Row.get b v = some y) (hne : x ≠ y) : mergeRows a b = none := by
  unfold mergeRows
  have hm := Row.get_mem ha
  have : compatB a b = false := by
    unfold compatB
    rw [List.all_eq_false]
    refine ⟨(v, x), hm, ?_⟩
    simp only [hb]
    simpa using hne
  rw [this]; rfl

/-- two different join keys over the same variables witness a conflicting variable -/
theorem joinKey_ne_conflict (a b : Row) (keys : List Var) (k k' : List Val)
    (ha : joinKey a keys = some k) (hb : joinKey b keys = some k') (hne : k ≠ k') :
    ∃ v x y, Row.get a v = some x ∧ Row.get b v = some y ∧ x ≠ y := by
  induction keys generalizing k k' with
  | nil =>
    simp [joinKey] at ha hb
    subst ha; subst hb; exact absurd rfl hne
  | cons v vs ih =>
    unfold joinKey at ha hb
    rw [List.mapM_cons] at ha hb
    cases hx : Row.get a v with
    | none => simp [hx] at ha
    | some x =>
      cases hy : Row.get b v with
      | none => simp [hy] at hb
      | some y =>
        simp only [hx, hy, Option.pure_def, Option.bind_eq_bind, Option.bind_some] at ha hb
        cases hk : List.mapM (Row.get a) vs with
        | none => simp [hk] at ha
        | some ks =>
          cases hk' : List.mapM (Row.get b) vs with
          | none => simp [hk'] at hb
          | some ks' =>
            simp only [hk, hk', Option.bind_some, Option.some.injEq] at ha hb
            subst ha; subst hb
            by_cases hxy : x = y
            · subst hxy
              have : ks ≠ ks' := fun e => hne (by rw [e])
              exact ih ks ks' hk hk' this
            · exact ⟨v, x, y, hx, hy, hxy⟩

/-- **the hash join and the nested-loop join produce the same multiset**, on every pair of solution
    sequences (keyed, unkeyed and conflicting rows included) -/
theorem hashJoin_perm_nlJoin (l r : List Row) : hashJoin l r ~ nlJoin l r := by
  unfold hashJoin
  by_cases he : (l.isEmpty || r.isEmpty) = true
  · rw [if_pos he]
    simp only [Bool.or_eq_true, List.isEmpty_iff] at he
    rcases he with rfl | rfl
    · simp [nlJoin]
    · simp [nlJoin]
  · rw [if_neg he]
    simp only
    by_cases hk : (sharedVars l r).isEmpty = true
    · rw [if_pos hk]
    · rw [if_neg hk]
      unfold nlJoin
      apply perm_flatMap_congr
      intro a _
      cases hka : joinKey a (sharedVars l r) with
      | none => exact Perm.refl _
      | some k =>
        simp only
        -- split the right side by "keyed or not" and then by "same key or not"
        have h1 := filter_append_perm (fun b => (joinKey b (sharedVars l r)).isSome) r
        have h2 := filter_append_perm (fun b => joinKey b (sharedVars l r) == some k)
          (r.filter (fun b => (joinKey b (sharedVars l r)).isSome))
        have hnone : (r.filter (fun b => !(joinKey b (sharedVars l r)).isSome)) =
            r.filter (fun b => (joinKey b (sharedVars l r)).isNone) := by
          congr 1; funext b; cases joinKey b (sharedVars l r) <;> rfl
        rw [hnone] at h1
        -- rows with a different key never merge
        have hdrop : (filter (fun b => !(joinKey b (sharedVars l r) == some k))
            (filter (fun b => (joinKey b (sharedVars l r)).isSome) r)).filterMap (fun b => mergeRows a b) = [] := by
          apply filterMap_eq_nil_of_forall
          intro b hb
          simp only [mem_filter, Bool.not_eq_eq_eq_not, Bool.not_true, beq_eq_false_iff_ne, ne_eq] at hb
          obtain ⟨⟨_, hsome⟩, hne⟩ := hb
          cases hkb : joinKey b (sharedVars l r) with
          | none => simp [hkb] at hsome
          | some k' =>
            have : k ≠ k' := fun e => hne (by rw [hkb, e])
            obtain ⟨v, x, y, hx, hy, hxy⟩ := joinKey_ne_conflict a b _ k k' hka hkb this
            exact mergeRows_conflict a b v x y hx hy hxy
        have step : (filter (fun b => joinKey b (sharedVars l r) == some k)
              (filter (fun b => (joinKey b (sharedVars l r)).isSome) r) ++
            filter (fun b => (joinKey b (sharedVars l r)).isNone) r).filterMap (fun b => mergeRows a b) ~
            r.filterMap (fun b => mergeRows a b) := by
          have h3 : (filter (fun b => joinKey b (sharedVars l r) == some k)
                (filter (fun b => (joinKey b (sharedVars l r)).isSome) r) ++
              filter (fun b => !(joinKey b (sharedVars l r) == some k))
                (filter (fun b => (joinKey b (sharedVars l r)).isSome) r)) ++
              filter (fun b => (joinKey b (sharedVars l r)).isNone) r ~ r :=
            (h2.append (Perm.refl _)).trans h1
          have h4 := h3.filterMap (fun b => mergeRows a b)
          rw [filterMap_append, filterMap_append, hdrop, append_nil] at h4
          rw [filterMap_append]
          exact h4
        -- `filter (key == k) keyed` equals `filter (key == k) (filter isSome r)`
        have hsame : filter (fun b => joinKey b (sharedVars l r) == some k)
            (filter (fun b => (joinKey b (sharedVars l r)).isSome) r) =
            filter (fun b => joinKey b (sharedVars l r) == some k)
              (filter (fun b => (joinKey b (sharedVars l r)).isSome) r) := rfl
        exact step


/-! ### the executor distributes over concatenation of its input (chunking) -/

theorem exec_nil (db : DB) (p : Plan) (ctx : Ctx) : exec db p ctx [] = [] := by
  cases p <;> simp [exec]

/-- a function on lists that distributes over `++` up to permutation respects permutations -/
theorem perm_of_append {α β} (f : List α → List β) (hnil : f [] = [])
    (h : ∀ a b, f (a ++ b) ~ f a ++ f b) {x y : List α} (hp : x ~ y) : f x ~ f y := by
  induction hp with
  | nil => exact Perm.refl _
  | @cons a l₁ l₂ _ ih =>
    have h1 := h [a] l₁
    have h2 := h [a] l₂
    simp only [singleton_append] at h1 h2
    exact h1.trans ((Perm.append_left _ ih).trans h2.symm)
  | swap a b l =>
    have h1 := h [b, a] l
    have h2 := h [a, b] l
    have h3 := h [b] [a]
    have h4 := h [a] [b]
    simp only [cons_append, nil_append] at h1 h2 h3 h4
    have : f [b, a] ~ f [a, b] := h3.trans (perm_append_comm.trans h4.symm)
    exact h1.trans ((this.append_right _).trans h2.symm)
  | trans _ _ ih1 ih2 => exact ih1.trans ih2

theorem nlJoin_append_left (a b r : List Row) : nlJoin (a ++ b) r = nlJoin a r ++ nlJoin b r := by
  simp [nlJoin]

theorem nlJoin_perm_left {a b : List Row} (r : List Row) (h : a ~ b) : nlJoin a r ~ nlJoin b r :=
  h.flatMap_right _

theorem scan_append (db : DB) (ctx : Ctx) (pat : QPat) (a b : List Row) :
    scan db ctx pat (a ++ b) = scan db ctx pat a ++ scan db ctx pat b := by
  simp [scan]

theorem star_append (db : DB) (ctx : Ctx) (pats : List QPat) (a b : List Row) :
    pats.foldl (fun acc p => scan db ctx { p with g := .dflt } acc) (a ++ b) =
    pats.foldl (fun acc p => scan db ctx { p with g := .dflt } acc) a ++
    pats.foldl (fun acc p => scan db ctx { p with g := .dflt } acc) b := by
  induction pats generalizing a b with
  | nil => rfl
  | cons p ps ih => simp only [foldl_cons, scan_append, ih]

/-- `exec` on a non-empty input, unfolded (the first equation only handles the empty input) -/
theorem exec_unit (db : DB) (ctx : Ctx) (inc : List Row) : exec db .unit ctx inc = inc := by
  cases inc <;> simp [exec]
theorem exec_empty (db : DB) (ctx : Ctx) (inc : List Row) : exec db .empty ctx inc = [] := by
  cases inc <;> simp [exec]
theorem exec_scan (db : DB) (ctx : Ctx) (pat : QPat) (inc : List Row) :
    exec db (.scan pat) ctx inc = scan db ctx pat inc := by
  cases inc <;> simp [exec, scan]
theorem exec_union (db : DB) (ctx : Ctx) (l r : Plan) (inc : List Row) :
    exec db (.union l r) ctx inc = exec db l ctx inc ++ exec db r ctx inc := by
  cases inc <;> simp [exec, exec_nil]
theorem exec_filter (db : DB) (ctx : Ctx) (i : Plan) (c : Cond) (inc : List Row) :
    exec db (.filter i c) ctx inc = (exec db i ctx inc).filter c.eval := by
  cases inc <;> simp [exec, exec_nil]
theorem exec_project (db : DB) (ctx : Ctx) (i : Plan) (vs : List Var) (inc : List Row) :
    exec db (.project i vs) ctx inc = (exec db i ctx inc).map (fun r => Row.restrict r vs) := by
  cases inc <;> simp [exec, exec_nil]
theorem exec_bindJoin (db : DB) (ctx : Ctx) (l r : Plan) (inc : List Row) :
    exec db (.bindJoin l r) ctx inc = exec db r ctx (exec db l ctx inc) := by
  cases inc <;> simp [exec, exec_nil]
theorem exec_hashJoin (db : DB) (ctx : Ctx) (l r : Plan) (inc : List Row) :
    exec db (.hashJoin l r) ctx inc =
      (if (exec db l ctx inc).isEmpty then [] else hashJoin (exec db l ctx inc) (exec db r ctx [[]])) := by
  cases inc <;> simp [exec, exec_nil]
theorem exec_nlJoin (db : DB) (ctx : Ctx) (l r : Plan) (inc : List Row) :
    exec db (.nlJoin l r) ctx inc =
      (if (exec db l ctx inc).isEmpty then [] else nlJoin (exec db l ctx inc) (exec db r ctx [[]])) := by
  cases inc <;> simp [exec, exec_nil]
theorem exec_star (db : DB) (ctx : Ctx) (pats : List QPat) (inc : List Row) :
    exec db (.star pats) ctx inc = pats.foldl (fun acc p => scan db ctx { p with g := .dflt } acc) inc := by
  cases inc with
  | nil =>
    simp only [exec]
    induction pats with
    | nil => rfl
    | cons p ps ih => simpa [scan] using ih
  | cons _ _ => simp [exec]
theorem exec_values (db : DB) (ctx : Ctx) (vars : List Var) (rows : List (List (Option Val))) (inc : List Row) :
    exec db (.values vars rows) ctx inc = nlJoin inc (valuesRows vars rows) := by
  cases inc <;> simp [exec, nlJoin]
theorem exec_subquery (db : DB) (ctx : Ctx) (i : Plan) (spec : Spec) (inc : List Row) :
    exec db (.subquery i spec) ctx inc = nlJoin inc (finalizeSub spec (exec db i ctx [[]])) := by
  cases inc <;> simp [exec, nlJoin]
theorem exec_bind (db : DB) (ctx : Ctx) (i : Plan) (args : List Operand) (out : Var) (inc : List Row) :
    exec db (.bind i args out) ctx inc =
      (exec db i ctx inc).map (fun r => Row.insert r out (concatArgs args r)) := by
  cases inc <;> simp [exec, exec_nil]
theorem exec_graph (db : DB) (ctx : Ctx) (i : Plan) (g : GTerm) (inc : List Row) :
    exec db (.graph i g) ctx inc =
      (match g with
      | .dflt => exec db i { ctx with active := none } inc
      | .named gn => if visibleNamed db ctx gn then exec db i { ctx with active := some gn } inc else []
      | .var v => inc.flatMap (graphVarRow db ctx v (fun c i' => exec db i c i'))) := by
  cases inc with
  | nil => cases g <;> simp [exec, exec_nil]
  | cons _ _ => cases g <;> simp [exec]

theorem hash_or_nl_empty (x r : List Row) : (if x.isEmpty then [] else nlJoin x r) = nlJoin x r := by
  cases x <;> simp [nlJoin]

/-- the guarded hash join of the executor is, as a multiset, the nested-loop join -/
theorem guarded_hash_perm (x r : List Row) : (if x.isEmpty then [] else hashJoin x r) ~ nlJoin x r := by
  cases x with
  | nil => simp [nlJoin]
  | cons a l => simpa using hashJoin_perm_nlJoin (a :: l) r

/-- **chunking lemma**: executing a plan on `a ++ b` gives, as a multiset, what executing it on `a` and on
    `b` separately gives — for every plan, context and database -/
theorem exec_append (db : DB) (p : Plan) : ∀ (ctx : Ctx) (a b : List Row),
    exec db p ctx (a ++ b) ~ exec db p ctx a ++ exec db p ctx b := by
  induction p with
  | unit => intro ctx a b; simp [exec_unit]
  | empty => intro ctx a b; simp [exec_empty]
  | scan pat => intro ctx a b; simp [exec_scan, scan_append]
  | union l r ihl ihr =>
    intro ctx a b
    simp only [exec_union]
    have := (ihl ctx a b).append (ihr ctx a b)
    refine this.trans ?_
    -- (la ++ lb) ++ (ra ++ rb) ~ (la ++ ra) ++ (lb ++ rb)
    simp only [append_assoc]
    refine Perm.append_left _ ?_
    rw [← append_assoc, ← append_assoc]
    exact Perm.append_right _ perm_append_comm
  | graph i g ih =>
    intro ctx a b
    simp only [exec_graph]
    cases g with
    | dflt => exact ih _ a b
    | named gn =>
      by_cases hv : visibleNamed db ctx gn = true
      · simp only [hv, if_true]; exact ih _ a b
      · simp [hv]
    | var v => simp
  | filter i c ih =>
    intro ctx a b
    simp only [exec_filter]
    have := (ih ctx a b).filter c.eval
    simpa using this
  | project i vs ih =>
    intro ctx a b
    simp only [exec_project]
    have := (ih ctx a b).map (fun r => Row.restrict r vs)
    simpa using this
  | bindJoin l r ihl ihr =>
    intro ctx a b
    simp only [exec_bindJoin]
    have hperm := perm_of_append (fun x => exec db r ctx x) (exec_nil db r ctx) (ihr ctx) (ihl ctx a b)
    exact hperm.trans (ihr ctx _ _)
  | hashJoin l r ihl _ =>
    intro ctx a b
    simp only [exec_hashJoin]
    have h1 := guarded_hash_perm (exec db l ctx (a ++ b)) (exec db r ctx [[]])
    have h2 := guarded_hash_perm (exec db l ctx a) (exec db r ctx [[]])
    have h3 := guarded_hash_perm (exec db l ctx b) (exec db r ctx [[]])
    have h4 := nlJoin_perm_left (exec db r ctx [[]]) (ihl ctx a b)
    rw [nlJoin_append_left] at h4
    exact h1.trans (h4.trans (h2.symm.append h3.symm))
  | nlJoin l r ihl _ =>
    intro ctx a b
    simp only [exec_nlJoin, hash_or_nl_empty]
    have h4 := nlJoin_perm_left (exec db r ctx [[]]) (ihl ctx a b)
    rw [nlJoin_append_left] at h4
    exact h4
  | star pats => intro ctx a b; simp [exec_star, star_append]
  | values vars rows => intro ctx a b; simp [exec_values, nlJoin_append_left]
  | subquery i spec _ => intro ctx a b; simp [exec_subquery, nlJoin_append_left]
  | bind i args out ih =>
    intro ctx a b
    simp only [exec_bind]
    have := (ih ctx a b).map (fun r => Row.insert r out (concatArgs args r))
    simpa using this

theorem exec_perm (db : DB) (p : Plan) (ctx : Ctx) {x y : List Row} (h : x ~ y) :
    exec db p ctx x ~ exec db p ctx y :=
  perm_of_append (fun x => exec db p ctx x) (exec_nil db p ctx) (exec_append db p ctx) h

theorem chunks_flatten {α} (n : Nat) (l : List α) : (chunks n l).flatten = l := by
  induction l using chunks.induct n with
  | case1 l h => rw [chunks, dif_pos h]; simp
  | case2 l h ih => rw [chunks, dif_neg h]; simp [ih]


/-! ### input independence and agreement of the three join executors -/

/-- feeding bindings into a plan equals joining them with the plan's own solutions -/
def InputIndep (db : DB) (p : Plan) : Prop :=
  ∀ ctx inc, exec db p ctx inc ~ nlJoin inc (exec db p ctx [[]])

theorem mergeRows_nil_right (a : Row) : mergeRows a [] = some a := by
  unfold mergeRows
  have : compatB a [] = true := by
    unfold compatB
    rw [List.all_eq_true]; intro e _; simp [Row.get]
  rw [this]; rfl

theorem mergeRows_nil_left (b : Row) : ∃ r, mergeRows [] b = some r := by
  unfold mergeRows compatB; simp

theorem nlJoin_unit_right (inc : List Row) : nlJoin inc [[]] = inc := by
  unfold nlJoin
  induction inc with
  | nil => rfl
  | cons a l ih => simp [mergeRows_nil_right, ih]

theorem inputIndep_unit (db : DB) : InputIndep db .unit := by
  intro ctx inc; simp [exec_unit, nlJoin_unit_right]

theorem inputIndep_empty (db : DB) : InputIndep db .empty := by
  intro ctx inc; simp [exec_empty, nlJoin]

theorem nlJoin_values_self (rows : List Row) : nlJoin [[]] rows = rows.filterMap (fun b => mergeRows [] b) := by
  simp [nlJoin]


theorem nodup_eraseDups {α} [BEq α] [LawfulBEq α] (l : List α) : l.eraseDups.Nodup := by
  generalize hn : l.length = n
  induction n using Nat.strongRecOn generalizing l with
  | _ n ih =>
    cases l with
    | nil => simp
    | cons a as =>
      rw [eraseDups_cons, nodup_cons]
      refine ⟨?_, ?_⟩
      · rw [mem_eraseDups, mem_filter]
        simp
      · refine ih (as.filter fun b => !b == a).length ?_ _ rfl
        subst hn
        simp only [length_cons]
        exact Nat.lt_succ_of_le (length_filter_le _ _)

end Kolibrie.Engine
