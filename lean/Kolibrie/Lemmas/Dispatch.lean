import Kolibrie.Spec.Dispatch
/-! Helper lemmas for C17 (core Lean only). -/
namespace Kolibrie.Dispatch
open Kolibrie.Utf8

theorem isBoundary_zero (s : Bytes) : isBoundary s 0 = true := by simp [isBoundary]

theorem isBoundary_length (s : Bytes) : isBoundary s s.length = true := by
  unfold isBoundary
  split
  · rfl
  · simp

theorem floorB_le (s : Bytes) : ∀ i, floorB s i ≤ i
  | 0 => by simp [floorB]
  | i + 1 => by
    unfold floorB
    split
    · exact Nat.le_refl _
    · exact Nat.le_succ_of_le (floorB_le s i)

theorem floorB_boundary (s : Bytes) : ∀ i, isBoundary s (floorB s i) = true
  | 0 => by simp [floorB, isBoundary_zero]
  | i + 1 => by
    unfold floorB
    split
    · assumption
    · exact floorB_boundary s i

theorem floorB_fix (s : Bytes) (i : Nat) (h : isBoundary s i = true) : floorB s i = i := by
  cases i with
  | zero => rfl
  | succ i => simp [floorB, h]

theorem ceilB_spec (s : Bytes) : ∀ f i, i + f = s.length →
    isBoundary s (ceilB s i f) = true ∧ i ≤ ceilB s i f ∧ ceilB s i f ≤ s.length
  | 0, i, h => by
    have : i = s.length := by omega
    subst this
    simp [ceilB, isBoundary_length]
  | f + 1, i, h => by
    unfold ceilB
    split
    · rename_i hb
      exact ⟨hb, Nat.le_refl _, by omega⟩
    · have := ceilB_spec s f (i + 1) (by omega)
      exact ⟨this.1, by omega, this.2.2⟩

theorem trainAll_data (eng : Engine) : ∀ (ps : List String) (d : Db), (trainAll eng d ps).1.data = d.data
  | [], d => rfl
  | p :: ps, d => by
    unfold trainAll
    split
    · split
      · rw [trainAll_data eng ps]
      · rfl
    · exact trainAll_data eng ps d

theorem mem_insertNew {l : List String} {x y : String} (h : y ∈ insertNew l x) : y ∈ l ∨ y = x := by
  unfold insertNew at h
  split at h
  · exact Or.inl h
  · cases h with
    | head => exact Or.inr rfl
    | tail _ h => exact Or.inl h

theorem trainAll_trained (eng : Engine) : ∀ (ps : List String) (d : Db) (x : String),
    x ∈ (trainAll eng d ps).1.trained → x ∈ d.trained ∨ x ∈ ps
  | [], d, x, h => Or.inl h
  | p :: ps, d, x, h => by
    unfold trainAll at h
    split at h
    · split at h
      · rcases trainAll_trained eng ps _ x h with h' | h'
        · rcases mem_insertNew h' with h'' | h''
          · exact Or.inl h''
          · exact Or.inr (by simp [h''])
        · exact Or.inr (List.mem_cons_of_mem _ h')
      · exact Or.inl h
    · rcases trainAll_trained eng ps d x h with h' | h'
      · exact Or.inl h'
      · exact Or.inr (List.mem_cons_of_mem _ h')

theorem prepare_data (eng : Engine) (d : Db) (r : Req) : (prepareExtensions eng d r).1.data = d.data := by
  unfold prepareExtensions
  rw [trainAll_data]

theorem prepare_trained (eng : Engine) (d : Db) (r : Req) (x : String)
    (h : x ∈ (prepareExtensions eng d r).1.trained) : x ∈ d.trained ∨ x ∈ r.trains := by
  unfold prepareExtensions at h
  have h' := trainAll_trained eng r.trains _ x h
  exact h'

theorem materializeAll_data (eng : Engine) : ∀ (ps : List String) (d : Db),
    (∀ p ∈ ps, p ∉ d.trained) → (materializeAll eng d ps).1.data = d.data
  | [], d, _ => rfl
  | p :: ps, d, h => by
    unfold materializeAll
    have hp : p ∉ d.trained := h p (by simp)
    have hps : ∀ q ∈ ps, q ∉ d.trained := fun q hq => h q (List.mem_cons_of_mem _ hq)
    split
    · simp
    · exact materializeAll_data eng ps d hps

end Kolibrie.Dispatch
