import Kolibrie.Lemmas.SldRename
/-! Helper lemmas for C18, part 5: frame (names stay known, the counter grows) and completeness of the helper. -/
namespace Kolibrie.Sld
open Kolibrie.Terms Kolibrie.SldSpec

variable {reserved : List String}

/-- the recursive call keeps the naming discipline -/
def RecFrame (reserved : List String) (rec : Rec) : Prop :=
  ∀ q b c, SubstKnown reserved c b → PatKnown reserved c q →
    c ≤ (rec q b c).2 ∧ ∀ b' ∈ (rec q b c).1, SubstKnown reserved (rec q b c).2 b'

theorem solveEach_frame {rec : Rec} (hf : RecFrame reserved rec) (p : Pattern) :
    ∀ (bs : List Subst) (c : Nat), (∀ b ∈ bs, SubstKnown reserved c b) → PatKnown reserved c p →
      c ≤ (solveEach rec p bs c).2 ∧ ∀ b' ∈ (solveEach rec p bs c).1, SubstKnown reserved (solveEach rec p bs c).2 b' := by
  intro bs
  induction bs with
  | nil => intro c _ _; simp [solveEach]
  | cons b bs ih =>
    intro c hbs hp
    obtain ⟨h1, h2⟩ := hf p b c (hbs b (by simp)) hp
    obtain ⟨h3, h4⟩ := ih (rec p b c).2 (fun b' hb' => (hbs b' (by simp [hb'])).mono h1) (hp.mono h1)
    simp only [solveEach]
    refine ⟨by omega, ?_⟩
    intro b' hb'
    rcases List.mem_append.1 hb' with h | h
    · exact (h2 b' h).mono h3
    · exact h4 b' h

theorem solvePremises_frame {rec : Rec} (hf : RecFrame reserved rec) :
    ∀ (ps : List Pattern) (bs : List Subst) (c : Nat), (∀ b ∈ bs, SubstKnown reserved c b) →
      (∀ p ∈ ps, PatKnown reserved c p) →
      c ≤ (solvePremises rec ps bs c).2 ∧
        ∀ b' ∈ (solvePremises rec ps bs c).1, SubstKnown reserved (solvePremises rec ps bs c).2 b' := by
  intro ps
  induction ps with
  | nil => intro bs c hbs _; exact ⟨Nat.le_refl _, hbs⟩
  | cons p ps ih =>
    intro bs c hbs hps
    obtain ⟨h1, h2⟩ := solveEach_frame hf p bs c hbs (hps p (by simp))
    obtain ⟨h3, h4⟩ := ih _ _ h2 (fun p' hp' => (hps p' (by simp [hp'])).mono h1)
    simp only [solvePremises]
    exact ⟨by omega, h4⟩

theorem tryConclusions_frame {rec : Rec} (hf : RecFrame reserved rec) (sub : Pattern) (b : Subst) (prems : List Pattern) :
    ∀ (cs : List Pattern) (c : Nat), SubstKnown reserved c b → PatKnown reserved c sub →
      (∀ p ∈ prems, PatKnown reserved c p) → (∀ q ∈ cs, PatKnown reserved c q) →
      c ≤ (tryConclusions rec sub b prems cs c).2 ∧
        ∀ b' ∈ (tryConclusions rec sub b prems cs c).1, SubstKnown reserved (tryConclusions rec sub b prems cs c).2 b' := by
  intro cs
  induction cs with
  | nil => intro c _ _ _ _; simp [tryConclusions]
  | cons concl cs ih =>
    intro c hb hsub hps hcs
    simp only [tryConclusions]
    split
    · exact ih c hb hsub hps (fun q hq => hcs q (by simp [hq]))
    · rename_i rb hrb
      have hrbk := unifyPatterns_known hb (hcs concl (by simp)) hsub hrb
      obtain ⟨h1, h2⟩ := solvePremises_frame hf prems [rb] c (by simpa using hrbk) hps
      obtain ⟨h3, h4⟩ := ih _ (hb.mono h1) (hsub.mono h1) (fun p hp => (hps p hp).mono h1)
        (fun q hq => (hcs q (by simp [hq])).mono h1)
      refine ⟨by simp only; omega, ?_⟩
      intro b' hb'
      rcases List.mem_append.1 hb' with h | h
      · exact (h2 b' h).mono h3
      · exact h4 b' h

theorem tryRules_frame {rec : Rec} (hf : RecFrame reserved rec) (sub : Pattern) (b : Subst) :
    ∀ (rs : List Rule) (c : Nat), SubstKnown reserved c b → PatKnown reserved c sub →
      c ≤ (tryRules rec reserved sub b rs c).2 ∧
        ∀ b' ∈ (tryRules rec reserved sub b rs c).1, SubstKnown reserved (tryRules rec reserved sub b rs c).2 b' := by
  intro rs
  induction rs with
  | nil => intro c _ _; simp [tryRules]
  | cons r rs ih =>
    intro c hb hsub
    obtain ⟨m, hprem, hconcl, hle, hmapped, hrng, _⟩ := renameRule_fresh reserved r c
    have hps : ∀ p ∈ (renameRule reserved r c).1.premise, PatKnown reserved (renameRule reserved r c).2 p := by
      intro p hp
      rw [hprem] at hp
      obtain ⟨p0, hp0, rfl⟩ := List.mem_map.1 hp
      exact applyMapP_known (hmapped p0 (Or.inl hp0)) hrng
    have hcs : ∀ p ∈ (renameRule reserved r c).1.conclusion, PatKnown reserved (renameRule reserved r c).2 p := by
      intro p hp
      rw [hconcl] at hp
      obtain ⟨p0, hp0, rfl⟩ := List.mem_map.1 hp
      exact applyMapP_known (hmapped p0 (Or.inr hp0)) hrng
    obtain ⟨h1, h2⟩ := tryConclusions_frame hf sub b _ _ _ (hb.mono hle) (hsub.mono hle) hps hcs
    obtain ⟨h3, h4⟩ := ih _ (hb.mono (Nat.le_trans hle h1)) (hsub.mono (Nat.le_trans hle h1))
    simp only [tryRules]
    refine ⟨by omega, ?_⟩
    intro b' hb'
    rcases List.mem_append.1 hb' with h | h
    · exact (h2 b' h).mono h3
    · exact h4 b' h

theorem bcStep_frame {rec : Rec} (F : List Fact) (P : List Rule) (hf : RecFrame reserved rec) :
    RecFrame reserved (bcStep reserved F P rec) := by
  intro q b c hb hq
  have hsub := substitute_known hb hq
  obtain ⟨h1, h2⟩ := tryRules_frame hf (substitute b q) b P c hb hsub
  simp only [bcStep]
  refine ⟨h1, ?_⟩
  intro b' hb'
  rcases List.mem_append.1 hb' with h | h
  · obtain ⟨f, _, hu⟩ := List.mem_filterMap.1 h
    exact (unifyPatterns_known hb hsub (patKnown_fact c f) hu).mono h1
  · exact h2 b' h

theorem bcAux_frame (F : List Fact) (P : List Rule) : ∀ n, RecFrame reserved (bcAux reserved F P n) := by
  intro n
  induction n with
  | zero => intro q b c _ _; simp [bcAux]
  | succ n ih => exact bcStep_frame F P ih

/-! ### completeness -/

/-- every instance of the query that is derivable within `n` levels and compatible with the bindings is found -/
def RecComplete (reserved : List String) (F : List Fact) (P : List Rule) (n : Nat) (rec : Rec) : Prop :=
  ∀ q b c σ, SubstKnown reserved c b → PatKnown reserved c q → Sat σ b → DerivableD F P n (q.inst σ) →
    ∃ b' ∈ (rec q b c).1, ∃ σ', Sat σ' b' ∧ AgreeOn reserved c σ σ'

variable {F : List Fact} {P : List Rule} {n : Nat} {rec : Rec}

theorem solveEach_complete (hf : RecFrame reserved rec) (hc : RecComplete reserved F P n rec) (p : Pattern) :
    ∀ (bs : List Subst) (c : Nat) (b0 : Subst) (σ : String → Nat), (∀ b ∈ bs, SubstKnown reserved c b) →
      PatKnown reserved c p → b0 ∈ bs → Sat σ b0 → DerivableD F P n (p.inst σ) →
      ∃ b' ∈ (solveEach rec p bs c).1, ∃ σ', Sat σ' b' ∧ AgreeOn reserved c σ σ' := by
  intro bs
  induction bs with
  | nil => intro c b0 σ _ _ h; simp at h
  | cons b bs ih =>
    intro c b0 σ hbs hp hb0 hs hd
    simp only [solveEach]
    rcases List.mem_cons.1 hb0 with rfl | hb0
    · obtain ⟨b', hb', σ', hs', ha⟩ := hc p b0 c σ (hbs b0 (by simp)) hp hs hd
      exact ⟨b', List.mem_append.2 (Or.inl hb'), σ', hs', ha⟩
    · obtain ⟨h1, _⟩ := hf p b c (hbs b (by simp)) hp
      obtain ⟨b', hb', σ', hs', ha⟩ := ih (rec p b c).2 b0 σ
        (fun b' hb' => (hbs b' (by simp [hb'])).mono h1) (hp.mono h1) hb0 hs hd
      exact ⟨b', List.mem_append.2 (Or.inr hb'), σ', hs', ha.weaken h1⟩

theorem solvePremises_complete (hf : RecFrame reserved rec) (hc : RecComplete reserved F P n rec) :
    ∀ (ps : List Pattern) (bs : List Subst) (c : Nat) (b0 : Subst) (σ : String → Nat),
      (∀ b ∈ bs, SubstKnown reserved c b) → (∀ p ∈ ps, PatKnown reserved c p) → b0 ∈ bs → Sat σ b0 →
      (∀ p ∈ ps, DerivableD F P n (p.inst σ)) →
      ∃ b' ∈ (solvePremises rec ps bs c).1, ∃ σ', Sat σ' b' ∧ AgreeOn reserved c σ σ' := by
  intro ps
  induction ps with
  | nil => intro bs c b0 σ _ _ hb0 hs _; exact ⟨b0, hb0, σ, hs, AgreeOn.refl _ _⟩
  | cons p ps ih =>
    intro bs c b0 σ hbs hps hb0 hs hd
    simp only [solvePremises]
    obtain ⟨b1, hb1, σ1, hs1, ha1⟩ := solveEach_complete hf hc p bs c b0 σ hbs (hps p (by simp)) hb0 hs (hd p (by simp))
    obtain ⟨h1, h2⟩ := solveEach_frame hf p bs c hbs (hps p (by simp))
    have hd' : ∀ p' ∈ ps, DerivableD F P n (p'.inst σ1) := by
      intro p' hp'
      rw [inst_agree ha1 (hps p' (by simp [hp']))]
      exact hd p' (by simp [hp'])
    obtain ⟨b', hb', σ', hs', ha'⟩ := ih _ _ b1 σ1 h2 (fun p' hp' => (hps p' (by simp [hp'])).mono h1) hb1 hs1 hd'
    exact ⟨b', hb', σ', hs', AgreeOn.trans h1 ha1 ha'⟩

theorem tryConclusions_complete (hf : RecFrame reserved rec) (hc : RecComplete reserved F P n rec)
    (sub : Pattern) (b : Subst) (prems : List Pattern) :
    ∀ (cs : List Pattern) (c : Nat) (c0 : Pattern) (σ : String → Nat), SubstKnown reserved c b →
      PatKnown reserved c sub → (∀ p ∈ prems, PatKnown reserved c p) → (∀ q ∈ cs, PatKnown reserved c q) →
      c0 ∈ cs → Sat σ b → c0.inst σ = sub.inst σ → (∀ p ∈ prems, DerivableD F P n (p.inst σ)) →
      ∃ b' ∈ (tryConclusions rec sub b prems cs c).1, ∃ σ', Sat σ' b' ∧ AgreeOn reserved c σ σ' := by
  intro cs
  induction cs with
  | nil => intro c c0 σ _ _ _ _ h; simp at h
  | cons concl cs ih =>
    intro c c0 σ hb hsub hps hcs hc0 hs heq hd
    simp only [tryConclusions]
    rcases List.mem_cons.1 hc0 with rfl | hc0
    · obtain ⟨rb, hrb, hsrb⟩ := unifyPatterns_complete (p1 := c0) (p2 := sub) hs heq
      simp only [hrb]
      have hrbk := unifyPatterns_known hb (hcs c0 (by simp)) hsub hrb
      obtain ⟨b', hb', σ', hs', ha⟩ := solvePremises_complete hf hc prems [rb] c rb σ (by simpa using hrbk) hps
        (by simp) hsrb hd
      exact ⟨b', List.mem_append.2 (Or.inl hb'), σ', hs', ha⟩
    · split
      · exact ih c c0 σ hb hsub hps (fun q hq => hcs q (by simp [hq])) hc0 hs heq hd
      · rename_i rb hrb
        have hrbk := unifyPatterns_known hb (hcs concl (by simp)) hsub hrb
        obtain ⟨h1, _⟩ := solvePremises_frame hf prems [rb] c (by simpa using hrbk) hps
        obtain ⟨b', hb', σ', hs', ha⟩ := ih _ c0 σ (hb.mono h1) (hsub.mono h1) (fun p hp => (hps p hp).mono h1)
          (fun q hq => (hcs q (by simp [hq])).mono h1) hc0 hs heq hd
        exact ⟨b', List.mem_append.2 (Or.inr hb'), σ', hs', ha.weaken h1⟩

theorem tryRules_complete (hf : RecFrame reserved rec) (hc : RecComplete reserved F P n rec)
    (sub : Pattern) (b : Subst) :
    ∀ (rs : List Rule) (c : Nat) (r0 : Rule) (c0 : Pattern) (θ σ : String → Nat), SubstKnown reserved c b →
      PatKnown reserved c sub → r0 ∈ rs → c0 ∈ r0.conclusion → Sat σ b → c0.inst θ = sub.inst σ →
      (∀ p ∈ r0.premise, DerivableD F P n (p.inst θ)) →
      ∃ b' ∈ (tryRules rec reserved sub b rs c).1, ∃ σ', Sat σ' b' ∧ AgreeOn reserved c σ σ' := by
  intro rs
  induction rs with
  | nil => intro c r0 c0 θ σ _ _ h; simp at h
  | cons r rs ih =>
    intro c r0 c0 θ σ hb hsub hr0 hc0 hs heq hd
    obtain ⟨m, hprem, hconcl, hle, hmapped, hrng, hinj⟩ := renameRule_fresh reserved r c
    have hps : ∀ p ∈ (renameRule reserved r c).1.premise, PatKnown reserved (renameRule reserved r c).2 p := by
      intro p hp
      rw [hprem] at hp
      obtain ⟨p0, hp0, rfl⟩ := List.mem_map.1 hp
      exact applyMapP_known (hmapped p0 (Or.inl hp0)) hrng
    have hcs : ∀ p ∈ (renameRule reserved r c).1.conclusion, PatKnown reserved (renameRule reserved r c).2 p := by
      intro p hp
      rw [hconcl] at hp
      obtain ⟨p0, hp0, rfl⟩ := List.mem_map.1 hp
      exact applyMapP_known (hmapped p0 (Or.inr hp0)) hrng
    simp only [tryRules]
    rcases List.mem_cons.1 hr0 with rfl | hr0
    · -- the rule that derives the fact: override the valuation on the generated names
      have ha1 : AgreeOn reserved c σ (extendVal m θ σ) := extendVal_agree θ σ hrng
      have hs1 : Sat (extendVal m θ σ) b := sat_agree ha1 hb hs
      have hsub1 : sub.inst (extendVal m θ σ) = sub.inst σ := inst_agree ha1 hsub
      obtain ⟨b', hb', σ', hs', ha'⟩ := tryConclusions_complete hf hc sub b _ _ _ (applyMapP m c0) (extendVal m θ σ)
        (hb.mono hle) (hsub.mono hle) hps hcs
        (by rw [hconcl]; exact List.mem_map.2 ⟨c0, hc0, rfl⟩) hs1
        (by rw [applyMapP_extend hinj (hmapped c0 (Or.inr hc0)), hsub1]; exact heq)
        (by
          intro p hp
          rw [hprem] at hp
          obtain ⟨p0, hp0, rfl⟩ := List.mem_map.1 hp
          rw [applyMapP_extend hinj (hmapped p0 (Or.inl hp0))]
          exact hd p0 hp0)
      exact ⟨b', List.mem_append.2 (Or.inl hb'), σ', hs', AgreeOn.trans hle ha1 ha'⟩
    · obtain ⟨h1, _⟩ := tryConclusions_frame hf sub b _ _ _ (hb.mono hle) (hsub.mono hle) hps hcs
      have hle' := Nat.le_trans hle h1
      obtain ⟨b', hb', σ', hs', ha⟩ := ih _ r0 c0 θ σ (hb.mono hle') (hsub.mono hle') hr0 hc0 hs heq hd
      exact ⟨b', List.mem_append.2 (Or.inr hb'), σ', hs', ha.weaken hle'⟩

theorem bcStep_complete_zero (rec : Rec) : RecComplete reserved F P 0 (bcStep reserved F P rec) := by
  intro q b c σ hb hq hs hd
  simp only [bcStep]
  cases hd with
  | fact hf =>
    have heq : (substitute b q).inst σ = (Fact.toPattern (q.inst σ)).inst σ := by
      rw [substitute_inst hs]; rfl
    obtain ⟨b', hu, hs'⟩ := unifyPatterns_complete hs heq
    exact ⟨b', List.mem_append.2 (Or.inl (List.mem_filterMap.2 ⟨_, hf, hu⟩)), σ, hs', AgreeOn.refl _ _⟩

theorem bcStep_complete_succ (hf : RecFrame reserved rec) (hc : RecComplete reserved F P n rec) :
    RecComplete reserved F P (n + 1) (bcStep reserved F P rec) := by
  intro q b c σ hb hq hs hd
  simp only [bcStep]
  generalize hfe : q.inst σ = f at hd
  cases hd with
  | fact hfm =>
    have heq : (substitute b q).inst σ = (Fact.toPattern f).inst σ := by
      rw [substitute_inst hs, hfe]; cases f; rfl
    obtain ⟨b', hu, hs'⟩ := unifyPatterns_complete hs heq
    exact ⟨b', List.mem_append.2 (Or.inl (List.mem_filterMap.2 ⟨_, hfm, hu⟩)), σ, hs', AgreeOn.refl _ _⟩
  | rule θ hr hc0 hprem =>
    rename_i r c0
    obtain ⟨b', hb', σ', hs', ha⟩ := tryRules_complete hf hc (substitute b q) b P c r c0 θ σ hb
      (substitute_known hb hq) hr hc0 hs (by rw [substitute_inst hs]; exact hfe.symm) hprem
    exact ⟨b', List.mem_append.2 (Or.inr hb'), σ', hs', ha⟩

theorem bcAux_complete (F : List Fact) (P : List Rule) :
    ∀ n, RecComplete reserved F P n (bcAux reserved F P (n + 1)) := by
  intro n
  induction n with
  | zero => exact bcStep_complete_zero _
  | succ n ih => exact bcStep_complete_succ (bcAux_frame F P (n + 1)) ih

end Kolibrie.Sld
