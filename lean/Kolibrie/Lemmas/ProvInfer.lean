import Kolibrie.Lemmas.ProvEngine
import Kolibrie.Lemmas.ProvDnf
/-
From the engine theorem to `inferProv` (seed numbering, initial tag store) and to the executable specification
(`closure` computes `Derivable`).
-/
namespace Kolibrie.Prov

/-! ### `Derivable` basics -/

theorem Derivable.congr {P : List Rule} {F F' : Fact → Prop} (h : ∀ g, F g → F' g) {g : Fact}
    (hd : Derivable P F g) : Derivable P F' g := by
  induction hd with
  | base hb => exact Derivable.base (h _ hb)
  | rule hr _ hc ih => exact Derivable.rule hr ih hc

theorem Derivable.iff_congr {P : List Rule} {F F' : Fact → Prop} (h : ∀ g, F g ↔ F' g) (g : Fact) :
    Derivable P F g ↔ Derivable P F' g :=
  ⟨Derivable.congr (fun g => (h g).mp), Derivable.congr (fun g => (h g).mpr)⟩

/-! ### the seed tag store -/

variable {T : Type}

theorem lookup_foldl_none (mk : Nat → Nat → T) (g : Fact) : ∀ (l : List (Nat × (Fact × Nat))) (acc : Tags T),
    (∀ e ∈ l, e.2.1 ≠ g) →
    lookupTag (l.foldl (fun ts (e : Nat × (Fact × Nat)) => setTag ts e.2.1 (mk e.2.2 e.1)) acc) g = lookupTag acc g := by
  intro l
  induction l with
  | nil => intro acc _; rfl
  | cons h t ih =>
    intro acc hne
    rw [List.foldl_cons, ih _ (fun e he => hne e (List.mem_cons_of_mem _ he))]
    simp only [setTag, lookupTag]
    rw [if_neg (hne h List.mem_cons_self)]

theorem lookup_foldl_some (mk : Nat → Nat → T) : ∀ (l : List (Nat × (Fact × Nat))) (acc : Tags T),
    (l.map (·.2.1)).Nodup → ∀ e ∈ l,
    lookupTag (l.foldl (fun ts (e : Nat × (Fact × Nat)) => setTag ts e.2.1 (mk e.2.2 e.1)) acc) e.2.1
      = some (mk e.2.2 e.1) := by
  intro l
  induction l with
  | nil => intro acc _ e he; cases he
  | cons h t ih =>
    intro acc hn e he
    rw [List.map_cons, List.nodup_cons] at hn
    rw [List.foldl_cons]
    rcases List.mem_cons.mp he with rfl | he
    · rw [lookup_foldl_none mk e.2.1 t _ ?_]
      · simp [setTag, lookupTag]
      · intro e' he' heq
        exact hn.1 (by rw [← heq]; exact List.mem_map_of_mem (f := fun x => x.2.1) he')
    · exact ih _ hn.2 e he

/-- `seedTags` written with the projection-style step function -/
theorem seedTags_eq (mk : Nat → Nat → T) (sorted : List (Fact × Nat)) :
    seedTags mk sorted = (((List.range sorted.length).zip sorted).foldl
      (fun ts (e : Nat × (Fact × Nat)) => setTag ts e.2.1 (mk e.2.2 e.1)) []) := by
  unfold seedTags
  congr 1

theorem mem_zip_range' {α} : ∀ (l : List α) (s i : Nat) (e : α),
    (i, e) ∈ (List.range' s l.length).zip l → s ≤ i ∧ l[i - s]? = some e := by
  intro l
  induction l with
  | nil => intro s i e h; simp at h
  | cons a t ih =>
    intro s i e h
    simp only [List.length_cons, List.range'_succ, List.zip_cons_cons, List.mem_cons, Prod.mk.injEq] at h
    rcases h with ⟨rfl, rfl⟩ | h
    · simp
    · obtain ⟨h1, h2⟩ := ih (s + 1) i e h
      refine ⟨by omega, ?_⟩
      have : i - s = (i - (s + 1)) + 1 := by omega
      rw [this, List.getElem?_cons_succ]; exact h2

theorem mem_zip_range {α} (l : List α) (i : Nat) (e : α) (h : (i, e) ∈ (List.range l.length).zip l) :
    i < l.length ∧ l[i]? = some e := by
  rw [List.range_eq_range'] at h
  obtain ⟨_, h2⟩ := mem_zip_range' l 0 i e h
  simp only [Nat.sub_zero] at h2
  exact ⟨(List.getElem?_eq_some_iff.mp h2).1, h2⟩

theorem zip_range_snd {α} (l : List α) : ((List.range l.length).zip l).map (·.2) = l := by
  rw [List.map_snd_zip]; simp

/-- the initial tag store: the `i`-th seed (in triple order) carries `mk k i`, every other fact is untagged -/
theorem getTag_seedTags (P : Prov T) (mk : Nat → Nat → T) (seeds : List (Fact × Nat))
    (hn : (seeds.map (·.1)).Nodup) :
    let sorted := sortSeeds seeds
    (∀ g, g ∉ seeds.map (·.1) → getTag P (seedTags mk sorted) g = P.one) ∧
    (∀ e ∈ (List.range sorted.length).zip sorted,
        e.1 < sorted.length ∧ sorted[e.1]? = some e.2 ∧ e.2 ∈ seeds ∧
        getTag P (seedTags mk sorted) e.2.1 = mk e.2.2 e.1) := by
  intro sorted
  have hperm : sorted.Perm seeds := sortBy'_perm _ _
  have hsn : (sorted.map (·.1)).Nodup := (hperm.map _).nodup_iff.mpr hn
  have hz : ((List.range sorted.length).zip sorted).map (·.2.1) = sorted.map (·.1) := by
    conv => rhs; rw [← zip_range_snd sorted]
    rw [List.map_map]; rfl
  constructor
  · intro g hg
    rw [seedTags_eq, getTag, lookup_foldl_none mk g _ []]
    · rfl
    · intro e he heq
      apply hg
      have h1 : e.2 ∈ sorted := by
        have := List.mem_map_of_mem (f := fun x => x.2) he
        rwa [zip_range_snd] at this
      have h2 : e.2 ∈ seeds := hperm.mem_iff.mp h1
      rw [← heq]; exact List.mem_map_of_mem (f := fun x => x.1) h2
  · intro e he
    obtain ⟨h1, h2⟩ := mem_zip_range sorted e.1 e.2 he
    refine ⟨h1, h2, hperm.mem_iff.mp (List.mem_of_getElem? h2), ?_⟩
    rw [seedTags_eq, getTag, lookup_foldl_some mk _ [] (by rw [hz]; exact hsn) e he]
    rfl

/-! ### `inferProv` on positive programs -/

variable {W : Type} {P : Prov T} (S : Sem T W P)

/-- the inputs of world `w`, read off the initial tag store -/
def inputsW (facts : List Fact) (tags0 : Tags T) : W → Fact → Prop :=
  fun w g => g ∈ facts ∧ S.sem (getTag P tags0 g) w

theorem inv_init (rules : List Rule) (facts : List Fact) (tags0 : Tags T)
    (hne : ∀ r ∈ rules, r.prem ≠ []) :
    Inv S rules (inputsW S facts tags0) facts facts tags0 := by
  refine ⟨?_, fun _ h => h, fun _ _ _ h => h, ?_⟩
  · intro g hg w _ hs; exact Derivable.base ⟨hg, hs⟩
  · intro r hr σ hall
    left
    cases hp : r.prem with
    | nil => exact absurd hp (hne r hr)
    | cons p t => exact ⟨p, List.mem_cons_self, hall p (by rw [hp]; exact List.mem_cons_self)⟩

theorem filter_pos_eq (rules : List Rule) (hpos : ∀ r ∈ rules, r.neg = []) :
    rules.filter (·.neg.isEmpty) = rules ∧ rules.filter (fun r => !r.neg.isEmpty) = [] := by
  constructor
  · apply List.filter_eq_self.mpr; intro r hr; simp [hpos r hr]
  · apply List.filter_eq_nil_iff.mpr; intro r hr; simp [hpos r hr]

/-- exactness of `inferProv` on positive programs, for every semiring with a world reading -/
theorem inferProv_exact (mk : Nat → Nat → T) (rules : List Rule) (facts : List Fact) (seeds : List (Fact × Nat))
    (fuel : Nat) (out : Outcome T)
    (hpos : ∀ r ∈ rules, r.neg = []) (hsafe : ∀ r ∈ rules, safeRule r = true) (hne : ∀ r ∈ rules, r.prem ≠ [])
    (h : inferProv P mk rules facts seeds fuel = some out) :
    let inputs := inputsW S facts (seedTags mk (sortSeeds seeds))
    (∀ g ∈ out.all, ∀ w, S.ok w → S.sem (getTag P out.tags g) w → Derivable rules (inputs w) g) ∧
    (∀ w, S.ok w → ∀ g, Derivable rules (inputs w) g → g ∈ out.all ∧ S.sem (getTag P out.tags g) w) := by
  intro inputs
  obtain ⟨hf1, hf2⟩ := filter_pos_eq rules hpos
  unfold inferProv at h
  simp only [hf1, hf2] at h
  split at h
  · cases h
  · rename_i all tags hit
    simp only [List.isEmpty_nil, if_true, Option.some.injEq] at h
    subst h
    obtain ⟨h1, h2, _⟩ := iter_exact S hsafe fuel facts facts _ all tags (inv_init S rules facts _ hne) hit
    exact ⟨h1, h2⟩

/-! ### the executable least model -/

theorem mem_heads {rules : List Rule} {S : List Fact} {f : Fact} :
    f ∈ heads rules S ↔ ∃ j ∈ jobs rules S S, f ∈ j.concls := by
  simp [heads, List.mem_flatMap]

/-- `closure` computes exactly the least model (when it does not run out of fuel) -/
theorem closure_exact (rules : List Rule) (hsafe : ∀ r ∈ rules, safeRule r = true) (hne : ∀ r ∈ rules, r.prem ≠ [])
    (F : List Fact) : ∀ (fuel : Nat) (S M : List Fact), (∀ g ∈ F, g ∈ S) → (∀ g ∈ S, Derivable rules (· ∈ F) g) →
    closure rules fuel S = some M → ∀ g, g ∈ M ↔ Derivable rules (· ∈ F) g := by
  intro fuel
  induction fuel with
  | zero => intro S M _ _ h; cases h
  | succ n ih =>
    intro S M hF hS h
    simp only [closure] at h
    split at h
    · rename_i hstop
      cases h
      intro g
      refine ⟨hS g, ?_⟩
      have hclosed : ∀ f ∈ heads rules S, f ∈ S := by
        intro f hf
        simp only [List.isEmpty_iff] at hstop
        apply Classical.byContradiction
        intro hnf
        have : f ∈ ((heads rules S).filter fun f => !S.contains f).eraseDups := by
          rw [List.mem_eraseDups, List.mem_filter]
          exact ⟨hf, by simp [List.contains_eq_mem, hnf]⟩
        rw [hstop] at this; cases this
      intro hd
      induction hd with
      | base hb => exact hF _ hb
      | rule hr _ hc ihp =>
        rename_i r σ c _
        apply hclosed
        rw [mem_heads]
        have hp : ∃ p ∈ r.prem, instV σ p ∈ S := by
          cases hpe : r.prem with
          | nil => exact absurd hpe (hne r hr)
          | cons p t => exact ⟨p, List.mem_cons_self, ihp p (by rw [hpe]; exact List.mem_cons_self)⟩
        exact ⟨_, jobs_complete hr (hsafe r hr) (fun _ h => h) σ ihp hp, List.mem_map_of_mem hc⟩
    · apply ih (S ++ ((heads rules S).filter fun f => !S.contains f).eraseDups) M
      · intro g hg; exact List.mem_append.mpr (Or.inl (hF g hg))
      · intro g hg
        rcases List.mem_append.mp hg with h1 | h1
        · exact hS g h1
        · rw [List.mem_eraseDups, List.mem_filter, mem_heads] at h1
          obtain ⟨⟨j, hj, hgj⟩, _⟩ := h1
          obtain ⟨r, hr, σ, hi, hk⟩ := jobs_sound (fun _ h => h) hj
          rw [hi.2, List.mem_map] at hgj
          obtain ⟨c, hc, rfl⟩ := hgj
          refine Derivable.rule hr ?_ hc
          intro p hp
          exact hS _ (hk _ (by rw [hi.1]; exact List.mem_map_of_mem hp))
      · exact h

/-! ### syntactic invariants of tags (e.g. "mentions only seed variables") -/

section TagInv
variable {T : Type} (P : Prov T) (Q : T → Prop)

theorem conjTags_Q (hone : Q P.one) (hconj : ∀ a b, Q a → Q b → Q (P.conj a b)) (ts : Tags T)
    (h : ∀ g, Q (getTag P ts g)) (fs : List Fact) : Q (conjTags P ts fs) := by
  unfold conjTags
  have : ∀ (fs : List Fact) (acc : T), Q acc → Q (fs.foldl (fun acc f => P.conj acc (getTag P ts f)) acc) := by
    intro fs
    induction fs with
    | nil => intro acc ha; exact ha
    | cons f t ih => intro acc ha; exact ih _ (hconj _ _ ha (h f))
  exact this fs _ hone

theorem processConcl_Q (hdisj : ∀ a b, Q a → Q b → Q (P.disj a b)) (known : List Fact) (ctag : T) (st : RState T)
    (c : Fact) (h : ∀ g, Q (getTag P st.tags g)) (hc : Q ctag) :
    ∀ g, Q (getTag P (processConcl P known ctag st c).tags g) := by
  unfold processConcl
  simp only
  split
  · intro g; rw [getTag_setTag]; split
    · exact hc
    · exact h g
  · split
    · exact h
    · intro g; rw [getTag_setTag]; split
      · exact hdisj _ _ (h c) hc
      · exact h g

theorem processJob_Q (hone : Q P.one) (hconj : ∀ a b, Q a → Q b → Q (P.conj a b))
    (hdisj : ∀ a b, Q a → Q b → Q (P.disj a b)) (known : List Fact) (st : RState T) (j : Job)
    (h : ∀ g, Q (getTag P st.tags g)) : ∀ g, Q (getTag P (processJob P known st j).tags g) := by
  unfold processJob
  simp only
  split
  · exact h
  · have hc := conjTags_Q P Q hone hconj st.tags h j.prems
    generalize conjTags P st.tags j.prems = ctag at hc
    have : ∀ (cs : List Fact) (st : RState T), (∀ g, Q (getTag P st.tags g)) →
        ∀ g, Q (getTag P (cs.foldl (processConcl P known ctag) st).tags g) := by
      intro cs
      induction cs with
      | nil => intro st h; exact h
      | cons c t ih => intro st h; exact ih _ (processConcl_Q P Q hdisj known ctag st c h hc)
    exact this _ st h

theorem round_Q (hone : Q P.one) (hconj : ∀ a b, Q a → Q b → Q (P.conj a b))
    (hdisj : ∀ a b, Q a → Q b → Q (P.disj a b)) (rules : List Rule) (all delta : List Fact) (tags : Tags T)
    (h : ∀ g, Q (getTag P tags g)) : ∀ g, Q (getTag P (round P rules all delta tags).tags g) := by
  unfold round
  have : ∀ (js : List Job) (st : RState T), (∀ g, Q (getTag P st.tags g)) →
      ∀ g, Q (getTag P (js.foldl (processJob P all) st).tags g) := by
    intro js
    induction js with
    | nil => intro st h; exact h
    | cons j t ih => intro st h; exact ih _ (processJob_Q P Q hone hconj hdisj all st j h)
  exact this _ _ h

theorem iter_Q (hone : Q P.one) (hconj : ∀ a b, Q a → Q b → Q (P.conj a b))
    (hdisj : ∀ a b, Q a → Q b → Q (P.disj a b)) (rules : List Rule) : ∀ (fuel : Nat) (all delta : List Fact)
    (tags : Tags T) (all' : List Fact) (tags' : Tags T), (∀ g, Q (getTag P tags g)) →
    iter P rules fuel all delta tags = some (all', tags') → ∀ g, Q (getTag P tags' g) := by
  intro fuel
  induction fuel with
  | zero => intro _ _ _ _ _ _ h; cases h
  | succ n ih =>
    intro all delta tags all' tags' hq h
    have hr := round_Q P Q hone hconj hdisj rules all delta tags hq
    simp only [iter] at h
    split at h
    · cases h; exact hr
    · exact ih _ _ _ _ _ hr h

theorem seedTags_Q (hone : Q P.one) (mk : Nat → Nat → T) (sorted : List (Fact × Nat))
    (h : ∀ e ∈ (List.range sorted.length).zip sorted, Q (mk e.2.2 e.1)) :
    ∀ g, Q (getTag P (seedTags mk sorted) g) := by
  rw [seedTags_eq]
  have : ∀ (l : List (Nat × (Fact × Nat))) (acc : Tags T), (∀ g, Q (getTag P acc g)) →
      (∀ e ∈ l, Q (mk e.2.2 e.1)) →
      ∀ g, Q (getTag P (l.foldl (fun ts (e : Nat × (Fact × Nat)) => setTag ts e.2.1 (mk e.2.2 e.1)) acc) g) := by
    intro l
    induction l with
    | nil => intro acc ha _; exact ha
    | cons e t ih =>
      intro acc ha hl
      rw [List.foldl_cons]
      apply ih
      · intro g; rw [getTag_setTag]; split
        · exact hl e List.mem_cons_self
        · exact ha g
      · intro e' he'; exact hl e' (List.mem_cons_of_mem _ he')
  exact this _ [] (fun g => by simpa [getTag, lookupTag] using hone) h

theorem inferProv_Q (hone : Q P.one) (hconj : ∀ a b, Q a → Q b → Q (P.conj a b))
    (hdisj : ∀ a b, Q a → Q b → Q (P.disj a b)) (mk : Nat → Nat → T) (rules : List Rule) (facts : List Fact)
    (seeds : List (Fact × Nat)) (fuel : Nat) (out : Outcome T) (hpos : ∀ r ∈ rules, r.neg = [])
    (hmk : ∀ e ∈ (List.range (sortSeeds seeds).length).zip (sortSeeds seeds), Q (mk e.2.2 e.1))
    (h : inferProv P mk rules facts seeds fuel = some out) : ∀ g, Q (getTag P out.tags g) := by
  obtain ⟨hf1, hf2⟩ := filter_pos_eq rules hpos
  unfold inferProv at h
  simp only [hf1, hf2] at h
  split at h
  · cases h
  · rename_i all tags hit
    simp only [List.isEmpty_nil, if_true, Option.some.injEq] at h
    subst h
    exact iter_Q P Q hone hconj hdisj rules fuel _ _ _ _ _ (seedTags_Q P Q hone mk _ hmk) hit

end TagInv

/-! ### variables of DNF tags -/

theorem mem_dinsert {c c' : Clause} {φ : Dnf} (h : c' ∈ dinsert c φ) : c' = c ∨ c' ∈ φ := by
  unfold dinsert at h
  split at h
  · exact Or.inr h
  · rcases List.mem_append.mp h with h | h
    · exact Or.inr h
    · exact Or.inl (by simpa using h)

theorem mem_foldl_dinsert {c' : Clause} : ∀ (l init : Dnf), c' ∈ l.foldl (fun acc c => dinsert c acc) init →
    c' ∈ init ∨ c' ∈ l := by
  intro l
  induction l with
  | nil => intro init h; exact Or.inl h
  | cons a t ih =>
    intro init h
    rcases ih _ h with h1 | h1
    · rcases mem_dinsert h1 with h2 | h2
      · exact Or.inr (by simp [h2])
      · exact Or.inl h2
    · exact Or.inr (List.mem_cons_of_mem _ h1)

theorem mem_dunion {c' : Clause} {φ ψ : Dnf} (h : c' ∈ dunion φ ψ) : c' ∈ φ ∨ c' ∈ ψ := by
  unfold dunion at h
  rcases mem_foldl_dinsert _ _ h with h1 | h1
  · rcases mem_foldl_dinsert _ _ h1 with h2 | h2
    · cases h2
    · exact Or.inl h2
  · exact Or.inr h1

theorem varsIn_disj {xs : List Nat} {a b : Dnf} (ha : VarsIn xs a) (hb : VarsIn xs b) : VarsIn xs (dnfDisj a b) := by
  intro c hc l hl
  simp only [dnfDisj, removeSubsumed, List.mem_filter] at hc
  rcases mem_dunion hc.1 with h | h
  · exact ha c h l hl
  · exact hb c h l hl

theorem varsIn_conj {xs : List Nat} {a b : Dnf} (ha : VarsIn xs a) (hb : VarsIn xs b) : VarsIn xs (dnfConj a b) := by
  intro c hc l hl
  unfold dnfConj at hc
  split at hc
  · cases hc
  · simp only [removeSubsumed, removeContradictory, List.mem_filter] at hc
    rcases mem_dunion hc.1.1 with h | h
    · simp only [product, List.mem_flatMap, List.mem_map] at h
      obtain ⟨ca, hca, cb, hcb, rfl⟩ := h
      rcases mem_cunion.mp hl with h1 | h1
      · exact ha ca hca l h1
      · exact hb cb hcb l h1
    · cases h

theorem dsub_eval {w : Nat → Bool} {φ ψ : Dnf} (h : dsub φ ψ = true) (he : evalDnf w φ = true) :
    evalDnf w ψ = true := by
  rw [evalDnf_iff] at *
  obtain ⟨c, hc, hec⟩ := he
  simp only [dsub, List.all_eq_true] at h
  obtain ⟨c', hc', hq⟩ := dmem_iff.mp (h c hc)
  exact ⟨c', hc', by rw [← evalClause_ceq hq]; exact hec⟩

theorem deq_eval {w : Nat → Bool} {φ ψ : Dnf} (h : deq φ ψ = true) : evalDnf w φ = evalDnf w ψ := by
  simp only [deq, Bool.and_eq_true] at h
  rw [Bool.eq_iff_iff]
  exact ⟨dsub_eval h.1, dsub_eval h.2⟩

end Kolibrie.Prov
