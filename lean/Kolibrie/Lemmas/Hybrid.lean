import Kolibrie.Model.Hybrid
import Kolibrie.Spec.Worlds
/-! Helper lemmas for C08 (core Lean only). -/
namespace Kolibrie.Hybrid

/-! ### world sums -/

theorem sumWeights_append (f : List Nat → Bool) (a b : List (List Nat × Nat)) :
    sumWeights f (a ++ b) = sumWeights f a + sumWeights f b := by
  induction a with
  | nil => simp [sumWeights]
  | cons x a ih => obtain ⟨w, wt⟩ := x; simp [sumWeights, ih]; omega

theorem sumWeights_mono (f g : List Nat → Bool) (l : List (List Nat × Nat))
    (h : ∀ w, f w = true → g w = true) : sumWeights f l ≤ sumWeights g l := by
  induction l with
  | nil => simp [sumWeights]
  | cons x l ih =>
    obtain ⟨w, wt⟩ := x
    simp only [sumWeights]
    by_cases hf : f w = true
    · simp [hf, h w hf]; exact ih
    · simp [hf]; split <;> omega

theorem sumWeights_congr (f g : List Nat → Bool) (l : List (List Nat × Nat))
    (h : ∀ w, f w = g w) : sumWeights f l = sumWeights g l := by
  have : f = g := funext h
  rw [this]

theorem sumWeights_or (f g : List Nat → Bool) (l : List (List Nat × Nat)) :
    sumWeights (fun w => f w || g w) l ≤ sumWeights f l + sumWeights g l := by
  induction l with
  | nil => simp [sumWeights]
  | cons x l ih =>
    obtain ⟨w, wt⟩ := x
    simp only [sumWeights]
    by_cases h1 : f w = true <;> by_cases h2 : g w = true <;> simp [h1, h2] <;> omega

theorem sumWeights_false (l : List (List Nat × Nat)) : sumWeights (fun _ => false) l = 0 := by
  induction l with
  | nil => simp [sumWeights]
  | cons x l ih => obtain ⟨w, wt⟩ := x; simp [sumWeights, ih]

/-- world sum over the units -/
def sumW (f : List Nat → Bool) (us : List U) : Nat := sumWeights f (worlds us)

theorem sumW_nil (f : List Nat → Bool) : sumW f [] = if f [] then 1 else 0 := by
  simp [sumW, worlds, sumWeights]

theorem sumWeights_ind (f : List Nat → Bool) (s : Seed) (l : List (List Nat × Nat)) :
    sumWeights f (l.flatMap fun (w, wt) => [(s.id :: w, s.num * wt), (w, (s.den - s.num) * wt)]) =
      s.num * sumWeights (fun w => f (s.id :: w)) l + (s.den - s.num) * sumWeights f l := by
  induction l with
  | nil => simp [sumWeights]
  | cons x l ih =>
    obtain ⟨w, wt⟩ := x
    simp only [List.flatMap_cons, sumWeights_append, ih, sumWeights]
    by_cases h1 : f (s.id :: w) = true <;> by_cases h2 : f w = true <;> simp [h1, h2, Nat.mul_add] <;> omega

theorem sumW_ind (f : List Nat → Bool) (s : Seed) (us : List U) :
    sumW f (.ind s :: us) = s.num * sumW (fun w => f (s.id :: w)) us + (s.den - s.num) * sumW f us := by
  simp only [sumW, worlds]; exact sumWeights_ind f s _

/-- `∑_{m ∈ ms} m.num · sumW (f ∘ (m.id :: ·)) us` -/
def sumG (f : List Nat → Bool) (us : List U) : List Seed → Nat
  | [] => 0
  | m :: ms => m.num * sumW (fun w => f (m.id :: w)) us + sumG f us ms

theorem sumWeights_flatMap_append (f : List Nat → Bool) (g h : List Nat × Nat → List (List Nat × Nat))
    (l : List (List Nat × Nat)) :
    sumWeights f (l.flatMap fun x => g x ++ h x) = sumWeights f (l.flatMap g) + sumWeights f (l.flatMap h) := by
  induction l with
  | nil => simp [sumWeights]
  | cons x l ih => simp only [List.flatMap_cons, sumWeights_append, ih]; omega

theorem sumWeights_single (f : List Nat → Bool) (m : Seed) (l : List (List Nat × Nat)) :
    sumWeights f (l.flatMap fun x => [(m.id :: x.1, m.num * x.2)]) =
      m.num * sumWeights (fun w => f (m.id :: w)) l := by
  induction l with
  | nil => simp [sumWeights]
  | cons x l ih =>
    obtain ⟨w, wt⟩ := x
    simp only [List.flatMap_cons, sumWeights_append, ih, sumWeights]
    by_cases h1 : f (m.id :: w) = true <;> simp [h1, Nat.mul_add]

theorem sumWeights_grp (f : List Nat → Bool) (ms : List Seed) (l : List (List Nat × Nat)) :
    sumWeights f (l.flatMap fun x => ms.map fun m => (m.id :: x.1, m.num * x.2)) =
      (ms.foldr (fun m acc => m.num * sumWeights (fun w => f (m.id :: w)) l + acc) 0) := by
  induction ms with
  | nil =>
    simp only [List.map_nil, List.foldr_nil]
    induction l with
    | nil => simp [sumWeights]
    | cons x l ih => simpa [List.flatMap_cons] using ih
  | cons m ms ih =>
    have : (fun x : List Nat × Nat => (m :: ms).map fun m => (m.id :: x.1, m.num * x.2)) =
        fun x => [(m.id :: x.1, m.num * x.2)] ++ ms.map fun m => (m.id :: x.1, m.num * x.2) := by
      funext x; simp
    rw [this, sumWeights_flatMap_append, sumWeights_single, ih]
    simp

theorem sumW_grp (f : List Nat → Bool) (ms : List Seed) (us : List U) :
    sumW f (.grp ms :: us) = sumG f us ms := by
  simp only [sumW, worlds]
  have : (fun x : List Nat × Nat => match x with | (w, wt) => ms.map fun m => (m.id :: w, m.num * wt)) =
      fun x => ms.map fun m => (m.id :: x.1, m.num * x.2) := by funext x; rfl
  rw [this, sumWeights_grp]
  induction ms with
  | nil => rfl
  | cons m ms ih => simp [sumG, sumW, ih]


mutual
theorem sem_congr (w w' : List Nat) (h : ∀ x, w.contains x = w'.contains x) : ∀ φ, sem w φ = sem w' φ
  | .fls => by simp [sem]
  | .tru => by simp [sem]
  | .lit s => by simp only [sem]; exact h s
  | .and cs => by simp only [sem]; exact semAll_congr w w' h cs
  | .or cs => by simp only [sem]; exact semAny_congr w w' h cs
  | .not c => by simp only [sem]; rw [sem_congr w w' h c]
theorem semAll_congr (w w' : List Nat) (h : ∀ x, w.contains x = w'.contains x) : ∀ cs, semAll w cs = semAll w' cs
  | [] => by simp [semAll]
  | c :: cs => by simp only [semAll]; rw [sem_congr w w' h c, semAll_congr w w' h cs]
theorem semAny_congr (w w' : List Nat) (h : ∀ x, w.contains x = w'.contains x) : ∀ cs, semAny w cs = semAny w' cs
  | [] => by simp [semAny]
  | c :: cs => by simp only [semAny]; rw [sem_congr w w' h c, semAny_congr w w' h cs]
end

mutual
theorem sem_unmentioned (x : Nat) (w : List Nat) : ∀ φ, mentions x φ = false → sem (x :: w) φ = sem w φ
  | .fls, _ => by simp [sem]
  | .tru, _ => by simp [sem]
  | .lit s, h => by
      simp only [mentions, beq_eq_false_iff_ne, ne_eq] at h
      simp only [sem, List.contains_cons]
      have : (s == x) = false := by simpa using h
      simp [this]
  | .and cs, h => by simp only [sem]; exact semAll_unmentioned x w cs (by simpa [mentions] using h)
  | .or cs, h => by simp only [sem]; exact semAny_unmentioned x w cs (by simpa [mentions] using h)
  | .not c, h => by simp only [sem]; rw [sem_unmentioned x w c (by simpa [mentions] using h)]
theorem semAll_unmentioned (x : Nat) (w : List Nat) : ∀ cs, mentionsAny x cs = false → semAll (x :: w) cs = semAll w cs
  | [], _ => by simp [semAll]
  | c :: cs, h => by
      simp only [mentionsAny, Bool.or_eq_false_iff] at h
      simp only [semAll]; rw [sem_unmentioned x w c h.1, semAll_unmentioned x w cs h.2]
theorem semAny_unmentioned (x : Nat) (w : List Nat) : ∀ cs, mentionsAny x cs = false → semAny (x :: w) cs = semAny w cs
  | [], _ => by simp [semAny]
  | c :: cs, h => by
      simp only [mentionsAny, Bool.or_eq_false_iff] at h
      simp only [semAny]; rw [sem_unmentioned x w c h.1, semAny_unmentioned x w cs h.2]
end

theorem sem_perm_cons (x : Nat) (w acc : List Nat) (φ : L) : sem (w ++ x :: acc) φ = sem ((x :: w) ++ acc) φ := by
  apply sem_congr
  intro y
  simp only [List.contains_eq_mem, List.mem_append, List.mem_cons, List.cons_append]
  by_cases h1 : y ∈ w <;> by_cases h2 : y = x <;> by_cases h3 : y ∈ acc <;> simp [h1, h2, h3]

/-- independent units have `num ≤ den` -/
def unitsOk : List U → Prop
  | [] => True
  | .ind s :: us => s.num ≤ s.den ∧ unitsOk us
  | .grp _ :: us => unitsOk us

theorem sumG_congr (f g : List Nat → Bool) (us : List U) (ms : List Seed)
    (h : ∀ m ∈ ms, sumW (fun w => f (m.id :: w)) us = sumW (fun w => g (m.id :: w)) us) :
    sumG f us ms = sumG g us ms := by
  induction ms with
  | nil => rfl
  | cons m ms ih =>
    simp only [sumG]
    rw [h m (by simp), ih (fun m' hm' => h m' (by simp [hm']))]

theorem sumG_const (f : List Nat → Bool) (us : List U) (ms : List Seed)
    (h : ∀ m ∈ ms, ∀ w, f (m.id :: w) = f w) : sumG f us ms = sumNum ms * sumW f us := by
  induction ms with
  | nil => simp [sumG, sumNum]
  | cons m ms ih =>
    simp only [sumG, sumNum]
    rw [ih (fun m' hm' => h m' (by simp [hm']))]
    have : (fun w => f (m.id :: w)) = f := funext (h m (by simp))
    rw [this, Nat.add_mul]

theorem massU_eq : ∀ (us : List U) (acc : List Nat) (φ : L), unitsOk us →
    massU us acc φ = sumW (fun w => sem (w ++ acc) φ) us
  | [], acc, φ, _ => by simp [massU, sumW_nil]
  | .ind s :: us, acc, φ, h => by
    obtain ⟨hle, hus⟩ := h
    rw [massU, sumW_ind]
    rw [massU_eq us (s.id :: acc) φ hus, massU_eq us acc φ hus]
    have e1 : (fun w => sem (w ++ s.id :: acc) φ) = (fun w => sem ((s.id :: w) ++ acc) φ) :=
      funext fun w => sem_perm_cons s.id w acc φ
    rw [e1]
    split
    · rfl
    · rename_i hm
      have hm : mentions s.id φ = false := by simpa using hm
      have e2 : (fun w => sem ((s.id :: w) ++ acc) φ) = (fun w => sem (w ++ acc) φ) :=
        funext fun w => by simpa using sem_unmentioned s.id (w ++ acc) φ hm
      rw [e2, ← Nat.add_mul]
      congr 1; omega
  | .grp ms :: us, acc, φ, h => by
    have hus : unitsOk us := h
    rw [massU, sumW_grp]
    have hG : ∀ ms', sumOver ms' (fun m => m.num * massU us (m.id :: acc) φ) =
        sumG (fun w => sem (w ++ acc) φ) us ms' := by
      intro ms'
      induction ms' with
      | nil => simp [sumOver, sumG]
      | cons m ms' ih =>
        rw [sumOver, sumG, ih, massU_eq us (m.id :: acc) φ hus]
        have e1 : (fun w => sem (w ++ m.id :: acc) φ) = (fun w => sem ((m.id :: w) ++ acc) φ) :=
          funext fun w => sem_perm_cons m.id w acc φ
        rw [e1]
    split
    · exact hG ms
    · rename_i hm
      rw [massU_eq us acc φ hus]
      symm
      apply sumG_const
      intro m hmem w
      have : mentions m.id φ = false := by
        simp only [List.any_eq_true, not_exists, not_and, Bool.not_eq_true] at hm
        exact hm m hmem
      simpa using sem_unmentioned m.id (w ++ acc) φ this


theorem unitsOk_append (a b : List U) : unitsOk (a ++ b) ↔ unitsOk a ∧ unitsOk b := by
  induction a with
  | nil => simp [unitsOk]
  | cons u a ih => cases u <;> simp [unitsOk, ih, and_assoc]

theorem unitsOk_grps (gs : List (List Seed)) : unitsOk (gs.map U.grp) := by
  induction gs with
  | nil => trivial
  | cons g gs ih => simpa [unitsOk] using ih

theorem unitsOk_inds (l : List Seed) (h : ∀ s ∈ l, s.num ≤ s.den) : unitsOk (l.map U.ind) := by
  induction l with
  | nil => trivial
  | cons s l ih =>
    simp only [List.map_cons, unitsOk]
    exact ⟨h s (by simp), ih (fun s' hs' => h s' (by simp [hs']))⟩

theorem unitsOk_units (ss : List Seed) (h : seedsOk ss = true) : unitsOk (units ss) := by
  unfold units
  rw [unitsOk_append]
  refine ⟨unitsOk_inds _ ?_, ?_⟩
  · intro s hs
    simp only [List.mem_filter] at hs
    simp only [seedsOk, Bool.and_eq_true, List.all_eq_true] at h
    have := h.2 s hs.1
    have hg : s.grp = none := by simpa using hs.2
    simpa [hg] using this
  · have := unitsOk_grps ((groupIds ss).map fun g => ss.filter (fun s => s.grp == some g))
    simpa [List.map_map, Function.comp_def] using this

theorem mass_eq_spec (ss : List Seed) (h : seedsOk ss = true) (φ : L) : mass ss φ = specMass ss φ := by
  unfold mass specMass
  rw [massU_eq _ _ _ (unitsOk_units ss h)]
  simp [sumW]

theorem sumW_true (us : List U) (h : unitsOk us) : sumW (fun _ => true) us = total us := by
  induction us with
  | nil => simp [sumW_nil, total]
  | cons u us ih =>
    cases u with
    | ind s =>
      obtain ⟨hle, hus⟩ := h
      rw [sumW_ind, ih hus, total, U.den, ← Nat.add_mul]
      congr 1; omega
    | grp ms =>
      have hus : unitsOk us := h
      rw [sumW_grp, sumG_const _ _ _ (by intros; rfl), ih hus, total, U.den]

theorem specTotal_eq (ss : List Seed) (h : seedsOk ss = true) : specTotal ss = total (units ss) := by
  unfold specTotal
  exact sumW_true _ (unitsOk_units ss h)

theorem specMass_le_total (ss : List Seed) (φ : L) : specMass ss φ ≤ specTotal ss := by
  unfold specMass specTotal
  exact sumWeights_mono _ _ _ (fun _ _ => rfl)

theorem specMass_mono (ss : List Seed) (φ ψ : L) (h : ∀ w, sem w φ = true → sem w ψ = true) :
    specMass ss φ ≤ specMass ss ψ := sumWeights_mono _ _ _ h

theorem specMass_congr (ss : List Seed) (φ ψ : L) (h : ∀ w, sem w φ = sem w ψ) :
    specMass ss φ = specMass ss ψ := sumWeights_congr _ _ _ h


/-- every seed of the proof is true in the world -/
def covers (p : Proof) (w : List Nat) : Bool := p.all (fun x => w.contains x)

theorem semAll_lits (w : List Nat) (p : Proof) : semAll w (p.map .lit) = covers p w := by
  induction p with
  | nil => simp [semAll, covers]
  | cons x p ih => simp only [List.map_cons, semAll, sem, ih, covers, List.all_cons]

theorem sem_conj (w : List Nat) (p : Proof) : sem w (conj p) = covers p w := by
  simp [conj, sem, semAll_lits]

theorem semAny_conj (w : List Nat) (ps : List Proof) : semAny w (ps.map conj) = ps.any (fun p => covers p w) := by
  induction ps with
  | nil => simp [semAny]
  | cons p ps ih => simp only [List.map_cons, semAny, sem_conj, ih, List.any_cons]

theorem sem_dnf (w : List Nat) (ps : List Proof) : sem w (dnf ps) = ps.any (fun p => covers p w) := by
  simp [dnf, sem, semAny_conj]

theorem semAll_append (w : List Nat) (a b : List L) : semAll w (a ++ b) = (semAll w a && semAll w b) := by
  induction a with
  | nil => simp [semAll]
  | cons c a ih => simp [semAll, ih, Bool.and_assoc]

theorem unitIds_cons (u : U) (us : List U) : unitIds (u :: us) = U.ids u ++ unitIds us := by
  simp [unitIds]

theorem find?_congr' {α} (l : List α) (f g : α → Bool) (h : ∀ a ∈ l, f a = g a) : l.find? f = l.find? g := by
  induction l with
  | nil => rfl
  | cons a l ih =>
    simp only [List.find?_cons, h a (by simp)]
    rw [ih (fun b hb => h b (by simp [hb]))]

/-- `sumW f us = 0` when `f` is false on every world made of ids of `us` -/
theorem sumW_zero (us : List U) : ∀ (f : List Nat → Bool),
    (∀ w, (∀ y ∈ w, y ∈ unitIds us) → f w = false) → sumW f us = 0 := by
  induction us with
  | nil => intro f h; simp [sumW_nil, h [] (by simp)]
  | cons u us ih =>
    intro f h
    cases u with
    | ind s =>
      rw [sumW_ind, ih, ih]
      · simp
      · intro w hw; apply h; intro y hy; rw [unitIds_cons, List.mem_append]; right; exact hw y hy
      · intro w hw; apply h; intro y hy
        simp only [unitIds_cons, U.ids, List.mem_append, List.mem_cons, List.not_mem_nil, or_false]
        rcases List.mem_cons.1 hy with rfl | hy
        · left; rfl
        · right; exact hw y hy
    | grp ms =>
      rw [sumW_grp]
      have : ∀ ms', (∀ m ∈ ms', m ∈ ms) → sumG f us ms' = 0 := by
        intro ms'
        induction ms' with
        | nil => intro _; rfl
        | cons m ms' ihm =>
          intro hsub
          rw [sumG, ihm (fun m' hm' => hsub m' (by simp [hm'])), ih]
          · simp
          · intro w hw; apply h; intro y hy
            simp only [unitIds_cons, U.ids, List.mem_append, List.mem_map]
            rcases List.mem_cons.1 hy with rfl | hy
            · left; exact ⟨m, hsub m (by simp), rfl⟩
            · right; exact hw y hy
      exact this ms (fun _ h => h)

theorem prodFactors_filter (p : Proof) (x : Nat) (us : List U) (hx : x ∉ unitIds us) :
    prodFactors (p.filter (fun y => y != x)) us = prodFactors p us := by
  induction us with
  | nil => rfl
  | cons u us ih =>
    have hx' : x ∉ unitIds us := by
      intro hc; apply hx; rw [unitIds_cons, List.mem_append]; right; exact hc
    rw [prodFactors, prodFactors, ih hx']
    congr 1
    have hc : ∀ y, y ∈ U.ids u → (p.filter (fun y => y != x)).contains y = p.contains y := by
      intro y hy
      have hne : y ≠ x := by
        intro e; subst e; apply hx; rw [unitIds_cons, List.mem_append]; left; exact hy
      simp only [List.contains_eq_mem, List.mem_filter, bne_iff_ne, ne_eq, decide_eq_decide]
      constructor
      · intro h; exact h.1
      · intro h; exact ⟨h, hne⟩
    cases u with
    | ind s => simp only [unitFactor]; rw [hc s.id (by simp [U.ids])]
    | grp ms =>
      simp only [unitFactor]
      have : ms.find? (fun m => (p.filter (fun y => y != x)).contains m.id) = ms.find? (fun m => p.contains m.id) := by
        apply find?_congr'
        intro m hm
        exact hc m.id (by simp only [U.ids, List.mem_map]; exact ⟨m, hm, rfl⟩)
      rw [this]

theorem covers_cons_filter (p : Proof) (x : Nat) (w : List Nat) :
    covers p (x :: w) = covers (p.filter (fun y => y != x)) w := by
  simp only [covers, List.all_filter, List.contains_cons]
  congr 1; funext y; cases h : (y == x) <;> simp [bne, h]

theorem covers_cons_notin (p : Proof) (x : Nat) (w : List Nat) (h : p.contains x = false) :
    covers p (x :: w) = covers p w := by
  rw [covers_cons_filter]
  congr 1
  apply List.filter_eq_self.2
  intro y hy
  simp only [bne_iff_ne, ne_eq]
  intro e; subst e
  simp at h; exact h hy

def grpIds : List U → List Nat
  | [] => []
  | .ind _ :: us => grpIds us
  | .grp ms :: us => ms.map (·.id) ++ grpIds us

/-- union bound for one proof: the mass of the worlds containing an all-independent proof is at most the product
    of its seeds' probabilities -/
theorem prod_bound (us : List U) : ∀ (p : Proof), unitsOk us → (unitIds us).Nodup →
    (∀ x ∈ p, x ∉ grpIds us) → sumW (covers p) us ≤ prodFactors p us := by
  induction us with
  | nil => intro p _ _ _; simp [sumW_nil, prodFactors]; split <;> omega
  | cons u us ih =>
    intro p hok hnd hgrp
    cases u with
    | ind s =>
      obtain ⟨hle, hus⟩ := hok
      have hnd' : (unitIds us).Nodup := by
        simp only [unitIds_cons, U.ids, List.singleton_append, List.nodup_cons] at hnd; exact hnd.2
      have hsid : s.id ∉ unitIds us := by
        simp only [unitIds_cons, U.ids, List.singleton_append, List.nodup_cons] at hnd; exact hnd.1
      have hgrp' : ∀ q : Proof, (∀ x ∈ q, x ∈ p) → ∀ x ∈ q, x ∉ grpIds us := by
        intro q hq x hx; simpa [grpIds] using hgrp x (hq x hx)
      rw [sumW_ind, prodFactors, unitFactor]
      by_cases hin : p.contains s.id = true
      · simp only [hin, ↓reduceIte]
        have hz : sumW (covers p) us = 0 := by
          apply sumW_zero
          intro w hw
          simp only [covers, List.all_eq_false]
          refine ⟨s.id, by simpa using hin, ?_⟩
          simp only [List.contains_eq_mem, decide_eq_true_eq]
          intro hc; exact hsid (hw _ hc)
        rw [hz, Nat.mul_zero, Nat.add_zero]
        apply Nat.mul_le_mul_left
        have e : (fun w => covers p (s.id :: w)) = covers (p.filter (fun y => y != s.id)) :=
          funext fun w => covers_cons_filter p s.id w
        rw [e, ← prodFactors_filter p s.id us hsid]
        exact ih _ hus hnd' (hgrp' _ (fun x hx => (List.mem_filter.1 hx).1))
      · have hin : p.contains s.id = false := by simpa using hin
        simp only [hin, Bool.false_eq_true, ↓reduceIte]
        have e : (fun w => covers p (s.id :: w)) = covers p := funext fun w => covers_cons_notin p s.id w hin
        rw [e, ← Nat.add_mul]
        have : s.num + (s.den - s.num) = s.den := by omega
        rw [this]
        exact Nat.mul_le_mul_left _ (ih p hus hnd' (hgrp' p (fun _ h => h)))
    | grp ms =>
      have hus : unitsOk us := hok
      have hnd' : (unitIds us).Nodup := by
        rw [unitIds_cons, List.nodup_append] at hnd; exact hnd.2.1
      have hnot : ∀ m ∈ ms, p.contains m.id = false := by
        intro m hm
        have : m.id ∉ p := by
          intro hc
          apply hgrp m.id hc
          simp only [grpIds, List.mem_append, List.mem_map]; left; exact ⟨m, hm, rfl⟩
        simpa using this
      rw [sumW_grp, prodFactors, unitFactor]
      have hf : ms.find? (fun m => p.contains m.id) = none := by
        simp only [List.find?_eq_none]; intro m hm; rw [hnot m hm]; simp
      rw [hf]
      rw [sumG_const (covers p) us ms (fun m hm w => covers_cons_notin p m.id w (hnot m hm))]
      apply Nat.mul_le_mul_left
      apply ih p hus hnd'
      intro x hx hc
      apply hgrp x hx
      simp only [grpIds, List.mem_append]; right; exact hc


/-! ### small facts about the data structures of the enumeration -/

theorem mem_insSorted (x y : Nat) (l : List Nat) : y ∈ insSorted x l ↔ y = x ∨ y ∈ l := by
  induction l with
  | nil => simp [insSorted]
  | cons a l ih =>
    simp only [insSorted]
    split
    · simp
    · split
      · rename_i h; subst h; simp
      · simp only [List.mem_cons, ih]
        constructor
        · rintro (h | h | h) <;> simp [h]
        · rintro (h | h | h) <;> simp [h]

theorem covers_insSorted (x : Nat) (p : Proof) (w : List Nat) :
    covers (insSorted x p) w = (w.contains x && covers p w) := by
  simp only [covers]
  rw [Bool.eq_iff_iff]
  simp only [List.all_eq_true, Bool.and_eq_true, mem_insSorted]
  constructor
  · intro h; exact ⟨h x (Or.inl rfl), fun y hy => h y (Or.inr hy)⟩
  · rintro ⟨h1, h2⟩ y (rfl | hy)
    · exact h1
    · exact h2 y hy

theorem covers_subset (a b : Proof) (w : List Nat) (h : subset a b = true) (hb : covers b w = true) :
    covers a w = true := by
  simp only [covers, subset, List.all_eq_true, List.contains_eq_mem, decide_eq_true_eq] at *
  intro x hx; exact hb x (h x hx)

theorem popMax_none (l : List PState) : popMax l = none ↔ l = [] := by
  cases l with
  | nil => simp [popMax]
  | cons a l =>
    simp only [popMax]
    cases popMax l with
    | none => simp
    | some br => obtain ⟨b, rest⟩ := br; simp only; split <;> simp

theorem popMax_mem (l : List PState) (s : PState) (rest : List PState) (h : popMax l = some (s, rest)) :
    ∀ x, x ∈ l ↔ x = s ∨ x ∈ rest := by
  induction l generalizing s rest with
  | nil => simp [popMax] at h
  | cons a l ih =>
    simp only [popMax] at h
    cases hp : popMax l with
    | none =>
      rw [hp] at h
      simp only [Option.some.injEq, Prod.mk.injEq] at h
      obtain ⟨rfl, rfl⟩ := h
      have : l = [] := (popMax_none l).1 hp
      subst this; simp
    | some br =>
      obtain ⟨b, r⟩ := br
      rw [hp] at h
      simp only at h
      split at h
      · simp only [Option.some.injEq, Prod.mk.injEq] at h
        obtain ⟨rfl, rfl⟩ := h
        intro x; simp
      · simp only [Option.some.injEq, Prod.mk.injEq] at h
        obtain ⟨rfl, rfl⟩ := h
        intro x
        simp only [List.mem_cons, ih b r hp x]
        constructor
        · rintro (h | h | h) <;> simp [h]
        · rintro (h | h | h) <;> simp [h]

theorem popMax_sumUb (l : List PState) (s : PState) (rest : List PState) (h : popMax l = some (s, rest)) :
    sumUb l = s.ub + sumUb rest := by
  induction l generalizing s rest with
  | nil => simp [popMax] at h
  | cons a l ih =>
    simp only [popMax] at h
    cases hp : popMax l with
    | none =>
      rw [hp] at h
      simp only [Option.some.injEq, Prod.mk.injEq] at h
      obtain ⟨rfl, rfl⟩ := h
      have : l = [] := (popMax_none l).1 hp
      subst this; simp [sumUb]
    | some br =>
      obtain ⟨b, r⟩ := br
      rw [hp] at h
      simp only at h
      split at h
      · simp only [Option.some.injEq, Prod.mk.injEq] at h
        obtain ⟨rfl, rfl⟩ := h
        simp [sumUb]
      · simp only [Option.some.injEq, Prod.mk.injEq] at h
        obtain ⟨rfl, rfl⟩ := h
        simp only [sumUb, ih b r hp]; omega

/-- the partial proof holds in `w` and so does every pending node -/
def PState.sat (w : List Nat) (s : PState) : Bool := covers s.proof w && semAll w s.pending

theorem orBranches_spec (s : PState) (pend : List L) (cs : List L) (seq : Nat) :
    ∀ s' ∈ (orBranches s pend cs seq).1, ∃ c ∈ cs, s'.pending = c :: pend ∧ s'.proof = s.proof ∧ s'.ub = s.ub := by
  induction cs generalizing seq with
  | nil => simp [orBranches]
  | cons c cs ih =>
    intro s' hs'
    simp only [orBranches, List.mem_cons] at hs'
    rcases hs' with rfl | hs'
    · exact ⟨c, by simp, rfl, rfl, rfl⟩
    · obtain ⟨c', hc', h⟩ := ih (seq + 1) s' hs'
      exact ⟨c', by simp [hc'], h⟩

theorem orBranches_sat (s : PState) (pend : List L) (cs : List L) (seq : Nat) (w : List Nat) :
    (orBranches s pend cs seq).1.any (·.sat w) = (covers s.proof w && semAny w cs && semAll w pend) := by
  induction cs generalizing seq with
  | nil => simp [orBranches, semAny]
  | cons c cs ih =>
    have h := ih (seq + 1)
    simp only [orBranches, List.any_cons]
    rw [h]
    simp only [PState.sat, semAll, semAny]
    cases covers s.proof w <;> cases sem w c <;> cases semAll w pend <;> simp

theorem emit_none (em : List Proof) (p : Proof) (h : emit em p = none) : ∃ e ∈ em, subset e p = true := by
  unfold emit at h
  split at h
  · rename_i hc; simpa using hc
  · simp at h

theorem emit_some (em : List Proof) (p : Proof) (em' : List Proof) (h : emit em p = some em') :
    (∀ e' ∈ em', e' = p ∨ e' ∈ em) ∧ p ∈ em' ∧ (∀ e ∈ em, e ∈ em' ∨ subset p e = true) := by
  unfold emit at h
  split at h
  · simp at h
  · simp only [Option.some.injEq] at h
    subst h
    refine ⟨?_, by simp, ?_⟩
    · intro e' he'
      simp only [List.mem_append, List.mem_filter, List.mem_singleton] at he'
      rcases he' with h | h
      · exact Or.inr h.1
      · exact Or.inl h
    · intro e he
      by_cases hs : subset p e = true
      · exact Or.inr hs
      · left; simp only [List.mem_append, List.mem_filter, List.mem_singleton]; left
        exact ⟨he, by simpa using hs⟩

theorem prodFactors_nil (us : List U) : prodFactors [] us = total us := by
  induction us with
  | nil => rfl
  | cons u us ih =>
    cases u with
    | ind s => simp [prodFactors, total, unitFactor, U.den, ih]
    | grp ms =>
      have : ms.find? (fun _ => false) = none := by
        induction ms with
        | nil => rfl
        | cons m ms ihm => simp [ihm]
      simp [prodFactors, total, unitFactor, U.den, ih, this]

theorem proofMass_some (ss : List Seed) (p : Proof) (m : Nat) (h : proofMass ss p = some m) :
    m = prodFactors p (units ss) := by
  unfold proofMass at h; split at h <;> simp at h; exact h.symm


/-- the cover invariant of `enumerate_proofs` for the root `φ`; `q` is a predicate all literals of `φ` satisfy -/
structure Inv (ss : List Seed) (q : Nat → Bool) (φ : L) (st : EState) : Prop where
  cover : ∀ w, sem w φ = true →
    (∃ e ∈ st.emitted, covers e w = true) ∨ (∃ s ∈ st.frontier, s.sat w = true)
  soundE : ∀ e ∈ st.emitted, ∀ w, covers e w = true → sem w φ = true
  soundF : ∀ s ∈ st.frontier, ∀ w, s.sat w = true → sem w φ = true
  ub : ∀ s ∈ st.frontier, proofMass ss s.proof = some s.ub
  litsF : ∀ s ∈ st.frontier, (∀ x ∈ s.proof, q x = true) ∧ allLitsL q s.pending = true
  litsE : ∀ e ∈ st.emitted, ∀ x ∈ e, q x = true

theorem allLitsL_append (q : Nat → Bool) (a b : List L) :
    allLitsL q (a ++ b) = (allLitsL q a && allLitsL q b) := by
  induction a with
  | nil => simp [allLitsL]
  | cons c a ih => simp [allLitsL, ih, Bool.and_assoc]

theorem allLitsL_mem (q : Nat → Bool) (cs : List L) (h : allLitsL q cs = true) : ∀ c ∈ cs, allLits q c = true := by
  induction cs with
  | nil => simp
  | cons c cs ih =>
    simp only [allLitsL, Bool.and_eq_true] at h
    intro c' hc'
    rcases List.mem_cons.1 hc' with rfl | hc'
    · exact h.1
    · exact ih h.2 c' hc'

/-- what one expansion does to the popped state `s` (next node `f`, remaining `pend`) -/
theorem expand_spec (ss : List Seed) (q : Nat → Bool) (s : PState) (f : L) (pend : List L) (seq : Nat)
    (new : List PState) (n : Nat) (h : expand ss s f pend seq = .push new n)
    (hub : proofMass ss s.proof = some s.ub)
    (hq : (∀ x ∈ s.proof, q x = true) ∧ allLits q f = true ∧ allLitsL q pend = true) :
    (∀ w, new.any (·.sat w) = (covers s.proof w && sem w f && semAll w pend)) ∧
    (∀ s' ∈ new, proofMass ss s'.proof = some s'.ub) ∧
    (∀ s' ∈ new, (∀ x ∈ s'.proof, q x = true) ∧ allLitsL q s'.pending = true) := by
  obtain ⟨hq1, hq2, hq3⟩ := hq
  cases f with
  | fls =>
    simp only [expand, Expand.push.injEq] at h
    obtain ⟨rfl, _⟩ := h
    simp [sem]
  | tru =>
    simp only [expand, Expand.push.injEq] at h
    obtain ⟨rfl, _⟩ := h
    simp [sem, PState.sat, hub, hq3]; exact hq1
  | lit x =>
    simp only [expand] at h
    split at h
    · simp at h
    · rename_i m hm
      simp only [Expand.push.injEq] at h
      obtain ⟨rfl, _⟩ := h
      refine ⟨?_, ?_, ?_⟩
      · intro w
        simp only [List.any_cons, List.any_nil, Bool.or_false, PState.sat, covers_insSorted, sem]
        cases w.contains x <;> cases covers s.proof w <;> simp
      · simp [hm]
      · simp only [List.mem_singleton, forall_eq, mem_insSorted]
        refine ⟨?_, hq3⟩
        rintro y (rfl | hy)
        · simpa [allLits] using hq2
        · exact hq1 y hy
  | not c => simp [expand] at h
  | and cs =>
    simp only [expand, Expand.push.injEq] at h
    obtain ⟨rfl, _⟩ := h
    refine ⟨?_, by simp [hub], ?_⟩
    · intro w
      simp only [List.any_cons, List.any_nil, Bool.or_false, PState.sat, semAll_append, sem]
      cases covers s.proof w <;> simp
    · simp only [List.mem_singleton, forall_eq, allLitsL_append]
      exact ⟨hq1, by simpa [allLits, hq3] using hq2⟩
  | or cs =>
    simp only [expand] at h
    have hb := orBranches_spec s pend cs seq
    have hs := orBranches_sat s pend cs seq
    cases hbr : orBranches s pend cs seq with
    | mk bs k =>
      rw [hbr] at h hb hs
      simp only [Expand.push.injEq] at h
      obtain ⟨rfl, _⟩ := h
      refine ⟨?_, ?_, ?_⟩
      · intro w; rw [hs w]; simp [sem]
      · intro s' hs'
        obtain ⟨c, _, _, hp, hu⟩ := hb s' hs'
        rw [hp, hu]; exact hub
      · intro s' hs'
        obtain ⟨c, hc, hpend, hp, _⟩ := hb s' hs'
        rw [hp, hpend]
        refine ⟨hq1, ?_⟩
        simp only [allLitsL, Bool.and_eq_true]
        exact ⟨allLitsL_mem q cs (by simpa [allLits] using hq2) c hc, hq3⟩

/-- generic preservation: the popped state `s` is replaced by `new`, the emitted list by `em` -/
theorem Inv.step (ss : List Seed) (q : Nat → Bool) (φ : L) (st : EState) (s : PState) (rest new : List PState)
    (em : List Proof) (k : Nat) (hinv : Inv ss q φ st) (hpop : popMax st.frontier = some (s, rest))
    (h1 : ∀ w, s.sat w = true → (∃ e ∈ em, covers e w = true) ∨ (∃ s' ∈ new, s'.sat w = true))
    (h2 : ∀ e ∈ st.emitted, ∀ w, covers e w = true → ∃ e' ∈ em, covers e' w = true)
    (h3 : ∀ e' ∈ em, (∀ w, covers e' w = true → sem w φ = true) ∧ ∀ x ∈ e', q x = true)
    (h4 : ∀ s' ∈ new, (∀ w, s'.sat w = true → s.sat w = true) ∧ proofMass ss s'.proof = some s'.ub ∧
        (∀ x ∈ s'.proof, q x = true) ∧ allLitsL q s'.pending = true) :
    Inv ss q φ { frontier := new ++ rest, emitted := em, seq := k } := by
  have hm := popMax_mem _ _ _ hpop
  have hs : s ∈ st.frontier := (hm s).2 (Or.inl rfl)
  have hr : ∀ x ∈ rest, x ∈ st.frontier := fun x hx => (hm x).2 (Or.inr hx)
  constructor
  · intro w hw
    rcases hinv.cover w hw with ⟨e, he, hc⟩ | ⟨s0, hs0, hsat⟩
    · exact Or.inl (h2 e he w hc)
    · rcases (hm s0).1 hs0 with rfl | hin
      · rcases h1 w hsat with h | ⟨s', hs', hsat'⟩
        · exact Or.inl h
        · exact Or.inr ⟨s', by simp [hs'], hsat'⟩
      · exact Or.inr ⟨s0, by simp [hin], hsat⟩
  · intro e he; exact (h3 e he).1
  · intro s' hs' w hsat
    rcases List.mem_append.1 hs' with h | h
    · exact hinv.soundF s hs w ((h4 s' h).1 w hsat)
    · exact hinv.soundF s' (hr s' h) w hsat
  · intro s' hs'
    rcases List.mem_append.1 hs' with h | h
    · exact (h4 s' h).2.1
    · exact hinv.ub s' (hr s' h)
  · intro s' hs'
    rcases List.mem_append.1 hs' with h | h
    · exact (h4 s' h).2.2
    · exact hinv.litsF s' (hr s' h)
  · intro e he; exact (h3 e he).2


def sumCov (us : List U) : List PState → Nat
  | [] => 0
  | s :: l => sumW (covers s.proof) us + sumCov us l

theorem sumW_any_le (us : List U) (l : List PState) :
    sumW (fun w => l.any (·.sat w)) us ≤ sumCov us l := by
  induction l with
  | nil => simp [sumCov, sumW, sumWeights_false]
  | cons s l ih =>
    simp only [List.any_cons, sumCov]
    refine Nat.le_trans (sumWeights_or _ _ _) ?_
    apply Nat.add_le_add _ ih
    apply sumWeights_mono
    intro w hw
    simp only [PState.sat, Bool.and_eq_true] at hw
    exact hw.1

theorem sumCov_le (ss : List Seed) (hs : seedsOk ss = true) (l : List PState)
    (h : ∀ s ∈ l, proofMass ss s.proof = some s.ub ∧ ∀ x ∈ s.proof, x ∉ grpIds (units ss)) :
    sumCov (units ss) l ≤ sumUb l := by
  have hnd : (unitIds (units ss)).Nodup := by
    simp only [seedsOk, Bool.and_eq_true, decide_eq_true_eq] at hs; exact hs.1
  induction l with
  | nil => simp [sumCov, sumUb]
  | cons s l ih =>
    simp only [sumCov, sumUb]
    apply Nat.add_le_add
    · have := h s (by simp)
      rw [proofMass_some ss s.proof s.ub this.1]
      exact prod_bound _ _ (unitsOk_units ss hs) hnd this.2
    · exact ih (fun s' hs' => h s' (by simp [hs']))

theorem Inv.bound (ss : List Seed) (hs : seedsOk ss = true) (q : Nat → Bool)
    (hq : ∀ x, q x = true → x ∉ grpIds (units ss)) (φ : L) (st : EState) (hinv : Inv ss q φ st) :
    specMass ss φ ≤ specMass ss (dnf st.emitted) + min (sumUb st.frontier) (total (units ss)) := by
  have h1 : specMass ss φ ≤ specMass ss (dnf st.emitted) + sumUb st.frontier := by
    have : specMass ss φ ≤ sumW (fun w => sem w (dnf st.emitted) || st.frontier.any (·.sat w)) (units ss) := by
      apply sumWeights_mono
      intro w hw
      rcases hinv.cover w hw with ⟨e, he, hc⟩ | ⟨s, hs', hsat⟩
      · simp only [sem_dnf, Bool.or_eq_true, List.any_eq_true]; left; exact ⟨e, he, hc⟩
      · simp only [Bool.or_eq_true, List.any_eq_true]; right; exact ⟨s, hs', hsat⟩
    refine Nat.le_trans this (Nat.le_trans (sumWeights_or _ _ _) ?_)
    apply Nat.add_le_add_left
    refine Nat.le_trans (sumW_any_le _ _) (sumCov_le ss hs _ ?_)
    intro s hs'
    exact ⟨hinv.ub s hs', fun x hx => hq x ((hinv.litsF s hs').1 x hx)⟩
  have h2 : specMass ss φ ≤ total (units ss) := by
    rw [← specTotal_eq ss hs]; exact specMass_le_total ss φ
  rw [Nat.min_def]; split <;> omega

/-- what a completed enumeration guarantees -/
def EnumSpec (ss : List Seed) (q : Nat → Bool) (φ : L) : EnumOut → Prop
  | .ok proofs res =>
      (∀ e ∈ proofs, ∀ w, covers e w = true → sem w φ = true) ∧ (∀ e ∈ proofs, ∀ x ∈ e, q x = true) ∧
      (res = .Exhausted → ∀ w, sem w φ = true → ∃ e ∈ proofs, covers e w = true) ∧
      (∀ m, res = .Bounded m → specMass ss φ ≤ specMass ss (dnf proofs) + m)
  | _ => True

theorem enumLoop_spec (ss : List Seed) (hs : seedsOk ss = true) (q : Nat → Bool)
    (hq : ∀ x, q x = true → x ∉ grpIds (units ss)) (φ : L) (cap : Nat) (clock : Nat → Nat) (deadline : Nat) :
    ∀ fuel st i, Inv ss q φ st → EnumSpec ss q φ (enumLoop ss cap clock deadline fuel st i).1 := by
  intro fuel
  induction fuel with
  | zero => intro st i _; simp [enumLoop, EnumSpec]
  | succ fuel ih =>
    intro st i hinv
    rw [enumLoop]
    cases hpop : popMax st.frontier with
    | none =>
      simp only
      have hnil : st.frontier = [] := (popMax_none _).1 hpop
      refine ⟨hinv.soundE, hinv.litsE, ?_, by simp⟩
      intro _ w hw
      rcases hinv.cover w hw with h | ⟨s, hs', _⟩
      · exact h
      · rw [hnil] at hs'; simp at hs'
    | some sr =>
      obtain ⟨s, rest⟩ := sr
      simp only
      have hm := popMax_mem _ _ _ hpop
      have hsin : s ∈ st.frontier := (hm s).2 (Or.inl rfl)
      split
      · exact ⟨hinv.soundE, hinv.litsE, by simp, by simp⟩
      · cases hpend : s.pending with
        | nil =>
          simp only
          have hsat : ∀ w, s.sat w = covers s.proof w := by intro w; simp [PState.sat, hpend, semAll]
          cases hem : emit st.emitted s.proof with
          | none =>
            simp only
            obtain ⟨e0, he0, hsub⟩ := emit_none _ _ hem
            have hinv' : Inv ss q φ { frontier := [] ++ rest, emitted := st.emitted, seq := st.seq } := by
              apply Inv.step ss q φ st s rest [] st.emitted st.seq hinv hpop
              · intro w hw; left; rw [hsat] at hw; exact ⟨e0, he0, covers_subset _ _ _ hsub hw⟩
              · intro e he w hc; exact ⟨e, he, hc⟩
              · intro e he; exact ⟨hinv.soundE e he, hinv.litsE e he⟩
              · simp
            exact ih _ _ (by simpa using hinv')
          | some em =>
            simp only
            obtain ⟨hA, hB, hC⟩ := emit_some _ _ _ hem
            have hinv' : Inv ss q φ { frontier := [] ++ rest, emitted := em, seq := st.seq } := by
              apply Inv.step ss q φ st s rest [] em st.seq hinv hpop
              · intro w hw; left; rw [hsat] at hw; exact ⟨s.proof, hB, hw⟩
              · intro e he w hc
                rcases hC e he with h | h
                · exact ⟨e, h, hc⟩
                · exact ⟨s.proof, hB, covers_subset _ _ _ h hc⟩
              · intro e' he'
                rcases hA e' he' with rfl | h
                · refine ⟨fun w hc => hinv.soundF s hsin w (by rw [hsat]; exact hc), (hinv.litsF s hsin).1⟩
                · exact ⟨hinv.soundE e' h, hinv.litsE e' h⟩
              · simp
            split
            · refine ⟨hinv'.soundE, hinv'.litsE, by simp, ?_⟩
              intro m hmm
              simp only [Residual.Bounded.injEq] at hmm
              subst hmm
              simpa using Inv.bound ss hs q hq φ _ hinv'
            · exact ih _ _ (by simpa using hinv')
        | cons f pend =>
          simp only
          cases hex : expand ss s f pend st.seq with
          | err r => simp [EnumSpec]
          | push new k =>
            simp only
            have hl := hinv.litsF s hsin
            rw [hpend] at hl
            simp only [allLitsL, Bool.and_eq_true] at hl
            obtain ⟨hx1, hx2, hx3⟩ := expand_spec ss q s f pend st.seq new k hex (hinv.ub s hsin)
              ⟨hl.1, hl.2.1, hl.2.2⟩
            apply ih
            apply Inv.step ss q φ st s rest new st.emitted k hinv hpop
            · intro w hw; right
              have := hx1 w
              simp only [PState.sat, hpend, semAll] at hw
              rw [Bool.and_assoc, hw] at this
              simpa using this
            · intro e he w hc; exact ⟨e, he, hc⟩
            · intro e he; exact ⟨hinv.soundE e he, hinv.litsE e he⟩
            · intro s' hs'
              refine ⟨?_, hx2 s' hs', hx3 s' hs'⟩
              intro w hsat'
              have := hx1 w
              have hany : new.any (·.sat w) = true := by simp only [List.any_eq_true]; exact ⟨s', hs', hsat'⟩
              rw [hany] at this
              simp only [PState.sat, hpend, semAll]
              rw [Bool.and_assoc] at this
              exact this.symm


theorem unitIds_append (a b : List U) : unitIds (a ++ b) = unitIds a ++ unitIds b := by
  simp [unitIds]

theorem grpIds_append (a b : List U) : grpIds (a ++ b) = grpIds a ++ grpIds b := by
  induction a with
  | nil => rfl
  | cons u a ih => cases u <;> simp [grpIds, ih]

theorem grpIds_inds (l : List Seed) : grpIds (l.map U.ind) = [] := by
  induction l with
  | nil => rfl
  | cons s l ih => simp [grpIds, ih]

theorem unitIds_inds (l : List Seed) : unitIds (l.map U.ind) = l.map (·.id) := by
  induction l with
  | nil => rfl
  | cons s l ih => simp [unitIds_cons, U.ids, ih]

theorem grpIds_grps (gs : List (List Seed)) : grpIds (gs.map U.grp) = unitIds (gs.map U.grp) := by
  induction gs with
  | nil => rfl
  | cons g gs ih => simp [grpIds, unitIds_cons, U.ids, ih]

theorem lookup_some_of_mem (ss : List Seed) (m : Seed) (hm : m ∈ ss) :
    ∃ s, lookup ss m.id = some s ∧ s ∈ ss ∧ s.id = m.id := by
  unfold lookup
  cases h : ss.find? (fun s => s.id == m.id) with
  | none =>
    rw [List.find?_eq_none] at h
    have := h m hm; simp at this
  | some s =>
    refine ⟨s, rfl, List.mem_of_find?_eq_some h, ?_⟩
    have := List.find?_some h; simpa using this

/-- a seed the snapshot does not mark exclusive is not a member id of any group unit -/
theorem nonexcl_notin_grp (ss : List Seed) (hs : seedsOk ss = true) (x : Nat) (hx : isExclusive ss x = false) :
    x ∉ grpIds (units ss) := by
  intro hin
  have hnd : (unitIds (units ss)).Nodup := by
    simp only [seedsOk, Bool.and_eq_true, decide_eq_true_eq] at hs; exact hs.1
  unfold units at hin hnd
  rw [grpIds_append, grpIds_inds, List.nil_append] at hin
  rw [unitIds_append, unitIds_inds] at hnd
  have hin2 := hin
  have hmm : (List.map (fun g => U.grp (List.filter (fun s => s.grp == some g) ss)) (groupIds ss)) =
      ((groupIds ss).map (fun g => List.filter (fun s => s.grp == some g) ss)).map U.grp := by
    simp [List.map_map, Function.comp_def]
  rw [hmm, grpIds_grps] at hin2
  rw [hmm] at hnd
  -- some member `m ∈ ss` with a group has id `x`
  have : ∃ m ∈ ss, m.id = x ∧ m.grp.isSome = true := by
    rw [hmm] at hin
    generalize groupIds ss = gl at hin
    induction gl with
    | nil => simp [grpIds] at hin
    | cons g gl ih =>
      simp only [List.map_cons, grpIds, List.mem_append, List.mem_map, List.mem_filter] at hin
      rcases hin with ⟨m, ⟨hm, hg⟩, rfl⟩ | h
      · refine ⟨m, hm, rfl, ?_⟩
        have : m.grp = some g := by simpa using hg
        simp [this]
      · exact ih h
  obtain ⟨m, hm, rfl, hg⟩ := this
  obtain ⟨s, hl, hsin, hsid⟩ := lookup_some_of_mem ss m hm
  have hsg : s.grp = none := by
    simp only [isExclusive, hl] at hx
    cases h : s.grp with
    | none => rfl
    | some g => rw [h] at hx; simp at hx
  have h1 : m.id ∈ (ss.filter (fun s => s.grp.isNone)).map (·.id) := by
    simp only [List.mem_map, List.mem_filter]
    exact ⟨s, ⟨hsin, by simp [hsg]⟩, hsid⟩
  rw [List.nodup_append] at hnd
  exact hnd.2.2 _ h1 _ hin2 rfl

theorem enumerateProofs_spec (ss : List Seed) (hs : seedsOk ss = true) (q : Nat → Bool)
    (hq : ∀ x, q x = true → x ∉ grpIds (units ss)) (φ : L) (hφ : allLits q φ = true)
    (cap : Nat) (clock : Nat → Nat) (deadline fuel i : Nat) :
    EnumSpec ss q φ (enumerateProofs ss φ cap clock deadline fuel i).1 := by
  unfold enumerateProofs
  split
  · refine ⟨by simp, by simp, by simp, ?_⟩
    intro m hm
    simp only [Residual.Bounded.injEq] at hm
    subst hm
    rw [← specTotal_eq ss hs]
    exact Nat.le_trans (specMass_le_total ss φ) (Nat.le_add_left _ _)
  · apply enumLoop_spec ss hs q hq
    constructor
    · intro w hw; right
      exact ⟨_, List.mem_singleton.2 rfl, by simp [PState.sat, covers, semAll, hw]⟩
    · simp
    · intro s hs' w hsat
      simp only [List.mem_singleton] at hs'
      subst hs'
      simpa [PState.sat, covers, semAll] using hsat
    · intro s hs'
      simp only [List.mem_singleton] at hs'
      subst hs'
      simp [proofMass, prodFactors_nil]
    · intro s hs'
      simp only [List.mem_singleton] at hs'
      subst hs'
      simp [allLitsL, hφ]
    · simp


def sumCovP (us : List U) : List Proof → Nat
  | [] => 0
  | p :: l => sumW (covers p) us + sumCovP us l

theorem sumW_anyP_le (us : List U) (l : List Proof) :
    sumW (fun w => l.any (fun p => covers p w)) us ≤ sumCovP us l := by
  induction l with
  | nil => simp [sumCovP, sumW, sumWeights_false]
  | cons p l ih =>
    simp only [List.any_cons, sumCovP]
    exact Nat.le_trans (sumWeights_or _ _ _) (Nat.add_le_add_left ih _)

theorem probeMass_bound (ss : List Seed) (hs : seedsOk ss = true) (l : List Proof) (pm : Nat)
    (h : probeMass ss l = some pm) (hl : ∀ p ∈ l, ∀ x ∈ p, x ∉ grpIds (units ss)) :
    sumCovP (units ss) l ≤ pm := by
  have hnd : (unitIds (units ss)).Nodup := by
    simp only [seedsOk, Bool.and_eq_true, decide_eq_true_eq] at hs; exact hs.1
  induction l generalizing pm with
  | nil => simp [sumCovP]
  | cons p l ih =>
    simp only [probeMass] at h
    cases h1 : proofMass ss p with
    | none => rw [h1] at h; simp at h
    | some a =>
      cases h2 : probeMass ss l with
      | none => rw [h1, h2] at h; simp at h
      | some b =>
        rw [h1, h2] at h
        simp only [Option.some.injEq] at h
        subst h
        simp only [sumCovP]
        apply Nat.add_le_add
        · rw [proofMass_some ss p a h1]
          exact prod_bound _ _ (unitsOk_units ss hs) hnd (hl p (by simp))
        · exact ih b h2 (fun p' hp' => hl p' (by simp [hp']))

/-- `P(⋁ proofs) ≤ P(⋁ first n) + Σ P(rest)` -/
theorem dnf_split (ss : List Seed) (ps : List Proof) (n : Nat) :
    specMass ss (dnf ps) ≤ specMass ss (dnf (ps.take n)) + sumCovP (units ss) (ps.drop n) := by
  have : specMass ss (dnf ps) ≤
      sumW (fun w => sem w (dnf (ps.take n)) || (ps.drop n).any (fun p => covers p w)) (units ss) := by
    apply sumWeights_mono
    intro w hw
    rw [sem_dnf] at hw
    rw [sem_dnf, ← List.any_append, List.take_append_drop]
    exact hw
  exact Nat.le_trans this (Nat.le_trans (sumWeights_or _ _ _) (Nat.add_le_add_left (sumW_anyP_le _ _) _))

theorem interval_sound (ss : List Seed) (hs : seedsOk ss = true) (q : Nat → Bool)
    (hq : ∀ x, q x = true → x ∉ grpIds (units ss)) (φ : L) (proofs : List Proof) (residual : Residual)
    (hspec : EnumSpec ss q φ (.ok proofs residual)) (rc lo hi : Nat)
    (h : intervalFromEnumeration ss (mass ss (dnf (proofs.take rc))) proofs rc residual = .interval lo hi) :
    lo = mass ss (dnf (proofs.take rc)) ∧ lo ≤ specMass ss φ ∧ specMass ss φ ≤ hi := by
  obtain ⟨hsound, hlits, hex, hbd⟩ := hspec
  have hlow : mass ss (dnf (proofs.take rc)) ≤ specMass ss φ := by
    rw [mass_eq_spec ss hs]
    apply specMass_mono
    intro w hw
    rw [sem_dnf, List.any_eq_true] at hw
    obtain ⟨e, he, hc⟩ := hw
    exact hsound e (List.mem_of_mem_take he) w hc
  have hT : specMass ss φ ≤ total (units ss) := by
    rw [← specTotal_eq ss hs]; exact specMass_le_total ss φ
  unfold intervalFromEnumeration at h
  simp only at h
  -- frontier mass
  have hfm : ∀ fm, (match residual with | .Exhausted => some 0 | .Bounded m => some m | .Unknown => none) = some fm →
      specMass ss φ ≤ specMass ss (dnf proofs) + fm := by
    intro fm hfm
    cases residual with
    | Exhausted =>
      simp only [Option.some.injEq] at hfm; subst hfm
      rw [Nat.add_zero]
      apply specMass_mono
      intro w hw
      obtain ⟨e, he, hc⟩ := hex rfl w hw
      rw [sem_dnf, List.any_eq_true]; exact ⟨e, he, hc⟩
    | Bounded m => simp only [Option.some.injEq] at hfm; subst hfm; exact hbd _ rfl
    | Unknown => simp at hfm
  split at h
  · simp at h
  · rename_i fm hfme
    split at h
    · simp at h
    · rename_i pm hpm
      split at h
      · simp only [IntervalOut.interval.injEq] at h
        obtain ⟨rfl, rfl⟩ := h
        refine ⟨rfl, hlow, ?_⟩
        have h1 := hfm fm hfme
        have h2 := dnf_split ss proofs rc
        have h3 := probeMass_bound ss hs (proofs.drop rc) pm hpm
          (fun p hp x hx => hq x (hlits p (List.mem_of_mem_drop hp) x hx))
        rw [← mass_eq_spec ss hs (dnf (proofs.take rc))] at h2
        have : specMass ss φ ≤ min (mass ss (dnf (proofs.take rc)) + pm + fm) (total (units ss)) := by
          rw [Nat.min_def]; split <;> omega
        exact Nat.le_trans this (Nat.le_max_right _ _)
      · simp at h


/-- what the controller carries between iterations is sound -/
def CtlOk (ss : List Seed) (φ : L) (st : Ctl) : Prop :=
  (∀ l, st.lower = some l → l ≤ specMass ss φ) ∧
  (∀ lo hi, st.last = some (lo, hi) → lo ≤ specMass ss φ ∧ specMass ss φ ≤ hi)

theorem retainedWmc_some (ss : List Seed) (proofs : List Proof) (clock : Nat → Nat) (deadline : Nat)
    (oracle : SddOracle) (nb : Nat) (c : Clk) (v : Nat)
    (h : (retainedWmc ss proofs clock deadline oracle nb c).1 = some v) : v = mass ss (dnf proofs) := by
  unfold retainedWmc at h
  split at h
  · simp only at h
    split at h
    · simp only [Option.some.injEq] at h; exact h.symm
    · simp at h
  · simp at h

theorem decide'_iff (cfg : Config) (T m : Nat) :
    ((decide' cfg T m = .Alert → cfg.tn * T ≤ m * cfg.cd) ∧ (cfg.tn * T ≤ m * cfg.cd → decide' cfg T m = .Alert)) ∧
    ((decide' cfg T m = .NoAlert → m * cfg.cd < cfg.tn * T) ∧ (m * cfg.cd < cfg.tn * T → decide' cfg T m = .NoAlert)) := by
  unfold decide' geThr
  by_cases h : cfg.tn * T ≤ m * cfg.cd <;> simp [h] <;> omega

theorem decideIter_lower (ss : List Seed) (cfg : Config) (clock : Nat → Nat) (deadline k : Nat)
    (proofs : List Proof) (residual : Residual) (rc wmc gain : Nat) (st : Ctl) (clk3 : Clk) :
    (decideIter ss cfg clock deadline k proofs residual rc wmc gain st clk3).2.lower = some wmc := by
  simp only [decideIter]
  split
  · (repeat' split) <;> rfl
  · rfl

theorem decideIter_last (ss : List Seed) (cfg : Config) (clock : Nat → Nat) (deadline k : Nat)
    (proofs : List Proof) (residual : Residual) (rc wmc gain : Nat) (st : Ctl) (clk3 : Clk) :
    (decideIter ss cfg clock deadline k proofs residual rc wmc gain st clk3).2.last =
      match intervalFromEnumeration ss wmc proofs rc residual with
      | .interval lo hi => some (lo, hi)
      | _ => st.last := by
  simp only [decideIter]
  cases hint : intervalFromEnumeration ss wmc proofs rc residual with
  | interval lo hi => simp only; (repeat' split) <;> rfl
  | noInterval => rfl
  | err r => rfl

theorem decideIter_ret (ss : List Seed) (cfg : Config) (clock : Nat → Nat) (deadline k : Nat)
    (proofs : List Proof) (residual : Residual) (rc wmc gain : Nat) (st : Ctl) (clk3 : Clk) (r : Result)
    (h : (decideIter ss cfg clock deadline k proofs residual rc wmc gain st clk3).1 = .ret r) :
    ∃ lo hi, intervalFromEnumeration ss wmc proofs rc residual = .interval lo hi ∧
      ((residual = .Exhausted ∧ proofs.length ≤ k ∧ ∃ m, r = .Exact wmc (decide' cfg (total (units ss)) wmc) .TopKExhausted m) ∨
       (geThr cfg (total (units ss)) wmc = true ∧ ∃ m, r = .Bounded lo hi .Alert .LowerBoundCrossedThreshold m) ∨
       (ltThr cfg (total (units ss)) hi = true ∧ ∃ m, r = .Bounded lo hi .NoAlert .UpperBoundBelowThreshold m)) := by
  simp only [decideIter] at h
  split at h
  · rename_i lo hi hint
    refine ⟨lo, hi, hint, ?_⟩
    split at h
    · rename_i hfe
      simp only [Bool.and_eq_true, beq_iff_eq, decide_eq_true_eq] at hfe
      simp only [IterOut.ret.injEq] at h
      exact Or.inl ⟨hfe.1, hfe.2, _, h.symm⟩
    · split at h
      · rename_i hge
        simp only [IterOut.ret.injEq] at h
        exact Or.inr (Or.inl ⟨hge, _, h.symm⟩)
      · split at h
        · rename_i hlt
          simp only [IterOut.ret.injEq] at h
          exact Or.inr (Or.inr ⟨hlt, _, h.symm⟩)
        · split at h
          · simp at h
          · split at h <;> simp at h
  · simp at h

theorem decideIter_spec (ss : List Seed) (hs : seedsOk ss = true) (q : Nat → Bool)
    (hq : ∀ x, q x = true → x ∉ grpIds (units ss)) (cfg : Config) (φ : L)
    (clock : Nat → Nat) (deadline k : Nat) (proofs : List Proof) (residual : Residual)
    (hspec : EnumSpec ss q φ (.ok proofs residual)) (gain : Nat) (st : Ctl) (clk3 : Clk)
    (hst : CtlOk ss φ st) :
    CtlOk ss φ (decideIter ss cfg clock deadline k proofs residual (min proofs.length k)
      (mass ss (dnf (proofs.take (min proofs.length k)))) gain st clk3).2 ∧
    ∀ r, (decideIter ss cfg clock deadline k proofs residual (min proofs.length k)
      (mass ss (dnf (proofs.take (min proofs.length k)))) gain st clk3).1 = .ret r → soundResult ss cfg φ r := by
  have hlow : mass ss (dnf (proofs.take (min proofs.length k))) ≤ specMass ss φ := by
    rw [mass_eq_spec ss hs]
    apply specMass_mono
    intro w hw
    rw [sem_dnf, List.any_eq_true] at hw
    obtain ⟨e, he, hc⟩ := hw
    exact hspec.1 e (List.mem_of_mem_take he) w hc
  have hT := specTotal_eq ss hs
  refine ⟨⟨?_, ?_⟩, ?_⟩
  · intro l hl
    rw [decideIter_lower] at hl
    simp only [Option.some.injEq] at hl; subst hl; exact hlow
  · intro lo hi hl
    rw [decideIter_last] at hl
    split at hl
    · rename_i lo' hi' hint
      simp only [Option.some.injEq, Prod.mk.injEq] at hl
      obtain ⟨rfl, rfl⟩ := hl
      exact (interval_sound ss hs q hq φ proofs residual hspec _ _ _ hint).2
    · exact hst.2 lo hi hl
  · intro r hr
    obtain ⟨lo, hi, hint, hcase⟩ := decideIter_ret _ _ _ _ _ _ _ _ _ _ _ _ r hr
    obtain ⟨_, h1, h2⟩ := interval_sound ss hs q hq φ proofs residual hspec _ lo hi hint
    rcases hcase with ⟨hres, hlen, m, rfl⟩ | ⟨hge, m, rfl⟩ | ⟨hlt, m, rfl⟩
    · have hmin : min proofs.length k = proofs.length := Nat.min_eq_left hlen
      have hexact : mass ss (dnf (proofs.take (min proofs.length k))) = specMass ss φ := by
        apply Nat.le_antisymm hlow
        rw [hmin, List.take_length, mass_eq_spec ss hs]
        apply specMass_mono
        intro w hw
        obtain ⟨e, he, hc⟩ := hspec.2.2.1 hres w hw
        rw [sem_dnf, List.any_eq_true]; exact ⟨e, he, hc⟩
      simp only [soundResult, hT]
      refine ⟨hexact, ?_, ?_, ?_⟩
      · intro hd; have := (decide'_iff cfg (total (units ss)) _).1.1 hd; rwa [hexact] at this
      · intro hd; have := (decide'_iff cfg (total (units ss)) _).2.1 hd; rwa [hexact] at this
      · unfold decide'; split <;> simp
    · simp only [soundResult, hT, reduceCtorEq, false_implies, ne_eq, not_false_eq_true, and_true, true_implies]
      refine ⟨h1, h2, ?_⟩
      simp only [geThr, decide_eq_true_eq] at hge
      exact Nat.le_trans hge (Nat.mul_le_mul_right _ hlow)
    · simp only [soundResult, hT, reduceCtorEq, false_implies, ne_eq, not_false_eq_true, and_true, true_implies]
      refine ⟨h1, h2, ?_⟩
      simp only [ltThr, decide_eq_true_eq] at hlt
      exact ⟨trivial, Nat.lt_of_le_of_lt (Nat.mul_le_mul_right _ h2) hlt⟩


theorem iteration_spec (ss : List Seed) (hs : seedsOk ss = true) (cfg : Config) (φ : L)
    (hφ : allLits (fun s => !isExclusive ss s) φ = true)
    (clock : Nat → Nat) (oracle : SddOracle) (fuel deadline k : Nat) (st : Ctl) (hst : CtlOk ss φ st) :
    CtlOk ss φ (iteration ss cfg φ clock oracle fuel deadline k st).2 ∧
    ∀ r, (iteration ss cfg φ clock oracle fuel deadline k st).1 = .ret r → soundResult ss cfg φ r := by
  have hq : ∀ x, (fun s => !isExclusive ss s) x = true → x ∉ grpIds (units ss) := by
    intro x hx; exact nonexcl_notin_grp ss hs x (by simpa using hx)
  have hE := enumerateProofs_spec ss hs _ hq φ hφ (k + 1) clock deadline fuel st.clk.i
  simp only [iteration]
  split
  · exact ⟨hst, by intro r hr; simp only [IterOut.ret.injEq] at hr; subst hr; trivial⟩
  · exact ⟨hst, by simp⟩
  · rename_i proofs residual heq
    rw [heq] at hE
    split
    · exact ⟨hst, by simp⟩
    · split
      · exact ⟨hst, by simp⟩
      · rename_i wmc hw
        have := retainedWmc_some _ _ _ _ _ _ _ _ hw
        subst this
        exact decideIter_spec ss hs _ hq cfg φ clock deadline k proofs residual hE _ st _ hst

theorem topkLoop_spec (ss : List Seed) (hs : seedsOk ss = true) (cfg : Config) (φ : L)
    (hφ : allLits (fun s => !isExclusive ss s) φ = true)
    (clock : Nat → Nat) (oracle : SddOracle) (fuel deadline : Nat) :
    ∀ n k st, CtlOk ss φ st →
      CtlOk ss φ (topkLoop ss cfg φ clock oracle fuel deadline n k st).2 ∧
      ∀ r, (topkLoop ss cfg φ clock oracle fuel deadline n k st).1 = some r → soundResult ss cfg φ r := by
  intro n
  induction n with
  | zero =>
    intro k st hst
    exact ⟨hst, by intro r hr; simp only [topkLoop, Option.some.injEq] at hr; subst hr; trivial⟩
  | succ n ih =>
    intro k st hst
    have := iteration_spec ss hs cfg φ hφ clock oracle fuel deadline k st hst
    rw [topkLoop]
    split
    · rename_i r st' heq
      rw [heq] at this
      exact ⟨this.1, by intro r' hr'; simp only [Option.some.injEq] at hr'; subst hr'; exact this.2 r rfl⟩
    · rename_i st' heq
      rw [heq] at this
      exact ⟨this.1, by simp⟩
    · rename_i st' heq
      rw [heq] at this
      exact ih _ st' this.1

/-- every result of the escalation controller is sound: for every configuration, clock, SDD oracle and fuel -/
theorem evaluateHybrid_sound (ss : List Seed) (hs : seedsOk ss = true) (cfg : Config) (φ : L)
    (clock : Nat → Nat) (oracle : SddOracle) (fuel : Nat) :
    soundResult ss cfg φ (evaluateHybrid ss cfg φ clock oracle fuel).1 := by
  unfold evaluateHybrid
  split
  · simp [soundResult]
  · simp only
    have hT := specTotal_eq ss hs
    have hinit : CtlOk ss φ { clk := { i := 1 } } := ⟨by simp, by simp⟩
    -- the state after the top-k stage is sound and an early result is sound
    have key : ∀ (p : Option Result × Ctl),
        (p = (if ((metadata ss φ).monotone && !(metadata ss φ).hasExclusive) = true then
            topkLoop ss cfg φ clock oracle fuel (clock 0 + cfg.b1) (cfg.kMax + 1) cfg.kInit { clk := { i := 1 } }
          else (none, { clk := { i := 1 } }))) →
        CtlOk ss φ p.2 ∧ ∀ r, p.1 = some r → soundResult ss cfg φ r := by
      intro p hp
      split at hp
      · rename_i hguard
        simp only [metadata, Bool.and_eq_true, Bool.not_eq_eq_eq_not] at hguard
        subst hp
        exact topkLoop_spec ss hs cfg φ hguard.2 clock oracle fuel _ _ _ _ hinit
      · subst hp; exact ⟨hinit, by simp⟩
    generalize hp : (if ((metadata ss φ).monotone && !(metadata ss φ).hasExclusive) = true then
            topkLoop ss cfg φ clock oracle fuel (clock 0 + cfg.b1) (cfg.kMax + 1) cfg.kInit { clk := { i := 1 } }
          else (none, { clk := { i := 1 } })) = p
    obtain ⟨hok, hret⟩ := key p hp.symm
    obtain ⟨early, st⟩ := p
    simp only
    cases early with
    | some r => exact hret r rfl
    | none =>
      simp only
      split
      · rename_i pval c' heq
        -- exact value from the SDD stage
        have hp : pval = mass ss φ := by
          unfold sddStage at heq
          simp only at heq
          split at heq
          · simp at heq
          · split at heq <;> simp at heq
            exact heq.1.symm
        subst hp
        simp only [soundResult, hT, mass_eq_spec ss hs]
        refine ⟨trivial, ?_, ?_, ?_⟩
        · intro hd; exact (decide'_iff cfg (total (units ss)) _).1.1 hd
        · intro hd; exact (decide'_iff cfg (total (units ss)) _).2.1 hd
        · unfold decide'; split <;> simp
      · simp only [soundResult]
        refine ⟨?_, ?_⟩
        · intro l hl
          cases hlast : st.last with
          | none => rw [hlast] at hl; exact hok.1 l hl
          | some lh =>
            obtain ⟨lo, hi⟩ := lh
            rw [hlast] at hl
            simp only [Option.some.injEq] at hl
            subst hl
            exact (hok.2 _ _ hlast).1
        · intro h hh
          cases hlast : st.last with
          | none => rw [hlast] at hh; simp at hh
          | some lh =>
            obtain ⟨lo, hi⟩ := lh
            rw [hlast] at hh
            simp only [Option.map_some, Option.some.injEq] at hh
            subst hh
            exact (hok.2 _ _ hlast).2


/-! ### the lineage store -/

def Node.children : Node → List Nat
  | .and cs => cs
  | .or cs => cs
  | .not c => [c]
  | _ => []

/-- reachable-state invariant of the arena: constants at 0 and 1, the tree view agrees with the nodes,
    children precede the end of the arena -/
structure Store.WF (st : Store) : Prop where
  len : st.trees.length = st.nodes.length
  n0 : st.nodes[0]? = some .fls
  n1 : st.nodes[1]? = some .tru
  tree : ∀ (i : Nat) (n : Node), st.nodes[i]? = some n → st.trees[i]? = some (st.treeOfNode n)
  kids : ∀ (i : Nat) (n : Node), st.nodes[i]? = some n → ∀ c ∈ n.children, c < st.nodes.length

theorem Store.WF_new : Store.new.WF := by
  refine ⟨rfl, rfl, rfl, ?_, ?_⟩
  · intro i n h
    match i with
    | 0 => simp [Store.new] at h; subst h; rfl
    | 1 => simp [Store.new] at h; subst h; rfl
    | i + 2 => simp [Store.new] at h
  · intro i n h
    match i with
    | 0 => simp [Store.new] at h; subst h; simp [Node.children]
    | 1 => simp [Store.new] at h; subst h; simp [Node.children]
    | i + 2 => simp [Store.new] at h

theorem Store.node_eq (st : Store) (i : Nat) (n : Node) (h : st.nodes[i]? = some n) : st.node i = n := by
  simp [Store.node, List.getD, h]

theorem Store.tree_of (st : Store) (hw : st.WF) (i : Nat) (n : Node) (h : st.nodes[i]? = some n) :
    st.tree i = st.treeOfNode n := by
  simp [Store.tree, List.getD, hw.tree i n h]

theorem Store.node_get (st : Store) (i : Nat) (h : i < st.nodes.length) : st.nodes[i]? = some (st.node i) := by
  simp [Store.node, List.getD, List.getElem?_eq_getElem h]

theorem semAll_map (w : List Nat) (f : Nat → L) (cs : List Nat) :
    semAll w (cs.map f) = cs.all (fun c => sem w (f c)) := by
  induction cs with
  | nil => simp [semAll]
  | cons c cs ih => simp [semAll, ih]

theorem semAny_map (w : List Nat) (f : Nat → L) (cs : List Nat) :
    semAny w (cs.map f) = cs.any (fun c => sem w (f c)) := by
  induction cs with
  | nil => simp [semAny]
  | cons c cs ih => simp [semAny, ih]

theorem findIdx_some (n : Node) (l : List Node) (k i : Nat) (h : findIdx n l k = some i) :
    ∃ j, i = k + j ∧ l[j]? = some n := by
  induction l generalizing k with
  | nil => simp [findIdx] at h
  | cons m l ih =>
    simp only [findIdx] at h
    split at h
    · rename_i hm; simp only [Option.some.injEq] at h; exact ⟨0, by omega, by simp [hm]⟩
    · obtain ⟨j, hj, hl⟩ := ih (k + 1) h
      exact ⟨j + 1, by omega, by simpa using hl⟩

theorem Store.find_some (st : Store) (n : Node) (i : Nat) (h : st.find n = some i) : st.nodes[i]? = some n := by
  obtain ⟨j, hj, hl⟩ := findIdx_some n st.nodes 0 i h
  have : i = j := by omega
  subst this; exact hl

/-- a store extends another: same old trees and nodes -/
structure Store.Ext (st st' : Store) : Prop where
  le : st.nodes.length ≤ st'.nodes.length
  tree : ∀ i, i < st.nodes.length → st'.tree i = st.tree i

theorem Store.Ext.refl (st : Store) : st.Ext st := ⟨Nat.le_refl _, fun _ _ => rfl⟩

theorem treeOfNode_congr (st st' : Store) (n : Node) (h : ∀ c ∈ n.children, st'.tree c = st.tree c) :
    st'.treeOfNode n = st.treeOfNode n := by
  cases n with
  | fls => rfl
  | tru => rfl
  | lit s => rfl
  | and cs => simp only [Store.treeOfNode]; congr 1; exact List.map_congr_left (fun c hc => h c hc)
  | or cs => simp only [Store.treeOfNode]; congr 1; exact List.map_congr_left (fun c hc => h c hc)
  | not c => simp only [Store.treeOfNode]; rw [h c (by simp [Node.children])]

/-- interning a node whose children are in the arena -/
theorem Store.intern_spec (st : Store) (hw : st.WF) (n : Node) (hk : ∀ c ∈ n.children, c < st.nodes.length) :
    (st.intern n).1.WF ∧ st.Ext (st.intern n).1 ∧ (st.intern n).2 < (st.intern n).1.nodes.length ∧
    (st.intern n).1.tree (st.intern n).2 = st.treeOfNode n := by
  unfold Store.intern
  cases hf : st.find n with
  | some i =>
    simp only
    have hi := Store.find_some st n i hf
    refine ⟨hw, Store.Ext.refl st, ?_, Store.tree_of st hw i n hi⟩
    have : i < st.nodes.length := by
      rcases Nat.lt_or_ge i st.nodes.length with h | h
      · exact h
      · rw [List.getElem?_eq_none h] at hi; simp at hi
    exact this
  | none =>
    simp only
    have hold : ∀ i, i < st.nodes.length →
        ({ nodes := st.nodes ++ [n], trees := st.trees ++ [st.treeOfNode n] } : Store).tree i = st.tree i := by
      intro i hi
      simp only [Store.tree, List.getD]
      rw [List.getElem?_append_left (by rw [hw.len]; exact hi)]
    have hnew : ({ nodes := st.nodes ++ [n], trees := st.trees ++ [st.treeOfNode n] } : Store).tree st.nodes.length =
        st.treeOfNode n := by
      simp only [Store.tree, List.getD]
      rw [← hw.len, List.getElem?_append_right (Nat.le_refl _)]
      simp
    refine ⟨⟨by simp [hw.len], ?_, ?_, ?_, ?_⟩, ⟨by simp, hold⟩, by simp, hnew⟩
    · have := hw.n0
      simp only
      rw [List.getElem?_append_left]; exact this
      rcases Nat.lt_or_ge 0 st.nodes.length with h | h
      · exact h
      · rw [List.getElem?_eq_none h] at this; simp at this
    · have := hw.n1
      simp only
      rw [List.getElem?_append_left]; exact this
      rcases Nat.lt_or_ge 1 st.nodes.length with h | h
      · exact h
      · rw [List.getElem?_eq_none h] at this; simp at this
    · intro i m hm
      simp only at hm
      rcases Nat.lt_or_ge i st.nodes.length with h | h
      · rw [List.getElem?_append_left h] at hm
        have hch := hw.kids i m hm
        rw [treeOfNode_congr st _ m (fun c hc => hold c (hch c hc))]
        simp only
        rw [List.getElem?_append_left (by rw [hw.len]; exact h)]
        exact hw.tree i m hm
      · rw [List.getElem?_append_right h] at hm
        have hi : i = st.nodes.length := by
          rcases Nat.eq_or_lt_of_le h with h' | h'
          · exact h'.symm
          · have : i - st.nodes.length ≥ 1 := by omega
            rw [List.getElem?_eq_none (by simpa using this)] at hm; simp at hm
        subst hi
        simp only [Nat.sub_self, List.getElem?_cons_zero, Option.some.injEq] at hm
        subst hm
        rw [treeOfNode_congr st _ _ (fun c hc => hold c (hk c hc))]
        simp only
        rw [← hw.len, List.getElem?_append_right (Nat.le_refl _)]
        simp
    · intro i m hm c hc
      simp only at hm
      simp only [List.length_append, List.length_singleton]
      rcases Nat.lt_or_ge i st.nodes.length with h | h
      · rw [List.getElem?_append_left h] at hm
        exact Nat.lt_succ_of_lt (hw.kids i m hm c hc)
      · rw [List.getElem?_append_right h] at hm
        have hi : i = st.nodes.length := by
          rcases Nat.eq_or_lt_of_le h with h' | h'
          · exact h'.symm
          · have : i - st.nodes.length ≥ 1 := by omega
            rw [List.getElem?_eq_none (by simpa using this)] at hm; simp at hm
        subst hi
        simp only [Nat.sub_self, List.getElem?_cons_zero, Option.some.injEq] at hm
        subst hm
        exact Nat.lt_succ_of_lt (hk c hc)


theorem mem_foldl_insSorted (x : Nat) (l acc : List Nat) :
    x ∈ l.foldl (fun acc y => insSorted y acc) acc ↔ x ∈ acc ∨ x ∈ l := by
  induction l generalizing acc with
  | nil => simp
  | cons y l ih =>
    simp only [List.foldl_cons, ih, mem_insSorted, List.mem_cons]
    constructor
    · rintro ((h | h) | h) <;> simp [h]
    · rintro (h | h | h) <;> simp [h]

theorem mem_sortDedup (x : Nat) (l : List Nat) : x ∈ sortDedup l ↔ x ∈ l := by
  simp [sortDedup, mem_foldl_insSorted]

/-- conjunction / disjunction of the denotations of a list of ids -/
def agg (st : Store) (isAnd : Bool) (w : List Nat) (l : List Nat) : Bool :=
  if isAnd then l.all (fun x => sem w (st.tree x)) else l.any (fun x => sem w (st.tree x))

theorem agg_congr_mem (st : Store) (isAnd : Bool) (w : List Nat) (a b : List Nat) (h : ∀ x, x ∈ a ↔ x ∈ b) :
    agg st isAnd w a = agg st isAnd w b := by
  cases isAnd
  · simp only [agg, Bool.false_eq_true, ↓reduceIte]
    rw [Bool.eq_iff_iff]; simp only [List.any_eq_true]
    constructor <;> rintro ⟨x, hx, hs⟩
    · exact ⟨x, (h x).1 hx, hs⟩
    · exact ⟨x, (h x).2 hx, hs⟩
  · simp only [agg, ↓reduceIte]
    rw [Bool.eq_iff_iff]; simp only [List.all_eq_true]
    constructor <;> intro hh x hx
    · exact hh x ((h x).2 hx)
    · exact hh x ((h x).1 hx)

theorem agg_append (st : Store) (isAnd : Bool) (w : List Nat) (a b : List Nat) :
    agg st isAnd w (a ++ b) = (if isAnd then agg st isAnd w a && agg st isAnd w b else agg st isAnd w a || agg st isAnd w b) := by
  cases isAnd <;> simp [agg]

theorem tree0 (st : Store) (hw : st.WF) : st.tree 0 = .fls := by
  rw [Store.tree_of st hw 0 _ hw.n0]; rfl
theorem tree1 (st : Store) (hw : st.WF) : st.tree 1 = .tru := by
  rw [Store.tree_of st hw 1 _ hw.n1]; rfl

theorem lt_len_of_get (st : Store) (i : Nat) (n : Node) (h : st.nodes[i]? = some n) : i < st.nodes.length := by
  rcases Nat.lt_or_ge i st.nodes.length with h' | h'
  · exact h'
  · rw [List.getElem?_eq_none h'] at h; simp at h

/-- what an ordinary item contributes to the flattened list -/
def flatStep (st : Store) (isAnd : Bool) (item : Nat) : List Nat :=
  match isAnd, st.node item with
  | true, .and cs => cs
  | false, .or cs => cs
  | _, _ => [item]

theorem flatten_cons_ord (st : Store) (isAnd : Bool) (idn ann item : Nat) (rest acc : List Nat)
    (h1 : ¬ item = ann) (h2 : ¬ item = idn) :
    flatten st isAnd idn ann (item :: rest) acc = flatten st isAnd idn ann rest (acc ++ flatStep st isAnd item) := by
  rw [flatten.eq_def]
  simp only [if_neg h1, if_neg h2]
  unfold flatStep
  cases isAnd <;> cases st.node item <;> rfl

theorem flatten_cons_id (st : Store) (isAnd : Bool) (idn ann item : Nat) (rest acc : List Nat)
    (h1 : ¬ item = ann) (h2 : item = idn) :
    flatten st isAnd idn ann (item :: rest) acc = flatten st isAnd idn ann rest acc := by
  rw [flatten.eq_def]
  simp only [if_neg h1, if_pos h2]

theorem flatten_cons_ann (st : Store) (isAnd : Bool) (idn ann item : Nat) (rest acc : List Nat)
    (h1 : item = ann) :
    flatten st isAnd idn ann (item :: rest) acc = none := by
  rw [flatten.eq_def]
  simp only [if_pos h1]

theorem flatten_spec (st : Store) (hw : st.WF) (isAnd : Bool) :
    ∀ (items acc : List Nat), (∀ x ∈ items, x < st.nodes.length) → (∀ x ∈ acc, x < st.nodes.length) →
    match flatten st isAnd (if isAnd then 1 else 0) (if isAnd then 0 else 1) items acc with
    | some flat => (∀ x ∈ flat, x < st.nodes.length) ∧
        ∀ w, agg st isAnd w flat = agg st isAnd w (acc ++ items)
    | none => ∀ w acc', agg st isAnd w (acc' ++ items) = !isAnd := by
  intro items
  induction items with
  | nil => intro acc _ hacc; simp only [flatten]; exact ⟨hacc, by simp⟩
  | cons item rest ih =>
    intro acc hit hacc
    have hrest : ∀ x ∈ rest, x < st.nodes.length := fun x hx => hit x (by simp [hx])
    have hitem : item < st.nodes.length := hit item (by simp)
    -- the recursive call made for this item, as a function of the new accumulator
    have hstep : ∀ acc2 : List Nat, (∀ x ∈ acc2, x < st.nodes.length) →
        (∀ w, agg st isAnd w acc2 = agg st isAnd w (acc ++ [item])) →
        flatten st isAnd (if isAnd then 1 else 0) (if isAnd then 0 else 1) (item :: rest) acc =
          flatten st isAnd (if isAnd then 1 else 0) (if isAnd then 0 else 1) rest acc2 →
        match flatten st isAnd (if isAnd then 1 else 0) (if isAnd then 0 else 1) (item :: rest) acc with
        | some flat => (∀ x ∈ flat, x < st.nodes.length) ∧
            ∀ w, agg st isAnd w flat = agg st isAnd w (acc ++ item :: rest)
        | none => ∀ w acc', agg st isAnd w (acc' ++ item :: rest) = !isAnd := by
      intro acc2 hacc2 hsem heq
      rw [heq]
      have := ih acc2 hrest hacc2
      split at this
      · rename_i flat hfl
        refine ⟨this.1, fun w => ?_⟩
        rw [this.2 w]
        have e : acc ++ item :: rest = (acc ++ [item]) ++ rest := by simp
        rw [e, agg_append, agg_append st isAnd w (acc ++ [item]), hsem w]
      · rename_i hfl
        intro w acc'
        have := this w (acc' ++ [item])
        simpa using this
    by_cases h1 : item = (if isAnd then 0 else 1)
    · rw [flatten_cons_ann _ _ _ _ _ _ _ h1]; simp only
      intro w acc'
      cases isAnd
      · simp only [Bool.false_eq_true, ↓reduceIte] at h1
        subst h1
        simp [agg, tree1 st hw, sem]
      · simp only [↓reduceIte] at h1
        subst h1
        simp [agg, tree0 st hw, sem]
    · by_cases h2 : item = (if isAnd then 1 else 0)
      · apply hstep acc hacc
        · intro w
          rw [agg_append]
          cases isAnd
          · simp only [Bool.false_eq_true, ↓reduceIte] at h2; subst h2
            simp [agg, tree0 st hw, sem]
          · simp only [↓reduceIte] at h2; subst h2
            simp [agg, tree1 st hw, sem]
        · exact flatten_cons_id _ _ _ _ _ _ _ h1 h2
      · have hnode := Store.node_get st item hitem
        have htree := Store.tree_of st hw item _ hnode
        have hkids := hw.kids item _ hnode
        have hord := flatten_cons_ord st isAnd _ _ item rest acc h1 h2
        apply hstep _ _ _ hord
        · intro x hx
          rcases List.mem_append.1 hx with h | h
          · exact hacc x h
          · unfold flatStep at h
            split at h
            · rename_i cs hn; rw [hn] at hkids; exact hkids x (by simpa [Node.children] using h)
            · rename_i cs hn; rw [hn] at hkids; exact hkids x (by simpa [Node.children] using h)
            · simp at h; subst h; exact hitem
        · intro w
          rw [agg_append, agg_append]
          congr 1
          all_goals
            unfold flatStep
            split
            · rename_i cs hn
              rw [hn] at htree
              simp [agg, htree, Store.treeOfNode, sem, semAll_map]
            · rename_i cs hn
              rw [hn] at htree
              simp [agg, htree, Store.treeOfNode, sem, semAny_map]
            · rfl


theorem hasComplement_spec (st : Store) (hw : st.WF) (flat : List Nat) (hl : ∀ x ∈ flat, x < st.nodes.length)
    (h : hasComplement st flat = true) :
    ∃ a ∈ flat, ∃ b ∈ flat, ∀ w, sem w (st.tree a) = !sem w (st.tree b) := by
  simp only [hasComplement, List.any_eq_true] at h
  obtain ⟨item, hitem, hc⟩ := h
  have hnode := Store.node_get st item (hl item hitem)
  have htree := Store.tree_of st hw item _ hnode
  split at hc
  · rename_i inner hn
    rw [hn] at htree
    refine ⟨item, hitem, inner, by simpa using hc, fun w => ?_⟩
    rw [htree]; simp [Store.treeOfNode, sem]
  · split at hc
    · rename_i negated hf
      have hneg := Store.find_some st _ _ hf
      have htn := Store.tree_of st hw negated _ hneg
      refine ⟨negated, by simpa using hc, item, hitem, fun w => ?_⟩
      rw [htn]; simp [Store.treeOfNode, sem]
    · simp at hc

theorem agg_complement (st : Store) (isAnd : Bool) (w : List Nat) (flat : List Nat) (a b : Nat)
    (ha : a ∈ flat) (hb : b ∈ flat) (h : sem w (st.tree a) = !sem w (st.tree b)) :
    agg st isAnd w flat = !isAnd := by
  cases isAnd
  · simp only [agg, Bool.false_eq_true, ↓reduceIte, Bool.not_false, List.any_eq_true]
    cases hs : sem w (st.tree b)
    · exact ⟨a, ha, by rw [h, hs]; rfl⟩
    · exact ⟨b, hb, hs⟩
  · simp only [agg, ↓reduceIte, Bool.not_true, List.all_eq_false]
    cases hs : sem w (st.tree b)
    · exact ⟨b, hb, by simp [hs]⟩
    · exact ⟨a, ha, by rw [h, hs]; simp⟩

/-- `canonical_nary` (flattening, sorting, dedup, complement detection, hash-consing) preserves meaning -/
theorem canonicalNary_spec (st : Store) (hw : st.WF) (isAnd : Bool) (items : List Nat)
    (hitems : ∀ x ∈ items, x < st.nodes.length) :
    (st.canonicalNary isAnd items).1.WF ∧ st.Ext (st.canonicalNary isAnd items).1 ∧
    (st.canonicalNary isAnd items).2 < (st.canonicalNary isAnd items).1.nodes.length ∧
    ∀ w, sem w ((st.canonicalNary isAnd items).1.tree (st.canonicalNary isAnd items).2) = agg st isAnd w items := by
  have hlen2 : 2 ≤ st.nodes.length := by
    have := lt_len_of_get st 1 _ hw.n1; omega
  have hconst : ∀ (b : Bool) w, sem w (st.tree (if b then 1 else 0)) = b := by
    intro b w; cases b <;> simp [tree0 st hw, tree1 st hw, sem]
  have hfl := flatten_spec st hw isAnd items [] hitems (by simp)
  unfold Store.canonicalNary
  simp only
  split at hfl
  · rename_i flattened hfe
    rw [hfe]; simp only
    have hflat_lt : ∀ x ∈ sortDedup flattened, x < st.nodes.length :=
      fun x hx => hfl.1 x ((mem_sortDedup x flattened).1 hx)
    have hagg : ∀ w, agg st isAnd w (sortDedup flattened) = agg st isAnd w items := by
      intro w
      rw [agg_congr_mem st isAnd w _ _ (fun x => mem_sortDedup x flattened), hfl.2 w]; simp
    split
    · -- complement found
      rename_i hcomp
      obtain ⟨a, ha, b, hb, hab⟩ := hasComplement_spec st hw _ hflat_lt hcomp
      refine ⟨hw, Store.Ext.refl st, by cases isAnd <;> simp <;> omega, fun w => ?_⟩
      rw [← hagg w, agg_complement st isAnd w _ a b ha hb (hab w)]
      cases isAnd <;> simp [tree0 st hw, tree1 st hw, sem]
    · split
      · rename_i hnil
        refine ⟨hw, Store.Ext.refl st, by cases isAnd <;> simp <;> omega, fun w => ?_⟩
        rw [← hagg w, hnil]
        cases isAnd <;> simp [agg, tree0 st hw, tree1 st hw, sem]
      · rename_i only hone
        refine ⟨hw, Store.Ext.refl st, hflat_lt only (by rw [hone]; simp), fun w => ?_⟩
        rw [← hagg w, hone]
        cases isAnd <;> simp [agg]
      · have hk : ∀ c ∈ (if isAnd then Node.and (sortDedup flattened) else Node.or (sortDedup flattened)).children,
            c < st.nodes.length := by
          intro c hc; cases isAnd <;> simp [Node.children] at hc <;> exact hflat_lt c hc
        obtain ⟨h1, h2, h3, h4⟩ := Store.intern_spec st hw _ hk
        refine ⟨h1, h2, h3, fun w => ?_⟩
        rw [h4, ← hagg w]
        cases isAnd
        · simp [Store.treeOfNode, sem, semAny_map, agg]
        · simp [Store.treeOfNode, sem, semAll_map, agg]
  · rename_i hfe
    rw [hfe]; simp only
    refine ⟨hw, Store.Ext.refl st, by cases isAnd <;> simp <;> omega, fun w => ?_⟩
    have := hfl w []
    simp only [List.nil_append] at this
    rw [this]
    cases isAnd <;> simp [tree0 st hw, tree1 st hw, sem]

theorem literal_spec (st : Store) (hw : st.WF) (s : Nat) :
    (st.literal s).1.WF ∧ st.Ext (st.literal s).1 ∧ (st.literal s).2 < (st.literal s).1.nodes.length ∧
    ∀ w, sem w ((st.literal s).1.tree (st.literal s).2) = w.contains s := by
  obtain ⟨h1, h2, h3, h4⟩ := Store.intern_spec st hw (.lit s) (by simp [Node.children])
  exact ⟨h1, h2, h3, fun w => by simp only [Store.literal]; rw [h4]; simp [Store.treeOfNode, sem]⟩

theorem not_spec (st : Store) (hw : st.WF) (id : Nat) (hid : id < st.nodes.length) :
    (st.not id).1.WF ∧ st.Ext (st.not id).1 ∧ (st.not id).2 < (st.not id).1.nodes.length ∧
    ∀ w, sem w ((st.not id).1.tree (st.not id).2) = !sem w (st.tree id) := by
  have hlen2 : 2 ≤ st.nodes.length := by
    have := lt_len_of_get st 1 _ hw.n1; omega
  have hnode := Store.node_get st id hid
  have htree := Store.tree_of st hw id _ hnode
  have hkids := hw.kids id _ hnode
  unfold Store.not
  split
  · rename_i hn; rw [hn] at htree
    exact ⟨hw, Store.Ext.refl st, by simp; omega, fun w => by rw [htree, tree1 st hw]; simp [Store.treeOfNode, sem]⟩
  · rename_i hn; rw [hn] at htree
    exact ⟨hw, Store.Ext.refl st, by simp; omega, fun w => by rw [htree, tree0 st hw]; simp [Store.treeOfNode, sem]⟩
  · rename_i inner hn; rw [hn] at htree hkids
    exact ⟨hw, Store.Ext.refl st, hkids inner (by simp [Node.children]),
      fun w => by rw [htree]; simp [Store.treeOfNode, sem]⟩
  · obtain ⟨h1, h2, h3, h4⟩ := Store.intern_spec st hw (.not id) (by simpa [Node.children] using hid)
    exact ⟨h1, h2, h3, fun w => by rw [h4]; simp [Store.treeOfNode, sem]⟩


/-- the only results the controller can return: two certified `Exact` kinds, two certified `Bounded` kinds,
    or the explicit refusal `NeedsExact` -/
def certKind : Result → Prop
  | .Exact _ _ r _ => r = .TopKExhausted ∨ r = .ExactSdd
  | .Bounded _ _ d r _ => (d = .Alert ∧ r = .LowerBoundCrossedThreshold) ∨ (d = .NoAlert ∧ r = .UpperBoundBelowThreshold)
  | .NeedsExact _ _ _ _ => True
  | .Fuel => True

theorem iteration_kind (ss : List Seed) (cfg : Config) (φ : L) (clock : Nat → Nat) (oracle : SddOracle)
    (fuel deadline k : Nat) (st : Ctl) (r : Result)
    (h : (iteration ss cfg φ clock oracle fuel deadline k st).1 = .ret r) : certKind r := by
  simp only [iteration] at h
  split at h
  · simp only [IterOut.ret.injEq] at h; subst h; trivial
  · simp at h
  · split at h
    · simp at h
    · split at h
      · simp at h
      · obtain ⟨lo, hi, _, hc⟩ := decideIter_ret _ _ _ _ _ _ _ _ _ _ _ _ r h
        rcases hc with ⟨_, _, m, rfl⟩ | ⟨_, m, rfl⟩ | ⟨_, m, rfl⟩ <;> simp [certKind]

theorem topkLoop_kind (ss : List Seed) (cfg : Config) (φ : L) (clock : Nat → Nat) (oracle : SddOracle)
    (fuel deadline : Nat) : ∀ n k st r,
    (topkLoop ss cfg φ clock oracle fuel deadline n k st).1 = some r → certKind r := by
  intro n
  induction n with
  | zero => intro k st r h; simp only [topkLoop, Option.some.injEq] at h; subst h; trivial
  | succ n ih =>
    intro k st r h
    rw [topkLoop] at h
    split at h
    · rename_i r' st' heq
      simp only [Option.some.injEq] at h; subst h
      exact iteration_kind ss cfg φ clock oracle fuel deadline k st r' (by rw [heq])
    · simp at h
    · exact ih _ _ r h

end Kolibrie.Hybrid
