import Kolibrie.Lemmas.SddSound
/-!
Helper lemmas for C07, part 3: the weighted model count of the model equals the truth-table sum.
-/
namespace Kolibrie.Sdd

/-! ### unfolding `wmcAll` (same shape as `evalAll`) -/

def wmcFrom (pw nw : List Rat) (acc : List Rat) (nodes : List Node) : List Rat :=
  nodes.foldl (fun acc nd => acc ++ [wmcNode pw nw acc nd]) acc

theorem wmcFrom_prefix (pw nw : List Rat) (ns : List Node) :
    ∀ acc, ∃ t, wmcFrom pw nw acc ns = acc ++ t ∧ t.length = ns.length := by
  induction ns with
  | nil => intro acc; exact ⟨[], by simp [wmcFrom]⟩
  | cons n ns ih =>
    intro acc
    obtain ⟨t, ht, hl⟩ := ih (acc ++ [wmcNode pw nw acc n])
    refine ⟨wmcNode pw nw acc n :: t, ?_, by simp [hl]⟩
    simp only [wmcFrom, List.foldl_cons] at ht ⊢
    rw [ht]; simp

theorem wmcAll_length (pw nw : List Rat) (ns : List Node) : (wmcAll pw nw ns).length = ns.length := by
  obtain ⟨t, ht, hl⟩ := wmcFrom_prefix pw nw ns []
  have : wmcAll pw nw ns = wmcFrom pw nw [] ns := rfl
  rw [this, ht]; simpa using hl

theorem wmcAll_append_getD (pw nw : List Rat) (a b : List Node) (i : Nat) (h : i < a.length) :
    (wmcAll pw nw (a ++ b)).getD i 0 = (wmcAll pw nw a).getD i 0 := by
  have e1 : wmcAll pw nw (a ++ b) = wmcFrom pw nw (wmcFrom pw nw [] a) b := by
    simp [wmcAll, wmcFrom, List.foldl_append]
  rw [e1]
  obtain ⟨t, ht, _⟩ := wmcFrom_prefix pw nw b (wmcFrom pw nw [] a)
  rw [ht]
  have : i < (wmcFrom pw nw [] a).length := by
    have := wmcAll_length pw nw a
    unfold wmcAll at this; unfold wmcFrom; rw [this]; exact h
  have e2 : wmcAll pw nw a = wmcFrom pw nw [] a := rfl
  simp [List.getD_eq_getElem?_getD, List.getElem?_append_left this, e2]

theorem wmcAll_snoc_getD_last (pw nw : List Rat) (a : List Node) (n : Node) :
    (wmcAll pw nw (a ++ [n])).getD a.length 0 = wmcNode pw nw (wmcAll pw nw a) n := by
  have e : wmcAll pw nw (a ++ [n]) = wmcAll pw nw a ++ [wmcNode pw nw (wmcAll pw nw a) n] := by
    simp [wmcAll, List.foldl_append]
  rw [e]
  have : (wmcAll pw nw a).length = a.length := wmcAll_length pw nw a
  simp [List.getD_eq_getElem?_getD, ← this]

theorem wmcAll_getD_node (pw nw : List Rat) (ns : List Node) (i : Nat) (nd : Node) (h : ns[i]? = some nd) :
    (wmcAll pw nw ns).getD i 0 = wmcNode pw nw (wmcAll pw nw (ns.take i)) nd := by
  have hi : i < ns.length := lt_of_getElem? h
  have hnd : ns[i] = nd := by
    rw [List.getElem?_eq_getElem hi] at h; exact Option.some.inj h
  have hsplit : ns = (ns.take i ++ [nd]) ++ ns.drop (i + 1) := by
    rw [← hnd]; simp
  have hl : (ns.take i).length = i := by simp; omega
  conv => lhs; rw [hsplit]
  rw [wmcAll_append_getD _ _ _ _ _ (by simp; omega)]
  have := wmcAll_snoc_getD_last pw nw (ns.take i) nd
  rw [hl] at this; exact this

theorem wmc_getD_take (pw nw : List Rat) (ns : List Node) (i j : Nat) (hj : j < i) (hi : i ≤ ns.length) :
    (wmcAll pw nw (ns.take i)).getD j 0 = (wmcAll pw nw ns).getD j 0 := by
  have : ns = ns.take i ++ ns.drop i := (List.take_append_drop i ns).symm
  conv => rhs; rw [this]
  rw [wmcAll_append_getD]
  simp; omega

theorem wmcW_ff {m : Mgr} (h : MInv m) (pw nw : List Rat) : wmcW m pw nw FALSE = 0 := by
  obtain ⟨rest, hr⟩ := h.hd
  unfold wmcW FALSE Kolibrie.Extracted.sddFalseId
  rw [wmcAll_getD_node pw nw m.nodes 0 .ff (by rw [hr]; rfl)]; rfl

theorem wmcW_tt {m : Mgr} (h : MInv m) (pw nw : List Rat) : wmcW m pw nw TRUE = 1 := by
  obtain ⟨rest, hr⟩ := h.hd
  unfold wmcW TRUE Kolibrie.Extracted.sddTrueId
  rw [wmcAll_getD_node pw nw m.nodes 1 .tt (by rw [hr]; rfl)]; rfl

theorem wmcW_lit {m : Mgr} {i v : Nat} {pol : Bool} (hn : m.nodes[i]? = some (Node.lit v pol)) (pw nw : List Rat) :
    wmcW m pw nw i = if pol then posOf pw v else negOf nw v := by
  unfold wmcW; rw [wmcAll_getD_node pw nw m.nodes i _ hn]; rfl

theorem wmcW_dec {m : Mgr} (h : MInv m) {i vt : Nat} {els : List Elem}
    (hn : m.nodes[i]? = some (Node.dec vt els)) (pw nw : List Rat) :
    wmcW m pw nw i = (els.map (fun e => wmcW m pw nw e.1 * wmcW m pw nw e.2)).sum := by
  have hi := lt_of_getElem? hn
  unfold wmcW; rw [wmcAll_getD_node pw nw m.nodes i _ hn]
  simp only [wmcNode]
  congr 1
  apply List.map_congr_left
  intro e he
  obtain ⟨h1, h2⟩ := h.closed i vt els hn e he
  rw [wmc_getD_take pw nw m.nodes i e.1 h1 (Nat.le_of_lt hi), wmc_getD_take pw nw m.nodes i e.2 h2 (Nat.le_of_lt hi)]

/-! ### facts about the truth-table sum -/

theorem upd_comm (σ : Asg) {a b : Nat} (hab : a ≠ b) (x y : Bool) :
    upd (upd σ a x) b y = upd (upd σ b y) a x := by
  funext u
  simp only [upd]
  by_cases h1 : u = b <;> by_cases h2 : u = a
  · exact absurd (h2.symm.trans h1) hab
  · simp [h1, h2]; intro h; exact absurd h.symm hab
  · simp [h1, h2]; intro h; exact absurd h hab
  · simp [h1, h2]

theorem upd_idem (σ : Asg) (a : Nat) (x y : Bool) : upd (upd σ a x) a y = upd σ a y := by
  funext u; simp only [upd]; by_cases h : u = a <;> simp [h]

theorem ttWmc_congr (pw nw : Nat → Rat) (vars : List Nat) {f g : Fn} (h : ∀ σ, f σ = g σ) :
    ∀ σ, ttWmc pw nw vars σ f = ttWmc pw nw vars σ g := by
  induction vars with
  | nil => intro σ; simp [ttWmc, h σ]
  | cons v vs ih => intro σ; simp [ttWmc, ih]

theorem ttWmc_perm (pw nw : Nat → Rat) (f : Fn) {l l' : List Nat} (hp : l.Perm l') :
    ∀ σ, ttWmc pw nw l σ f = ttWmc pw nw l' σ f := by
  induction hp with
  | nil => intro σ; rfl
  | cons x _ ih => intro σ; simp [ttWmc, ih]
  | swap a b l =>
    intro σ
    by_cases hab : a = b
    · subst hab; rfl
    · simp only [ttWmc]
      rw [upd_comm σ (Ne.symm hab) true true, upd_comm σ (Ne.symm hab) true false,
        upd_comm σ (Ne.symm hab) false true, upd_comm σ (Ne.symm hab) false false]
      grind
  | trans _ _ ih1 ih2 => intro σ; rw [ih1, ih2]

theorem ttWmc_false (pw nw : Nat → Rat) (vars : List Nat) {f : Fn} (h : ∀ σ, f σ = false) :
    ∀ σ, ttWmc pw nw vars σ f = 0 := by
  induction vars with
  | nil => intro σ; simp [ttWmc, h σ]
  | cons v vs ih => intro σ; simp only [ttWmc, ih]; grind

theorem ttWmc_true (pw nw : Nat → Rat) (vars : List Nat) {f : Fn} (h : ∀ σ, f σ = true)
    (hn : ∀ u ∈ vars, pw u + nw u = 1) : ∀ σ, ttWmc pw nw vars σ f = 1 := by
  induction vars with
  | nil => intro σ; simp [ttWmc, h σ]
  | cons v vs ih =>
    intro σ
    simp only [ttWmc]
    rw [ih (fun u hu => hn u (by simp [hu])), ih (fun u hu => hn u (by simp [hu]))]
    have := hn v (by simp)
    grind

/-- `f` does not look at variable `x` -/
def Indep (f : Fn) (x : Nat) : Prop := ∀ σ b, f (upd σ x b) = f σ

/-- `f` looks only at the variables in `vars` -/
def DepOn (f : Fn) (vars : List Nat) : Prop := ∀ σ σ', (∀ v ∈ vars, σ v = σ' v) → f σ = f σ'

/-- if `f` only looks at `vars`, the sum does not depend on the base assignment -/
theorem ttWmc_base (pw nw : Nat → Rat) (f : Fn) (vars : List Nat) (hd : DepOn f vars) (σ σ' : Asg) :
    ttWmc pw nw vars σ f = ttWmc pw nw vars σ' f := by
  suffices h : ∀ (vs : List Nat) (σ σ' : Asg), (∀ u ∈ vars, u ∉ vs → σ u = σ' u) →
      ttWmc pw nw vs σ f = ttWmc pw nw vs σ' f by
    exact h vars σ σ' (fun u hu hn => absurd hu hn)
  intro vs
  induction vs with
  | nil =>
    intro σ σ' h
    simp only [ttWmc]
    rw [hd σ σ' (fun v hv => h v hv (by simp))]
  | cons v vs ih =>
    intro σ σ' h
    simp only [ttWmc]
    have key : ∀ b, ttWmc pw nw vs (upd σ v b) f = ttWmc pw nw vs (upd σ' v b) f := by
      intro b
      apply ih
      intro u hu hn
      simp only [upd]
      by_cases huv : u = v
      · simp [huv]
      · simp only [huv, ↓reduceIte]; exact h u hu (by simp [huv, hn])
    rw [key true, key false]


/-- what `ordOk` says about a decision node -/
theorem ordOk_node {m : Mgr} (h : ordOk m = true) {i : Nat} (hi : i < m.nodes.length) : nodeOk m i (node m i) = true := by
  unfold ordOk at h
  rw [List.all_eq_true] at h
  exact h i (List.mem_range.2 hi)

theorem ordOk_dec {m : Mgr} (h : ordOk m = true) {i vt : Nat} {els : List Elem}
    (hn : m.nodes[i]? = some (Node.dec vt els)) :
    ∃ l r x, m.vnodes[vt]? = some (VNode.internal l r) ∧ l < vt ∧ m.vnodes[l]? = some (VNode.leaf x) ∧
      alookup x m.var2vt = some l ∧
      ∀ e ∈ els, primeOk m x e.1 = true ∧ subOk m l e.2 = true ∧ e.1 < i ∧ e.2 < i := by
  have hi := lt_of_getElem? hn
  have := ordOk_node h hi
  rw [node_of_getElem? hn] at this
  simp only [nodeOk] at this
  split at this
  · rename_i l r hv
    simp only [Bool.and_eq_true, decide_eq_true_eq] at this
    obtain ⟨hl, this⟩ := this
    split at this
    · rename_i x hx
      simp only [Bool.and_eq_true, decide_eq_true_eq, List.all_eq_true] at this
      exact ⟨l, r, x, hv, hl, hx, this.1, fun e he => by
        obtain ⟨⟨⟨a, b⟩, c⟩, d⟩ := this.2 e he; exact ⟨a, b, c, d⟩⟩
    · cases this
  · cases this

theorem ordOk_lit {m : Mgr} (h : ordOk m = true) {i v : Nat} {pol : Bool}
    (hn : m.nodes[i]? = some (Node.lit v pol)) :
    ∃ p, alookup v m.var2vt = some p ∧ m.vnodes[p]? = some (VNode.leaf v) := by
  have hi := lt_of_getElem? hn
  have := ordOk_node h hi
  rw [node_of_getElem? hn] at this
  simp only [nodeOk] at this
  split at this
  · rename_i p hp; exact ⟨p, hp, by simpa using this⟩
  · cases this

/-- position bound: a constant, or a node whose vtree position is below `k` -/
def PosB (m : Mgr) (k : Nat) (i : Id) : Prop :=
  node m i = .ff ∨ node m i = .tt ∨ ∃ p, vtreeOf m i = some p ∧ p < k

theorem subOk_posB {m : Mgr} {l : Nat} {s : Id} (h : subOk m l s = true) : PosB m l s := by
  unfold subOk at h
  unfold PosB
  cases hn : node m s with
  | ff => exact Or.inl rfl
  | tt => exact Or.inr (Or.inl rfl)
  | lit v pol =>
    rw [hn] at h; simp only at h
    split at h
    · rename_i k hk; exact Or.inr (Or.inr ⟨k, hk, by simpa using h⟩)
    · cases h
  | dec vt els =>
    rw [hn] at h; simp only at h
    split at h
    · rename_i k hk; exact Or.inr (Or.inr ⟨k, hk, by simpa using h⟩)
    · cases h

theorem den_of_ff {m : Mgr} {i : Nat} (hn : m.nodes[i]? = some Node.ff) (σ : Asg) : den m i σ = false := by
  unfold den; rw [evalAll_getD_node σ m.nodes i _ hn]; rfl
theorem den_of_tt {m : Mgr} {i : Nat} (hn : m.nodes[i]? = some Node.tt) (σ : Asg) : den m i σ = true := by
  unfold den; rw [evalAll_getD_node σ m.nodes i _ hn]; rfl
theorem wmcW_of_ff {m : Mgr} {i : Nat} (hn : m.nodes[i]? = some Node.ff) (pw nw : List Rat) : wmcW m pw nw i = 0 := by
  unfold wmcW; rw [wmcAll_getD_node pw nw m.nodes i _ hn]; rfl
theorem wmcW_of_tt {m : Mgr} {i : Nat} (hn : m.nodes[i]? = some Node.tt) (pw nw : List Rat) : wmcW m pw nw i = 1 := by
  unfold wmcW; rw [wmcAll_getD_node pw nw m.nodes i _ hn]; rfl

/-- a node positioned below `k` does not look at a variable whose leaf is at `k` or above (or unregistered) -/
theorem indep_below {m : Mgr} (hm : MInv m) (ho : ordOk m = true) :
    ∀ (i : Nat), i < m.nodes.length → ∀ k, PosB m k i →
    ∀ x, (∀ p, alookup x m.var2vt = some p → k ≤ p) → Indep (den m i) x := by
  intro i
  induction i using Nat.strongRecOn with
  | _ i ih =>
    intro hi k hpos x hx σ b
    have hget := getElem?_of_valid (m := m) hi
    cases hnode : node m i with
    | ff => rw [hnode] at hget; rw [den_of_ff hget, den_of_ff hget]
    | tt => rw [hnode] at hget; rw [den_of_tt hget, den_of_tt hget]
    | lit v pol =>
      rw [hnode] at hget
      rw [den_lit hget, den_lit hget]
      have hvx : v ≠ x := by
        intro hvx
        rcases hpos with h | h | ⟨p, hp, hpk⟩
        · rw [hnode] at h; cases h
        · rw [hnode] at h; cases h
        · unfold vtreeOf at hp; rw [hnode] at hp; simp only at hp
          rw [hvx] at hp
          have := hx p hp; omega
      simp [upd, hvx]
    | dec vt els =>
      rw [hnode] at hget
      obtain ⟨l, r, x', hv, hl, hlx, hx'l, hels⟩ := ordOk_dec ho hget
      have hvtk : vt < k := by
        rcases hpos with h | h | ⟨p, hp, hpk⟩
        · rw [hnode] at h; cases h
        · rw [hnode] at h; cases h
        · unfold vtreeOf at hp; rw [hnode] at hp; simp only at hp; cases hp; exact hpk
      rw [den_dec hm hget, den_dec hm hget]
      unfold anyD
      apply any_congr_mem
      intro e he
      obtain ⟨hp, hs, h1, h2⟩ := hels e he
      have e2 : den m e.2 (upd σ x b) = den m e.2 σ :=
        ih e.2 h2 (Nat.lt_trans h2 hi) l (subOk_posB hs) x (fun p hp => by have := hx p hp; omega) σ b
      have e1 : den m e.1 (upd σ x b) = den m e.1 σ := by
        unfold primeOk at hp
        simp only [Bool.or_eq_true, decide_eq_true_eq] at hp
        rcases hp with hp | hp
        · rw [hp, den_tt hm, den_tt hm]
        · have hg1 := getElem?_of_valid (m := m) (Nat.lt_trans h1 hi)
          cases hn1 : node m e.1 with
          | lit v pol =>
            rw [hn1] at hp hg1
            simp only [decide_eq_true_eq] at hp
            rw [den_lit hg1, den_lit hg1]
            have : v ≠ x := by
              intro hvx; rw [hp] at hvx; rw [hvx] at hx'l
              have := hx l hx'l; omega
            simp [upd, this]
          | ff => rw [hn1] at hp; cases hp
          | tt => rw [hn1] at hp; cases hp
          | dec _ _ => rw [hn1] at hp; cases hp
      rw [e1, e2]



theorem prime_den {m : Mgr} (hm : MInv m) {x : Nat} {p : Id} (hp : primeOk m x p = true) (hv : p < m.nodes.length) :
    (p = TRUE ∧ ∀ σ, den m p σ = true) ∨
    (∃ b, m.nodes[p]? = some (Node.lit x b) ∧ ∀ σ, den m p σ = (σ x == b)) := by
  unfold primeOk at hp
  simp only [Bool.or_eq_true, decide_eq_true_eq] at hp
  rcases hp with hp | hp
  · exact Or.inl ⟨hp, fun σ => by rw [hp, den_tt hm]⟩
  · have hg := getElem?_of_valid (m := m) hv
    cases hn : node m p with
    | lit v pol =>
      rw [hn] at hp hg
      simp only [decide_eq_true_eq] at hp
      subst hp
      exact Or.inr ⟨pol, hg, fun σ => den_lit hg σ⟩
    | ff => rw [hn] at hp; cases hp
    | tt => rw [hn] at hp; cases hp
    | dec _ _ => rw [hn] at hp; cases hp

theorem dec_shape {m : Mgr} (hm : MInv m) {x : Nat} {els : List Elem}
    (hpart : ∀ σ, cntP m σ els = 1)
    (hp : ∀ e ∈ els, primeOk m x e.1 = true ∧ e.1 < m.nodes.length) :
    (∃ s, els = [(TRUE, s)]) ∨
    (∃ p1 s1 p2 s2 b, els = [(p1, s1), (p2, s2)] ∧ m.nodes[p1]? = some (Node.lit x b) ∧
      m.nodes[p2]? = some (Node.lit x (!b))) := by
  have σ0 : Asg := fun _ => false
  match els, hpart, hp with
  | [], hpart, _ => have := hpart σ0; simp [cntP] at this
  | [(p, s)], hpart, hp =>
    have h1 := hp (p, s) (by simp)
    rcases prime_den hm h1.1 h1.2 with ⟨hT, _⟩ | ⟨b, hn, hd⟩
    · left; exact ⟨s, by simp at hT; rw [hT]⟩
    · have := hpart (upd σ0 x (!b))
      simp only [cntP, List.countP_cons, List.countP_nil, hd] at this
      cases b <;> simp [upd] at this
  | [(p1, s1), (p2, s2)], hpart, hp =>
    have h1 := hp (p1, s1) (by simp)
    have h2 := hp (p2, s2) (by simp)
    rcases prime_den hm h1.1 h1.2 with ⟨_, hd1⟩ | ⟨b1, hn1, hd1⟩
    · rcases prime_den hm h2.1 h2.2 with ⟨_, hd2⟩ | ⟨b2, hn2, hd2⟩
      · have := hpart σ0
        simp [cntP, hd1, hd2] at this
      · have := hpart (upd σ0 x b2)
        simp [cntP, hd1, hd2, upd] at this
    · rcases prime_den hm h2.1 h2.2 with ⟨_, hd2⟩ | ⟨b2, hn2, hd2⟩
      · have := hpart (upd σ0 x b1)
        simp [cntP, hd1, hd2, upd] at this
      · right
        by_cases hb : b2 = !b1
        · subst hb; exact ⟨p1, s1, p2, s2, b1, rfl, hn1, hn2⟩
        · have hb' : b2 = b1 := by cases b1 <;> cases b2 <;> simp_all
          subst hb'
          have := hpart (upd σ0 x b2)
          simp [cntP, hd1, hd2, upd] at this
  | e1 :: e2 :: e3 :: rest, hpart, hp =>
    exfalso
    have hT := hpart (upd σ0 x true)
    have hF := hpart (upd σ0 x false)
    simp only [cntP, List.countP_cons] at hT hF
    have key : ∀ e ∈ e1 :: e2 :: e3 :: rest,
        1 ≤ (if den m e.1 (upd σ0 x true) = true then 1 else 0) + (if den m e.1 (upd σ0 x false) = true then 1 else 0) := by
      intro e he
      have h := hp e he
      rcases prime_den hm h.1 h.2 with ⟨_, hd⟩ | ⟨b, _, hd⟩
      · simp [hd]
      · rw [hd, hd]; cases b <;> simp [upd]
    have k1 := key e1 (by simp)
    have k2 := key e2 (by simp)
    have k3 := key e3 (by simp)
    omega

theorem determined_congr {f g : Fn} (h : ∀ σ, f σ = g σ) {u : Nat} (hd : Determined f u) : Determined g u := by
  intro σ hh; exact hd σ (by rw [h, h]; exact hh)



/-- congruence of the truth-table sum for functions agreeing on every assignment that extends `σ` outside `vars` -/
theorem ttWmc_congr_out (pw nw : Nat → Rat) {f g : Fn} : ∀ (vars : List Nat) (σ : Asg),
    (∀ τ, (∀ u, u ∉ vars → τ u = σ u) → f τ = g τ) → ttWmc pw nw vars σ f = ttWmc pw nw vars σ g := by
  intro vars
  induction vars with
  | nil => intro σ h; simp only [ttWmc]; rw [h σ (fun _ _ => rfl)]
  | cons v vs ih =>
    intro σ h
    simp only [ttWmc]
    have key : ∀ b, ttWmc pw nw vs (upd σ v b) f = ttWmc pw nw vs (upd σ v b) g := by
      intro b
      apply ih
      intro τ hτ
      apply h
      intro u hu
      simp only [List.mem_cons, not_or] at hu
      rw [hτ u hu.2]; simp [upd, hu.1]
    rw [key true, key false]

theorem posB_mono {m : Mgr} {k k' : Nat} {i : Id} (hk : k ≤ k') (h : PosB m k i) : PosB m k' i := by
  rcases h with h | h | ⟨p, hp, hpk⟩
  · exact Or.inl h
  · exact Or.inr (Or.inl h)
  · exact Or.inr (Or.inr ⟨p, hp, by omega⟩)

theorem wmc_node_exact {m : Mgr} (hm : MInv m) (ho : ordOk m = true) (pwL nwL : List Rat) :
    ∀ (i : Nat), i < m.nodes.length → ∀ (k : Nat) (vars : List Nat), vars.Nodup →
    (∀ v p, alookup v m.var2vt = some p → p < k → v ∈ vars) → PosB m k i →
    (∀ u ∈ vars, posOf pwL u + negOf nwL u = 1 ∨ Determined (fun τ => den m i τ) u) →
    ∀ σ, wmcW m pwL nwL i = ttWmc (posOf pwL) (negOf nwL) vars σ (fun τ => den m i τ) := by
  intro i
  induction i using Nat.strongRecOn with
  | _ i ih =>
    intro hi k vars hnd hsup hpos hyp σ
    have hget := getElem?_of_valid (m := m) hi
    cases hnode : node m i with
    | ff =>
      rw [hnode] at hget
      rw [wmcW_of_ff hget, ttWmc_false _ _ _ (fun τ => den_of_ff hget τ)]
    | tt =>
      rw [hnode] at hget
      rw [wmcW_of_tt hget]
      refine (ttWmc_true _ _ _ (fun τ => den_of_tt hget τ) (fun u hu => ?_) σ).symm
      rcases hyp u hu with h | h
      · exact h
      · exact absurd ⟨den_of_tt hget _, den_of_tt hget _⟩ (h σ)
    | lit v pol =>
      rw [hnode] at hget
      obtain ⟨p, hp, _⟩ := ordOk_lit ho hget
      have hv : v ∈ vars := by
        rcases hpos with h | h | ⟨p', hp', hpk⟩
        · rw [hnode] at h; cases h
        · rw [hnode] at h; cases h
        · unfold vtreeOf at hp'; rw [hnode] at hp'; simp only at hp'
          rw [hp] at hp'; cases hp'
          exact hsup v p hp hpk
      rw [wmcW_lit hget, ttWmc_perm _ _ _ (List.perm_cons_erase hv) σ]
      simp only [ttWmc]
      have hnotin : v ∉ vars.erase v := fun h => (List.Nodup.mem_erase_iff hnd).1 h |>.1 rfl
      have hnorm : ∀ u ∈ vars.erase v, posOf pwL u + negOf nwL u = 1 := by
        intro u hu
        have hu' := List.mem_of_mem_erase hu
        have huv : u ≠ v := fun h => hnotin (h ▸ hu)
        rcases hyp u hu' with h | h
        · exact h
        · exfalso
          apply h (upd σ v pol)
          simp only [den_lit hget, upd, Ne.symm huv, ↓reduceIte]
          simp
      have hb : ∀ b, ttWmc (posOf pwL) (negOf nwL) (vars.erase v) (upd σ v b) (fun τ => den m i τ) =
          if b = pol then 1 else 0 := by
        intro b
        by_cases hbp : b = pol
        · rw [if_pos hbp]
          rw [ttWmc_congr_out _ _ (g := fun _ => true) _ _ (fun τ hτ => by
            simp only [den_lit hget]; rw [hτ v hnotin]; simp [upd, hbp])]
          exact ttWmc_true _ _ _ (fun _ => rfl) hnorm _
        · rw [if_neg hbp]
          rw [ttWmc_congr_out _ _ (g := fun _ => false) _ _ (fun τ hτ => by
            simp only [den_lit hget]; rw [hτ v hnotin]; simp [upd, hbp])]
          exact ttWmc_false _ _ _ (fun _ => rfl) _
      rw [hb true, hb false]
      cases pol <;> simp <;> grind
    | dec vt els =>
      rw [hnode] at hget
      obtain ⟨l, r, x, hv, hl, hlx, hxl, hels⟩ := ordOk_dec ho hget
      have hvtk : vt < k := by
        rcases hpos with h | h | ⟨p, hp, hpk⟩
        · rw [hnode] at h; cases h
        · rw [hnode] at h; cases h
        · unfold vtreeOf at hp; rw [hnode] at hp; simp only at hp; cases hp; exact hpk
      have hx : x ∈ vars := hsup x l hxl (by omega)
      have hden : ∀ τ, den m i τ = anyD m τ els := fun τ => den_dec hm hget τ
      rcases dec_shape hm (hm.part _ _ _ hget) (fun e he => ⟨(hels e he).1, Nat.lt_trans (hels e he).2.2.1 hi⟩)
        with ⟨s, hs⟩ | ⟨p1, s1, p2, s2, b, hs, hn1, hn2⟩
      · -- {(TRUE, s)}: the node means `s`
        subst hs
        obtain ⟨_, hsub, _, hslt⟩ := hels (TRUE, s) (by simp)
        have hsame : ∀ τ, den m i τ = den m s τ := fun τ => by
          rw [hden τ]; simp [anyD, den_tt hm]
        rw [wmcW_dec hm hget]
        simp only [List.map_cons, List.map_nil, List.sum_cons, List.sum_nil, wmcW_tt hm]
        rw [ih s hslt (Nat.lt_trans hslt hi) k vars hnd hsup (posB_mono (by omega) (subOk_posB hsub))
          (fun u hu => (hyp u hu).imp id (determined_congr hsame)) σ]
        rw [ttWmc_congr _ _ _ (f := fun τ => den m i τ) (g := fun τ => den m s τ) hsame σ]
        grind
      · -- {(x or ¬x, s1), (the complement, s2)}
        subst hs
        obtain ⟨_, hsub1, _, hs1lt⟩ := hels (p1, s1) (by simp)
        obtain ⟨_, hsub2, _, hs2lt⟩ := hels (p2, s2) (by simp)
        have hnotin : x ∉ vars.erase x := fun h => (List.Nodup.mem_erase_iff hnd).1 h |>.1 rfl
        have hnd' : (vars.erase x).Nodup := hnd.erase x
        have hsup' : ∀ v p, alookup v m.var2vt = some p → p < l → v ∈ vars.erase x := by
          intro v p hp hpl
          have hvx : v ≠ x := fun h => by rw [h, hxl] at hp; cases hp; omega
          exact (List.Nodup.mem_erase_iff hnd).2 ⟨hvx, hsup v p hp (by omega)⟩
        have hind1 : Indep (den m s1) x :=
          indep_below hm ho s1 (Nat.lt_trans hs1lt hi) l (subOk_posB hsub1) x (fun p hp => by rw [hxl] at hp; cases hp; omega)
        have hind2 : Indep (den m s2) x :=
          indep_below hm ho s2 (Nat.lt_trans hs2lt hi) l (subOk_posB hsub2) x (fun p hp => by rw [hxl] at hp; cases hp; omega)
        have hf : ∀ τ, den m i τ = ((τ x == b) && den m s1 τ || (τ x == !b) && den m s2 τ) := fun τ => by
          rw [hden τ]; simp [anyD, den_lit hn1, den_lit hn2]
        -- slices of the node at x = b and x = ¬b
        have hslice1 : ∀ τ, τ x = b → den m i τ = den m s1 τ := fun τ hτ => by rw [hf τ, hτ]; cases b <;> simp
        have hslice2 : ∀ τ, τ x = (!b) → den m i τ = den m s2 τ := fun τ hτ => by rw [hf τ, hτ]; cases b <;> simp
        have hdet : ∀ (s : Id) (c : Bool), Indep (den m s) x → (∀ τ, τ x = c → den m i τ = den m s τ) →
            ∀ u ∈ vars.erase x, posOf pwL u + negOf nwL u = 1 ∨ Determined (fun τ => den m s τ) u := by
          intro s c hind hsl u hu
          have hu' := List.mem_of_mem_erase hu
          have hux : u ≠ x := fun h => hnotin (h ▸ hu)
          rcases hyp u hu' with h | h
          · exact Or.inl h
          · right
            intro τ hh
            apply h (upd τ x c)
            have e1 : upd (upd τ x c) u true = upd (upd τ u true) x c := upd_comm τ (Ne.symm hux) c true
            have e2 : upd (upd τ x c) u false = upd (upd τ u false) x c := upd_comm τ (Ne.symm hux) c false
            simp only at hh ⊢
            rw [e1, e2, hsl _ (by simp [upd]), hsl _ (by simp [upd]), hind, hind]
            exact hh
        have ih1 := ih s1 hs1lt (Nat.lt_trans hs1lt hi) l (vars.erase x) hnd' hsup' (subOk_posB hsub1)
          (hdet s1 b hind1 hslice1)
        have ih2 := ih s2 hs2lt (Nat.lt_trans hs2lt hi) l (vars.erase x) hnd' hsup' (subOk_posB hsub2)
          (hdet s2 (!b) hind2 hslice2)
        have hsl : ∀ (c : Bool) (s : Id), (∀ τ, τ x = c → den m i τ = den m s τ) →
            ttWmc (posOf pwL) (negOf nwL) (vars.erase x) (upd σ x c) (fun τ => den m i τ) =
              ttWmc (posOf pwL) (negOf nwL) (vars.erase x) (upd σ x c) (fun τ => den m s τ) := by
          intro c s hsl
          apply ttWmc_congr_out
          intro τ hτ
          exact hsl τ (by rw [hτ x hnotin]; simp [upd])
        rw [wmcW_dec hm hget, ttWmc_perm _ _ _ (List.perm_cons_erase hx) σ]
        simp only [List.map_cons, List.map_nil, List.sum_cons, List.sum_nil, ttWmc, wmcW_lit hn1, wmcW_lit hn2]
        cases b with
        | true =>
          rw [hsl true s1 hslice1, hsl false s2 hslice2, ← ih1, ← ih2]
          simp; grind
        | false =>
          rw [hsl true s2 hslice2, hsl false s1 hslice1, ← ih1, ← ih2]
          simp; grind



theorem posB_top {m : Mgr} (ho : ordOk m = true) {i : Nat} (hi : i < m.nodes.length) :
    PosB m m.vnodes.length i := by
  have hget := getElem?_of_valid (m := m) hi
  cases hnode : node m i with
  | ff => exact Or.inl hnode
  | tt => exact Or.inr (Or.inl hnode)
  | lit v pol =>
    rw [hnode] at hget
    obtain ⟨p, hp, hl⟩ := ordOk_lit ho hget
    exact Or.inr (Or.inr ⟨p, by unfold vtreeOf; rw [hnode]; exact hp, lt_of_getElem? hl⟩)
  | dec vt els =>
    rw [hnode] at hget
    obtain ⟨l, r, x, hv, _⟩ := ordOk_dec ho hget
    exact Or.inr (Or.inr ⟨vt, by unfold vtreeOf; rw [hnode], lt_of_getElem? hv⟩)

theorem posOf_setW (l : List Rat) (v : Nat) (x : Rat) (hv : v < l.length) : posOf (setW l v x) = fupd (posOf l) v x := by
  funext u
  unfold posOf setW fupd
  by_cases h : u = v
  · subst h; simp [List.getD_eq_getElem?_getD, hv]
  · simp [List.getD_eq_getElem?_getD, h, Ne.symm h]

theorem negOf_setW (l : List Rat) (v : Nat) (x : Rat) (hv : v < l.length) : negOf (setW l v x) = fupd (negOf l) v x := by
  funext u
  unfold negOf setW fupd
  by_cases h : u = v
  · subst h; simp [List.getD_eq_getElem?_getD, hv]
  · simp [List.getD_eq_getElem?_getD, h, Ne.symm h]

/-- the sum only reads the weights of the listed variables -/
theorem ttWmc_weights_congr {pw nw pw' nw' : Nat → Rat} (f : Fn) : ∀ (vars : List Nat),
    (∀ u ∈ vars, pw u = pw' u ∧ nw u = nw' u) → ∀ σ, ttWmc pw nw vars σ f = ttWmc pw' nw' vars σ f := by
  intro vars
  induction vars with
  | nil => intro _ σ; rfl
  | cons v vs ih =>
    intro h σ
    simp only [ttWmc]
    rw [ih (fun u hu => h u (by simp [hu])), ih (fun u hu => h u (by simp [hu])), (h v (by simp)).1, (h v (by simp)).2]

/-- the sum is linear in the weight pair of one variable -/
theorem ttWmc_linear {pw nw pw1 nw1 pw2 nw2 : Nat → Rat} (f : Fn) (v : Nat)
    (hout : ∀ u, u ≠ v → pw u = pw1 u ∧ nw u = nw1 u ∧ pw u = pw2 u ∧ nw u = nw2 u)
    (hp : pw v = pw1 v - pw2 v) (hn : nw v = nw1 v - nw2 v) : ∀ (vars : List Nat), vars.Nodup → v ∈ vars →
    ∀ σ, ttWmc pw nw vars σ f = ttWmc pw1 nw1 vars σ f - ttWmc pw2 nw2 vars σ f := by
  intro vars
  induction vars with
  | nil => intro _ h; simp at h
  | cons u us ih =>
    intro hnd hv σ
    simp only [ttWmc]
    rw [List.nodup_cons] at hnd
    by_cases huv : u = v
    · subst huv
      have c1 : ∀ τ, ttWmc pw nw us τ f = ttWmc pw1 nw1 us τ f :=
        ttWmc_weights_congr f us (fun w hw => by
          have : w ≠ u := fun h => hnd.1 (h ▸ hw)
          exact ⟨(hout w this).1, (hout w this).2.1⟩)
      have c2 : ∀ τ, ttWmc pw2 nw2 us τ f = ttWmc pw1 nw1 us τ f := fun τ => by
        rw [← c1 τ]
        exact (ttWmc_weights_congr f us (fun w hw => by
          have : w ≠ u := fun h => hnd.1 (h ▸ hw)
          exact ⟨(hout w this).2.2.1, (hout w this).2.2.2⟩) τ).symm
      rw [c1, c1, c2, c2, hp, hn]
      grind
    · have hv' : v ∈ us := by
        simp only [List.mem_cons] at hv
        rcases hv with h | h
        · exact absurd h.symm huv
        · exact h
      rw [ih hnd.2 hv', ih hnd.2 hv', ← (hout u huv).1, ← (hout u huv).2.1, ← (hout u huv).2.2.1, ← (hout u huv).2.2.2]
      grind


end Kolibrie.Sdd
