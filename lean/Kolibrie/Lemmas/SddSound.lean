import Kolibrie.Lemmas.Sdd
/-!
Helper lemmas for C07, part 2: symbolic execution rules and the soundness of every operation of the model
with respect to the semantic invariant `MInv`.
-/
namespace Kolibrie.Sdd

def Ext (m m' : Mgr) : Prop := MInv m' ∧ Pre m m'

theorem Ext.refl {m : Mgr} (h : MInv m) : Ext m m := ⟨h, Pre.refl m⟩
theorem Ext.trans {a b c : Mgr} (h1 : Ext a b) (h2 : Ext b c) : Ext a c := ⟨h2.1, h1.2.trans h2.2⟩

/-- outcome predicate: whatever happens the manager is an invariant-respecting extension of `m0`; on success
the result satisfies `R` in the final manager -/
def Post {α} (m0 : Mgr) (R : α → Mgr → Prop) : Except Err α × St → Prop
  | (.ok a, s') => Ext m0 s'.m ∧ R a s'.m
  | (.error _, s') => Ext m0 s'.m

theorem bind_def {α β} (x : M α) (f : α → M β) (s : St) :
    (x >>= f) s = match x s with
      | (.ok a, s') => f a s'
      | (.error e, s') => (.error e, s') := rfl

theorem pure_def {α} (a : α) (s : St) : (pure a : M α) s = (.ok a, s) := rfl

theorem Post.bind {α β} {m0 : Mgr} {x : M α} {f : α → M β} {s : St} {R : α → Mgr → Prop}
    {Q : β → Mgr → Prop} (hx : Post m0 R (x s))
    (hf : ∀ a s1, Ext m0 s1.m → R a s1.m → Post m0 Q (f a s1)) : Post m0 Q ((x >>= f) s) := by
  rw [bind_def]
  rcases hxs : x s with ⟨r, s1⟩
  rw [hxs] at hx
  cases r with
  | error e => exact hx
  | ok a => exact hf a s1 hx.1 hx.2

theorem Post.mono {α} {m0 : Mgr} {R R' : α → Mgr → Prop} {out : Except Err α × St}
    (h : Post m0 R out) (hr : ∀ a m, Ext m0 m → R a m → R' a m) : Post m0 R' out := by
  rcases out with ⟨r, s⟩
  cases r with
  | error e => exact h
  | ok a => exact ⟨h.1, hr a s.m h.1 h.2⟩

theorem Post.trans {α} {m0 m1 : Mgr} {R : α → Mgr → Prop} {out : Except Err α × St}
    (he : Ext m0 m1) (h : Post m1 R out) : Post m0 (fun a m => Pre m1 m ∧ R a m) out := by
  rcases out with ⟨r, s⟩
  cases r with
  | error e => exact he.trans h
  | ok a => exact ⟨he.trans h.1, h.1.2, h.2⟩

theorem Post.ret {α} {m0 : Mgr} {R : α → Mgr → Prop} {a : α} {s : St} (he : Ext m0 s.m) (hr : R a s.m) :
    Post m0 R ((pure a : M α) s) := ⟨he, hr⟩

theorem Post.fail {α} {m0 : Mgr} {R : α → Mgr → Prop} {e : Err} {s : St} (he : Ext m0 s.m) :
    Post m0 R ((failM e : M α) s) := he

/-- `checkpoint` leaves the manager alone -/
theorem Post.bind_checkpoint {β} {m0 : Mgr} {b : Budget} {k : Unit → M β} {s : St} {Q : β → Mgr → Prop}
    (he : Ext m0 s.m) (hk : ∀ s', s'.m = s.m → Post m0 Q (k () s')) : Post m0 Q ((checkpoint b >>= k) s) := by
  rw [bind_def]
  unfold Kolibrie.Sdd.checkpoint
  split
  · rename_i a s' heq
    split at heq
    · cases heq; exact hk _ rfl
    · cases heq
  · rename_i e s' heq
    split at heq
    · cases heq
    · cases heq; exact he

theorem Post.bind_getM {β} {m0 : Mgr} {k : Mgr → M β} {s : St} {Q : β → Mgr → Prop}
    (hk : Post m0 Q (k s.m s)) : Post m0 Q ((getM >>= k) s) := hk

theorem Post.bind_ofOption {α β} {m0 : Mgr} {o : Option α} {k : α → M β} {s : St} {Q : β → Mgr → Prop}
    (he : Ext m0 s.m) (hk : ∀ a, o = some a → Post m0 Q (k a s)) : Post m0 Q ((ofOption o >>= k) s) := by
  cases o with
  | none => exact he
  | some a => exact hk a rfl

theorem Post.bind_modifyM {β} {m0 : Mgr} {f : Mgr → Mgr} {k : Unit → M β} {s : St} {Q : β → Mgr → Prop}
    (hk : Post m0 Q (k () { s with m := f s.m })) : Post m0 Q ((modifyM f >>= k) s) := hk

theorem beforeAllocation_post {m0 : Mgr} {b : Budget} {s : St} (he : Ext m0 s.m) :
    Post m0 (fun (_ : Unit) m => m = s.m) (beforeAllocation b s) := by
  unfold beforeAllocation
  refine Post.bind_checkpoint he (fun s' hs' => ?_)
  refine Post.bind_getM ?_
  have he' : Ext m0 s'.m := by rw [hs']; exact he
  cases b.maxNodes with
  | none => exact ⟨he', hs'⟩
  | some n =>
    simp only
    split
    · exact he'
    · exact ⟨he', hs'⟩

/-- `before_allocation` leaves the manager alone -/
theorem Post.bind_beforeAllocation {β} {m0 : Mgr} {b : Budget} {k : Unit → M β} {s : St} {Q : β → Mgr → Prop}
    (he : Ext m0 s.m) (hk : ∀ s', s'.m = s.m → Post m0 Q (k () s')) :
    Post m0 Q ((beforeAllocation b >>= k) s) :=
  Post.bind (beforeAllocation_post he) (fun _ s1 _ h => hk s1 h)

/-! ### the three kinds of mutation -/

def pushed (m : Mgr) (nd : Node) : Mgr :=
  { m with nodes := m.nodes ++ [nd], unique := (nd, m.nodes.length) :: m.unique }

theorem pushNode_eq (nd : Node) (s : St) :
    pushNode nd s = (.ok s.m.nodes.length, { s with m := pushed s.m nd }) := rfl

theorem pre_pushed (m : Mgr) (nd : Node) : Pre m (pushed m nd) :=
  ⟨⟨[nd], rfl⟩, rfl, rfl, rfl, rfl, rfl, rfl⟩

theorem alookup_cons {α β} [DecidableEq α] (k k' : α) (v : β) (l : List (α × β)) :
    alookup k ((k', v) :: l) = if k = k' then some v else alookup k l := rfl

theorem ValidEls_of_closed {m : Mgr} (h : MInv m) {i vt : Nat} {els : List Elem}
    (hn : m.nodes[i]? = some (Node.dec vt els)) : ValidEls m els := by
  intro e he
  have hi := lt_of_getElem? hn
  obtain ⟨h1, h2⟩ := h.closed i vt els hn e he
  exact ⟨Nat.lt_trans h1 hi, Nat.lt_trans h2 hi⟩

/-- transporting the invariant along an extension of the arena by one node -/
theorem push_inv {m : Mgr} (h : MInv m) (nd : Node)
    (hnd : (∃ v pol, nd = Node.lit v pol) ∨
      (∃ vt els, nd = Node.dec vt els ∧ ValidEls m els ∧ ∀ σ, cntP m σ els = 1)) :
    MInv (pushed m nd) := by
  have hp := pre_pushed m nd
  have hlen : (pushed m nd).nodes.length = m.nodes.length + 1 := by simp [pushed]
  have hget : ∀ i nd', (pushed m nd).nodes[i]? = some nd' →
      (i < m.nodes.length ∧ m.nodes[i]? = some nd') ∨ (i = m.nodes.length ∧ nd' = nd) := by
    intro i nd' hi
    have hlt := lt_of_getElem? hi
    rw [hlen] at hlt
    rcases Nat.lt_or_ge i m.nodes.length with hl | hl
    · left; refine ⟨hl, ?_⟩
      simp only [pushed] at hi
      rwa [List.getElem?_append_left hl] at hi
    · right
      have : i = m.nodes.length := by omega
      subst this
      simp [pushed] at hi
      exact ⟨rfl, hi.symm⟩
  refine ⟨?_, ?_, ?_, ?_, ?_, ?_⟩
  · obtain ⟨rest, hr⟩ := h.hd
    exact ⟨rest ++ [nd], by simp [pushed, hr]⟩
  · intro i vt els hi e he
    rcases hget i _ hi with ⟨_, hold⟩ | ⟨hieq, hnew⟩
    · exact h.closed i vt els hold e he
    · rcases hnd with ⟨v, pol, hl⟩ | ⟨vt', els', hd, hv, _⟩
      · rw [hl] at hnew; cases hnew
      · rw [hd] at hnew; cases hnew
        rw [hieq]; exact hv e he
  · intro i vt els hi σ
    rcases hget i _ hi with ⟨_, hold⟩ | ⟨hieq, hnew⟩
    · rw [cntP_pre hp (ValidEls_of_closed h hold)]; exact h.part i vt els hold σ
    · rcases hnd with ⟨v, pol, hl⟩ | ⟨vt', els', hd, hv, hc⟩
      · rw [hl] at hnew; cases hnew
      · rw [hd] at hnew; cases hnew
        rw [cntP_pre hp hv]; exact hc σ
  · intro k id hk
    simp only [pushed, alookup_cons] at hk
    split at hk
    · cases hk; rename_i heq; subst heq; simp [pushed]
    · exact hp.getElem? (h.uniq k id hk)
  · intro a c op r hk
    obtain ⟨ha, hc, hr, hd⟩ := h.acache a c op r hk
    refine ⟨hp.valid ha, hp.valid hc, hp.valid hr, fun σ => ?_⟩
    rw [den_pre hp hr, hd σ]
    cases op <;> simp [Fn.op, Fn.and, Fn.or, den_pre hp ha, den_pre hp hc]
  · intro a r hk
    obtain ⟨ha, hr, hd⟩ := h.ncache a r hk
    exact ⟨hp.valid ha, hp.valid hr, fun σ => by rw [den_pre hp hr, den_pre hp ha, hd σ]⟩

theorem acache_inv {m : Mgr} (h : MInv m) {a c r : Id} {op : Op} (ha : valid m a) (hc : valid m c)
    (hr : valid m r) (hd : ∀ σ, den m r σ = Fn.op op (den m a) (den m c) σ) :
    MInv { m with applyCache := ((a, c, op), r) :: m.applyCache } := by
  refine ⟨h.hd, h.closed, h.part, h.uniq, ?_, h.ncache⟩
  intro a' c' op' r' hk
  simp only [alookup_cons] at hk
  split at hk
  · rename_i heq; cases heq; cases hk; exact ⟨ha, hc, hr, hd⟩
  · exact h.acache a' c' op' r' hk

theorem ncache_inv {m : Mgr} (h : MInv m) {a r : Id} (ha : valid m a)
    (hr : valid m r) (hd : ∀ σ, den m r σ = !den m a σ) :
    MInv { m with negCache := (a, r) :: m.negCache } := by
  refine ⟨h.hd, h.closed, h.part, h.uniq, h.acache, ?_⟩
  intro a' r' hk
  simp only [alookup_cons] at hk
  split at hk
  · rename_i heq; cases heq; cases hk; exact ⟨ha, hr, hd⟩
  · exact h.ncache a' r' hk

/-! ### operations -/

theorem sem_lit_of_getElem? {m : Mgr} {i v : Nat} {pol : Bool} (hn : m.nodes[i]? = some (Node.lit v pol)) :
    Sem m i (Fn.lit v pol) := ⟨lt_of_getElem? hn, fun σ => den_lit hn σ⟩

theorem literal_post (b : Budget) (v : Nat) (pol : Bool) (s : St) (h : MInv s.m) :
    Post s.m (fun id m1 => Sem m1 id (Fn.lit v pol)) (literal b v pol s) := by
  unfold literal
  refine Post.bind_checkpoint (Ext.refl h) (fun s1 hs1 => ?_)
  refine Post.bind_getM ?_
  have h1 : MInv s1.m := hs1 ▸ h
  have he1 : Ext s.m s1.m := by rw [hs1]; exact Ext.refl h
  cases hl : alookup (Node.lit v pol) s1.m.unique with
  | some id => exact Post.ret he1 (sem_lit_of_getElem? (h1.uniq _ _ hl))
  | none =>
    dsimp only
    refine Post.bind_beforeAllocation he1 (fun s2 hs2 => ?_)
    rw [pushNode_eq]
    have h2 : MInv s2.m := hs2 ▸ h1
    have hpi := push_inv h2 (Node.lit v pol) (Or.inl ⟨v, pol, rfl⟩)
    refine ⟨?_, ?_⟩
    · exact (hs2 ▸ he1 : Ext s.m s2.m).trans ⟨hpi, pre_pushed _ _⟩
    · exact sem_lit_of_getElem? (by simp [pushed])


/-- the element list is valid, its primes form a partition, and it denotes `f` -/
def ElsSem (m : Mgr) (els : List Elem) (f : Fn) : Prop :=
  ValidEls m els ∧ (∀ σ, cntP m σ els = 1) ∧ ∀ σ, anyD m σ els = f σ

theorem ElsSem.mono {m m' : Mgr} (h : Pre m m') {els : List Elem} {f : Fn} (hs : ElsSem m els f) :
    ElsSem m' els f :=
  ⟨hs.1.mono h, fun σ => by rw [cntP_pre h hs.1]; exact hs.2.1 σ, fun σ => by rw [anyD_pre h hs.1]; exact hs.2.2 σ⟩

theorem ElsSem.perm {m : Mgr} {els els' : List Elem} {f : Fn} (hp : els'.Perm els) (hs : ElsSem m els f) :
    ElsSem m els' f := by
  refine ⟨fun e he => hs.1 e (hp.mem_iff.1 he), fun σ => ?_, fun σ => ?_⟩
  · unfold cntP; rw [hp.countP_eq]; exact hs.2.1 σ
  · unfold anyD; rw [hp.any_eq]; exact hs.2.2 σ

theorem ElsSem.filter {m : Mgr} (h : MInv m) {els : List Elem} {f : Fn} (hs : ElsSem m els f) :
    ElsSem m (els.filter (fun e => e.1 ≠ FALSE)) f := by
  refine ⟨fun e he => hs.1 e (List.mem_filter.1 he).1, fun σ => ?_, fun σ => ?_⟩
  · rw [← hs.2.1 σ]; unfold cntP; rw [List.countP_filter]
    apply List.countP_congr
    intro e _
    by_cases he : e.1 = FALSE
    · simp [he, den_ff h]
    · simp [he]
  · rw [← hs.2.2 σ]; unfold anyD; rw [List.any_filter]
    apply any_congr_mem
    intro e _
    by_cases he : e.1 = FALSE
    · simp [he, den_ff h]
    · simp [he]

theorem trim_sound {m : Mgr} (h : MInv m) {els : List Elem} {f : Fn} (hs : ElsSem m els f) {x : Id}
    (ht : trim els = some x) : Sem m x f := by
  obtain ⟨hv, hc, ha⟩ := hs
  match els, ht with
  | [], _ => have := hc (fun _ => false); simp [cntP] at this
  | [(p, s)], ht =>
    simp only [trim] at ht
    split at ht
    · rename_i hp; cases ht
      refine ⟨(hv (p, x) (by simp)).2, fun σ => ?_⟩
      rw [← ha σ]; simp [anyD, hp, den_tt h]
    · cases ht
  | [(p1, s1), (p2, s2)], ht =>
    simp only [trim] at ht
    split at ht
    · rename_i hc1; cases ht
      refine ⟨(hv (x, s1) (by simp)).1, fun σ => ?_⟩
      rw [← ha σ]; simp [anyD, hc1.1, hc1.2, den_tt h, den_ff h]
    · split at ht
      · rename_i hc2; cases ht
        refine ⟨(hv (x, s2) (by simp)).1, fun σ => ?_⟩
        rw [← ha σ]; simp [anyD, hc2.1, hc2.2, den_tt h, den_ff h]
      · cases ht
  | _ :: _ :: _ :: _, ht => simp [trim] at ht

theorem internDecision_post (b : Budget) (vt : Nat) (els : List Elem) (s : St) (h : MInv s.m) (f : Fn)
    (hs : ElsSem s.m els f) : Post s.m (fun id m1 => Sem m1 id f) (internDecision b vt els s) := by
  unfold internDecision
  have hs' : ElsSem s.m (sortElems els) f := hs.perm (List.mergeSort_perm _ _)
  refine Post.bind_getM ?_
  cases hl : alookup (Node.dec vt (sortElems els)) s.m.unique with
  | some id =>
    have hn := h.uniq _ _ hl
    exact Post.ret (Ext.refl h) ⟨lt_of_getElem? hn, fun σ => by rw [den_dec h hn, hs'.2.2 σ]⟩
  | none =>
    dsimp only
    refine Post.bind_beforeAllocation (Ext.refl h) (fun s2 hs2 => ?_)
    rw [pushNode_eq]
    have h2 : MInv s2.m := hs2 ▸ h
    have hs2' : ElsSem s2.m (sortElems els) f := hs2 ▸ hs'
    have hpi := push_inv h2 (Node.dec vt (sortElems els)) (Or.inr ⟨vt, _, rfl, hs2'.1, hs2'.2.1⟩)
    have hpre := pre_pushed s2.m (Node.dec vt (sortElems els))
    refine ⟨?_, ?_⟩
    · have : Ext s.m s2.m := by rw [hs2]; exact Ext.refl h
      exact this.trans ⟨hpi, hpre⟩
    · have hn : (pushed s2.m (Node.dec vt (sortElems els))).nodes[s2.m.nodes.length]? =
          some (Node.dec vt (sortElems els)) := by simp [pushed]
      exact ⟨lt_of_getElem? hn, fun σ => by rw [den_dec hpi hn, anyD_pre hpre hs2'.1, hs2'.2.2 σ]⟩

theorem makeDecisionRaw_post (b : Budget) (vt : Nat) (els : List Elem) (s : St) (h : MInv s.m) (f : Fn)
    (hs : ElsSem s.m els f) : Post s.m (fun id m1 => Sem m1 id f) (makeDecisionRaw b vt els s) := by
  unfold makeDecisionRaw
  refine Post.bind_checkpoint (Ext.refl h) (fun s1 hs1 => ?_)
  have h1 : MInv s1.m := hs1 ▸ h
  have he1 : Ext s.m s1.m := by rw [hs1]; exact Ext.refl h
  have hf : ElsSem s1.m (els.filter (fun e => e.1 ≠ FALSE)) f := (hs1 ▸ hs : ElsSem s1.m els f).filter h1
  cases ht : trim (els.filter (fun e => e.1 ≠ FALSE)) with
  | some r => exact Post.ret he1 (trim_sound h1 hf ht)
  | none => exact (Post.trans he1 (internDecision_post b vt _ s1 h1 f hf)).mono (fun _ _ _ h => h.2)



theorem Fn.op_apply (op : Op) (f g : Fn) (σ : Asg) :
    Fn.op op f g σ = (match op with | .and => f σ && g σ | .or => f σ || g σ) := by
  cases op <;> rfl

/-- soundness of the two recursive entry points -/
structure RecSound (r : Rec) : Prop where
  apply : ∀ a c op s, MInv s.m → ∀ fa fc, Sem s.m a fa → Sem s.m c fc →
    Post s.m (fun id m1 => Sem m1 id (Fn.op op fa fc)) (r.apply a c op s)
  negate : ∀ a s, MInv s.m → ∀ f, Sem s.m a f → Post s.m (fun id m1 => Sem m1 id (Fn.not f)) (r.negate a s)

/-! groups of `compress` -/
def gCnt (m : Mgr) (σ : Asg) (gs : List (Id × List Id)) : Nat :=
  (gs.map (fun g => g.2.countP (fun p => den m p σ))).sum
def gAny (m : Mgr) (σ : Asg) (gs : List (Id × List Id)) : Bool :=
  gs.any (fun g => g.2.any (fun p => den m p σ) && den m g.1 σ)
def ValidG (m : Mgr) (gs : List (Id × List Id)) : Prop :=
  ∀ g ∈ gs, valid m g.1 ∧ ∀ p ∈ g.2, valid m p

theorem ValidG.mono {m m' : Mgr} (h : Pre m m') {gs} (hv : ValidG m gs) : ValidG m' gs :=
  fun g hg => ⟨h.valid (hv g hg).1, fun p hp => h.valid ((hv g hg).2 p hp)⟩

theorem gCnt_pre {m m' : Mgr} (h : Pre m m') {gs} (hv : ValidG m gs) (σ : Asg) : gCnt m' σ gs = gCnt m σ gs := by
  unfold gCnt
  congr 1
  apply List.map_congr_left
  intro g hg
  apply List.countP_congr
  intro p hp
  rw [den_pre h ((hv g hg).2 p hp)]

theorem gAny_pre {m m' : Mgr} (h : Pre m m') {gs} (hv : ValidG m gs) (σ : Asg) : gAny m' σ gs = gAny m σ gs := by
  unfold gAny
  apply any_congr_mem
  intro g hg
  rw [den_pre h (hv g hg).1]
  congr 1
  apply any_congr_mem
  intro p hp
  rw [den_pre h ((hv g hg).2 p hp)]

theorem groupAdd_valid {m : Mgr} {sub prime : Id} (hs : valid m sub) (hp : valid m prime) :
    ∀ gs, ValidG m gs → ValidG m (groupAdd sub prime gs) := by
  intro gs
  induction gs with
  | nil =>
    intro _ g hg
    simp [groupAdd] at hg; subst hg
    exact ⟨hs, fun p hp' => by simp at hp'; subst hp'; exact hp⟩
  | cons g gs ih =>
    intro hv
    obtain ⟨s0, ps⟩ := g
    simp only [groupAdd]
    split
    · intro g hg
      simp only [List.mem_cons] at hg
      rcases hg with rfl | hg
      · refine ⟨(hv (s0, ps) (by simp)).1, fun p hp' => ?_⟩
        simp only [List.mem_append, List.mem_singleton] at hp'
        rcases hp' with hp' | rfl
        · exact (hv (s0, ps) (by simp)).2 p hp'
        · exact hp
      · exact hv g (by simp [hg])
    · intro g hg
      simp only [List.mem_cons] at hg
      rcases hg with rfl | hg
      · exact hv _ (by simp)
      · exact ih (fun g hg => hv g (by simp [hg])) g hg

theorem groupAdd_cnt (m : Mgr) (σ : Asg) (sub prime : Id) :
    ∀ gs, gCnt m σ (groupAdd sub prime gs) = gCnt m σ gs + (if den m prime σ then 1 else 0) := by
  intro gs
  induction gs with
  | nil => simp [groupAdd, gCnt, List.countP_cons]
  | cons g gs ih =>
    obtain ⟨s0, ps⟩ := g
    simp only [groupAdd]
    split
    · simp only [gCnt, List.map_cons, List.sum_cons, List.countP_append, List.countP_cons, List.countP_nil]
      omega
    · simp only [gCnt, List.map_cons, List.sum_cons] at ih ⊢
      rw [ih]; omega

theorem groupAdd_any (m : Mgr) (σ : Asg) (sub prime : Id) :
    ∀ gs, gAny m σ (groupAdd sub prime gs) = (gAny m σ gs || (den m prime σ && den m sub σ)) := by
  intro gs
  induction gs with
  | nil => simp [groupAdd, gAny]
  | cons g gs ih =>
    obtain ⟨s0, ps⟩ := g
    simp only [groupAdd]
    split
    · rename_i heq; subst heq
      simp only [gAny, List.any_cons, List.any_append, List.any_nil, Bool.or_false]
      cases ps.any (fun p => den m p σ) <;> cases den m prime σ <;> cases den m s0 σ <;> simp
    · simp only [gAny, List.any_cons] at ih ⊢
      rw [ih]; simp [Bool.or_assoc]

theorem groupBySub_spec (m : Mgr) (els : List Elem) (hv : ValidEls m els) :
    ValidG m (groupBySub els) ∧ ∀ σ, gCnt m σ (groupBySub els) = cntP m σ els ∧
      gAny m σ (groupBySub els) = anyD m σ els := by
  unfold groupBySub
  suffices h : ∀ acc, ValidG m acc →
      ValidG m (els.foldl (fun acc e => groupAdd e.2 e.1 acc) acc) ∧
      ∀ σ, gCnt m σ (els.foldl (fun acc e => groupAdd e.2 e.1 acc) acc) = gCnt m σ acc + cntP m σ els ∧
        gAny m σ (els.foldl (fun acc e => groupAdd e.2 e.1 acc) acc) = (gAny m σ acc || anyD m σ els) by
    obtain ⟨h1, h2⟩ := h [] (fun g hg => by simp at hg)
    refine ⟨h1, fun σ => ?_⟩
    have := h2 σ
    simpa [gCnt, gAny] using this
  induction els with
  | nil => intro acc ha; exact ⟨ha, fun σ => by simp [cntP, anyD]⟩
  | cons e es ih =>
    intro acc ha
    simp only [List.foldl_cons]
    have hve := hv e (by simp)
    obtain ⟨h1, h2⟩ := ih (fun x hx => hv x (by simp [hx])) (groupAdd e.2 e.1 acc)
      (groupAdd_valid hve.2 hve.1 acc ha)
    refine ⟨h1, fun σ => ?_⟩
    obtain ⟨h3, h4⟩ := h2 σ
    rw [h3, h4, groupAdd_cnt, groupAdd_any]
    simp only [cntP, anyD, List.countP_cons, List.any_cons]
    refine ⟨by omega, ?_⟩
    simp [Bool.or_assoc]



theorem orAll_post (r : Rec) (hr : RecSound r) : ∀ (ps : List Id) (acc : Id) (s : St), MInv s.m →
    ∀ facc, Sem s.m acc facc → (∀ p ∈ ps, valid s.m p) →
    Post s.m (fun id m1 => Sem m1 id (fun σ => facc σ || ps.any (fun p => den s.m p σ))) (orAll r acc ps s) := by
  intro ps
  induction ps with
  | nil =>
    intro acc s h facc hacc _
    exact Post.ret (Ext.refl h) (by simpa using hacc)
  | cons p ps ih =>
    intro acc s h facc hacc hv
    unfold orAll
    have hp : Sem s.m p (fun σ => den s.m p σ) := ⟨hv p (by simp), fun _ => rfl⟩
    refine Post.bind (hr.apply acc p .or s h facc _ hacc hp) (fun acc' s1 he1 hacc' => ?_)
    have hv1 : ∀ q ∈ ps, valid s1.m q := fun q hq => he1.2.valid (hv q (by simp [hq]))
    refine Post.mono (Post.trans he1 (ih acc' s1 he1.1 _ hacc' hv1)) (fun id m2 _ hid => ?_)
    refine ⟨hid.2.1, fun σ => ?_⟩
    rw [hid.2.2 σ]
    simp only [Fn.op, Fn.or, List.any_cons, Bool.or_assoc]
    congr 2
    apply any_congr_mem
    intro q hq
    rw [den_pre he1.2 (hv q (by simp [hq]))]

theorem ite_any_eq_countP {α} {l : List α} {p : α → Bool} (h : l.countP p ≤ 1) :
    (if l.any p then 1 else 0) = l.countP p := by
  induction l with
  | nil => simp
  | cons x xs ih =>
    rw [List.countP_cons] at h ⊢
    rw [List.any_cons]
    by_cases hp : p x = true
    · rw [if_pos hp] at h ⊢
      have h0 : List.countP p xs = 0 := by omega
      rw [h0, hp]; simp
    · have hp' : p x = false := by simpa using hp
      rw [if_neg hp] at h ⊢
      rw [hp', Bool.false_or, ih (by omega)]; simp

theorem mergeGroups_post (r : Rec) (hr : RecSound r) : ∀ (gs : List (Id × List Id)) (s : St), MInv s.m →
    ValidG s.m gs →
    Post s.m (fun els' m1 => ValidEls m1 els' ∧ ∀ σ, (gCnt s.m σ gs ≤ 1 → cntP m1 σ els' = gCnt s.m σ gs) ∧
      anyD m1 σ els' = gAny s.m σ gs) (mergeGroups r gs s) := by
  intro gs
  induction gs with
  | nil =>
    intro s h _
    exact Post.ret (Ext.refl h) ⟨fun e he => by simp at he, fun σ => by simp [cntP, anyD, gCnt, gAny]⟩
  | cons g gs ih =>
    intro s h hv
    obtain ⟨sub, primes⟩ := g
    unfold mergeGroups
    have hvg := hv (sub, primes) (by simp)
    cases primes with
    | nil => exact Post.fail (Ext.refl h)
    | cons p ps =>
      dsimp only
      have hp : Sem s.m p (fun σ => den s.m p σ) := ⟨hvg.2 p (by simp), fun _ => rfl⟩
      refine Post.bind (orAll_post r hr ps p s h _ hp (fun q hq => hvg.2 q (by simp [hq])))
        (fun merged s1 he1 hm => ?_)
      have hvgs : ValidG s.m gs := fun g hg => hv g (by simp [hg])
      have hv1 : ValidG s1.m gs := ValidG.mono he1.2 hvgs
      refine Post.bind (Post.trans he1 (ih s1 he1.1 hv1)) (fun tl s2 he2 htl => ?_)
      obtain ⟨hp12, htlv, htl⟩ := htl
      have hm2 : Sem s2.m merged _ := hm.mono hp12
      refine Post.ret he2 ⟨?_, fun σ => ?_⟩
      · intro e he
        simp only [List.mem_cons] at he
        rcases he with rfl | he
        · exact ⟨hm2.1, he2.2.valid hvg.1⟩
        · exact htlv e he
      · obtain ⟨h1, h2⟩ := htl σ
        rw [gCnt_pre he1.2 hvgs] at h1
        rw [gAny_pre he1.2 hvgs] at h2
        have hd : den s2.m merged σ = (p :: ps).any (fun q => den s.m q σ) := by
          rw [hm2.2 σ]; simp
        constructor
        · intro hle
          simp only [gCnt, List.map_cons, List.sum_cons] at hle ⊢
          simp only [cntP, List.countP_cons]
          rw [hd]
          have := ite_any_eq_countP (l := p :: ps) (p := fun q => den s.m q σ) (by omega)
          simp only [List.countP_cons] at this
          simp only [gCnt, cntP] at h1
          rw [h1 (by omega)]
          omega
        · simp only [anyD, List.any_cons, gAny] at h2 ⊢
          rw [h2, hd, den_pre he2.2 hvg.1]
          simp [List.any_cons]

theorem compress_post (b : Budget) (r : Rec) (hr : RecSound r) (els : List Elem) (s : St) (h : MInv s.m)
    (f : Fn) (hs : ElsSem s.m els f) :
    Post s.m (fun els' m1 => ElsSem m1 els' f) (compress b r els s) := by
  unfold compress
  refine Post.bind_checkpoint (Ext.refl h) (fun s1 hs1 => ?_)
  have h1 : MInv s1.m := hs1 ▸ h
  have he1 : Ext s.m s1.m := by rw [hs1]; exact Ext.refl h
  have hs1' : ElsSem s1.m els f := hs1 ▸ hs
  split
  · exact Post.ret he1 hs1'
  · obtain ⟨hg1, hg2⟩ := groupBySub_spec s1.m els hs1'.1
    refine Post.mono (Post.trans he1 (mergeGroups_post r hr _ s1 h1 hg1)) (fun els' m2 _ hp => ?_)
    obtain ⟨_, hv, hq⟩ := hp
    refine ⟨hv, fun σ => ?_, fun σ => ?_⟩
    · have := (hq σ).1
      rw [(hg2 σ).1, hs1'.2.1 σ] at this
      exact this (Nat.le_refl 1)
    · rw [(hq σ).2, (hg2 σ).2, hs1'.2.2 σ]

theorem uniqueD_post (b : Budget) (r : Rec) (hr : RecSound r) (vt : Nat) (els : List Elem) (s : St)
    (h : MInv s.m) (f : Fn) (hs : ElsSem s.m els f) :
    Post s.m (fun id m1 => Sem m1 id f) (uniqueD b r vt els s) := by
  unfold uniqueD
  refine Post.bind_checkpoint (Ext.refl h) (fun s1 hs1 => ?_)
  have h1 : MInv s1.m := hs1 ▸ h
  have he1 : Ext s.m s1.m := by rw [hs1]; exact Ext.refl h
  have hf : ElsSem s1.m (els.filter (fun e => e.1 ≠ FALSE)) f := (hs1 ▸ hs : ElsSem s1.m els f).filter h1
  cases ht : trim (els.filter (fun e => e.1 ≠ FALSE)) with
  | some x => exact Post.ret he1 (trim_sound h1 hf ht)
  | none =>
    dsimp only
    refine Post.bind (Post.trans he1 (compress_post b r hr _ s1 h1 f hf)) (fun els2 s2 he2 hc => ?_)
    cases ht2 : trim els2 with
    | some x => exact Post.ret he2 (trim_sound he2.1 hc.2 ht2)
    | none =>
      exact (Post.trans he2 (internDecision_post b vt _ s2 he2.1 f hc.2)).mono (fun _ _ _ h => h.2)



theorem expandOther_post (r : Rec) (hr : RecSound r) (id : Id) (vt : Nat) (s : St) (h : MInv s.m) (f : Fn)
    (hs : Sem s.m id f) (m : Mgr) :
    Post s.m (fun els m1 => ElsSem m1 els f) (expandOther r m id vt s) := by
  unfold expandOther
  refine Post.bind_ofOption (Ext.refl h) (fun left _ => ?_)
  refine Post.bind_ofOption (Ext.refl h) (fun nv _ => ?_)
  split
  · refine Post.bind (hr.negate id s h f hs) (fun neg s1 he1 hn => ?_)
    have hs1 := hs.mono he1.2
    have ht := sem_tt he1.1
    have hf := sem_ff he1.1
    refine Post.ret he1 ⟨?_, fun σ => ?_, fun σ => ?_⟩
    · intro e he
      simp only [List.mem_cons, List.not_mem_nil, or_false] at he
      rcases he with rfl | rfl
      · exact ⟨hs1.1, ht.1⟩
      · exact ⟨hn.1, hf.1⟩
    · simp only [cntP, List.countP_cons, List.countP_nil, hs1.2 σ, hn.2 σ, Fn.not]
      cases f σ <;> simp
    · simp only [anyD, List.any_cons, List.any_nil, hs1.2 σ, hn.2 σ, ht.2 σ, hf.2 σ, Fn.true, Fn.false]
      simp
  · have ht := sem_tt h
    refine Post.ret (Ext.refl h) ⟨?_, fun σ => ?_, fun σ => ?_⟩
    · intro e he
      simp only [List.mem_cons, List.not_mem_nil, or_false] at he
      subst he
      exact ⟨ht.1, hs.1⟩
    · simp [cntP, ht.2 σ, Fn.true]
    · simp [anyD, ht.2 σ, hs.2 σ, Fn.true]

theorem expand_post (b : Budget) (r : Rec) (hr : RecSound r) (id : Id) (vt : Nat) (s : St) (h : MInv s.m)
    (f : Fn) (hs : Sem s.m id f) :
    Post s.m (fun els m1 => ElsSem m1 els f) (expand b r id vt s) := by
  unfold expand
  refine Post.bind_checkpoint (Ext.refl h) (fun s1 hs1 => ?_)
  have h1 : MInv s1.m := hs1 ▸ h
  have he1 : Ext s.m s1.m := by rw [hs1]; exact Ext.refl h
  have hs' : Sem s1.m id f := hs1 ▸ hs
  have ht := sem_tt h1
  have hf := sem_ff h1
  split
  · rename_i hid; subst hid
    refine Post.ret he1 ⟨?_, fun σ => ?_, fun σ => ?_⟩
    · intro e he
      simp only [List.mem_cons, List.not_mem_nil, or_false] at he
      subst he; exact ⟨ht.1, ht.1⟩
    · simp [cntP, ht.2 σ, Fn.true]
    · rw [← hs'.2 σ]; simp [anyD, ht.2 σ, Fn.true]
  · split
    · rename_i _ hid; subst hid
      refine Post.ret he1 ⟨?_, fun σ => ?_, fun σ => ?_⟩
      · intro e he
        simp only [List.mem_cons, List.not_mem_nil, or_false] at he
        subst he; exact ⟨ht.1, hf.1⟩
      · simp [cntP, ht.2 σ, Fn.true]
      · rw [← hs'.2 σ]; simp [anyD, hf.2 σ, Fn.false]
    · refine Post.bind_getM ?_
      have hoth := (Post.trans he1 (expandOther_post r hr id vt s1 h1 f hs' s1.m)).mono (fun _ _ _ h => h.2)
      have hget := getElem?_of_valid hs'.1
      cases hnode : node s1.m id with
      | dec dv els =>
        dsimp only
        split
        · rw [hnode] at hget
          exact Post.ret he1 ⟨ValidEls_of_closed h1 hget, h1.part _ _ _ hget,
            fun σ => by rw [← den_dec h1 hget, hs'.2 σ]⟩
        · exact hoth
      | ff => exact hoth
      | tt => exact hoth
      | lit v pol => exact hoth

theorem crossInner_post (b : Budget) (r : Rec) (hr : RecSound r) (op : Op) (pa sa : Id) :
    ∀ (bes : List Elem) (s : St), MInv s.m → ∀ fpa fsa, Sem s.m pa fpa → Sem s.m sa fsa → ValidEls s.m bes →
    Post s.m (fun hd m1 => ValidEls m1 hd ∧ ∀ σ,
      cntP m1 σ hd = (if fpa σ then cntP s.m σ bes else 0) ∧
      anyD m1 σ hd = (fpa σ && bes.any (fun e => den s.m e.1 σ && Fn.op op fsa (fun σ => den s.m e.2 σ) σ)))
      (crossInner b r op pa sa bes s) := by
  intro bes
  induction bes with
  | nil =>
    intro s h fpa fsa _ _ _
    exact Post.ret (Ext.refl h) ⟨fun e he => by simp at he, fun σ => by simp [cntP, anyD]⟩
  | cons e rest ih =>
    intro s h fpa fsa hpa hsa hv
    obtain ⟨pb, sb⟩ := e
    unfold crossInner
    refine Post.bind_checkpoint (Ext.refl h) (fun s1 hs1 => ?_)
    have h1 : MInv s1.m := hs1 ▸ h
    have he1 : Ext s.m s1.m := by rw [hs1]; exact Ext.refl h
    have hvb := hv (pb, sb) (by simp)
    have hvr : ValidEls s.m rest := fun e he => hv e (by simp [he])
    have hpb : Sem s1.m pb (fun σ => den s.m pb σ) := by rw [hs1]; exact ⟨hvb.1, fun _ => rfl⟩
    have hsb : Sem s.m sb (fun σ => den s.m sb σ) := ⟨hvb.2, fun _ => rfl⟩
    refine Post.bind (Post.trans he1 (hr.apply pa pb .and s1 h1 fpa _ (hs1 ▸ hpa) hpb))
      (fun prime s2 he2 hprime => ?_)
    obtain ⟨_, hprime⟩ := hprime
    split
    · -- prime = FALSE: the element is skipped
      rename_i hpf
      refine Post.mono (Post.trans he2 (ih s2 he2.1 fpa fsa (hpa.mono he2.2) (hsa.mono he2.2) (hvr.mono he2.2)))
        (fun hd m3 _ hp => ?_)
      obtain ⟨_, hvd, hq⟩ := hp
      refine ⟨hvd, fun σ => ?_⟩
      obtain ⟨q1, q2⟩ := hq σ
      have hz : (fpa σ && den s.m pb σ) = false := by
        have := hprime.2 σ
        rw [hpf, den_ff he2.1] at this
        simpa [Fn.op, Fn.and] using this.symm
      rw [q1, q2, cntP_pre he2.2 hvr]
      constructor
      · simp only [cntP, List.countP_cons]
        cases hfa : fpa σ
        · simp
        · rw [hfa] at hz; simp at hz; simp [hz]
      · simp only [List.any_cons]
        have : (rest.any fun e => den s2.m e.1 σ && Fn.op op fsa (fun σ => den s2.m e.2 σ) σ) =
            (rest.any fun e => den s.m e.1 σ && Fn.op op fsa (fun σ => den s.m e.2 σ) σ) := by
          apply any_congr_mem
          intro e he
          rw [den_pre he2.2 (hvr e he).1]
          simp only [Fn.op_apply, den_pre he2.2 (hvr e he).2]
        rw [this]
        cases hfa : fpa σ
        · simp
        · rw [hfa] at hz; simp at hz; simp [hz]
    · refine Post.bind (Post.trans he2 (hr.apply sa sb op s2 he2.1 fsa _ (hsa.mono he2.2) (hsb.mono he2.2)))
        (fun sub s3 he3 hsub => ?_)
      obtain ⟨hp23, hsub⟩ := hsub
      refine Post.bind (Post.trans he3 (ih s3 he3.1 fpa fsa (hpa.mono he3.2) (hsa.mono he3.2) (hvr.mono he3.2)))
        (fun tl s4 he4 htl => ?_)
      obtain ⟨hp34, hvd, hq⟩ := htl
      have hprime4 := (hprime.mono hp23).mono hp34
      have hsub4 := hsub.mono hp34
      refine Post.ret he4 ⟨?_, fun σ => ?_⟩
      · intro e he
        simp only [List.mem_cons] at he
        rcases he with rfl | he
        · exact ⟨hprime4.1, hsub4.1⟩
        · exact hvd e he
      · obtain ⟨q1, q2⟩ := hq σ
        simp only [cntP, anyD, List.countP_cons, List.any_cons] at q1 q2 ⊢
        rw [q1, q2, hprime4.2 σ, hsub4.2 σ]
        have hc : List.countP (fun e => den s3.m e.1 σ) rest = List.countP (fun e => den s.m e.1 σ) rest :=
          cntP_pre he3.2 hvr σ
        have : (rest.any fun e => den s3.m e.1 σ && Fn.op op fsa (fun σ => den s3.m e.2 σ) σ) =
            (rest.any fun e => den s.m e.1 σ && Fn.op op fsa (fun σ => den s.m e.2 σ) σ) := by
          apply any_congr_mem
          intro e he
          rw [den_pre he3.2 (hvr e he).1]
          simp only [Fn.op_apply, den_pre he3.2 (hvr e he).2]
        rw [this, hc]
        simp only [Fn.op, Fn.and]
        constructor
        · by_cases hfa : fpa σ = true <;> by_cases hpbσ : den s.m pb σ = true <;> simp [hfa, hpbσ]
        · by_cases hfa : fpa σ = true <;> by_cases hpbσ : den s.m pb σ = true <;> simp [hfa, hpbσ]



theorem elsSem_pair {m : Mgr} (h : MInv m) {id neg : Id} {f : Fn} (hs : Sem m id f) (hn : Sem m neg (Fn.not f)) :
    ElsSem m [(id, TRUE), (neg, FALSE)] f := by
  have ht := sem_tt h
  have hf := sem_ff h
  refine ⟨?_, fun σ => ?_, fun σ => ?_⟩
  · intro e he
    simp only [List.mem_cons, List.not_mem_nil, or_false] at he
    rcases he with rfl | rfl
    · exact ⟨hs.1, ht.1⟩
    · exact ⟨hn.1, hf.1⟩
  · simp only [cntP, List.countP_cons, List.countP_nil, hs.2 σ, hn.2 σ, Fn.not]
    cases f σ <;> simp
  · simp only [anyD, List.any_cons, List.any_nil, hs.2 σ, hn.2 σ, ht.2 σ, hf.2 σ, Fn.true, Fn.false]
    simp

theorem elsSem_single {m : Mgr} (h : MInv m) {id : Id} {f : Fn} (hs : Sem m id f) :
    ElsSem m [(TRUE, id)] f := by
  have ht := sem_tt h
  refine ⟨?_, fun σ => ?_, fun σ => ?_⟩
  · intro e he
    simp only [List.mem_cons, List.not_mem_nil, or_false] at he
    subst he
    exact ⟨ht.1, hs.1⟩
  · simp [cntP, ht.2 σ, Fn.true]
  · simp [anyD, ht.2 σ, hs.2 σ, Fn.true]

theorem crossOuter_post (b : Budget) (r : Rec) (hr : RecSound r) (op : Op) (bes : List Elem) :
    ∀ (aes : List Elem) (s : St), MInv s.m → ValidEls s.m aes → ValidEls s.m bes →
    Post s.m (fun res m1 => ValidEls m1 res ∧ ∀ σ,
      cntP m1 σ res = cntP s.m σ aes * cntP s.m σ bes ∧
      anyD m1 σ res = aes.any (fun a => den s.m a.1 σ &&
        bes.any (fun e => den s.m e.1 σ && Fn.op op (fun σ => den s.m a.2 σ) (fun σ => den s.m e.2 σ) σ)))
      (crossOuter b r op bes aes s) := by
  intro aes
  induction aes with
  | nil =>
    intro s h _ _
    exact Post.ret (Ext.refl h) ⟨fun e he => by simp at he, fun σ => by simp [cntP, anyD]⟩
  | cons a rest ih =>
    intro s h hva hvb
    obtain ⟨pa, sa⟩ := a
    unfold crossOuter
    have hvpa := hva (pa, sa) (by simp)
    have hvr : ValidEls s.m rest := fun e he => hva e (by simp [he])
    refine Post.bind (crossInner_post b r hr op pa sa bes s h (fun σ => den s.m pa σ) (fun σ => den s.m sa σ)
      ⟨hvpa.1, fun _ => rfl⟩ ⟨hvpa.2, fun _ => rfl⟩ hvb) (fun hd s1 he1 hhd => ?_)
    obtain ⟨hvhd, hqhd⟩ := hhd
    refine Post.bind (Post.trans he1 (ih s1 he1.1 (hvr.mono he1.2) (hvb.mono he1.2))) (fun tl s2 he2 htl => ?_)
    obtain ⟨hp12, hvtl, hqtl⟩ := htl
    refine Post.ret he2 ⟨?_, fun σ => ?_⟩
    · intro e he
      simp only [List.mem_append] at he
      rcases he with he | he
      · exact hvhd.mono hp12 e he
      · exact hvtl e he
    · obtain ⟨a1, a2⟩ := hqhd σ
      obtain ⟨b1, b2⟩ := hqtl σ
      have c1 : cntP s2.m σ hd = cntP s1.m σ hd := cntP_pre hp12 hvhd σ
      have c2 : anyD s2.m σ hd = anyD s1.m σ hd := anyD_pre hp12 hvhd σ
      rw [cntP_pre he1.2 hvr, cntP_pre he1.2 hvb] at b1
      have b2' : anyD s2.m σ tl = rest.any (fun a => den s.m a.1 σ &&
          bes.any (fun e => den s.m e.1 σ && Fn.op op (fun σ => den s.m a.2 σ) (fun σ => den s.m e.2 σ) σ)) := by
        rw [b2]
        apply any_congr_mem
        intro a ha
        rw [den_pre he1.2 (hvr a ha).1]
        congr 1
        apply any_congr_mem
        intro e he
        rw [den_pre he1.2 (hvb e he).1]
        simp only [Fn.op_apply, den_pre he1.2 (hvr a ha).2, den_pre he1.2 (hvb e he).2]
      constructor
      · have : cntP s2.m σ (hd ++ tl) = cntP s2.m σ hd + cntP s2.m σ tl := by simp [cntP, List.countP_append]
        rw [this, c1, a1, b1]
        simp only [cntP, List.countP_cons]
        by_cases hpa : den s.m pa σ = true
        · simp [hpa, Nat.add_mul, Nat.add_comm]
        · simp [hpa]
      · have : anyD s2.m σ (hd ++ tl) = (anyD s2.m σ hd || anyD s2.m σ tl) := by simp [anyD, List.any_append]
        rw [this, c2, a2, b2']
        simp [List.any_cons]

theorem applySame_post (b : Budget) (r : Rec) (hr : RecSound r) (a c : Id) (op : Op) (vt : Nat) (s : St)
    (h : MInv s.m) (fa fc : Fn) (ha : Sem s.m a fa) (hc : Sem s.m c fc) :
    Post s.m (fun id m1 => Sem m1 id (Fn.op op fa fc)) (applySame b r a c op vt s) := by
  unfold applySame
  refine Post.bind (expand_post b r hr a vt s h fa ha) (fun aes s1 he1 haes => ?_)
  refine Post.bind (Post.trans he1 (expand_post b r hr c vt s1 he1.1 fc (hc.mono he1.2))) (fun bes s2 he2 hbes => ?_)
  obtain ⟨hp12, hbes⟩ := hbes
  have haes2 := haes.mono hp12
  refine Post.bind (Post.trans he2 (crossOuter_post b r hr op bes aes s2 he2.1 haes2.1 hbes.1))
    (fun res s3 he3 hres => ?_)
  obtain ⟨hp23, hvres, hq⟩ := hres
  have hsem : ElsSem s3.m res (Fn.op op fa fc) := by
    refine ⟨hvres, fun σ => ?_, fun σ => ?_⟩
    · rw [(hq σ).1, haes2.2.1 σ, hbes.2.1 σ]
    · rw [(hq σ).2]
      have ea := haes2.2.2 σ
      have eb := hbes.2.2 σ
      simp only [anyD] at ea eb
      cases op with
      | and =>
        simp only [Fn.op_apply]
        have := cross_and (la := aes) (lb := bes) (pa := fun (a : Elem) => den s2.m a.1 σ)
          (sa := fun (a : Elem) => den s2.m a.2 σ)
          (pb := fun (e : Elem) => den s2.m e.1 σ) (sb := fun (e : Elem) => den s2.m e.2 σ)
        rw [ea, eb] at this
        exact this
      | or =>
        simp only [Fn.op_apply]
        have := cross_or (la := aes) (lb := bes) (pa := fun (a : Elem) => den s2.m a.1 σ)
          (sa := fun (a : Elem) => den s2.m a.2 σ)
          (pb := fun (e : Elem) => den s2.m e.1 σ) (sb := fun (e : Elem) => den s2.m e.2 σ)
          (haes2.2.1 σ) (hbes.2.1 σ)
        rw [ea, eb] at this
        exact this
  exact (Post.trans he3 (uniqueD_post b r hr vt res s3 he3.1 _ hsem)).mono (fun _ _ _ h => h.2)

theorem normalizeTo_post (b : Budget) (r : Rec) (hr : RecSound r) (id : Id) (target : Nat) (s : St)
    (h : MInv s.m) (f : Fn) (hs : Sem s.m id f) :
    Post s.m (fun x m1 => Sem m1 x f) (normalizeTo b r id target s) := by
  unfold normalizeTo
  refine Post.bind_checkpoint (Ext.refl h) (fun s1 hs1 => ?_)
  have h1 : MInv s1.m := hs1 ▸ h
  have he1 : Ext s.m s1.m := by rw [hs1]; exact Ext.refl h
  have hs' : Sem s1.m id f := hs1 ▸ hs
  split
  · exact Post.ret he1 hs'
  · refine Post.bind_getM ?_
    cases hv : vtreeOf s1.m id with
    | none => exact Post.ret he1 hs'
    | some cur =>
      dsimp only
      split
      · exact Post.ret he1 hs'
      · refine Post.bind_ofOption he1 (fun left _ => ?_)
        refine Post.bind_ofOption he1 (fun right _ => ?_)
        split
        · refine Post.bind (Post.trans he1 (hr.negate id s1 h1 f hs')) (fun neg s2 he2 hn => ?_)
          have := elsSem_pair he2.1 (hs'.mono hn.1) hn.2
          exact (Post.trans he2 (makeDecisionRaw_post b target _ s2 he2.1 f this)).mono (fun _ _ _ h => h.2)
        · split
          · exact (Post.trans he1 (uniqueD_post b r hr target _ s1 h1 f (elsSem_single h1 hs'))).mono
              (fun _ _ _ h => h.2)
          · exact Post.ret he1 hs'

theorem applyNormalized_post (b : Budget) (r : Rec) (hr : RecSound r) (a c : Id) (op : Op) (vt : Nat) (s : St)
    (h : MInv s.m) (fa fc : Fn) (ha : Sem s.m a fa) (hc : Sem s.m c fc) :
    Post s.m (fun id m1 => Sem m1 id (Fn.op op fa fc)) (applyNormalized b r a c op vt s) := by
  unfold applyNormalized
  refine Post.bind (normalizeTo_post b r hr a vt s h fa ha) (fun an s1 he1 han => ?_)
  refine Post.bind (Post.trans he1 (normalizeTo_post b r hr c vt s1 he1.1 fc (hc.mono he1.2))) (fun cn s2 he2 hcn => ?_)
  exact (Post.trans he2 (applySame_post b r hr an cn op vt s2 he2.1 fa fc (han.mono hcn.1) hcn.2)).mono
    (fun _ _ _ h => h.2)

theorem applyInner_post (b : Budget) (r : Rec) (hr : RecSound r) (a c : Id) (op : Op) (s : St)
    (h : MInv s.m) (fa fc : Fn) (ha : Sem s.m a fa) (hc : Sem s.m c fc) :
    Post s.m (fun id m1 => Sem m1 id (Fn.op op fa fc)) (applyInner b r a c op s) := by
  unfold applyInner
  refine Post.bind_checkpoint (Ext.refl h) (fun s1 hs1 => ?_)
  have h1 : MInv s1.m := hs1 ▸ h
  have he1 : Ext s.m s1.m := by rw [hs1]; exact Ext.refl h
  have ha' : Sem s1.m a fa := hs1 ▸ ha
  have hc' : Sem s1.m c fc := hs1 ▸ hc
  refine Post.bind_getM ?_
  have hN := fun vt => (Post.trans he1 (applyNormalized_post b r hr a c op vt s1 h1 fa fc ha' hc')).mono
    (fun _ _ _ h => h.2)
  cases vtreeOf s1.m a with
  | none =>
    cases vtreeOf s1.m c with
    | none => exact Post.fail he1
    | some v => exact hN v
  | some va =>
    cases vtreeOf s1.m c with
    | none => exact hN va
    | some vc =>
      dsimp only
      split
      · exact (Post.trans he1 (applySame_post b r hr a c op va s1 h1 fa fc ha' hc')).mono (fun _ _ _ h => h.2)
      · split
        · exact hN vc
        · split
          · exact hN va
          · exact Post.bind_ofOption he1 (fun lca _ => hN lca)



theorem applyTerminal_sound {m : Mgr} (h : MInv m) {a c x : Id} {op : Op} {fa fc : Fn}
    (ha : Sem m a fa) (hc : Sem m c fc) (ht : applyTerminal a c op = some x) : Sem m x (Fn.op op fa fc) := by
  have htt := sem_tt h
  have hff := sem_ff h
  have eqT : ∀ {i : Id} {f : Fn}, Sem m i f → i = TRUE → ∀ σ, f σ = true :=
    fun hs hi σ => by rw [← hs.2 σ, hi, den_tt h]
  have eqF : ∀ {i : Id} {f : Fn}, Sem m i f → i = FALSE → ∀ σ, f σ = false :=
    fun hs hi σ => by rw [← hs.2 σ, hi, den_ff h]
  cases op with
  | and =>
    simp only [applyTerminal] at ht
    split at ht
    · rename_i hz; cases ht
      refine ⟨hff.1, fun σ => ?_⟩
      rw [hff.2 σ]; simp only [Fn.op, Fn.and, Fn.false]
      rcases hz with hz | hz
      · rw [eqF ha hz σ]; rfl
      · rw [eqF hc hz σ]; simp
    · split at ht
      · rename_i hz; cases ht
        exact ⟨hc.1, fun σ => by rw [hc.2 σ]; simp [Fn.op, Fn.and, eqT ha hz σ]⟩
      · split at ht
        · rename_i hz; cases ht
          exact ⟨ha.1, fun σ => by rw [ha.2 σ]; simp [Fn.op, Fn.and, eqT hc hz σ]⟩
        · split at ht
          · rename_i hz; cases ht
            refine ⟨ha.1, fun σ => ?_⟩
            have : fc σ = fa σ := by rw [← hc.2 σ, ← ha.2 σ, hz]
            rw [ha.2 σ]; simp [Fn.op, Fn.and, this]
          · cases ht
  | or =>
    simp only [applyTerminal] at ht
    split at ht
    · rename_i hz; cases ht
      refine ⟨htt.1, fun σ => ?_⟩
      rw [htt.2 σ]; simp only [Fn.op, Fn.or, Fn.true]
      rcases hz with hz | hz
      · rw [eqT ha hz σ]; rfl
      · rw [eqT hc hz σ]; simp
    · split at ht
      · rename_i hz; cases ht
        exact ⟨hc.1, fun σ => by rw [hc.2 σ]; simp [Fn.op, Fn.or, eqF ha hz σ]⟩
      · split at ht
        · rename_i hz; cases ht
          exact ⟨ha.1, fun σ => by rw [ha.2 σ]; simp [Fn.op, Fn.or, eqF hc hz σ]⟩
        · split at ht
          · rename_i hz; cases ht
            refine ⟨ha.1, fun σ => ?_⟩
            have : fc σ = fa σ := by rw [← hc.2 σ, ← ha.2 σ, hz]
            rw [ha.2 σ]; simp [Fn.op, Fn.or, this]
          · cases ht

theorem complementary_sound {m : Mgr} (_h : MInv m) {a c : Id} {fa fc : Fn}
    (ha : Sem m a fa) (hc : Sem m c fc) (hcomp : complementary m a c = true) : ∀ σ, fc σ = !fa σ := by
  intro σ
  have ga := getElem?_of_valid ha.1
  have gc := getElem?_of_valid hc.1
  unfold complementary at hcomp
  cases hna : node m a with
  | lit va pa =>
    cases hnc : node m c with
    | lit vc pc =>
      rw [hna, hnc] at hcomp
      rw [hna] at ga; rw [hnc] at gc
      simp only [Bool.and_eq_true, decide_eq_true_eq, ne_eq] at hcomp
      rw [← ha.2 σ, ← hc.2 σ, den_lit ga, den_lit gc, hcomp.1]
      have hp : pa ≠ pc := by simpa using hcomp.2
      cases pa <;> cases pc <;> cases σ vc <;> simp_all
    | ff => rw [hna, hnc] at hcomp; cases hcomp
    | tt => rw [hna, hnc] at hcomp; cases hcomp
    | dec _ _ => rw [hna, hnc] at hcomp; cases hcomp
  | ff => rw [hna] at hcomp; cases hcomp
  | tt => rw [hna] at hcomp; cases hcomp
  | dec _ _ => rw [hna] at hcomp; cases hcomp

theorem applyBody_post (b : Budget) (r : Rec) (hr : RecSound r) (a c : Id) (op : Op) (s : St)
    (h : MInv s.m) (fa fc : Fn) (ha : Sem s.m a fa) (hc : Sem s.m c fc) :
    Post s.m (fun id m1 => Sem m1 id (Fn.op op fa fc)) (applyBody b r a c op s) := by
  unfold applyBody
  refine Post.bind_checkpoint (Ext.refl h) (fun s1 hs1 => ?_)
  have h1 : MInv s1.m := hs1 ▸ h
  have he1 : Ext s.m s1.m := by rw [hs1]; exact Ext.refl h
  have ha' : Sem s1.m a fa := hs1 ▸ ha
  have hc' : Sem s1.m c fc := hs1 ▸ hc
  cases ht : applyTerminal a c op with
  | some x => exact Post.ret he1 (applyTerminal_sound h1 ha' hc' ht)
  | none =>
    dsimp only
    refine Post.bind_getM ?_
    split
    · rename_i hcomp
      have hneg := complementary_sound h1 ha' hc' hcomp
      cases op with
      | and =>
        refine Post.ret he1 ⟨valid_ff h1, fun σ => ?_⟩
        rw [den_ff h1]; simp [Fn.op, Fn.and, hneg σ]
      | or =>
        refine Post.ret he1 ⟨valid_tt h1, fun σ => ?_⟩
        rw [den_tt h1]; simp [Fn.op, Fn.or, hneg σ]
    · cases hl : alookup (cacheKey a c op) s1.m.applyCache with
      | some cached =>
        dsimp only
        refine Post.ret he1 ?_
        unfold cacheKey at hl
        split at hl
        · obtain ⟨_, _, hv, hd⟩ := h1.acache a c op cached hl
          exact ⟨hv, fun σ => by rw [hd σ]; cases op <;> simp [Fn.op, Fn.and, Fn.or, ha'.2 σ, hc'.2 σ]⟩
        · obtain ⟨_, _, hv, hd⟩ := h1.acache c a op cached hl
          refine ⟨hv, fun σ => ?_⟩
          rw [hd σ]
          cases op
          · simp [Fn.op, Fn.and, ha'.2 σ, hc'.2 σ, Bool.and_comm]
          · simp [Fn.op, Fn.or, ha'.2 σ, hc'.2 σ, Bool.or_comm]
      | none =>
        dsimp only
        refine Post.bind (Post.trans he1 (applyInner_post b r hr a c op s1 h1 fa fc ha' hc')) (fun res s2 he2 hres => ?_)
        obtain ⟨hp12, hres⟩ := hres
        refine Post.bind_modifyM ?_
        have ha2 := ha'.mono hp12
        have hc2 := hc'.mono hp12
        have hinv : MInv { s2.m with applyCache := (cacheKey a c op, res) :: s2.m.applyCache } := by
          unfold cacheKey
          split
          · exact acache_inv he2.1 ha2.1 hc2.1 hres.1
              (fun σ => by rw [hres.2 σ]; cases op <;> simp [Fn.op, Fn.and, Fn.or, ha2.2 σ, hc2.2 σ])
          · refine acache_inv he2.1 hc2.1 ha2.1 hres.1 (fun σ => ?_)
            rw [hres.2 σ]
            cases op
            · simp [Fn.op, Fn.and, ha2.2 σ, hc2.2 σ, Bool.and_comm]
            · simp [Fn.op, Fn.or, ha2.2 σ, hc2.2 σ, Bool.or_comm]
        have hpre : Pre s2.m { s2.m with applyCache := (cacheKey a c op, res) :: s2.m.applyCache } :=
          ⟨⟨[], by simp⟩, rfl, rfl, rfl, rfl, rfl, rfl⟩
        exact Post.ret (he2.trans ⟨hinv, hpre⟩) (hres.mono hpre)

theorem negateSubs_post (r : Rec) (hr : RecSound r) : ∀ (els : List Elem) (s : St), MInv s.m → ValidEls s.m els →
    Post s.m (fun els' m1 => ValidEls m1 els' ∧ ∀ σ, cntP m1 σ els' = cntP s.m σ els ∧
      anyD m1 σ els' = els.any (fun e => den s.m e.1 σ && !den s.m e.2 σ)) (negateSubs r els s) := by
  intro els
  induction els with
  | nil =>
    intro s h _
    exact Post.ret (Ext.refl h) ⟨fun e he => by simp at he, fun σ => by simp [cntP, anyD]⟩
  | cons e rest ih =>
    intro s h hv
    obtain ⟨p, sb⟩ := e
    unfold negateSubs
    have hve := hv (p, sb) (by simp)
    have hvr : ValidEls s.m rest := fun e he => hv e (by simp [he])
    refine Post.bind (hr.negate sb s h (fun σ => den s.m sb σ) ⟨hve.2, fun _ => rfl⟩) (fun ns s1 he1 hns => ?_)
    refine Post.bind (Post.trans he1 (ih s1 he1.1 (hvr.mono he1.2))) (fun tl s2 he2 htl => ?_)
    obtain ⟨hp12, hvtl, hq⟩ := htl
    have hns2 := hns.mono hp12
    refine Post.ret he2 ⟨?_, fun σ => ?_⟩
    · intro e he
      simp only [List.mem_cons] at he
      rcases he with rfl | he
      · exact ⟨he2.2.valid hve.1, hns2.1⟩
      · exact hvtl e he
    · obtain ⟨q1, q2⟩ := hq σ
      rw [cntP_pre he1.2 hvr] at q1
      have q2' : anyD s2.m σ tl = rest.any (fun e => den s.m e.1 σ && !den s.m e.2 σ) := by
        rw [q2]; apply any_congr_mem; intro e he
        rw [den_pre he1.2 (hvr e he).1, den_pre he1.2 (hvr e he).2]
      simp only [cntP, anyD, List.countP_cons, List.any_cons] at q1 q2' ⊢
      rw [q1, q2', den_pre he2.2 hve.1, hns2.2 σ]
      simp [Fn.not]

theorem negateBody_post (b : Budget) (r : Rec) (hr : RecSound r) (a : Id) (s : St)
    (h : MInv s.m) (f : Fn) (ha : Sem s.m a f) :
    Post s.m (fun id m1 => Sem m1 id (Fn.not f)) (negateBody b r a s) := by
  unfold negateBody
  refine Post.bind_checkpoint (Ext.refl h) (fun s1 hs1 => ?_)
  have h1 : MInv s1.m := hs1 ▸ h
  have he1 : Ext s.m s1.m := by rw [hs1]; exact Ext.refl h
  have ha' : Sem s1.m a f := hs1 ▸ ha
  split
  · rename_i hz
    refine Post.ret he1 ⟨valid_tt h1, fun σ => ?_⟩
    rw [den_tt h1, Fn.not, ← ha'.2 σ, hz, den_ff h1]; rfl
  · split
    · rename_i _ hz
      refine Post.ret he1 ⟨valid_ff h1, fun σ => ?_⟩
      rw [den_ff h1, Fn.not, ← ha'.2 σ, hz, den_tt h1]; rfl
    · refine Post.bind_getM ?_
      cases hl : alookup a s1.m.negCache with
      | some cached =>
        obtain ⟨_, hv, hd⟩ := h1.ncache a cached hl
        exact Post.ret he1 ⟨hv, fun σ => by rw [hd σ, ha'.2 σ]; rfl⟩
      | none =>
        dsimp only
        have hget := getElem?_of_valid ha'.1
        have hres : Post s.m (fun id m1 => Pre s1.m m1 ∧ Sem m1 id (Fn.not f)) (negateNode b r s1.m a s1) := by
          unfold negateNode
          cases hnode : node s1.m a with
          | ff => exact Post.fail he1
          | tt => exact Post.fail he1
          | lit v pol =>
            rw [hnode] at hget
            refine (Post.trans he1 (literal_post b v (!pol) s1 h1)).mono (fun id m2 _ hp => ⟨hp.1, hp.2.1, fun σ => ?_⟩)
            rw [hp.2.2 σ, Fn.not, ← ha'.2 σ, den_lit hget]
            simp only [Fn.lit]
            cases σ v <;> cases pol <;> rfl
          | dec vt els =>
            rw [hnode] at hget
            dsimp only
            have hv := ValidEls_of_closed h1 hget
            refine Post.bind (Post.trans he1 (negateSubs_post r hr els s1 h1 hv)) (fun negs s2 he2 hn => ?_)
            obtain ⟨hp12, hvn, hq⟩ := hn
            have hsem : ElsSem s2.m negs (Fn.not f) := by
              refine ⟨hvn, fun σ => ?_, fun σ => ?_⟩
              · rw [(hq σ).1]; exact h1.part _ _ _ hget σ
              · rw [(hq σ).2]
                have hc := h1.part _ _ _ hget σ
                have := any_neg (l := els) (p := fun (e : Elem) => den s1.m e.1 σ)
                  (q := fun (e : Elem) => den s1.m e.2 σ) hc
                rw [this, Fn.not, ← ha'.2 σ, den_dec h1 hget]; rfl
            refine (Post.trans he2 (uniqueD_post b r hr vt negs s2 he2.1 _ hsem)).mono
              (fun id m3 _ hp => ⟨hp12.trans hp.1, hp.2⟩)
        refine Post.bind hres (fun res s2 he2 hres => ?_)
        obtain ⟨hp12, hres⟩ := hres
        refine Post.bind_modifyM ?_
        have ha2 := ha'.mono hp12
        have hinv : MInv { s2.m with negCache := (a, res) :: s2.m.negCache } :=
          ncache_inv he2.1 ha2.1 hres.1 (fun σ => by rw [hres.2 σ, ha2.2 σ]; rfl)
        have hpre : Pre s2.m { s2.m with negCache := (a, res) :: s2.m.negCache } :=
          ⟨⟨[], by simp⟩, rfl, rfl, rfl, rfl, rfl, rfl⟩
        exact Post.ret (he2.trans ⟨hinv, hpre⟩) (hres.mono hpre)

theorem recN_sound (b : Budget) : ∀ n, RecSound (recN b n) := by
  intro n
  induction n with
  | zero => exact ⟨fun _ _ _ s h _ _ _ _ => Post.fail (Ext.refl h), fun _ s h _ _ => Post.fail (Ext.refl h)⟩
  | succ n ih =>
    exact ⟨fun a c op s h fa fc ha hc => applyBody_post b _ ih a c op s h fa fc ha hc,
      fun a s h f ha => negateBody_post b _ ih a s h f ha⟩



theorem apply_post (b : Budget) (fuel : Nat) (a c : Id) (op : Op) (s : St) (h : MInv s.m) (fa fc : Fn)
    (ha : Sem s.m a fa) (hc : Sem s.m c fc) :
    Post s.m (fun id m1 => Sem m1 id (Fn.op op fa fc)) (apply b fuel a c op s) :=
  (recN_sound b fuel).apply a c op s h fa fc ha hc

theorem negate_post (b : Budget) (fuel : Nat) (a : Id) (s : St) (h : MInv s.m) (f : Fn) (ha : Sem s.m a f) :
    Post s.m (fun id m1 => Sem m1 id (Fn.not f)) (negate b fuel a s) :=
  (recN_sound b fuel).negate a s h f ha

theorem allFalse_post (b : Budget) (fuel : Nat) : ∀ (vs : List Nat) (acc : Id) (s : St), MInv s.m →
    ∀ facc, Sem s.m acc facc →
    Post s.m (fun id m1 => Sem m1 id (fun σ => facc σ && vs.all (fun v => !σ v))) (allFalse b fuel acc vs s) := by
  intro vs
  induction vs with
  | nil => intro acc s h facc hacc; exact Post.ret (Ext.refl h) (by simpa using hacc)
  | cons v rest ih =>
    intro acc s h facc hacc
    unfold allFalse
    refine Post.bind (literal_post b v false s h) (fun lf s1 he1 hlf => ?_)
    refine Post.bind (Post.trans he1 (apply_post b fuel acc lf .and s1 he1.1 _ _ (hacc.mono he1.2) hlf))
      (fun acc' s2 he2 hacc' => ?_)
    refine (Post.trans he2 (ih acc' s2 he2.1 _ hacc'.2)).mono (fun id m3 _ hp => ⟨hp.2.1, fun σ => ?_⟩)
    rw [hp.2.2 σ]
    simp only [Fn.op, Fn.and, Fn.lit, List.all_cons, Bool.and_assoc]
    cases σ v <;> simp

theorem exactlyOne_cons (v : Nat) (rest : List Nat) (σ : Asg) :
    Fn.exactlyOne (v :: rest) σ =
      ((σ v && rest.all (fun u => !σ u)) || (!σ v && Fn.exactlyOne rest σ)) := by
  unfold Fn.exactlyOne
  simp only [List.filter_cons]
  cases hv : σ v
  · simp
  · simp only [↓reduceIte, List.length_cons, Bool.true_and, Bool.not_true, Bool.false_and, Bool.or_false]
    have : (List.filter (fun v => σ v) rest).length = 0 ↔ rest.all (fun u => !σ u) = true := by
      rw [List.length_eq_zero_iff, List.filter_eq_nil_iff]; simp
    by_cases h0 : (List.filter (fun v => σ v) rest).length = 0
    · rw [h0, this.1 h0]; rfl
    · have h1 : ¬ rest.all (fun u => !σ u) = true := fun hh => h0 (this.2 hh)
      have : ((List.filter (fun v => σ v) rest).length + 1 == 1) = false := by
        rw [beq_eq_false_iff_ne]; omega
      rw [this]; simpa using h1

theorem exactlyOne_post (b : Budget) (fuel : Nat) : ∀ (vs : List Nat) (s : St), MInv s.m →
    Post s.m (fun id m1 => Sem m1 id (Fn.exactlyOne vs)) (exactlyOne b fuel vs s) := by
  intro vs
  induction vs with
  | nil =>
    intro s h
    unfold exactlyOne
    refine Post.bind_checkpoint (Ext.refl h) (fun s1 hs1 => ?_)
    have h1 : MInv s1.m := hs1 ▸ h
    have he1 : Ext s.m s1.m := by rw [hs1]; exact Ext.refl h
    exact Post.ret he1 ⟨valid_ff h1, fun σ => by rw [den_ff h1]; rfl⟩
  | cons v tl ih =>
    intro s h
    cases tl with
    | nil =>
      unfold exactlyOne
      refine Post.bind_checkpoint (Ext.refl h) (fun s1 hs1 => ?_)
      have h1 : MInv s1.m := hs1 ▸ h
      have he1 : Ext s.m s1.m := by rw [hs1]; exact Ext.refl h
      refine (Post.trans he1 (literal_post b v true s1 h1)).mono (fun id m2 _ hp => ⟨hp.2.1, fun σ => ?_⟩)
      rw [hp.2.2 σ]; simp only [Fn.lit, Fn.exactlyOne, List.filter_cons, List.filter_nil]
      cases σ v <;> rfl
    | cons w rest' =>
      unfold exactlyOne
      refine Post.bind_checkpoint (Ext.refl h) (fun s1 hs1 => ?_)
      have h1 : MInv s1.m := hs1 ▸ h
      have he1 : Ext s.m s1.m := by rw [hs1]; exact Ext.refl h
      refine Post.bind (Post.trans he1 (literal_post b v true s1 h1)) (fun litT s2 he2 hT => ?_)
      refine Post.bind (Post.trans he2 (literal_post b v false s2 he2.1)) (fun litF s3 he3 hF => ?_)
      refine Post.bind (Post.trans he3 (allFalse_post b fuel (w :: rest') TRUE s3 he3.1 _ (sem_tt he3.1)))
        (fun af s4 he4 haf => ?_)
      have hT4 := (hT.2.mono hF.1).mono haf.1
      refine Post.bind (Post.trans he4 (apply_post b fuel litT af .and s4 he4.1 _ _ hT4 haf.2))
        (fun left s5 he5 hleft => ?_)
      refine Post.bind (Post.trans he5 (ih s5 he5.1)) (fun rc s6 he6 hrc => ?_)
      have hF6 := ((hF.2.mono haf.1).mono hleft.1).mono hrc.1
      refine Post.bind (Post.trans he6 (apply_post b fuel litF rc .and s6 he6.1 _ _ hF6 hrc.2))
        (fun right s7 he7 hright => ?_)
      have hleft7 := (hleft.2.mono hrc.1).mono hright.1
      refine (Post.trans he7 (apply_post b fuel left right .or s7 he7.1 _ _ hleft7 hright.2)).mono
        (fun id m8 _ hp => ⟨hp.2.1, fun σ => ?_⟩)
      rw [hp.2.2 σ, exactlyOne_cons]
      simp only [Fn.op, Fn.or, Fn.and, Fn.lit, Fn.true, Bool.true_and]
      cases σ v <;> simp



/-! ### histories -/

/-- one call of the public API.  Handles are the ones the manager issued (`SddId` has a private field, so client
code cannot forge them) and `literal` / `exactly_one` are called for registered variables (API contract in
`sdd.rs`); calls outside that contract are no-ops here. -/
inductive Cmd where
  | var (v : Nat) (p : Rat)
  | weights (v : Nat) (p q : Rat) (k : Kind)
  | lit (b : Budget) (v : Nat) (pol : Bool)
  | app (b : Budget) (fuel : Nat) (a c : Id) (op : Op)
  | neg (b : Budget) (fuel : Nat) (a : Id)
  | xone (b : Budget) (fuel : Nat) (vs : List Nat)

def registered (m : Mgr) (v : Nat) : Bool := (alookup v m.var2vt).isSome

/-- the manager after the call — whatever the call returned (success, exhaustion at any checkpoint, …) -/
def execCmd (m : Mgr) : Cmd → Mgr
  | .var v p => ensureVariable m v p
  | .weights v p q k => ensureVariableWeights m v p q k
  | .lit b v pol => if registered m v then (run (literal b v pol) m).2 else m
  | .app b fuel a c op =>
    if a < m.nodes.length ∧ c < m.nodes.length then (run (apply b fuel a c op) m).2 else m
  | .neg b fuel a => if a < m.nodes.length then (run (negate b fuel a) m).2 else m
  | .xone b fuel vs => if vs.all (registered m) then (run (exactlyOne b fuel vs) m).2 else m

theorem MInv.congr {m m' : Mgr} (h : MInv m) (hn : m'.nodes = m.nodes) (hu : m'.unique = m.unique)
    (ha : m'.applyCache = m.applyCache) (hc : m'.negCache = m.negCache) : MInv m' := by
  have hd : ∀ i σ, den m' i σ = den m i σ := fun i σ => by unfold den; rw [hn]
  have hcnt : ∀ σ els, cntP m' σ els = cntP m σ els := fun σ els => by
    unfold cntP; congr 1; funext e; exact hd e.1 σ
  refine ⟨by rw [hn]; exact h.hd, by rw [hn]; exact h.closed, ?_, by rw [hn, hu]; exact h.uniq, ?_, ?_⟩
  · intro i vt els hi σ; rw [hn] at hi; rw [hcnt]; exact h.part i vt els hi σ
  · intro a c op r hk
    rw [ha] at hk
    obtain ⟨h1, h2, h3, h4⟩ := h.acache a c op r hk
    refine ⟨by unfold valid; rw [hn]; exact h1, by unfold valid; rw [hn]; exact h2,
      by unfold valid; rw [hn]; exact h3, fun σ => ?_⟩
    rw [hd, h4 σ]; cases op <;> simp [Fn.op, Fn.and, Fn.or, hd]
  · intro a r hk
    rw [hc] at hk
    obtain ⟨h1, h2, h3⟩ := h.ncache a r hk
    exact ⟨by unfold valid; rw [hn]; exact h1, by unfold valid; rw [hn]; exact h2, fun σ => by rw [hd, hd, h3 σ]⟩

theorem ensureVariableWeights_arena (m : Mgr) (v : Nat) (p q : Rat) (k : Kind) :
    (ensureVariableWeights m v p q k).nodes = m.nodes ∧ (ensureVariableWeights m v p q k).unique = m.unique ∧
    (ensureVariableWeights m v p q k).applyCache = m.applyCache ∧
    (ensureVariableWeights m v p q k).negCache = m.negCache := by
  unfold ensureVariableWeights
  simp only
  split <;> split <;> (try split) <;> simp

theorem MInv_new : MInv Mgr.new := by
  refine ⟨⟨[], rfl⟩, ?_, ?_, ?_, ?_, ?_⟩
  · intro i vt els hi
    have : i < 2 := lt_of_getElem? hi
    match i, this with
    | 0, _ => simp [Mgr.new] at hi
    | 1, _ => simp [Mgr.new] at hi
  · intro i vt els hi
    have : i < 2 := lt_of_getElem? hi
    match i, this with
    | 0, _ => simp [Mgr.new] at hi
    | 1, _ => simp [Mgr.new] at hi
  · intro k id hk; simp [Mgr.new, alookup] at hk
  · intro a c op r hk; simp [Mgr.new, alookup] at hk
  · intro a r hk; simp [Mgr.new, alookup] at hk

theorem run_inv {m : Mgr} (_h : MInv m) {x : M Id} {R : Id → Mgr → Prop} (hp : Post m R (x ⟨m, 0⟩)) :
    MInv (run x m).2 := by
  unfold run
  rcases hx : x ⟨m, 0⟩ with ⟨res, s⟩
  rw [hx] at hp
  cases res with
  | error e => exact hp.1
  | ok a => exact hp.1.1

theorem valid_sem {m : Mgr} {a : Id} (h : a < m.nodes.length) : Sem m a (fun σ => den m a σ) := ⟨h, fun _ => rfl⟩

theorem execCmd_inv {m : Mgr} (h : MInv m) (c : Cmd) : MInv (execCmd m c) := by
  cases c with
  | var v p =>
    obtain ⟨h1, h2, h3, h4⟩ := ensureVariableWeights_arena m v (clamp01 p) (1 - clamp01 p) .indep
    exact h.congr h1 h2 h3 h4
  | weights v p q k =>
    obtain ⟨h1, h2, h3, h4⟩ := ensureVariableWeights_arena m v p q k
    exact h.congr h1 h2 h3 h4
  | lit b v pol =>
    simp only [execCmd]; split
    · exact run_inv h (literal_post b v pol ⟨m, 0⟩ h)
    · exact h
  | app b fuel a c op =>
    simp only [execCmd]; split
    · rename_i hv
      exact run_inv h (apply_post b fuel a c op ⟨m, 0⟩ h _ _ (valid_sem hv.1) (valid_sem hv.2))
    · exact h
  | neg b fuel a =>
    simp only [execCmd]; split
    · rename_i hv
      exact run_inv h (negate_post b fuel a ⟨m, 0⟩ h _ (valid_sem hv))
    · exact h
  | xone b fuel vs =>
    simp only [execCmd]; split
    · exact run_inv h (exactlyOne_post b fuel vs ⟨m, 0⟩ h)
    · exact h


end Kolibrie.Sdd
