import Kolibrie.Model.Prov
import Kolibrie.Spec.Prov
/-
Lemmas about the DNF tag algebra of `DnfWmcProvenance` and about Shannon expansion.
-/
namespace Kolibrie.Prov

/-! ### insertion sort -/

theorem insertBy_perm {α} (le : α → α → Bool) (a : α) : ∀ l : List α, (insertBy le a l).Perm (a :: l) := by
  intro l
  induction l with
  | nil => exact List.Perm.refl _
  | cons b t ih =>
    simp only [insertBy]
    split
    · exact List.Perm.refl _
    · exact (List.Perm.cons b ih).trans (List.Perm.swap a b t)

theorem sortBy'_perm {α} (le : α → α → Bool) : ∀ l : List α, (sortBy' le l).Perm l := by
  intro l
  induction l with
  | nil => exact List.Perm.refl _
  | cons a t ih => exact (insertBy_perm le a _).trans (List.Perm.cons a ih)

theorem mem_sortBy' {α} (le : α → α → Bool) (l : List α) (x : α) : x ∈ sortBy' le l ↔ x ∈ l :=
  (sortBy'_perm le l).mem_iff

/-! ### clauses -/

theorem csub_iff {a b : Clause} : csub a b = true ↔ ∀ l ∈ a, l ∈ b := by
  simp [csub, List.all_eq_true]

theorem ceq_iff {a b : Clause} : ceq a b = true ↔ (∀ l ∈ a, l ∈ b) ∧ (∀ l ∈ b, l ∈ a) := by
  simp [ceq, csub_iff]

theorem ceq_refl (a : Clause) : ceq a a = true := by simp [ceq_iff]

theorem evalClause_iff {w : Nat → Bool} {c : Clause} :
    evalClause w c = true ↔ ∀ l ∈ c, w (litVar l) = litPol l := by
  simp [evalClause, List.all_eq_true]

theorem evalClause_mono {w : Nat → Bool} {a b : Clause} (h : csub a b = true) (hb : evalClause w b = true) :
    evalClause w a = true := by
  rw [evalClause_iff] at *
  rw [csub_iff] at h
  intro l hl; exact hb l (h l hl)

theorem evalClause_ceq {w : Nat → Bool} {a b : Clause} (h : ceq a b = true) :
    evalClause w a = evalClause w b := by
  rw [ceq_iff] at h
  rw [Bool.eq_iff_iff, evalClause_iff, evalClause_iff]
  exact ⟨fun h1 l hl => h1 l (h.2 l hl), fun h1 l hl => h1 l (h.1 l hl)⟩

theorem mem_cunion {a b : Clause} {l : Nat} : l ∈ cunion a b ↔ l ∈ a ∨ l ∈ b := by
  simp [cunion, mem_sortBy', List.mem_eraseDups]

theorem evalClause_cunion {w : Nat → Bool} {a b : Clause} :
    evalClause w (cunion a b) = true ↔ evalClause w a = true ∧ evalClause w b = true := by
  simp only [evalClause_iff, mem_cunion]
  constructor
  · intro h; exact ⟨fun l hl => h l (Or.inl hl), fun l hl => h l (Or.inr hl)⟩
  · rintro ⟨h1, h2⟩ l (hl | hl)
    · exact h1 l hl
    · exact h2 l hl

/-! ### formulas -/

theorem evalDnf_iff {w : Nat → Bool} {φ : Dnf} : evalDnf w φ = true ↔ ∃ c ∈ φ, evalClause w c = true := by
  simp [evalDnf, List.any_eq_true]

theorem dmem_iff {c : Clause} {φ : Dnf} : dmem c φ = true ↔ ∃ c' ∈ φ, ceq c c' = true := by
  simp [dmem, List.any_eq_true]

theorem evalDnf_dinsert {w : Nat → Bool} {c : Clause} {φ : Dnf} :
    evalDnf w (dinsert c φ) = true ↔ evalClause w c = true ∨ evalDnf w φ = true := by
  unfold dinsert
  split
  · rename_i h
    rw [dmem_iff] at h
    obtain ⟨c', hc', he⟩ := h
    constructor
    · intro h; exact Or.inr h
    · rintro (h | h)
      · rw [evalDnf_iff]; exact ⟨c', hc', by rw [← evalClause_ceq he]; exact h⟩
      · exact h
  · simp only [evalDnf_iff, List.mem_append, List.mem_singleton]
    constructor
    · rintro ⟨c', (h | h), he⟩
      · exact Or.inr ⟨c', h, he⟩
      · subst h; exact Or.inl he
    · rintro (h | ⟨c', h, he⟩)
      · exact ⟨c, Or.inr rfl, h⟩
      · exact ⟨c', Or.inl h, he⟩

theorem evalDnf_foldl_dinsert {w : Nat → Bool} (l : Dnf) (init : Dnf) :
    evalDnf w (l.foldl (fun acc c => dinsert c acc) init) = true ↔ evalDnf w init = true ∨ evalDnf w l = true := by
  induction l generalizing init with
  | nil => simp [evalDnf]
  | cons h t ih =>
    rw [List.foldl_cons, ih, evalDnf_dinsert]
    simp only [evalDnf_iff, List.mem_cons]
    constructor
    · rintro ((h1 | h1) | ⟨c, hc, he⟩)
      · exact Or.inr ⟨h, Or.inl rfl, h1⟩
      · exact Or.inl h1
      · exact Or.inr ⟨c, Or.inr hc, he⟩
    · rintro (h1 | ⟨c, (hc | hc), he⟩)
      · exact Or.inl (Or.inr h1)
      · subst hc; exact Or.inl (Or.inl he)
      · exact Or.inr ⟨c, hc, he⟩

theorem evalDnf_dunion {w : Nat → Bool} {φ ψ : Dnf} :
    evalDnf w (dunion φ ψ) = true ↔ evalDnf w φ = true ∨ evalDnf w ψ = true := by
  unfold dunion
  rw [evalDnf_foldl_dinsert, evalDnf_foldl_dinsert]
  simp [evalDnf]

/-- a ⊆-minimal clause below any clause of the list -/
theorem exists_min_sub (φ : Dnf) : ∀ c : Clause, (∃ c' ∈ φ, csub c' c = true) →
    ∃ m ∈ φ, csub m c = true ∧ ∀ c2 ∈ φ, csub c2 m = true → csub m c2 = true := by
  induction φ with
  | nil => intro c h; obtain ⟨_, h, _⟩ := h; cases h
  | cons h t ih =>
    intro c hex
    by_cases ht : ∃ c' ∈ t, csub c' c = true
    · obtain ⟨m, hm, hmc, hmin⟩ := ih c ht
      by_cases hh : csub h m = true ∧ ¬ csub m h = true
      · refine ⟨h, List.mem_cons_self, ?_, ?_⟩
        · rw [csub_iff] at *; intro l hl; exact hmc l (hh.1 l hl)
        · intro c2 hc2 hsub
          rcases List.mem_cons.mp hc2 with rfl | hc2
          · exact hsub
          · exfalso
            apply hh.2
            have h1 : csub c2 m = true := by
              have := hh.1
              rw [csub_iff] at *; intro l hl; exact this l (hsub l hl)
            have h2 := hmin c2 hc2 h1
            rw [csub_iff] at *; intro l hl; exact hsub l (h2 l hl)
      · refine ⟨m, List.mem_cons_of_mem _ hm, hmc, ?_⟩
        intro c2 hc2 hsub
        rcases List.mem_cons.mp hc2 with rfl | hc2
        · by_cases hm2 : csub m c2 = true
          · exact hm2
          · exact absurd ⟨hsub, hm2⟩ hh
        · exact hmin c2 hc2 hsub
    · obtain ⟨c', hc', hs⟩ := hex
      rcases List.mem_cons.mp hc' with rfl | hc'
      · refine ⟨c', List.mem_cons_self, hs, ?_⟩
        intro c2 hc2 hsub
        rcases List.mem_cons.mp hc2 with rfl | hc2
        · exact hsub
        · exfalso; apply ht
          refine ⟨c2, hc2, ?_⟩
          rw [csub_iff] at *; intro l hl; exact hs l (hsub l hl)
      · exact absurd ⟨c', hc', hs⟩ ht

theorem csub_refl (c : Clause) : csub c c = true := by simp [csub_iff]

theorem evalDnf_removeSubsumed {w : Nat → Bool} {φ : Dnf} :
    evalDnf w (removeSubsumed φ) = true ↔ evalDnf w φ = true := by
  simp only [evalDnf_iff, removeSubsumed, List.mem_filter]
  constructor
  · rintro ⟨c, ⟨hc, _⟩, he⟩; exact ⟨c, hc, he⟩
  · rintro ⟨c, hc, he⟩
    obtain ⟨m, hm, hmc, hmin⟩ := exists_min_sub φ c ⟨c, hc, csub_refl c⟩
    refine ⟨m, ⟨hm, ?_⟩, evalClause_mono hmc he⟩
    simp only [Bool.not_eq_true', List.any_eq_false, Bool.and_eq_true, Bool.not_eq_true', not_and]
    intro c2 hc2 hne hsub
    have := hmin c2 hc2 hsub
    simp [ceq, hsub, this] at hne

theorem litFlip_var (l : Nat) : litVar (litFlip l) = litVar l := by
  unfold litVar litFlip; split <;> rename_i h <;> simp at h <;> omega

theorem litFlip_pol (l : Nat) : litPol (litFlip l) = !litPol l := by
  unfold litPol litFlip
  by_cases h : l % 2 = 1
  · have : (l - 1) % 2 = 0 := by omega
    simp [h, this]
  · have h0 : l % 2 = 0 := by omega
    have : (l + 1) % 2 = 1 := by omega
    simp [h0, this]

theorem evalClause_contradictory {w : Nat → Bool} {c : Clause} (h : contradictory c = true) :
    evalClause w c = false := by
  simp only [contradictory, List.any_eq_true, List.contains_iff_mem] at h
  obtain ⟨l, hl, hf⟩ := h
  rw [Bool.eq_false_iff]
  intro he
  rw [evalClause_iff] at he
  have h1 := he l hl
  have h2 := he _ hf
  rw [litFlip_var, litFlip_pol, h1] at h2
  cases hp : litPol l <;> simp [hp] at h2

theorem evalDnf_removeContradictory {w : Nat → Bool} {φ : Dnf} :
    evalDnf w (removeContradictory φ) = true ↔ evalDnf w φ = true := by
  simp only [evalDnf_iff, removeContradictory, List.mem_filter]
  constructor
  · rintro ⟨c, ⟨hc, _⟩, he⟩; exact ⟨c, hc, he⟩
  · rintro ⟨c, hc, he⟩
    refine ⟨c, ⟨hc, ?_⟩, he⟩
    cases hcon : contradictory c
    · rfl
    · rw [evalClause_contradictory hcon] at he; cases he

theorem evalDnf_product {w : Nat → Bool} {a b : Dnf} :
    evalDnf w (product a b) = true ↔ evalDnf w a = true ∧ evalDnf w b = true := by
  simp only [evalDnf_iff, product, List.mem_flatMap, List.mem_map]
  constructor
  · rintro ⟨c, ⟨ca, hca, cb, hcb, rfl⟩, he⟩
    rw [evalClause_cunion] at he
    exact ⟨⟨ca, hca, he.1⟩, ⟨cb, hcb, he.2⟩⟩
  · rintro ⟨⟨ca, hca, ha⟩, ⟨cb, hcb, hb⟩⟩
    exact ⟨cunion ca cb, ⟨ca, hca, cb, hcb, rfl⟩, evalClause_cunion.mpr ⟨ha, hb⟩⟩

theorem evalDnf_nil (w : Nat → Bool) : evalDnf w [] = false := rfl

theorem evalDnf_one (w : Nat → Bool) : evalDnf w dnfOne = true := by simp [dnfOne, evalDnf, evalClause]

/-- `disjunction` (union + subsumption pruning) means "or" -/
theorem sem_disj' (w : Nat → Bool) (a b : Dnf) :
    evalDnf w (dnfDisj a b) = (evalDnf w a || evalDnf w b) := by
  rw [Bool.eq_iff_iff, Bool.or_eq_true, dnfDisj, evalDnf_removeSubsumed, evalDnf_dunion]

/-- `conjunction` (product + contradiction and subsumption pruning) means "and" -/
theorem sem_conj' (w : Nat → Bool) (a b : Dnf) :
    evalDnf w (dnfConj a b) = (evalDnf w a && evalDnf w b) := by
  unfold dnfConj
  split
  · rename_i h
    simp only [Bool.or_eq_true, List.isEmpty_iff] at h
    rcases h with h | h <;> subst h <;> simp [dnfZero, evalDnf_nil]
  · rw [Bool.eq_iff_iff, Bool.and_eq_true, evalDnf_removeSubsumed, evalDnf_removeContradictory, evalDnf_dunion,
      evalDnf_product]
    simp [evalDnf_nil]

theorem evalDnf_negClause (w : Nat → Bool) (c : Clause) :
    evalDnf w (c.map fun l => [litFlip l]) = !evalClause w c := by
  rw [Bool.eq_iff_iff, evalDnf_iff]
  simp only [List.mem_map, Bool.not_eq_true', ← Bool.not_eq_true, evalClause_iff]
  constructor
  · rintro ⟨c', ⟨l, hl, rfl⟩, he⟩ hall
    have h1 := he (litFlip l) (by simp)
    rw [litFlip_var, litFlip_pol, hall l hl] at h1
    cases hp : litPol l <;> simp [hp] at h1
  · intro h
    have : ∃ l ∈ c, w (litVar l) ≠ litPol l := by
      apply Classical.byContradiction
      intro hn; apply h; intro l hl
      apply Classical.byContradiction
      intro hne; exact hn ⟨l, hl, hne⟩
    obtain ⟨l, hl, hne⟩ := this
    refine ⟨[litFlip l], ⟨l, hl, rfl⟩, ?_⟩
    intro l' hl'
    simp only [List.mem_singleton] at hl'
    subst hl'
    rw [litFlip_var, litFlip_pol]
    cases hw : w (litVar l) <;> cases hp : litPol l <;> simp_all

theorem evalDnf_negFold (w : Nat → Bool) (a : Dnf) (res : Dnf) :
    evalDnf w (a.foldl (fun res clause => if res.isEmpty then res else
        dnfConj res (clause.map fun l => [litFlip l])) res)
      = (evalDnf w res && a.all fun c => !evalClause w c) := by
  induction a generalizing res with
  | nil => simp
  | cons h t ih =>
    rw [List.foldl_cons, ih]
    split
    · rename_i he
      simp only [List.isEmpty_iff] at he
      subst he; simp [evalDnf_nil]
    · rw [sem_conj', evalDnf_negClause]
      simp [Bool.and_assoc]

/-- `negate` (De Morgan over signed literals) means "not" -/
theorem sem_neg' (w : Nat → Bool) (a : Dnf) : evalDnf w (dnfNeg a) = !evalDnf w a := by
  unfold dnfNeg
  split
  · rename_i h; simp only [List.isEmpty_iff] at h; subst h; simp [evalDnf_one, evalDnf_nil]
  · split
    · rename_i _ h
      simp only [List.any_eq_true, List.isEmpty_iff] at h
      obtain ⟨c, hc, he⟩ := h
      subst he
      have : evalDnf w a = true := evalDnf_iff.mpr ⟨[], hc, by simp [evalClause]⟩
      simp [this, dnfZero, evalDnf_nil]
    · rw [evalDnf_negFold, evalDnf_one]
      simp only [Bool.true_and]
      rw [Bool.eq_iff_iff]
      simp only [List.all_eq_true, Bool.not_eq_true', ← Bool.not_eq_true, evalDnf_iff]
      constructor
      · rintro h ⟨c, hc, he⟩; exact h c hc he
      · intro h c hc he; exact h ⟨c, hc, he⟩

/-! ### Shannon expansion = weighted sum over all worlds -/

theorem upd_same (w : Nat → Bool) (x : Nat) (b : Bool) : upd w x b x = b := by simp [upd]
theorem upd_other (w : Nat → Bool) {x y : Nat} (b : Bool) (h : y ≠ x) : upd w x b y = w y := by simp [upd, h]

theorem weightV_upd (D : Nat) (tbl : Nat → Nat) (xs : List Nat) (w : Nat → Bool) (x : Nat) (b : Bool)
    (hx : x ∉ xs) : weightV D tbl xs (upd w x b) = weightV D tbl xs w := by
  induction xs with
  | nil => rfl
  | cons y ys ih =>
    simp only [List.mem_cons, not_or] at hx
    simp only [weightV]
    rw [ih hx.2, upd_other w b (Ne.symm hx.1)]

theorem sum_flatMap_pair (L : List (Nat → Bool)) (x : Nat) (F : (Nat → Bool) → Nat) :
    ((L.flatMap fun w => [upd w x true, upd w x false]).map F).sum
      = (L.map fun w => F (upd w x true) + F (upd w x false)).sum := by
  induction L with
  | nil => rfl
  | cons h t ih =>
    simp only [List.flatMap_cons, List.map_append, List.map_cons, List.map_nil, List.sum_append, List.sum_cons,
      List.sum_nil, ih]
    omega

theorem sum_map_add (L : List (Nat → Bool)) (F G : (Nat → Bool) → Nat) :
    (L.map fun w => F w + G w).sum = (L.map F).sum + (L.map G).sum := by
  induction L with
  | nil => rfl
  | cons h t ih => simp only [List.map_cons, List.sum_cons, ih]; omega

theorem sum_map_mul (L : List (Nat → Bool)) (c : Nat) (F : (Nat → Bool) → Nat) :
    (L.map fun w => c * F w).sum = c * (L.map F).sum := by
  induction L with
  | nil => simp
  | cons h t ih => simp only [List.map_cons, List.sum_cons, ih, Nat.mul_add]

theorem wsum_cons (D : Nat) (tbl : Nat → Nat) (x : Nat) (xs : List Nat) (g : (Nat → Bool) → Bool)
    (hx : x ∉ xs) :
    wsum D tbl (x :: xs) g
      = tbl x * wsum D tbl xs (fun w => g (upd w x true))
        + (D - tbl x) * wsum D tbl xs (fun w => g (upd w x false)) := by
  unfold wsum
  simp only [worldsV]
  rw [sum_flatMap_pair, sum_map_add, ← sum_map_mul, ← sum_map_mul]
  congr 1
  · congr 1
    apply List.map_congr_left
    intro w _
    simp only [weightV, upd_same, if_true]
    rw [weightV_upd D tbl xs w x true hx, Nat.mul_assoc]
  · congr 1
    apply List.map_congr_left
    intro w _
    simp only [weightV, upd_same]
    rw [weightV_upd D tbl xs w x false hx, Nat.mul_assoc]
    simp

theorem wsum_congr (D : Nat) (tbl : Nat → Nat) (xs : List Nat) (g g' : (Nat → Bool) → Bool)
    (h : ∀ w, g w = g' w) : wsum D tbl xs g = wsum D tbl xs g' := by
  have : g = g' := funext h
  rw [this]

theorem wsum_false (D : Nat) (tbl : Nat → Nat) (xs : List Nat) : wsum D tbl xs (fun _ => false) = 0 := by
  unfold wsum
  have : ∀ L : List (Nat → Bool), (L.map fun w => weightV D tbl xs w * b2n false).sum = 0 := by
    intro L
    induction L with
    | nil => rfl
    | cons h t ih => rw [List.map_cons, List.sum_cons, ih]; simp [b2n]
  exact this _

theorem wsum_true (D : Nat) (tbl : Nat → Nat) (xs : List Nat) (hn : xs.Nodup) (ht : ∀ x ∈ xs, tbl x ≤ D) :
    wsum D tbl xs (fun _ => true) = D ^ xs.length := by
  induction xs with
  | nil => simp [wsum, worldsV, weightV, b2n]
  | cons x xs ih =>
    rw [List.nodup_cons] at hn
    rw [wsum_cons D tbl x xs _ hn.1, ih hn.2 (fun y hy => ht y (List.mem_cons_of_mem _ hy))]
    have := ht x List.mem_cons_self
    rw [← Nat.add_mul, List.length_cons, Nat.pow_succ, Nat.mul_comm]
    congr 1
    omega

theorem lit_eq_mkLit (l : Nat) : l = mkLit (litVar l) (litPol l) := by
  unfold mkLit litVar litPol
  by_cases h : l % 2 = 1 <;> simp [h] <;> omega

theorem mkLit_var (x : Nat) (b : Bool) : litVar (mkLit x b) = x := by
  unfold mkLit litVar; cases b <;> simp <;> omega

theorem mkLit_pol (x : Nat) (b : Bool) : litPol (mkLit x b) = b := by
  unfold mkLit litPol; cases b <;> simp <;> omega

theorem evalClause_upd (w : Nat → Bool) (x : Nat) (val : Bool) (c : Clause) :
    evalClause (upd w x val) c
      = (!c.contains (mkLit x (!val)) && evalClause w (c.filter fun l => litVar l != x)) := by
  rw [Bool.eq_iff_iff]
  simp only [Bool.and_eq_true, Bool.not_eq_true', evalClause_iff, List.mem_filter, bne_iff_ne, ne_eq]
  constructor
  · intro h
    constructor
    · cases hc : c.contains (mkLit x (!val))
      · rfl
      · exfalso
        rw [List.contains_iff_mem] at hc
        have := h _ hc
        rw [mkLit_var, mkLit_pol, upd_same] at this
        cases val <;> simp at this
    · rintro l ⟨hl, hne⟩
      have := h l hl
      rwa [upd_other w val hne] at this
  · rintro ⟨hnc, h⟩ l hl
    by_cases hv : litVar l = x
    · rw [hv, upd_same]
      cases hp : litPol l <;> cases val <;> try rfl
      all_goals
        exfalso
        have hl' : l = mkLit x (litPol l) := by rw [← hv]; exact lit_eq_mkLit l
        rw [hp] at hl'
        have : c.contains l = true := List.contains_iff_mem.mpr hl
        rw [hl'] at this
        simp at hnc
        simp_all
    · rw [upd_other w val hv]; exact h l ⟨hl, hv⟩

theorem evalDnf_upd (w : Nat → Bool) (x : Nat) (val : Bool) (φ : Dnf) :
    evalDnf (upd w x val) φ = evalDnf w (restrict x val φ) := by
  rw [Bool.eq_iff_iff, evalDnf_iff, evalDnf_iff]
  simp only [restrict, List.mem_map, List.mem_filter]
  constructor
  · rintro ⟨c, hc, he⟩
    rw [evalClause_upd, Bool.and_eq_true] at he
    exact ⟨_, ⟨c, ⟨hc, he.1⟩, rfl⟩, he.2⟩
  · rintro ⟨c', ⟨c, ⟨hc, hn⟩, rfl⟩, he⟩
    exact ⟨c, hc, by rw [evalClause_upd, Bool.and_eq_true]; exact ⟨hn, he⟩⟩

theorem evalDnf_upd_unmentioned (w : Nat → Bool) (x : Nat) (val : Bool) (φ : Dnf)
    (h : mentions x φ = false) : evalDnf (upd w x val) φ = evalDnf w φ := by
  rw [Bool.eq_iff_iff, evalDnf_iff, evalDnf_iff]
  have hm : ∀ c ∈ φ, ∀ l ∈ c, litVar l ≠ x := by
    intro c hc l hl hv
    have : mentions x φ = true := by
      simp only [mentions, List.any_eq_true, beq_iff_eq]
      exact ⟨c, hc, l, hl, hv⟩
    rw [h] at this; cases this
  constructor <;> rintro ⟨c, hc, he⟩ <;> refine ⟨c, hc, ?_⟩ <;> rw [evalClause_iff] at * <;> intro l hl
  · have := he l hl; rwa [upd_other w val (hm c hc l hl)] at this
  · rw [upd_other w val (hm c hc l hl)]; exact he l hl

/-- all variables of the formula are among `xs` -/
def VarsIn (xs : List Nat) (φ : Dnf) : Prop := ∀ c ∈ φ, ∀ l ∈ c, litVar l ∈ xs

theorem varsIn_restrict {x : Nat} {xs : List Nat} {φ : Dnf} (val : Bool) (h : VarsIn (x :: xs) φ) :
    VarsIn xs (restrict x val φ) := by
  intro c' hc' l hl
  simp only [restrict, List.mem_map, List.mem_filter] at hc'
  obtain ⟨c, ⟨hc, _⟩, rfl⟩ := hc'
  simp only [List.mem_filter, bne_iff_ne, ne_eq] at hl
  have := h c hc l hl.1
  rcases List.mem_cons.mp this with h1 | h1
  · exact absurd h1 hl.2
  · exact h1

theorem shannon_exact' (D : Nat) (tbl : Nat → Nat) : ∀ (xs : List Nat) (φ : Dnf), xs.Nodup → VarsIn xs φ →
    (∀ x ∈ xs, tbl x ≤ D) → shannon D tbl xs φ = wsum D tbl xs (fun w => evalDnf w φ) := by
  intro xs
  induction xs with
  | nil =>
    intro φ _ hv _
    have hall : ∀ c ∈ φ, c = [] := by
      intro c hc
      cases c with
      | nil => rfl
      | cons l t => exact absurd (hv _ hc l List.mem_cons_self) (by simp)
    simp only [shannon, wsum, worldsV, weightV, List.map_cons, List.map_nil, List.sum_cons, List.sum_nil]
    have : evalDnf (fun _ => false) φ = φ.any (·.isEmpty) := by
      rw [Bool.eq_iff_iff, evalDnf_iff, List.any_eq_true]
      constructor
      · rintro ⟨c, hc, _⟩; exact ⟨c, hc, by rw [hall c hc]; rfl⟩
      · rintro ⟨c, hc, _⟩; exact ⟨c, hc, by rw [hall c hc]; simp [evalClause]⟩
    rw [this]
    cases φ.any (·.isEmpty) <;> simp [b2n]
  | cons x xs ih =>
    intro φ hn hv ht
    rw [List.nodup_cons] at hn
    have ht' : ∀ y ∈ xs, tbl y ≤ D := fun y hy => ht y (List.mem_cons_of_mem _ hy)
    unfold shannon
    split
    · rename_i he
      simp only [List.isEmpty_iff] at he
      subst he
      simp only [evalDnf_nil]
      exact (wsum_false D tbl _).symm
    · split
      · rename_i _ he
        simp only [List.any_eq_true, List.isEmpty_iff] at he
        obtain ⟨c, hc, hce⟩ := he
        subst hce
        have : ∀ w, evalDnf w φ = true := fun w => evalDnf_iff.mpr ⟨[], hc, by simp [evalClause]⟩
        rw [wsum_congr D tbl _ _ (fun _ => true) this]
        rw [wsum_true D tbl (x :: xs) (List.nodup_cons.mpr hn) ht]
        simp
      · split
        · rw [wsum_cons D tbl x xs _ hn.1]
          rw [ih _ hn.2 (varsIn_restrict true hv) ht', ih _ hn.2 (varsIn_restrict false hv) ht']
          rw [wsum_congr D tbl xs _ _ (fun w => evalDnf_upd w x true φ)]
          rw [wsum_congr D tbl xs _ _ (fun w => evalDnf_upd w x false φ)]
        · rename_i _ _ hm
          simp only [Bool.not_eq_true] at hm
          rw [wsum_cons D tbl x xs _ hn.1]
          rw [wsum_congr D tbl xs _ _ (fun w => evalDnf_upd_unmentioned w x true φ hm)]
          rw [wsum_congr D tbl xs _ _ (fun w => evalDnf_upd_unmentioned w x false φ hm)]
          have hv' : VarsIn xs φ := by
            intro c hc l hl
            rcases List.mem_cons.mp (hv c hc l hl) with h1 | h1
            · exfalso
              have : mentions x φ = true := by
                simp only [mentions, List.any_eq_true, beq_iff_eq]
                exact ⟨c, hc, l, hl, h1⟩
              rw [hm] at this; cases this
            · exact h1
          rw [ih φ hn.2 hv' ht', ← Nat.add_mul]
          have := ht x List.mem_cons_self
          congr 1
          omega

end Kolibrie.Prov
