import Kolibrie.Model.Datalog
import Kolibrie.Spec.LeastModel
/-!
Helper lemmas for C05 (core Lean only).
-/
namespace Kolibrie.Datalog

/-! ### rows -/

/-- a total valuation agrees with a binding row -/
def Agrees (σ : Nat → Nat) (row : Row) : Prop := ∀ v x, row.get v = some x → σ v = x

/-- `row'` extends `row` -/
def Ext (row row' : Row) : Prop := ∀ v x, row.get v = some x → row'.get v = some x

def Bound (row : Row) (v : Nat) : Prop := ∃ x, row.get v = some x

theorem Row.get_nil (v : Nat) : Row.get [] v = none := rfl

theorem Row.get_cons (a b : Nat) (r : Row) (v : Nat) :
    Row.get ((a, b) :: r) v = if v = a then some b else r.get v := by
  simp only [Row.get, List.lookup_cons]
  by_cases h : v = a
  · simp [h]
  · have : (v == a) = false := by simp [h]
    simp [this, h]

theorem Ext.refl (r : Row) : Ext r r := fun _ _ h => h
theorem Ext.trans {a b c : Row} (h1 : Ext a b) (h2 : Ext b c) : Ext a c := fun v x h => h2 v x (h1 v x h)
theorem Agrees.of_ext {σ : Nat → Nat} {a b : Row} (h : Ext a b) (hb : Agrees σ b) : Agrees σ a :=
  fun v x hv => hb v x (h v x hv)
theorem Bound.of_ext {a b : Row} {v : Nat} (h : Ext a b) (hb : Bound a v) : Bound b v := by
  obtain ⟨x, hx⟩ := hb; exact ⟨x, h v x hx⟩
theorem agrees_nil (σ : Nat → Nat) : Agrees σ [] := by
  intro v x h; simp [Row.get_nil] at h

/-- the valuation read off a row (unbound variables read 0) -/
def rowVal (row : Row) : Nat → Nat := fun v => (row.get v).getD 0

theorem agrees_rowVal (row : Row) : Agrees (rowVal row) row := by
  intro v x h; simp [rowVal, h]

/-! ### matching -/

theorem matchTerm_spec {t : Term} {x : Nat} {row row' : Row} (h : matchTerm t x row = some row') :
    Ext row row' ∧ (∀ v ∈ t.vars, Bound row' v) ∧ (∀ σ, Agrees σ row' → t.eval σ = x) := by
  cases t with
  | const c =>
    simp only [matchTerm] at h
    split at h
    · next hc =>
      cases h
      exact ⟨Ext.refl _, by simp [Term.vars], fun _ _ => by simp [Term.eval, hc]⟩
    · cases h
  | var v =>
    simp only [matchTerm] at h
    split at h
    · next y hy =>
      split at h
      · next hyx =>
        cases h
        refine ⟨Ext.refl _, ?_, ?_⟩
        · intro w hw; simp [Term.vars] at hw; subst hw; exact ⟨y, hy⟩
        · intro σ hσ; simp only [Term.eval]; rw [hσ v y hy, hyx]
      · cases h
    · next hn =>
      cases h
      refine ⟨?_, ?_, ?_⟩
      · intro w z hw
        rw [Row.get_cons]
        by_cases e : w = v
        · subst e; rw [hn] at hw; cases hw
        · simp [e, hw]
      · intro w hw; simp [Term.vars] at hw; subst hw; exact ⟨x, by simp [Row.get_cons]⟩
      · intro σ hσ; simp only [Term.eval]; exact hσ v x (by simp [Row.get_cons])

theorem matchTerm_complete {t : Term} {x : Nat} {row : Row} {σ : Nat → Nat}
    (hσ : Agrees σ row) (he : t.eval σ = x) : ∃ row', matchTerm t x row = some row' ∧ Agrees σ row' := by
  cases t with
  | const c =>
    simp only [Term.eval] at he
    exact ⟨row, by simp [matchTerm, he], hσ⟩
  | var v =>
    simp only [Term.eval] at he
    simp only [matchTerm]
    cases hg : row.get v with
    | some y =>
      have := hσ v y hg
      have hyx : y = x := by omega
      exact ⟨row, by simp [hyx], hσ⟩
    | none =>
      refine ⟨(v, x) :: row, rfl, ?_⟩
      intro w z hw
      rw [Row.get_cons] at hw
      by_cases e : w = v
      · subst e; simp at hw; omega
      · simp [e] at hw; exact hσ w z hw

theorem matchPat_spec {p : Pat} {f : Fact} {row row' : Row} (h : matchPat p f row = some row') :
    Ext row row' ∧ (∀ v ∈ p.vars, Bound row' v) ∧ (∀ σ, Agrees σ row' → p.eval σ = f) := by
  simp only [matchPat, Option.bind_eq_some_iff] at h
  obtain ⟨r1, h1, r2, h2, h3⟩ := h
  obtain ⟨e1, b1, a1⟩ := matchTerm_spec h1
  obtain ⟨e2, b2, a2⟩ := matchTerm_spec h2
  obtain ⟨e3, b3, a3⟩ := matchTerm_spec h3
  refine ⟨e1.trans (e2.trans e3), ?_, ?_⟩
  · intro v hv
    simp only [Pat.vars, List.mem_append] at hv
    rcases hv with (hv | hv) | hv
    · exact Bound.of_ext (e2.trans e3) (b1 v hv)
    · exact Bound.of_ext e3 (b2 v hv)
    · exact b3 v hv
  · intro σ hσ
    have hs2 := Agrees.of_ext e3 hσ
    have hs1 := Agrees.of_ext e2 hs2
    cases f
    simp only [Pat.eval, a1 σ hs1, a2 σ hs2, a3 σ hσ]

theorem matchPat_complete {p : Pat} {f : Fact} {row : Row} {σ : Nat → Nat}
    (hσ : Agrees σ row) (he : p.eval σ = f) : ∃ row', matchPat p f row = some row' ∧ Agrees σ row' := by
  subst he
  obtain ⟨r1, h1, a1⟩ := matchTerm_complete (t := p.s) (x := p.s.eval σ) hσ rfl
  obtain ⟨r2, h2, a2⟩ := matchTerm_complete (t := p.p) (x := p.p.eval σ) a1 rfl
  obtain ⟨r3, h3, a3⟩ := matchTerm_complete (t := p.o) (x := p.o.eval σ) a2 rfl
  exact ⟨r3, by simp [matchPat, Pat.eval, h1, h2, h3], a3⟩

theorem mem_joinPremise {p : Pat} {facts : List Fact} {rows : List Row} {row' : Row} :
    row' ∈ joinPremise p facts rows ↔ ∃ f ∈ facts, ∃ row ∈ rows, matchPat p f row = some row' := by
  simp [joinPremise, List.mem_flatMap, List.mem_filterMap]

/-! ### joining premises -/

theorem solveFrom_sound {G : List Fact} {ps : List Pat} {rows : List Row} {row' : Row}
    (h : row' ∈ solveFrom G ps rows) :
    ∃ row ∈ rows, Ext row row' ∧ (∀ v ∈ patsVars ps, Bound row' v) ∧
      ∀ σ, Agrees σ row' → ∀ p ∈ ps, p.eval σ ∈ G := by
  induction ps generalizing rows with
  | nil =>
    exact ⟨row', h, Ext.refl _, by simp [patsVars], by simp⟩
  | cons p ps ih =>
    simp only [solveFrom] at h
    obtain ⟨r1, hr1, e1, b1, a1⟩ := ih h
    obtain ⟨f, hf, row, hrow, hm⟩ := mem_joinPremise.1 hr1
    obtain ⟨e0, b0, a0⟩ := matchPat_spec hm
    refine ⟨row, hrow, e0.trans e1, ?_, ?_⟩
    · intro v hv
      simp only [patsVars, List.flatMap_cons, List.mem_append] at hv
      rcases hv with hv | hv
      · exact Bound.of_ext e1 (b0 v hv)
      · exact b1 v hv
    · intro σ hσ q hq
      simp only [List.mem_cons] at hq
      rcases hq with rfl | hq
      · rw [a0 σ (Agrees.of_ext e1 hσ)]; exact hf
      · exact a1 σ hσ q hq

theorem solveFrom_complete {G : List Fact} {ps : List Pat} {rows : List Row} {row : Row} {σ : Nat → Nat}
    (hrow : row ∈ rows) (hσ : Agrees σ row) (hp : ∀ p ∈ ps, p.eval σ ∈ G) :
    ∃ row' ∈ solveFrom G ps rows, Agrees σ row' := by
  induction ps generalizing rows row with
  | nil => exact ⟨row, hrow, hσ⟩
  | cons p ps ih =>
    obtain ⟨r1, hm, a1⟩ := matchPat_complete (p := p) (f := p.eval σ) hσ rfl
    have hj : r1 ∈ joinPremise p G rows :=
      mem_joinPremise.2 ⟨p.eval σ, hp p (by simp), row, hrow, hm⟩
    simp only [solveFrom]
    exact ih hj a1 (fun q hq => hp q (by simp [hq]))

theorem solveFrom_mono_rows {G : List Fact} {ps : List Pat} {rows rows' : List Row}
    (h : ∀ r ∈ rows, r ∈ rows') : ∀ r ∈ solveFrom G ps rows, r ∈ solveFrom G ps rows' := by
  induction ps generalizing rows rows' with
  | nil => exact h
  | cons p ps ih =>
    simp only [solveFrom]
    apply ih
    intro r hr
    obtain ⟨f, hf, row, hrow, hm⟩ := mem_joinPremise.1 hr
    exact mem_joinPremise.2 ⟨f, hf, row, h row hrow, hm⟩

/-! ### instantiation and filters -/

theorem Term.inst_eq_eval {t : Term} {row : Row} {σ : Nat → Nat}
    (hb : ∀ v ∈ t.vars, Bound row v) (hσ : Agrees σ row) : t.inst row = t.eval σ := by
  cases t with
  | const c => rfl
  | var v =>
    obtain ⟨x, hx⟩ := hb v (by simp [Term.vars])
    simp [Term.inst, Term.eval, hx, hσ v x hx]

theorem Pat.inst_eq_eval {p : Pat} {row : Row} {σ : Nat → Nat}
    (hb : ∀ v ∈ p.vars, Bound row v) (hσ : Agrees σ row) : p.inst row = p.eval σ := by
  simp only [Pat.inst, Pat.eval]
  rw [Term.inst_eq_eval (t := p.s) (fun v hv => hb v (by simp [Pat.vars, hv])) hσ,
      Term.inst_eq_eval (t := p.p) (fun v hv => hb v (by simp [Pat.vars, hv])) hσ,
      Term.inst_eq_eval (t := p.o) (fun v hv => hb v (by simp [Pat.vars, hv])) hσ]

theorem evalFilter_congr {val : Nat → Int} {g g' : Nat → Option Nat} {f : Filter}
    (h : ∀ v ∈ f.vars, g v = g' v) : evalFilter val g f = evalFilter val g' f := by
  have h1 : g f.v = g' f.v := h f.v (by simp [Filter.vars])
  unfold evalFilter
  rw [h1]
  cases hr : f.rhs with
  | num n => rfl
  | var w =>
    have h2 : g w = g' w := h w (by simp [Filter.vars, hr])
    simp only [h2]

theorem filtersOk_congr {val : Nat → Int} {g g' : Nat → Option Nat} {fs : List Filter}
    (h : ∀ v ∈ fs.flatMap Filter.vars, g v = g' v) : filtersOk val g fs = filtersOk val g' fs := by
  induction fs with
  | nil => rfl
  | cons f fs ih =>
    simp only [filtersOk, List.all_cons] at ih ⊢
    rw [evalFilter_congr (f := f) (fun v hv => h v (by simp [hv])), ih (fun v hv => h v (by
      simp only [List.flatMap_cons, List.mem_append]; exact Or.inr hv))]

theorem filtersOk_row {val : Nat → Int} {row : Row} {σ : Nat → Nat} {fs : List Filter}
    (hb : ∀ v ∈ fs.flatMap Filter.vars, Bound row v) (hσ : Agrees σ row) :
    filtersOk val row.get fs = filtersOk val (fun v => some (σ v)) fs := by
  apply filtersOk_congr
  intro v hv
  obtain ⟨x, hx⟩ := hb v hv
  rw [hx, hσ v x hx]

/-! ### `freshOf` -/

theorem mem_freshOf {known l : List Fact} {f : Fact} : f ∈ freshOf known l ↔ f ∈ l ∧ f ∉ known := by
  induction l with
  | nil => simp [freshOf]
  | cons a l ih =>
    simp only [freshOf]
    by_cases h : a ∈ known ∨ a ∈ freshOf known l
    · simp only [h, ↓reduceIte, ih, List.mem_cons]
      constructor
      · rintro ⟨h1, h2⟩; exact ⟨Or.inr h1, h2⟩
      · rintro ⟨h1 | h1, h2⟩
        · subst h1
          rcases h with h | h
          · exact absurd h h2
          · exact ih.1 h
        · exact ⟨h1, h2⟩
    · simp only [h, ↓reduceIte, List.mem_cons, ih]
      have hk : a ∉ known := fun x => h (Or.inl x)
      constructor
      · rintro (rfl | ⟨h1, h2⟩)
        · exact ⟨Or.inl rfl, hk⟩
        · exact ⟨Or.inr h1, h2⟩
      · rintro ⟨rfl | h1, h2⟩
        · exact Or.inl rfl
        · exact Or.inr ⟨h1, h2⟩

theorem freshOf_eq_nil {known l : List Fact} : freshOf known l = [] ↔ ∀ f ∈ l, f ∈ known := by
  constructor
  · intro h f hf
    apply Classical.byContradiction
    intro hk
    have : f ∈ freshOf known l := mem_freshOf.2 ⟨hf, hk⟩
    rw [h] at this; cases this
  · intro h
    apply List.eq_nil_iff_forall_not_mem.2
    intro f hf
    exact (mem_freshOf.1 hf).2 (h f (mem_freshOf.1 hf).1)

theorem isEmpty_eq_true_iff {α} (l : List α) : l.isEmpty = true ↔ l = [] := by
  cases l <;> simp

/-! ### immediate consequences -/

/-- `f` is an immediate consequence of the facts satisfying `S` (rules read positively) -/
def Conseq (val : Nat → Int) (P : List Rule) (S : Fact → Prop) (f : Fact) : Prop :=
  ∃ r ∈ P, ∃ σ : Nat → Nat, (∀ p ∈ r.premise, S (p.eval σ)) ∧ FiltersHold val σ r.filters ∧
    ∃ c ∈ r.conclusion, f = c.eval σ

/-- closed under the immediate-consequence operator `T_P` -/
def Closed (val : Nat → Int) (P : List Rule) (S : List Fact) : Prop :=
  ∀ f, Conseq val P (· ∈ S) f → f ∈ S

theorem Rule.safe_iff (r : Rule) : r.safe = true ↔
    r.premise ≠ [] ∧ (∀ v ∈ patsVars r.conclusion, v ∈ patsVars r.premise) ∧
    (∀ v ∈ r.filters.flatMap Filter.vars, v ∈ patsVars r.premise) ∧
    (∀ v ∈ patsVars r.negative, v ∈ patsVars r.premise) := by
  simp only [Rule.safe, negSafe, Bool.and_eq_true, List.all_eq_true, decide_eq_true_eq, Bool.not_eq_true',
    List.isEmpty_eq_false_iff, ne_eq, and_assoc]

theorem mem_fire {val : Nat → Int} {r : Rule} {rows : List Row} {f : Fact} :
    f ∈ fire val r rows ↔ ∃ row ∈ rows, filtersOk val row.get r.filters = true ∧ ∃ c ∈ r.conclusion, f = c.inst row := by
  simp only [fire, List.mem_flatMap, List.mem_filter, List.mem_map]
  constructor
  · rintro ⟨row, ⟨h1, h2⟩, c, hc, rfl⟩; exact ⟨row, h1, h2, c, hc, rfl⟩
  · rintro ⟨row, h1, h2, c, hc, rfl⟩; exact ⟨row, ⟨h1, h2⟩, c, hc, rfl⟩

/-- rows that bind every premise variable and whose every agreeing valuation satisfies the premises in `G` -/
def SoundRows (G : List Fact) (r : Rule) (rows : List Row) : Prop :=
  ∀ row ∈ rows, (∀ v ∈ patsVars r.premise, Bound row v) ∧ ∀ σ, Agrees σ row → ∀ p ∈ r.premise, p.eval σ ∈ G

theorem patVars_sub {c : Pat} {cs : List Pat} (hc : c ∈ cs) : ∀ v ∈ c.vars, v ∈ patsVars cs := by
  intro v hv
  simp only [patsVars, List.mem_flatMap]
  exact ⟨c, hc, hv⟩

theorem fire_sound {val : Nat → Int} {G : List Fact} {r : Rule} {rows : List Row} {f : Fact}
    (hs : r.safe = true) (hr : SoundRows G r rows) (hf : f ∈ fire val r rows) :
    ∃ σ : Nat → Nat, (∀ p ∈ r.premise, p.eval σ ∈ G) ∧ FiltersHold val σ r.filters ∧
      ∃ c ∈ r.conclusion, f = c.eval σ := by
  obtain ⟨_, hc, hfl, _⟩ := (Rule.safe_iff r).1 hs
  obtain ⟨row, hrow, hfo, c, hcc, rfl⟩ := mem_fire.1 hf
  obtain ⟨hb, ha⟩ := hr row hrow
  refine ⟨rowVal row, ha _ (agrees_rowVal row), ?_, c, hcc, ?_⟩
  · unfold FiltersHold
    rw [← filtersOk_row (fun v hv => hb v (hfl v hv)) (agrees_rowVal row)]
    exact hfo
  · exact Pat.inst_eq_eval (fun v hv => hb v (hc v (patVars_sub hcc v hv))) (agrees_rowVal row)

theorem fire_complete {val : Nat → Int} {G : List Fact} {r : Rule} {rows : List Row} {row : Row} {σ : Nat → Nat}
    {c : Pat} (hs : r.safe = true) (hr : SoundRows G r rows) (hrow : row ∈ rows) (hσ : Agrees σ row)
    (hfl : FiltersHold val σ r.filters) (hc : c ∈ r.conclusion) : c.eval σ ∈ fire val r rows := by
  obtain ⟨_, hcv, hfv, _⟩ := (Rule.safe_iff r).1 hs
  obtain ⟨hb, _⟩ := hr row hrow
  refine mem_fire.2 ⟨row, hrow, ?_, c, hc, ?_⟩
  · rw [filtersOk_row (fun v hv => hb v (hfv v hv)) hσ]; exact hfl
  · exact (Pat.inst_eq_eval (fun v hv => hb v (hcv v (patVars_sub hc v hv))) hσ).symm

/-! ### naive round -/

theorem soundRows_naive (all : List Fact) (r : Rule) : SoundRows all r (solNaive all r) := by
  intro row hrow
  unfold solNaive at hrow
  split at hrow
  · cases hrow
  · obtain ⟨_, _, _, hb, ha⟩ := solveFrom_sound hrow
    exact ⟨hb, ha⟩

theorem roundNaive_sound {val : Nat → Int} {P : List Rule} {all : List Fact} {f : Fact}
    (hs : allSafe P = true) (hf : f ∈ roundNaive val P all) : f ∉ all ∧ Conseq val P (· ∈ all) f := by
  obtain ⟨h1, h2⟩ := mem_freshOf.1 hf
  refine ⟨h2, ?_⟩
  obtain ⟨r, hr, hfr⟩ := List.mem_flatMap.1 h1
  have hsr : r.safe = true := by
    simp only [allSafe, List.all_eq_true] at hs; exact hs r hr
  obtain ⟨σ, hp, hfl, c, hc, rfl⟩ := fire_sound hsr (soundRows_naive all r) hfr
  exact ⟨r, hr, σ, hp, hfl, c, hc, rfl⟩

theorem roundNaive_complete {val : Nat → Int} {P : List Rule} {all : List Fact} {f : Fact}
    (hs : allSafe P = true) (hf : Conseq val P (· ∈ all) f) : f ∈ all ∨ f ∈ roundNaive val P all := by
  obtain ⟨r, hr, σ, hp, hfl, c, hc, rfl⟩ := hf
  have hsr : r.safe = true := by
    simp only [allSafe, List.all_eq_true] at hs; exact hs r hr
  by_cases hin : c.eval σ ∈ all
  · exact Or.inl hin
  · right
    refine mem_freshOf.2 ⟨List.mem_flatMap.2 ⟨r, hr, ?_⟩, hin⟩
    obtain ⟨row, hrow, ha⟩ := solveFrom_complete (G := all) (ps := r.premise) (rows := [[]]) (row := [])
      (by simp) (agrees_nil σ) hp
    have hne : r.premise.isEmpty = false := by
      have := ((Rule.safe_iff r).1 hsr).1
      cases h : r.premise with
      | nil => exact absurd h this
      | cons _ _ => rfl
    have hrow' : row ∈ solNaive all r := by simp only [solNaive, hne]; exact hrow
    exact fire_complete hsr (soundRows_naive all r) hrow' ha hfl hc

/-! ### the least model -/

theorem derivable_of_conseq {val : Nat → Int} {P : List Rule} {F : List Fact} {f : Fact}
    (h : Conseq val P (Derivable val P F) f) : Derivable val P F f := by
  obtain ⟨r, hr, σ, hp, hfl, c, hc, rfl⟩ := h
  exact Derivable.step σ hr hp hfl hc

theorem conseq_mono {val : Nat → Int} {P : List Rule} {S T : Fact → Prop} (h : ∀ f, S f → T f) {f : Fact}
    (hc : Conseq val P S f) : Conseq val P T f := by
  obtain ⟨r, hr, σ, hp, hfl, c, hcc, rfl⟩ := hc
  exact ⟨r, hr, σ, fun p hpp => h _ (hp p hpp), hfl, c, hcc, rfl⟩

theorem derivable_sub_closed {val : Nat → Int} {P : List Rule} {F S : List Fact}
    (hF : ∀ f ∈ F, f ∈ S) (hc : Closed val P S) : ∀ f, Derivable val P F f → f ∈ S := by
  intro f hf
  induction hf with
  | base h => exact hF _ h
  | step σ hr _ hfl hcc ih => exact hc _ ⟨_, hr, σ, ih, hfl, _, hcc, rfl⟩

/-! ### the fixpoint driver -/

/-- If `drive` reports a fixpoint, any invariant of the loop holds at the final state, and the last round
    inferred nothing. -/
theorem drive_exit {σ : Type} {round : σ → List Fact → σ × List Fact} (I : σ → List Fact → Prop)
    (hstep : ∀ st all, I st all → (round st all).2 ≠ [] →
      I (round st all).1 (all ++ freshOf all (round st all).2))
    {fuel : Nat} {st : σ} {all S : List Fact} (h : drive round fuel st all = some S) (hI : I st all) :
    ∃ st', I st' S ∧ (round st' S).2 = [] := by
  induction fuel generalizing st all with
  | zero => simp [drive] at h
  | succ n ih =>
    simp only [drive] at h
    split at h
    · next he =>
      cases h
      exact ⟨st, hI, (isEmpty_eq_true_iff _).1 he⟩
    · next he =>
      apply ih h
      apply hstep st all hI
      intro hnil; rw [hnil] at he; exact he rfl

theorem mem_append_freshOf {all new : List Fact} {f : Fact} : f ∈ all ++ freshOf all new ↔ f ∈ all ∨ f ∈ new := by
  simp only [List.mem_append, mem_freshOf]
  constructor
  · rintro (h | ⟨h, _⟩)
    · exact Or.inl h
    · exact Or.inr h
  · rintro (h | h)
    · exact Or.inl h
    · by_cases hk : f ∈ all
      · exact Or.inl hk
      · exact Or.inr ⟨h, hk⟩

theorem inferNaive_exit {val : Nat → Int} {P : List Rule} {fuel : Nat} {F S : List Fact}
    (hs : allSafe P = true) (h : inferNaive val P fuel F = some S) :
    (∀ f ∈ F, f ∈ S) ∧ (∀ f ∈ S, Derivable val P F f) ∧ roundNaive val P S = [] := by
  have := drive_exit (round := fun (_ : Unit) all => ((), roundNaive val P all))
    (fun _ all => (∀ f ∈ F, f ∈ all) ∧ (∀ f ∈ all, Derivable val P F f))
    (by
      intro _ all ⟨h1, h2⟩ _
      refine ⟨fun f hf => List.mem_append_left _ (h1 f hf), ?_⟩
      intro f hf
      rcases mem_append_freshOf.1 hf with hf | hf
      · exact h2 f hf
      · exact derivable_of_conseq (conseq_mono (fun g hg => h2 g hg) (roundNaive_sound hs hf).2))
    h ⟨fun f hf => hf, fun f hf => Derivable.base hf⟩
  obtain ⟨_, ⟨h1, h2⟩, h3⟩ := this
  exact ⟨h1, h2, h3⟩

theorem closed_of_roundNaive_nil {val : Nat → Int} {P : List Rule} {S : List Fact}
    (hs : allSafe P = true) (h : roundNaive val P S = []) : Closed val P S := by
  intro f hf
  rcases roundNaive_complete hs hf with h1 | h1
  · exact h1
  · rw [h] at h1; cases h1

/-! ### semi-naive round -/

theorem split_at_index {α} {l : List α} {i : Nat} {a : α} (h : l[i]? = some a) :
    l = l.take i ++ a :: l.drop (i + 1) := by
  induction l generalizing i with
  | nil => simp at h
  | cons b l ih =>
    cases i with
    | zero => simp at h; simp [h]
    | succ n =>
      simp only [List.getElem?_cons_succ] at h
      simp only [List.take_succ_cons, List.drop_succ_cons, List.cons_append]
      rw [← ih h]

theorem mem_split {α} {l : List α} {i : Nat} {a : α} (h : l[i]? = some a) (q : α) :
    q ∈ l ↔ q ∈ l.take i ∨ q = a ∨ q ∈ l.drop (i + 1) := by
  have e := split_at_index h
  constructor
  · intro hq
    rw [e] at hq
    simpa [List.mem_append, List.mem_cons] using hq
  · intro hq
    rw [e]
    simpa [List.mem_append, List.mem_cons] using hq

theorem mem_patsVars {ps : List Pat} {v : Nat} : v ∈ patsVars ps ↔ ∃ p ∈ ps, v ∈ p.vars := by
  simp [patsVars, List.mem_flatMap]

theorem soundRows_semiAt {all delta : List Fact} {prems : List Pat} {i : Nat} {row : Row}
    (hd : ∀ f ∈ delta, f ∈ all) (hrow : row ∈ solSemiAt all delta prems i) :
    (∀ v ∈ patsVars prems, Bound row v) ∧ ∀ σ, Agrees σ row → ∀ q ∈ prems, q.eval σ ∈ all := by
  unfold solSemiAt at hrow
  cases h : prems[i]? with
  | none => simp [h] at hrow
  | some p =>
    simp only [h] at hrow
    obtain ⟨r1, hr1, e1, b1, a1⟩ := solveFrom_sound hrow
    obtain ⟨r0, hr0, e0, b0, a0⟩ := solveFrom_sound hr1
    obtain ⟨f, hf, rz, _, hm⟩ := mem_joinPremise.1 hr0
    obtain ⟨_, bp, ap⟩ := matchPat_spec hm
    constructor
    · intro v hv
      obtain ⟨q, hq, hvq⟩ := mem_patsVars.1 hv
      rcases (mem_split h q).1 hq with hq | rfl | hq
      · exact Bound.of_ext e1 (b0 v (mem_patsVars.2 ⟨q, hq, hvq⟩))
      · exact Bound.of_ext (e0.trans e1) (bp v hvq)
      · exact b1 v (mem_patsVars.2 ⟨q, hq, hvq⟩)
    · intro σ hσ q hq
      rcases (mem_split h q).1 hq with hq | rfl | hq
      · exact a0 σ (Agrees.of_ext e1 hσ) q hq
      · rw [ap σ (Agrees.of_ext (e0.trans e1) hσ)]; exact hd f hf
      · exact a1 σ hσ q hq

theorem solSemiAt_complete {all delta : List Fact} {prems : List Pat} {i : Nat} {p : Pat} {σ : Nat → Nat}
    (h : prems[i]? = some p) (hp : p.eval σ ∈ delta) (hall : ∀ q ∈ prems, q.eval σ ∈ all) :
    ∃ row ∈ solSemiAt all delta prems i, Agrees σ row := by
  obtain ⟨r0, hm, a0⟩ := matchPat_complete (p := p) (f := p.eval σ) (agrees_nil σ) rfl
  have hj : r0 ∈ joinPremise p delta [[]] := mem_joinPremise.2 ⟨p.eval σ, hp, [], by simp, hm⟩
  obtain ⟨r1, hr1, a1⟩ := solveFrom_complete (G := all) (ps := prems.take i) hj a0
    (fun q hq => hall q ((mem_split h q).2 (Or.inl hq)))
  obtain ⟨r2, hr2, a2⟩ := solveFrom_complete (G := all) (ps := prems.drop (i + 1)) hr1 a1
    (fun q hq => hall q ((mem_split h q).2 (Or.inr (Or.inr hq))))
  refine ⟨r2, ?_, a2⟩
  simp only [solSemiAt, h]
  exact hr2

theorem mem_solSemi {all delta : List Fact} {r : Rule} {row : Row} :
    row ∈ solSemi all delta r ↔ ∃ i, i < r.premise.length ∧ row ∈ solSemiAt all delta r.premise i := by
  simp [solSemi, List.mem_flatMap, List.mem_range]

theorem soundRows_semi {all delta : List Fact} (hd : ∀ f ∈ delta, f ∈ all) (r : Rule) :
    SoundRows all r (solSemi all delta r) := by
  intro row hrow
  obtain ⟨i, _, hi⟩ := mem_solSemi.1 hrow
  exact soundRows_semiAt hd hi

theorem mem_drop_sub {α} {l : List α} {n : Nat} : ∀ a ∈ l.drop n, a ∈ l :=
  fun _ h => List.mem_of_mem_drop h

theorem roundSemi_sound {val : Nat → Int} {P : List Rule} {start : Nat} {all : List Fact} {f : Fact}
    (hs : allSafe P = true) (hf : f ∈ (roundSemi val P start all).2) :
    f ∉ all ∧ Conseq val P (· ∈ all) f := by
  simp only [roundSemi] at hf
  obtain ⟨h1, h2⟩ := mem_freshOf.1 hf
  refine ⟨h2, ?_⟩
  obtain ⟨r, hr, hfr⟩ := List.mem_flatMap.1 h1
  have hsr : r.safe = true := by
    simp only [allSafe, List.all_eq_true] at hs; exact hs r hr
  obtain ⟨σ, hp, hfl, c, hc, rfl⟩ := fire_sound hsr (soundRows_semi mem_drop_sub r) hfr
  exact ⟨r, hr, σ, hp, hfl, c, hc, rfl⟩

theorem roundSemi_complete {val : Nat → Int} {P : List Rule} {start : Nat} {all : List Fact}
    {r : Rule} {σ : Nat → Nat} {c : Pat}
    (hs : allSafe P = true) (hr : r ∈ P) (hall : ∀ q ∈ r.premise, q.eval σ ∈ all)
    (hd : ∃ p ∈ r.premise, p.eval σ ∈ all.drop start) (hfl : FiltersHold val σ r.filters)
    (hc : c ∈ r.conclusion) : c.eval σ ∈ all ∨ c.eval σ ∈ (roundSemi val P start all).2 := by
  have hsr : r.safe = true := by
    simp only [allSafe, List.all_eq_true] at hs; exact hs r hr
  by_cases hin : c.eval σ ∈ all
  · exact Or.inl hin
  · right
    simp only [roundSemi]
    refine mem_freshOf.2 ⟨List.mem_flatMap.2 ⟨r, hr, ?_⟩, hin⟩
    obtain ⟨p, hp, hpd⟩ := hd
    obtain ⟨i, hi⟩ := List.mem_iff_getElem?.1 hp
    obtain ⟨row, hrow, ha⟩ := solSemiAt_complete hi hpd hall
    have hlt : i < r.premise.length := by
      obtain ⟨hlt, _⟩ := List.getElem?_eq_some_iff.1 hi; exact hlt
    have hrow' : row ∈ solSemi all (all.drop start) r := mem_solSemi.2 ⟨i, hlt, hrow⟩
    exact fire_complete hsr (soundRows_semi mem_drop_sub r) hrow' ha hfl hc

/-- invariant of the semi-naive loop: everything is derivable, and every consequence of the facts *before* the
    delta window is already present -/
def SemiInv (val : Nat → Int) (P : List Rule) (F : List Fact) (start : Nat) (all : List Fact) : Prop :=
  (∀ f ∈ F, f ∈ all) ∧ (∀ f ∈ all, Derivable val P F f) ∧
  (∀ f, Conseq val P (· ∈ all.take start) f → f ∈ all)

/-- the delta lemma: a consequence of `all` is old, or needs a premise from the delta and is found by the round -/
theorem semi_step_closed {val : Nat → Int} {P : List Rule} {F : List Fact} {start : Nat} {all : List Fact}
    (hs : allSafe P = true) (hI : SemiInv val P F start all) {f : Fact} (hf : Conseq val P (· ∈ all) f) :
    f ∈ all ∨ f ∈ (roundSemi val P start all).2 := by
  obtain ⟨r, hr, σ, hp, hfl, c, hc, rfl⟩ := hf
  by_cases hd : ∃ p ∈ r.premise, p.eval σ ∈ all.drop start
  · exact roundSemi_complete hs hr hp hd hfl hc
  · left
    apply hI.2.2
    refine ⟨r, hr, σ, ?_, hfl, c, hc, rfl⟩
    intro p hpp
    have : p.eval σ ∈ all.take start ++ all.drop start := by rw [List.take_append_drop]; exact hp p hpp
    rcases List.mem_append.1 this with h | h
    · exact h
    · exact absurd ⟨p, hpp, h⟩ hd

theorem semiInv_init {val : Nat → Int} {P : List Rule} {F : List Fact} (hs : allSafe P = true) :
    SemiInv val P F 0 F := by
  refine ⟨fun f hf => hf, fun f hf => Derivable.base hf, ?_⟩
  rintro f ⟨r, hr, σ, hp, _⟩
  have hsr : r.safe = true := by
    simp only [allSafe, List.all_eq_true] at hs; exact hs r hr
  have hne := ((Rule.safe_iff r).1 hsr).1
  cases hprem : r.premise with
  | nil => exact absurd hprem hne
  | cons p ps =>
    have := hp p (by simp [hprem])
    simp at this

theorem semiInv_step {val : Nat → Int} {P : List Rule} {F : List Fact} {start : Nat} {all : List Fact}
    (hs : allSafe P = true) (hI : SemiInv val P F start all) :
    SemiInv val P F (roundSemi val P start all).1 (all ++ freshOf all (roundSemi val P start all).2) := by
  refine ⟨fun f hf => List.mem_append_left _ (hI.1 f hf), ?_, ?_⟩
  · intro f hf
    rcases mem_append_freshOf.1 hf with hf | hf
    · exact hI.2.1 f hf
    · exact derivable_of_conseq (conseq_mono (fun g hg => hI.2.1 g hg) (roundSemi_sound hs hf).2)
  · intro f hf
    have h1 : (roundSemi val P start all).1 = all.length := rfl
    rw [h1, List.take_left'  rfl] at hf
    exact mem_append_freshOf.2 (semi_step_closed hs hI hf)

theorem inferSemi_exit {val : Nat → Int} {P : List Rule} {fuel : Nat} {F S : List Fact}
    (hs : allSafe P = true) (h : inferSemi val P fuel F = some S) :
    (∀ f ∈ F, f ∈ S) ∧ (∀ f ∈ S, Derivable val P F f) ∧ Closed val P S := by
  obtain ⟨st, hI, hnil⟩ := drive_exit (round := roundSemi val P) (SemiInv val P F)
    (fun st all hI _ => semiInv_step hs hI) h (semiInv_init hs)
  refine ⟨hI.1, hI.2.1, ?_⟩
  intro f hf
  rcases semi_step_closed hs hI hf with h1 | h1
  · exact h1
  · rw [hnil] at h1; cases h1

/-! ### iterates (the loop without its exit test) and semi-naive = naive -/

/-- `k` rounds of the driver loop, no exit test -/
def iter {σ : Type} (round : σ → List Fact → σ × List Fact) : Nat → σ → List Fact → σ × List Fact
  | 0, st, all => (st, all)
  | k + 1, st, all => iter round k (round st all).1 (all ++ freshOf all (round st all).2)

def naiveRound (val : Nat → Int) (P : List Rule) : Unit → List Fact → Unit × List Fact :=
  fun _ all => ((), roundNaive val P all)

def iterNaive (val : Nat → Int) (P : List Rule) (k : Nat) (F : List Fact) : List Fact :=
  (iter (naiveRound val P) k () F).2

def iterSemi (val : Nat → Int) (P : List Rule) (k : Nat) (F : List Fact) : List Fact :=
  (iter (roundSemi val P) k 0 F).2

/-- a run that reports a fixpoint is a finite iterate whose next round is empty -/
theorem drive_iter {σ : Type} {round : σ → List Fact → σ × List Fact} {fuel : Nat} {st : σ} {all S : List Fact}
    (h : drive round fuel st all = some S) :
    ∃ k, k < fuel ∧ (iter round k st all).2 = S ∧ (round (iter round k st all).1 S).2 = [] := by
  induction fuel generalizing st all with
  | zero => simp [drive] at h
  | succ n ih =>
    simp only [drive] at h
    split at h
    · next he =>
      cases h
      exact ⟨0, Nat.succ_pos n, rfl, (isEmpty_eq_true_iff _).1 he⟩
    · obtain ⟨k, hk, h1, h2⟩ := ih h
      exact ⟨k + 1, Nat.succ_lt_succ hk, h1, h2⟩

theorem mem_roundNaive_iff {val : Nat → Int} {P : List Rule} {all : List Fact} {f : Fact}
    (hs : allSafe P = true) : f ∈ roundNaive val P all ↔ f ∉ all ∧ Conseq val P (· ∈ all) f := by
  constructor
  · exact roundNaive_sound hs
  · rintro ⟨h1, h2⟩
    rcases roundNaive_complete hs h2 with h | h
    · exact absurd h h1
    · exact h

theorem mem_roundSemi_iff {val : Nat → Int} {P : List Rule} {F : List Fact} {start : Nat} {all : List Fact} {f : Fact}
    (hs : allSafe P = true) (hI : SemiInv val P F start all) :
    f ∈ (roundSemi val P start all).2 ↔ f ∉ all ∧ Conseq val P (· ∈ all) f := by
  constructor
  · exact roundSemi_sound hs
  · rintro ⟨h1, h2⟩
    rcases semi_step_closed hs hI h2 with h | h
    · exact absurd h h1
    · exact h

theorem conseq_congr {val : Nat → Int} {P : List Rule} {a a' : List Fact} (h : ∀ f, f ∈ a ↔ f ∈ a') {f : Fact} :
    Conseq val P (· ∈ a) f ↔ Conseq val P (· ∈ a') f :=
  ⟨conseq_mono (fun g hg => (h g).1 hg), conseq_mono (fun g hg => (h g).2 hg)⟩

theorem iter_semi_naive {val : Nat → Int} {P : List Rule} {F : List Fact} (hs : allSafe P = true) :
    ∀ (k : Nat) (st : Nat) (a a' : List Fact), SemiInv val P F st a → (∀ f, f ∈ a ↔ f ∈ a') →
      ∀ f, f ∈ (iter (roundSemi val P) k st a).2 ↔ f ∈ (iter (naiveRound val P) k () a').2 := by
  intro k
  induction k with
  | zero => intro st a a' _ h f; exact h f
  | succ k ih =>
    intro st a a' hI h
    simp only [iter]
    apply ih _ _ _ (semiInv_step hs hI)
    intro f
    rw [mem_append_freshOf, mem_append_freshOf]
    simp only [naiveRound]
    rw [mem_roundSemi_iff hs hI, mem_roundNaive_iff hs, h f, conseq_congr h]

/-! ### negation: one stratum -/

/-- immediate consequences with negated atoms judged against `L` -/
def ConseqN (val : Nat → Int) (P : List Rule) (S L : Fact → Prop) (f : Fact) : Prop :=
  ∃ r ∈ P, ∃ σ : Nat → Nat, (∀ p ∈ r.premise, S (p.eval σ)) ∧ (∀ n ∈ r.negative, ¬ L (n.eval σ)) ∧
    FiltersHold val σ r.filters ∧ ∃ c ∈ r.conclusion, f = c.eval σ

theorem Term.resolve_eq {t : Term} {row : Row} {σ : Nat → Nat}
    (hb : ∀ v ∈ t.vars, Bound row v) (hσ : Agrees σ row) : t.resolve row = some (t.eval σ) := by
  cases t with
  | const c => rfl
  | var v =>
    obtain ⟨x, hx⟩ := hb v (by simp [Term.vars])
    simp [Term.resolve, Term.eval, hx, hσ v x hx]

theorem Pat.resolve_eq {p : Pat} {row : Row} {σ : Nat → Nat}
    (hb : ∀ v ∈ p.vars, Bound row v) (hσ : Agrees σ row) : p.resolve row = some (p.eval σ) := by
  simp only [Pat.resolve, Pat.eval]
  rw [Term.resolve_eq (t := p.s) (fun v hv => hb v (by simp [Pat.vars, hv])) hσ,
      Term.resolve_eq (t := p.p) (fun v hv => hb v (by simp [Pat.vars, hv])) hσ,
      Term.resolve_eq (t := p.o) (fun v hv => hb v (by simp [Pat.vars, hv])) hσ]
  rfl

theorem negOk_iff {low : List Fact} {row : Row} {σ : Nat → Nat} {n : Pat}
    (hb : ∀ v ∈ n.vars, Bound row v) (hσ : Agrees σ row) : negOk low row n = true ↔ n.eval σ ∉ low := by
  simp [negOk, Pat.resolve_eq hb hσ]

theorem soundRows_sub {G : List Fact} {r : Rule} {rows rows' : List Row} (h : ∀ x ∈ rows', x ∈ rows)
    (hs : SoundRows G r rows) : SoundRows G r rows' := fun row hrow => hs row (h row hrow)

/-- `fire_sound` that also returns the row -/
theorem fire_sound_row {val : Nat → Int} {G : List Fact} {r : Rule} {rows : List Row} {f : Fact}
    (hs : r.safe = true) (hr : SoundRows G r rows) (hf : f ∈ fire val r rows) :
    ∃ row ∈ rows, (∀ p ∈ r.premise, p.eval (rowVal row) ∈ G) ∧ FiltersHold val (rowVal row) r.filters ∧
      ∃ c ∈ r.conclusion, f = c.eval (rowVal row) := by
  obtain ⟨_, hc, hfl, _⟩ := (Rule.safe_iff r).1 hs
  obtain ⟨row, hrow, hfo, c, hcc, rfl⟩ := mem_fire.1 hf
  obtain ⟨hb, ha⟩ := hr row hrow
  refine ⟨row, hrow, ha _ (agrees_rowVal row), ?_, c, hcc, ?_⟩
  · unfold FiltersHold
    rw [← filtersOk_row (fun v hv => hb v (hfl v hv)) (agrees_rowVal row)]
    exact hfo
  · exact Pat.inst_eq_eval (fun v hv => hb v (hc v (patVars_sub hcc v hv))) (agrees_rowVal row)

theorem soundRows_solve (G : List Fact) (r : Rule) : SoundRows G r (solveFrom G r.premise [[]]) := by
  intro row hrow
  obtain ⟨_, _, _, hb, ha⟩ := solveFrom_sound hrow
  exact ⟨hb, ha⟩

/-- rule evaluation with negation against `low` (shared by `tpStep` and `negPass`) -/
def fireNeg (val : Nat → Int) (low S : List Fact) (r : Rule) : List Fact :=
  fire val r ((solveFrom S r.premise [[]]).filter fun row => r.negative.all (negOk low row))

theorem fireNeg_sound {val : Nat → Int} {low S : List Fact} {r : Rule} {f : Fact} (hs : r.safe = true)
    (hf : f ∈ fireNeg val low S r) :
    ∃ σ : Nat → Nat, (∀ p ∈ r.premise, p.eval σ ∈ S) ∧ (∀ n ∈ r.negative, n.eval σ ∉ low) ∧
      FiltersHold val σ r.filters ∧ ∃ c ∈ r.conclusion, f = c.eval σ := by
  have hsr : SoundRows S r ((solveFrom S r.premise [[]]).filter fun row => r.negative.all (negOk low row)) :=
    soundRows_sub (fun x hx => (List.mem_filter.1 hx).1) (soundRows_solve S r)
  obtain ⟨row, hrow, hp, hfl, c, hc, rfl⟩ := fire_sound_row hs hsr hf
  obtain ⟨hrow1, hneg⟩ := List.mem_filter.1 hrow
  obtain ⟨hb, _⟩ := soundRows_solve S r row hrow1
  obtain ⟨_, _, _, hnv⟩ := (Rule.safe_iff r).1 hs
  refine ⟨rowVal row, hp, ?_, hfl, c, hc, rfl⟩
  intro n hn
  rw [List.all_eq_true] at hneg
  exact (negOk_iff (fun v hv => hb v (hnv v (patVars_sub hn v hv))) (agrees_rowVal row)).1 (hneg n hn)

theorem fireNeg_complete {val : Nat → Int} {low S : List Fact} {r : Rule} {σ : Nat → Nat} {c : Pat}
    (hs : r.safe = true) (hp : ∀ p ∈ r.premise, p.eval σ ∈ S) (hn : ∀ n ∈ r.negative, n.eval σ ∉ low)
    (hfl : FiltersHold val σ r.filters) (hc : c ∈ r.conclusion) : c.eval σ ∈ fireNeg val low S r := by
  obtain ⟨row, hrow, ha⟩ := solveFrom_complete (G := S) (ps := r.premise) (rows := [[]]) (row := [])
    (by simp) (agrees_nil σ) hp
  obtain ⟨hb, _⟩ := soundRows_solve S r row hrow
  obtain ⟨_, _, _, hnv⟩ := (Rule.safe_iff r).1 hs
  have hrow' : row ∈ (solveFrom S r.premise [[]]).filter fun row => r.negative.all (negOk low row) := by
    refine List.mem_filter.2 ⟨hrow, ?_⟩
    rw [List.all_eq_true]
    intro n hnn
    exact (negOk_iff (fun v hv => hb v (hnv v (patVars_sub hnn v hv))) ha).2 (hn n hnn)
  exact fire_complete hs (soundRows_sub (fun x hx => (List.mem_filter.1 hx).1) (soundRows_solve S r)) hrow' ha hfl hc

theorem safe_of_allSafe {P : List Rule} {r : Rule} (hs : allSafe P = true) (hr : r ∈ P) : r.safe = true := by
  simp only [allSafe, List.all_eq_true] at hs; exact hs r hr

theorem mem_tpStep_iff {val : Nat → Int} {low S : List Fact} {P : List Rule} {f : Fact} (hs : allSafe P = true) :
    f ∈ tpStep val low P S ↔ ConseqN val P (· ∈ S) (· ∈ low) f := by
  constructor
  · intro hf
    obtain ⟨r, hr, hfr⟩ := List.mem_flatMap.1 hf
    obtain ⟨σ, h1, h2, h3, h4⟩ := fireNeg_sound (safe_of_allSafe hs hr) hfr
    exact ⟨r, hr, σ, h1, h2, h3, h4⟩
  · rintro ⟨r, hr, σ, h1, h2, h3, c, hc, rfl⟩
    exact List.mem_flatMap.2 ⟨r, hr, fireNeg_complete (safe_of_allSafe hs hr) h1 h2 h3 hc⟩

theorem lfpFrom_exit {val : Nat → Int} {low : List Fact} {P : List Rule} (I : List Fact → Prop)
    (hstep : ∀ S, I S → I (S ++ freshOf S (tpStep val low P S)))
    {fuel : Nat} {S0 S : List Fact} (h : lfpFrom val low P fuel S0 = some S) (hI : I S0) :
    I S ∧ freshOf S (tpStep val low P S) = [] := by
  induction fuel generalizing S0 with
  | zero => simp [lfpFrom] at h
  | succ n ih =>
    simp only [lfpFrom] at h
    split at h
    · next he => cases h; exact ⟨hI, (isEmpty_eq_true_iff _).1 he⟩
    · exact ih h (hstep S0 hI)

theorem allSafe_filter {P : List Rule} (q : Rule → Bool) (hs : allSafe P = true) : allSafe (P.filter q) = true := by
  simp only [allSafe, List.all_eq_true] at hs ⊢
  intro r hr; exact hs r (List.mem_filter.1 hr).1

theorem mem_posRules {P : List Rule} {r : Rule} : r ∈ posRules P ↔ r ∈ P ∧ r.negative = [] := by
  simp [posRules, List.mem_filter]

theorem mem_negRules {P : List Rule} {r : Rule} : r ∈ negRules P ↔ r ∈ P ∧ r.negative ≠ [] := by
  simp [negRules, List.mem_filter]

theorem conseqN_pos {val : Nat → Int} {P : List Rule} {S L : Fact → Prop} {f : Fact} :
    ConseqN val (posRules P) S L f ↔ Conseq val (posRules P) S f := by
  constructor
  · rintro ⟨r, hr, σ, h1, _, h3, h4⟩; exact ⟨r, hr, σ, h1, h3, h4⟩
  · rintro ⟨r, hr, σ, h1, h3, h4⟩
    refine ⟨r, hr, σ, h1, ?_, h3, h4⟩
    rw [(mem_posRules.1 hr).2]; simp

/-- the lower stratum of the executable specification is exactly the least model of the negation-free rules -/
theorem lfpFrom_pos_exact {val : Nat → Int} {P : List Rule} {fuel : Nat} {F M : List Fact} (hs : allSafe P = true)
    (h : lfpFrom val [] (posRules P) fuel F = some M) : ∀ f, f ∈ M ↔ Derivable val (posRules P) F f := by
  have hsp : allSafe (posRules P) = true := allSafe_filter _ hs
  obtain ⟨⟨h1, h2⟩, h3⟩ := lfpFrom_exit (fun S => (∀ f ∈ F, f ∈ S) ∧ ∀ f ∈ S, Derivable val (posRules P) F f)
    (by
      intro S ⟨h1, h2⟩
      refine ⟨fun f hf => List.mem_append_left _ (h1 f hf), ?_⟩
      intro f hf
      rcases mem_append_freshOf.1 hf with hf | hf
      · exact h2 f hf
      · exact derivable_of_conseq (conseq_mono (fun g hg => h2 g hg) (conseqN_pos.1 ((mem_tpStep_iff hsp).1 hf))))
    h ⟨fun f hf => hf, fun f hf => Derivable.base hf⟩
  intro f
  refine ⟨h2 f, derivable_sub_closed h1 ?_ f⟩
  intro g hg
  apply Classical.byContradiction
  intro hn
  have : g ∈ freshOf M (tpStep val [] (posRules P) M) :=
    mem_freshOf.2 ⟨(mem_tpStep_iff hsp).2 (conseqN_pos.2 hg), hn⟩
  rw [h3] at this; cases this

theorem specModel_exact {val : Nat → Int} {P : List Rule} {fuel : Nat} {F S : List Fact} (hs : allSafe P = true)
    (h : specModel val P fuel F = some S) : ∀ f, f ∈ S ↔ Strat val P F f := by
  simp only [specModel, Option.bind_eq_some_iff] at h
  obtain ⟨m0, hm0, h2⟩ := h
  have hlow := lfpFrom_pos_exact hs hm0
  obtain ⟨⟨i1, i2⟩, i3⟩ := lfpFrom_exit (fun S => (∀ f ∈ m0, f ∈ S) ∧ ∀ f ∈ S, Strat val P F f)
    (by
      intro S ⟨h1, h2⟩
      refine ⟨fun f hf => List.mem_append_left _ (h1 f hf), ?_⟩
      intro f hf
      rcases mem_append_freshOf.1 hf with hf | hf
      · exact h2 f hf
      · obtain ⟨r, hr, σ, hp, hn, hfl, c, hc, rfl⟩ := (mem_tpStep_iff hs).1 hf
        exact Strat.step σ hr (fun p hp' => h2 _ (hp p hp')) (fun n hn' hd => hn n hn' ((hlow _).2 hd)) hfl hc)
    h2 ⟨fun f hf => hf, fun f hf => Strat.low ((hlow f).1 hf)⟩
  intro f
  refine ⟨i2 f, ?_⟩
  intro hf
  induction hf with
  | low hd => exact i1 _ ((hlow _).2 hd)
  | step σ hr _ hn hfl hc ih =>
    apply Classical.byContradiction
    intro hnot
    have : _ ∈ freshOf S (tpStep val m0 P S) :=
      mem_freshOf.2 ⟨(mem_tpStep_iff hs).2 ⟨_, hr, σ, ih, fun n hn' hm => hn n hn' ((hlow _).1 hm), hfl, _, hc, rfl⟩, hnot⟩
    rw [i3] at this; cases this

theorem posRules_eq_self {P : List Rule} (h : ∀ r ∈ P, r.negative = []) : posRules P = P := by
  simp only [posRules]
  apply List.filter_eq_self.2
  intro r hr; simp [h r hr]

theorem strat_iff_derivable {val : Nat → Int} {P : List Rule} {F : List Fact} (h : ∀ r ∈ P, r.negative = []) (f : Fact) :
    Strat val P F f ↔ Derivable val P F f := by
  have e := posRules_eq_self h
  constructor
  · intro hf
    induction hf with
    | low hd => rw [e] at hd; exact hd
    | step σ hr _ _ hfl hc ih => exact Derivable.step σ hr ih hfl hc
  · intro hf
    apply Strat.low
    rw [e]; exact hf

/-! ### the provenance driver (Boolean, no seeds) -/

theorem termClash_ne {a b : Term} (h : termClash a b = true) (σ σ' : Nat → Nat) : a.eval σ ≠ b.eval σ' := by
  cases a <;> cases b <;> simp_all [termClash, Term.eval]

theorem patClash_ne {a b : Pat} (h : patClash a b = true) (σ σ' : Nat → Nat) : a.eval σ ≠ b.eval σ' := by
  simp only [patClash, Bool.or_eq_true] at h
  intro e
  simp only [Pat.eval, Fact.mk.injEq] at e
  rcases h with (h | h) | h
  · exact termClash_ne h σ σ' e.1
  · exact termClash_ne h σ σ' e.2.1
  · exact termClash_ne h σ σ' e.2.2

theorem provModel_eq {val : Nat → Int} {P : List Rule} {fuel : Nat} {F : List Fact} :
    provModel val P fuel F = (inferSemi val (posRules P) fuel F).map fun m0 => m0 ++ negPass val (negRules P) m0 := by
  simp only [provModel, posRules, negRules]
  cases inferSemi val (List.filter (fun r => r.negative.isEmpty) P) fuel F with
  | none => rfl
  | some m0 =>
    simp only [Option.map_some, Option.some.injEq]
    split
    · next he =>
      rw [(isEmpty_eq_true_iff _).1 he]
      simp [negPass, freshOf]
    · rfl

theorem mem_negPass_iff {val : Nat → Int} {N : List Rule} {all : List Fact} {f : Fact} (hs : allSafe N = true) :
    f ∈ negPass val N all ↔ f ∉ all ∧ ConseqN val N (· ∈ all) (· ∈ all) f := by
  have key : f ∈ (N.flatMap fun r => fireNeg val all all r) ↔ ConseqN val N (· ∈ all) (· ∈ all) f :=
    mem_tpStep_iff (low := all) (S := all) hs
  simp only [negPass]
  rw [mem_freshOf]
  constructor
  · rintro ⟨h1, h2⟩; exact ⟨h2, key.1 h1⟩
  · rintro ⟨h1, h2⟩; exact ⟨key.2 h2, h1⟩

theorem provModel_strat {val : Nat → Int} {P : List Rule} {fuel : Nat} {F S : List Fact} (hs : allSafe P = true)
    (hiso : negHeadsFeedNoPremise P = true) (h : provModel val P fuel F = some S) :
    ∀ f, f ∈ S ↔ Strat val P F f := by
  rw [provModel_eq] at h
  simp only [Option.map_eq_some_iff] at h
  obtain ⟨m0, hm0, rfl⟩ := h
  have hsp : allSafe (posRules P) = true := allSafe_filter _ hs
  have hsn : allSafe (negRules P) = true := allSafe_filter _ hs
  obtain ⟨e1, e2, e3⟩ := inferSemi_exit hsp hm0
  have hlow : ∀ f, f ∈ m0 ↔ Derivable val (posRules P) F f :=
    fun f => ⟨e2 f, derivable_sub_closed e1 e3 f⟩
  intro f
  rw [List.mem_append, mem_negPass_iff hsn]
  constructor
  · rintro (hf | ⟨_, r, hr, σ, hp, hn, hfl, c, hc, rfl⟩)
    · exact Strat.low ((hlow f).1 hf)
    · exact Strat.step σ (mem_negRules.1 hr).1 (fun p hp' => Strat.low ((hlow _).1 (hp p hp')))
        (fun n hn' hd => hn n hn' ((hlow _).2 hd)) hfl hc
  · intro hf
    have main : f ∈ m0 ∨ ConseqN val (negRules P) (· ∈ m0) (· ∈ m0) f := by
      induction hf with
      | low hd => exact Or.inl ((hlow _).2 hd)
      | @step r c σ hr _ hn hfl hc ih =>
        have hprem : ∀ p ∈ r.premise, p.eval σ ∈ m0 := by
          intro p hp
          rcases ih p hp with h | ⟨r', hr', σ', _, _, _, c', hc', e⟩
          · exact h
          · exfalso
            simp only [negHeadsFeedNoPremise, List.all_eq_true] at hiso
            exact patClash_ne (hiso r' hr' c' hc' r hr p hp) σ' σ e.symm
        by_cases hneg : r.negative = []
        · left
          exact e3 _ ⟨r, mem_posRules.2 ⟨hr, hneg⟩, σ, hprem, hfl, c, hc, rfl⟩
        · right
          exact ⟨r, mem_negRules.2 ⟨hr, hneg⟩, σ, hprem, fun n hn' hm => hn n hn' ((hlow _).1 hm), hfl, c, hc, rfl⟩
    rcases main with h | h
    · exact Or.inl h
    · by_cases hm : f ∈ m0
      · exact Or.inl hm
      · exact Or.inr ⟨hm, h⟩

/-! ### iterates are sound; congruence; second runs -/

theorem iter_naive_sound {val : Nat → Int} {P : List Rule} {F : List Fact} (hs : allSafe P = true) :
    ∀ (k : Nat) (a : List Fact), (∀ f ∈ a, Derivable val P F f) →
      ∀ f ∈ (iter (naiveRound val P) k () a).2, Derivable val P F f := by
  intro k
  induction k with
  | zero => intro a h f hf; exact h f hf
  | succ k ih =>
    intro a h
    simp only [iter]
    apply ih
    intro f hf
    rcases mem_append_freshOf.1 hf with hf | hf
    · exact h f hf
    · exact derivable_of_conseq (conseq_mono (fun g hg => h g hg) (roundNaive_sound hs hf).2)

theorem iter_semi_sound {val : Nat → Int} {P : List Rule} {F : List Fact} (hs : allSafe P = true) :
    ∀ (k : Nat) (st : Nat) (a : List Fact), (∀ f ∈ a, Derivable val P F f) →
      ∀ f ∈ (iter (roundSemi val P) k st a).2, Derivable val P F f := by
  intro k
  induction k with
  | zero => intro st a h f hf; exact h f hf
  | succ k ih =>
    intro st a h
    simp only [iter]
    apply ih
    intro f hf
    rcases mem_append_freshOf.1 hf with hf | hf
    · exact h f hf
    · exact derivable_of_conseq (conseq_mono (fun g hg => h g hg) (roundSemi_sound hs hf).2)

theorem derivable_congr {val : Nat → Int} {P P' : List Rule} {F F' : List Fact}
    (hF : ∀ f, f ∈ F → f ∈ F') (hP : ∀ r, r ∈ P → r ∈ P') {f : Fact} (h : Derivable val P F f) :
    Derivable val P' F' f := by
  induction h with
  | base h => exact Derivable.base (hF _ h)
  | step σ hr _ hfl hc ih => exact Derivable.step σ (hP _ hr) ih hfl hc

theorem roundSemi_nil_of_closed {val : Nat → Int} {P : List Rule} {S : List Fact} (hs : allSafe P = true)
    (hc : Closed val P S) (start : Nat) : (roundSemi val P start S).2 = [] := by
  apply List.eq_nil_iff_forall_not_mem.2
  intro f hf
  obtain ⟨h1, h2⟩ := roundSemi_sound hs hf
  exact h1 (hc f h2)

theorem roundNaive_nil_of_closed {val : Nat → Int} {P : List Rule} {S : List Fact} (hs : allSafe P = true)
    (hc : Closed val P S) : roundNaive val P S = [] := by
  apply List.eq_nil_iff_forall_not_mem.2
  intro f hf
  obtain ⟨h1, h2⟩ := roundNaive_sound hs hf
  exact h1 (hc f h2)

theorem drive_of_round_nil {σ : Type} {round : σ → List Fact → σ × List Fact} {st : σ} {S : List Fact}
    (h : (round st S).2 = []) (n : Nat) : drive round (n + 1) st S = some S := by
  simp [drive, h]


/-! ### termination -/

/-- all components of a fact are ids below `k` -/
def InU (k : Nat) (f : Fact) : Prop := f.s < k ∧ f.p < k ∧ f.o < k

def termBound (k : Nat) : Term → Prop
  | .const c => c < k
  | .var _ => True

/-- every constant of every rule head is an id below `k` -/
def ConclBound (k : Nat) (P : List Rule) : Prop :=
  ∀ r ∈ P, ∀ c ∈ r.conclusion, termBound k c.s ∧ termBound k c.p ∧ termBound k c.o

def cube (k : Nat) : List Fact :=
  (List.range k).flatMap fun a => (List.range k).flatMap fun b => (List.range k).map fun c => ⟨a, b, c⟩

theorem mem_cube {k : Nat} {f : Fact} : f ∈ cube k ↔ InU k f := by
  cases f with
  | mk a b c =>
    simp only [cube, List.mem_flatMap, List.mem_map, List.mem_range, Fact.mk.injEq, InU]
    constructor
    · rintro ⟨x, hx, y, hy, z, hz, rfl, rfl, rfl⟩; exact ⟨hx, hy, hz⟩
    · rintro ⟨hx, hy, hz⟩; exact ⟨a, hx, b, hy, c, hz, rfl, rfl, rfl⟩

theorem length_flatMap_const {α β} (l : List α) (g : α → List β) (c : Nat) (h : ∀ a ∈ l, (g a).length = c) :
    (l.flatMap g).length = l.length * c := by
  induction l with
  | nil => simp
  | cons a l ih =>
    simp only [List.flatMap_cons, List.length_append, List.length_cons]
    rw [h a (by simp), ih (fun b hb => h b (by simp [hb])), Nat.succ_mul]; omega

theorem length_cube (k : Nat) : (cube k).length = k ^ 3 := by
  unfold cube
  rw [length_flatMap_const _ _ (k * k)]
  · simp [Nat.pow_succ, Nat.mul_assoc]
  · intro a _
    rw [length_flatMap_const _ _ k]
    · simp
    · intro b _; simp

theorem nodup_subset_length {α} [DecidableEq α] : ∀ (l c : List α), l.Nodup → (∀ a ∈ l, a ∈ c) → l.length ≤ c.length := by
  intro l
  induction l with
  | nil => intro c _ _; simp
  | cons a l ih =>
    intro c hn hs
    have ha : a ∈ c := hs a (by simp)
    obtain ⟨hnot, hn'⟩ := List.nodup_cons.1 hn
    have : l.length ≤ (c.erase a).length := by
      apply ih _ hn'
      intro b hb
      have hne : b ≠ a := fun e => hnot (e ▸ hb)
      exact (List.mem_erase_of_ne hne).2 (hs b (by simp [hb]))
    rw [List.length_erase_of_mem ha] at this
    have hpos : 0 < c.length := List.length_pos_of_mem ha
    simp only [List.length_cons]; omega

theorem nodup_freshOf (known l : List Fact) : (freshOf known l).Nodup := by
  induction l with
  | nil => simp [freshOf]
  | cons a l ih =>
    simp only [freshOf]
    split
    · exact ih
    · next h =>
      exact List.nodup_cons.2 ⟨fun hm => h (Or.inr hm), ih⟩

theorem nodup_append_freshOf {all : List Fact} (new : List Fact) (h : all.Nodup) : (all ++ freshOf all new).Nodup := by
  apply List.nodup_append.2
  refine ⟨h, nodup_freshOf _ _, ?_⟩
  intro a ha b hb e
  subst e
  exact (mem_freshOf.1 hb).2 ha

theorem eval_var_lt {k : Nat} {p : Pat} {σ : Nat → Nat} {v : Nat} (hv : v ∈ p.vars) (h : InU k (p.eval σ)) : σ v < k := by
  obtain ⟨h1, h2, h3⟩ := h
  simp only [Pat.vars, List.mem_append] at hv
  rcases hv with (hv | hv) | hv
  · cases hs : p.s with
    | const c => simp [hs, Term.vars] at hv
    | var w => simp [hs, Term.vars] at hv; subst hv; simpa [Pat.eval, hs, Term.eval] using h1
  · cases hs : p.p with
    | const c => simp [hs, Term.vars] at hv
    | var w => simp [hs, Term.vars] at hv; subst hv; simpa [Pat.eval, hs, Term.eval] using h2
  · cases hs : p.o with
    | const c => simp [hs, Term.vars] at hv
    | var w => simp [hs, Term.vars] at hv; subst hv; simpa [Pat.eval, hs, Term.eval] using h3

theorem term_eval_lt {k : Nat} {t : Term} {σ : Nat → Nat} (hb : termBound k t) (hv : ∀ v ∈ t.vars, σ v < k) :
    t.eval σ < k := by
  cases t with
  | const c => exact hb
  | var v => exact hv v (by simp [Term.vars])

theorem derivable_inU {val : Nat → Int} {P : List Rule} {F : List Fact} {k : Nat} (hs : allSafe P = true)
    (hF : ∀ f ∈ F, InU k f) (hC : ConclBound k P) {f : Fact} (h : Derivable val P F f) : InU k f := by
  induction h with
  | base h => exact hF _ h
  | @step r c σ hr _ _ hc ih =>
    obtain ⟨_, hcv, _, _⟩ := (Rule.safe_iff r).1 (safe_of_allSafe hs hr)
    have hσ : ∀ v ∈ c.vars, σ v < k := by
      intro v hv
      obtain ⟨p, hp, hvp⟩ := mem_patsVars.1 (hcv v (patVars_sub hc v hv))
      exact eval_var_lt hvp (ih p hp)
    obtain ⟨b1, b2, b3⟩ := hC r hr c hc
    exact ⟨term_eval_lt b1 (fun v hv => hσ v (by simp [Pat.vars, hv])),
      term_eval_lt b2 (fun v hv => hσ v (by simp [Pat.vars, hv])),
      term_eval_lt b3 (fun v hv => hσ v (by simp [Pat.vars, hv]))⟩

/-- the loop ends within `bound - all.length + 1` rounds when every reachable store is duplicate-free and
    has at most `bound` facts -/
theorem drive_terminates {σ : Type} {round : σ → List Fact → σ × List Fact} (I : σ → List Fact → Prop) (bound : Nat)
    (hstep : ∀ st all, I st all → (round st all).2 ≠ [] → I (round st all).1 (all ++ freshOf all (round st all).2))
    (hfresh : ∀ st all, ∀ f ∈ (round st all).2, f ∉ all)
    (hbound : ∀ st all, I st all → all.length ≤ bound) :
    ∀ (fuel : Nat) (st : σ) (all : List Fact), I st all → bound - all.length < fuel →
      ∃ S, drive round fuel st all = some S := by
  intro fuel
  induction fuel with
  | zero => intro st all _ h; omega
  | succ n ih =>
    intro st all hI hlt
    simp only [drive]
    split
    · exact ⟨all, rfl⟩
    · next he =>
      have hne : (round st all).2 ≠ [] := by
        intro hnil; rw [hnil] at he; exact he rfl
      have hI' := hstep st all hI hne
      apply ih _ _ hI'
      have hb := hbound _ _ hI'
      have hlen : all.length < (all ++ freshOf all (round st all).2).length := by
        obtain ⟨x, hx⟩ := List.exists_mem_of_ne_nil _ hne
        have : x ∈ freshOf all (round st all).2 := mem_freshOf.2 ⟨hx, hfresh st all x hx⟩
        have := List.length_pos_of_mem this
        simp only [List.length_append]; omega
      omega

theorem drive_mono {σ : Type} {round : σ → List Fact → σ × List Fact} {fuel : Nat} {st : σ} {all S : List Fact}
    (h : drive round fuel st all = some S) (m : Nat) : drive round (fuel + m) st all = some S := by
  induction fuel generalizing st all with
  | zero => simp [drive] at h
  | succ n ih =>
    rw [Nat.succ_add]
    simp only [drive] at h ⊢
    split
    · next he => simp [he] at h; exact congrArg some h
    · next he => simp [he] at h; exact ih h


theorem inU_of_derivable_list {val : Nat → Int} {P : List Rule} {F : List Fact} {k : Nat} (hs : allSafe P = true)
    (hF : ∀ f ∈ F, InU k f) (hC : ConclBound k P) {all : List Fact} (hn : all.Nodup)
    (hd : ∀ f ∈ all, Derivable val P F f) : all.length ≤ k ^ 3 := by
  rw [← length_cube]
  exact nodup_subset_length all (cube k) hn (fun f hf => mem_cube.2 (derivable_inU hs hF hC (hd f hf)))

theorem inferNaive_terminates {val : Nat → Int} {P : List Rule} {F : List Fact} {k : Nat} (hs : allSafe P = true)
    (hF : ∀ f ∈ F, InU k f) (hC : ConclBound k P) (hn : F.Nodup) (fuel : Nat) (hfuel : k ^ 3 < fuel) :
    ∃ S, inferNaive val P fuel F = some S := by
  apply drive_terminates (round := fun (_ : Unit) all => ((), roundNaive val P all))
    (fun _ all => all.Nodup ∧ ∀ f ∈ all, Derivable val P F f) (k ^ 3)
  · intro _ all ⟨h1, h2⟩ _
    refine ⟨nodup_append_freshOf _ h1, ?_⟩
    intro f hf
    rcases mem_append_freshOf.1 hf with hf | hf
    · exact h2 f hf
    · exact derivable_of_conseq (conseq_mono (fun g hg => h2 g hg) (roundNaive_sound hs hf).2)
  · intro _ all f hf; exact (roundNaive_sound hs hf).1
  · intro _ all ⟨h1, h2⟩; exact inU_of_derivable_list hs hF hC h1 h2
  · exact ⟨hn, fun f hf => Derivable.base hf⟩
  · omega

theorem inferSemi_terminates {val : Nat → Int} {P : List Rule} {F : List Fact} {k : Nat} (hs : allSafe P = true)
    (hF : ∀ f ∈ F, InU k f) (hC : ConclBound k P) (hn : F.Nodup) (fuel : Nat) (hfuel : k ^ 3 < fuel) :
    ∃ S, inferSemi val P fuel F = some S := by
  apply drive_terminates (round := roundSemi val P)
    (fun _ all => all.Nodup ∧ ∀ f ∈ all, Derivable val P F f) (k ^ 3)
  · intro st all ⟨h1, h2⟩ _
    refine ⟨nodup_append_freshOf _ h1, ?_⟩
    intro f hf
    rcases mem_append_freshOf.1 hf with hf | hf
    · exact h2 f hf
    · exact derivable_of_conseq (conseq_mono (fun g hg => h2 g hg) (roundSemi_sound hs hf).2)
  · intro st all f hf; exact (roundSemi_sound hs hf).1
  · intro _ all ⟨h1, h2⟩; exact inU_of_derivable_list hs hF hC h1 h2
  · exact ⟨hn, fun f hf => Derivable.base hf⟩
  · omega

theorem provModel_terminates {val : Nat → Int} {P : List Rule} {F : List Fact} {k : Nat} (hs : allSafe P = true)
    (hF : ∀ f ∈ F, InU k f) (hC : ConclBound k P) (hn : F.Nodup) (fuel : Nat) (hfuel : k ^ 3 < fuel) :
    ∃ S, provModel val P fuel F = some S := by
  have hC' : ConclBound k (posRules P) := fun r hr => hC r (mem_posRules.1 hr).1
  obtain ⟨m0, h⟩ := inferSemi_terminates (val := val) (allSafe_filter _ hs) hF hC' hn fuel hfuel
  rw [provModel_eq]
  exact ⟨_, by rw [show inferSemi val (posRules P) fuel F = some m0 from h]; rfl⟩


/-! ### the parallel strategy inside its fragment -/

theorem Rule.parOk_iff (r : Rule) : r.parOk = true ↔
    r.premise.length ∈ Extracted.parallelArities ∧ (∀ p ∈ r.premise, ∃ c, p.p = Term.const c) ∧
    r.filters = [] ∧ r.negative = [] := by
  simp only [Rule.parOk, Bool.and_eq_true, decide_eq_true_eq, List.all_eq_true, List.isEmpty_iff, and_assoc]
  constructor
  · rintro ⟨h1, h2, h3, h4⟩
    refine ⟨h1, ?_, h3, h4⟩
    intro p hp
    have := h2 p hp
    cases hpp : p.p with
    | const c => exact ⟨c, rfl⟩
    | var v => simp [hpp] at this
  · rintro ⟨h1, h2, h3, h4⟩
    refine ⟨h1, ?_, h3, h4⟩
    intro p hp
    obtain ⟨c, hc⟩ := h2 p hp
    simp [hc]

theorem filtersHold_nil (val : Nat → Int) (σ : Nat → Nat) : FiltersHold val σ [] := by
  simp [FiltersHold, filtersOk]

theorem mem_concl {r : Rule} {row : Row} {f : Fact} : f ∈ concl r row ↔ ∃ c ∈ r.conclusion, f = c.inst row := by
  simp only [concl, List.mem_map]
  constructor
  · rintro ⟨c, hc, rfl⟩; exact ⟨c, hc, rfl⟩
  · rintro ⟨c, hc, rfl⟩; exact ⟨c, hc, rfl⟩

theorem candidate_of_eval {r : Rule} {p : Pat} {σ : Nat → Nat} (hp : p ∈ r.premise) (hc : ∃ c, p.p = Term.const c) :
    candidate r (p.eval σ) = true := by
  obtain ⟨c, hc⟩ := hc
  simp only [candidate, List.any_eq_true]
  exact ⟨p, hp, by simp [hc, Pat.eval, Term.eval]⟩

/-- one-premise arm -/
theorem par1_sound {all : List Fact} {t1 : Fact} {r : Rule} {p0 : Pat} {f : Fact} (hs : r.safe = true)
    (hp : r.premise = [p0]) (ht : t1 ∈ all) {b : Row} (hm : matchPat p0 t1 [] = some b) (hf : f ∈ concl r b) :
    ∃ σ : Nat → Nat, (∀ p ∈ r.premise, p.eval σ ∈ all) ∧ ∃ c ∈ r.conclusion, f = c.eval σ := by
  obtain ⟨_, hcv, _, _⟩ := (Rule.safe_iff r).1 hs
  obtain ⟨_, hb, ha⟩ := matchPat_spec hm
  obtain ⟨c, hc, rfl⟩ := mem_concl.1 hf
  refine ⟨rowVal b, ?_, c, hc, ?_⟩
  · intro p hpp; rw [hp] at hpp; simp at hpp; subst hpp; rw [ha _ (agrees_rowVal b)]; exact ht
  · apply Pat.inst_eq_eval _ (agrees_rowVal b)
    intro v hv
    have := hcv v (patVars_sub hc v hv)
    rw [hp] at this
    simp [patsVars] at this
    exact hb v this

/-- two-premise arm, either orientation: `pa` matched by the delta triple, `pb` by any fact -/
theorem par2_sound {all : List Fact} {t1 t2 : Fact} {r : Rule} {pa pb : Pat} {f : Fact} (hs : r.safe = true)
    (hp : ∀ p, p ∈ r.premise ↔ p = pa ∨ p = pb) (ht1 : t1 ∈ all) (ht2 : t2 ∈ all) {b1 b2 : Row}
    (hm1 : matchPat pa t1 [] = some b1) (hm2 : matchPat pb t2 b1 = some b2) (hf : f ∈ concl r b2) :
    ∃ σ : Nat → Nat, (∀ p ∈ r.premise, p.eval σ ∈ all) ∧ ∃ c ∈ r.conclusion, f = c.eval σ := by
  obtain ⟨_, hcv, _, _⟩ := (Rule.safe_iff r).1 hs
  obtain ⟨_, hb1, ha1⟩ := matchPat_spec hm1
  obtain ⟨e2, hb2, ha2⟩ := matchPat_spec hm2
  obtain ⟨c, hc, rfl⟩ := mem_concl.1 hf
  refine ⟨rowVal b2, ?_, c, hc, ?_⟩
  · intro p hpp
    rcases (hp p).1 hpp with rfl | rfl
    · rw [ha1 _ (Agrees.of_ext e2 (agrees_rowVal b2))]; exact ht1
    · rw [ha2 _ (agrees_rowVal b2)]; exact ht2
  · apply Pat.inst_eq_eval _ (agrees_rowVal b2)
    intro v hv
    obtain ⟨p, hpp, hvp⟩ := mem_patsVars.1 (hcv v (patVars_sub hc v hv))
    rcases (hp p).1 hpp with rfl | rfl
    · exact Bound.of_ext e2 (hb1 v hvp)
    · exact hb2 v hvp

theorem par2_complete {all : List Fact} {r : Rule} {pa pb : Pat} {σ : Nat → Nat} {c : Pat} (hs : r.safe = true)
    (hp : ∀ p, p ∈ r.premise ↔ p = pa ∨ p = pb) (hb : pb.eval σ ∈ all) (hc : c ∈ r.conclusion) :
    c.eval σ ∈ (matchPat pa (pa.eval σ) []).toList.flatMap fun b1 =>
      all.flatMap fun t2 => (matchPat pb t2 b1).toList.flatMap (concl r) := by
  obtain ⟨_, hcv, _, _⟩ := (Rule.safe_iff r).1 hs
  obtain ⟨b1, hm1, a1⟩ := matchPat_complete (p := pa) (f := pa.eval σ) (agrees_nil σ) rfl
  obtain ⟨b2, hm2, a2⟩ := matchPat_complete (p := pb) (f := pb.eval σ) a1 rfl
  obtain ⟨_, hb1, _⟩ := matchPat_spec hm1
  obtain ⟨e2, hb2, _⟩ := matchPat_spec hm2
  simp only [List.mem_flatMap, Option.mem_toList]
  refine ⟨b1, hm1, pb.eval σ, hb, b2, hm2, mem_concl.2 ⟨c, hc, ?_⟩⟩
  symm
  apply Pat.inst_eq_eval _ a2
  intro v hv
  obtain ⟨p, hpp, hvp⟩ := mem_patsVars.1 (hcv v (patVars_sub hc v hv))
  rcases (hp p).1 hpp with rfl | rfl
  · exact Bound.of_ext e2 (hb1 v hvp)
  · exact hb2 v hvp

theorem parFireRule_sound {all : List Fact} {t1 : Fact} {r : Rule} {f : Fact} (hs : r.safe = true)
    (ht : t1 ∈ all) (hf : f ∈ parFireRule all t1 r) :
    ∃ σ : Nat → Nat, (∀ p ∈ r.premise, p.eval σ ∈ all) ∧ ∃ c ∈ r.conclusion, f = c.eval σ := by
  unfold parFireRule at hf
  split at hf
  · next p0 hp =>
    split at hf
    · simp only [List.mem_flatMap, Option.mem_toList] at hf
      obtain ⟨b, hm, hfb⟩ := hf
      exact par1_sound hs hp ht hm hfb
    · cases hf
  · next p0 p1 hp =>
    split at hf
    · simp only [List.mem_append, List.mem_flatMap, Option.mem_toList] at hf
      rcases hf with ⟨b1, hm1, t2, ht2, b2, hm2, hfb⟩ | ⟨b1, hm1, t2, ht2, b2, hm2, hfb⟩
      · exact par2_sound hs (by intro p; rw [hp]; simp) ht ht2 hm1 hm2 hfb
      · exact par2_sound hs (by intro p; rw [hp]; simp [or_comm]) ht ht2 hm1 hm2 hfb
    · cases hf
  · cases hf

theorem parFireRule_complete {all : List Fact} {r : Rule} {σ : Nat → Nat} {c q : Pat} (hs : r.safe = true)
    (hok : r.parOk = true) (hall : ∀ p ∈ r.premise, p.eval σ ∈ all) (hq : q ∈ r.premise) (hc : c ∈ r.conclusion) :
    c.eval σ ∈ parFireRule all (q.eval σ) r := by
  obtain ⟨hlen, _, _, _⟩ := (Rule.parOk_iff r).1 hok
  have har : Extracted.parallelArities = [1, 2] := by decide
  unfold parFireRule
  split
  · next p0 hp =>
    have h1 : 1 ∈ Extracted.parallelArities := by rw [har]; simp
    simp only [h1, ↓reduceIte]
    rw [hp] at hq; simp at hq; subst hq
    obtain ⟨_, hcv, _, _⟩ := (Rule.safe_iff r).1 hs
    obtain ⟨b, hm, a⟩ := matchPat_complete (p := q) (f := q.eval σ) (agrees_nil σ) rfl
    obtain ⟨_, hb, _⟩ := matchPat_spec hm
    simp only [List.mem_flatMap, Option.mem_toList]
    refine ⟨b, hm, mem_concl.2 ⟨c, hc, ?_⟩⟩
    symm
    apply Pat.inst_eq_eval _ a
    intro v hv
    have := hcv v (patVars_sub hc v hv)
    rw [hp] at this
    simp [patsVars] at this
    exact hb v this
  · next p0 p1 hp =>
    have h2 : 2 ∈ Extracted.parallelArities := by rw [har]; simp
    simp only [h2, ↓reduceIte, List.mem_append]
    rw [hp] at hq; simp at hq
    rcases hq with rfl | rfl
    · left
      exact par2_complete hs (by intro p; rw [hp]; simp) (hall p1 (by rw [hp]; simp)) hc
    · right
      exact par2_complete hs (by intro p; rw [hp]; simp [or_comm]) (hall p0 (by rw [hp]; simp)) hc
  · next h1 h2 =>
    exfalso
    rw [har] at hlen
    simp at hlen
    rcases hlen with hlen | hlen
    · match hpr : r.premise, hlen with
      | [p0], _ => exact h1 p0 hpr
    · match hpr : r.premise, hlen with
      | [p0, p1], _ => exact h2 p0 p1 hpr


theorem conseq_of_par {val : Nat → Int} {P : List Rule} {all : List Fact} {r : Rule} {f : Fact}
    (hr : r ∈ P) (hok : r.parOk = true)
    (h : ∃ σ : Nat → Nat, (∀ p ∈ r.premise, p.eval σ ∈ all) ∧ ∃ c ∈ r.conclusion, f = c.eval σ) :
    Conseq val P (· ∈ all) f := by
  obtain ⟨σ, hp, c, hc, rfl⟩ := h
  obtain ⟨_, _, hfl, _⟩ := (Rule.parOk_iff r).1 hok
  exact ⟨r, hr, σ, hp, by rw [hfl]; exact filtersHold_nil val σ, c, hc, rfl⟩

theorem parRound_sound {val : Nat → Int} {P : List Rule} {all delta : List Fact} {f : Fact}
    (hs : allSafe P = true) (hok : allParOk P = true) (hd : ∀ t ∈ delta, t ∈ all)
    (hf : f ∈ parRound P all delta) : f ∉ all ∧ Conseq val P (· ∈ all) f := by
  obtain ⟨h1, h2⟩ := mem_freshOf.1 hf
  refine ⟨h2, ?_⟩
  simp only [List.mem_flatMap, List.mem_filter] at h1
  obtain ⟨t1, ht1, r, ⟨hr, _⟩, hfr⟩ := h1
  have hokr : r.parOk = true := by simp only [allParOk, List.all_eq_true] at hok; exact hok r hr
  exact conseq_of_par hr hokr (parFireRule_sound (safe_of_allSafe hs hr) (hd t1 ht1) hfr)

theorem parRound_complete {P : List Rule} {all delta : List Fact} {r : Rule} {σ : Nat → Nat} {c : Pat}
    (hs : allSafe P = true) (hok : allParOk P = true) (hr : r ∈ P) (hall : ∀ p ∈ r.premise, p.eval σ ∈ all)
    (hd : ∃ p ∈ r.premise, p.eval σ ∈ delta) (hc : c ∈ r.conclusion) :
    c.eval σ ∈ all ∨ c.eval σ ∈ parRound P all delta := by
  have hokr : r.parOk = true := by simp only [allParOk, List.all_eq_true] at hok; exact hok r hr
  by_cases hin : c.eval σ ∈ all
  · exact Or.inl hin
  · right
    obtain ⟨q, hq, hqd⟩ := hd
    obtain ⟨_, hconst, _, _⟩ := (Rule.parOk_iff r).1 hokr
    refine mem_freshOf.2 ⟨?_, hin⟩
    simp only [List.mem_flatMap, List.mem_filter]
    exact ⟨q.eval σ, hqd, r, ⟨hr, candidate_of_eval hq (hconst q hq)⟩,
      parFireRule_complete (safe_of_allSafe hs hr) hokr hall hq hc⟩

/-- invariant of the parallel loop -/
def ParInv (val : Nat → Int) (P : List Rule) (F all delta : List Fact) : Prop :=
  (∀ f ∈ F, f ∈ all) ∧ (∀ f ∈ all, Derivable val P F f) ∧
  ∃ old, all = old ++ delta ∧ ∀ f, Conseq val P (· ∈ old) f → f ∈ all

theorem par_step_closed {val : Nat → Int} {P : List Rule} {F all delta : List Fact}
    (hs : allSafe P = true) (hok : allParOk P = true) (hI : ParInv val P F all delta) {f : Fact}
    (hf : Conseq val P (· ∈ all) f) : f ∈ all ∨ f ∈ parRound P all delta := by
  obtain ⟨_, _, old, hall, hold⟩ := hI
  obtain ⟨r, hr, σ, hp, hfl, c, hc, rfl⟩ := hf
  by_cases hd : ∃ p ∈ r.premise, p.eval σ ∈ delta
  · exact parRound_complete hs hok hr hp hd hc
  · left
    apply hold
    refine ⟨r, hr, σ, ?_, hfl, c, hc, rfl⟩
    intro p hpp
    have := hp p hpp
    rw [hall] at this
    rcases List.mem_append.1 this with h | h
    · exact h
    · exact absurd ⟨p, hpp, h⟩ hd

theorem mem_append_parRound {P : List Rule} {all delta : List Fact} {f : Fact} :
    f ∈ all ++ parRound P all delta ↔ f ∈ all ∨ f ∈ parRound P all delta := List.mem_append

theorem parDrive_exit {val : Nat → Int} {P : List Rule} {F : List Fact} (hs : allSafe P = true) (hok : allParOk P = true)
    {fuel : Nat} {all delta S : List Fact} (h : parDrive P fuel all delta = some S) (hI : ParInv val P F all delta) :
    ∃ delta', ParInv val P F S delta' ∧ parRound P S delta' = [] := by
  induction fuel generalizing all delta with
  | zero => simp [parDrive] at h
  | succ n ih =>
    simp only [parDrive] at h
    split at h
    · next he => cases h; exact ⟨delta, hI, (isEmpty_eq_true_iff _).1 he⟩
    · apply ih h
      have hdsub : ∀ t ∈ delta, t ∈ all := by
        obtain ⟨_, _, old, hall, _⟩ := hI
        intro t ht; rw [hall]; exact List.mem_append_right _ ht
      refine ⟨fun f hf => List.mem_append_left _ (hI.1 f hf), ?_, all, rfl, ?_⟩
      · intro f hf
        rcases List.mem_append.1 hf with hf | hf
        · exact hI.2.1 f hf
        · exact derivable_of_conseq (conseq_mono (fun g hg => hI.2.1 g hg) (parRound_sound hs hok hdsub hf).2)
      · intro f hf
        exact List.mem_append.2 (par_step_closed hs hok hI hf)

theorem inferPar_exact {val : Nat → Int} {P : List Rule} {fuel : Nat} {F S : List Fact} (hs : allSafe P = true)
    (hok : allParOk P = true) (h : inferPar P fuel F = some S) : ∀ f, f ∈ S ↔ Derivable val P F f := by
  have hI : ParInv val P F F F := by
    refine ⟨fun f hf => hf, fun f hf => Derivable.base hf, [], rfl, ?_⟩
    rintro f ⟨r, hr, σ, hp, _⟩
    have hne := ((Rule.safe_iff r).1 (safe_of_allSafe hs hr)).1
    cases hprem : r.premise with
    | nil => exact absurd hprem hne
    | cons p ps =>
      have := hp p (by simp [hprem])
      simp at this
  obtain ⟨delta', hI', hnil⟩ := parDrive_exit hs hok h hI
  intro f
  refine ⟨hI'.2.1 f, derivable_sub_closed hI'.1 ?_ f⟩
  intro g hg
  rcases par_step_closed hs hok hI' hg with h1 | h1
  · exact h1
  · rw [hnil] at h1; cases h1



theorem provModel_second_run {val : Nat → Int} {P : List Rule} {n m : Nat} {F S : List Fact} (hs : allSafe P = true)
    (hiso : negHeadsFeedNoPremise P = true) (h : provModel val P n F = some S) :
    provModel val P (m + 1) S = some S := by
  rw [provModel_eq] at h
  simp only [Option.map_eq_some_iff] at h
  obtain ⟨m0, hm0, rfl⟩ := h
  have hsp : allSafe (posRules P) = true := allSafe_filter _ hs
  have hsn : allSafe (negRules P) = true := allSafe_filter _ hs
  obtain ⟨_, _, e3⟩ := inferSemi_exit hsp hm0
  -- premises can only be matched by lower-stratum facts
  have hprem : ∀ {r : Rule} {σ : Nat → Nat}, r ∈ P →
      (∀ p ∈ r.premise, p.eval σ ∈ m0 ++ negPass val (negRules P) m0) → ∀ p ∈ r.premise, p.eval σ ∈ m0 := by
    intro r σ hr hp p hpp
    rcases List.mem_append.1 (hp p hpp) with h1 | h1
    · exact h1
    · exfalso
      obtain ⟨_, r', hr', σ', _, _, _, c', hc', e⟩ := (mem_negPass_iff hsn).1 h1
      simp only [negHeadsFeedNoPremise, List.all_eq_true] at hiso
      exact patClash_ne (hiso r' hr' c' hc' r hr p hpp) σ' σ e.symm
  have hclosed : Closed val (posRules P) (m0 ++ negPass val (negRules P) m0) := by
    rintro f ⟨r, hr, σ, hp, hfl, c, hc, rfl⟩
    exact List.mem_append_left _ (e3 _ ⟨r, hr, σ, hprem (mem_posRules.1 hr).1 hp, hfl, c, hc, rfl⟩)
  have h1 : inferSemi val (posRules P) (m + 1) (m0 ++ negPass val (negRules P) m0)
      = some (m0 ++ negPass val (negRules P) m0) :=
    drive_of_round_nil (round := roundSemi val (posRules P)) (roundSemi_nil_of_closed hsp hclosed 0) m
  have h2 : negPass val (negRules P) (m0 ++ negPass val (negRules P) m0) = [] := by
    apply List.eq_nil_iff_forall_not_mem.2
    intro f hf
    obtain ⟨hnot, r, hr, σ, hp, hn, hfl, c, hc, rfl⟩ := (mem_negPass_iff hsn).1 hf
    apply hnot
    by_cases hin : c.eval σ ∈ m0
    · exact List.mem_append_left _ hin
    · apply List.mem_append_right
      exact (mem_negPass_iff hsn).2 ⟨hin, r, hr, σ, hprem (mem_negRules.1 hr).1 hp,
        fun x hx hm => hn x hx (List.mem_append_left _ hm), hfl, c, hc, rfl⟩
  rw [provModel_eq, h1]
  simp [h2]



/-! ### any drain order of the round's `HashSet` -/

/-- The driver loop as a relation: after a non-empty round *any* block with the same members as the new facts
    (any iteration order of the `HashSet`, duplicates allowed) may be appended. `drive` is one such run. -/
inductive Run {σ : Type} (round : σ → List Fact → σ × List Fact) : σ → List Fact → List Fact → Prop
  | stop {st : σ} {all : List Fact} : (round st all).2 = [] → Run round st all all
  | step {st : σ} {all blk S : List Fact} : (round st all).2 ≠ [] →
      (∀ f, f ∈ blk ↔ f ∈ freshOf all (round st all).2) →
      Run round (round st all).1 (all ++ blk) S → Run round st all S

theorem run_of_drive {σ : Type} {round : σ → List Fact → σ × List Fact} {fuel : Nat} {st : σ} {all S : List Fact}
    (h : drive round fuel st all = some S) : Run round st all S := by
  induction fuel generalizing st all with
  | zero => simp [drive] at h
  | succ n ih =>
    simp only [drive] at h
    split at h
    · next he => cases h; exact Run.stop ((isEmpty_eq_true_iff _).1 he)
    · next he =>
      refine Run.step ?_ (fun f => Iff.rfl) (ih h)
      intro hnil; rw [hnil] at he; exact he rfl

theorem run_exit {σ : Type} {round : σ → List Fact → σ × List Fact} (I : σ → List Fact → Prop)
    (hstep : ∀ st all blk, I st all → (round st all).2 ≠ [] → (∀ f, f ∈ blk ↔ f ∈ freshOf all (round st all).2) →
      I (round st all).1 (all ++ blk))
    {st : σ} {all S : List Fact} (h : Run round st all S) (hI : I st all) :
    ∃ st', I st' S ∧ (round st' S).2 = [] := by
  induction h with
  | stop hnil => exact ⟨_, hI, hnil⟩
  | step hne hblk _ ih => exact ih (hstep _ _ _ hI hne hblk)

theorem mem_append_blk {all new blk : List Fact} (hblk : ∀ f, f ∈ blk ↔ f ∈ freshOf all new) {f : Fact} :
    f ∈ all ++ blk ↔ f ∈ all ∨ f ∈ new := by
  rw [List.mem_append, hblk, ← List.mem_append]; exact mem_append_freshOf

theorem run_naive_exact {val : Nat → Int} {P : List Rule} {F S : List Fact} (hs : allSafe P = true)
    (h : Run (naiveRound val P) () F S) : ∀ f, f ∈ S ↔ Derivable val P F f := by
  obtain ⟨_, ⟨h1, h2⟩, h3⟩ := run_exit (round := naiveRound val P)
    (fun _ all => (∀ f ∈ F, f ∈ all) ∧ (∀ f ∈ all, Derivable val P F f))
    (by
      intro _ all blk ⟨h1, h2⟩ _ hblk
      refine ⟨fun f hf => List.mem_append_left _ (h1 f hf), ?_⟩
      intro f hf
      rcases (mem_append_blk hblk).1 hf with hf | hf
      · exact h2 f hf
      · exact derivable_of_conseq (conseq_mono (fun g hg => h2 g hg) (roundNaive_sound hs hf).2))
    h ⟨fun f hf => hf, fun f hf => Derivable.base hf⟩
  exact fun f => ⟨h2 f, derivable_sub_closed h1 (closed_of_roundNaive_nil hs h3) f⟩

theorem run_semi_exact {val : Nat → Int} {P : List Rule} {F S : List Fact} (hs : allSafe P = true)
    (h : Run (roundSemi val P) 0 F S) : ∀ f, f ∈ S ↔ Derivable val P F f := by
  obtain ⟨st, hI, hnil⟩ := run_exit (round := roundSemi val P) (SemiInv val P F)
    (by
      intro st all blk hI _ hblk
      refine ⟨fun f hf => List.mem_append_left _ (hI.1 f hf), ?_, ?_⟩
      · intro f hf
        rcases (mem_append_blk hblk).1 hf with hf | hf
        · exact hI.2.1 f hf
        · exact derivable_of_conseq (conseq_mono (fun g hg => hI.2.1 g hg) (roundSemi_sound hs hf).2)
      · intro f hf
        have h1 : (roundSemi val P st all).1 = all.length := rfl
        rw [h1, List.take_left' rfl] at hf
        exact (mem_append_blk hblk).2 (semi_step_closed hs hI hf))
    h (semiInv_init hs)
  intro f
  refine ⟨hI.2.1 f, derivable_sub_closed hI.1 ?_ f⟩
  intro g hg
  rcases semi_step_closed hs hI hg with h1 | h1
  · exact h1
  · rw [hnil] at h1; cases h1


end Kolibrie.Datalog
