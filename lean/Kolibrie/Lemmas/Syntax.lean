import Kolibrie.Model.Syntax
/-! Helper lemmas for C16 (token-level print/parse round trip). Core Lean only. -/
namespace Kolibrie.Syntax

/-- fuel that certainly suffices for `parseOr` on the printed expression -/
def fuelF : FExpr → Nat
  | .cmp _ _ _ => 4
  | .and a b => fuelF a + fuelF b + 6
  | .or a b => fuelF a + fuelF b + 6
  | .not a => fuelF a + 4

/-- the nesting guard lets the printed expression through when `parseOr` is entered with counter `k` -/
def fitsF (k : Nat) : FExpr → Bool
  | .cmp _ _ _ => guardOk (k + 1)
  | .and a b => guardOk k && fitsF (k + 1) a && fitsF (k + 1) b
  | .or a b => guardOk k && fitsF (k + 1) a && fitsF (k + 1) b
  | .not a => guardOk (k + 1) && fitsF (k + 2) a

def wfF : FExpr → Bool
  | .cmp _ op _ => isCmpOp op
  | .and a b => wfF a && wfF b
  | .or a b => wfF a && wfF b
  | .not a => wfF a

def noAndHead : List Tok → Bool
  | .sym s :: _ => !(s == "&&")
  | _ => true
def noOrHead : List Tok → Bool
  | .sym s :: _ => !(s == "||")
  | _ => true
/-- the token after an expression is not a boolean operator (it is `)` wherever the printer puts an expression) -/
def noOpHead (l : List Tok) : Bool := noAndHead l && noOrHead l

theorem guardOk_of_succ {k : Nat} (h : guardOk (k + 1) = true) : guardOk k = true := by
  simp [guardOk] at *; omega

theorem fitsF_guard : ∀ (e : FExpr) (k : Nat), fitsF k e = true → guardOk k = true
  | .cmp _ _ _, k, h => guardOk_of_succ (by simpa [fitsF] using h)
  | .and a b, k, h => by simp [fitsF] at h; exact h.1.1
  | .or a b, k, h => by simp [fitsF] at h; exact h.1.1
  | .not a, k, h => by simp [fitsF] at h; exact guardOk_of_succ h.1

theorem andTail_stop (fuel k : Nat) (acc : FExpr) (rest : List Tok) (hf : 0 < fuel) (h : noAndHead rest = true) :
    parseAndTail fuel k acc rest = some (acc, rest) := by
  obtain ⟨f, rfl⟩ : ∃ f, fuel = f + 1 := ⟨fuel - 1, by omega⟩
  unfold parseAndTail
  split
  · simp_all
  · simp [noAndHead] at h
  · rfl

theorem orTail_stop (fuel k : Nat) (acc : FExpr) (rest : List Tok) (hf : 0 < fuel) (h : noOrHead rest = true) :
    parseOrTail fuel k acc rest = some (acc, rest) := by
  obtain ⟨f, rfl⟩ : ∃ f, fuel = f + 1 := ⟨fuel - 1, by omega⟩
  unfold parseOrTail
  split
  · simp_all
  · simp [noOrHead] at h
  · rfl

theorem atom_paren (f k : Nat) (X : List Tok) (e : FExpr) (r : List Tok) (hg : guardOk k = true)
    (h : parseOr f (k + 1) (X ++ sy ")" :: r) = some (e, sy ")" :: r)) :
    parseAtom (f + 1) k (sy "(" :: (X ++ sy ")" :: r)) = some (e, r) := by
  simp only [sy] at h ⊢
  unfold parseAtom
  simp [hg, h]

theorem atom_not (f k : Nat) (X : List Tok) (e : FExpr) (r : List Tok) (hg : guardOk k = true)
    (h : parseAtom f (k + 1) X = some (e, r)) :
    parseAtom (f + 1) k (sy "!" :: X) = some (.not e, r) := by
  simp only [sy] at h ⊢
  unfold parseAtom
  simp [hg, h]

theorem and_of_atom (f k : Nat) (toks : List Tok) (e : FExpr) (r : List Tok) (hf : 0 < f)
    (h : parseAtom f k toks = some (e, r)) (hr : noAndHead r = true) :
    parseAnd (f + 1) k toks = some (e, r) := by
  unfold parseAnd
  rw [h]
  exact andTail_stop f k e r hf hr

theorem or_of_and (f k : Nat) (toks : List Tok) (e : FExpr) (r : List Tok) (hf : 0 < f)
    (h : parseAnd f k toks = some (e, r)) (hr : noOrHead r = true) :
    parseOr (f + 1) k toks = some (e, r) := by
  unfold parseOr
  rw [h]
  exact orTail_stop f k e r hf hr

theorem andTail_step (f k : Nat) (acc e : FExpr) (X r : List Tok) (hf : 0 < f)
    (h : parseAtom f k X = some (e, r)) (hr : noAndHead r = true) :
    parseAndTail (f + 1) k acc (sy "&&" :: X) = some (.and acc e, r) := by
  simp only [sy]
  unfold parseAndTail
  simp [h]
  exact andTail_stop f k _ r hf hr

theorem orTail_step (f k : Nat) (acc e : FExpr) (X r : List Tok) (hf : 0 < f)
    (h : parseAnd f k X = some (e, r)) (hr : noOrHead r = true) :
    parseOrTail (f + 1) k acc (sy "||" :: X) = some (.or acc e, r) := by
  simp only [sy]
  unfold parseOrTail
  simp [h]
  exact orTail_stop f k _ r hf hr

theorem noOp_and {l : List Tok} (h : noOpHead l = true) : noAndHead l = true := by
  simp [noOpHead] at h; exact h.1
theorem noOp_or {l : List Tok} (h : noOpHead l = true) : noOrHead l = true := by
  simp [noOpHead] at h; exact h.2

theorem parseOr_print : ∀ (e : FExpr) (k fuel : Nat) (rest : List Tok),
    wfF e = true → fitsF k e = true → fuelF e ≤ fuel → noOpHead rest = true →
    parseOr fuel k (toksF e ++ rest) = some (e, rest)
  | .cmp l op r, k, fuel, rest, hw, hf, hfu, hr => by
    obtain ⟨n, rfl⟩ : ∃ n, fuel = n + 4 := ⟨fuel - 4, by simp [fuelF] at hfu; omega⟩
    have hg1 : guardOk (k + 1) = true := by simpa [fitsF] using hf
    have hg := guardOk_of_succ hg1
    have hop : isCmpOp op = true := by simpa [wfF] using hw
    have hatom : parseAtom (n + 2) k (toksF (.cmp l op r) ++ rest) = some (.cmp l op r, rest) := by
      simp [parseAtom, toksF, sy, hg, hg1, hop]
    exact or_of_and (n + 3) k _ _ _ (by omega) (and_of_atom (n + 2) k _ _ _ (by omega) hatom (noOp_and hr)) (noOp_or hr)
  | .and a b, k, fuel, rest, hw, hf, hfu, hr => by
    obtain ⟨n, rfl, hna, hnb⟩ : ∃ n, fuel = n + 6 ∧ fuelF a ≤ n ∧ fuelF b ≤ n :=
      ⟨fuel - 6, by simp [fuelF] at hfu; omega, by simp [fuelF] at hfu; omega, by simp [fuelF] at hfu; omega⟩
    simp [fitsF] at hf
    simp [wfF] at hw
    obtain ⟨⟨hg, hfa⟩, hfb⟩ := hf
    have ha := parseOr_print a (k + 1) (n + 3) (sy ")" :: sy "&&" :: sy "(" :: (toksF b ++ sy ")" :: rest))
      hw.1 hfa (by omega) (by simp [noOpHead, noAndHead, noOrHead, sy])
    have hb := parseOr_print b (k + 1) (n + 2) (sy ")" :: rest) hw.2 hfb (by omega)
      (by simp [noOpHead, noAndHead, noOrHead, sy])
    have hA := atom_paren _ k _ _ _ hg ha
    have hB := atom_paren _ k _ _ _ hg hb
    have htoks : toksF (.and a b) ++ rest =
        sy "(" :: (toksF a ++ sy ")" :: sy "&&" :: sy "(" :: (toksF b ++ sy ")" :: rest)) := by
      simp [toksF]
    rw [htoks]
    have hand : parseAnd (n + 5) k
        (sy "(" :: (toksF a ++ sy ")" :: sy "&&" :: sy "(" :: (toksF b ++ sy ")" :: rest))) = some (.and a b, rest) := by
      unfold parseAnd
      rw [hA]
      exact andTail_step (n + 3) k a b _ rest (by omega) hB (noOp_and hr)
    exact or_of_and (n + 5) k _ _ _ (by omega) hand (noOp_or hr)
  | .or a b, k, fuel, rest, hw, hf, hfu, hr => by
    obtain ⟨n, rfl, hna, hnb⟩ : ∃ n, fuel = n + 6 ∧ fuelF a ≤ n ∧ fuelF b ≤ n :=
      ⟨fuel - 6, by simp [fuelF] at hfu; omega, by simp [fuelF] at hfu; omega, by simp [fuelF] at hfu; omega⟩
    simp [fitsF] at hf
    simp [wfF] at hw
    obtain ⟨⟨hg, hfa⟩, hfb⟩ := hf
    have ha := parseOr_print a (k + 1) (n + 3) (sy ")" :: sy "||" :: sy "(" :: (toksF b ++ sy ")" :: rest))
      hw.1 hfa (by omega) (by simp [noOpHead, noAndHead, noOrHead, sy])
    have hb := parseOr_print b (k + 1) (n + 2) (sy ")" :: rest) hw.2 hfb (by omega)
      (by simp [noOpHead, noAndHead, noOrHead, sy])
    have hA := atom_paren _ k _ _ _ hg ha
    have hB := atom_paren _ k _ _ _ hg hb
    have htoks : toksF (.or a b) ++ rest =
        sy "(" :: (toksF a ++ sy ")" :: sy "||" :: sy "(" :: (toksF b ++ sy ")" :: rest)) := by
      simp [toksF]
    rw [htoks]
    have hand1 := and_of_atom (n + 4) k _ _ _ (by omega) hA (by simp [noAndHead, sy])
    have hand2 := and_of_atom (n + 3) k _ _ _ (by omega) hB (noOp_and hr)
    show parseOr (n + 5 + 1) k _ = _
    unfold parseOr
    rw [hand1]
    exact orTail_step (n + 4) k a b _ rest (by omega) hand2 (noOp_or hr)
  | .not a, k, fuel, rest, hw, hf, hfu, hr => by
    obtain ⟨n, rfl, hna⟩ : ∃ n, fuel = n + 4 ∧ fuelF a ≤ n :=
      ⟨fuel - 4, by simp [fuelF] at hfu; omega, by simp [fuelF] at hfu; omega⟩
    simp [fitsF] at hf
    simp [wfF] at hw
    obtain ⟨hg1, hfa⟩ := hf
    have hg := guardOk_of_succ hg1
    have ha := parseOr_print a (k + 2) n (sy ")" :: rest) hw hfa hna
      (by simp [noOpHead, noAndHead, noOrHead, sy])
    have hA := atom_paren _ (k + 1) _ _ _ hg1 ha
    have hN := atom_not _ k _ _ _ hg hA
    have htoks : toksF (.not a) ++ rest = sy "!" :: sy "(" :: (toksF a ++ sy ")" :: rest) := by
      simp [toksF]
    rw [htoks]
    exact or_of_and (n + 3) k _ _ _ (by omega) (and_of_atom (n + 2) k _ _ _ (by omega) hN (noOp_and hr)) (noOp_or hr)

end Kolibrie.Syntax

namespace Kolibrie.Syntax

theorem lexNat_natDigits (n : Nat) : lexNat (natDigits n) = n := Nat.ofDigitChars_ten_toDigits

theorem allDigits_natDigits (n : Nat) : allDigits (natDigits n) = true := by
  simp only [allDigits, natDigits, Bool.and_eq_true, Bool.not_eq_true', List.all_eq_true]
  refine ⟨?_, fun c hc => Nat.isDigit_of_mem_toDigits (by decide) (by decide) hc⟩
  cases h : Nat.toDigits 10 n with
  | nil => exact absurd h Nat.toDigits_ne_nil
  | cons _ _ => rfl

/-! ### patterns -/

def isVarStart : Lexeme → Bool
  | c :: _ => c == '?' || c == '$'
  | [] => false

mutual
def fuelP : Pat → Nat
  | .unit => 12
  | .bgp _ pos => pos.length + 12
  | .join ps => fuelL ps + 12
  | .union ps => fuelL ps + 12
  | .graph _ p => fuelP p + 12
  | .filter e => fuelF e + 12
  | .sub q => fuelS q + 12
def fuelL : PatList → Nat
  | .nil => 2
  | .cons p ps => fuelP p + fuelL ps + 12
def fuelS : Sel → Nat
  | .mk _ _ pat _ _ _ => fuelP pat + 12
end

mutual
def wfP : Pat → Bool
  | .unit => true
  | .bgp _ pos => !pos.isEmpty
  | .join ps => decide (2 ≤ ps.length) && wfL ps
  | .union ps => decide (2 ≤ ps.length) && wfL ps
  | .graph _ p => wfP p
  | .filter e => wfF e
  | .sub q => wfS q
def wfL : PatList → Bool
  | .nil => true
  | .cons p ps => wfP p && wfL ps
def wfS : Sel → Bool
  | .mk _ vars pat gb ob _ =>
    vars.all isVarStart && wfP pat && gb.all isVarStart && ob.all (fun o => o.2 || isVarStart o.1)
end

mutual
/-- the nesting guard lets the pattern through when it is parsed as a group element with counter `k` -/
def fitsItem (k : Nat) : Pat → Bool
  | .unit => guardOk k
  | .bgp _ _ => true
  | .join ps => guardOk k && fitsItems (k + 1) ps
  | .union ps => fitsAlts k ps
  | .graph _ p => fitsBraced k p
  | .filter e => fitsF k e
  | .sub q => fitsSel k q
/-- … when it is parsed as a braced group with counter `k` -/
def fitsBraced (k : Nat) : Pat → Bool
  | .unit => guardOk k
  | .bgp _ _ => guardOk k
  | .join ps => guardOk k && fitsItems (k + 1) ps
  | .union ps => guardOk k && fitsAlts (k + 1) ps
  | .graph _ p => guardOk k && fitsBraced (k + 1) p
  | .filter e => guardOk k && fitsF (k + 1) e
  | .sub q => guardOk k && fitsSel (k + 1) q
def fitsItems (k : Nat) : PatList → Bool
  | .nil => true
  | .cons p ps => fitsItem k p && fitsItems k ps
def fitsAlts (k : Nat) : PatList → Bool
  | .nil => true
  | .cons p ps => fitsBraced k p && fitsAlts k ps
def fitsSel (k : Nat) : Sel → Bool
  | .mk _ _ pat _ _ _ => fitsBraced k pat
end

end Kolibrie.Syntax

namespace Kolibrie.Syntax

def noSemiHead : List Tok → Bool
  | .sym s :: _ => !(s == ";")
  | _ => true

theorem toksPos_cons2 (p o : Lexeme) (q : Lexeme × Lexeme) (r : List (Lexeme × Lexeme)) :
    toksPos ((p, o) :: q :: r) = .term p :: .term o :: sy ";" :: toksPos (q :: r) := by
  simp [toksPos]

theorem toksPos_head (q : Lexeme × Lexeme) (r : List (Lexeme × Lexeme)) :
    ∃ t, toksPos (q :: r) = .term q.1 :: t := by
  cases r with
  | nil => exact ⟨[.term q.2], by simp [toksPos]⟩
  | cons a r => exact ⟨_, toksPos_cons2 q.1 q.2 a r⟩

theorem parsePos_print : ∀ (pos : List (Lexeme × Lexeme)) (fuel : Nat) (rest : List Tok),
    pos ≠ [] → pos.length ≤ fuel → noSemiHead rest = true →
    parsePos fuel (toksPos pos ++ rest) = some (pos, rest)
  | [], _, _, h, _, _ => absurd rfl h
  | [(p, o)], fuel, rest, _, hf, hr => by
    obtain ⟨f, rfl⟩ : ∃ f, fuel = f + 1 := ⟨fuel - 1, by simp at hf; omega⟩
    simp only [toksPos, List.cons_append, List.nil_append]
    cases rest with
    | nil => simp [parsePos]
    | cons t r' =>
      cases t with
      | kw k => simp [parsePos]
      | term x => simp [parsePos]
      | sym x =>
        have hx : x ≠ ";" := by simpa [noSemiHead] using hr
        simp [parsePos, hx]
  | (p, o) :: q :: r, fuel, rest, _, hf, hr => by
    obtain ⟨f, rfl⟩ : ∃ f, fuel = f + 1 := ⟨fuel - 1, by simp at hf; omega⟩
    obtain ⟨t, ht⟩ := toksPos_head q r
    have ih := parsePos_print (q :: r) f rest (by simp) (by simp at hf ⊢; omega) hr
    rw [toksPos_cons2, ht] at *
    simp only [List.cons_append, sy] at ih ⊢
    unfold parsePos
    simp [ih]

end Kolibrie.Syntax

namespace Kolibrie.Syntax

/-- what may follow a group element: not `;` (the triples statement would continue) and not `UNION` -/
def okAfterElem : List Tok → Bool
  | .sym s :: _ => !(s == ";")
  | .kw k :: _ => !(k == "UNION")
  | _ => true

theorem okAfterElem_semi {l : List Tok} (h : okAfterElem l = true) : noSemiHead l = true := by
  cases l with
  | nil => rfl
  | cons t r => cases t <;> simp_all [okAfterElem, noSemiHead]

theorem unionTail_stop (f k : Nat) (b : Bool) (rest : List Tok) (h : okAfterElem rest = true) :
    parseUnionTail (f + 1) k b rest = some (.nil, rest) := by
  cases rest with
  | nil => simp [parseUnionTail]
  | cons t r =>
    cases t with
    | kw x => have hx : x ≠ "UNION" := by simpa [okAfterElem] using h
              simp [parseUnionTail, hx]
    | term x => simp [parseUnionTail]
    | sym x => simp [parseUnionTail]

/-- a triples statement as a group element -/
theorem elem_bgp (f k : Nat) (d : Dots) (s : Lexeme) (pos : List (Lexeme × Lexeme)) (rest : List Tok)
    (hpos : pos ≠ []) (hf : pos.length ≤ f) (hr : okAfterElem rest = true) :
    parseElem (f + 3) k (toksItem d (.bgp s pos) ++ rest) = some (.bgp s pos, true, rest) := by
  have hp := parsePos_print pos (f + 1 + 1) rest hpos (by omega) (okAfterElem_semi hr)
  have hprim : parsePrimary (f + 1 + 1) k (Tok.term s :: (toksPos pos ++ rest)) = some (.bgp s pos, rest) := by
    unfold parsePrimary
    simp [hp]
  have ht : toksItem d (.bgp s pos) ++ rest = Tok.term s :: (toksPos pos ++ rest) := by simp [toksItem]
  rw [ht]
  show parseElem (f + 2 + 1) k _ = _
  unfold parseElem
  simp only [hprim]
  rw [unionTail_stop (f + 1) k _ rest hr]

/-- a FILTER as a group element -/
theorem elem_filter (f k : Nat) (d : Dots) (e : FExpr) (rest : List Tok)
    (hw : wfF e = true) (hfit : fitsF k e = true) (hf : fuelF e ≤ f) :
    parseElem (f + 1) k (toksItem d (.filter e) ++ rest) = some (.filter e, false, rest) := by
  have h := parseOr_print e k f (sy ")" :: rest) hw hfit hf (by simp [noOpHead, noAndHead, noOrHead, sy])
  have ht : toksItem d (.filter e) ++ rest = kwd "FILTER" :: sy "(" :: (toksF e ++ sy ")" :: rest) := by
    simp [toksItem]
  rw [ht]
  simp only [sy, kwd] at h ⊢
  unfold parseElem
  simp [h]

end Kolibrie.Syntax

namespace Kolibrie.Syntax

/-- flat group elements: triples statements and FILTERs -/
def flatElem : Pat → Bool
  | .bgp _ pos => !pos.isEmpty
  | .filter e => wfF e
  | _ => false
def flatList : PatList → Bool
  | .nil => true
  | .cons p ps => flatElem p && flatList ps

/-- first token of an element list followed by the closing brace -/
def okHead : Tok → Bool
  | .term _ => true
  | .kw k => k == "FILTER"
  | .sym s => s == "}"

theorem flat_head (d : Dots) : ∀ (ps : PatList) (rest : List Tok), flatList ps = true →
    ∃ t r, toksItems d ps ++ sy "}" :: rest = t :: r ∧ okHead t = true
  | .nil, rest, _ => ⟨sy "}", rest, by simp [toksItems], by simp [okHead, sy]⟩
  | .cons (.bgp s pos) ps, rest, _ => by
    cases ps <;> exact ⟨.term s, _, by simp only [toksItems, toksItem, List.cons_append]; rfl, rfl⟩
  | .cons (.filter e) ps, rest, _ => by
    cases ps <;> exact ⟨kwd "FILTER", _, by simp only [toksItems, toksItem, List.cons_append]; rfl, by simp [okHead, kwd]⟩
  | .cons .unit _, _, h => by simp [flatList, flatElem] at h
  | .cons (.join _) _, _, h => by simp [flatList, flatElem] at h
  | .cons (.union _) _, _, h => by simp [flatList, flatElem] at h
  | .cons (.graph _ _) _, _, h => by simp [flatList, flatElem] at h
  | .cons (.sub _) _, _, h => by simp [flatList, flatElem] at h

theorem okHead_after {t : Tok} {r : List Tok} (h : okHead t = true) : okAfterElem (t :: r) = true := by
  cases t with
  | kw k => simp [okHead] at h; simp [okAfterElem, h]
  | term x => rfl
  | sym s => simp [okHead] at h; simp [okAfterElem, h]

theorem okHead_dropDot {t : Tok} {r : List Tok} (h : okHead t = true) : dropDot (t :: r) = t :: r := by
  cases t with
  | kw k => rfl
  | term x => rfl
  | sym s => simp [okHead] at h; simp [dropDot, h]

theorem items_nil (f k : Nat) (rest : List Tok) :
    parseItems (f + 1) k (sy "}" :: rest) = some (.nil, sy "}" :: rest) := by
  simp [parseItems, sy]

/-- one more element in front of an element list that parses -/
theorem items_cons (f k : Nat) (p : Pat) (ps : PatList) (dotOk : Bool) (X R R' : List Tok) (t : Tok) (x : List Tok)
    (hX : X = t :: x) (ht : t ≠ .sym "}")
    (hE : parseElem f k X = some (p, dotOk, R))
    (hD : (if dotOk then dropDot R else R) = R')
    (res : List Tok) (hI' : parseItems f k R' = some (ps, res)) :
    parseItems (f + 1) k X = some (.cons p ps, res) := by
  subst hX
  unfold parseItems
  cases t with
  | sym s =>
    have hs : s ≠ "}" := fun h => ht (by rw [h])
    simp [hs, hE, hD, hI']
  | kw k' => simp [hE, hD, hI']
  | term x' => simp [hE, hD, hI']

end Kolibrie.Syntax

namespace Kolibrie.Syntax

def isNilL : PatList → Bool
  | .nil => true
  | _ => false

theorem toksItems_cons (d : Dots) (p : Pat) (ps : PatList) (rest : List Tok) :
    toksItems d (.cons p ps) ++ rest =
      toksItem d p ++ ((if isFilter p then [] else dotTok d (isNilL ps)) ++ (toksItems d ps ++ rest)) := by
  cases ps <;> simp [toksItems, isNilL]

theorem dotTok_cases (d : Dots) (b : Bool) : dotTok d b = [] ∨ dotTok d b = [sy "."] := by
  cases d <;> cases b <;> simp [dotTok]

theorem items_flat (d : Dots) : ∀ (ps : PatList) (k fuel : Nat) (rest : List Tok),
    flatList ps = true → fitsItems k ps = true → fuelL ps ≤ fuel →
    parseItems fuel k (toksItems d ps ++ sy "}" :: rest) = some (ps, sy "}" :: rest)
  | .nil, k, fuel, rest, _, _, hf => by
    obtain ⟨f, rfl⟩ : ∃ f, fuel = f + 1 := ⟨fuel - 1, by simp [fuelL] at hf; omega⟩
    simpa [toksItems] using items_nil f k rest
  | .cons (.bgp s pos) ps, k, fuel, rest, hfl, hfit, hf => by
    simp only [fuelL, fuelP] at hf
    obtain ⟨f, rfl⟩ : ∃ f, fuel = f + 4 := ⟨fuel - 4, by omega⟩
    simp only [flatList, flatElem, Bool.and_eq_true, Bool.not_eq_true', List.isEmpty_eq_false_iff] at hfl
    simp only [fitsItems, fitsItem, Bool.true_and] at hfit
    have ih := items_flat d ps k (f + 3) rest hfl.2 hfit (by omega)
    obtain ⟨t, r, hr, hok⟩ := flat_head d ps rest hfl.2
    rw [toksItems_cons, hr]
    rw [hr] at ih
    simp only [isFilter, Bool.false_eq_true, ↓reduceIte]
    rcases dotTok_cases d (isNilL ps) with hd | hd <;> rw [hd]
    · have hE := elem_bgp f k d s pos (t :: r) hfl.1 (by omega) (okHead_after hok)
      exact items_cons (f + 3) k _ ps true _ (t :: r) (t :: r) (.term s) (toksPos pos ++ t :: r) rfl (by simp)
        hE (by simp [okHead_dropDot hok]) _ ih
    · have hE := elem_bgp f k d s pos (sy "." :: t :: r) hfl.1 (by omega) (by simp [okAfterElem, sy])
      exact items_cons (f + 3) k _ ps true _ (sy "." :: t :: r) (t :: r) (.term s) (toksPos pos ++ sy "." :: t :: r) rfl (by simp)
        hE (by simp [dropDot, sy]) _ ih
  | .cons (.filter e) ps, k, fuel, rest, hfl, hfit, hf => by
    simp only [fuelL, fuelP] at hf
    obtain ⟨f, rfl⟩ : ∃ f, fuel = f + 2 := ⟨fuel - 2, by omega⟩
    simp only [flatList, flatElem, Bool.and_eq_true] at hfl
    simp only [fitsItems, fitsItem, Bool.and_eq_true] at hfit
    have ih := items_flat d ps k (f + 1) rest hfl.2 hfit.2 (by omega)
    obtain ⟨t, r, hr, hok⟩ := flat_head d ps rest hfl.2
    rw [toksItems_cons, hr]
    rw [hr] at ih
    simp only [isFilter, ↓reduceIte, List.nil_append]
    have hE := elem_filter f k d e (t :: r) hfl.1 hfit.1 (by omega)
    exact items_cons (f + 1) k _ ps false _ (t :: r) (t :: r) (kwd "FILTER") ((sy "(" :: (toksF e ++ [sy ")"])) ++ t :: r) rfl (by simp [kwd])
      hE (by simp) _ ih
  | .cons .unit _, _, _, _, h, _, _ => by simp [flatList, flatElem] at h
  | .cons (.join _) _, _, _, _, h, _, _ => by simp [flatList, flatElem] at h
  | .cons (.union _) _, _, _, _, h, _, _ => by simp [flatList, flatElem] at h
  | .cons (.graph _ _) _, _, _, _, h, _, _ => by simp [flatList, flatElem] at h
  | .cons (.sub _) _, _, _, _, h, _, _ => by simp [flatList, flatElem] at h

end Kolibrie.Syntax

namespace Kolibrie.Syntax

/-- `parse_group_graph_pattern`'s result for an element list: empty → Unit, singleton → the element, else Join -/
def collapse : PatList → Pat
  | .nil => .unit
  | .cons p .nil => p
  | ps => .join ps

/-- `parse_group_graph_pattern` on a brace that is not followed by SELECT: the element loop, then the collapse -/
theorem braced_items (f k : Nat) (t : Tok) (x : List Tok) (ps : PatList) (rest : List Tok)
    (ht : t ≠ .kw "SELECT") (hg : guardOk k = true)
    (hI : parseItems f (k + 1) (t :: x) = some (ps, sy "}" :: rest)) :
    parseBraced (f + 1) k (sy "{" :: t :: x) = some (collapse ps, rest) := by
  simp only [sy] at hI ⊢
  unfold parseBraced
  cases t with
  | kw y =>
    have hy : y ≠ "SELECT" := fun hc => ht (by rw [hc])
    simp only [hg, Bool.not_true, Bool.false_eq_true, ↓reduceIte]
    split
    · rename_i heq; simp at heq; exact absurd heq.1 hy
    · rename_i heq; simp at heq; obtain ⟨rfl⟩ := heq; simp only [hI]; (cases ps with | nil => rfl | cons p ps' => cases ps' <;> rfl)
    · rename_i h1 h2; exact absurd rfl (h2 _)
  | term y => simp only [hg, Bool.not_true, Bool.false_eq_true, ↓reduceIte, hI]; (cases ps with | nil => rfl | cons p ps' => cases ps' <;> rfl)
  | sym y => simp only [hg, Bool.not_true, Bool.false_eq_true, ↓reduceIte, hI]; (cases ps with | nil => rfl | cons p ps' => cases ps' <;> rfl)

theorem okHead_ne_select {t : Tok} (h : okHead t = true) : t ≠ .kw "SELECT" := by
  intro hc; subst hc; simp [okHead] at h

theorem braced_flat (d : Dots) (ps : PatList) (k f : Nat) (rest : List Tok)
    (hfl : flatList ps = true) (hg : guardOk k = true) (hfit : fitsItems (k + 1) ps = true) (hf : fuelL ps ≤ f) :
    parseBraced (f + 1) k (sy "{" :: (toksItems d ps ++ sy "}" :: rest)) = some (collapse ps, rest) := by
  have h := items_flat d ps (k + 1) f rest hfl hfit hf
  obtain ⟨t, r, hr, hok⟩ := flat_head d ps rest hfl
  rw [hr] at h ⊢
  exact braced_items f k t r ps rest (okHead_ne_select hok) hg h

/-- the flat fragment: `{}` , one triples statement, one FILTER, or a group of at least two of those -/
def flatPat : Pat → Bool
  | .unit => true
  | .bgp _ pos => !pos.isEmpty
  | .filter e => wfF e
  | .join ps => decide (2 ≤ ps.length) && flatList ps
  | _ => false

theorem braced_flatPat (d : Dots) (p : Pat) (k fuel : Nat) (rest : List Tok)
    (hp : flatPat p = true) (hfit : fitsBraced k p = true) (hf : fuelP p + 16 ≤ fuel) :
    parseBraced fuel k (toksBraced d p ++ rest) = some (p, rest) := by
  obtain ⟨f, rfl⟩ : ∃ f, fuel = f + 1 := ⟨fuel - 1, by omega⟩
  cases p with
  | unit =>
    have := braced_flat d .nil k f rest rfl (by simpa [fitsBraced] using hfit) rfl (by simp [fuelL]; omega)
    simpa [toksBraced, toksItems, collapse] using this
  | bgp s pos =>
    simp only [fitsBraced] at hfit
    have := braced_flat d (.cons (.bgp s pos) .nil) k f rest (by simpa [flatList, flatElem, flatPat] using hp) hfit
      (by simp [fitsItems, fitsItem]) (by simp [fuelL, fuelP] at hf ⊢; omega)
    simpa [toksBraced, toksItems, toksItem, collapse, isFilter] using this
  | filter e =>
    simp only [fitsBraced, Bool.and_eq_true] at hfit
    have := braced_flat d (.cons (.filter e) .nil) k f rest (by simpa [flatList, flatElem, flatPat] using hp) hfit.1
      (by simp [fitsItems, fitsItem, hfit.2]) (by simp [fuelL, fuelP] at hf ⊢; omega)
    simpa [toksBraced, toksItems, toksItem, collapse, isFilter] using this
  | join ps =>
    simp only [fitsBraced, Bool.and_eq_true] at hfit
    simp only [flatPat, Bool.and_eq_true, decide_eq_true_eq] at hp
    have := braced_flat d ps k f rest hp.2 hfit.1 hfit.2 (by simp [fuelP] at hf; omega)
    have hc : collapse ps = .join ps := by
      cases ps with
      | nil => simp [PatList.length] at hp
      | cons a ps' => cases ps' with
        | nil => simp [PatList.length] at hp
        | cons b c => rfl
    rw [hc] at this
    simpa [toksBraced] using this
  | union ps => simp [flatPat] at hp
  | graph n q => simp [flatPat] at hp
  | sub q => simp [flatPat] at hp

def noVarHead : List Tok → Bool
  | .term (c :: _) :: _ => !(c == '?' || c == '$')
  | _ => true

theorem parseVars_print : ∀ (vs : List Lexeme) (rest : List Tok), vs.all isVarStart = true → noVarHead rest = true →
    parseVars (vs.map Tok.term ++ rest) = (vs, rest)
  | [], rest, _, hr => by
    cases rest with
    | nil => simp [parseVars]
    | cons t r =>
      cases t with
      | kw k => simp [parseVars]
      | sym s => simp [parseVars]
      | term x =>
        cases x with
        | nil => simp [parseVars]
        | cons c cs =>
          have : (c == '?' || c == '$') = false := by simpa [noVarHead] using hr
          simp [parseVars, this]
  | v :: vs, rest, hv, hr => by
    simp only [List.all_cons, Bool.and_eq_true] at hv
    have ih := parseVars_print vs rest hv.2 hr
    cases v with
    | nil => simp [isVarStart] at hv
    | cons c cs =>
      have hc : (c == '?' || c == '$') = true := by simpa [isVarStart] using hv.1
      simp [parseVars, hc, ih]

/-- end of a (sub-)select: end of input or the closing brace of the sub-select -/
def endOk : List Tok → Bool
  | [] => true
  | .sym s :: _ => s == "}"
  | _ => false

theorem modifiers_none (rest : List Tok) (h : endOk rest = true) :
    parseModifiers rest = some ([], [], none, rest) := by
  cases rest with
  | nil => simp [parseModifiers, parseGroupBy, parseOrderBy, parseLimit]
  | cons t r =>
    cases t with
    | kw k => simp [endOk] at h
    | term x => simp [endOk] at h
    | sym s => simp [parseModifiers, parseGroupBy, parseOrderBy, parseLimit]

end Kolibrie.Syntax

namespace Kolibrie.Syntax

/-- the flat fragment of SELECT: projection of variables or `*`, optional DISTINCT, a flat group, no modifiers -/
def flatSel : Sel → Bool
  | .mk _ vars pat gb ob lim => vars.all isVarStart && flatPat pat && gb.isEmpty && ob.isEmpty && lim.isNone

theorem sel_flat (d : Dots) (q : Sel) (k fuel : Nat) (rest : List Tok)
    (hq : flatSel q = true) (hfit : fitsSel k q = true) (hf : fuelS q + 9 ≤ fuel) (hr : endOk rest = true) :
    parseSel fuel k (toksSel d q ++ rest) = some (q, rest) := by
  obtain ⟨dist, vars, pat, gb, ob, lim⟩ := q
  simp only [flatSel, Bool.and_eq_true, List.isEmpty_iff, Option.isNone_iff_eq_none] at hq
  obtain ⟨⟨⟨⟨hv, hp⟩, hgb⟩, hob⟩, hlim⟩ := hq
  subst hgb hob hlim
  obtain ⟨f, rfl⟩ : ∃ f, fuel = f + 1 := ⟨fuel - 1, by omega⟩
  have hB := braced_flatPat d pat k f rest hp (by simpa [fitsSel] using hfit) (by simp [fuelS] at hf; omega)
  have hM := modifiers_none rest hr
  cases vars with
  | nil =>
    cases dist <;>
    · simp only [toksSel, toksVars, List.isEmpty_nil, ↓reduceIte, List.append_nil, List.nil_append,
        List.cons_append, Bool.false_eq_true, sy, kwd] at hB ⊢
      unfold parseSel
      simp [hB, hM]
  | cons v vs =>
    have hV := parseVars_print (v :: vs) (kwd "WHERE" :: (toksBraced d pat ++ rest)) hv (by simp [noVarHead, kwd])
    cases v with
    | nil => simp [isVarStart] at hv
    | cons c cs =>
    cases dist <;>
    · simp only [toksSel, toksVars, List.isEmpty_nil, ↓reduceIte, List.append_nil, List.nil_append,
        List.cons_append, List.map_cons, Bool.false_eq_true, List.append_assoc, sy, kwd] at hB hV ⊢
      unfold parseSel
      simp [hB, hM, hV]

end Kolibrie.Syntax

namespace Kolibrie.Syntax

theorem braced_guard_fail (f d : Nat) (X : List Tok) (h : guardOk d = false) : parseBraced f d X = none := by
  cases f with
  | zero => simp [parseBraced]
  | succ f => unfold parseBraced; simp [h]

theorem sel_guard_fail (f d : Nat) (X : List Tok) (h : guardOk d = false) : parseSel f d X = none := by
  cases f with
  | zero => simp [parseSel]
  | succ f =>
    unfold parseSel
    split
    · simp only [braced_guard_fail _ d _ h]
      split <;> simp
    · rfl

/-- **nesting beyond the limit is rejected**: `n + 1` opening braces in a row, entered with guard counter `k`, cannot be
    parsed once `k + n` reaches the limit — whatever follows, with any fuel -/
theorem deep_braces_rejected : ∀ (n fuel k : Nat) (rest : List Tok),
    Kolibrie.Extracted.maxNestingDepth ≤ k + n →
    parseBraced fuel k (List.replicate (n + 1) (sy "{") ++ rest) = none
  | 0, fuel, k, rest, h => by
    cases fuel with
    | zero => simp [parseBraced]
    | succ f =>
      have hg : guardOk k = false := by simp [guardOk]; omega
      unfold parseBraced
      simp [hg]
  | n + 1, fuel, k, rest, h => by
    cases fuel with
    | zero => simp [parseBraced]
    | succ f =>
      unfold parseBraced
      by_cases hg : guardOk k = true
      · have ih : ∀ f', parseBraced f' (k + 1) (List.replicate (n + 1) (sy "{") ++ rest) = none :=
          fun f' => deep_braces_rejected n f' (k + 1) rest (by omega)
        have hitems : parseItems f (k + 1) (List.replicate (n + 1) (sy "{") ++ rest) = none := by
          cases f with
          | zero => simp [parseItems]
          | succ f1 =>
            have helem : parseElem f1 (k + 1) (List.replicate (n + 1) (sy "{") ++ rest) = none := by
              cases f1 with
              | zero => simp [parseElem]
              | succ f2 =>
                have hprim : parsePrimary f2 (k + 1) (List.replicate (n + 1) (sy "{") ++ rest) = none := by
                  cases f2 with
                  | zero => simp [parsePrimary]
                  | succ f3 =>
                    have := ih f3
                    cases n with
                    | zero =>
                      simp only [List.replicate, List.cons_append, List.nil_append, sy] at this ⊢
                      unfold parsePrimary
                      cases rest with
                      | nil => simp [this]
                      | cons t r =>
                        have hg1 : guardOk (k + 1) = false := by simp [guardOk]; omega
                        cases t with
                        | kw x =>
                          simp only [this, sel_guard_fail _ _ _ hg1]
                          by_cases hx : x = "SELECT"
                          · subst hx; rfl
                          · split <;> simp_all
                        | term x => simp [this]
                        | sym x => simp [this]
                    | succ m =>
                      simp only [List.replicate, List.cons_append, sy] at this ⊢
                      unfold parsePrimary
                      simp [this]
                simp only [List.replicate, List.cons_append, sy] at hprim ⊢
                unfold parseElem
                simp [hprim]
            simp only [List.replicate, List.cons_append, sy] at helem ⊢
            unfold parseItems
            simp [helem]
        simp only [List.replicate, List.cons_append, sy] at hitems ⊢
        simp [hg, hitems]
      · simp [hg]

end Kolibrie.Syntax
