import Kolibrie.Model.Rsp
import Kolibrie.Spec.Rsp
/-
Helper lemmas for C10/C11 (core Lean only).
-/
namespace Kolibrie.Rsp
open List

/-! ### duplicate-free lists as sets -/

theorem mem_dedup {α} [DecidableEq α] {a : α} : ∀ {l : List α}, a ∈ dedup l ↔ a ∈ l
  | [] => by simp [dedup]
  | b :: l => by
    have ih := @mem_dedup α _ a l
    by_cases hb : b ∈ dedup l
    · simp only [dedup, hb, if_true, mem_cons]
      constructor
      · intro h; exact Or.inr (ih.mp h)
      · rintro (rfl | h)
        · exact hb
        · exact ih.mpr h
    · simp only [dedup, hb, if_false, mem_cons, ih]

theorem nodup_dedup {α} [DecidableEq α] : ∀ (l : List α), (dedup l).Nodup
  | [] => by simp [dedup]
  | b :: l => by
    have ih := nodup_dedup l
    by_cases hb : b ∈ dedup l
    · simp only [dedup, hb, if_true]; exact ih
    · simp only [dedup, hb, if_false]; exact nodup_cons.mpr ⟨hb, ih⟩

theorem nodup_filter {α} {l : List α} (p : α → Bool) (h : l.Nodup) : (l.filter p).Nodup :=
  Nodup.sublist filter_sublist h

theorem perm_of_nodup_of_mem {α} {l₁ l₂ : List α} (h₁ : l₁.Nodup) (h₂ : l₂.Nodup)
    (h : ∀ a, a ∈ l₁ ↔ a ∈ l₂) : l₁.Perm l₂ :=
  (perm_ext_iff_of_nodup h₁ h₂).mpr h

theorem perm_flatMap_left {α β} (l : List α) {f g : α → List β} (h : ∀ a, (f a).Perm (g a)) :
    (l.flatMap f).Perm (l.flatMap g) := by
  induction l with
  | nil => simp
  | cons a l ih => simp only [flatMap_cons]; exact Perm.append (h a) ih

theorem mem_insertT {s : List Triple} {t x : Triple} : x ∈ insertT s t ↔ x ∈ s ∨ x = t := by
  unfold insertT
  by_cases h : t ∈ s
  · simp only [h, if_true]
    constructor
    · exact Or.inl
    · rintro (h' | rfl)
      · exact h'
      · exact h
  · simp [h]

theorem nodup_insertT {s : List Triple} {t : Triple} (hs : s.Nodup) : (insertT s t).Nodup := by
  unfold insertT
  by_cases h : t ∈ s
  · simp only [h, if_true]; exact hs
  · simp only [h, if_false]
    refine nodup_append.mpr ⟨hs, by simp, ?_⟩
    intro a ha b hb
    simp only [mem_singleton] at hb
    subst hb
    intro hab; subst hab; exact h ha

theorem mem_eraseT {s : List Triple} {t x : Triple} : x ∈ eraseT s t ↔ x ∈ s ∧ x ≠ t := by
  unfold eraseT; simp [mem_filter]

theorem nodup_eraseT {s : List Triple} {t : Triple} (hs : s.Nodup) : (eraseT s t).Nodup :=
  nodup_filter _ hs

theorem mem_foldl_eraseT {x : Triple} : ∀ (l s : List Triple), x ∈ l.foldl eraseT s ↔ x ∈ s ∧ x ∉ l
  | [], s => by simp
  | t :: l, s => by
    simp only [foldl_cons, mem_foldl_eraseT l, mem_eraseT, mem_cons, not_or]
    constructor
    · rintro ⟨⟨a, b⟩, c⟩; exact ⟨a, b, c⟩
    · rintro ⟨a, b, c⟩; exact ⟨⟨a, b⟩, c⟩

theorem nodup_foldl_eraseT : ∀ (l s : List Triple), s.Nodup → (l.foldl eraseT s).Nodup
  | [], _, h => h
  | _ :: l, _, h => nodup_foldl_eraseT l _ (nodup_eraseT h)

theorem mem_foldl_insertT {x : Triple} : ∀ (l s : List Triple), x ∈ l.foldl insertT s ↔ x ∈ s ∨ x ∈ l
  | [], s => by simp
  | t :: l, s => by
    simp only [foldl_cons, mem_foldl_insertT l, mem_insertT, mem_cons]
    constructor
    · rintro ((a | b) | c)
      · exact Or.inl a
      · exact Or.inr (Or.inl b)
      · exact Or.inr (Or.inr c)
    · rintro (a | b | c)
      · exact Or.inl (Or.inl a)
      · exact Or.inl (Or.inr b)
      · exact Or.inr c

theorem nodup_foldl_insertT : ∀ (l s : List Triple), s.Nodup → (l.foldl insertT s).Nodup
  | [], _, h => h
  | _ :: l, _, h => nodup_foldl_insertT l _ (nodup_insertT h)

theorem loadContent_eq (b : Bool) : ∀ (c s d : List Triple),
    loadContent b c s d = (c.foldl insertT s, if b then c.foldl eraseT d else d)
  | [], s, d => by cases b <;> simp [loadContent]
  | t :: c, s, d => by
    have ih := loadContent_eq b c (insertT s t) (if b then eraseT d t else d)
    unfold loadContent at ih ⊢
    simp only [foldl_cons]
    rw [ih]
    cases b <;> simp

/-! ### lawful plug-ins -/

/-- what the state theorems need from the reasoner and the window plan -/
structure Lawful (cfg : Cfg) : Prop where
  derive_new : ∀ s x, x ∈ cfg.derive s → x ∉ s
  derive_nodup : ∀ s, s.Nodup → (cfg.derive s).Nodup
  derive_perm : ∀ s s', s.Perm s' → (cfg.derive s).Perm (cfg.derive s')
  query_perm : ∀ s s', s.Perm s' → (cfg.query s).Perm (cfg.query s')

theorem joinPat_perm {s s' : List Triple} {rows rows' : List Row} (pat : Pat)
    (hs : s.Perm s') (hr : rows.Perm rows') : (joinPat s rows pat).Perm (joinPat s' rows' pat) := by
  unfold joinPat
  exact (Perm.flatMap_right _ hr).trans (perm_flatMap_left _ fun r => Perm.filterMap _ hs)

theorem evalBGP_perm_aux {s s' : List Triple} (hs : s.Perm s') : ∀ (pats : List Pat) (rows rows' : List Row),
    rows.Perm rows' → (pats.foldl (joinPat s) rows).Perm (pats.foldl (joinPat s') rows')
  | [], _, _, h => h
  | p :: ps, _, _, h => evalBGP_perm_aux hs ps _ _ (joinPat_perm p hs h)

theorem evalBGP_perm {s s' : List Triple} (pats : List Pat) (hs : s.Perm s') :
    (evalBGP s pats).Perm (evalBGP s' pats) :=
  evalBGP_perm_aux hs pats _ _ (Perm.refl _)

theorem consequences_perm (rules : List Rule) {f f' : List Triple} (h : f.Perm f') :
    (consequences rules f).Perm (consequences rules f') := by
  unfold consequences
  exact perm_flatMap_left _ fun rl => Perm.flatMap_right _ (evalBGP_perm rl.body h)

theorem mem_roundNew {rules : List Rule} {f : List Triple} {x : Triple} :
    x ∈ roundNew rules f ↔ x ∈ consequences rules f ∧ x ∉ f := by
  unfold roundNew; simp [mem_dedup, mem_filter]

theorem roundNew_perm (rules : List Rule) {f f' : List Triple} (h : f.Perm f') :
    (roundNew rules f).Perm (roundNew rules f') := by
  apply perm_of_nodup_of_mem (nodup_dedup _) (nodup_dedup _)
  intro a
  show a ∈ roundNew rules f ↔ a ∈ roundNew rules f'
  rw [mem_roundNew, mem_roundNew, (consequences_perm rules h).mem_iff, h.mem_iff]

theorem closure_perm (rules : List Rule) : ∀ (n : Nat) {f f' : List Triple}, f.Perm f' →
    (closure rules n f).Perm (closure rules n f')
  | 0, _, _, h => h
  | n + 1, _, _, h => closure_perm rules n (Perm.append h (roundNew_perm rules h))

theorem closure_nodup (rules : List Rule) : ∀ (n : Nat) {f : List Triple}, f.Nodup → (closure rules n f).Nodup
  | 0, _, h => h
  | n + 1, f, h => by
    apply closure_nodup rules n
    refine nodup_append.mpr ⟨h, nodup_dedup _, ?_⟩
    intro a ha b hb hab
    subst hab
    exact (mem_roundNew.mp hb).2 ha

theorem deriveN_perm (rules : List Rule) (n : Nat) {s s' : List Triple} (h : s.Perm s') :
    (deriveN rules n s).Perm (deriveN rules n s') := by
  unfold deriveN
  have h1 := Perm.filter (fun t => !decide (t ∈ s)) (closure_perm rules n h)
  have h2 : (closure rules n s').filter (fun t => !decide (t ∈ s)) =
      (closure rules n s').filter (fun t => !decide (t ∈ s')) := by
    apply filter_congr; intro x _; simp [h.mem_iff]
  rw [h2] at h1; exact h1

theorem mkCfg_lawful (rules : List Rule) (fuel : Nat) (pats : List Pat) (op : StreamOp) (b : Bool) :
    Lawful (mkCfg rules fuel pats op b) := by
  constructor
  · intro s x hx
    simp only [mkCfg] at hx
    split at hx
    · simp at hx
    · unfold deriveN at hx; simp [mem_filter] at hx; exact hx.2
  · intro s hs
    simp only [mkCfg]
    split
    · simp
    · exact nodup_filter _ (closure_nodup rules fuel hs)
  · intro s s' h
    simp only [mkCfg]
    split
    · exact Perm.refl _
    · exact deriveN_perm rules fuel h
  · intro s s' h
    exact evalBGP_perm pats h

/-! ### the store invariant over firings -/

/-- after a firing with content `c` that derived `D`: the store is exactly `c ∪ D`, nothing else -/
structure Inv (st : St) (c D : List Triple) : Prop where
  nodup : st.store.Nodup
  mem : ∀ x, x ∈ st.store ↔ x ∈ c ∨ x ∈ D
  raw : ∀ x, x ∈ st.prevRaw ↔ x ∈ c
  der : ∀ x, x ∈ st.prevDerived ↔ x ∈ D
  disj : ∀ x, x ∈ D → x ∉ c

theorem inv_init : Inv St.init [] [] := by
  constructor <;> simp [St.init]

/-- the store handed to the reasoner holds exactly the current content — in the repaired code always, in the
    unrepaired code when no raw triple equals a triple derived by the previous firing -/
theorem process_spec {cfg : Cfg} (hl : Lawful cfg) {st : St} {c D : List Triple} (hi : Inv st c D)
    (c' : List Triple) (hc : cfg.dropOnAdd = true ∨ ∀ t, t ∈ c' → t ∉ D) :
    Inv (process cfg st c').1 c' (cfg.derive (dedup c')) ∧
    (process cfg st c').2.Perm (specRows cfg c') ∧ (process cfg st c').1.last = st.last := by
  -- the three intermediate stores
  have hs0n : (st.prevRaw.foldl eraseT st.store).Nodup := nodup_foldl_eraseT _ _ hi.nodup
  have hs0m : ∀ x, x ∈ st.prevRaw.foldl eraseT st.store ↔ x ∈ D := by
    intro x
    rw [mem_foldl_eraseT, hi.mem, hi.raw]
    constructor
    · rintro ⟨h | h, hn⟩
      · exact absurd h hn
      · exact h
    · intro h; exact ⟨Or.inr h, hi.disj x h⟩
  obtain ⟨s0, hs0⟩ : ∃ s0, s0 = st.prevRaw.foldl eraseT st.store := ⟨_, rfl⟩
  rw [← hs0] at hs0n hs0m
  have hs1n : (c'.foldl insertT s0).Nodup := nodup_foldl_insertT _ _ hs0n
  have hs1m : ∀ x, x ∈ c'.foldl insertT s0 ↔ x ∈ D ∨ x ∈ c' := by
    intro x; rw [mem_foldl_insertT, hs0m]
  obtain ⟨d1, hd1⟩ : ∃ d1, d1 = (if cfg.dropOnAdd then c'.foldl eraseT st.prevDerived else st.prevDerived) := ⟨_, rfl⟩
  obtain ⟨s2, hs2⟩ : ∃ s2, s2 = d1.foldl eraseT (c'.foldl insertT s0) := ⟨_, rfl⟩
  have hs2n : s2.Nodup := by rw [hs2]; exact nodup_foldl_eraseT _ _ hs1n
  have hs2m : ∀ x, x ∈ s2 ↔ x ∈ c' := by
    intro x
    rw [hs2, mem_foldl_eraseT, hs1m, hd1]
    cases hd : cfg.dropOnAdd with
    | true =>
      simp only [if_true, mem_foldl_eraseT, hi.der]
      constructor
      · rintro ⟨h | h, hn⟩
        · exact Classical.byContradiction fun hx => hn ⟨h, hx⟩
        · exact h
      · intro h; exact ⟨Or.inr h, fun hn => hn.2 h⟩
    | false =>
      have hdis : ∀ t, t ∈ c' → t ∉ D := by
        rcases hc with h | h
        · rw [hd] at h; cases h
        · exact h
      simp only [Bool.false_eq_true, if_false, hi.der]
      constructor
      · rintro ⟨h | h, hn⟩
        · exact absurd h hn
        · exact h
      · intro h; exact ⟨Or.inr h, hdis x h⟩
  have hperm : s2.Perm (dedup c') :=
    perm_of_nodup_of_mem hs2n (nodup_dedup _) (fun a => by rw [hs2m, mem_dedup])
  have hdp : (cfg.derive s2).Perm (cfg.derive (dedup c')) := hl.derive_perm _ _ hperm
  have hdn : (cfg.derive s2).Nodup := hl.derive_nodup _ hs2n
  have hs3n : ((cfg.derive s2).foldl insertT s2).Nodup := nodup_foldl_insertT _ _ hs2n
  have hs3m : ∀ x, x ∈ (cfg.derive s2).foldl insertT s2 ↔ x ∈ c' ∨ x ∈ cfg.derive (dedup c') := by
    intro x; rw [mem_foldl_insertT, hs2m, hdp.mem_iff]
  have hproc : process cfg st c' =
      ({ st with store := (cfg.derive s2).foldl insertT s2, prevRaw := c', prevDerived := cfg.derive s2 },
        cfg.query ((cfg.derive s2).foldl insertT s2)) := by
    unfold process
    simp only [loadContent_eq]
    rw [hs2, hd1, hs0]
  rw [hproc]
  refine ⟨⟨hs3n, hs3m, fun _ => Iff.rfl, fun x => hdp.mem_iff, ?_⟩, ?_, rfl⟩
  · intro x hx hxc
    have h1 : x ∈ cfg.derive s2 := hdp.mem_iff.mpr hx
    exact hl.derive_new _ _ h1 ((hs2m x).mpr hxc)
  · -- the queried store is a permutation of `dedup c' ++ derive (dedup c')`
    unfold specRows
    apply hl.query_perm
    have hspn : (dedup c' ++ cfg.derive (dedup c')).Nodup := by
      refine nodup_append.mpr ⟨nodup_dedup _, hl.derive_nodup _ (nodup_dedup _), ?_⟩
      intro a ha b hb hab
      subst hab
      exact hl.derive_new _ _ hb ha
    apply perm_of_nodup_of_mem hs3n hspn
    intro a
    rw [hs3m, mem_append, mem_dedup]

/-! ### the stream operator relative to the previous firing -/

/-- `last_result` represents the previous answers `prev` (irrelevant for RSTREAM, which never reads it) -/
def LastOK (op : StreamOp) (last prev : List Row) : Prop :=
  op = .rstream ∨ (last.Nodup ∧ ∀ b, b ∈ last ↔ b ∈ prev)

theorem r2s_perm {op : StreamOp} {last prev rows rows' : List Row} (hl : LastOK op last prev)
    (hr : rows.Perm rows') :
    (r2s op last rows).1.Perm (specEmit op prev rows') ∧ LastOK op (r2s op last rows).2 rows' := by
  cases op with
  | rstream => exact ⟨hr, Or.inl rfl⟩
  | istream =>
    rcases hl with h | ⟨_, hm⟩
    · cases h
    · refine ⟨?_, Or.inr ⟨nodup_dedup _, fun b => by show b ∈ dedup rows ↔ b ∈ rows'; rw [mem_dedup, hr.mem_iff]⟩⟩
      simp only [r2s, specEmit]
      have h1 := Perm.filter (fun b => !decide (b ∈ last)) hr
      have h2 : rows'.filter (fun b => !decide (b ∈ last)) = rows'.filter (fun b => !decide (b ∈ prev)) := by
        apply filter_congr; intro x _; simp [hm]
      rw [h2] at h1; exact h1
  | dstream =>
    rcases hl with h | ⟨hn, hm⟩
    · cases h
    · refine ⟨?_, Or.inr ⟨nodup_dedup _, fun b => by show b ∈ dedup rows ↔ b ∈ rows'; rw [mem_dedup, hr.mem_iff]⟩⟩
      simp only [r2s, specEmit]
      have hp : last.Perm (dedup prev) :=
        perm_of_nodup_of_mem hn (nodup_dedup _) (fun a => by rw [hm, mem_dedup])
      have h1 := Perm.filter (fun b => !decide (b ∈ rows)) hp
      have h2 : (dedup prev).filter (fun b => !decide (b ∈ rows)) = (dedup prev).filter (fun b => !decide (b ∈ rows')) := by
        apply filter_congr; intro x _; simp [hr.mem_iff]
      rw [h2] at h1; exact h1

/-- every history, from every state satisfying the invariant -/
theorem runFrom_spec {cfg : Cfg} (hl : Lawful cfg) : ∀ (hist : List (List Triple)) (st : St) (c D : List Triple)
    (prev : List Row), Inv st c D → LastOK cfg.op st.last prev →
    (cfg.dropOnAdd = true ∨ noClashFrom cfg D hist = true) →
    SeqPerm (runFrom cfg st hist) (specRunFrom cfg prev hist)
  | [], _, _, _, _, _, _, _ => by simp [runFrom, specRunFrom, SeqPerm]
  | c' :: cs, st, c, D, prev, hi, hlast, hc => by
    have hc' : cfg.dropOnAdd = true ∨ ∀ t, t ∈ c' → t ∉ D := by
      rcases hc with h | h
      · exact Or.inl h
      · right
        simp only [noClashFrom, Bool.and_eq_true, all_eq_true] at h
        intro t ht; simpa using h.1 t ht
    have hcs : cfg.dropOnAdd = true ∨ noClashFrom cfg (cfg.derive (dedup c')) cs = true := by
      rcases hc with h | h
      · exact Or.inl h
      · right
        simp only [noClashFrom, Bool.and_eq_true] at h
        exact h.2
    obtain ⟨hi', hrows, hlast'⟩ := process_spec hl hi c' hc'
    have hr := r2s_perm (op := cfg.op) (last := st.last) (prev := prev) hlast hrows
    simp only [runFrom, specRunFrom, fire, SeqPerm]
    rw [hlast']
    refine ⟨hr.1, ?_⟩
    apply runFrom_spec hl cs _ c' (cfg.derive (dedup c')) (specRows cfg c') _ hr.2 hcs
    exact ⟨hi'.nodup, hi'.mem, hi'.raw, hi'.der, hi'.disj⟩

theorem fire_inv {cfg : Cfg} (hl : Lawful cfg) {st : St} {c D : List Triple} (hi : Inv st c D)
    (c' : List Triple) (hc : cfg.dropOnAdd = true ∨ ∀ t, t ∈ c' → t ∉ D) :
    Inv (fire cfg st c').1 c' (cfg.derive (dedup c')) := by
  obtain ⟨hi', _, _⟩ := process_spec hl hi c' hc
  simp only [fire]
  exact ⟨hi'.nodup, hi'.mem, hi'.raw, hi'.der, hi'.disj⟩

/-- the store after any non-empty history (repaired code): exactly the last content and what is derived from it -/
theorem stateAfter_inv {cfg : Cfg} (hl : Lawful cfg) (hd : cfg.dropOnAdd = true) :
    ∀ (hist : List (List Triple)) (st : St) (c D : List Triple), Inv st c D → ∀ c',
    Inv (stateAfter cfg st (hist ++ [c'])) c' (cfg.derive (dedup c'))
  | [], st, c, D, hi, c' => by simpa [stateAfter] using fire_inv hl hi c' (Or.inl hd)
  | c1 :: cs, st, c, D, hi, c' => by
    have h1 := fire_inv hl hi c1 (Or.inl hd)
    have := stateAfter_inv hl hd cs _ _ _ h1 c'
    simpa [stateAfter] using this

theorem r2sRun_spec (op : StreamOp) : ∀ (rs : List (List Row)) (last prev : List Row),
    (op = .rstream ∨ last = dedup prev) → r2sRun op last rs = specEmitRun op prev rs
  | [], _, _, _ => rfl
  | rows :: rest, last, prev, h => by
    cases op with
    | rstream =>
      simp only [r2sRun, specEmitRun, r2s, specEmit]
      rw [r2sRun_spec .rstream rest last rows (Or.inl rfl)]
    | istream =>
      rcases h with h | h
      · cases h
      · simp only [r2sRun, specEmitRun, r2s, specEmit]
        rw [r2sRun_spec .istream rest (dedup rows) rows (Or.inr rfl), h]
        congr 1
        apply filter_congr; intro x _; simp [mem_dedup]
    | dstream =>
      rcases h with h | h
      · cases h
      · simp only [r2sRun, specEmitRun, r2s, specEmit]
        rw [r2sRun_spec .dstream rest (dedup rows) rows (Or.inr rfl), h]

/-! ### the worker pipeline -/

/-- contents the worker has not processed yet, in the order it will see them -/
def Pipe.future (p : Pipe) : List (List Triple) :=
  (match p.phase with | .got c => [c] | _ => []) ++ p.chan ++ p.pending

/-- everything the consumer has seen or will see -/
def Pipe.total (cfg : Cfg) (p : Pipe) : List (List Row) :=
  p.emitted ++ (match p.phase with | .done out => [out] | _ => []) ++ runFrom cfg p.st p.future

/-- what the consumer will still see -/
def Pipe.rest (cfg : Cfg) (p : Pipe) : List (List Row) :=
  (match p.phase with | .done out => [out] | _ => []) ++ runFrom cfg p.st p.future

theorem Pipe.total_eq (cfg : Cfg) (p : Pipe) : p.total cfg = p.emitted ++ p.rest cfg := by
  simp only [Pipe.total, Pipe.rest, List.append_assoc]

theorem Pipe.step_total (cfg : Cfg) (p : Pipe) (s : Step) : (p.step cfg s).total cfg = p.total cfg := by
  obtain ⟨pending, chan, phase, st, emitted⟩ := p
  cases s with
  | push =>
    cases pending with
    | nil => rfl
    | cons c cs => simp [Pipe.step, Pipe.total, Pipe.future]
  | recv =>
    cases phase with
    | idle =>
      cases chan with
      | nil => rfl
      | cons c cs => simp [Pipe.step, Pipe.total, Pipe.future]
    | got c => rfl
    | done out => rfl
  | work =>
    cases phase with
    | idle => rfl
    | got c => simp [Pipe.step, Pipe.total, Pipe.future, runFrom]
    | done out => rfl
  | emit =>
    cases phase with
    | idle => rfl
    | got c => rfl
    | done out => simp [Pipe.step, Pipe.total, Pipe.future]

theorem Pipe.runSched_total (cfg : Cfg) : ∀ (sched : List Step) (p : Pipe),
    (p.runSched cfg sched).total cfg = p.total cfg
  | [], _ => rfl
  | s :: ss, p => by
    simp only [Pipe.runSched, foldl_cons]
    have := Pipe.runSched_total cfg ss (p.step cfg s)
    simp only [Pipe.runSched] at this
    rw [this, Pipe.step_total]

theorem Pipe.finished_total (cfg : Cfg) (p : Pipe) (h : p.finished = true) : p.total cfg = p.emitted := by
  obtain ⟨pending, chan, phase, st, emitted⟩ := p
  cases phase <;> cases pending <;> cases chan <;> simp_all [Pipe.finished, Pipe.total, Pipe.future, runFrom]

end Kolibrie.Rsp
