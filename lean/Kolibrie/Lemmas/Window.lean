import Kolibrie.Model.Window
import Kolibrie.Spec.Window
/-! Helper lemmas for C09 (core Lean only). -/
namespace Kolibrie.Window
open Kolibrie.Extracted

/-! ## the extracted guards (re-proved against whatever `s2r.rs` says now) -/

theorem memberGuard_iff (o c t : Nat) : memberGuard o c t = true ↔ o ≤ t ∧ t < c := by
  simp [memberGuard]

theorem reportGuard_iff (o c t : Nat) : reportGuard o c t = true ↔ c ≤ t := by
  simp [reportGuard]

theorem fireGuard_iff (t a : Nat) : fireGuard t a = true ↔ a < t := by
  simp [fireGuard]

theorem pickLatest_true : pickLatest = true := rfl

/-! ## contents -/

theorem mem_insertItem (l : List Nat) (x y : Nat) : y ∈ insertItem l x ↔ y ∈ l ∨ y = x := by
  unfold insertItem
  split
  · constructor
    · exact Or.inl
    · rintro (h | rfl) <;> assumption
  · simp

theorem contentOf_snoc (w : Nat) (p : List (Nat × Nat)) (x t c : Nat) :
    contentOf w (p ++ [(x, t)]) c =
      if inInterval w c t then insertItem (contentOf w p c) x else contentOf w p c := by
  unfold contentOf
  by_cases h : inInterval w c t = true
  · simp [List.filter_append, h]
  · simp [List.filter_append, h]

theorem contentOf_eq_nil (w : Nat) (p : List (Nat × Nat)) (c : Nat)
    (h : ∀ it ∈ p, inInterval w c it.2 = false) : contentOf w p c = [] := by
  unfold contentOf
  have : p.filter (fun it => inInterval w c it.2) = [] := by
    apply List.filter_eq_nil_iff.2
    intro a ha; simp [h a ha]
  simp [this]

theorem foldl_insertItem_mem (l acc : List Nat) (y : Nat) :
    y ∈ l.foldl insertItem acc ↔ y ∈ acc ∨ y ∈ l := by
  induction l generalizing acc with
  | nil => simp
  | cons a l ih =>
    simp only [List.foldl_cons, ih, mem_insertItem, List.mem_cons]
    constructor
    · rintro ((h | h) | h)
      · exact Or.inl h
      · exact Or.inr (Or.inl h)
      · exact Or.inr (Or.inr h)
    · rintro (h | h | h)
      · exact Or.inl (Or.inl h)
      · exact Or.inl (Or.inr h)
      · exact Or.inr h

theorem mem_contentOf (w : Nat) (p : List (Nat × Nat)) (c y : Nat) :
    y ∈ contentOf w p c ↔ ∃ t, (y, t) ∈ p ∧ c - w ≤ t ∧ t < c := by
  unfold contentOf
  rw [foldl_insertItem_mem]
  simp only [List.not_mem_nil, false_or, List.mem_map, List.mem_filter, inInterval, Bool.and_eq_true,
    decide_eq_true_eq]
  constructor
  · rintro ⟨⟨a, b⟩, ⟨hm, h1, h2⟩, rfl⟩
    exact ⟨b, hm, h1, h2⟩
  · rintro ⟨t, hm, h1, h2⟩
    exact ⟨(y, t), ⟨hm, h1, h2⟩, rfl⟩

theorem insertItem_nodup (l : List Nat) (x : Nat) (h : l.Nodup) : (insertItem l x).Nodup := by
  unfold insertItem
  split
  · exact h
  · rename_i hx
    rw [List.nodup_append]
    refine ⟨h, by simp, ?_⟩
    intro a ha b hb
    simp at hb; subst hb
    intro e; subst e; exact hx ha

theorem foldl_insertItem_nodup (l acc : List Nat) (h : acc.Nodup) : (l.foldl insertItem acc).Nodup := by
  induction l generalizing acc with
  | nil => simpa
  | cons a l ih => exact ih _ (insertItem_nodup _ _ h)

theorem contentOf_nodup (w : Nat) (p : List (Nat × Nat)) (c : Nat) : (contentOf w p c).Nodup :=
  foldl_insertItem_nodup _ _ List.nodup_nil

/-! ## last timestamp / order -/

@[simp] theorem lastTs_nil : lastTs [] = none := rfl

@[simp] theorem lastTs_snoc (p : List (Nat × Nat)) (x t : Nat) : lastTs (p ++ [(x, t)]) = some t := by
  simp [lastTs]

theorem lastTs_eq_none {p : List (Nat × Nat)} (h : lastTs p = none) : p = [] := by
  simpa [lastTs] using h

/-- in an in-order prefix every timestamp is at most the last one -/
theorem le_lastTs {p : List (Nat × Nat)} (hp : InOrder p) {tp : Nat} (hl : lastTs p = some tp) :
    ∀ it ∈ p, it.2 ≤ tp := by
  intro it hit
  unfold lastTs at hl
  cases hg : p.getLast? with
  | none => simp [hg] at hl
  | some l =>
    simp [hg] at hl
    obtain ⟨q, rfl⟩ : ∃ q, p = q ++ [l] := by
      have := List.getLast?_eq_some_iff.1 hg
      exact this
    unfold InOrder at hp
    rw [List.pairwise_append] at hp
    rcases List.mem_append.1 hit with h | h
    · have := hp.2.2 it h l (by simp)
      omega
    · simp at h; subst h; omega

theorem inOrder_snoc {p : List (Nat × Nat)} {x t : Nat} (hp : InOrder p)
    (h : ∀ tp, lastTs p = some tp → tp ≤ t) : InOrder (p ++ [(x, t)]) := by
  unfold InOrder
  rw [List.pairwise_append]
  refine ⟨hp, by simp, ?_⟩
  intro a ha b hb
  simp at hb; subst hb
  cases hl : lastTs p with
  | none => rw [lastTs_eq_none hl] at ha; simp at ha
  | some tp =>
    have := le_lastTs hp hl a ha
    have := h tp hl
    simp; omega

/-! ## arithmetic on multiples of the slide -/

theorem cSup_spec (s t : Nat) (hs : 1 ≤ s) : s ∣ cSup s t ∧ t ≤ cSup s t ∧ cSup s t < t + s := by
  unfold cSup
  refine ⟨Nat.dvd_mul_left _ _, ?_, ?_⟩
  · have h1 := Nat.div_add_mod (t + s - 1) s
    have h2 := Nat.mod_lt (t + s - 1) (show s > 0 by omega)
    rw [Nat.mul_comm] at h1
    omega
  · have h1 := Nat.div_add_mod (t + s - 1) s
    rw [Nat.mul_comm] at h1
    omega

/-- two multiples of `s`, one strictly below the other, are at least `s` apart -/
theorem dvd_gap {s a b : Nat} (ha : s ∣ a) (hb : s ∣ b) (h : a < b) : a + s ≤ b := by
  obtain ⟨k, rfl⟩ := ha
  obtain ⟨m, rfl⟩ := hb
  have hs : 0 < s := by
    rcases Nat.eq_zero_or_pos s with h0 | h0
    · subst h0; simp at h
    · exact h0
  have hkm : k < m := Nat.lt_of_mul_lt_mul_left h
  have : s * (k + 1) ≤ s * m := Nat.mul_le_mul_left s hkm
  rw [Nat.mul_add, Nat.mul_one] at this
  exact this

/-- at most one multiple of `s` in a half-open range `(a, a + s]` -/
theorem dvd_unique {s a c d : Nat} (hc : s ∣ c) (hd : s ∣ d) (h1 : a < c) (h2 : c ≤ a + s)
    (h3 : a < d) (h4 : d ≤ a + s) : c = d := by
  rcases Nat.lt_trichotomy c d with h | h | h
  · have := dvd_gap hc hd h; omega
  · exact h
  · have := dvd_gap hd hc h; omega

/-! ## scope -/

theorem hasKey_iff (ws : List Win) (o c : Nat) :
    hasKey ws o c = true ↔ ∃ x ∈ ws, x.wopen = o ∧ x.close = c := by
  simp [hasKey]

theorem hasKey_false_iff (ws : List Win) (o c : Nat) :
    hasKey ws o c = false ↔ ∀ x ∈ ws, ¬ (x.wopen = o ∧ x.close = c) := by
  rw [← Bool.not_eq_true, hasKey_iff]; simp

theorem mem_ensure (o c : Nat) (ws : List Win) (x : Win) :
    x ∈ ensure o c ws ↔ x ∈ ws ∨ (x = ⟨o, c, []⟩ ∧ hasKey ws o c = false) := by
  unfold ensure
  cases h : hasKey ws o c <;> simp

theorem hasKey_ensure (o c : Nat) (ws : List Win) : hasKey (ensure o c ws) o c = true := by
  unfold ensure
  cases h : hasKey ws o c
  · simp [hasKey]
  · simpa using h

theorem scopeLoop_sub (w s t : Nat) (fuel c : Nat) (ws : List Win) (x : Win) (hx : x ∈ ws) :
    x ∈ scopeLoop w s t fuel c ws := by
  induction fuel generalizing c ws with
  | zero => simpa [scopeLoop]
  | succ f ih =>
    simp only [scopeLoop]
    have hx' : x ∈ ensure (c - w) c ws := (mem_ensure _ _ _ _).2 (Or.inl hx)
    split
    · exact hx'
    · exact ih _ _ hx'

theorem scopeLoop_new (w s t : Nat) (fuel c : Nat) (ws : List Win) (x : Win) (hc : s ∣ c)
    (hx : x ∈ scopeLoop w s t fuel c ws) :
    x ∈ ws ∨ (x.content = [] ∧ x.wopen = x.close - w ∧ s ∣ x.close ∧ c ≤ x.close ∧
      hasKey ws x.wopen x.close = false) := by
  induction fuel generalizing c ws with
  | zero => left; simpa [scopeLoop] using hx
  | succ f ih =>
    simp only [scopeLoop] at hx
    have key : x ∈ ensure (c - w) c ws → x ∈ ws ∨ (x.content = [] ∧ x.wopen = x.close - w ∧ s ∣ x.close ∧
        c ≤ x.close ∧ hasKey ws x.wopen x.close = false) := by
      intro h
      rcases (mem_ensure _ _ _ _).1 h with h | ⟨rfl, hk⟩
      · exact Or.inl h
      · exact Or.inr ⟨rfl, rfl, hc, Nat.le_refl _, hk⟩
    split at hx
    · exact key hx
    · rcases ih (c + s) _ (Nat.dvd_add hc (Nat.dvd_refl s)) hx with h | ⟨h1, h2, h3, h4, h5⟩
      · exact key h
      · right
        refine ⟨h1, h2, h3, by omega, ?_⟩
        rw [hasKey_false_iff] at h5 ⊢
        intro y hy
        exact h5 y ((mem_ensure _ _ _ _).2 (Or.inl hy))

theorem scopeLoop_complete (w s t : Nat) (fuel c0 : Nat) (ws : List Win) (c : Nat) (hc0 : s ∣ c0) (hc : s ∣ c)
    (h0 : c0 ≤ c) (h1 : c ≤ t + w) (hf : c < c0 + fuel * s) :
    hasKey (scopeLoop w s t fuel c0 ws) (c - w) c = true := by
  induction fuel generalizing c0 ws with
  | zero => omega
  | succ f ih =>
    simp only [scopeLoop]
    rcases Nat.eq_or_lt_of_le h0 with e | hlt
    · subst e
      have hk := hasKey_ensure (c0 - w) c0 ws
      rw [hasKey_iff] at hk ⊢
      obtain ⟨x, hx, hx1, hx2⟩ := hk
      refine ⟨x, ?_, hx1, hx2⟩
      split
      · exact hx
      · exact scopeLoop_sub _ _ _ _ _ _ _ hx
    · have hg := dvd_gap hc0 hc hlt
      have : ¬ (c0 + s > t + w) := by omega
      simp only [this, ↓reduceIte]
      apply ih (c0 + s) _ (Nat.dvd_add hc0 (Nat.dvd_refl s)) hg
      rw [Nat.add_mul, Nat.one_mul] at hf
      omega

theorem scope_sub (w s t : Nat) (ws : List Win) (x : Win) (hx : x ∈ ws) : x ∈ scope w s t ws :=
  scopeLoop_sub _ _ _ _ _ _ _ hx

theorem scope_new (w s t : Nat) (hs : 1 ≤ s) (ws : List Win) (x : Win) (hx : x ∈ scope w s t ws) :
    x ∈ ws ∨ (x.content = [] ∧ x.wopen = x.close - w ∧ s ∣ x.close ∧ t ≤ x.close ∧
      hasKey ws x.wopen x.close = false) := by
  obtain ⟨h1, h2, _⟩ := cSup_spec s t hs
  rcases scopeLoop_new w s t _ _ ws x h1 hx with h | ⟨a, b, c, d, e⟩
  · exact Or.inl h
  · exact Or.inr ⟨a, b, c, by omega, e⟩

/-- `scope` opens every aligned window `[c - w, c)` with `t ≤ c ≤ t + w` (the fuel `w + 1` is enough) -/
theorem scope_complete (w s t : Nat) (hs : 1 ≤ s) (ws : List Win) (c : Nat) (hc : s ∣ c) (h0 : t ≤ c)
    (h1 : c ≤ t + w) : ∃ x ∈ scope w s t ws, x.wopen = c - w ∧ x.close = c := by
  obtain ⟨d1, d2, d3⟩ := cSup_spec s t hs
  rw [← hasKey_iff]
  have hle : cSup s t ≤ c := by
    rcases Nat.lt_or_ge c (cSup s t) with h | h
    · have := dvd_gap hc d1 h; omega
    · exact h
  apply scopeLoop_complete w s t (w + 1) (cSup s t) ws c d1 hc hle h1
  have : w + 1 ≤ (w + 1) * s := Nat.le_mul_of_pos_right _ (by omega)
  omega

/-! ## pick / report / assign -/

theorem pick_mem {l : List Win} {m : Win} (h : pick l = some m) : m ∈ l := by
  induction l generalizing m with
  | nil => simp [pick] at h
  | cons a l ih =>
    simp only [pick] at h
    cases hp : pick l with
    | none => simp [hp] at h; subst h; simp
    | some m' =>
      simp only [hp] at h
      have := ih hp
      repeat' split at h
      all_goals (simp at h; subst h; simp [this])

theorem pick_isSome {l : List Win} (h : l ≠ []) : ∃ m, pick l = some m := by
  cases l with
  | nil => exact absurd rfl h
  | cons a l =>
    simp only [pick]
    cases hp : pick l with
    | none => exact ⟨a, rfl⟩
    | some m' =>
      simp only
      repeat' split
      all_goals exact ⟨_, rfl⟩

/-- with `max_by` (as extracted) the picked window has the largest close -/
theorem pick_max {l : List Win} {m : Win} (h : pick l = some m) : ∀ y ∈ l, y.close ≤ m.close := by
  induction l generalizing m with
  | nil => simp
  | cons a l ih =>
    simp only [pick] at h
    cases hp : pick l with
    | none =>
      simp [hp] at h; subst h
      cases l with
      | nil => simp
      | cons b l => obtain ⟨m', hm'⟩ := pick_isSome (l := b :: l) (by simp); rw [hm'] at hp; cases hp
    | some m' =>
      simp only [hp, pickLatest_true, ↓reduceIte] at h
      have := ih hp
      intro y hy
      split at h
      · simp at h; subst h
        rcases List.mem_cons.1 hy with rfl | hy
        · exact Nat.le_refl _
        · have := this y hy; omega
      · simp at h; subst h
        rcases List.mem_cons.1 hy with rfl | hy
        · omega
        · exact this y hy

theorem report_std (w s : Nat) (y : Win) (t : Nat) :
    report (stdCfg w s).strategies y t = true ↔ y.close ≤ t := by
  simp [report, stdCfg, reportGuard_iff]

theorem mem_assign (x t : Nat) (ws : List Win) (y : Win) :
    y ∈ assign x t ws ↔ ∃ z ∈ ws, z.wopen ≤ t ∧ t < z.close ∧ y = { z with content := insertItem z.content x } := by
  unfold assign
  simp only [List.mem_filterMap]
  constructor
  · rintro ⟨z, hz, h⟩
    split at h
    · rename_i hg
      rw [memberGuard_iff] at hg
      simp at h
      exact ⟨z, hz, hg.1, hg.2, h.symm⟩
    · simp at h
  · rintro ⟨z, hz, h1, h2, rfl⟩
    refine ⟨z, hz, ?_⟩
    have : memberGuard z.wopen z.close t = true := (memberGuard_iff _ _ _).2 ⟨h1, h2⟩
    simp [this]

/-! ## the invariant -/

/-- state invariant after the in-order prefix `p` (window width `w`, slide `s`) -/
structure Inv (w s : Nat) (st : State) (p : List (Nat × Nat)) : Prop where
  /-- every active window is an aligned interval containing the last timestamp, with exactly its items -/
  wf : ∀ y ∈ st.active, s ∣ y.close ∧ y.wopen = y.close - w ∧ y.content = contentOf w p y.close ∧
        ∃ tp, lastTs p = some tp ∧ y.wopen ≤ tp ∧ tp < y.close
  /-- every aligned interval containing the last timestamp is active -/
  complete : ∀ tp, lastTs p = some tp → ∀ c, s ∣ c → c - w ≤ tp → tp < c → ∃ y ∈ st.active, y.close = c
  app_le : ∀ tp, lastTs p = some tp → st.appTime ≤ tp
  app_zero : lastTs p = none → st.appTime = 0
  app_eq : ∀ tp, lastTs p = some tp → s ∣ tp → st.appTime = tp

theorem inv_init (w s : Nat) : Inv w s init [] := by
  constructor <;> simp [init]

/-- facts about the windows present after `scope` (before the item is added) -/
theorem pre_facts {w s : Nat} {st : State} {p : List (Nat × Nat)} {t : Nat} (hI : Inv w s st p)
    (hp : InOrder p) (hs : 1 ≤ s) (y : Win) (hy : y ∈ scope w s t st.active) :
    s ∣ y.close ∧ y.wopen = y.close - w ∧
    ((∀ tp, lastTs p = some tp → tp < y.close) → y.content = contentOf w p y.close) ∧
    (y ∈ st.active ∨ t ≤ y.close) := by
  rcases scope_new w s t hs _ y hy with h | ⟨h1, h2, h3, h4, h5⟩
  · obtain ⟨a, b, c, _⟩ := hI.wf y h
    exact ⟨a, b, fun _ => c, Or.inl h⟩
  · refine ⟨h3, h2, ?_, Or.inr h4⟩
    intro hlt
    rw [h1]; symm
    apply contentOf_eq_nil
    intro it hit
    cases hl : lastTs p with
    | none => rw [lastTs_eq_none hl] at hit; simp at hit
    | some tp =>
      have hle := le_lastTs hp hl it hit
      have hc := hlt tp hl
      cases hin : inInterval w y.close it.2 with
      | false => rfl
      | true =>
        exfalso
        simp [inInterval] at hin
        obtain ⟨z, hz, hzc⟩ := hI.complete tp hl y.close h3 (by omega) hc
        obtain ⟨_, hzo, _, _⟩ := hI.wf z hz
        rw [hasKey_false_iff] at h5
        exact h5 z hz ⟨by rw [hzo, hzc, h2], hzc⟩

/-- what one `add_to_window` call does under the invariant -/
theorem step_ok {w s : Nat} {st : State} {p : List (Nat × Nat)} (x t : Nat) (hI : Inv w s st p)
    (hp : InOrder p) (hs : 1 ≤ s) (ht : ∀ tp, lastTs p = some tp → tp ≤ t) :
    Inv w s (addToWindow (stdCfg w s) st x t).1 (p ++ [(x, t)]) ∧
    (∀ c content, (addToWindow (stdCfg w s) st x t).2 = some (c, content) →
      s ∣ c ∧ c ≤ t ∧ content = contentOf w p c ∧ (∀ tp, lastTs p = some tp → tp < c) ∧ 0 < c) ∧
    (∀ tp c, lastTs p = some tp → s ∣ c → tp < c → c ≤ t → t ≤ tp + s → (c = t ∨ c - w ≤ tp) →
      ∃ content, (addToWindow (stdCfg w s) st x t).2 = some (c, content)) := by
  -- the windows after scope
  have hpre := fun y hy => pre_facts (t := t) hI hp hs y hy
  -- a reported window that may fire has the right content
  have hrep : ∀ y ∈ scope w s t st.active, y.close ≤ t → st.appTime < t →
      (∀ tp, lastTs p = some tp → tp < y.close) := by
    intro y hy hct hat tp hl
    obtain ⟨h1, _, _, h4⟩ := hpre y hy
    rcases h4 with h4 | h4
    · obtain ⟨_, _, _, tp', hl', _, h⟩ := hI.wf y h4
      rw [hl] at hl'; cases hl'; exact h
    · have : y.close = t := by omega
      have htp := ht tp hl
      rcases Nat.lt_or_ge tp t with h | h
      · omega
      · have : tp = t := by omega
        subst this
        have := hI.app_eq tp hl (by rw [← ‹y.close = tp›]; exact h1)
        omega
  -- the new active windows
  have hwf : ∀ y ∈ assign x t (scope w s t st.active), s ∣ y.close ∧ y.wopen = y.close - w ∧
      y.content = contentOf w (p ++ [(x, t)]) y.close ∧
      ∃ tp, lastTs (p ++ [(x, t)]) = some tp ∧ y.wopen ≤ tp ∧ tp < y.close := by
    intro y hy
    obtain ⟨z, hz, h1, h2, rfl⟩ := (mem_assign _ _ _ _).1 hy
    obtain ⟨a, b, c, _⟩ := hpre z hz
    refine ⟨a, b, ?_, t, by simp, h1, h2⟩
    have hin : inInterval w z.close t = true := by simp [inInterval]; omega
    simp only [contentOf_snoc, hin, ↓reduceIte]
    rw [c]
    intro tp hl; have := ht tp hl; omega
  have hcomp : ∀ c, s ∣ c → c - w ≤ t → t < c → ∃ y ∈ assign x t (scope w s t st.active), y.close = c := by
    intro c hc h1 h2
    obtain ⟨z, hz, hzo, hzc⟩ := scope_complete w s t hs st.active c hc (by omega) (by omega)
    exact ⟨{ z with content := insertItem z.content x }, (mem_assign _ _ _ _).2 ⟨z, hz, by omega, by omega, rfl⟩, hzc⟩
  have happ0 : ∀ tp, lastTs p = some tp → st.appTime ≤ t := fun tp hl => Nat.le_trans (hI.app_le tp hl) (ht tp hl)
  have happ : st.appTime ≤ t := by
    cases hl : lastTs p with
    | none => rw [hI.app_zero hl]; omega
    | some tp => exact happ0 tp hl
  simp only [addToWindow, stdCfg]
  cases hpk : pick (List.filter (fun y => report [Strategy.onWindowClose] y t) (scope w s t st.active)) with
  | none =>
    have hnil : List.filter (fun y => report [Strategy.onWindowClose] y t) (scope w s t st.active) = [] := by
      cases hl : List.filter (fun y => report [Strategy.onWindowClose] y t) (scope w s t st.active) with
      | nil => rfl
      | cons a l => obtain ⟨m, hm⟩ := pick_isSome (l := a :: l) (by simp); rw [hl] at hpk; rw [hm] at hpk; cases hpk
    have hnone : ∀ y ∈ scope w s t st.active, ¬ y.close ≤ t := by
      intro y hy hc
      have : y ∈ List.filter (fun y => report [Strategy.onWindowClose] y t) (scope w s t st.active) :=
        List.mem_filter.2 ⟨hy, by simpa [stdCfg] using (report_std w s y t).2 hc⟩
      rw [hnil] at this; simp at this
    refine ⟨⟨hwf, ?_, ?_, by simp, ?_⟩, by simp, ?_⟩
    · intro tp hl c hc h1 h2; simp at hl; subst hl; exact hcomp c hc h1 h2
    · intro tp hl; simp at hl; subst hl; exact happ
    · intro tp hl hd; simp at hl; subst hl
      obtain ⟨z, hz, _, hzc⟩ := scope_complete w s t hs st.active t hd (by omega) (by omega)
      exact absurd (by omega) (hnone z hz)
    · intro tp c hl hc h1 h2 h3 h4
      exfalso
      rcases h4 with rfl | h4
      · obtain ⟨z, hz, _, hzc⟩ := scope_complete w s c hs st.active c hc (by omega) (by omega)
        exact hnone z hz (by omega)
      · obtain ⟨z, hz, hzc⟩ := hI.complete tp hl c hc h4 h1
        exact hnone z (scope_sub _ _ _ _ _ hz) (by omega)
  | some mw =>
    have hmw := pick_mem hpk
    obtain ⟨hmw1, hmw2⟩ := List.mem_filter.1 hmw
    have hmc : mw.close ≤ t := (report_std w s mw t).1 (by simpa [stdCfg] using hmw2)
    by_cases hf : st.appTime < t
    · have hfg : fireGuard t st.appTime = true := (fireGuard_iff _ _).2 hf
      simp only [hfg, ↓reduceIte]
      have hlt := hrep mw hmw1 hmc hf
      obtain ⟨a, b, c, d⟩ := hpre mw hmw1
      have hpos : 0 < mw.close := by
        cases hl : lastTs p with
        | some tp => have := hlt tp hl; omega
        | none =>
          rcases d with d | d
          · obtain ⟨_, _, _, tp', hl', _⟩ := hI.wf mw d; rw [hl] at hl'; cases hl'
          · omega
      refine ⟨⟨hwf, ?_, ?_, by simp, ?_⟩, ?_, ?_⟩
      · intro tp hl c hc h1 h2; simp at hl; subst hl; exact hcomp c hc h1 h2
      · intro tp hl; simp at hl; subst hl; exact Nat.le_refl _
      · intro tp hl hd; simp at hl; subst hl; rfl
      · intro c content h
        simp at h
        obtain ⟨rfl, rfl⟩ := h
        exact ⟨a, hmc, c hlt, hlt, hpos⟩
      · intro tp c hl hc h1 h2 h3 h4
        refine ⟨mw.content, ?_⟩
        have := dvd_unique (a := tp) a hc (hlt tp hl) (by omega) h1 (by omega)
        simp [this]
    · have hfg : fireGuard t st.appTime = false := by
        rw [← Bool.not_eq_true, fireGuard_iff]; exact hf
      simp only [hfg]
      refine ⟨⟨hwf, ?_, ?_, by simp, ?_⟩, by simp, ?_⟩
      · intro tp hl c hc h1 h2; simp at hl; subst hl; exact hcomp c hc h1 h2
      · intro tp hl; simp at hl; subst hl; exact happ
      · intro tp hl hd; simp at hl; subst hl; simp; omega
      · intro tp c hl hc h1 h2 h3 h4
        exfalso
        have := hI.app_le tp hl
        omega

/-! ## whole runs -/

theorem lastTs_mem {p : List (Nat × Nat)} {tp : Nat} (h : lastTs p = some tp) : ∃ it ∈ p, it.2 = tp := by
  unfold lastTs at h
  cases hg : p.getLast? with
  | none => simp [hg] at h
  | some l =>
    simp [hg] at h
    exact ⟨l, List.mem_of_getLast? hg, h⟩

theorem inOrder_split {p r : List (Nat × Nat)} {x t : Nat} (h : InOrder (p ++ (x, t) :: r)) :
    InOrder p ∧ (∀ tp, lastTs p = some tp → tp ≤ t) ∧ InOrder ((p ++ [(x, t)]) ++ r) ∧
    (∀ it ∈ (x, t) :: r, t ≤ it.2) := by
  have h' := h
  unfold InOrder at h
  rw [List.pairwise_append] at h
  refine ⟨h.1, ?_, ?_, ?_⟩
  · intro tp hl
    obtain ⟨it, hit, rfl⟩ := lastTs_mem hl
    exact h.2.2 it hit (x, t) (by simp)
  · simpa [List.append_assoc] using h'
  · intro it hit
    rcases List.mem_cons.1 hit with rfl | hr
    · exact Nat.le_refl _
    · exact (List.pairwise_cons.1 h.2.1).1 it hr

theorem stateAfter_inv {w s : Nat} (hs : 1 ≤ s) : ∀ (rest p : List (Nat × Nat)) (st : State),
    Inv w s st p → InOrder (p ++ rest) → Inv w s (stateAfter (stdCfg w s) st rest) (p ++ rest) := by
  intro rest
  induction rest with
  | nil => intro p st hI _; simpa [stateAfter] using hI
  | cons a r ih =>
    intro p st hI ho
    obtain ⟨x, t⟩ := a
    obtain ⟨h1, h2, h3, _⟩ := inOrder_split ho
    have := ih (p ++ [(x, t)]) _ (step_ok x t hI h1 hs h2).1 h3
    simpa [stateAfter, List.append_assoc] using this

theorem runFrom_cons (cfg : Cfg) (st : State) (i x t : Nat) (r : List (Nat × Nat)) (f : Firing) :
    f ∈ runFrom cfg st i ((x, t) :: r) ↔
      (∃ c content, (addToWindow cfg st x t).2 = some (c, content) ∧ f = ⟨i, t, c, content⟩) ∨
      f ∈ runFrom cfg (addToWindow cfg st x t).1 (i + 1) r := by
  simp only [runFrom]
  rcases h : addToWindow cfg st x t with ⟨st', o⟩
  cases o with
  | none => simp
  | some cc =>
    obtain ⟨c, content⟩ := cc
    simp only [List.mem_cons, Option.some.injEq, Prod.mk.injEq]
    constructor
    · rintro (h | h)
      · exact Or.inl ⟨c, content, ⟨rfl, rfl⟩, h⟩
      · exact Or.inr h
    · rintro (⟨c', content', ⟨rfl, rfl⟩, h⟩ | h)
      · exact Or.inl h
      · exact Or.inr h

/-- every firing of a run that starts in an invariant state -/
theorem runFrom_facts {w s : Nat} (hs : 1 ≤ s) : ∀ (rest p : List (Nat × Nat)) (st : State),
    Inv w s st p → InOrder (p ++ rest) → ∀ f ∈ runFrom (stdCfg w s) st p.length rest,
      p.length ≤ f.idx ∧ (∃ x, (p ++ rest)[f.idx]? = some (x, f.trigger)) ∧ s ∣ f.close ∧
      f.close ≤ f.trigger ∧ 0 < f.close ∧ f.content = contentOf w ((p ++ rest).take f.idx) f.close ∧
      (∀ tp, lastTs p = some tp → tp < f.close) := by
  intro rest
  induction rest with
  | nil => intro p st _ _ f hf; simp [runFrom] at hf
  | cons a r ih =>
    intro p st hI ho f hf
    obtain ⟨x, t⟩ := a
    obtain ⟨h1, h2, h3, _⟩ := inOrder_split ho
    obtain ⟨hI', hfire, _⟩ := step_ok x t hI h1 hs h2
    rcases (runFrom_cons _ _ _ _ _ _ _).1 hf with ⟨c, content, hc, rfl⟩ | hf'
    · obtain ⟨a1, a2, a3, a4, a5⟩ := hfire c content hc
      refine ⟨Nat.le_refl _, ⟨x, by simp⟩, a1, a2, a5, ?_, a4⟩
      simp [a3]
    · have := ih (p ++ [(x, t)]) _ hI' h3 f (by simpa using hf')
      obtain ⟨b1, b2, b3, b4, b5, b6, b7⟩ := this
      simp only [List.length_append, List.length_cons, List.length_nil, List.append_assoc, List.cons_append,
        List.nil_append] at b1 b2 b6
      refine ⟨by omega, b2, b3, b4, b5, b6, ?_⟩
      intro tp hl
      have := b7 t (by simp)
      have := h2 tp hl
      omega

theorem runFrom_pairwise {w s : Nat} (hs : 1 ≤ s) : ∀ (rest p : List (Nat × Nat)) (st : State),
    Inv w s st p → InOrder (p ++ rest) →
    (runFrom (stdCfg w s) st p.length rest).Pairwise (fun a b => a.trigger < b.trigger ∧ a.close < b.close) := by
  intro rest
  induction rest with
  | nil => intro p st _ _; simp [runFrom]
  | cons a r ih =>
    intro p st hI ho
    obtain ⟨x, t⟩ := a
    obtain ⟨h1, h2, h3, _⟩ := inOrder_split ho
    obtain ⟨hI', hfire, _⟩ := step_ok x t hI h1 hs h2
    have ihh := ih (p ++ [(x, t)]) _ hI' h3
    have hfacts := runFrom_facts hs r (p ++ [(x, t)]) _ hI' h3
    simp only [List.length_append, List.length_cons, List.length_nil] at ihh hfacts
    simp only [runFrom]
    rcases h : addToWindow (stdCfg w s) st x t with ⟨st', o⟩
    rw [h] at ihh hfacts hfire
    cases o with
    | none => exact ihh
    | some cc =>
      obtain ⟨c, content⟩ := cc
      simp only
      refine List.pairwise_cons.2 ⟨?_, ihh⟩
      intro f hf
      obtain ⟨_, _, _, b4, _, _, b7⟩ := hfacts f hf
      have := b7 t (by simp)
      obtain ⟨_, a2, _⟩ := hfire c content rfl
      simp only
      omega

/-! ## streams whose consecutive timestamps are at most one slide apart -/

theorem gaps_inOrder (g : Nat) : ∀ (l : List (Nat × Nat)), gapsAtMost g l = true → InOrder l := by
  intro l
  induction l with
  | nil => intro _; exact List.Pairwise.nil
  | cons a l ih =>
    intro h
    cases l with
    | nil => exact List.pairwise_singleton _ _
    | cons b l' =>
      simp only [gapsAtMost, Bool.and_eq_true, decide_eq_true_eq] at h
      have hb := ih h.2
      unfold InOrder at hb ⊢
      refine List.pairwise_cons.2 ⟨?_, hb⟩
      intro y hy
      rcases List.mem_cons.1 hy with rfl | hy'
      · exact h.1.1
      · have := (List.pairwise_cons.1 hb).1 y hy'; omega

theorem gaps_step (g : Nat) : ∀ (p r : List (Nat × Nat)) (x t tp : Nat),
    gapsAtMost g (p ++ (x, t) :: r) = true → lastTs p = some tp → t ≤ tp + g := by
  intro p
  induction p with
  | nil => intro r x t tp _ hl; simp at hl
  | cons a p ih =>
    intro r x t tp h hl
    cases p with
    | nil =>
      simp [lastTs] at hl
      simp only [List.cons_append, List.nil_append, gapsAtMost, Bool.and_eq_true, decide_eq_true_eq] at h
      omega
    | cons b q =>
      simp only [List.cons_append, gapsAtMost, Bool.and_eq_true, decide_eq_true_eq] at h
      apply ih r x t tp
      · simpa using h.2
      · simpa [lastTs, List.getLast?_cons_cons] using hl

theorem runFrom_complete {w s : Nat} (hs : 1 ≤ s) : ∀ (rest p : List (Nat × Nat)) (st : State),
    Inv w s st p → gapsAtMost s (p ++ rest) = true → ∀ tp c, lastTs p = some tp → tp < c → s ∣ c →
    (∃ it ∈ rest, c ≤ it.2) → (∃ it ∈ p ++ rest, c - w ≤ it.2 ∧ it.2 < c) →
    ∃ f ∈ runFrom (stdCfg w s) st p.length rest, f.close = c := by
  intro rest
  induction rest with
  | nil => intro p st _ _ tp c _ _ _ h; simp at h
  | cons a r ih =>
    intro p st hI hg tp c hl hlt hc hex hin
    obtain ⟨x, t⟩ := a
    have ho := gaps_inOrder s _ hg
    obtain ⟨h1, h2, h3, h4⟩ := inOrder_split ho
    obtain ⟨hI', _, hfire⟩ := step_ok x t hI h1 hs h2
    rcases Nat.lt_or_ge t c with htc | htc
    · -- the interval has not closed yet
      have hex' : ∃ it ∈ r, c ≤ it.2 := by
        obtain ⟨it, hit, hle⟩ := hex
        rcases List.mem_cons.1 hit with rfl | hr
        · simp at hle; omega
        · exact ⟨it, hr, hle⟩
      obtain ⟨f, hf, hfc⟩ := ih (p ++ [(x, t)]) _ hI' (by simpa [List.append_assoc] using hg) t c (by simp) htc hc
        hex' (by simpa [List.append_assoc] using hin)
      exact ⟨f, (runFrom_cons _ _ _ _ _ _ _).2 (Or.inr (by simpa using hf)), hfc⟩
    · -- this item closes it
      have hgap := gaps_step s p r x t tp hg hl
      have hlive : c = t ∨ c - w ≤ tp := by
        obtain ⟨it, hit, hi1, hi2⟩ := hin
        rcases List.mem_append.1 hit with hp | hr
        · have := le_lastTs h1 hl it hp; right; omega
        · have := h4 it hr; omega
      obtain ⟨content, hcont⟩ := hfire tp c hl hc hlt htc hgap hlive
      exact ⟨⟨p.length, t, c, content⟩, (runFrom_cons _ _ _ _ _ _ _).2 (Or.inl ⟨c, content, hcont, rfl⟩), rfl⟩

/-- with consecutive timestamps at most `g` apart, the item before the first one at or after `c` lies in
`[c - g, c)` -/
theorem gap_witness (g c : Nat) : ∀ (l : List (Nat × Nat)) (a : Nat × Nat), gapsAtMost g (a :: l) = true →
    a.2 < c → (∃ it ∈ l, c ≤ it.2) → ∃ it ∈ a :: l, c - g ≤ it.2 ∧ it.2 < c := by
  intro l
  induction l with
  | nil => intro a _ _ h; simp at h
  | cons b l ih =>
    intro a hg ha hex
    simp only [gapsAtMost, Bool.and_eq_true, decide_eq_true_eq] at hg
    rcases Nat.lt_or_ge b.2 c with hb | hb
    · have hex' : ∃ it ∈ l, c ≤ it.2 := by
        obtain ⟨it, hit, hle⟩ := hex
        rcases List.mem_cons.1 hit with rfl | hr
        · omega
        · exact ⟨it, hr, hle⟩
      obtain ⟨it, hit, h⟩ := ih b hg.2 hb hex'
      exact ⟨it, List.mem_cons_of_mem _ hit, h⟩
    · exact ⟨a, by simp, by omega, ha⟩

/-! ## the model agrees with the reference `reports` of the specification -/

theorem latestDown_some (f : Nat → Bool) : ∀ (n hi c : Nat), latestDown f n hi = some c →
    f c = true ∧ c ≤ hi ∧ hi < c + n ∧ ∀ d, c < d → d ≤ hi → f d = false := by
  intro n
  induction n with
  | zero => intro hi c h; simp [latestDown] at h
  | succ n ih =>
    intro hi c h
    simp only [latestDown] at h
    split at h
    · simp at h; subst h
      rename_i hf
      exact ⟨hf, Nat.le_refl _, by omega, fun d h1 h2 => by omega⟩
    · rename_i hf
      obtain ⟨a, b, c', d'⟩ := ih (hi - 1) c h
      refine ⟨a, by omega, by omega, ?_⟩
      intro d h1 h2
      rcases Nat.eq_or_lt_of_le h2 with e | e
      · subst e; simpa using hf
      · exact d' d h1 (by omega)

theorem latestDown_none (f : Nat → Bool) : ∀ (n hi : Nat), latestDown f n hi = none →
    ∀ d, d ≤ hi → hi < d + n → f d = false := by
  intro n
  induction n with
  | zero => intro hi _ d h1 h2; omega
  | succ n ih =>
    intro hi h d h1 h2
    simp only [latestDown] at h
    split at h
    · simp at h
    · rename_i hf
      rcases Nat.eq_or_lt_of_le h1 with e | e
      · subst e; simpa using hf
      · exact ih (hi - 1) h d (by omega) (by omega)

theorem fire_char (w s : Nat) (st : State) (x t : Nat) :
    (addToWindow (stdCfg w s) st x t).2 =
      match pick ((scope w s t st.active).filter fun y => report (stdCfg w s).strategies y t) with
      | some mw => if st.appTime < t then some (mw.close, mw.content) else none
      | none => none := by
  simp only [addToWindow, stdCfg]
  cases pick (List.filter (fun y => report [Strategy.onWindowClose] y t) (scope w s t st.active)) with
  | none => rfl
  | some mw =>
    simp only
    by_cases hf : st.appTime < t
    · have : fireGuard t st.appTime = true := (fireGuard_iff _ _).2 hf
      simp [this, hf]
    · have : fireGuard t st.appTime = false := by rw [← Bool.not_eq_true, fireGuard_iff]; exact hf
      simp [this, hf]

/-- one step: what the code hands to the consumer is what the specification's `reportAt` says -/
theorem step_eq_spec {w s : Nat} {st : State} {p : List (Nat × Nat)} (x t : Nat) (hI : Inv w s st p)
    (hp : InOrder p) (hs : 1 ≤ s) (ht : ∀ tp, lastTs p = some tp → tp ≤ t) :
    (addToWindow (stdCfg w s) st x t).2 = reportAt w s p t := by
  have hstep := step_ok x t hI hp hs ht
  -- eligibility and the search range, in logical form
  have hE : ∀ d, eligible w s p t d = true ↔
      s ∣ d ∧ (d = t ∨ ∃ tp, lastTs p = some tp ∧ d - w ≤ tp) := by
    intro d
    unfold eligible
    cases hl : lastTs p with
    | none => simp [Nat.dvd_iff_mod_eq_zero]
    | some tp => simp [Nat.dvd_iff_mod_eq_zero]
  have hR : ∀ d, (d ≤ t ∧ t < d + (t - prevTime p t)) ↔
      (d ≤ t ∧ (∀ tp, lastTs p = some tp → tp < d) ∧ (lastTs p = none → d = t ∧ 0 < t)) := by
    intro d
    unfold prevTime
    cases hl : lastTs p with
    | none => simp; omega
    | some tp => simp; omega
  -- an eligible close in range is present after scope
  have hpresent : ∀ d, eligible w s p t d = true → d ≤ t → t < d + (t - prevTime p t) →
      ∃ y ∈ scope w s t st.active, y.close = d := by
    intro d he h1 h2
    obtain ⟨hd, hlive⟩ := (hE d).1 he
    obtain ⟨_, hr2, _⟩ := (hR d).1 ⟨h1, h2⟩
    rcases hlive with rfl | ⟨tp, hl, hle⟩
    · obtain ⟨z, hz, _, hzc⟩ := scope_complete w s d hs st.active d hd (by omega) (by omega)
      exact ⟨z, hz, hzc⟩
    · obtain ⟨z, hz, hzc⟩ := hI.complete tp hl d hd hle (hr2 tp hl)
      exact ⟨z, scope_sub _ _ _ _ _ hz, hzc⟩
  have hinfilter : ∀ y ∈ scope w s t st.active, y.close ≤ t →
      y ∈ (scope w s t st.active).filter fun y => report (stdCfg w s).strategies y t :=
    fun y hy hc => List.mem_filter.2 ⟨hy, (report_std w s y t).2 hc⟩
  rw [fire_char]
  unfold reportAt
  cases hpk : pick ((scope w s t st.active).filter fun y => report (stdCfg w s).strategies y t) with
  | none =>
    simp only
    cases hld : latestDown (eligible w s p t) (t - prevTime p t) t with
    | none => rfl
    | some c =>
      exfalso
      obtain ⟨a, b, c', _⟩ := latestDown_some _ _ _ _ hld
      obtain ⟨y, hy, hyc⟩ := hpresent c a b c'
      have hm := hinfilter y hy (by omega)
      cases hfl : (scope w s t st.active).filter fun y => report (stdCfg w s).strategies y t with
      | nil => rw [hfl] at hm; simp at hm
      | cons a' l' =>
        obtain ⟨m, hm'⟩ := pick_isSome (l := a' :: l') (by simp)
        rw [hfl] at hpk; rw [hm'] at hpk; cases hpk
  | some mw =>
    simp only
    have hmw := pick_mem hpk
    obtain ⟨hmw1, hmw2⟩ := List.mem_filter.1 hmw
    have hmc : mw.close ≤ t := (report_std w s mw t).1 hmw2
    have hmax := pick_max hpk
    by_cases hf : st.appTime < t
    · simp only [hf, ↓reduceIte]
      have hfired : (addToWindow (stdCfg w s) st x t).2 = some (mw.close, mw.content) := by
        rw [fire_char, hpk]; simp [hf]
      obtain ⟨a1, a2, a3, a4, a5⟩ := hstep.2.1 _ _ hfired
      obtain ⟨_, b2, _, b4⟩ := pre_facts (t := t) hI hp hs mw hmw1
      -- the picked close is eligible and in range
      have hel : eligible w s p t mw.close = true := by
        rw [hE]
        refine ⟨a1, ?_⟩
        rcases b4 with b4 | b4
        · obtain ⟨_, _, _, tp, hl, h1, _⟩ := hI.wf mw b4
          exact Or.inr ⟨tp, hl, by omega⟩
        · exact Or.inl (by omega)
      have hrg : mw.close ≤ t ∧ t < mw.close + (t - prevTime p t) := by
        rw [hR]
        refine ⟨a2, a4, ?_⟩
        intro hn
        rcases b4 with b4 | b4
        · obtain ⟨_, _, _, tp, hl, _⟩ := hI.wf mw b4; rw [hn] at hl; cases hl
        · exact ⟨by omega, by omega⟩
      cases hld : latestDown (eligible w s p t) (t - prevTime p t) t with
      | none =>
        have := latestDown_none _ _ _ hld mw.close hrg.1 hrg.2
        rw [hel] at this; cases this
      | some c =>
        obtain ⟨c1, c2, c3, c4⟩ := latestDown_some _ _ _ _ hld
        obtain ⟨y, hy, hyc⟩ := hpresent c c1 c2 c3
        have h1 : c ≤ mw.close := by
          have := hmax y (hinfilter y hy (by omega)); omega
        have h2 : mw.close ≤ c := by
          rcases Nat.lt_or_ge c mw.close with h | h
          · have := c4 mw.close h hmc; rw [hel] at this; cases this
          · exact h
        have : c = mw.close := by omega
        subst this
        simp [a3]
    · simp only [hf, ↓reduceIte]
      cases hld : latestDown (eligible w s p t) (t - prevTime p t) t with
      | none => rfl
      | some c =>
        exfalso
        obtain ⟨c1, c2, c3, _⟩ := latestDown_some _ _ _ _ hld
        obtain ⟨_, r2, r3⟩ := (hR c).1 ⟨c2, c3⟩
        cases hl : lastTs p with
        | none =>
          have := hI.app_zero hl
          have := (r3 hl).2
          omega
        | some tp =>
          have := hI.app_le tp hl
          have := r2 tp hl
          omega

theorem runFrom_eq_spec {w s : Nat} (hs : 1 ≤ s) : ∀ (rest p : List (Nat × Nat)) (st : State),
    Inv w s st p → InOrder (p ++ rest) →
    runFrom (stdCfg w s) st p.length rest = reportsFrom w s p rest := by
  intro rest
  induction rest with
  | nil => intro p st _ _; simp [runFrom, reportsFrom]
  | cons a r ih =>
    intro p st hI ho
    obtain ⟨x, t⟩ := a
    obtain ⟨h1, h2, h3, _⟩ := inOrder_split ho
    have hI' := (step_ok x t hI h1 hs h2).1
    have heq := step_eq_spec x t hI h1 hs h2
    have ihh := ih (p ++ [(x, t)]) _ hI' h3
    simp only [List.length_append, List.length_cons, List.length_nil] at ihh
    simp only [runFrom, reportsFrom]
    rcases h : addToWindow (stdCfg w s) st x t with ⟨st', o⟩
    rw [h] at heq ihh
    simp only at heq ihh
    rw [← heq]
    cases o with
    | none => simpa using ihh
    | some cc => obtain ⟨c, content⟩ := cc; simp [ihh]

end Kolibrie.Window
