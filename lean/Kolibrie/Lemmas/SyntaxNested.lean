import Kolibrie.Lemmas.Syntax
/-! Print/parse round trip for the whole nested fragment (strong induction on the fuel). Core Lean only. -/
namespace Kolibrie.Syntax

/-- first token of a group element -/
def elemStart : Tok → Bool
  | .term _ => true
  | .kw k => k == "GRAPH" || k == "FILTER"
  | .sym s => s == "{"

theorem braced_cons (d : Dots) (p : Pat) : ∃ ts, toksBraced d p = sy "{" :: ts := by
  cases p <;> exact ⟨_, by simp only [toksBraced]; rfl⟩

theorem item_head (d : Dots) (p : Pat) (h : wfP p = true) : ∃ t ts, toksItem d p = t :: ts ∧ elemStart t = true := by
  cases p with
  | unit => exact ⟨sy "{", _, by simp only [toksItem]; rfl, rfl⟩
  | bgp s pos => exact ⟨.term s, _, by simp only [toksItem]; rfl, rfl⟩
  | join ps => exact ⟨sy "{", _, by simp only [toksItem]; rfl, rfl⟩
  | union ps =>
    cases ps with
    | nil => simp [wfP, PatList.length] at h
    | cons q qs =>
      obtain ⟨ts, hts⟩ := braced_cons d q
      cases qs with
      | nil => exact ⟨sy "{", ts, by simp only [toksItem, toksAlts, hts], rfl⟩
      | cons q2 qs2 => exact ⟨sy "{", _, by simp only [toksItem, toksAlts, hts, List.cons_append]; rfl, rfl⟩
  | graph n q => exact ⟨kwd "GRAPH", _, by simp only [toksItem]; rfl, by simp [elemStart, kwd]⟩
  | filter e => exact ⟨kwd "FILTER", _, by simp only [toksItem]; rfl, by simp [elemStart, kwd]⟩
  | sub q => exact ⟨sy "{", _, by simp only [toksItem]; rfl, rfl⟩

theorem items_head (d : Dots) (ps : PatList) (rest : List Tok) (h : wfL ps = true) :
    ∃ t r, toksItems d ps ++ sy "}" :: rest = t :: r ∧ (elemStart t = true ∨ t = sy "}") := by
  cases ps with
  | nil => exact ⟨sy "}", rest, by simp [toksItems], Or.inr rfl⟩
  | cons p ps' =>
    simp only [wfL, Bool.and_eq_true] at h
    obtain ⟨t, ts, ht, hs⟩ := item_head d p h.1
    exact ⟨t, _, by rw [toksItems_cons, ht]; rfl, Or.inl hs⟩

theorem start_after {t : Tok} {r : List Tok} (h : elemStart t = true ∨ t = sy "}") : okAfterElem (t :: r) = true := by
  rcases h with h | h
  · cases t with
    | kw k => simp [elemStart] at h; rcases h with h | h <;> simp [okAfterElem, h]
    | term x => rfl
    | sym s => simp [elemStart] at h; simp [okAfterElem, h]
  · subst h; simp [okAfterElem, sy]

theorem start_dropDot {t : Tok} {r : List Tok} (h : elemStart t = true ∨ t = sy "}") : dropDot (t :: r) = t :: r := by
  rcases h with h | h
  · cases t with
    | kw k => rfl
    | term x => rfl
    | sym s => simp [elemStart] at h; simp [dropDot, h]
  · subst h; simp [dropDot, sy]

theorem start_ne_close {t : Tok} (h : elemStart t = true) : t ≠ .sym "}" := by
  intro hc; subst hc; simp [elemStart] at h

/-- second token of a braced group is never the keyword SELECT (so `sparql_group_primary` takes the group branch) -/
theorem braced_second (d : Dots) (p : Pat) (h : wfP p = true) (R : List Tok) :
    ∃ t ts, toksBraced d p ++ R = sy "{" :: t :: ts ∧ t ≠ .kw "SELECT" := by
  cases p with
  | unit => exact ⟨sy "}", R, by simp [toksBraced], by simp [sy]⟩
  | bgp s pos => exact ⟨.term s, _, by simp only [toksBraced, List.cons_append]; rfl, by simp⟩
  | join ps =>
    simp only [wfP, Bool.and_eq_true] at h
    obtain ⟨t, r, hr, hs⟩ := items_head d ps R h.2
    refine ⟨t, r, by simp only [toksBraced, List.cons_append, List.append_assoc, List.singleton_append, List.nil_append, hr], ?_⟩
    rcases hs with hs | hs
    · intro hc; subst hc; simp [elemStart] at hs
    · subst hs; simp [sy]
  | union ps =>
    obtain ⟨t, ts, ht, hs⟩ := item_head d (.union ps) h
    simp only [toksItem] at ht
    exact ⟨t, _, by simp only [toksBraced, List.cons_append, ht]; rfl, by intro hc; subst hc; simp [elemStart] at hs⟩
  | graph n q => exact ⟨kwd "GRAPH", _, by simp only [toksBraced, List.cons_append]; rfl, by simp [kwd]⟩
  | filter e => exact ⟨kwd "FILTER", _, by simp only [toksBraced, List.cons_append]; rfl, by simp [kwd]⟩
  | sub q => exact ⟨sy "{", _, by simp only [toksBraced, List.cons_append]; rfl, by simp [sy]⟩

theorem prim_braced (f k : Nat) (t : Tok) (ts : List Tok) (h : t ≠ .kw "SELECT") :
    parsePrimary (f + 1) k (sy "{" :: t :: ts) = parseBraced f k (sy "{" :: t :: ts) := by
  simp only [sy]
  unfold parsePrimary
  cases t with
  | kw x =>
    have hx : x ≠ "SELECT" := fun hc => h (by rw [hc])
    simp [hx]
  | term x => simp
  | sym x => simp

end Kolibrie.Syntax

namespace Kolibrie.Syntax

def wfOb (ob : List (Lexeme × Bool)) : Bool := ob.all (fun o => o.2 || isVarStart o.1)

def noOrdHead : List Tok → Bool
  | .kw k :: _ => !(k == "DESC" || k == "ASC")
  | .term (c :: _) :: _ => !(c == '?' || c == '$')
  | _ => true

theorem len_toksOrder : ∀ (ob : List (Lexeme × Bool)), ob.length ≤ (toksOrder ob).length
  | [] => by simp [toksOrder]
  | (v, false) :: r => by have := len_toksOrder r; simp [toksOrder]; omega
  | (v, true) :: r => by have := len_toksOrder r; simp [toksOrder]; omega

theorem parseOrder_print : ∀ (ob : List (Lexeme × Bool)) (fuel : Nat) (rest : List Tok),
    wfOb ob = true → ob.length ≤ fuel → noOrdHead rest = true →
    parseOrder fuel (toksOrder ob ++ rest) = (ob, rest)
  | [], fuel, rest, _, _, hr => by
    cases fuel with
    | zero => simp [parseOrder, toksOrder]
    | succ f =>
      simp only [toksOrder, List.nil_append]
      cases rest with
      | nil => simp [parseOrder]
      | cons t r =>
        cases t with
        | kw k =>
          have hk : ¬ (k = "DESC") ∧ ¬ (k = "ASC") := by simpa [noOrdHead] using hr
          unfold parseOrder
          split <;> simp_all
        | sym s => simp [parseOrder]
        | term x =>
          cases x with
          | nil => simp [parseOrder]
          | cons c cs =>
            have : (c == '?' || c == '$') = false := by simpa [noOrdHead] using hr
            simp [parseOrder, this]
  | (v, false) :: r, fuel, rest, hw, hf, hr => by
    obtain ⟨f, rfl⟩ : ∃ f, fuel = f + 1 := ⟨fuel - 1, by simp at hf; omega⟩
    simp only [wfOb, List.all_cons, Bool.false_or, Bool.and_eq_true] at hw
    have ih := parseOrder_print r f rest (by simpa [wfOb] using hw.2) (by simp at hf; omega) hr
    cases v with
    | nil => simp [isVarStart] at hw
    | cons c cs =>
      have hc : (c == '?' || c == '$') = true := by simpa [isVarStart] using hw.1
      simp [toksOrder, parseOrder, hc, ih]
  | (v, true) :: r, fuel, rest, hw, hf, hr => by
    obtain ⟨f, rfl⟩ : ∃ f, fuel = f + 1 := ⟨fuel - 1, by simp at hf; omega⟩
    simp only [wfOb, List.all_cons, Bool.true_or, Bool.true_and] at hw
    have ih := parseOrder_print r f rest (by simpa [wfOb] using hw) (by simp at hf; omega) hr
    simp [toksOrder, parseOrder, kwd, sy, ih]

/-- the modifier tokens exactly as `toksSel` prints them -/
def toksMods (gb : List Lexeme) (ob : List (Lexeme × Bool)) (lim : Option Nat) : List Tok :=
  (if gb.isEmpty then [] else kwd "GROUP" :: kwd "BY" :: gb.map .term) ++
    (if ob.isEmpty then [] else kwd "ORDER" :: kwd "BY" :: toksOrder ob) ++
    (match lim with | none => [] | some n => [kwd "LIMIT", .term (natDigits n)])

theorem limit_print (lim : Option Nat) (rest : List Tok) (hr : endOk rest = true) :
    (match (match lim with | none => [] | some n => [kwd "LIMIT", Tok.term (natDigits n)]) ++ rest with
      | .kw "LIMIT" :: .term n :: r3 => if allDigits n then some (some (lexNat n), r3) else none
      | .kw "LIMIT" :: _ => none
      | r2 => some (none, r2)) = some (lim, rest) := by
  cases lim with
  | none =>
    cases rest with
    | nil => rfl
    | cons t r => cases t with
      | kw k => simp [endOk] at hr
      | term x => simp [endOk] at hr
      | sym s => rfl
  | some n => simp [kwd, allDigits_natDigits, lexNat_natDigits]

end Kolibrie.Syntax

namespace Kolibrie.Syntax

def limToks (lim : Option Nat) : List Tok :=
  match lim with | none => [] | some n => [kwd "LIMIT", .term (natDigits n)]

def ordToks (ob : List (Lexeme × Bool)) : List Tok :=
  if ob.isEmpty then [] else kwd "ORDER" :: kwd "BY" :: toksOrder ob

theorem limit_step (lim : Option Nat) (rest : List Tok) (hr : endOk rest = true) :
    parseLimit (limToks lim ++ rest) = some (lim, rest) := by
  cases lim with
  | none =>
    cases rest with
    | nil => rfl
    | cons t r => cases t with
      | kw k => simp [endOk] at hr
      | term x => simp [endOk] at hr
      | sym s => rfl
  | some n => simp [parseLimit, limToks, kwd, allDigits_natDigits, lexNat_natDigits]

theorem limToks_noOrd (lim : Option Nat) (rest : List Tok) (hr : endOk rest = true) :
    noOrdHead (limToks lim ++ rest) = true := by
  cases lim with
  | none => cases rest with
    | nil => rfl
    | cons t r => cases t with
      | kw k => simp [endOk] at hr
      | term x => simp [endOk] at hr
      | sym s => rfl
  | some n => simp [limToks, kwd, noOrdHead]

theorem limToks_noVar (lim : Option Nat) (rest : List Tok) (hr : endOk rest = true) :
    noVarHead (limToks lim ++ rest) = true := by
  cases lim with
  | none => cases rest with
    | nil => rfl
    | cons t r => cases t with
      | kw k => simp [endOk] at hr
      | term x => simp [endOk] at hr
      | sym s => rfl
  | some n => simp [limToks, kwd, noVarHead]

theorem limToks_noGroupOrder (lim : Option Nat) (rest : List Tok) (hr : endOk rest = true) :
    parseOrderBy (limToks lim ++ rest) = some ([], limToks lim ++ rest) ∧
    parseGroupBy (limToks lim ++ rest) = some ([], limToks lim ++ rest) := by
  cases lim with
  | none => cases rest with
    | nil => exact ⟨rfl, rfl⟩
    | cons t r => cases t with
      | kw k => simp [endOk] at hr
      | term x => simp [endOk] at hr
      | sym s => exact ⟨rfl, rfl⟩
  | some n => simp [limToks, kwd, parseOrderBy, parseGroupBy]

theorem order_step (ob : List (Lexeme × Bool)) (lim : Option Nat) (rest : List Tok)
    (hob : wfOb ob = true) (hr : endOk rest = true) :
    parseOrderBy (ordToks ob ++ (limToks lim ++ rest)) = some (ob, limToks lim ++ rest) := by
  cases ob with
  | nil => simpa [ordToks] using (limToks_noGroupOrder lim rest hr).1
  | cons o os =>
    have hlen : (o :: os).length ≤ (toksOrder (o :: os) ++ (limToks lim ++ rest)).length := by
      have := len_toksOrder (o :: os); simp only [List.length_append]; omega
    have hO := parseOrder_print (o :: os) _ (limToks lim ++ rest) hob hlen (limToks_noOrd lim rest hr)
    simp only [ordToks, List.isEmpty_cons, Bool.false_eq_true, ↓reduceIte, List.cons_append, kwd, parseOrderBy]
    simp only [hO]
    rfl

theorem ordToks_noVar (ob : List (Lexeme × Bool)) (lim : Option Nat) (rest : List Tok) (hr : endOk rest = true) :
    noVarHead (ordToks ob ++ (limToks lim ++ rest)) = true := by
  cases ob with
  | nil => simpa [ordToks] using limToks_noVar lim rest hr
  | cons o os => simp [ordToks, kwd, noVarHead]

theorem ordToks_noGroup (ob : List (Lexeme × Bool)) (lim : Option Nat) (rest : List Tok) (hr : endOk rest = true) :
    parseGroupBy (ordToks ob ++ (limToks lim ++ rest)) = some ([], ordToks ob ++ (limToks lim ++ rest)) := by
  cases ob with
  | nil => simpa [ordToks] using (limToks_noGroupOrder lim rest hr).2
  | cons o os => simp [ordToks, kwd, parseGroupBy]

def grpToks (gb : List Lexeme) : List Tok :=
  if gb.isEmpty then [] else kwd "GROUP" :: kwd "BY" :: gb.map .term

theorem group_step (gb : List Lexeme) (ob : List (Lexeme × Bool)) (lim : Option Nat) (rest : List Tok)
    (hgb : gb.all isVarStart = true) (hr : endOk rest = true) :
    parseGroupBy (grpToks gb ++ (ordToks ob ++ (limToks lim ++ rest))) = some (gb, ordToks ob ++ (limToks lim ++ rest)) := by
  cases gb with
  | nil => simpa [grpToks] using ordToks_noGroup ob lim rest hr
  | cons g gs =>
    have hV := parseVars_print (g :: gs) _ hgb (ordToks_noVar ob lim rest hr)
    simp only [grpToks, List.isEmpty_cons, Bool.false_eq_true, ↓reduceIte, List.cons_append, kwd, parseGroupBy]
    simp only [List.map_cons, List.cons_append] at hV
    simp [hV]

/-- the modifier clauses print and parse back -/
theorem mods_print (gb : List Lexeme) (ob : List (Lexeme × Bool)) (lim : Option Nat) (rest : List Tok)
    (hgb : gb.all isVarStart = true) (hob : wfOb ob = true) (hr : endOk rest = true) :
    parseModifiers (grpToks gb ++ (ordToks ob ++ (limToks lim ++ rest))) = some (gb, ob, lim, rest) := by
  unfold parseModifiers
  rw [group_step gb ob lim rest hgb hr]
  simp only [order_step ob lim rest hob hr, limit_step lim rest hr]

end Kolibrie.Syntax

namespace Kolibrie.Syntax

theorem start_ne_select {t : Tok} (h : elemStart t = true ∨ t = sy "}") : t ≠ .kw "SELECT" := by
  rcases h with h | h
  · intro hc; subst hc; simp [elemStart] at h
  · subst h; simp [sy]

theorem braced_of_items (f k : Nat) (ps : PatList) (X rest : List Tok) (hg : guardOk k = true)
    (hX : ∃ t x, X = t :: x ∧ (elemStart t = true ∨ t = sy "}"))
    (hI : parseItems f (k + 1) X = some (ps, sy "}" :: rest)) :
    parseBraced (f + 1) k (sy "{" :: X) = some (collapse ps, rest) := by
  obtain ⟨t, x, rfl, ht⟩ := hX
  exact braced_items f k t x ps rest (start_ne_select ht) hg hI

theorem collapse_join (ps : PatList) (h : 2 ≤ ps.length) : collapse ps = .join ps := by
  cases ps with
  | nil => simp [PatList.length] at h
  | cons a ps' => cases ps' with
    | nil => simp [PatList.length] at h
    | cons b c => rfl

theorem elem_of_prim (f k : Nat) (t : Tok) (x : List Tok) (p : Pat) (rest : List Tok)
    (ht : t ≠ .kw "FILTER") (hP : parsePrimary (f + 1) k (t :: x) = some (p, rest))
    (hr : okAfterElem rest = true) :
    parseElem (f + 2) k (t :: x) = some (p, true, rest) := by
  unfold parseElem
  cases t with
  | kw y =>
    have hy : y ≠ "FILTER" := fun hc => ht (by rw [hc])
    simp [hy, hP, unionTail_stop f k _ rest hr]
  | term y => simp [hP, unionTail_stop f k _ rest hr]
  | sym y => simp [hP, unionTail_stop f k _ rest hr]

theorem elem_of_prim_union (f k : Nat) (x : List Tok) (p : Pat) (a : Pat) (as : PatList) (r1 rest : List Tok)
    (hP : parsePrimary (f + 1) k (sy "{" :: x) = some (p, r1))
    (hA : parseUnionTail (f + 1) k true r1 = some (.cons a as, rest)) :
    parseElem (f + 2) k (sy "{" :: x) = some (.union (.cons p (.cons a as)), true, rest) := by
  simp only [sy] at hP ⊢
  unfold parseElem
  simp [hP, hA]

theorem toksBraced_other (d : Dots) (x : Pat) (rest : List Tok) (h1 : x ≠ .unit) (h2 : ∀ ps, x ≠ .join ps) :
    toksBraced d x ++ rest =
      sy "{" :: (toksItem d x ++ ((if isFilter x then [] else dotTok d true) ++ sy "}" :: rest)) := by
  cases x with
  | unit => exact absurd rfl h1
  | join ps => exact absurd rfl (h2 ps)
  | bgp s pos => simp [toksBraced, toksItem, isFilter]
  | union ps => simp [toksBraced, toksItem, isFilter]
  | graph n p => simp [toksBraced, toksItem, isFilter]
  | filter e => simp [toksBraced, toksItem, isFilter]
  | sub q => simp [toksBraced, toksItem, isFilter]

theorem toksSel_eq (d : Dots) (dist : Bool) (vars : List Lexeme) (pat : Pat) (gb : List Lexeme)
    (ob : List (Lexeme × Bool)) (lim : Option Nat) (rest : List Tok) :
    toksSel d (.mk dist vars pat gb ob lim) ++ rest =
      kwd "SELECT" :: ((if dist then [kwd "DISTINCT"] else []) ++ (toksVars vars ++ (kwd "WHERE" ::
        (toksBraced d pat ++ (grpToks gb ++ (ordToks ob ++ (limToks lim ++ rest))))))) := by
  cases lim <;> simp [toksSel, grpToks, ordToks, limToks]

theorem okAfter_dots (d : Dots) (b : Bool) (t : Tok) (r : List Tok) (h : elemStart t = true ∨ t = sy "}") :
    okAfterElem (dotTok d b ++ t :: r) = true ∧ dropDot (dotTok d b ++ t :: r) = t :: r := by
  rcases dotTok_cases d b with hd | hd <;> rw [hd]
  · exact ⟨start_after h, start_dropDot h⟩
  · exact ⟨by simp [okAfterElem, sy], by simp [dropDot, sy]⟩

end Kolibrie.Syntax

namespace Kolibrie.Syntax

/-- the five mutually dependent round-trip statements, for one fuel value -/
structure Stmts (d : Dots) (fuel : Nat) : Prop where
  elem : ∀ (p : Pat) (k : Nat) (rest : List Tok), wfP p = true → fitsItem k p = true → fuelP p ≤ fuel →
    okAfterElem rest = true → parseElem fuel k (toksItem d p ++ rest) = some (p, !isFilter p, rest)
  braced : ∀ (p : Pat) (k : Nat) (rest : List Tok), wfP p = true → fitsBraced k p = true → fuelP p + 3 ≤ fuel →
    parseBraced fuel k (toksBraced d p ++ rest) = some (p, rest)
  items : ∀ (ps : PatList) (k : Nat) (rest : List Tok), wfL ps = true → fitsItems k ps = true → fuelL ps ≤ fuel →
    parseItems fuel k (toksItems d ps ++ sy "}" :: rest) = some (ps, sy "}" :: rest)
  alts : ∀ (p : Pat) (ps : PatList) (k : Nat) (rest : List Tok), wfP p = true → wfL ps = true →
    fitsBraced k p = true → fitsAlts k ps = true → fuelL (.cons p ps) ≤ fuel → okAfterElem rest = true →
    parseUnionTail fuel k true (kwd "UNION" :: (toksAlts d (.cons p ps) ++ rest)) = some (.cons p ps, rest)
  sel : ∀ (q : Sel) (k : Nat) (rest : List Tok), wfS q = true → fitsSel k q = true → fuelS q ≤ fuel →
    endOk rest = true → parseSel fuel k (toksSel d q ++ rest) = some (q, rest)

theorem fitsBraced_guard (k : Nat) (p : Pat) (h : fitsBraced k p = true) : guardOk k = true := by
  cases p <;> simp [fitsBraced] at h <;> first | exact h | exact h.1

theorem fitsBraced_item (k : Nat) (x : Pat) (h1 : x ≠ .unit) (h2 : ∀ ps, x ≠ .join ps)
    (h : fitsBraced k x = true) : fitsItem (k + 1) x = true := by
  cases x with
  | unit => exact absurd rfl h1
  | join ps => exact absurd rfl (h2 ps)
  | bgp s pos => rfl
  | union ps => simp [fitsBraced] at h; simpa [fitsItem] using h.2
  | graph n p => simp [fitsBraced] at h; simpa [fitsItem] using h.2
  | filter e => simp [fitsBraced] at h; simpa [fitsItem] using h.2
  | sub q => simp [fitsBraced] at h; simpa [fitsItem] using h.2

theorem braced_prim (f k : Nat) (d : Dots) (p : Pat) (R : List Tok) (hw : wfP p = true) :
    parsePrimary (f + 1) k (toksBraced d p ++ R) = parseBraced f k (toksBraced d p ++ R) := by
  obtain ⟨t, ts, ht, hne⟩ := braced_second d p hw R
  rw [ht]
  exact prim_braced f k t ts hne

theorem stmts_step (d : Dots) (fuel : Nat) (ih : ∀ m, m < fuel → Stmts d m) : Stmts d fuel := by
  refine ⟨?_, ?_, ?_, ?_, ?_⟩
  · -- elem
    intro p k rest hw hfit hf hr
    cases p with
    | bgp s pos =>
      obtain ⟨f, rfl⟩ : ∃ f, fuel = f + 3 := ⟨fuel - 3, by simp [fuelP] at hf; omega⟩
      have := elem_bgp f k d s pos rest (by simpa [wfP] using hw) (by simp [fuelP] at hf; omega) hr
      simpa [isFilter] using this
    | filter e =>
      obtain ⟨f, rfl⟩ : ∃ f, fuel = f + 1 := ⟨fuel - 1, by simp [fuelP] at hf; omega⟩
      have := elem_filter f k d e rest (by simpa [wfP] using hw) (by simpa [fitsItem] using hfit)
        (by simp [fuelP] at hf; omega)
      simpa [isFilter] using this
    | unit =>
      obtain ⟨f, rfl⟩ : ∃ f, fuel = f + 4 := ⟨fuel - 4, by simp [fuelP] at hf; omega⟩
      have hg : guardOk k = true := by simpa [fitsItem] using hfit
      have hB := braced_of_items (f + 1) k .nil (sy "}" :: rest) rest hg ⟨_, _, rfl, Or.inr rfl⟩ (items_nil f (k + 1) rest)
      have hP : parsePrimary (f + 2 + 1) k (sy "{" :: sy "}" :: rest) = some (.unit, rest) := by
        rw [prim_braced (f + 2) k (sy "}") rest (by simp [sy])]; exact hB
      have := elem_of_prim (f + 2) k (sy "{") (sy "}" :: rest) .unit rest (by simp [sy]) hP hr
      simpa [toksItem, isFilter] using this
    | join ps =>
      obtain ⟨f, rfl⟩ : ∃ f, fuel = f + 4 := ⟨fuel - 4, by simp [fuelP] at hf; omega⟩
      simp only [fitsItem, Bool.and_eq_true] at hfit
      simp only [wfP, Bool.and_eq_true, decide_eq_true_eq] at hw
      have hI := (ih (f + 1) (by omega)).items ps (k + 1) rest hw.2 hfit.2 (by simp [fuelP] at hf; omega)
      have hB := braced_of_items (f + 1) k ps _ rest hfit.1
        (by obtain ⟨t, r, hr', hs⟩ := items_head d ps rest hw.2; exact ⟨t, r, hr', hs⟩) hI
      rw [collapse_join ps hw.1] at hB
      obtain ⟨t, r, hr', hs⟩ := items_head d ps rest hw.2
      have hne : t ≠ .kw "SELECT" := by
        rcases hs with hs | hs
        · intro hc; subst hc; simp [elemStart] at hs
        · subst hs; simp [sy]
      have hP : parsePrimary (f + 2 + 1) k (sy "{" :: (toksItems d ps ++ sy "}" :: rest)) = some (.join ps, rest) := by
        rw [hr'] at hB ⊢
        rw [prim_braced (f + 2) k t r hne]; exact hB
      have := elem_of_prim (f + 2) k (sy "{") _ (.join ps) rest (by simp [sy]) hP hr
      simpa [toksItem, isFilter] using this
    | graph n q =>
      obtain ⟨f, rfl⟩ : ∃ f, fuel = f + 2 := ⟨fuel - 2, by simp [fuelP] at hf; omega⟩
      have hB := (ih f (by omega)).braced q k rest (by simpa [wfP] using hw) (by simpa [fitsItem] using hfit)
        (by simp [fuelP] at hf; omega)
      have hP : parsePrimary (f + 1) k (kwd "GRAPH" :: .term n :: (toksBraced d q ++ rest)) = some (.graph n q, rest) := by
        simp only [kwd]
        unfold parsePrimary
        simp [hB]
      have := elem_of_prim f k (kwd "GRAPH") _ (.graph n q) rest (by simp [kwd]) hP hr
      simpa [toksItem, isFilter] using this
    | sub q =>
      obtain ⟨f, rfl⟩ : ∃ f, fuel = f + 2 := ⟨fuel - 2, by simp [fuelP] at hf; omega⟩
      have hS := (ih f (by omega)).sel q k (sy "}" :: rest) (by simpa [wfP] using hw) (by simpa [fitsItem] using hfit)
        (by simp [fuelP] at hf; omega) (by simp [endOk, sy])
      obtain ⟨dist, vars, pat, gb, ob, lim⟩ := q
      rw [toksSel_eq] at hS
      have hP : parsePrimary (f + 1) k (sy "{" :: (toksSel d (.mk dist vars pat gb ob lim) ++ sy "}" :: rest)) =
          some (.sub (.mk dist vars pat gb ob lim), rest) := by
        rw [toksSel_eq]
        simp only [sy, kwd] at hS ⊢
        unfold parsePrimary
        simp [hS]
      have := elem_of_prim f k (sy "{") _ _ rest (by simp [sy]) hP hr
      simpa [toksItem, isFilter] using this
    | union ps =>
      cases ps with
      | nil => simp [wfP, PatList.length] at hw
      | cons p0 ps1 =>
        cases ps1 with
        | nil => simp [wfP, PatList.length] at hw
        | cons p1 ps2 =>
          obtain ⟨f, rfl⟩ : ∃ f, fuel = f + 2 := ⟨fuel - 2, by simp [fuelP] at hf; omega⟩
          simp only [wfP, wfL, Bool.and_eq_true] at hw
          simp only [fitsItem, fitsAlts, Bool.and_eq_true] at hfit
          simp only [fuelP, fuelL] at hf
          have hB := (ih f (by omega)).braced p0 k (kwd "UNION" :: (toksAlts d (.cons p1 ps2) ++ rest))
            hw.2.1 hfit.1 (by omega)
          have hA := (ih (f + 1) (by omega)).alts p1 ps2 k rest hw.2.2.1 hw.2.2.2 hfit.2.1 hfit.2.2
            (by simp only [fuelL]; omega) hr
          have hP := braced_prim f k d p0 (kwd "UNION" :: (toksAlts d (.cons p1 ps2) ++ rest)) hw.2.1
          rw [hB] at hP
          obtain ⟨ts, hts⟩ := braced_cons d p0
          rw [hts] at hP
          have := elem_of_prim_union f k _ p0 p1 ps2 _ rest hP hA
          have ht : toksItem d (.union (.cons p0 (.cons p1 ps2))) ++ rest =
              sy "{" :: (ts ++ kwd "UNION" :: (toksAlts d (.cons p1 ps2) ++ rest)) := by
            simp only [toksItem, toksAlts, hts, List.cons_append, List.append_assoc]
          rw [ht]
          simpa [isFilter] using this
  · -- braced
    intro p k rest hw hfit hf
    have hg := fitsBraced_guard k p hfit
    by_cases h1 : p = .unit
    · subst h1
      obtain ⟨f, rfl⟩ : ∃ f, fuel = f + 2 := ⟨fuel - 2, by simp [fuelP] at hf; omega⟩
      have := braced_of_items (f + 1) k .nil (sy "}" :: rest) rest hg ⟨_, _, rfl, Or.inr rfl⟩ (items_nil f (k + 1) rest)
      simpa [toksBraced, collapse] using this
    · by_cases h2 : ∃ ps, p = .join ps
      · obtain ⟨ps, rfl⟩ := h2
        obtain ⟨f, rfl⟩ : ∃ f, fuel = f + 1 := ⟨fuel - 1, by omega⟩
        simp only [fitsBraced, Bool.and_eq_true] at hfit
        simp only [wfP, Bool.and_eq_true, decide_eq_true_eq] at hw
        have hI := (ih f (by omega)).items ps (k + 1) rest hw.2 hfit.2 (by simp [fuelP] at hf; omega)
        have hB := braced_of_items f k ps _ rest hg
          (by obtain ⟨t, r, hr', hs⟩ := items_head d ps rest hw.2; exact ⟨t, r, hr', hs⟩) hI
        rw [collapse_join ps hw.1] at hB
        simpa [toksBraced] using hB
      · have h2' : ∀ ps, p ≠ .join ps := fun ps hc => h2 ⟨ps, hc⟩
        obtain ⟨g, rfl⟩ : ∃ g, fuel = g + 3 := ⟨fuel - 3, by omega⟩
        rw [toksBraced_other d p rest h1 h2']
        obtain ⟨t, ts, ht, hs⟩ := item_head d p hw
        have hfi := fitsBraced_item k p h1 h2' hfit
        -- what follows the element: optional dot, then the closing brace
        have hD : okAfterElem ((if isFilter p then [] else dotTok d true) ++ sy "}" :: rest) = true ∧
            (if (!isFilter p) = true then dropDot ((if isFilter p then [] else dotTok d true) ++ sy "}" :: rest)
              else ((if isFilter p then [] else dotTok d true) ++ sy "}" :: rest)) = sy "}" :: rest := by
          by_cases hfil : isFilter p = true
          · simp [hfil, okAfterElem, sy]
          · have hfil' : isFilter p = false := by simpa using hfil
            have := okAfter_dots d true (sy "}") rest (Or.inr rfl)
            simp [hfil', this.1, this.2]
        have hE := (ih (g + 1) (by omega)).elem p (k + 1) _ hw hfi (by omega) hD.1
        have hI := items_cons (g + 1) (k + 1) p .nil (!isFilter p) _ _ (sy "}" :: rest) t
          (ts ++ ((if isFilter p then [] else dotTok d true) ++ sy "}" :: rest))
          (by rw [ht]; rfl) (start_ne_close hs) hE hD.2 _ (items_nil g (k + 1) rest)
        have hB := braced_of_items (g + 2) k _ _ rest hg ⟨t, _, by rw [ht]; rfl, Or.inl hs⟩ hI
        simpa [collapse] using hB
  · -- items
    intro ps k rest hw hfit hf
    cases ps with
    | nil =>
      obtain ⟨f, rfl⟩ : ∃ f, fuel = f + 1 := ⟨fuel - 1, by simp [fuelL] at hf; omega⟩
      simpa [toksItems] using items_nil f k rest
    | cons p ps' =>
      obtain ⟨f, rfl⟩ : ∃ f, fuel = f + 1 := ⟨fuel - 1, by simp [fuelL] at hf; omega⟩
      simp only [wfL, Bool.and_eq_true] at hw
      simp only [fitsItems, Bool.and_eq_true] at hfit
      simp only [fuelL] at hf
      obtain ⟨t, ts, ht, hs⟩ := item_head d p hw.1
      obtain ⟨t', r', hr', hs'⟩ := items_head d ps' rest hw.2
      have hI := (ih f (by omega)).items ps' k rest hw.2 hfit.2 (by omega)
      rw [toksItems_cons, hr']
      rw [hr'] at hI
      have hD : okAfterElem ((if isFilter p then [] else dotTok d (isNilL ps')) ++ t' :: r') = true ∧
          (if (!isFilter p) = true then dropDot ((if isFilter p then [] else dotTok d (isNilL ps')) ++ t' :: r')
            else ((if isFilter p then [] else dotTok d (isNilL ps')) ++ t' :: r')) = t' :: r' := by
        by_cases hfil : isFilter p = true
        · simp [hfil, start_after hs']
        · have hfil' : isFilter p = false := by simpa using hfil
          have := okAfter_dots d (isNilL ps') t' r' hs'
          simp [hfil', this.1, this.2]
      have hE := (ih f (by omega)).elem p k _ hw.1 hfit.1 (by omega) hD.1
      exact items_cons f k p ps' (!isFilter p) _ _ (t' :: r') t
        (ts ++ ((if isFilter p then [] else dotTok d (isNilL ps')) ++ t' :: r'))
        (by rw [ht]; rfl) (start_ne_close hs) hE hD.2 _ hI
  · -- alts
    intro p ps k rest hw hwl hfit hfa hf hr
    obtain ⟨f, rfl⟩ : ∃ f, fuel = f + 2 := ⟨fuel - 2, by simp [fuelL] at hf; omega⟩
    simp only [fuelL] at hf
    cases ps with
    | nil =>
      have hB := (ih f (by omega)).braced p k rest hw hfit (by simp [fuelL] at hf; omega)
      have hP := braced_prim f k d p rest hw
      rw [hB] at hP
      obtain ⟨ts, hts⟩ := braced_cons d p
      simp only [toksAlts, hts, List.cons_append, kwd, sy] at hP ⊢
      unfold parseUnionTail
      simp [hP, unionTail_stop f k true rest hr]
    | cons p2 ps2 =>
      simp only [wfL, Bool.and_eq_true] at hwl
      simp only [fitsAlts, Bool.and_eq_true] at hfa
      have hB := (ih f (by omega)).braced p k (kwd "UNION" :: (toksAlts d (.cons p2 ps2) ++ rest)) hw hfit
        (by simp [fuelL] at hf; omega)
      have hA := (ih (f + 1) (by omega)).alts p2 ps2 k rest hwl.1 hwl.2 hfa.1 hfa.2
        (by simp only [fuelL] at hf ⊢; omega) hr
      have hP := braced_prim f k d p (kwd "UNION" :: (toksAlts d (.cons p2 ps2) ++ rest)) hw
      rw [hB] at hP
      obtain ⟨ts, hts⟩ := braced_cons d p
      have ht : toksAlts d (.cons p (.cons p2 ps2)) ++ rest =
          sy "{" :: (ts ++ kwd "UNION" :: (toksAlts d (.cons p2 ps2) ++ rest)) := by
        simp only [toksAlts, hts, List.cons_append, List.append_assoc]
      rw [ht]
      rw [hts] at hP
      simp only [List.cons_append, kwd, sy] at hP hA ⊢
      unfold parseUnionTail
      simp [hP, hA]
  · -- sel
    intro q k rest hw hfit hf hr
    obtain ⟨dist, vars, pat, gb, ob, lim⟩ := q
    obtain ⟨f, rfl⟩ : ∃ f, fuel = f + 1 := ⟨fuel - 1, by simp [fuelS] at hf; omega⟩
    simp only [wfS, Bool.and_eq_true] at hw
    obtain ⟨⟨⟨hv, hp⟩, hgb⟩, hob⟩ := hw
    have hB := (ih f (by omega)).braced pat k (grpToks gb ++ (ordToks ob ++ (limToks lim ++ rest))) hp
      (by simpa [fitsSel] using hfit) (by simp [fuelS] at hf; omega)
    have hM := mods_print gb ob lim rest hgb hob hr
    rw [toksSel_eq]
    cases vars with
    | nil =>
      cases dist <;>
      · simp only [toksVars, ↓reduceIte, List.nil_append, List.cons_append, Bool.false_eq_true, sy, kwd] at hB ⊢
        unfold parseSel
        simp [hB, hM]
    | cons v vs =>
      have hV := parseVars_print (v :: vs) (kwd "WHERE" :: (toksBraced d pat ++ (grpToks gb ++ (ordToks ob ++ (limToks lim ++ rest)))))
        hv (by simp [noVarHead, kwd])
      cases v with
      | nil => simp [isVarStart] at hv
      | cons c cs =>
        cases dist <;>
        · simp only [toksVars, ↓reduceIte, List.nil_append, List.cons_append, List.map_cons, Bool.false_eq_true,
            List.append_assoc, kwd] at hB hV ⊢
          unfold parseSel
          simp [hB, hM, hV]

theorem stmts (d : Dots) : ∀ fuel, Stmts d fuel := fun fuel =>
  Nat.strongRecOn fuel (fun n ih => stmts_step d n ih)

end Kolibrie.Syntax
