import Kolibrie.Model.Store
import Kolibrie.Spec.QuadSet
/-! Helper lemmas for C04 (core Lean only). -/
namespace Kolibrie.Store

variable {α : Type} [DecidableEq α]

@[simp] theorem mem_insL {l : List α} {a b : α} : b ∈ insL l a ↔ b ∈ l ∨ b = a := by
  unfold insL; split <;> simp_all

theorem nodup_insL {l : List α} {a : α} (h : l.Nodup) : (insL l a).Nodup := by
  unfold insL; split
  · exact h
  · rw [List.nodup_append]; refine ⟨h, by simp, ?_⟩
    intro x hx y hy; simp at hy; subst hy; intro e; subst e; contradiction

@[simp] theorem mem_delL {l : List α} {a b : α} : b ∈ delL l a ↔ b ∈ l ∧ b ≠ a := by
  unfold delL; simp

theorem nodup_delL {l : List α} {a : α} (h : l.Nodup) : (delL l a).Nodup := by
  unfold delL; exact List.Pairwise.filter _ h

omit [DecidableEq α] in
theorem nodup_filter {l : List α} (p : α → Bool) (h : l.Nodup) : (l.filter p).Nodup :=
  List.Pairwise.filter _ h

/-- membership in a fold of `insL` -/
theorem mem_foldl_insL {β : Type} (f : β → α) (xs : List β) (acc : List α) (b : α) :
    b ∈ xs.foldl (fun acc x => insL acc (f x)) acc ↔ b ∈ acc ∨ ∃ x ∈ xs, f x = b := by
  induction xs generalizing acc with
  | nil => simp
  | cons x xs ih =>
    simp only [List.foldl_cons, ih, mem_insL, List.mem_cons]
    constructor
    · rintro ((h | h) | ⟨y, hy, e⟩)
      · exact Or.inl h
      · exact Or.inr ⟨x, Or.inl rfl, h.symm⟩
      · exact Or.inr ⟨y, Or.inr hy, e⟩
    · rintro (h | ⟨y, (rfl | hy), e⟩)
      · exact Or.inl (Or.inl h)
      · exact Or.inl (Or.inr e.symm)
      · exact Or.inr ⟨y, hy, e⟩

theorem nodup_foldl_insL {β : Type} (f : β → α) (xs : List β) (acc : List α) (h : acc.Nodup) :
    (xs.foldl (fun acc x => insL acc (f x)) acc).Nodup := by
  induction xs generalizing acc with
  | nil => simpa
  | cons x xs ih => exact ih _ (nodup_insL h)


/-! ### the invariant and the abstraction -/

def abs (st : Store) : Abs := ⟨st.spog, st.named⟩

structure Inv (st : Store) : Prop where
  nd1 : st.gspo.Nodup
  nd2 : st.gpos.Nodup
  nd3 : st.gosp.Nodup
  nd4 : st.spog.Nodup
  ndn : st.named.Nodup
  e1 : ∀ q, q ∈ st.gspo ↔ q ∈ st.spog
  e2 : ∀ q, q ∈ st.gpos ↔ q ∈ st.spog
  e3 : ∀ q, q ∈ st.gosp ↔ q ∈ st.spog
  cat : ∀ q, q ∈ st.spog → q.g ≠ 0 → q.g ∈ st.named
  nz : ∀ g, g ∈ st.named → g ≠ 0

theorem inv_init : Inv init := by
  constructor <;> simp [init]

theorem touch_spec (st : Store) (g : Nat) (h : Inv st) :
    Inv (touch st g) ∧ (touch st g).spog = st.spog ∧ (touch st g).gspo = st.gspo ∧
    (∀ x, x ∈ (touch st g).named ↔ x ∈ st.named ∨ (x = g ∧ g ≠ 0)) := by
  unfold touch
  by_cases hg : g = 0
  · simp [hg, h]
  · simp only [bne_iff_ne, ne_eq, hg, not_false_eq_true, ↓reduceIte, mem_insL, and_true, true_and]
    refine ⟨⟨h.nd1, h.nd2, h.nd3, h.nd4, nodup_insL h.ndn, h.e1, h.e2, h.e3, ?_, ?_⟩, ?_⟩
    · intro q hq hz; simp only [mem_insL]; exact Or.inl (h.cat q hq hz)
    · intro x hx; simp only [mem_insL] at hx; rcases hx with hx | hx
      · exact h.nz x hx
      · subst hx; exact hg
    · intro _; trivial

theorem insertQuad_spec (st : Store) (q : Quad) (h : Inv st) :
    Inv (insertQuad st q).1 ∧
    (∀ x, x ∈ (insertQuad st q).1.spog ↔ x ∈ st.spog ∨ x = q) ∧
    (∀ g, g ∈ (insertQuad st q).1.named ↔ g ∈ st.named ∨ (g = q.g ∧ q.g ≠ 0)) ∧
    (insertQuad st q).2 = !decide (q ∈ st.spog) := by
  obtain ⟨hi, hs, -, hn⟩ := touch_spec st q.g h
  unfold insertQuad contains
  generalize touch st q.g = st' at hi hs hn ⊢
  simp only [← hs]
  by_cases hq : q ∈ st'.spog
  · simp only [hq, decide_true, ↓reduceIte, Bool.not_true, and_true]
    refine ⟨hi, ?_, hn⟩
    intro x; constructor
    · exact Or.inl
    · rintro (hx | rfl) <;> assumption
  · simp only [hq, decide_false, Bool.false_eq_true, ↓reduceIte, mem_insL, Bool.not_false, and_true,
      implies_true, true_and]
    refine ⟨⟨nodup_insL hi.nd1, nodup_insL hi.nd2, nodup_insL hi.nd3, nodup_insL hi.nd4, hi.ndn,
      ?_, ?_, ?_, ?_, hi.nz⟩, hn⟩
    · intro x; simp only [mem_insL, hi.e1]
    · intro x; simp only [mem_insL, hi.e2]
    · intro x; simp only [mem_insL, hi.e3]
    · intro x hx hz; simp only [mem_insL] at hx
      rcases hx with hx | rfl
      · exact hi.cat x hx hz
      · exact (hn _).2 (Or.inr ⟨rfl, hz⟩)

theorem deleteQuad_spec (st : Store) (q : Quad) (h : Inv st) :
    Inv (deleteQuad st q).1 ∧
    (∀ x, x ∈ (deleteQuad st q).1.spog ↔ x ∈ st.spog ∧ x ≠ q) ∧
    (∀ g, g ∈ (deleteQuad st q).1.named ↔ g ∈ st.named) ∧
    (deleteQuad st q).2 = decide (q ∈ st.spog) := by
  obtain ⟨hi, hs, -, hn⟩ := touch_spec st q.g h
  unfold deleteQuad contains
  by_cases hq : q ∈ st.spog
  · simp only [hq, decide_true, Bool.not_true, Bool.false_eq_true, ↓reduceIte, and_true]
    generalize touch st q.g = st' at hi hs hn ⊢
    simp only [← hs] at hq ⊢
    refine ⟨⟨nodup_delL hi.nd1, nodup_delL hi.nd2, nodup_delL hi.nd3, nodup_delL hi.nd4, hi.ndn,
      ?_, ?_, ?_, ?_, hi.nz⟩, ?_, ?_⟩
    · intro x; simp only [mem_delL, hi.e1]
    · intro x; simp only [mem_delL, hi.e2]
    · intro x; simp only [mem_delL, hi.e3]
    · intro x hx hz; simp only [mem_delL] at hx; exact hi.cat x hx.1 hz
    · intro x; simp only [mem_delL]
    · intro g; rw [hn]; constructor
      · rintro (hx | ⟨rfl, hz⟩)
        · exact hx
        · exact h.cat q (hs ▸ hq) hz
      · exact Or.inl
  · simp only [hq, decide_false, Bool.not_false, ↓reduceIte, and_true, implies_true, true_and]
    refine ⟨h, ?_⟩
    intro x; constructor
    · intro hx; exact ⟨hx, fun e => hq (e ▸ hx)⟩
    · exact And.left

theorem graphExists_iff (st : Store) (g : Nat) (h : Inv st) :
    graphExists st g = true ↔ g = 0 ∨ g ∈ st.named := by
  unfold graphExists
  simp only [Bool.or_eq_true, beq_iff_eq, decide_eq_true_eq, List.any_eq_true]
  constructor
  · rintro ((h0 | hn) | ⟨q, hq, e⟩)
    · exact Or.inl h0
    · exact Or.inr hn
    · by_cases hz : g = 0
      · exact Or.inl hz
      · subst e; exact Or.inr (h.cat q ((h.e1 q).1 hq) hz)
  · rintro (h0 | hn)
    · exact Or.inl (Or.inl h0)
    · exact Or.inl (Or.inr hn)

theorem foldl_delete_spec (L : List Quad) (st : Store) (h : Inv st) :
    Inv (L.foldl (fun acc q => (deleteQuad acc q).1) st) ∧
    (∀ x, x ∈ (L.foldl (fun acc q => (deleteQuad acc q).1) st).spog ↔ x ∈ st.spog ∧ x ∉ L) ∧
    (∀ g, g ∈ (L.foldl (fun acc q => (deleteQuad acc q).1) st).named ↔ g ∈ st.named) := by
  induction L generalizing st with
  | nil => simp [h]
  | cons q L ih =>
    obtain ⟨hi, hs, hn, _⟩ := deleteQuad_spec st q h
    obtain ⟨hi', hs', hn'⟩ := ih _ hi
    refine ⟨hi', ?_, ?_⟩
    · intro x; simp only [List.foldl_cons, hs', hs, List.mem_cons, not_or]
      constructor
      · rintro ⟨⟨a, b⟩, c⟩; exact ⟨a, b, c⟩
      · rintro ⟨a, b, c⟩; exact ⟨⟨a, b⟩, c⟩
    · intro g; simp only [List.foldl_cons, hn', hn]

theorem foldl_insert_spec (L : List Quad) (st : Store) (h : Inv st) :
    Inv (L.foldl (fun acc q => (insertQuad acc q).1) st) ∧
    (∀ x, x ∈ (L.foldl (fun acc q => (insertQuad acc q).1) st).spog ↔ x ∈ st.spog ∨ x ∈ L) ∧
    (∀ g, g ∈ (L.foldl (fun acc q => (insertQuad acc q).1) st).named ↔
        g ∈ st.named ∨ ∃ q ∈ L, q.g = g ∧ g ≠ 0) := by
  induction L generalizing st with
  | nil => simp [h]
  | cons q L ih =>
    obtain ⟨hi, hs, hn, _⟩ := insertQuad_spec st q h
    obtain ⟨hi', hs', hn'⟩ := ih _ hi
    refine ⟨hi', ?_, ?_⟩
    · intro x; simp only [List.foldl_cons, hs', hs, List.mem_cons, or_assoc]
    · intro g; simp only [List.foldl_cons, hn', hn, List.mem_cons, exists_eq_or_imp]
      constructor
      · rintro ((a | ⟨rfl, b⟩) | c)
        · exact Or.inl a
        · exact Or.inr (Or.inl ⟨rfl, b⟩)
        · exact Or.inr (Or.inr c)
      · rintro (a | ⟨e, b⟩ | c)
        · exact Or.inl (Or.inl a)
        · exact Or.inl (Or.inr ⟨e.symm, e ▸ b⟩)
        · exact Or.inr c

theorem createGraph_spec (st : Store) (g : Nat) (h : Inv st) :
    Inv (createGraph st g).1 ∧ (createGraph st g).1.spog = st.spog ∧
    (∀ x, x ∈ (createGraph st g).1.named ↔ x ∈ st.named ∨ (x = g ∧ g ≠ 0)) ∧
    (createGraph st g).2 = (!(g == 0) && !decide (g ∈ st.named)) := by
  unfold createGraph
  by_cases hg : g = 0
  · simp [hg, h]
  · have hex := graphExists_iff st g h
    simp only [beq_iff_eq, hg, ↓reduceIte, mem_insL, ne_eq, not_false_eq_true, and_true, Bool.not_false,
      Bool.true_and, true_and]
    refine ⟨⟨h.nd1, h.nd2, h.nd3, h.nd4, nodup_insL h.ndn, h.e1, h.e2, h.e3, ?_, ?_⟩, ?_, ?_⟩
    · intro q hq hz; simp only [mem_insL]; exact Or.inl (h.cat q hq hz)
    · intro x hx; simp only [mem_insL] at hx; rcases hx with hx | rfl
      · exact h.nz x hx
      · exact hg
    · intro _; trivial
    · by_cases hm : g ∈ st.named
      · have : graphExists st g = true := hex.2 (Or.inr hm)
        simp [this, hm]
      · have : graphExists st g = false := by
          cases hge : graphExists st g with
          | false => rfl
          | true => rcases hex.1 hge with a | a <;> contradiction
        simp [this, hm, hg]

theorem foldl_create_spec (L : List Nat) (st : Store) (h : Inv st) :
    Inv (L.foldl (fun acc g => (createGraph acc g).1) st) ∧
    (L.foldl (fun acc g => (createGraph acc g).1) st).spog = st.spog ∧
    (∀ x, x ∈ (L.foldl (fun acc g => (createGraph acc g).1) st).named ↔ x ∈ st.named ∨ (x ∈ L ∧ x ≠ 0)) := by
  induction L generalizing st with
  | nil => simp [h]
  | cons g L ih =>
    obtain ⟨hi, hs, hn, _⟩ := createGraph_spec st g h
    obtain ⟨hi', hs', hn'⟩ := ih _ hi
    refine ⟨hi', by simp only [List.foldl_cons, hs', hs], ?_⟩
    intro x; simp only [List.foldl_cons, hn', hn, List.mem_cons]
    constructor
    · rintro ((a | ⟨rfl, b⟩) | ⟨c, d⟩)
      · exact Or.inl a
      · exact Or.inr ⟨Or.inl rfl, b⟩
      · exact Or.inr ⟨Or.inr c, d⟩
    · rintro (a | ⟨rfl | c, d⟩)
      · exact Or.inl (Or.inl a)
      · exact Or.inl (Or.inr ⟨rfl, d⟩)
      · exact Or.inr ⟨c, d⟩


/-! ### read paths -/

theorem matchQ_none (q : Quad) : matchQ none none none q = true := by simp [matchQ]

theorem mem_queryGraph (st : Store) (h : Inv st) (g : Nat) (sp pp op : Option Nat) (q : Quad) :
    q ∈ queryGraph st g sp pp op ↔ q ∈ st.spog ∧ q.g = g ∧ matchQ sp pp op q = true := by
  unfold queryGraph
  cases sp <;> cases pp <;> cases op <;>
    simp only [List.mem_filter, Bool.and_eq_true, beq_iff_eq, h.e1, h.e2, h.e3, and_assoc]

theorem nodup_queryGraph (st : Store) (h : Inv st) (g : Nat) (sp pp op : Option Nat) :
    (queryGraph st g sp pp op).Nodup := by
  unfold queryGraph
  cases sp <;> cases pp <;> cases op <;>
    first
    | exact nodup_filter _ h.nd1 | exact nodup_filter _ h.nd2
    | exact nodup_filter _ h.nd3 | exact nodup_filter _ h.nd4

theorem mem_namedGraphs (st : Store) (g : Nat) :
    g ∈ namedGraphs st ↔ g ∈ st.named ∨ ∃ q ∈ st.gspo, q.g ≠ 0 ∧ q.g = g := by
  unfold namedGraphs
  rw [mem_foldl_insL (fun q : Quad => q.g)]
  simp only [List.mem_filter, bne_iff_ne, ne_eq, and_assoc]

theorem mem_namedGraphs_inv (st : Store) (h : Inv st) (g : Nat) :
    g ∈ namedGraphs st ↔ g ∈ st.named := by
  rw [mem_namedGraphs]
  constructor
  · rintro (a | ⟨q, hq, hz, rfl⟩)
    · exact a
    · exact h.cat q ((h.e1 q).1 hq) hz
  · exact Or.inl

theorem nodup_namedGraphs (st : Store) (h : Inv st) : (namedGraphs st).Nodup := by
  unfold namedGraphs
  exact nodup_foldl_insL (fun q : Quad => q.g) _ _ h.ndn

theorem mem_graphs (st : Store) (h : Inv st) (g : Nat) : g ∈ graphs st ↔ g = 0 ∨ g ∈ st.named := by
  unfold graphs; simp only [List.mem_cons, mem_namedGraphs_inv st h]

theorem nodup_graphs (st : Store) (h : Inv st) : (graphs st).Nodup := by
  unfold graphs
  rw [List.nodup_cons]
  refine ⟨?_, nodup_namedGraphs st h⟩
  intro h0
  exact h.nz 0 ((mem_namedGraphs_inv st h 0).1 h0) rfl

/-- a `flatMap` of per-graph answers over a duplicate-free list of graphs is duplicate-free -/
theorem nodup_flatMap_graphs (gs : List Nat) (f : Nat → List Quad) (hgs : gs.Nodup)
    (hf : ∀ g, (f g).Nodup) (hg : ∀ g q, q ∈ f g → q.g = g) : (gs.flatMap f).Nodup := by
  unfold List.Nodup
  rw [List.pairwise_flatMap]
  refine ⟨fun g _ => hf g, ?_⟩
  refine List.Pairwise.imp ?_ hgs
  intro a b hab x hx y hy e
  subst e
  exact hab ((hg a x hx).symm.trans (hg b x hy))

theorem mem_namedLoop (st : Store) (h : Inv st) (sp pp op : Option Nat) (vis : Option (List Nat)) (q : Quad) :
    q ∈ namedLoop st sp pp op vis ↔
      q ∈ st.spog ∧ q.g ≠ 0 ∧ matchQ sp pp op q = true ∧ visibleIn vis q.g = true := by
  unfold namedLoop
  simp only [List.mem_flatMap, mem_namedGraphs_inv st h]
  constructor
  · rintro ⟨g, hg, hq⟩
    by_cases hv : visibleIn vis g = true
    · rw [if_pos hv, mem_queryGraph st h] at hq
      obtain ⟨a, rfl, c⟩ := hq
      exact ⟨a, h.nz _ hg, c, hv⟩
    · rw [if_neg hv] at hq; simp at hq
  · rintro ⟨a, b, c, d⟩
    refine ⟨q.g, h.cat q a b, ?_⟩
    rw [if_pos d, mem_queryGraph st h]
    exact ⟨a, rfl, c⟩

theorem nodup_namedLoop (st : Store) (h : Inv st) (sp pp op : Option Nat) (vis : Option (List Nat)) :
    (namedLoop st sp pp op vis).Nodup := by
  unfold namedLoop
  apply nodup_flatMap_graphs _ _ (nodup_namedGraphs st h)
  · intro g; split
    · exact nodup_queryGraph st h g sp pp op
    · exact List.nodup_nil
  · intro g q hq; split at hq
    · exact ((mem_queryGraph st h g sp pp op q).1 hq).2.1
    · simp at hq

theorem mem_queryNamed (st : Store) (h : Inv st) (sp pp op : Option Nat) (vis : Option (List Nat)) (q : Quad) :
    q ∈ queryNamed st sp pp op vis ↔
      q ∈ st.spog ∧ q.g ≠ 0 ∧ matchQ sp pp op q = true ∧ visibleIn vis q.g = true := by
  unfold queryNamed
  split
  · split
    · simp only [List.mem_filter, Bool.and_eq_true, beq_iff_eq, bne_iff_ne, ne_eq, matchQ]
      constructor
      · rintro ⟨a, ⟨⟨⟨b, c⟩, d⟩, e⟩, f⟩; exact ⟨a, e, ⟨⟨b, c⟩, d⟩, f⟩
      · rintro ⟨a, e, ⟨⟨b, c⟩, d⟩, f⟩; exact ⟨a, ⟨⟨⟨b, c⟩, d⟩, e⟩, f⟩
    · exact mem_namedLoop st h _ _ _ vis q
  · exact mem_namedLoop st h _ _ _ vis q

theorem nodup_queryNamed (st : Store) (h : Inv st) (sp pp op : Option Nat) (vis : Option (List Nat)) :
    (queryNamed st sp pp op vis).Nodup := by
  unfold queryNamed
  split
  · split
    · exact nodup_filter _ h.nd4
    · exact nodup_namedLoop st h _ _ _ vis
  · exact nodup_namedLoop st h _ _ _ vis

theorem mem_allQuads (st : Store) (h : Inv st) (q : Quad) : q ∈ allQuads st ↔ q ∈ st.spog := by
  unfold allQuads
  simp only [List.mem_flatMap, mem_queryGraph st h, matchQ_none, and_true, mem_graphs st h]
  constructor
  · rintro ⟨g, _, a, _⟩; exact a
  · intro a
    refine ⟨q.g, ?_, a, rfl⟩
    by_cases hz : q.g = 0
    · exact Or.inl hz
    · exact Or.inr (h.cat q a hz)

theorem nodup_allQuads (st : Store) (h : Inv st) : (allQuads st).Nodup := by
  unfold allQuads
  apply nodup_flatMap_graphs _ _ (nodup_graphs st h)
  · intro g; exact nodup_queryGraph st h g none none none
  · intro g q hq; exact ((mem_queryGraph st h g none none none q).1 hq).2.1

/-! ### clear / drop / rebuild -/

theorem clearGraph_spec (st : Store) (g : Nat) (h : Inv st) :
    Inv (clearGraph st g) ∧
    (∀ x, x ∈ (clearGraph st g).spog ↔ x ∈ st.spog ∧ x.g ≠ g) ∧
    (∀ x, x ∈ (clearGraph st g).named ↔ x ∈ st.named) := by
  unfold clearGraph
  have hex := graphExists_iff st g h
  -- the state after the optional catalog touch
  have key : ∃ st', (if graphExists st g = true then touch st g else st) = st' ∧ Inv st' ∧
      st'.spog = st.spog ∧ (∀ x, x ∈ st'.named ↔ x ∈ st.named) := by
    by_cases he : graphExists st g = true
    · obtain ⟨hi, hs, -, hn⟩ := touch_spec st g h
      refine ⟨touch st g, by simp [he], hi, hs, ?_⟩
      intro x; rw [hn]; constructor
      · rintro (a | ⟨rfl, b⟩)
        · exact a
        · rcases hex.1 he with c | c
          · exact absurd c b
          · exact c
      · exact Or.inl
    · exact ⟨st, by simp [he], h, rfl, fun _ => Iff.rfl⟩
  obtain ⟨st', hst', hi, hs, hn⟩ := key
  simp only [hst']
  obtain ⟨hi', hs', hn'⟩ := foldl_delete_spec (queryGraph st' g none none none) st' hi
  refine ⟨hi', ?_, ?_⟩
  · intro x
    rw [hs', mem_queryGraph st' hi, hs]
    simp only [matchQ_none, and_true, not_and]
    constructor
    · rintro ⟨a, b⟩; exact ⟨a, b a⟩
    · rintro ⟨a, b⟩; exact ⟨a, fun _ => b⟩
  · intro x; rw [hn', hn]

theorem dropGraph_spec (st : Store) (g : Nat) (h : Inv st) :
    Inv (dropGraph st g).1 ∧
    (∀ x, x ∈ (dropGraph st g).1.spog ↔
        x ∈ st.spog ∧ ¬ (x.g = g ∧ (g = 0 ∨ g ∈ st.named))) ∧
    (∀ x, x ∈ (dropGraph st g).1.named ↔ x ∈ st.named ∧ x ≠ g) ∧
    (dropGraph st g).2 = (g == 0 || decide (g ∈ st.named)) := by
  unfold dropGraph
  obtain ⟨ci, cs, cn⟩ := clearGraph_spec st g h
  have hex := graphExists_iff st g h
  by_cases hg : g = 0
  · subst hg
    obtain ⟨ci, cs, cn⟩ := clearGraph_spec st 0 h
    simp only [beq_self_eq_true, ↓reduceIte, Bool.true_or, and_true, true_or]
    refine ⟨ci, ?_, ?_⟩
    · intro x; rw [cs]
    · intro x; rw [cn]; constructor
      · intro a; exact ⟨a, h.nz x a⟩
      · exact And.left
  · by_cases hm : g ∈ st.named
    · have he : graphExists st g = true := hex.2 (Or.inr hm)
      simp only [beq_iff_eq, hg, ↓reduceIte, he, Bool.not_true, Bool.false_eq_true, mem_delL, hm,
        decide_true, Bool.or_true, and_true, or_true]
      refine ⟨⟨ci.nd1, ci.nd2, ci.nd3, ci.nd4, nodup_delL ci.ndn, ci.e1, ci.e2, ci.e3, ?_, ?_⟩, ?_, ?_⟩
      · intro q hq hz
        simp only [mem_delL]
        have := (cs q).1 hq
        exact ⟨ci.cat q hq hz, this.2⟩
      · intro x hx; simp only [mem_delL] at hx; exact ci.nz x hx.1
      · intro x; rw [cs]
      · intro x; rw [cn]
    · have he : graphExists st g = false := by
        cases hge : graphExists st g with
        | false => rfl
        | true => rcases hex.1 hge with a | a <;> contradiction
      simp only [beq_iff_eq, hg, ↓reduceIte, he, Bool.not_false, hm, decide_false, Bool.or_self, and_true,
        or_self, and_false, not_false_eq_true]
      refine ⟨h, fun _ => trivial, ?_, by simp [hg]⟩
      intro x; constructor
      · intro a; exact ⟨a, fun e => hm (e ▸ a)⟩
      · exact And.left

theorem rebuild_spec (st : Store) (h : Inv st) :
    Inv (rebuild st) ∧ (∀ x, x ∈ (rebuild st).spog ↔ x ∈ st.spog) ∧
    (∀ x, x ∈ (rebuild st).named ↔ x ∈ st.named) := by
  unfold rebuild
  obtain ⟨i1, s1, n1⟩ := foldl_create_spec (namedGraphs st) init inv_init
  obtain ⟨i2, s2, n2⟩ := foldl_insert_spec (allQuads st) _ i1
  refine ⟨i2, ?_, ?_⟩
  · intro x; rw [s2, s1, mem_allQuads st h]; simp [init]
  · intro x; rw [n2, n1]
    simp only [init, List.not_mem_nil, false_or, mem_namedGraphs_inv st h, mem_allQuads st h]
    constructor
    · rintro (⟨a, _⟩ | ⟨q, hq, rfl, hz⟩)
      · exact a
      · exact h.cat q hq hz
    · intro a; exact Or.inl ⟨a, h.nz x a⟩

end Kolibrie.Store
