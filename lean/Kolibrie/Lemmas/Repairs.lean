import Kolibrie.Model.Repairs
import Kolibrie.Spec.Repairs
/-! Helper lemmas for C19 (core Lean only). -/
namespace Kolibrie.Repairs
open Kolibrie.Terms Kolibrie.RepairSpec

/-! ### pattern matching against a valuation -/

/-- the valuation agrees with every binding -/
def Agrees (σ : String → Nat) (b : Binding) : Prop := ∀ v x, lookup v b = some x → σ v = x

/-- the valuation read off a binding -/
def valOf (b : Binding) : String → Nat := fun v => (lookup v b).getD 0

theorem agrees_valOf (b : Binding) : Agrees (valOf b) b := by
  intro v x h; simp [valOf, h]

theorem agrees_nil (σ : String → Nat) : Agrees σ [] := by
  intro v x h; simp [lookup] at h

theorem lookup_cons (v w : String) (x : Nat) (b : Binding) :
    lookup v ((w, x) :: b) = if v = w then some x else lookup v b := rfl

theorem matchTerm_sound {σ t x b b'} (h : matchTerm t x b = some b') (ha : Agrees σ b') :
    Agrees σ b ∧ t.eval σ = x := by
  cases t with
  | const c =>
    simp only [matchTerm] at h
    split at h
    · cases h; exact ⟨ha, by simpa [Term.eval]⟩
    · cases h
  | var v =>
    simp only [matchTerm] at h
    split at h
    · rename_i y hy
      split at h
      · cases h; subst_vars; exact ⟨ha, ha v _ hy⟩
      · cases h
    · rename_i hn
      cases h
      refine ⟨?_, ?_⟩
      · intro w z hw
        apply ha w z
        rw [lookup_cons]
        by_cases hwv : w = v
        · subst hwv; rw [hn] at hw; cases hw
        · simp [hwv, hw]
      · apply ha v x; simp [lookup_cons]

theorem matchTerm_complete {σ t x b} (ha : Agrees σ b) (he : t.eval σ = x) :
    ∃ b', matchTerm t x b = some b' ∧ Agrees σ b' := by
  cases t with
  | const c => exact ⟨b, by simp [matchTerm, Term.eval] at *; exact he, ha⟩
  | var v =>
    simp only [Term.eval] at he
    cases hl : lookup v b with
    | some y =>
      have := ha v y hl
      refine ⟨b, ?_, ha⟩
      simp only [matchTerm, hl]; simp [← this, he]
    | none =>
      refine ⟨(v, x) :: b, by simp [matchTerm, hl], ?_⟩
      intro w z hw
      rw [lookup_cons] at hw
      by_cases hwv : w = v
      · subst hwv; simp at hw; omega
      · simp [hwv] at hw; exact ha w z hw

theorem matchPat_sound {σ q f b b'} (h : matchPat q f b = some b') (ha : Agrees σ b') :
    Agrees σ b ∧ q.inst σ = f := by
  simp only [matchPat] at h
  split at h
  · cases h
  · rename_i b1 h1
    split at h
    · cases h
    · rename_i b2 h2
      obtain ⟨a2, e3⟩ := matchTerm_sound h ha
      obtain ⟨a1, e2⟩ := matchTerm_sound h2 a2
      obtain ⟨a0, e1⟩ := matchTerm_sound h1 a1
      refine ⟨a0, ?_⟩
      cases f; simp_all [Pattern.inst]

theorem matchPat_complete {σ q f b} (ha : Agrees σ b) (he : q.inst σ = f) :
    ∃ b', matchPat q f b = some b' ∧ Agrees σ b' := by
  cases f with
  | mk fs fp fo =>
  simp only [Pattern.inst, Fact.mk.injEq] at he
  obtain ⟨b1, h1, a1⟩ := matchTerm_complete (x := fs) ha he.1
  obtain ⟨b2, h2, a2⟩ := matchTerm_complete (x := fp) a1 he.2.1
  obtain ⟨b3, h3, a3⟩ := matchTerm_complete (x := fo) a2 he.2.2
  exact ⟨b3, by simp [matchPat, h1, h2, h3], a3⟩

/-- a binding of a goal determines the fact it came from -/
theorem matchPat_inj {q f f' b} (h : matchPat q f [] = some b) (h' : matchPat q f' [] = some b) : f = f' := by
  have a := agrees_valOf b
  rw [← (matchPat_sound h a).2, ← (matchPat_sound h' a).2]

theorem joinRem_sound {σ all} : ∀ (ps : List Pattern) (j i : Nat) (rs : List Binding) (b' : Binding),
    b' ∈ joinRem all ps j i rs → Agrees σ b' →
    ∃ b ∈ rs, Agrees σ b ∧ ∀ k p, ps[k]? = some p → j + k ≠ i → p.inst σ ∈ all := by
  intro ps
  induction ps with
  | nil =>
    intro j i rs b' h ha
    exact ⟨b', by simpa [joinRem] using h, ha, by simp⟩
  | cons p ps ih =>
    intro j i rs b' h ha
    simp only [joinRem] at h
    split at h
    · rename_i hji
      obtain ⟨b, hb, hab, hrest⟩ := ih (j + 1) i rs b' h ha
      refine ⟨b, hb, hab, ?_⟩
      intro k p' hk hne
      cases k with
      | zero => exact absurd hji (by simpa using hne)
      | succ k => exact hrest k p' (by simpa using hk) (by omega)
    · rename_i hji
      obtain ⟨b1, hb1, hab1, hrest⟩ := ih (j + 1) i _ b' h ha
      simp only [List.mem_flatMap, List.mem_filterMap] at hb1
      obtain ⟨pb, hpb, f, hf, hm⟩ := hb1
      obtain ⟨hapb, hinst⟩ := matchPat_sound hm hab1
      refine ⟨pb, hpb, hapb, ?_⟩
      intro k p' hk hne
      cases k with
      | zero => simp at hk; subst hk; rw [hinst]; exact hf
      | succ k => exact hrest k p' (by simpa using hk) (by omega)

theorem joinRem_complete {σ all} : ∀ (ps : List Pattern) (j i : Nat) (rs : List Binding) (b : Binding),
    b ∈ rs → Agrees σ b → (∀ k p, ps[k]? = some p → j + k ≠ i → p.inst σ ∈ all) →
    ∃ b' ∈ joinRem all ps j i rs, Agrees σ b' := by
  intro ps
  induction ps with
  | nil => intro j i rs b hb ha _; exact ⟨b, by simpa [joinRem] using hb, ha⟩
  | cons p ps ih =>
    intro j i rs b hb ha hall
    have hall' : ∀ k p', ps[k]? = some p' → j + 1 + k ≠ i → p'.inst σ ∈ all := by
      intro k p' hk hne
      exact hall (k + 1) p' (by simpa using hk) (by omega)
    simp only [joinRem]
    split
    · exact ih (j + 1) i rs b hb ha hall'
    · rename_i hji
      have hp := hall 0 p (by simp) (by simpa using hji)
      obtain ⟨b1, hm, ha1⟩ := matchPat_complete (f := p.inst σ) ha rfl
      refine ih (j + 1) i _ b1 ?_ ha1 hall'
      simp only [List.mem_flatMap, List.mem_filterMap]
      exact ⟨b, hb, _, hp, hm⟩

theorem violates_iff (C : List (List Pattern)) (S : List Fact) : violates C S = true ↔ Violated C S := by
  simp only [violates, List.any_eq_true, Bool.not_eq_true', Violated]
  constructor
  · rintro ⟨c, hc, hne⟩
    refine ⟨c, hc, ?_⟩
    rw [List.isEmpty_eq_false_iff_exists_mem] at hne
    obtain ⟨b'', hb''⟩ := hne
    simp only [joinRule, List.mem_flatMap, List.mem_range] at hb''
    obtain ⟨i, hi, f, hf, hb''⟩ := hb''
    split at hb''
    · simp at hb''
    · rename_i p hp
      split at hb''
      · rename_i b hm
        have ha := agrees_valOf b''
        obtain ⟨b0, hb0, hab0, hrest⟩ := joinRem_sound c 0 i [b] b'' hb'' ha
        simp only [List.mem_singleton] at hb0
        subst hb0
        have hpf := (matchPat_sound hm hab0).2
        refine ⟨?_, valOf b'', ?_⟩
        · intro h; subst h; simp at hi
        · intro p' hp'
          obtain ⟨k, hk, hkp⟩ := List.mem_iff_getElem.1 hp'
          by_cases hki : k = i
          · subst hki
            have : c[k]? = some p' := by simp [hk, hkp]
            rw [this] at hp; cases hp; rw [hpf]; exact hf
          · exact hrest k p' (by simp [hk, hkp]) (by omega)
      · simp at hb''
  · rintro ⟨c, hc, hne, σ, hall⟩
    refine ⟨c, hc, ?_⟩
    rw [List.isEmpty_eq_false_iff_exists_mem]
    cases c with
    | nil => exact absurd rfl hne
    | cons p ps =>
      have hp := hall p (by simp)
      obtain ⟨b, hm, ha⟩ := matchPat_complete (f := p.inst σ) (agrees_nil σ) rfl
      obtain ⟨b', hb', _⟩ := joinRem_complete (σ := σ) (all := S) (p :: ps) 0 0 [b] b (by simp) ha (by
        intro k p' hk _
        exact hall p' (List.mem_of_getElem? hk))
      refine ⟨b', ?_⟩
      simp only [joinRule, List.mem_flatMap, List.mem_range]
      refine ⟨0, by simp, p.inst σ, hp, ?_⟩
      simp [hm, hb']

theorem solve_iff (S : List Fact) : ∀ (ps : List Pattern) (b : Binding),
    solve S ps b = true ↔ ∃ σ, Agrees σ b ∧ ∀ p ∈ ps, p.inst σ ∈ S := by
  intro ps
  induction ps with
  | nil => intro b; simp only [solve, true_iff]; exact ⟨valOf b, agrees_valOf b, by simp⟩
  | cons p ps ih =>
    intro b
    simp only [solve, List.any_eq_true]
    constructor
    · rintro ⟨f, hf, h⟩
      split at h
      · rename_i b' hm
        obtain ⟨σ, ha, hall⟩ := (ih b').1 h
        obtain ⟨hab, hi⟩ := matchPat_sound hm ha
        refine ⟨σ, hab, ?_⟩
        intro p' hp'
        simp only [List.mem_cons] at hp'
        rcases hp' with rfl | hp'
        · rw [hi]; exact hf
        · exact hall p' hp'
      · cases h
    · rintro ⟨σ, ha, hall⟩
      obtain ⟨b', hm, ha'⟩ := matchPat_complete (f := p.inst σ) ha rfl
      refine ⟨p.inst σ, hall p (by simp), ?_⟩
      simp only [hm]
      exact (ih b').2 ⟨σ, ha', fun p' hp' => hall p' (by simp [hp'])⟩

theorem specViolates_iff (C : List (List Pattern)) (S : List Fact) : specViolates C S = true ↔ Violated C S := by
  simp only [specViolates, List.any_eq_true, Bool.and_eq_true, Bool.not_eq_true', Violated]
  constructor
  · rintro ⟨c, hc, hne, hs⟩
    obtain ⟨σ, _, hall⟩ := (solve_iff S c []).1 hs
    exact ⟨c, hc, by intro h; subst h; simp at hne, σ, hall⟩
  · rintro ⟨c, hc, hne, σ, hall⟩
    refine ⟨c, hc, ?_, (solve_iff S c []).2 ⟨σ, agrees_nil σ, hall⟩⟩
    cases c <;> simp_all

theorem violates_eq_spec (C : List (List Pattern)) (S : List Fact) : violates C S = specViolates C S := by
  rw [Bool.eq_iff_iff, violates_iff, specViolates_iff]

theorem violated_congr {C : List (List Pattern)} {A B : List Fact} (h : ∀ x, x ∈ A ↔ x ∈ B) :
    Violated C A ↔ Violated C B := by
  simp only [Violated, h]

theorem setInv_violates (C : List (List Pattern)) : SetInv (violates C) := by
  intro A B h
  rw [Bool.eq_iff_iff, violates_iff, violates_iff]
  exact violated_congr h

theorem violates_nil (C : List (List Pattern)) : violates C [] = false := by
  rw [Bool.eq_false_iff]
  intro h
  obtain ⟨c, _, hne, σ, hall⟩ := (violates_iff C []).1 h
  cases c with
  | nil => exact hne rfl
  | cons p ps => exact absurd (hall p (by simp)) (by simp)

end Kolibrie.Repairs
