import Kolibrie.Lemmas.Certain
/-! Whatever join algorithm the optimizer assigns to the join nodes of a lowered plan, the answer is the same
    multiset (on the safe fragment). (core Lean only) -/
namespace Kolibrie.Engine
open List

/-- the reference implementation: every join is a nested-loop join -/
def implNl : Logical → Plan
  | .unit => .unit
  | .empty => .empty
  | .scan pat => .scan pat
  | .union l r => .union (implNl l) (implNl r)
  | .graph i g => .graph (implNl i) g
  | .filter i c => .filter (implNl i) c
  | .join l r => .nlJoin (implNl l) (implNl r)
  | .values vars rows => .values vars rows
  | .subquery i spec => .subquery (implNl i) spec
  | .bind i args out => .bind (implNl i) args out

def joinFree : Logical → Bool
  | .unit => true
  | .empty => true
  | .scan _ => true
  | .union l r => joinFree l && joinFree r
  | .graph i _ => joinFree i
  | .filter i _ => joinFree i
  | .join _ _ => false
  | .values _ _ => true
  | .subquery i _ => joinFree i
  | .bind i _ _ => joinFree i

/-- variables certainly bound by a logical plan -/
def certainL : Logical → List Var
  | .unit => []
  | .empty => []
  | .scan pat => termVar pat.s ++ termVar pat.p ++ termVar pat.o
  | .union l r => (certainL l).filter (fun v => (certainL r).contains v)
  | .graph i _ => certainL i
  | .filter i _ => certainL i
  | .join l r => certainL l ++ certainL r
  | .values _ _ => []
  | .subquery _ _ => []
  | .bind _ _ _ => []

/-- the decidable side condition on logical plans: no BIND, FILTER variables certainly bound by the filter's
    input, sub-selects without inner joins -/
def safeL : Logical → Bool
  | .unit => true
  | .empty => true
  | .scan _ => true
  | .union l r => safeL l && safeL r
  | .graph i _ => safeL i
  | .filter i c => safeL i && c.vars.all (fun v => (certainL i).contains v)
  | .join l r => safeL l && safeL r
  | .values _ _ => true
  | .subquery i _ => joinFree i
  | .bind _ _ _ => false

theorem implement_joinFree (L : Logical) (h : joinFree L = true) (algs : List JoinAlg) :
    implement algs L = (implNl L, algs) := by
  induction L generalizing algs with
  | unit => rfl
  | empty => rfl
  | scan _ => rfl
  | values _ _ => rfl
  | join _ _ _ _ => simp [joinFree] at h
  | union l r ihl ihr =>
    simp only [joinFree, Bool.and_eq_true] at h
    simp only [implement, ihl h.1, ihr h.2, implNl]
  | graph i g ih => simp only [joinFree] at h; simp only [implement, ih h, implNl]
  | filter i c ih => simp only [joinFree] at h; simp only [implement, ih h, implNl]
  | subquery i spec ih => simp only [joinFree] at h; simp only [implement, ih h, implNl]
  | bind i args out ih => simp only [joinFree] at h; simp only [implement, ih h, implNl]

theorem planCertain_mkJoin (alg : JoinAlg) (l r : Plan) :
    planCertain (mkJoin alg l r) = planCertain l ++ planCertain r := by
  cases alg <;> rfl

theorem safeSyn_mkJoin (alg : JoinAlg) (l r : Plan) : safeSyn (mkJoin alg l r) = (safeSyn l && safeSyn r) := by
  cases alg <;> rfl

theorem planCertain_implement (L : Logical) (algs : List JoinAlg) :
    planCertain (implement algs L).1 = certainL L := by
  induction L generalizing algs with
  | unit => rfl
  | empty => rfl
  | scan _ => rfl
  | values _ _ => rfl
  | subquery i spec ih => simp [implement, planCertain, certainL]
  | bind i args out ih => simp [implement, planCertain, certainL]
  | union l r ihl ihr => simp only [implement, planCertain, certainL, ihl, ihr]
  | graph i g ih => simp only [implement, planCertain, certainL, ih]
  | filter i c ih => simp only [implement, planCertain, certainL, ih]
  | join l r ihl ihr => simp only [implement, planCertain_mkJoin, certainL, ihl, ihr]

theorem safeSyn_implement (L : Logical) (h : safeL L = true) (algs : List JoinAlg) :
    safeSyn (implement algs L).1 = true := by
  induction L generalizing algs with
  | unit => rfl
  | empty => rfl
  | scan _ => rfl
  | values _ _ => rfl
  | subquery i spec ih => simp [implement, safeSyn]
  | bind i args out ih => simp [safeL] at h
  | union l r ihl ihr =>
    simp only [safeL, Bool.and_eq_true] at h
    simp only [implement, safeSyn, ihl h.1, ihr h.2, Bool.and_self]
  | graph i g ih => simp only [safeL] at h; simp only [implement, safeSyn, ih h]
  | filter i c ih =>
    simp only [safeL, Bool.and_eq_true] at h
    simp only [implement, safeSyn, ih h.1, planCertain_implement, h.2, Bool.and_self]
  | join l r ihl ihr =>
    simp only [safeL, Bool.and_eq_true] at h
    simp only [implement, safeSyn_mkJoin, ihl h.1, ihr h.2, Bool.and_self]

theorem planCertain_implNl (L : Logical) : planCertain (implNl L) = certainL L := by
  induction L with
  | unit => rfl
  | empty => rfl
  | scan _ => rfl
  | values _ _ => rfl
  | subquery i spec ih => simp [implNl, planCertain, certainL]
  | bind i args out ih => simp [implNl, planCertain, certainL]
  | union l r ihl ihr => simp only [implNl, planCertain, certainL, ihl, ihr]
  | graph i g ih => simp only [implNl, planCertain, certainL, ih]
  | filter i c ih => simp only [implNl, planCertain, certainL, ih]
  | join l r ihl ihr => simp only [implNl, planCertain, certainL, ihl, ihr]

theorem safeSyn_implNl (L : Logical) (h : safeL L = true) : safeSyn (implNl L) = true := by
  induction L with
  | unit => rfl
  | empty => rfl
  | scan _ => rfl
  | values _ _ => rfl
  | subquery i spec ih => simp [implNl, safeSyn]
  | bind i args out ih => simp [safeL] at h
  | union l r ihl ihr =>
    simp only [safeL, Bool.and_eq_true] at h
    simp only [implNl, safeSyn, ihl h.1, ihr h.2, Bool.and_self]
  | graph i g ih => simp only [safeL] at h; simp only [implNl, safeSyn, ih h]
  | filter i c ih =>
    simp only [safeL, Bool.and_eq_true] at h
    simp only [implNl, safeSyn, ih h.1, planCertain_implNl, h.2, Bool.and_self]
  | join l r ihl ihr =>
    simp only [safeL, Bool.and_eq_true] at h
    simp only [implNl, safeSyn, ihl h.1, ihr h.2, Bool.and_self]

theorem exec_mkJoin (db : DB) (alg : JoinAlg) (l r : Plan) (hl : Safe db l) (hr : Safe db r) (ctx : Ctx)
    (hc : ctx.WF) : exec db (mkJoin alg l r) ctx [[]] ~ nlJoin (exec db l ctx [[]]) (exec db r ctx [[]]) := by
  obtain ⟨h1, h2, h3⟩ := joins_agree_safe db l r hl hr ctx hc
  cases alg
  · exact h1
  · exact h2
  · exact h3

/-- **The optimizer's choice of join algorithms is irrelevant**: for every assignment `algs` of
    {bind, hash, nested-loop} to the join nodes of a safe logical plan, the physical plan returns the multiset of
    the all-nested-loop reference plan. -/
theorem implement_irrelevant (db : DB) (L : Logical) (h : safeL L = true) :
    ∀ (algs : List JoinAlg) (ctx : Ctx), ctx.WF →
      exec db (implement algs L).1 ctx [[]] ~ exec db (implNl L) ctx [[]] := by
  induction L with
  | unit => intro algs ctx _; exact Perm.refl _
  | empty => intro algs ctx _; exact Perm.refl _
  | scan _ => intro algs ctx _; exact Perm.refl _
  | values _ _ => intro algs ctx _; exact Perm.refl _
  | bind i args out ih => simp [safeL] at h
  | subquery i spec ih =>
    intro algs ctx _
    simp only [safeL] at h
    simp only [implement, implement_joinFree i h, implNl]
    exact Perm.refl _
  | union l r ihl ihr =>
    intro algs ctx hc
    simp only [safeL, Bool.and_eq_true] at h
    simp only [implement, implNl, exec_union]
    exact (ihl h.1 _ ctx hc).append (ihr h.2 _ ctx hc)
  | filter i c ih =>
    intro algs ctx hc
    simp only [safeL, Bool.and_eq_true] at h
    simp only [implement, implNl, exec_filter]
    exact (ih h.1 _ ctx hc).filter _
  | join l r ihl ihr =>
    intro algs ctx hc
    simp only [safeL, Bool.and_eq_true] at h
    simp only [implement, implNl]
    have hsl := safe_of_safeSyn db _ (safeSyn_implement l h.1 algs.tail)
    have hsr := safe_of_safeSyn db _ (safeSyn_implement r h.2 (implement algs.tail l).2)
    refine (exec_mkJoin db _ _ _ hsl hsr ctx hc).trans ?_
    rw [exec_nlJoin, hash_or_nl_empty]
    exact (nlJoin_perm_left _ (ihl h.1 _ ctx hc)).trans (nlJoin_perm_right _ (ihr h.2 _ ctx hc))
  | graph i g ih =>
    intro algs ctx hc
    simp only [safeL] at h
    simp only [implement, implNl, exec_graph]
    cases g with
    | dflt =>
      have hc' : ({ ctx with active := none } : Ctx).WF := hc
      exact ih h algs { ctx with active := none } hc'
    | named gn =>
      simp only
      split
      · have hc' : ({ ctx with active := some gn } : Ctx).WF := hc
        exact ih h algs { ctx with active := some gn } hc'
      · exact Perm.refl _
    | var v =>
      simp only [flatMap_cons, flatMap_nil, append_nil, graphVarRow, Row.get_nil]
      apply perm_flatMap_congr
      intro g _
      have hc' : ({ ctx with active := some g } : Ctx).WF := hc
      have hs1 := safe_of_safeSyn db _ (safeSyn_implement i h algs)
      have hs2 := safe_of_safeSyn db _ (safeSyn_implNl i h)
      have hw : AllWF [Row.insert [] v g] := fun r hr => by
        simp at hr; subst hr; exact Row.wf_insert [] v g Row.wf_nil
      have e1 := exec_input_join db _ hs1 { ctx with active := some g } hc' _ hw
      have e2 := exec_input_join db _ hs2 { ctx with active := some g } hc' _ hw
      exact e1.trans ((nlJoin_perm_right _ (ih h algs { ctx with active := some g } hc')).trans e2.symm)

/-- hence any two assignments agree -/
theorem implement_any_two (db : DB) (L : Logical) (h : safeL L = true) (a b : List JoinAlg) (ctx : Ctx)
    (hc : ctx.WF) : exec db (implement a L).1 ctx [[]] ~ exec db (implement b L).1 ctx [[]] :=
  (implement_irrelevant db L h a ctx hc).trans (implement_irrelevant db L h b ctx hc).symm

end Kolibrie.Engine
