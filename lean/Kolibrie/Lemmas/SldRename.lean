import Kolibrie.Lemmas.SldKnown
/-! Helper lemmas for C18, part 4: `rename_rule_variables` renames apart — the generated names are new, distinct,
    and never a variable of the goal. -/
namespace Kolibrie.Sld
open Kolibrie.Terms Kolibrie.SldSpec

theorem lookupV_mem {v n} : ∀ {m : VarMap}, lookupV v m = some n → (v, n) ∈ m := by
  intro m
  induction m with
  | nil => intro h; simp [lookupV] at h
  | cons e m ih =>
    obtain ⟨w, u⟩ := e
    intro h
    simp only [lookupV] at h
    split at h
    · cases h; subst_vars; simp
    · exact List.mem_cons_of_mem _ (ih h)

/-- invariant of the renaming state started at counter `c0` -/
structure RInv (reserved : List String) (c0 : Nat) (st : RState) : Prop where
  le : c0 ≤ st.counter
  rng : ∀ v n, (v, n) ∈ st.map → n ∉ reserved ∧ ∃ k, c0 ≤ k ∧ k < st.counter ∧ n = genName k
  inj : ∀ v v' n, (v, n) ∈ st.map → (v', n) ∈ st.map → v = v'

def TermMapped (m : VarMap) (t : Term) : Prop := ∀ v, t = .var v → ∃ n, lookupV v m = some n
def PatMapped (m : VarMap) (q : Pattern) : Prop := TermMapped m q.s ∧ TermMapped m q.p ∧ TermMapped m q.o

theorem TermMapped.ext {m m' t} (h : TermMapped m t) (he : Ext m m') : TermMapped m' t :=
  fun v hv => let ⟨n, hn⟩ := h v hv; ⟨n, he v n hn⟩
theorem PatMapped.ext {m m' q} (h : PatMapped m q) (he : Ext m m') : PatMapped m' q :=
  ⟨h.1.ext he, h.2.1.ext he, h.2.2.ext he⟩

theorem renameTerm_inv {reserved c0 t st} (hi : RInv reserved c0 st) :
    RInv reserved c0 (renameTerm reserved t st).2 ∧ TermMapped (renameTerm reserved t st).2.map t := by
  cases t with
  | const k => exact ⟨hi, fun v h => by cases h⟩
  | var v =>
    simp only [renameTerm]
    split
    · rename_i nv hnv
      exact ⟨hi, fun w hw => by cases hw; exact ⟨nv, hnv⟩⟩
    · rename_i hnone
      obtain ⟨hres, k, hk, hname, hctr⟩ := freshName_spec reserved (reserved.length + 1) st.counter (Nat.lt_succ_self _)
      refine ⟨⟨?_, ?_, ?_⟩, ?_⟩
      · show c0 ≤ (freshName reserved (reserved.length + 1) st.counter).2
        rw [hctr]; have := hi.le; omega
      · intro w n hm
        show n ∉ reserved ∧ ∃ k', c0 ≤ k' ∧ k' < (freshName reserved (reserved.length + 1) st.counter).2 ∧ n = genName k'
        rw [hctr]
        rcases List.mem_cons.1 hm with h | h
        · cases h
          exact ⟨hres, k, by have := hi.le; omega, by omega, hname⟩
        · obtain ⟨h1, k', h2, h3, h4⟩ := hi.rng w n h
          exact ⟨h1, k', h2, by omega, h4⟩
      · intro w w' n hm hm'
        have fresh : ∀ u, (u, (freshName reserved (reserved.length + 1) st.counter).1) ∉ st.map := by
          intro u hu
          obtain ⟨_, k', _, h3, h4⟩ := hi.rng u _ hu
          rw [hname] at h4
          have := genName_inj h4
          omega
        rcases List.mem_cons.1 hm with h | h <;> rcases List.mem_cons.1 hm' with h' | h'
        · cases h; cases h'; rfl
        · cases h; exact absurd h' (fresh w')
        · cases h'; exact absurd h (fresh w)
        · exact hi.inj w w' n h h'
      · intro w hw
        cases hw
        exact ⟨(freshName reserved (reserved.length + 1) st.counter).1, by simp [lookupV]⟩

theorem renamePat_inv {reserved c0 q st} (hi : RInv reserved c0 st) :
    RInv reserved c0 (renamePat reserved q st).2 ∧ PatMapped (renamePat reserved q st).2.map q := by
  simp only [renamePat]
  obtain ⟨i1, m1⟩ := renameTerm_inv (t := q.s) hi
  obtain ⟨i2, m2⟩ := renameTerm_inv (t := q.p) i1
  obtain ⟨i3, m3⟩ := renameTerm_inv (t := q.o) i2
  have e2 := (@renameTerm_ext reserved q.p (renameTerm reserved q.s st).2).1
  have e3 := (@renameTerm_ext reserved q.o (renameTerm reserved q.p (renameTerm reserved q.s st).2).2).1
  exact ⟨i3, m1.ext (e2.trans e3), m2.ext e3, m3⟩

theorem renamePats_inv {reserved c0} : ∀ (qs : List Pattern) (st : RState), RInv reserved c0 st →
    RInv reserved c0 (renamePats reserved qs st).2 ∧ ∀ q ∈ qs, PatMapped (renamePats reserved qs st).2.map q := by
  intro qs
  induction qs with
  | nil => intro st hi; exact ⟨hi, by simp⟩
  | cons q qs ih =>
    intro st hi
    simp only [renamePats]
    obtain ⟨i1, m1⟩ := renamePat_inv (q := q) hi
    obtain ⟨i2, m2⟩ := ih _ i1
    refine ⟨i2, ?_⟩
    intro q' hq'
    rcases List.mem_cons.1 hq' with rfl | h
    · exact m1.ext (renamePats_ext qs _).1
    · exact m2 q' h

/-- everything the completeness proof needs to know about one renamed rule -/
theorem renameRule_fresh (reserved : List String) (r : Rule) (c : Nat) :
    ∃ m : VarMap,
      (renameRule reserved r c).1.premise = r.premise.map (applyMapP m) ∧
      (renameRule reserved r c).1.conclusion = r.conclusion.map (applyMapP m) ∧
      c ≤ (renameRule reserved r c).2 ∧
      (∀ q, q ∈ r.premise ∨ q ∈ r.conclusion → PatMapped m q) ∧
      (∀ v n, (v, n) ∈ m → n ∉ reserved ∧ ∃ k, c ≤ k ∧ k < (renameRule reserved r c).2 ∧ n = genName k) ∧
      (∀ v v' n, (v, n) ∈ m → (v', n) ∈ m → v = v') := by
  simp only [renameRule]
  have h1 := renamePats_ext (reserved := reserved) r.premise ⟨[], c⟩
  have h2 := renamePats_ext (reserved := reserved) r.conclusion (renamePats reserved r.premise ⟨[], c⟩).2
  have i0 : RInv reserved c ⟨[], c⟩ := ⟨Nat.le_refl _, by simp, by simp⟩
  obtain ⟨i1, m1⟩ := renamePats_inv r.premise _ i0
  obtain ⟨i2, m2⟩ := renamePats_inv r.conclusion _ i1
  refine ⟨_, h1.2 _ h2.1, h2.2 _ (Ext.refl _), i2.le, ?_, i2.rng, i2.inj⟩
  intro q hq
  rcases hq with hq | hq
  · exact (m1 q hq).ext h2.1
  · exact m2 q hq

/-! ### the valuation for a renamed rule instance -/

/-- `σ` overridden on the generated names: the new name of rule variable `v` gets `θ v` -/
def extendVal (m : VarMap) (θ σ : String → Nat) : String → Nat := fun x =>
  match m.find? (fun e => e.2 == x) with
  | some e => θ e.1
  | none => σ x

theorem extendVal_new {m : VarMap} {θ σ : String → Nat} {v n : String}
    (inj : ∀ v v' n, (v, n) ∈ m → (v', n) ∈ m → v = v') (h : (v, n) ∈ m) : extendVal m θ σ n = θ v := by
  unfold extendVal
  cases hf : m.find? (fun e => e.2 == n) with
  | none =>
    have := List.find?_eq_none.1 hf (v, n) h
    simp at this
  | some e =>
    have he := List.mem_of_find?_eq_some hf
    have hp := List.find?_some hf
    simp only [beq_iff_eq] at hp
    obtain ⟨w, u⟩ := e
    simp only at hp
    subst hp
    rw [inj w v u he h]

theorem extendVal_old {m : VarMap} {θ σ : String → Nat} {x : String} (h : ∀ v n, (v, n) ∈ m → n ≠ x) :
    extendVal m θ σ x = σ x := by
  unfold extendVal
  cases hf : m.find? (fun e => e.2 == x) with
  | none => rfl
  | some e =>
    have he := List.mem_of_find?_eq_some hf
    have hp := List.find?_some hf
    simp only [beq_iff_eq] at hp
    exact absurd hp (h e.1 e.2 he)

theorem applyMapT_extend {m : VarMap} {θ σ : String → Nat} {t : Term}
    (inj : ∀ v v' n, (v, n) ∈ m → (v', n) ∈ m → v = v') (hm : TermMapped m t) :
    (applyMapT m t).eval (extendVal m θ σ) = t.eval θ := by
  cases t with
  | const k => rfl
  | var v =>
    obtain ⟨n, hn⟩ := hm v rfl
    simp only [applyMapT, hn, Option.getD_some, Term.eval]
    exact extendVal_new inj (lookupV_mem hn)

theorem applyMapP_extend {m : VarMap} {θ σ : String → Nat} {q : Pattern}
    (inj : ∀ v v' n, (v, n) ∈ m → (v', n) ∈ m → v = v') (hm : PatMapped m q) :
    (applyMapP m q).inst (extendVal m θ σ) = q.inst θ := by
  simp [applyMapP, Pattern.inst, applyMapT_extend inj hm.1, applyMapT_extend inj hm.2.1, applyMapT_extend inj hm.2.2]

theorem applyMapT_known {reserved : List String} {c c1 : Nat} {m : VarMap} {t : Term} (hm : TermMapped m t)
    (rng : ∀ v n, (v, n) ∈ m → n ∉ reserved ∧ ∃ k, c ≤ k ∧ k < c1 ∧ n = genName k) :
    TermKnown reserved c1 (applyMapT m t) := by
  cases t with
  | const k => exact termKnown_const _ _
  | var v =>
    obtain ⟨n, hn⟩ := hm v rfl
    intro w hw
    simp only [applyMapT, hn, Option.getD_some, Term.var.injEq] at hw
    subst hw
    obtain ⟨_, k, _, hk, rfl⟩ := rng v n (lookupV_mem hn)
    exact Or.inr ⟨k, hk, rfl⟩

theorem applyMapP_known {reserved : List String} {c c1 : Nat} {m : VarMap} {q : Pattern} (hm : PatMapped m q)
    (rng : ∀ v n, (v, n) ∈ m → n ∉ reserved ∧ ∃ k, c ≤ k ∧ k < c1 ∧ n = genName k) :
    PatKnown reserved c1 (applyMapP m q) :=
  ⟨applyMapT_known hm.1 rng, applyMapT_known hm.2.1 rng, applyMapT_known hm.2.2 rng⟩

/-- the overriding valuation does not touch any name known before the rule was renamed -/
theorem extendVal_agree {reserved : List String} {c c1 : Nat} {m : VarMap} (θ σ : String → Nat)
    (rng : ∀ v n, (v, n) ∈ m → n ∉ reserved ∧ ∃ k, c ≤ k ∧ k < c1 ∧ n = genName k) :
    AgreeOn reserved c σ (extendVal m θ σ) := by
  intro x hx
  apply extendVal_old
  intro v n hm hnx
  subst hnx
  obtain ⟨hres, k, hk, _, rfl⟩ := rng v n hm
  rcases hx with h | ⟨k', hk', h⟩
  · exact hres h
  · have := genName_inj h; omega

end Kolibrie.Sld
