import Kolibrie.Model.Update
import Kolibrie.Spec.UpdateSpec
/-! Helper lemmas for C03 (core Lean only). -/
namespace Kolibrie.Update
open Kolibrie.Engine List

def delStep (acc : DB × Nat) (q : Quad) : DB × Nat :=
  let (d, b) := deleteQuad acc.1 q; (d, if b then acc.2 + 1 else acc.2)

def insStep (acc : DB × Nat) (q : Quad) : DB × Nat :=
  let (d, b) := insertQuad acc.1 q; (d, if b then acc.2 + 1 else acc.2)

def touchOne (gs : List Val) (q : Quad) : List Val :=
  match q.g with
  | some n => if gs.contains n then gs else gs ++ [n]
  | none => gs

def touchAll (gs : List Val) (inss : List Quad) : List Val := inss.foldl touchOne gs

theorem delStep_mem (db : DB) (n : Nat) (d : Quad) (h : d ∈ db.quads) :
    delStep (db, n) d = ({ db with quads := db.quads.filter (· != d) }, n + 1) := by
  simp [delStep, deleteQuad, h]

theorem delStep_not_mem (db : DB) (n : Nat) (d : Quad) (h : d ∉ db.quads) :
    delStep (db, n) d = (db, n) := by
  simp [delStep, deleteQuad, h]

theorem del_fold (dels : List Quad) (db : DB) (n : Nat) :
    dels.foldl delStep (db, n) =
      ({ db with quads := db.quads.filter (fun q => !dels.contains q) },
       n + ((dels.filter (fun q => db.quads.contains q)).eraseDups).length) := by
  induction dels generalizing db n with
  | nil =>
    cases db
    simp only [foldl_nil, filter_nil, eraseDups_nil, length_nil, Nat.add_zero, contains_nil, Bool.not_false]
    congr 2
    exact (filter_eq_self.2 (fun _ _ => rfl)).symm
  | cons d ds ih =>
    simp only [foldl_cons]
    by_cases hm : d ∈ db.quads
    · rw [delStep_mem db n d hm, ih]
      have hq : filter (fun q => !ds.contains q) (filter (fun x => x != d) db.quads) =
          filter (fun q => !(d :: ds).contains q) db.quads := by
        rw [filter_filter]
        apply filter_congr
        intro q _
        by_cases hqd : q = d <;> by_cases hqs : q ∈ ds <;> simp [hqd, hqs]
      have hf : filter (fun q => (filter (fun x => x != d) db.quads).contains q) ds =
          filter (fun b => !b == d) (filter (fun q => db.quads.contains q) ds) := by
        rw [filter_filter]
        apply filter_congr
        intro q _
        by_cases hqd : q = d <;> by_cases hqm : q ∈ db.quads <;> simp [hqd, hqm]
      have hcnt : (filter (fun q => db.quads.contains q) (d :: ds)).eraseDups.length =
          1 + (filter (fun b => !b == d) (filter (fun q => db.quads.contains q) ds)).eraseDups.length := by
        rw [filter_cons, if_pos (by simp [hm]), eraseDups_cons, length_cons]; omega
      simp only [hq, hf, hcnt]
      congr 1; omega
    · rw [delStep_not_mem db n d hm, ih]
      have hq : filter (fun q => !ds.contains q) db.quads = filter (fun q => !(d :: ds).contains q) db.quads := by
        apply filter_congr
        intro q hq
        have : q ≠ d := fun e => hm (e ▸ hq)
        by_cases hqs : q ∈ ds <;> simp [this, hqs]
      have hcnt : filter (fun q => db.quads.contains q) (d :: ds) = filter (fun q => db.quads.contains q) ds := by
        rw [filter_cons, if_neg (by simp [hm])]
      simp only [hq, hcnt]

theorem touchGraph_quads (db : DB) (g : Option Val) : (touchGraph db g).quads = db.quads := by
  unfold touchGraph; split
  · split <;> rfl
  · rfl

theorem touchGraph_graphs (db : DB) (q : Quad) : (touchGraph db q.g).graphs = touchOne db.graphs q := by
  unfold touchGraph touchOne
  cases q.g with
  | none => rfl
  | some n => by_cases h : n ∈ db.graphs <;> simp [h]

theorem insStep_mem (db : DB) (n : Nat) (i : Quad) (h : i ∈ db.quads) :
    insStep (db, n) i = (touchGraph db i.g, n) := by
  have : i ∈ (touchGraph db i.g).quads := by rw [touchGraph_quads]; exact h
  simp [insStep, insertQuad, this]

theorem insStep_not_mem (db : DB) (n : Nat) (i : Quad) (h : i ∉ db.quads) :
    insStep (db, n) i = ({ touchGraph db i.g with quads := db.quads ++ [i] }, n + 1) := by
  have : i ∉ (touchGraph db i.g).quads := by rw [touchGraph_quads]; exact h
  simp [insStep, insertQuad, touchGraph_quads, h]

theorem ins_fold (inss : List Quad) (db : DB) (n : Nat) :
    inss.foldl insStep (db, n) =
      ({ quads := db.quads ++ ((inss.filter (fun q => !db.quads.contains q)).eraseDups),
         graphs := touchAll db.graphs inss },
       n + ((inss.filter (fun q => !db.quads.contains q)).eraseDups).length) := by
  induction inss generalizing db n with
  | nil => cases db; simp [touchAll]
  | cons i is ih =>
    simp only [foldl_cons]
    by_cases hm : i ∈ db.quads
    · rw [insStep_mem db n i hm, ih, touchGraph_quads, touchGraph_graphs]
      have hf : filter (fun q => !db.quads.contains q) (i :: is) = filter (fun q => !db.quads.contains q) is := by
        rw [filter_cons, if_neg (by simp [hm])]
      simp only [hf, touchAll, foldl_cons]
    · rw [insStep_not_mem db n i hm, ih]
      simp only [touchGraph_graphs]
      have hf : filter (fun q => !(db.quads ++ [i]).contains q) is =
          filter (fun b => !b == i) (filter (fun q => !db.quads.contains q) is) := by
        rw [filter_filter]
        apply filter_congr
        intro q _
        by_cases hqi : q = i <;> by_cases hqm : q ∈ db.quads <;> simp [hqi, hqm]
      have hc : (filter (fun q => !db.quads.contains q) (i :: is)).eraseDups =
          i :: (filter (fun b => !b == i) (filter (fun q => !db.quads.contains q) is)).eraseDups := by
        rw [filter_cons, if_pos (by simp [hm]), eraseDups_cons]
      simp only [hf, hc, touchAll, foldl_cons, append_assoc, singleton_append, length_cons]
      congr 1; omega

theorem applyMutations_eq (db : DB) (dels inss : List Quad) :
    applyMutations db dels inss = specApply db dels inss := by
  have e1 : applyMutations db dels inss =
      (let r1 := dels.foldl delStep (db, 0)
       let r2 := inss.foldl insStep (r1.1, 0)
       (r2.1, ⟨r2.2, r1.2⟩)) := rfl
  rw [e1, del_fold]
  simp only [ins_fold]
  unfold specApply
  simp only [touchAll, Nat.zero_add]
  congr 3

end Kolibrie.Update
