import Kolibrie.Model.Syntax
/-! Lexer round trip: rendering a token list with any separator-complete layout and lexing it gives the tokens back.
Core Lean only. -/
namespace Kolibrie.Syntax

theorem isWs_cases {w : Char} (h : isWs w = true) : w = ' ' ∨ w = '\n' ∨ w = '\t' ∨ w = '\r' := by
  simp [isWs] at h
  rcases h with ((h | h) | h) | h <;> simp [h]

/-- the rest of the input after a token: nothing, or something that starts with a whitespace character -/
def sepStart : List Char → Bool
  | [] => true
  | w :: _ => isWs w

theorem takeWhile_stop (p : Char → Bool) (a R : List Char) (ha : a.all p = true)
    (hR : ∀ w r, R = w :: r → p w = false) :
    (a ++ R).takeWhile p = a ∧ (a ++ R).dropWhile p = R := by
  induction a with
  | nil =>
    cases R with
    | nil => simp
    | cons w r => have := hR w r rfl; simp [List.takeWhile, List.dropWhile, this]
  | cons c cs ih =>
    simp only [List.all_cons, Bool.and_eq_true] at ha
    have := ih ha.2
    simp [List.takeWhile, List.dropWhile, ha.1, this.1, this.2]

theorem sepStart_stop (p : Char → Bool) (R : List Char) (hR : sepStart R = true)
    (hp : p ' ' = false ∧ p '\n' = false ∧ p '\t' = false ∧ p '\r' = false) :
    ∀ w r, R = w :: r → p w = false := by
  intro w r h
  subst h
  rcases isWs_cases (by simpa [sepStart] using hR) with h | h | h | h <;> subst h
  · exact hp.1
  · exact hp.2.1
  · exact hp.2.2.1
  · exact hp.2.2.2

theorem skipComment_text (t : List Char) (Y : List Char) (ht : t.all (fun c => !(c == '\n' || c == '\r')) = true) :
    skipComment (t ++ '\n' :: Y) = '\n' :: Y := by
  induction t with
  | nil => simp [skipComment]
  | cons c cs ih =>
    simp only [List.all_cons, Bool.and_eq_true, Bool.not_eq_true'] at ht
    simp [skipComment, ht.1, ih ht.2]

theorem iriBody_ok (b R : List Char) (hb : b.all isIriChar = true) :
    iriBody (b ++ '>' :: R) = some (b, R) := by
  induction b with
  | nil => simp [iriBody]
  | cons c cs ih =>
    simp only [List.all_cons, Bool.and_eq_true] at hb
    have hc : (c == '>') = false := by
      cases h : (c == '>') with
      | false => rfl
      | true => have := hb.1; simp [isIriChar] at this h; simp_all
    simp [iriBody, hc, hb.1, ih hb.2]

theorem litBody_ok (b R : List Char) (hb : b.all isLitChar = true) :
    litBody (b ++ '"' :: R) = some (b, R) := by
  induction b with
  | nil => simp [litBody]
  | cons c cs ih =>
    simp only [List.all_cons, Bool.and_eq_true] at hb
    have hc : (c == '"') = false := by
      cases h : (c == '"') with
      | false => rfl
      | true => have := hb.1; simp [isLitChar] at this h; simp_all
    simp [litBody, hc, hb.1, ih hb.2]

/-- `<` followed by nothing or by whitespace is not the start of an IRI -/
theorem iriBody_none (R : List Char) (hR : sepStart R = true) : iriBody R = none := by
  cases R with
  | nil => rfl
  | cons w r =>
    rcases isWs_cases (by simpa [sepStart] using hR) with h | h | h | h <;> subst h <;> simp [iriBody, isIriChar]

end Kolibrie.Syntax

namespace Kolibrie.Syntax

/-- characters on which `lexOne` dispatches before looking at letters and digits -/
def special (c : Char) : Bool := c == '?' || c == '$' || c == '<' || c == '"'

def wordLike : List Char → Bool
  | c :: cs => c.isAlpha && !special c && !c.isDigit && cs.all isWordChar
  | [] => false

def numLike : List Char → Bool
  | c :: cs => c.isDigit && !special c && cs.all Char.isDigit
  | [] => false

/-- lexemes the lexer reads back verbatim: variables, IRIs, plain literals, unsigned integers, and prefixed names /
    identifiers that are not keywords -/
def wfTerm (l : Lexeme) : Bool :=
  isVarLex l || isIriLex l || isLitLex l || numLike l || (wordLike l && !keywords.contains (upper l))

def symbols : List String :=
  ["{", "}", "(", ")", ".", ";", ",", "*", "&&", "||", "!", "=", "!=", "<", ">", "<=", ">="]

def wfTok : Tok → Bool
  | .kw k => keywords.contains k
  | .term t => wfTerm t
  | .sym s => symbols.contains s

theorem lexOne_var (l : Lexeme) (R : List Char) (h : isVarLex l = true) (hR : sepStart R = true) :
    lexOne (l ++ R) = some (.term l, R) := by
  cases l with
  | nil => simp [isVarLex] at h
  | cons c n =>
    simp only [isVarLex, Bool.and_eq_true, Bool.not_eq_true', List.isEmpty_eq_false_iff] at h
    obtain ⟨⟨hc, hn⟩, hall⟩ := h
    have hs := takeWhile_stop isVarChar n R hall (sepStart_stop isVarChar R hR (by decide))
    simp only [List.cons_append, lexOne, hc, ↓reduceIte, hs.1, hs.2]
    cases n with
    | nil => exact absurd rfl hn
    | cons a b => simp

theorem iriLex_shape (l : Lexeme) (h : isIriLex l = true) :
    ∃ b, l = '<' :: (b ++ ['>']) ∧ b.all isIriChar = true := by
  cases l with
  | nil => simp [isIriLex] at h
  | cons c r =>
    by_cases hc : c = '<'
    · subst hc
      simp only [isIriLex] at h
      cases hr : r.reverse with
      | nil => rw [hr] at h; simp at h
      | cons x b' =>
        rw [hr] at h
        by_cases hx : x = '>'
        · subst hx
          refine ⟨b'.reverse, ?_, by simpa using h⟩
          have : r = (r.reverse).reverse := by simp
          rw [this, hr]; simp
        · simp [hx] at h
    · simp [isIriLex] at h
      split at h <;> simp_all

theorem litLex_shape (l : Lexeme) (h : isLitLex l = true) :
    ∃ b, l = '"' :: (b ++ ['"']) ∧ b.all isLitChar = true := by
  cases l with
  | nil => simp [isLitLex] at h
  | cons c r =>
    by_cases hc : c = '"'
    · subst hc
      simp only [isLitLex] at h
      cases hr : r.reverse with
      | nil => rw [hr] at h; simp at h
      | cons x b' =>
        rw [hr] at h
        by_cases hx : x = '"'
        · subst hx
          refine ⟨b'.reverse, ?_, by simpa using h⟩
          have : r = (r.reverse).reverse := by simp
          rw [this, hr]; simp
        · simp [hx] at h
    · simp [isLitLex] at h
      split at h <;> simp_all

theorem lexOne_iri (l : Lexeme) (R : List Char) (h : isIriLex l = true) : lexOne (l ++ R) = some (.term l, R) := by
  obtain ⟨b, rfl, hb⟩ := iriLex_shape l h
  have := iriBody_ok b R hb
  simp only [List.cons_append, List.append_assoc, List.singleton_append, lexOne]
  simp [this]

theorem lexOne_lit (l : Lexeme) (R : List Char) (h : isLitLex l = true) : lexOne (l ++ R) = some (.term l, R) := by
  obtain ⟨b, rfl, hb⟩ := litLex_shape l h
  have := litBody_ok b R hb
  simp only [List.cons_append, List.append_assoc, List.singleton_append, lexOne]
  simp [this]

theorem lexOne_num (l : Lexeme) (R : List Char) (h : numLike l = true) (hR : sepStart R = true) :
    lexOne (l ++ R) = some (.term l, R) := by
  cases l with
  | nil => simp [numLike] at h
  | cons c cs =>
    simp only [numLike, Bool.and_eq_true, Bool.not_eq_true'] at h
    obtain ⟨⟨hd, hsp⟩, hall⟩ := h
    simp only [special, Bool.or_eq_false_iff] at hsp
    obtain ⟨⟨⟨h1, h2⟩, h3⟩, h4⟩ := hsp
    have hs := takeWhile_stop Char.isDigit cs R hall (sepStart_stop Char.isDigit R hR (by decide))
    simp [lexOne, h1, h2, h3, h4, hd, hs.1, hs.2]

theorem lexOne_word (w : List Char) (R : List Char) (h : wordLike w = true) (hR : sepStart R = true) :
    lexOne (w ++ R) = some (if keywords.contains (upper w) then .kw (upper w) else .term w, R) := by
  cases w with
  | nil => simp [wordLike] at h
  | cons c cs =>
    simp only [wordLike, Bool.and_eq_true, Bool.not_eq_true'] at h
    obtain ⟨⟨⟨ha, hsp⟩, hd⟩, hall⟩ := h
    simp only [special, Bool.or_eq_false_iff] at hsp
    obtain ⟨⟨⟨h1, h2⟩, h3⟩, h4⟩ := hsp
    have hs := takeWhile_stop isWordChar cs R hall (sepStart_stop isWordChar R hR (by decide))
    simp only [List.cons_append, lexOne, h1, h2, h3, h4, hd, ha, Bool.or_self, Bool.false_eq_true, ↓reduceIte, hs.1, hs.2]
    split <;> rfl

end Kolibrie.Syntax

namespace Kolibrie.Syntax

theorem lexOne_sym_0 (R : List Char) (hR : sepStart R = true) :
    lexOne (['{'] ++ R) = some (.sym "{", R) := by
  cases R with
  | nil => simp [lexOne, iriBody]
  | cons w r =>
    rcases isWs_cases (by simpa [sepStart] using hR) with h | h | h | h <;> subst h <;>
      simp [lexOne, iriBody, isIriChar]

theorem lexOne_sym_1 (R : List Char) (hR : sepStart R = true) :
    lexOne (['}'] ++ R) = some (.sym "}", R) := by
  cases R with
  | nil => simp [lexOne, iriBody]
  | cons w r =>
    rcases isWs_cases (by simpa [sepStart] using hR) with h | h | h | h <;> subst h <;>
      simp [lexOne, iriBody, isIriChar]

theorem lexOne_sym_2 (R : List Char) (hR : sepStart R = true) :
    lexOne (['('] ++ R) = some (.sym "(", R) := by
  cases R with
  | nil => simp [lexOne, iriBody]
  | cons w r =>
    rcases isWs_cases (by simpa [sepStart] using hR) with h | h | h | h <;> subst h <;>
      simp [lexOne, iriBody, isIriChar]

theorem lexOne_sym_3 (R : List Char) (hR : sepStart R = true) :
    lexOne ([')'] ++ R) = some (.sym ")", R) := by
  cases R with
  | nil => simp [lexOne, iriBody]
  | cons w r =>
    rcases isWs_cases (by simpa [sepStart] using hR) with h | h | h | h <;> subst h <;>
      simp [lexOne, iriBody, isIriChar]

theorem lexOne_sym_4 (R : List Char) (hR : sepStart R = true) :
    lexOne (['.'] ++ R) = some (.sym ".", R) := by
  cases R with
  | nil => simp [lexOne, iriBody]
  | cons w r =>
    rcases isWs_cases (by simpa [sepStart] using hR) with h | h | h | h <;> subst h <;>
      simp [lexOne, iriBody, isIriChar]

theorem lexOne_sym_5 (R : List Char) (hR : sepStart R = true) :
    lexOne ([';'] ++ R) = some (.sym ";", R) := by
  cases R with
  | nil => simp [lexOne, iriBody]
  | cons w r =>
    rcases isWs_cases (by simpa [sepStart] using hR) with h | h | h | h <;> subst h <;>
      simp [lexOne, iriBody, isIriChar]

theorem lexOne_sym_6 (R : List Char) (hR : sepStart R = true) :
    lexOne ([','] ++ R) = some (.sym ",", R) := by
  cases R with
  | nil => simp [lexOne, iriBody]
  | cons w r =>
    rcases isWs_cases (by simpa [sepStart] using hR) with h | h | h | h <;> subst h <;>
      simp [lexOne, iriBody, isIriChar]

theorem lexOne_sym_7 (R : List Char) (hR : sepStart R = true) :
    lexOne (['*'] ++ R) = some (.sym "*", R) := by
  cases R with
  | nil => simp [lexOne, iriBody]
  | cons w r =>
    rcases isWs_cases (by simpa [sepStart] using hR) with h | h | h | h <;> subst h <;>
      simp [lexOne, iriBody, isIriChar]

theorem lexOne_sym_8 (R : List Char) (hR : sepStart R = true) :
    lexOne (['&', '&'] ++ R) = some (.sym "&&", R) := by
  cases R with
  | nil => simp [lexOne, iriBody]
  | cons w r =>
    rcases isWs_cases (by simpa [sepStart] using hR) with h | h | h | h <;> subst h <;>
      simp [lexOne, iriBody, isIriChar]

theorem lexOne_sym_9 (R : List Char) (hR : sepStart R = true) :
    lexOne (['|', '|'] ++ R) = some (.sym "||", R) := by
  cases R with
  | nil => simp [lexOne, iriBody]
  | cons w r =>
    rcases isWs_cases (by simpa [sepStart] using hR) with h | h | h | h <;> subst h <;>
      simp [lexOne, iriBody, isIriChar]

theorem lexOne_sym_10 (R : List Char) (hR : sepStart R = true) :
    lexOne (['!'] ++ R) = some (.sym "!", R) := by
  cases R with
  | nil => simp [lexOne, iriBody]
  | cons w r =>
    rcases isWs_cases (by simpa [sepStart] using hR) with h | h | h | h <;> subst h <;>
      simp [lexOne, iriBody, isIriChar]

theorem lexOne_sym_11 (R : List Char) (hR : sepStart R = true) :
    lexOne (['='] ++ R) = some (.sym "=", R) := by
  cases R with
  | nil => simp [lexOne, iriBody]
  | cons w r =>
    rcases isWs_cases (by simpa [sepStart] using hR) with h | h | h | h <;> subst h <;>
      simp [lexOne, iriBody, isIriChar]

theorem lexOne_sym_12 (R : List Char) (hR : sepStart R = true) :
    lexOne (['!', '='] ++ R) = some (.sym "!=", R) := by
  cases R with
  | nil => simp [lexOne, iriBody]
  | cons w r =>
    rcases isWs_cases (by simpa [sepStart] using hR) with h | h | h | h <;> subst h <;>
      simp [lexOne, iriBody, isIriChar]

theorem lexOne_sym_13 (R : List Char) (hR : sepStart R = true) :
    lexOne (['<'] ++ R) = some (.sym "<", R) := by
  cases R with
  | nil => simp [lexOne, iriBody]
  | cons w r =>
    rcases isWs_cases (by simpa [sepStart] using hR) with h | h | h | h <;> subst h <;>
      simp [lexOne, iriBody, isIriChar]

theorem lexOne_sym_14 (R : List Char) (hR : sepStart R = true) :
    lexOne (['>'] ++ R) = some (.sym ">", R) := by
  cases R with
  | nil => simp [lexOne, iriBody]
  | cons w r =>
    rcases isWs_cases (by simpa [sepStart] using hR) with h | h | h | h <;> subst h <;>
      simp [lexOne, iriBody, isIriChar]

theorem lexOne_sym_15 (R : List Char) (hR : sepStart R = true) :
    lexOne (['<', '='] ++ R) = some (.sym "<=", R) := by
  cases R with
  | nil => simp [lexOne, iriBody]
  | cons w r =>
    rcases isWs_cases (by simpa [sepStart] using hR) with h | h | h | h <;> subst h <;>
      simp [lexOne, iriBody, isIriChar]

theorem lexOne_sym_16 (R : List Char) (hR : sepStart R = true) :
    lexOne (['>', '='] ++ R) = some (.sym ">=", R) := by
  cases R with
  | nil => simp [lexOne, iriBody]
  | cons w r =>
    rcases isWs_cases (by simpa [sepStart] using hR) with h | h | h | h <;> subst h <;>
      simp [lexOne, iriBody, isIriChar]

theorem lexOne_sym (s : String) (R : List Char) (hs : symbols.contains s = true) (hR : sepStart R = true) :
    lexOne (s.toList ++ R) = some (.sym s, R) := by
  simp only [symbols, List.contains_eq_mem, List.mem_cons, List.not_mem_nil, or_false, decide_eq_true_eq] at hs
  rcases hs with rfl | rfl | rfl | rfl | rfl | rfl | rfl | rfl | rfl | rfl | rfl | rfl | rfl | rfl | rfl | rfl | rfl
  · exact lexOne_sym_0 R hR
  · exact lexOne_sym_1 R hR
  · exact lexOne_sym_2 R hR
  · exact lexOne_sym_3 R hR
  · exact lexOne_sym_4 R hR
  · exact lexOne_sym_5 R hR
  · exact lexOne_sym_6 R hR
  · exact lexOne_sym_7 R hR
  · exact lexOne_sym_8 R hR
  · exact lexOne_sym_9 R hR
  · exact lexOne_sym_10 R hR
  · exact lexOne_sym_11 R hR
  · exact lexOne_sym_12 R hR
  · exact lexOne_sym_13 R hR
  · exact lexOne_sym_14 R hR
  · exact lexOne_sym_15 R hR
  · exact lexOne_sym_16 R hR

end Kolibrie.Syntax

namespace Kolibrie.Syntax

theorem kw_facts : ∀ k ∈ keywords, ∀ m, m < 3 → wordLike (kwText m k) = true ∧ upper (kwText m k) = k := by
  decide

theorem kwText_mod (v : Nat) (k : String) : kwText v k = kwText (v % 3) k := by
  simp [kwText, Nat.mod_mod]

theorem lexOne_kw (k : String) (v : Nat) (R : List Char) (hk : keywords.contains k = true) (hR : sepStart R = true) :
    lexOne (kwText v k ++ R) = some (.kw k, R) := by
  have hmem : k ∈ keywords := by simpa using hk
  obtain ⟨hw, hu⟩ := kw_facts k hmem (v % 3) (Nat.mod_lt _ (by decide))
  rw [kwText_mod]
  rw [lexOne_word _ R hw hR, hu]
  simp [hmem]

/-- one well-formed token followed by the end of input or whitespace lexes back to itself -/
theorem lexOne_tok (t : Tok) (v : Nat) (R : List Char) (ht : wfTok t = true) (hR : sepStart R = true) :
    lexOne (tokText v t ++ R) = some (t, R) := by
  cases t with
  | kw k => exact lexOne_kw k v R (by simpa [wfTok] using ht) hR
  | sym s => exact lexOne_sym s R (by simpa [wfTok] using ht) hR
  | term l =>
    simp only [wfTok, wfTerm, Bool.or_eq_true, Bool.and_eq_true, Bool.not_eq_true'] at ht
    simp only [tokText]
    rcases ht with (((h | h) | h) | h) | h
    · exact lexOne_var l R h hR
    · exact lexOne_iri l R h
    · exact lexOne_lit l R h
    · exact lexOne_num l R h hR
    · have hn : upper l ∉ keywords := by simpa using h.2
      rw [lexOne_word l R h.1 hR]; simp [hn]

end Kolibrie.Syntax

namespace Kolibrie.Syntax

def wsPiece : Piece → Bool
  | .comment _ => false
  | _ => true

/-- a separator: not empty, starts with a whitespace character, comments are closed by their newline -/
def sepOk : List Piece → Bool
  | p :: rest => wsPiece p && rest.all Piece.ok
  | [] => false

/-- separator-complete layout: something separates any two tokens (before the first token anything or nothing) -/
def LayoutOk (l : Layout) : Prop :=
  (l.sep 0 = [] ∨ sepOk (l.sep 0) = true) ∧ ∀ i, 0 < i → sepOk (l.sep i) = true

theorem sepOk_all {ps : List Piece} (h : ps = [] ∨ sepOk ps = true) : ps.all Piece.ok = true := by
  rcases h with h | h
  · subst h; rfl
  · cases ps with
    | nil => rfl
    | cons p r =>
      simp only [sepOk, Bool.and_eq_true] at h
      cases p <;> simp_all [wsPiece, Piece.ok]

theorem lex_skip : ∀ (ps : List Piece), ps.all Piece.ok = true → ∀ (F : Nat) (X : List Char),
    (renderSep ps ++ X).length < F → ∃ F', X.length < F' ∧ lex F (renderSep ps ++ X) = lex F' X
  | [], _, F, X, h => ⟨F, by simpa [renderSep] using h, by simp [renderSep]⟩
  | p :: ps, hall, F, X, h => by
    simp only [List.all_cons, Bool.and_eq_true] at hall
    have hrs : renderSep (p :: ps) ++ X = p.render ++ (renderSep ps ++ X) := by simp [renderSep]
    rw [hrs] at h ⊢
    obtain ⟨f, rfl⟩ : ∃ f, F = f + 1 := ⟨F - 1, by omega⟩
    cases p with
    | sp =>
      simp only [Piece.render, List.cons_append, List.nil_append, List.length_cons] at h ⊢
      obtain ⟨F', h1, h2⟩ := lex_skip ps hall.2 f X (by omega)
      exact ⟨F', h1, by simp [lex, isWs, h2]⟩
    | nl =>
      simp only [Piece.render, List.cons_append, List.nil_append, List.length_cons] at h ⊢
      obtain ⟨F', h1, h2⟩ := lex_skip ps hall.2 f X (by omega)
      exact ⟨F', h1, by simp [lex, isWs, h2]⟩
    | tab =>
      simp only [Piece.render, List.cons_append, List.nil_append, List.length_cons] at h ⊢
      obtain ⟨F', h1, h2⟩ := lex_skip ps hall.2 f X (by omega)
      exact ⟨F', h1, by simp [lex, isWs, h2]⟩
    | cr =>
      simp only [Piece.render, List.cons_append, List.nil_append, List.length_cons] at h ⊢
      obtain ⟨F', h1, h2⟩ := lex_skip ps hall.2 f X (by omega)
      exact ⟨F', h1, by simp [lex, isWs, h2]⟩
    | comment t =>
      have ht : t.all (fun c => !(c == '\n' || c == '\r')) = true := by simpa [Piece.ok] using hall.1
      simp only [Piece.render, List.cons_append, List.append_assoc, List.singleton_append, List.length_cons,
        List.length_append] at h ⊢
      obtain ⟨g, rfl⟩ : ∃ g, f = g + 1 := ⟨f - 1, by omega⟩
      obtain ⟨F', h1, h2⟩ := lex_skip ps hall.2 g X (by simp only [List.length_append] at h ⊢; omega)
      refine ⟨F', h1, ?_⟩
      have hsk := skipComment_text t (renderSep ps ++ X) ht
      simp [lex, isWs, hsk, h2]

theorem lexOne_ws_none (c : Char) (r : List Char) (h : isWs c = true) : lexOne (c :: r) = none := by
  rcases isWs_cases h with h | h | h | h <;> subst h <;> simp [lexOne]

theorem lexOne_hash_none (r : List Char) : lexOne ('#' :: r) = none := by
  simp [lexOne]

/-- a well-formed token's text is not empty and does not start with whitespace or `#` -/
theorem tok_head (t : Tok) (v : Nat) (ht : wfTok t = true) :
    ∃ c cs, tokText v t = c :: cs ∧ isWs c = false ∧ (c == '#') = false := by
  have h := lexOne_tok t v [] ht rfl
  simp only [List.append_nil] at h
  cases hx : tokText v t with
  | nil => rw [hx] at h; simp [lexOne] at h
  | cons c cs =>
    rw [hx] at h
    refine ⟨c, cs, rfl, ?_, ?_⟩
    · cases hw : isWs c with
      | false => rfl
      | true => rw [lexOne_ws_none c cs hw] at h; cases h
    · cases hh : (c == '#') with
      | false => rfl
      | true =>
        have : c = '#' := by simpa using hh
        subst this; rw [lexOne_hash_none] at h; cases h

theorem render_sepStart (l : Layout) (i : Nat) (ts : List Tok) (h : ∀ j, i < j → sepOk (l.sep j) = true) :
    sepStart (render l (i + 1) ts) = true := by
  cases ts with
  | nil => rfl
  | cons t ts' =>
    have hs := h (i + 1) (by omega)
    cases hp : l.sep (i + 1) with
    | nil => rw [hp] at hs; simp [sepOk] at hs
    | cons p r =>
      rw [hp] at hs
      simp only [sepOk, Bool.and_eq_true] at hs
      cases p <;> simp_all [render, renderSep, Piece.render, sepStart, isWs, wsPiece]

theorem lex_render (l : Layout) : ∀ (ts : List Tok) (i F : Nat), (∀ t ∈ ts, wfTok t = true) →
    (l.sep i = [] ∨ sepOk (l.sep i) = true) → (∀ j, i < j → sepOk (l.sep j) = true) →
    (render l i ts).length < F → lex F (render l i ts) = some ts
  | [], i, F, _, _, _, hF => by
    obtain ⟨f, rfl⟩ : ∃ f, F = f + 1 := ⟨F - 1, by omega⟩
    simp [render, lex]
  | t :: ts, i, F, hwf, h0, hs, hF => by
    simp only [render] at hF ⊢
    have hR := render_sepStart l i ts hs
    obtain ⟨F', h1, h2⟩ := lex_skip (l.sep i) (sepOk_all h0) F (tokText (l.kwCase i) t ++ render l (i + 1) ts)
      (by simpa [List.append_assoc] using hF)
    rw [List.append_assoc, h2]
    have ht := hwf t (by simp)
    obtain ⟨c, cs, hc, hws, hh⟩ := tok_head t (l.kwCase i) ht
    have hone := lexOne_tok t (l.kwCase i) (render l (i + 1) ts) ht hR
    obtain ⟨f, rfl⟩ : ∃ f, F' = f + 1 := ⟨F' - 1, by omega⟩
    have hlen : (render l (i + 1) ts).length < f := by
      rw [hc] at h1; simp only [List.cons_append, List.length_cons, List.length_append] at h1; omega
    have ih := lex_render l ts (i + 1) f (fun t' ht' => hwf t' (by simp [ht'])) (Or.inr (hs (i + 1) (by omega)))
      (fun j hj => hs j (by omega)) hlen
    rw [hc] at hone ⊢
    simp only [List.cons_append] at hone ⊢
    simp [lex, hws, hh, hone, ih]

/-- **the lexer inverts the renderer**, for every separator-complete layout -/
theorem tokens_render (l : Layout) (ts : List Tok) (hwf : ∀ t ∈ ts, wfTok t = true) (hl : LayoutOk l) :
    tokens (render l 0 ts) = some ts :=
  lex_render l ts 0 _ hwf hl.1 (fun j hj => hl.2 j hj) (by omega)

end Kolibrie.Syntax
