import Kolibrie.Core.Proto
import Kolibrie.Model.Store
import Kolibrie.Spec.QuadSet
/-
Driver for C04.  Request: `store <nterms> <ngraphs> <op> <op> …`
ops:  i:s,p,o,g  d:s,p,o,g  c:g  x:g (clear)  r:g (drop)  A (clear all)  R (rebuild)
observers: Q:g,s,p,o  (query_graph; `_` = unbound)   N:s,p,o[:v1.v2…] (query_named_graphs, visible set)
           U:s,p,o (query_quads over all graphs)      M:g1.g2…:s,p,o (query_merged_graphs)
           T:s,p,o (graphs_for_triple)  G (graphs)  L:g (len_graph)  K:s,p,o,g (contains)  Z (all_quads)
           O (full observation over the declared universe, FNV hash)
Reply: `M <tok…> | S <tok…>` — model and specification outputs, one token per op.
-/
namespace Kolibrie.Driver.C04
open Kolibrie.Proto Kolibrie.Store

def keyword : String := "store"

def quadKey (q : Quad) : List Nat := [q.s, q.p, q.o, q.g]
def showQuads (l : List Quad) : String :=
  let ks := sortBy natListLe (l.map quadKey)
  "[" ++ joinWith ";" (ks.map (fun k => joinWith "." (k.map toString))) ++ "]"
def showNats (l : List Nat) : String :=
  "[" ++ joinWith "." ((l.mergeSort (· ≤ ·)).map toString) ++ "]"

/-- read-only view: everything an observer can ask, as functions -/
structure View where
  queryGraph : Nat → Option Nat → Option Nat → Option Nat → List Quad
  queryNamed : Option Nat → Option Nat → Option Nat → Option (List Nat) → List Quad
  queryQuadsAll : Option Nat → Option Nat → Option Nat → List Quad
  queryMerged : List Nat → Option Nat → Option Nat → Option Nat → List Quad
  graphsFor : Nat → Nat → Nat → List Nat
  graphs : List Nat
  lenGraph : Nat → Nat
  contains : Quad → Bool
  allQuads : List Quad

def modelView (st : Store) : View :=
  { queryGraph := queryGraph st, queryNamed := queryNamed st,
    queryQuadsAll := fun s p o => queryQuads st s p o none,
    queryMerged := queryMerged st, graphsFor := graphsForTriple st, graphs := graphs st,
    lenGraph := lenGraph st, contains := contains st, allQuads := allQuads st }

/-- the same observers answered from the abstract quad set only -/
def specView (a : Abs) : View :=
  let sel (g : Nat) (s p o : Option Nat) := a.quads.filter (fun q => q.g == g && matchQ s p o q)
  { queryGraph := sel,
    queryNamed := fun s p o vis => a.quads.filter (fun q => q.g != 0 && matchQ s p o q &&
        (match vis with | none => true | some v => decide (q.g ∈ v))),
    queryQuadsAll := fun s p o => a.quads.filter (matchQ s p o),
    queryMerged := fun srcs s p o =>
      ((a.quads.filter (fun q => decide (q.g ∈ srcs) && matchQ s p o q)).map
        (fun q => { q with g := 0 })).foldl insL [],
    graphsFor := fun s p o => (a.quads.filter (fun q => q.s == s && q.p == p && q.o == o)).map (·.g),
    graphs := 0 :: a.graphs,
    lenGraph := fun g => (sel g none none none).length,
    contains := fun q => decide (q ∈ a.quads),
    allQuads := a.quads }

def optChoices (n : Nat) : List (Option Nat) := none :: (List.range n).map some

/-- the full observation vector over terms `0..nt-1` and graphs `0..ng` (graph `ng` never used by generators
    beyond what they choose; graph `ng+1` is always absent) -/
def fullObs (v : View) (nt ng : Nat) : String :=
  let pats := (optChoices nt).flatMap fun s => (optChoices nt).flatMap fun p => (optChoices nt).map fun o => (s, p, o)
  let gs := List.range (ng + 2)
  let a := pats.flatMap fun (s, p, o) => gs.map fun g => showQuads (v.queryGraph g s p o)
  let b := pats.flatMap fun (s, p, o) =>
    [showQuads (v.queryNamed s p o none), showQuads (v.queryNamed s p o (some [1])),
     showQuads (v.queryNamed s p o (some [2, ng + 1])), showQuads (v.queryQuadsAll s p o),
     showQuads (v.queryMerged [0, 1] s p o), showQuads (v.queryMerged [1, 2, 1] s p o),
     showQuads (v.queryMerged [] s p o)]
  let ts := (List.range nt).flatMap fun s => (List.range nt).flatMap fun p => (List.range nt).map fun o => (s, p, o)
  let c := ts.map fun (s, p, o) => showNats (v.graphsFor s p o)
  let d := ts.flatMap fun (s, p, o) => gs.map fun g => toString (v.contains ⟨s, p, o, g⟩)
  let e := gs.map fun g => toString (v.lenGraph g)
  joinWith "|" (a ++ b ++ c ++ d ++ e ++ [showNats v.graphs, showQuads v.allQuads])

def parseQuad (s : String) : Option Quad :=
  match natList s with
  | some [a, b, c, d] => some ⟨a, b, c, d⟩
  | _ => none

def parsePat (s : String) : Option (Option Nat × Option Nat × Option Nat) :=
  match splitOnChar s ',' with
  | [a, b, c] => do let x ← optNat a; let y ← optNat b; let z ← optNat c; pure (x, y, z)
  | _ => none

inductive Tok
  | mut (op : Op)
  | obs (f : View → String)

def parseTok (nt ng : Nat) (t : String) : Option Tok :=
  match splitOnChar t ':' with
  | ["i", q] => (parseQuad q).map (fun q => .mut (.ins q))
  | ["d", q] => (parseQuad q).map (fun q => .mut (.del q))
  | ["c", g] => g.toNat?.map (fun g => .mut (.create g))
  | ["x", g] => g.toNat?.map (fun g => .mut (.clear g))
  | ["r", g] => g.toNat?.map (fun g => .mut (.drop g))
  | ["A"] => some (.mut .clearAll)
  | ["R"] => some (.mut .rebuild)
  | ["Q", a] => match splitOnChar a ',' with
      | [g, s, p, o] => do
          let g ← g.toNat?; let s ← optNat s; let p ← optNat p; let o ← optNat o
          pure (.obs fun v => showQuads (v.queryGraph g s p o))
      | _ => none
  | ["N", a] => (parsePat a).map fun (s, p, o) => .obs fun v => showQuads (v.queryNamed s p o none)
  | ["N", a, vis] => do
      let (s, p, o) ← parsePat a; let vs ← natList vis '.'
      pure (.obs fun v => showQuads (v.queryNamed s p o (some vs)))
  | ["U", a] => (parsePat a).map fun (s, p, o) => .obs fun v => showQuads (v.queryQuadsAll s p o)
  | ["M", gs, a] => do
      let gs ← natList gs '.'; let (s, p, o) ← parsePat a
      pure (.obs fun v => showQuads (v.queryMerged gs s p o))
  | ["B", a] =>
      -- QueryBuilder with exact constants over the default graph; `u` = a constant the dictionary has never seen
      match splitOnChar a ',' with
      | [s, p, o] =>
        if s == "u" || p == "u" || o == "u" then some (.obs fun _ => showQuads [])
        else do
          let s ← optNat s; let p ← optNat p; let o ← optNat o
          pure (.obs fun v => showQuads (v.queryMerged [0] s p o))
      | _ => none
  | ["T", a] => match natList a with
      | some [s, p, o] => some (.obs fun v => showNats (v.graphsFor s p o))
      | _ => none
  | ["G"] => some (.obs fun v => showNats v.graphs)
  | ["L", g] => g.toNat?.map fun g => .obs fun v => toString (v.lenGraph g)
  | ["K", q] => (parseQuad q).map fun q => .obs fun v => toString (v.contains q)
  | ["Z"] => some (.obs fun v => showQuads v.allQuads)
  | ["O"] => some (.obs fun v => toString (fnv (fullObs v nt ng)))
  | ["OV"] => some (.obs fun v => fullObs v nt ng)
  | _ => none

def b2s (b : Bool) : String := if b then "t" else "f"

def runToks : List Tok → Store → Abs → List String → List String → List String × List String
  | [], _, _, mo, so => (mo.reverse, so.reverse)
  | .mut op :: rest, st, a, mo, so =>
      let (st', r) := step st op
      let (a', r') := specStep a op
      runToks rest st' a' (b2s r :: mo) (b2s r' :: so)
  | .obs f :: rest, st, a, mo, so =>
      runToks rest st a (f (modelView st) :: mo) (f (specView a) :: so)

def handle (args : List String) : String :=
  match args with
  | nt :: ng :: ops =>
    match nt.toNat?, ng.toNat?, ops.mapM (fun t => (nt.toNat?.bind fun a => ng.toNat?.bind fun b => parseTok a b t)) with
    | some _, some _, some toks =>
        let (mo, so) := runToks toks init absInit [] []
        "M " ++ joinWith " " mo ++ " | S " ++ joinWith " " so
    | _, _, _ => "bad-request"
  | _ => "bad-request"

end Kolibrie.Driver.C04
