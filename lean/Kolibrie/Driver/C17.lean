import Kolibrie.Core.Proto
import Kolibrie.Model.Dispatch
import Kolibrie.Spec.Dispatch
/-
Driver for C17.  Request (after the keyword `entry`):
  <E> <state> <ik> <pkS> <pkA> <elenS> <elenA> <hex text>
  E      q | hq | u | hu                       (see harness/src/props/c17.rs)
  state  0 empty | 1 populated | 2 = 1 + registered neural relation ex:isFraud | 3 = 2 + trained
  ik     generator's intent: sel | upd | alias | ext | bad | unk
  pkS/pkA   parser oracle (strict / alias-enabled): sel | upd | ext | err | panic | _
  elenS/elenA  parser oracle: byte length of the error's remaining input, `_` if none
Reply: `M <outcome> ds=<same|changed|*> [lc=L:C] | S … | H <violated hypotheses>`
-/
namespace Kolibrie.Driver.C17
open Kolibrie.Proto Kolibrie.Dispatch Kolibrie.Utf8

def keyword : String := "entry"

def parseEntry : String → Option Entry
  | "q" => some .query | "hq" => some .httpQuery | "u" => some .update | "hu" => some .httpUpdate | _ => none

def parsePk : String → Option Parsed
  | "sel" => some .select | "upd" => some .update | "ext" => some .ext | "err" => some .err
  | "panic" => some .err   -- a parser panic is judged as "should have been a parse error"
  | _ => none

def parseIntent : String → Option (Option Intent)
  | "sel" => some (some .sel) | "upd" => some (some .upd) | "alias" => some (some .alias)
  | "ext" => some (some .ext) | "bad" => some (some .bad) | "unk" => some none | _ => none

def showOutcome : Outcome → String
  | .parseError => "parse-error" | .refused => "refused" | .notUpdate => "not-update" | .select => "select"
  | .update => "update" | .updateAlias => "update-alias" | .extOk => "ext-ok" | .extError => "ext-error"
  | .failed => "failed"

def stateDb : Nat → Db
  | 0 => ⟨⟨[], []⟩, [], [], []⟩
  | 1 => ⟨⟨[(1, 2, 3, 0), (1, 2, 4, 1), (5, 2, 4, 2)], [1, 2, 3]⟩, [], [], []⟩
  | 2 => ⟨⟨[(1, 2, 3, 0), (1, 2, 4, 1), (5, 2, 4, 2)], [1, 2, 3]⟩, [("ex", "http://example.org/")], ["isFraud"], []⟩
  | _ => ⟨⟨[(1, 2, 3, 0), (1, 2, 4, 1), (5, 2, 4, 2)], [1, 2, 3]⟩, [("ex", "http://example.org/")], ["isFraud"], ["isFraud"]⟩

/-- concrete stand-ins for the un-modelled components: materialisation and updates write a marker quad -/
def engine : Engine :=
  { evalOk := fun _ => true,
    materialize := fun ds _ => { ds with quads := (900, 901, 902, 0) :: ds.quads },
    applyUpdate := fun ds => some ds,
    trainOk := fun _ => true }

def isPrefixB : List UInt8 → List UInt8 → Bool
  | [], _ => true
  | _ :: _, [] => false
  | a :: as, b :: bs => a == b && isPrefixB as bs

def containsB (needle : List UInt8) : List UInt8 → Bool
  | [] => needle.isEmpty
  | b :: bs => isPrefixB needle (b :: bs) || containsB needle bs

def textBytes (h : String) : Option (List UInt8) :=
  if h == "-" then some [] else hexBytes h.toList

def lcSuffix (o : Outcome) (bytes : List UInt8) (elen : String) : String :=
  if o == .parseError then
    match elen.toNat? with
    | some 0 => ""
    | some n => let lc := lineCol bytes (errorSpan bytes n).1; " lc=" ++ toString lc.1 ++ ":" ++ toString lc.2
    | none => ""
  else ""

def handle (args : List String) : String :=
  match args with
  | [e, st, ik, pkS, pkA, elS, elA, hx] =>
    match parseEntry e, st.toNat?, parseIntent ik, textBytes hx with
    | some entry, some state, some intent, some bytes =>
      let fromIntent : Option (Parsed × Parsed) := intent.map parsedOf
      let strict? := (parsePk pkS).orElse (fun _ => fromIntent.map (·.1))
      let alias? := (parsePk pkA).orElse (fun _ => fromIntent.map (·.2))
      match strict?, alias? with
      | some strict, some alias =>
        let hit := containsB "isFraud".toUTF8.toList bytes
        let req : Req := ⟨strict, alias, [], [], [], if hit then ["isFraud"] else []⟩
        let db := stateDb state
        let (db', o) := runEntry engine entry db req
        let ds := if o == .update || o == .updateAlias then "*" else if db'.data == db.data then "same" else "changed"
        let elen := if entry == .httpUpdate then "_" else if entry == .update then elS else elS
        let _ := elA
        let m := showOutcome o ++ " ds=" ++ ds ++ lcSuffix o bytes elen
        let so := match intent with
          | some i => specOutcome entry i
          | none => dispatch entry strict alias
        let s := showOutcome so ++ " ds=" ++ (if mayChange so then "*" else "same") ++ lcSuffix so bytes elen
        let isQ := entry == .query || entry == .httpQuery
        let h := if isQ && strict == .select && hit && state == 3 then " | H neural_relation_materialized" else ""
        "M " ++ m ++ " | S " ++ s ++ h
      | _, _ => "bad-request"
    | _, _, _, _ => "bad-request"
  | _ => "bad-request"

end Kolibrie.Driver.C17
