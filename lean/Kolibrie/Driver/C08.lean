import Kolibrie.Core.Proto
import Kolibrie.Model.Hybrid
import Kolibrie.Spec.Worlds
/-
Driver for C08.  Request (tokens after the keyword `hyb`):

  <mode> S<seed>,<seed>…  O<op>,<op>…  R<ref>  <params>

  mode   `ctl`  : `evaluate_hybrid_with_clock` under every injected clock of two families (see below)
         `topk` : `evaluate_topk` at a fixed k (system clock, generous budget)
  seed   `<id>:<num>:<den>:<i|group number>`            (`S-` = no seeds)
  op     `l<seed id>` | `n<ref>` | `a<ref>.<ref>…` | `o<ref>.<ref>…`   — calls of `LineageStore::{literal,not,and,or}`
         in order; a `ref` is `F`, `T` or the index of an earlier op (its returned `LineageId`)   (`O-` = none)
  params `C<tn>:<en>:<fn>:<cd>:<k_initial>:<k_max>:<k_growth>:<topk_budget µs>:<sdd_budget µs>:<node budget>`  (ctl)
         `K<k>:<node budget>`                                                                                  (topk)

Clock families (ctl).  With `D = topk_budget + sdd_budget` and `j` ranging over every reading index of the
unexpired run, and one run that never expires:
  J(j): readings before the j-th return t0, all later ones t0 + D      (top-k deadline dies, a later SDD deadline survives)
  R(j): readings before the j-th return t0, the (j+n)-th returns t0 + (n+1)·D   (every later deadline dies at once)

Reply: `M T <total> ; <root>:<nodes>:<arena hash>:<mono><neg><excl> ; J <tok>… ; R <tok>… | S spec <mass>/<total> thr <tn>/<cd> | H …`
A token is `<n>*<kind><result>`: `kind` `=` — exactly `n` consecutive readings give `result`; `+` — a stretch of
readings inside an SDD invocation whose checkpoint count the model does not know (at least `n`).
-/
namespace Kolibrie.Driver.C08
open Kolibrie.Proto Kolibrie.Hybrid

def keyword : String := "hyb"

def parseSeed (s : String) : Option Seed :=
  match splitOnChar s ':' with
  | [a, b, c, g] => do
      let id ← a.toNat?; let num ← b.toNat?; let den ← c.toNat?
      let grp ← if g == "i" then some none else g.toNat?.map some
      pure { id, num, den, grp }
  | _ => none

def parseSeeds (s : String) : Option (List Seed) :=
  if s == "-" then some [] else (splitOnChar s ',').mapM parseSeed

inductive Ref | f | t | op (i : Nat)
inductive Op | lit (s : Nat) | not (r : Ref) | and (rs : List Ref) | or (rs : List Ref)

def parseRef (s : String) : Option Ref :=
  if s == "F" then some .f else if s == "T" then some .t else s.toNat?.map .op

def parseRefs (s : String) : Option (List Ref) :=
  if s.isEmpty then some [] else (splitOnChar s '.').mapM parseRef

def parseOp (s : String) : Option Op :=
  match s.toList with
  | 'l' :: r => (String.ofList r).toNat?.map .lit
  | 'n' :: r => (parseRef (String.ofList r)).map .not
  | 'a' :: r => (parseRefs (String.ofList r)).map .and
  | 'o' :: r => (parseRefs (String.ofList r)).map .or
  | _ => none

def parseOps (s : String) : Option (List Op) :=
  if s == "-" then some [] else (splitOnChar s ',').mapM parseOp

/-- state while replaying the construction: the model store, the ids returned so far, and the *naive* trees
    (no flattening, no dedup, no complement detection) the specification is evaluated on -/
structure Build where
  st : Store := Store.new
  ids : List Nat := []
  naive : List L := []
  ok : Bool := true

def Build.ref (b : Build) : Ref → Option (Nat × L)
  | .f => some (0, .fls)
  | .t => some (1, .tru)
  | .op i => do let id ← b.ids[i]?; let t ← b.naive[i]?; pure (id, t)

def Build.step (b : Build) (op : Op) : Build :=
  let push (r : Store × Nat) (t : L) : Build := { st := r.1, ids := b.ids ++ [r.2], naive := b.naive ++ [t], ok := b.ok }
  match op with
  | .lit s => push (b.st.literal s) (.lit s)
  | .not r => match b.ref r with
    | some (id, t) => push (b.st.not id) (.not t)
    | none => { b with ok := false }
  | .and rs => match rs.mapM b.ref with
    | some xs => push (b.st.and (xs.map (·.1))) (.and (xs.map (·.2)))
    | none => { b with ok := false }
  | .or rs => match rs.mapM b.ref with
    | some xs => push (b.st.or (xs.map (·.1))) (.or (xs.map (·.2)))
    | none => { b with ok := false }

def showNode : Node → String
  | .fls => "F" | .tru => "T"
  | .lit s => "l" ++ toString s
  | .and cs => "a" ++ joinWith "." (cs.map toString)
  | .or cs => "o" ++ joinWith "." (cs.map toString)
  | .not c => "n" ++ toString c

def b01 (b : Bool) : String := if b then "1" else "0"

def showMeta (st : Store) (ss : List Seed) (root : Nat) : String :=
  let md := metadata ss (st.tree root)
  toString root ++ ":" ++ toString st.nodes.length ++ ":" ++
    toString (fnv (joinWith "," (st.nodes.map showNode))) ++ ":" ++
    b01 md.monotone ++ b01 md.hasNegation ++ b01 md.hasExclusive

def showDecision : Decision → String
  | .Alert => "Alert" | .NoAlert => "NoAlert" | .Indeterminate => "Indeterminate"

def showReason : Reason → String
  | .TopKExhausted => "top-k-exhausted"
  | .LowerBoundCrossedThreshold => "lower-bound-crossed-threshold"
  | .UpperBoundBelowThreshold => "upper-bound-below-threshold"
  | .ExactSdd => "exact-sdd"
  | .NegationRequiresExact => "negation-requires-exact"
  | .ExclusivityRequiresExact => "exclusivity-requires-exact"
  | .NearThreshold => "near-threshold"
  | .MarginalGain => "marginal-gain"
  | .TopKBudget => "top-k-budget"
  | .SddBudget => "sdd-budget"
  | .SddNodeBudget => "sdd-node-budget"
  | .MissingSeed => "missing-seed"
  | .DiagnosticOnly => "diagnostic-only"

def showOpt : Option Nat → String
  | none => "-"
  | some n => toString n

def showMetrics (m : Metrics) : String :=
  toString m.kUsed ++ "/" ++ b01 m.frontierExhausted ++ b01 m.capHit ++ b01 m.exactUsed ++ "/" ++
    toString m.gain ++ "/" ++ toString m.width

def showResult : Result → String
  | .Exact p d r m => "Exact/" ++ showDecision d ++ "/" ++ showReason r ++ "/" ++ toString p ++ "/" ++ toString p ++ "/" ++ showMetrics m
  | .Bounded lo hi d r m => "Bounded/" ++ showDecision d ++ "/" ++ showReason r ++ "/" ++ toString lo ++ "/" ++ toString hi ++ "/" ++ showMetrics m
  | .NeedsExact lo hi r m => "NeedsExact/Indeterminate/" ++ showReason r ++ "/" ++ showOpt lo ++ "/" ++ showOpt hi ++ "/" ++ showMetrics m
  | .Fuel => "fuel"

/-- what the model assumes about one SDD invocation of the real library (checked by the comparison):
    no checkpoint at all for an empty proof list / a constant root; one checkpoint for the proof list `[∅]`;
    with the minimal node budget 2 the first literal allocation fails after exactly two checkpoints;
    otherwise the invocation stays inside the node budget and makes an unknown positive number of checkpoints -/
def driverOracle : SddOracle := fun job nb =>
  match job with
  | .retained [] => { readings := 0, nodesOk := true }
  | .retained ps =>
    if ps.all (·.isEmpty) then { readings := ps.length, nodesOk := true }
    else if nb ≤ 2 then { readings := 2, nodesOk := false }
    else { readings := 1, nodesOk := true, exact := false }
  | .lineage .fls => { readings := 0, nodesOk := true }
  | .lineage .tru => { readings := 0, nodesOk := true }
  | .lineage _ =>
    if nb ≤ 2 then { readings := 2, nodesOk := false }
    else { readings := 1, nodesOk := true, exact := false }

def fuelAmount : Nat := 200000

def rle : List String → List String
  | [] => []
  | t :: ts =>
    let rec go (cur : String) (n : Nat) : List String → List String
      | [] => [toString n ++ "*" ++ cur]
      | u :: us => if u == cur then go cur (n + 1) us else (toString n ++ "*" ++ cur) :: go u 1 us
    go t 1 ts

def sweep (ss : List Seed) (cfg : Config) (root : L) : String :=
  let never : Nat → Nat := fun _ => 0
  let (r0, c0) := evaluateHybrid ss cfg root never driverOracle fuelAmount
  let d := cfg.b1 + cfg.b2
  let n := c0.i
  let kind (j : Nat) : String := if c0.spans.contains j then "+" else "="
  let fam (clock : Nat → Nat → Nat) : String :=
    let toks := (List.range n).map fun j =>
      kind j ++ showResult (evaluateHybrid ss cfg root (clock j) driverOracle fuelAmount).1
    joinWith " " (rle (toks ++ ["=" ++ showResult r0]))
  let jf := fam fun j i => if i < j then 0 else d
  let rf := fam fun j i => if i < j then 0 else (i - j + 1) * d
  "J " ++ jf ++ " ; R " ++ rf

def showTopk : TopKOut → String
  | .ok lower lo hi k fe cap gain =>
    "ok/" ++ toString lower ++ "/" ++ toString lo ++ "/" ++ toString hi ++ "/" ++ toString k ++ "/" ++ b01 fe ++ b01 cap ++ "/" ++ toString gain
  | .err r => "err/" ++ showReason r
  | .fuel => "fuel"

def hyps (ss : List Seed) : List String :=
  (if decide (unitIds (units ss)).Nodup then [] else ["dup_seed_ids"]) ++
  (if ss.all (fun s => decide (0 < s.den) && (s.grp.isSome || decide (s.num ≤ s.den))) then [] else ["bad_probability"]) ++
  (if ss.all (fun s => match s.grp with
      | none => true
      | some g => s.den == sumNum (ss.filter (fun m => m.grp == some g))) then [] else ["group_not_normalized"])

def handle (args : List String) : String :=
  match args with
  | [mode, s, o, r, p] =>
    match s.toList, o.toList, r.toList with
    | 'S' :: s, 'O' :: o, 'R' :: r =>
      match parseSeeds (String.ofList s), parseOps (String.ofList o), parseRef (String.ofList r) with
      | some ss, some ops, some rref =>
        let b := ops.foldl Build.step {}
        match b.ok, b.ref rref with
        | true, some (rootId, naive) =>
          let root := b.st.tree rootId
          let T := total (units ss)
          let hd := "T " ++ toString T ++ " ; " ++ showMeta b.st ss rootId ++ " ; "
          let h := hyps ss
          let hs := if h.isEmpty then "" else " | H " ++ joinWith "," h
          match mode, p.toList with
          | "ctl", 'C' :: p =>
            match natList (String.ofList p) ':' with
            | some [tn, en, fn, cd, ki, km, kg, b1, b2, nb] =>
              if cd = 0 then "bad-request" else
              let cfg : Config := { tn, en, fn, cd, kInit := ki, kMax := km, kGrowth := kg, b1, b2, nodeBudget := nb }
              let body := sweep ss cfg root
              let m := if (body.splitOn "fuel").length > 1 then "fuel" else hd ++ body
              "M " ++ m ++ " | S spec " ++ toString (specMass ss naive) ++ "/" ++ toString (specTotal ss) ++
                " thr " ++ toString tn ++ "/" ++ toString cd ++ hs
            | _ => "bad-request"
          | "topk", 'K' :: p =>
            match natList (String.ofList p) ':' with
            | some [k, nb] =>
              let out := evaluateTopk ss root k 1000000 nb (fun _ => 0) driverOracle fuelAmount
              let m := if out == .fuel then "fuel" else hd ++ "topk " ++ showTopk out
              "M " ++ m ++ " | S spec " ++ toString (specMass ss naive) ++ "/" ++ toString (specTotal ss) ++ " thr 0/1" ++ hs
            | _ => "bad-request"
          | _, _ => "bad-request"
        | _, _ => "bad-request"
      | _, _, _ => "bad-request"
    | _, _, _ => "bad-request"
  | _ => "bad-request"

end Kolibrie.Driver.C08
