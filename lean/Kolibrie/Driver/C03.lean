import Kolibrie.Driver.EngineProto
import Kolibrie.Model.Update
import Kolibrie.Spec.UpdateSpec
/-!
Driver for C03.  Request: `update DB <n> Op*` with
  Op  ::= idata <k> QT* | ddata <k> QT* | dwhere <k> QT* | modify <- | d k QT*> <- | i k QT*> Pat
  QT  ::= TT TT TT <_ | TT>          TT ::= ?<n> | c<hex> | b<hex label>
Reply: `M r1 … rn <dataset> | S r1 … rn <dataset> | H …` with ri = `ok:<inserted>,<deleted>:<fnv of dataset>` or
`rej:<fnv of dataset>`; datasets are canonical: blank nodes allocated by updates are erased to `_:B` and
summarised as `B=<count>:<sorted degrees>`.
-/
namespace Kolibrie.Driver.C03
open Kolibrie.Proto Kolibrie.Engine Kolibrie.Update Kolibrie.Driver.EngineProto

def keyword : String := "update"

def pTT : P TTerm
  | t :: r =>
      if t.startsWith "?" then (t.drop 1).toString.toNat?.map (fun v => (TTerm.var v, r))
      else if t.startsWith "c" then (unhex (t.drop 1).toString).map (fun c => (TTerm.const c, r))
      else if t.startsWith "b" then (unhex (t.drop 1).toString).map (fun c => (TTerm.bnode c, r))
      else none
  | [] => none

def pQT : P QT := fun ts => do
  let (s, ts) ← pTT ts; let (p, ts) ← pTT ts; let (o, ts) ← pTT ts
  match ts with
  | "_" :: ts => pure (⟨s, p, o, none⟩, ts)
  | ts => do let (g, ts) ← pTT ts; pure (⟨s, p, o, some g⟩, ts)

def pOptQTs (tag : String) : P (Option (List QT))
  | "-" :: ts => some (none, ts)
  | t :: ts => if t == tag then (pCounted pQT ts).map (fun (l, ts) => (some l, ts)) else none
  | [] => none

def pUpd : P Upd
  | "idata" :: ts => (pCounted pQT ts).map (fun (l, ts) => (.insertData l, ts))
  | "ddata" :: ts => (pCounted pQT ts).map (fun (l, ts) => (.deleteData l, ts))
  | "dwhere" :: ts => (pCounted pQT ts).map (fun (l, ts) => (.deleteWhere l, ts))
  | "modify" :: ts => do
      let (d, ts) ← pOptQTs "d" ts
      let (i, ts) ← pOptQTs "i" ts
      let (w, ts) ← pPat ts
      pure (.modify d i w, ts)
  | _ => none

def isFresh (v : Val) : Bool := v.startsWith "_:kolibrie-update-"
def canonVal (v : Val) : String := if isFresh v then hex "_:B" else hex v

def canonDataset (db : DB) : String :=
  let db := normalise db
  let quads := (db.quads.map (fun q => joinWith "," [canonVal q.s, canonVal q.p, canonVal q.o,
      match q.g with | none => "_" | some g => canonVal g])).mergeSort (· ≤ ·)
  let blanks := (db.quads.flatMap (fun q => [q.s, q.p, q.o].filter isFresh)).eraseDups
  let degrees := (blanks.map (fun b => (db.quads.filter (fun q => q.s == b || q.p == b || q.o == b)).length)).mergeSort (· ≤ ·)
  "{" ++ joinWith ";" quads ++ "}G=[" ++ joinWith "," ((db.graphs.map hex).mergeSort (· ≤ ·)) ++ "]B=" ++
    toString blanks.length ++ ":" ++ joinWith "." (degrees.map toString)

def showOut (o : Option Summary) (db : DB) : String :=
  match o with
  | some s => "ok:" ++ toString s.inserted ++ "," ++ toString s.deleted ++ ":" ++ toString (fnv (canonDataset db))
  | none => "rej:" ++ toString (fnv (canonDataset db))

/-- run a history, printing after every step -/
def runShow (step : DB → Upd → Nat → Option (DB × Summary)) (db : DB) (us : List Upd) : String :=
  let (outs, db, _) := us.foldl (fun (acc : List String × DB × Nat) u =>
      match step acc.2.1 u acc.2.2 with
      | some (db', s) => (acc.1 ++ [showOut (some s) db'], db', acc.2.2 + 1000)
      | none => (acc.1 ++ [showOut none acc.2.1], acc.2.1, acc.2.2 + 1000)) ([], db, 0)
  joinWith " " (outs ++ [canonDataset db])

def updPat : Upd → Option Pat
  | .modify _ _ w => some w
  | _ => none

def handle (args : List String) : String :=
  match pDB args with
  | none => "bad-request"
  | some (db, ts) =>
    match pCounted pUpd ts with
    | some (us, []) =>
        let isScoped := us.all (fun u => match updPat u with | some w => wellScoped [] w | none => true)
        let h := if isScoped then "" else " | H not_well_scoped"
        -- the store's catalog already holds the graphs of the initial quads (C04)
        let db := normalise db
        "M " ++ runShow applyUpdate db us ++ " | S " ++ runShow specUpdate db us ++ h
    | _ => "bad-request"

end Kolibrie.Driver.C03
