import Kolibrie.Driver.EngineProto
/-!
Driver for C02.
  `plan p DB View Plan`               execute an explicit physical plan (exact correspondence)
  `plan c <n> DB View Plan`           the same with bind-join style chunking of the incoming solutions into chunks of n
                                      (root plan fed with the solutions of its left-most child is emulated by the harness)
  `plan q <variant> DB View Pat`      a group pattern lowered by the real code, optimised under some statistics,
                                      join nodes rewritten per variant: keep | rnd | allbind | allhash | allnl
Reply: `M alt || … | S spec | H …` — `S` is the algebra's bag of solutions (all variables).
-/
namespace Kolibrie.Driver.C02
open Kolibrie.Proto Kolibrie.Engine Kolibrie.Driver.EngineProto

def keyword : String := "plan"

def handle (args : List String) : String :=
  match args with
  | "p" :: ts =>
      (do
        let (db, ts) ← pDB ts
        let (view, ts) ← pView ts
        let (plan, ts) ← pPlan ts
        if ts.isEmpty then
          let out := showBag (exec db plan ⟨view, none⟩ [[]])
          pure ("M " ++ out)
        else none).getD "bad-request"
  | "q" :: variant :: ts =>
      (do
        let (db, ts) ← pDB ts
        let (view, ts) ← pView ts
        let (pat, ts) ← pPat ts
        if !ts.isEmpty then none else
        let ctx : Ctx := ⟨view, none⟩
        let run (a : List JoinAlg) := showBag (exec db (implement a (lower .dflt pat)).1 ctx [[]])
        let k := min (countJoins pat) 6
        let alts := match (variant.splitOn ":").headD "keep" with
          | "allbind" => [run (List.replicate 64 .bind)]
          | "allhash" => [run (List.replicate 64 .hash)]
          | "allnl" => [run (List.replicate 64 .nl)]
          | _ => ((allAlgs k).map run).eraseDups
        let spec := showBag (sem db ctx pat)
        let h := if wellScoped [] pat then "" else " | H not_well_scoped"
        pure ("M " ++ joinWith " || " alts ++ " | S " ++ spec ++ h)).getD "bad-request"
  | _ => "bad-request"

end Kolibrie.Driver.C02
