import Kolibrie.Core.Proto
import Kolibrie.Core.TermTok
import Kolibrie.Model.Lines
import Kolibrie.Spec.RoundTrip
/-
Driver for C14.
  `export rt <nq|nt|ttl> <quad>…`      quad = `t,t,t,g`  g = `_` (default graph) or a term
                                       term = hex(UTF-8 of the stored string) (`-` = empty) | `[`t`;`t`;`t`]` (quoted triple)
      reply  `M <tokhash> <quad>… [|| <alternative>…] | S * <quad>… | H <violated forced hypotheses>`
      tokhash = FNV-1a of the sorted multiset of space/newline separated chunks of the generated text;
      quads   = lexical quads of a fresh database after re-import, sorted, duplicates removed.
      `S` is printed only when every quad lies inside the property's quantifier (Spec/RoundTrip.inScopeQuad).
  `export parse <nq|nt|ttl> <hex document>`   reply `M n=<k> <quad>…` (correspondence of the readers on arbitrary text)
A panic of the implementation is the single token `panic`.
-/
namespace Kolibrie.Driver.C14
open Kolibrie.Proto Kolibrie.Lines Kolibrie.RoundTrip Kolibrie.TermTok

def keyword : String := "export"

def chunksOf (text : Str) : List Str :=
  let rec go : Str → Str → List Str
    | [], cur => if cur.isEmpty then [] else [cur.reverse]
    | c :: rest, cur =>
        if c = ' ' ∨ c = '\n' then (if cur.isEmpty then go rest [] else cur.reverse :: go rest []) else go rest (c :: cur)
  go text []

def tokHash (text : Str) : String :=
  let cs := (chunksOf text).mergeSort (fun a b => !strLt b a)
  toString (fnv (joinWith " " (cs.map String.ofList)))

def genText (fmt : String) (d : List LQuad) (prefixes : List (Str × Str) := []) : Str :=
  if fmt == "nq" then genNQ d else if fmt == "nt" then genNT d else genTTL prefixes d

/-- `k1=<hex iri>,k2=<hex iri>` or `-` -/
def parsePrefixes (tok : String) : Option (List (Str × Str)) :=
  if tok == "-" then some [] else
  (splitOnChar tok ',').mapM fun item =>
    match splitOnChar item '=' with
    | [k, v] => (unhex v).map fun iri => (k.toList, iri.toList)
    | _ => none

def parseText (fmt : String) (text : Str) : Option (List LQuad) :=
  if fmt == "nq" then some (parseNQ text) else if fmt == "nt" then some (parseNT text)
  else (parseTTL [] text).map (·.2)

/-- all orders in which the store may hand the quads to the generator (hash-set order); only for small datasets -/
def insertAll {α} (a : α) : List α → List (List α)
  | [] => [[a]]
  | b :: l => (a :: b :: l) :: (insertAll a l).map (b :: ·)
def perms {α} : List α → List (List α)
  | [] => [[]]
  | a :: l => (perms l).flatMap (insertAll a)

def withSp (s : String) : String := if s.isEmpty then "" else " " ++ s

def rtCore (fmt : String) (prefixes : List (Str × Str)) (qs : List String) : String :=
    if fmt != "nq" && fmt != "nt" && fmt != "ttl" then "bad-request" else
    match qs.mapM parseQuadTok with
    | none => "bad-request"
    | some d0 =>
      let d := d0.eraseDups     -- the store is a set
      let one (d : List LQuad) : String :=
        let text := genText fmt d prefixes
        match parseText fmt text with
        | some out => tokHash text ++ withSp (showQuads out)
        | none => "panic"
      -- Turtle lists the objects of one (subject, predicate) in hash-set order: the model is a relation (alternatives `||`)
      let m := if fmt == "ttl" && d.length ≤ 5 then joinWith " || " ((perms d).map one).eraseDups else one d
      let scope := d.all inScopeQuad
      let hs := (d.flatMap (forcedViolations fmt)).eraseDups
      "M " ++ m ++ (if scope then " | S *" ++ withSp (showQuads (expected fmt d)) else "") ++
        (if hs.isEmpty then "" else " | H " ++ joinWith "," hs)

def handle (args : List String) : String :=
  match args with
  | "rt" :: fmt :: qs => rtCore fmt [] qs
  | "rtp" :: fmt :: pf :: qs =>
    -- the database also carries prefix declarations (`SparqlDatabase::prefixes`), which the Turtle export writes out
    match parsePrefixes pf with
    | some prefixes => rtCore fmt prefixes qs
    | none => "bad-request"
  | ["parse", fmt, doc] =>
    if fmt != "nq" && fmt != "nt" && fmt != "ttl" then "bad-request" else
    match unhex doc with
    | none => "bad-request"
    | some text =>
      match parseText fmt text.toList with
      | some out => "M n=" ++ toString (dedupSorted (sortBy (fun a b => !(b < a)) (out.map showQuad))).length ++ withSp (showQuads out)
      | none => "M panic"
  | _ => "bad-request"

end Kolibrie.Driver.C14
