import Kolibrie.Core.Proto
import Kolibrie.Model.Engine
import Kolibrie.Spec.Algebra
/-!
Token grammar shared by the C01/C02/C03 drivers (prefix notation, values hex-encoded):

  DB     ::= db <nq> (s p o g)* <ng> g*                 g = `_` (default graph) or hex
  Term   ::= ?<n> | c<hex>
  GTerm  ::= D | N<hex> | ?<n>
  Opnd   ::= ?<n> | c<hex>
  Cond   ::= cmp ?<n> <eq|ne|lt|le|gt|ge> Opnd | and Cond Cond | or Cond Cond | not Cond
  Spec   ::= spec <*| n Item*> <0|1 distinct> <ngv> ?v* <nord> (?v <a|d>)* <limit|_>
  Item   ::= v?<n> | a<count|sum|avg|min|max>:<in>:<out>
  Pat    ::= unit | bgp <n> (Term Term Term)* | group <n> Pat* | union <n> Pat* | graph GTerm Pat
           | filter Cond | bind <nargs> Opnd* ?<out> | values <nv> ?v* <nr> (hex|U)* | sub Spec Pat
  Select ::= select Spec <nfrom> hex* <nnamed> hex* Pat
  Plan   ::= punit | pempty | pscan Term Term Term GTerm | punion <n> Plan* | pgraph GTerm Plan
           | pfilter Cond Plan | pproject <n> ?v* Plan | pbind Plan Plan | phash Plan Plan | pnl Plan Plan
           | pstar <n> (Term Term Term)* | pvalues … | psub Spec Plan | pext <nargs> Opnd* ?<out> Plan
  View   ::= view <nd> g* <nn> hex*
-/
namespace Kolibrie.Driver.EngineProto
open Kolibrie.Proto Kolibrie.Engine

abbrev P (α : Type) := List String → Option (α × List String)

def pNat : P Nat
  | t :: r => t.toNat?.map (·, r)
  | [] => none

def pVar : P Var
  | t :: r => if t.startsWith "?" then (t.drop 1).toString.toNat?.map (·, r) else none
  | [] => none

def pHex : P String
  | t :: r => (unhex t).map (·, r)
  | [] => none

def pTerm : P Term
  | t :: r =>
      if t.startsWith "?" then (t.drop 1).toString.toNat?.map (fun v => (Term.var v, r))
      else if t.startsWith "c" then (unhex (t.drop 1).toString).map (fun c => (Term.const c, r))
      else none
  | [] => none

def pGTerm : P GTerm
  | t :: r =>
      if t == "D" then some (.dflt, r)
      else if t.startsWith "?" then (t.drop 1).toString.toNat?.map (fun v => (GTerm.var v, r))
      else if t.startsWith "N" then (unhex (t.drop 1).toString).map (fun c => (GTerm.named c, r))
      else none
  | [] => none

def pOpnd : P Operand
  | t :: r =>
      if t.startsWith "?" then (t.drop 1).toString.toNat?.map (fun v => (Operand.var v, r))
      else if t.startsWith "c" then (unhex (t.drop 1).toString).map (fun c => (Operand.const c, r))
      else none
  | [] => none

def pMany {α} (p : P α) : Nat → P (List α)
  | 0, ts => some ([], ts)
  | n + 1, ts => do
      let (a, ts) ← p ts
      let (rest, ts) ← pMany p n ts
      pure (a :: rest, ts)

def pCounted {α} (p : P α) : P (List α) := fun ts => do
  let (n, ts) ← pNat ts
  pMany p n ts

def opName (s : String) : Option String :=
  match s with
  | "eq" => some "=" | "ne" => some "!=" | "lt" => some "<" | "le" => some "<="
  | "gt" => some ">" | "ge" => some ">=" | _ => none

partial def pCond : P Cond
  | "cmp" :: ts => do
      let (v, ts) ← pVar ts
      match ts with
      | op :: ts => do
          let o ← opName op
          let (rhs, ts) ← pOpnd ts
          pure (.cmp v o rhs, ts)
      | [] => none
  | "and" :: ts => do let (a, ts) ← pCond ts; let (b, ts) ← pCond ts; pure (.and a b, ts)
  | "or" :: ts => do let (a, ts) ← pCond ts; let (b, ts) ← pCond ts; pure (.or a b, ts)
  | "not" :: ts => do let (a, ts) ← pCond ts; pure (.not a, ts)
  | _ => none

def pAgg (s : String) : Option Agg :=
  match s with
  | "count" => some .count | "sum" => some .sum | "avg" => some .avg | "min" => some .min | "max" => some .max
  | _ => none

def pItem : P ProjItem
  | t :: r =>
      if t.startsWith "v?" then (t.drop 2).toString.toNat?.map (fun v => (ProjItem.var v, r))
      else if t.startsWith "a" then
        match splitOnChar (t.drop 1).toString ':' with
        | [k, i, o] => do
            let k ← pAgg k; let i ← i.toNat?; let o ← o.toNat?
            pure (.agg k i o, r)
        | _ => none
      else none
  | [] => none

def pOrd : P (Var × Bool) := fun ts => do
  let (v, ts) ← pVar ts
  match ts with
  | "a" :: ts => pure ((v, false), ts)
  | "d" :: ts => pure ((v, true), ts)
  | _ => none

def pSpec : P Spec
  | "spec" :: ts => do
      let (proj, ts) ← (match ts with
        | "*" :: ts => some (none, ts)
        | ts => (pCounted pItem ts).map (fun (l, ts) => (some l, ts)))
      let (d, ts) ← pNat ts
      let (gv, ts) ← pCounted pVar ts
      let (ord, ts) ← pCounted pOrd ts
      match ts with
      | "_" :: ts => pure (⟨proj, d == 1, gv, ord, none⟩, ts)
      | t :: ts => t.toNat?.map (fun n => (⟨proj, d == 1, gv, ord, some n⟩, ts))
      | [] => none
  | _ => none

def pCell : P (Option Val)
  | "U" :: r => some (none, r)
  | t :: r => (unhex t).map (fun c => (some c, r))
  | [] => none

def pTriple : P (Term × Term × Term) := fun ts => do
  let (s, ts) ← pTerm ts; let (p, ts) ← pTerm ts; let (o, ts) ← pTerm ts
  pure ((s, p, o), ts)

def pValuesBody : P (List Var × List (List (Option Val))) := fun ts => do
  let (vars, ts) ← pCounted pVar ts
  let (nr, ts) ← pNat ts
  let (rows, ts) ← pMany (pMany pCell vars.length) nr ts
  pure ((vars, rows), ts)

partial def pPat : P Pat
  | "unit" :: ts => some (.unit, ts)
  | "bgp" :: ts => (pCounted pTriple ts).map (fun (l, ts) => (.bgp l, ts))
  | "group" :: ts => do
      let (n, ts) ← pNat ts
      let (l, ts) ← pMany pPat n ts
      pure (.group l, ts)
  | "union" :: ts => do
      let (n, ts) ← pNat ts
      let (l, ts) ← pMany pPat n ts
      pure (.union l, ts)
  | "graph" :: ts => do let (g, ts) ← pGTerm ts; let (p, ts) ← pPat ts; pure (.graph g p, ts)
  | "filter" :: ts => (pCond ts).map (fun (c, ts) => (.filter c, ts))
  | "bind" :: ts => do
      let (args, ts) ← pCounted pOpnd ts
      let (out, ts) ← pVar ts
      pure (.bind args out, ts)
  | "values" :: ts => (pValuesBody ts).map (fun ((v, r), ts) => (.values v r, ts))
  | "sub" :: ts => do let (s, ts) ← pSpec ts; let (p, ts) ← pPat ts; pure (.sub p s, ts)
  | _ => none

def pSelect : P Select
  | "select" :: ts => do
      let (spec, ts) ← pSpec ts
      let (fr, ts) ← pCounted pHex ts
      let (fn, ts) ← pCounted pHex ts
      let (w, ts) ← pPat ts
      pure (⟨spec, fr, fn, w⟩, ts)
  | _ => none

def pGraphName : P (Option Val)
  | "_" :: r => some (none, r)
  | t :: r => (unhex t).map (fun c => (some c, r))
  | [] => none

def pQuad : P Quad := fun ts => do
  let (s, ts) ← pHex ts; let (p, ts) ← pHex ts; let (o, ts) ← pHex ts; let (g, ts) ← pGraphName ts
  pure (⟨s, p, o, g⟩, ts)

def pDB : P DB
  | "db" :: ts => do
      let (qs, ts) ← pCounted pQuad ts
      let (gs, ts) ← pCounted pHex ts
      pure (⟨qs.eraseDups, gs⟩, ts)
  | _ => none

def pView : P View
  | "view" :: ts => do
      let (d, ts) ← pCounted pGraphName ts
      let (n, ts) ← pCounted pHex ts
      pure (View.mk' d n, ts)
  | _ => none

def nestUnion : List Plan → Plan
  | [] => .empty
  | p :: rest => .union p (nestUnion rest)

partial def pPlan : P Plan
  | "punit" :: ts => some (.unit, ts)
  | "pempty" :: ts => some (.empty, ts)
  | "pscan" :: ts => do
      let ((s, p, o), ts) ← pTriple ts
      let (g, ts) ← pGTerm ts
      pure (.scan ⟨s, p, o, g⟩, ts)
  | "punion" :: ts => do
      let (n, ts) ← pNat ts
      let (l, ts) ← pMany pPlan n ts
      pure (nestUnion l, ts)
  | "pgraph" :: ts => do let (g, ts) ← pGTerm ts; let (p, ts) ← pPlan ts; pure (.graph p g, ts)
  | "pfilter" :: ts => do let (c, ts) ← pCond ts; let (p, ts) ← pPlan ts; pure (.filter p c, ts)
  | "pproject" :: ts => do let (vs, ts) ← pCounted pVar ts; let (p, ts) ← pPlan ts; pure (.project p vs, ts)
  | "pbind" :: ts => do let (l, ts) ← pPlan ts; let (r, ts) ← pPlan ts; pure (.bindJoin l r, ts)
  | "phash" :: ts => do let (l, ts) ← pPlan ts; let (r, ts) ← pPlan ts; pure (.hashJoin l r, ts)
  | "pnl" :: ts => do let (l, ts) ← pPlan ts; let (r, ts) ← pPlan ts; pure (.nlJoin l r, ts)
  | "pstar" :: ts => (pCounted pTriple ts).map (fun (l, ts) => (.star (l.map fun (s, p, o) => ⟨s, p, o, .dflt⟩), ts))
  | "pvalues" :: ts => (pValuesBody ts).map (fun ((v, r), ts) => (.values v r, ts))
  | "psub" :: ts => do let (s, ts) ← pSpec ts; let (p, ts) ← pPlan ts; pure (.subquery p s, ts)
  | "pext" :: ts => do
      let (args, ts) ← pCounted pOpnd ts
      let (out, ts) ← pVar ts
      let (p, ts) ← pPlan ts
      pure (.bind p args out, ts)
  | _ => none

/-! canonical output -/

def showCell : Option Val → String
  | none => "-"     -- the implementation prints an unbound column as the empty string
  | some v => hex v

def showRow (r : Row) : String :=
  joinWith "," (r.map (fun (k, v) => toString k ++ "=" ++ hex v))

/-- a bag of rows as a sorted list -/
def showBag (rows : List Row) : String :=
  "{" ++ joinWith ";" ((rows.map showRow).mergeSort (· ≤ ·)) ++ "}"

def showTable (rows : List (List (Option Val))) : String :=
  "{" ++ joinWith ";" ((rows.map (fun r => joinWith "," (r.map showCell))).mergeSort (· ≤ ·)) ++ "}"

/-- all assignments of join algorithms to at most `k` join nodes -/
def allAlgs : Nat → List (List JoinAlg)
  | 0 => [[]]
  | k + 1 => (allAlgs k).flatMap (fun l => [JoinAlg.bind :: l, JoinAlg.hash :: l, JoinAlg.nl :: l])

mutual
def countJoins : Pat → Nat
  | .bgp tps => tps.length
  | .group es => countJoinsList es + es.length
  | .union bs => countJoinsList bs
  | .graph _ p => countJoins p
  | .sub p _ => countJoins p
  | _ => 0
def countJoinsList : List Pat → Nat
  | [] => 0
  | p :: r => countJoins p + countJoinsList r
end

end Kolibrie.Driver.EngineProto
