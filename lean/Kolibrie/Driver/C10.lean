import Kolibrie.Core.Proto
import Kolibrie.Extracted
import Kolibrie.Model.Rsp
import Kolibrie.Spec.Rsp
/-
Driver for C10.  Request: `rsp <S|M|M<seed>> <R|I|D> <width> <slide> <query> <rules> <event>…`
  mode   = `S` single-thread | `M` multi-thread | `M<seed>` multi-thread with seeded schedule perturbation | `MG` multi-thread
           burst with a gated consumer (harness only)
  query  = `t,t,t;t,t,t…`  (term: `vN` variable | `N` constant id)
  rules  = `-` | `body=>head|body=>head…` (body/head = patterns as in query)
  event  = `ts:s,p,o` (one triple arriving at time ts) | `STOP` (engine.stop(): flush, then stop)
Reply:  `M W {content}… E [rows]… | S W {content}… E [rows]… | H raw_equals_prev_derived`
  W = contents of the fired windows (sorted), E = rows emitted per firing (sorted).
  M: model of the code that exists (`SimpleR2R::add` variant chosen by the extracted flag), S: specification.
The mode (S/M) does not change the model: the emission sequence must be the same in both modes.
-/
namespace Kolibrie.Driver.C10
open Kolibrie.Proto Kolibrie.Rsp

def keyword : String := "rsp"

def parseTerm (s : String) : Option Term :=
  if s.startsWith "v" then (s.drop 1).toNat?.map Term.var else s.toNat?.map Term.const

def parsePat (s : String) : Option Pat :=
  match splitOnChar s ',' with
  | [a, b, c] => do let x ← parseTerm a; let y ← parseTerm b; let z ← parseTerm c; pure ⟨x, y, z⟩
  | _ => none

def parsePats (s : String) : Option (List Pat) :=
  if s == "-" || s.isEmpty then some [] else (splitOnChar s ';').mapM parsePat

def parseRule (s : String) : Option Rule :=
  match s.splitOn "=>" with
  | [b, h] => do
      let b ← parsePats b; let h ← parsePats h
      if b.isEmpty || h.isEmpty then none else pure ⟨b, h⟩
  | _ => none

def parseRules (s : String) : Option (List Rule) :=
  if s == "-" then some [] else (splitOnChar s '|').mapM parseRule

def parseOp : String → Option StreamOp
  | "R" => some .rstream | "I" => some .istream | "D" => some .dstream | _ => none

inductive Ev
  | add (ts : Nat) (t : Triple)
  | stop

def parseEv (s : String) : Option Ev :=
  if s == "STOP" then some .stop else
  match splitOnChar s ':' with
  | [ts, t] => match natList t with
      | some [a, b, c] => ts.toNat?.map fun n => .add n ⟨a, b, c⟩
      | _ => none
  | _ => none

/-- contents fired by one window over the events (own transcription of the window operator) -/
def firedContents (width slide : Nat) : List Ev → WState → Bool → List (List Triple)
  | [], _, _ => []
  | .add ts t :: rest, w, stopped =>
      if stopped then firedContents width slide rest w stopped else
      let (w', f) := w.add width slide t ts
      match f with
      | some c => c :: firedContents width slide rest w' stopped
      | none => firedContents width slide rest w' stopped
  | .stop :: rest, w, stopped =>
      if stopped then firedContents width slide rest w stopped else
      match w.flush with
      | some c => c :: firedContents width slide rest w true
      | none => firedContents width slide rest w true

def tripleKey (t : Triple) : List Nat := [t.s, t.p, t.o]
def showContent (c : List Triple) : String :=
  "{" ++ joinWith ";" ((sortBy natListLe (c.map tripleKey)).map fun k => joinWith "." (k.map toString)) ++ "}"

def strLe (a b : String) : Bool := !decide (b < a)
def showRow (r : Row) : String :=
  joinWith "," (sortBy strLe (r.map fun (k, x) => "v" ++ toString k ++ "=" ++ toString x))
def showRows (rows : List Row) : String :=
  "[" ++ joinWith ";" (sortBy strLe (rows.map showRow)) ++ "]"

def showRun (ws : List (List Triple)) (es : List (List Row)) : String :=
  let s := "W " ++ joinWith " " (ws.map showContent) ++ " E " ++ joinWith " " (es.map showRows)
  (s.replace "  " " ").trimAsciiEnd.toString

def fuel : Nat := 64

def allClosed (rules : List Rule) (hist : List (List Triple)) : Bool :=
  rules.isEmpty || hist.all fun c => closedAt rules fuel (dedup c)

def handle (args : List String) : String :=
  match args with
  | mode :: op :: w :: s :: q :: rs :: evs =>
    match parseOp op, w.toNat?, s.toNat?, parsePats q, parseRules rs, evs.mapM parseEv with
    | some op, some width, some slide, some pats, some rules, some evs =>
      if (mode != "S" && mode != "MG" && !(mode.startsWith "M" && ((mode.drop 1).isEmpty || (mode.drop 1).toNat?.isSome))) || width == 0 || slide == 0 || pats.isEmpty then "bad-request" else
      let hist := firedContents width slide evs WState.init false
      if !allClosed rules hist then "fuel" else
      let cfg := mkCfg rules fuel pats op Kolibrie.Extracted.r2rAddDropsDerived
      let m := run cfg hist
      let sp := specRun cfg hist
      -- forced hypothesis of `fire_spec_partial` (only the unrepaired code needs it)
      let h := if !cfg.dropOnAdd && !NoRawDerivedClash cfg hist then " | H raw_equals_prev_derived" else ""
      "M " ++ showRun hist m ++ " | S " ++ showRun hist sp ++ h
    | _, _, _, _, _, _ => "bad-request"
  | _ => "bad-request"

end Kolibrie.Driver.C10
