import Kolibrie.Core.Proto
import Kolibrie.Model.RspMulti
import Kolibrie.Spec.RspMulti
import Kolibrie.Driver.C10
/-
Driver for C11.  Request: `rspm <S|M|M<seed>> <W|X|TS|TD> <staticPats|-> <staticData|-> <win> <win> <event>…`
  policy = W wait | X steal | TS timeout(steal) | TD timeout(drop)   (the single-thread coordinator treats T* as wait)
  win    = `stream/width/slide/pats`;  event = `ts:stream:s,p,o` | `STOP`
Reply, single-thread:  `M W0 {…}… W1 {…}… E [rows]… | S W0 … W1 … E [rows]… | H windows_share_matching_vocabulary`
   M = shared-store model (the code), S = the same coordinator over per-window stores (the property).
Reply, multi-thread:   `S W0 … W1 … A [rows] | H …` — A = every row that a join of answers over contents the windows
   themselves reported (and the static data) can produce; the check demands emitted ⊆ A (grouping is timing dependent).
-/
namespace Kolibrie.Driver.C11
open Kolibrie.Proto Kolibrie.Rsp Kolibrie.Driver.C10

def keyword : String := "rspm"

structure WinSpec where
  stream : Nat
  width : Nat
  slide : Nat
  pats : List Pat

def parseWin (s : String) : Option WinSpec :=
  match splitOnChar s '/' with
  | [a, b, c, d] => do
      let st ← a.toNat?; let w ← b.toNat?; let sl ← c.toNat?; let ps ← parsePats d
      if w == 0 || sl == 0 || ps.isEmpty then none else pure ⟨st, w, sl, ps⟩
  | _ => none

inductive SEv
  | add (ts stream : Nat) (t : Triple)
  | stop

def parseSEv (s : String) : Option SEv :=
  if s == "STOP" then some .stop else
  match splitOnChar s ':' with
  | [ts, st, t] => match natList t with
      | some [a, b, c] => do let n ← ts.toNat?; let k ← st.toNat?; pure (.add n k ⟨a, b, c⟩)
      | _ => none
  | _ => none

def parseTriples (s : String) : Option (List Triple) :=
  if s == "-" then some [] else
  (splitOnChar s ';').mapM fun t => match natList t with
    | some [a, b, c] => some ⟨a, b, c⟩
    | _ => none

/-- `add_to_stream`: first the coordinator poll, then every window on that stream receives the item -/
def addEvents (wins : List WinSpec) (ws : List WState) (ts stream : Nat) (t : Triple) : List WState × List MEv :=
  let rec go (i : Nat) (wins : List WinSpec) (ws : List WState) (accW : List WState) (accE : List MEv) :=
    match wins, ws with
    | win :: wins', w :: ws' =>
      if win.stream == stream then
        let (w', f) := w.add win.width win.slide t ts
        go (i + 1) wins' ws' (accW ++ [w']) (match f with | some c => accE ++ [.fire i c] | none => accE)
      else go (i + 1) wins' ws' (accW ++ [w]) accE
    | _, _ => (accW, accE)
  go 0 wins ws [] [.poll]

def stopEvents (ws : List WState) : List MEv :=
  let rec go (i : Nat) (ws : List WState) (acc : List MEv) :=
    match ws with
    | w :: ws' => go (i + 1) ws' (match w.flush with | some c => acc ++ [.fire i c] | none => acc)
    | [] => acc
  go 0 ws [] ++ [.poll]

def toMEvs (wins : List WinSpec) : List SEv → List WState → List MEv
  | [], _ => []
  | .add ts st t :: rest, ws => let (ws', es) := addEvents wins ws ts st t; es ++ toMEvs wins rest ws'
  | .stop :: _, ws => stopEvents ws

def showWins (n : Nat) (evs : List MEv) : String :=
  joinWith " " ((List.range n).map fun w =>
    ("W" ++ toString w ++ " " ++ joinWith " " ((reported w evs).map showContent)).trimAsciiEnd.toString)

def showST (n : Nat) (evs : List MEv) (es : List (List Row)) : String :=
  let s := showWins n evs ++ " E " ++ joinWith " " ((es.filter (fun e => !e.isEmpty)).map showRows)
  (s.replace "  " " ").trimAsciiEnd.toString

def sharesVocab (cfg : MCfg) (evs : List MEv) : Bool := !VocabDisjoint cfg evs

def handle (args : List String) : String :=
  match args with
  | mode :: pol :: sp :: sd :: w0 :: w1 :: evs =>
    match parsePats sp, parseTriples sd, parseWin w0, parseWin w1, evs.mapM parseSEv with
    | some spats, some sdata, some a, some b, some sevs =>
      -- trailing `r` / `n` only change how the query text is written (block order, stream names)
      let pol := String.ofList (pol.toList.filter fun c => c != 'r' && c != 'n')
      let policy? : Option Policy := match pol with
        | "W" => some .wait | "X" => some .steal | "TS" => some .wait | "TD" => some .wait | _ => none
      match policy? with
      | none => "bad-request"
      | some policy =>
      let wins := [a, b]
      let mevs := toMEvs wins sevs (wins.map fun _ => WState.init)
      let cfg (sh : Bool) : MCfg := ⟨wins.map (·.pats), spats, sdata, policy, sh⟩
      let h := if sharesVocab (cfg true) mevs then " | H windows_share_matching_vocabulary" else ""
      if mode == "S" then
        "M " ++ showST 2 mevs (mrun (cfg true) mevs) ++ " | S " ++ showST 2 mevs (mrun (cfg false) mevs) ++ h
      else if mode.startsWith "M" && ((mode.drop 1).isEmpty || (mode.drop 1).toNat?.isSome) then
        let s := showWins 2 mevs ++ " A " ++ showRows (dedup (allowedRows (cfg false) mevs))
        "S " ++ (s.replace "  " " ").trimAsciiEnd.toString ++ h
      else "bad-request"
    | _, _, _, _, _ => "bad-request"
  | _ => "bad-request"

end Kolibrie.Driver.C11
