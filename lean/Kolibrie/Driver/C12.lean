import Kolibrie.Core.Proto
import Kolibrie.Model.Sds
import Kolibrie.Spec.Sds
/-
Driver for C12.  Request:  `xwin <item> <item> …`
  W:<iri>:<alpha>                       window declaration (width alpha)
  G:<iri>:<s>.<local>.<o>,…  | G:<iri>:-  static graph
  O:<iri>                               output component IRI
  R:<prems>~>​<concls>                   rule; patterns `t.t.t` separated by `,`;
                                        term = v<name> | <entity id> | p<annotated predicate string>
  S:<now>:<iri>=<s>.<local>.<o>.<t>,…;<iri>=…  | S:<now>:-     evaluation at time `now` with the listed window contents
IRIs / local names are ASCII without `: . , ; = ~ > @` and blanks.
Reply: one token pair per step  `I=<entries>` (incremental, with expiry) `N=<entries>` (from scratch), entries
`comp~s~local~o[@expiry]` sorted and joined by `,` (`-` when empty); M = model, S = specification,
H = violated hypotheses (`not_window_consistent`, `heads_not_annotated`, `ambiguous_annotation`).
-/
namespace Kolibrie.Driver.C12
open Kolibrie.Proto Kolibrie.Prov

def keyword : String := "xwin"

inductive RTerm
  | var (v : String)
  | ent (n : Nat)
  | pred (s : Str)

def parseRTerm (s : String) : Option RTerm :=
  if s.startsWith "v" && s.length > 1 then some (.var (s.drop 1).toString)
  else if s.startsWith "p" && s.length > 1 then some (.pred (s.drop 1).toString.toList)
  else s.toNat?.map .ent

abbrev RPat := RTerm × RTerm × RTerm

def parseRPat (s : String) : Option RPat :=
  match splitOnChar s '.' with
  | [a, b, c] => do let x ← parseRTerm a; let y ← parseRTerm b; let z ← parseRTerm c; pure (x, y, z)
  | _ => none

def parseRPats (s : String) : Option (List RPat) :=
  if s.isEmpty then some [] else (splitOnChar s ',').mapM parseRPat

structure RRule where
  prem : List RPat
  neg : List RPat
  concl : List RPat

def parseRRule (s : String) : Option RRule :=
  match splitOnChar s '>' with
  | [body, hd] =>
    match splitOnChar body '~' with
    | [pr, ng] => do let p ← parseRPats pr; let n ← parseRPats ng; let c ← parseRPats hd; pure ⟨p, n, c⟩
    | _ => none
  | _ => none

def parseWT (s : String) : Option WTriple :=
  match splitOnChar s '.' with
  | [a, l, c, t] => do let x ← a.toNat?; let z ← c.toNat?; let tt ← t.toNat?; pure ⟨x, l.toList, z, tt⟩
  | _ => none

def parseST (s : String) : Option (Nat × Str × Nat) :=
  match splitOnChar s '.' with
  | [a, l, c] => do let x ← a.toNat?; let z ← c.toNat?; pure (x, l.toList, z)
  | _ => none

def parseContent (s : String) : Option (List (Str × List WTriple)) :=
  if s == "-" then some [] else
  (splitOnChar s ';').mapM fun part =>
    match splitOnChar part '=' with
    | [iri, ts] => do let l ← (splitOnChar ts ',').mapM parseWT; pure (iri.toList, l)
    | _ => none

inductive Item
  | win (iri : Str) (alpha : Nat)
  | stat (g : StaticG)
  | out (iri : Str)
  | rule (r : RRule)
  | step (now : Nat) (content : List (Str × List WTriple))

def parseItem (t : String) : Option Item :=
  match splitOnChar t ':' with
  | ["W", iri, a] => a.toNat?.map fun a => .win iri.toList a
  | ["G", iri, ts] =>
      if ts == "-" then some (.stat ⟨iri.toList, []⟩)
      else ((splitOnChar ts ',').mapM parseST).map fun l => .stat ⟨iri.toList, l⟩
  | ["O", iri] => some (.out iri.toList)
  | ["R", r] => (parseRRule r).map .rule
  | ["S", now, c] => do let n ← now.toNat?; let cc ← parseContent c; pure (.step n cc)
  | _ => none

def rtermPreds : RTerm → List Str
  | .pred s => [s]
  | _ => []
def rpatPreds (p : RPat) : List Str := rtermPreds p.1 ++ rtermPreds p.2.1 ++ rtermPreds p.2.2

def indexOf (l : List Str) (s : Str) : Nat :=
  match l with
  | [] => 0
  | a :: r => if a == s then 0 else indexOf r s + 1

def predBase : Nat := 100000

def convTerm (enc : Str → Nat) : RTerm → Term
  | .var v => .var v
  | .ent n => .const n
  | .pred s => .const (enc s)
def convPat (enc : Str → Nat) (p : RPat) : Pat := ⟨convTerm enc p.1, convTerm enc p.2.1, convTerm enc p.2.2⟩
def convRule (enc : Str → Nat) (r : RRule) : Rule := ⟨r.prem.map (convPat enc), r.neg.map (convPat enc), r.concl.map (convPat enc)⟩

def showStr (s : Str) : String := String.ofList s
def showExp (e : Nat) : String := if e ≥ u64Max then "inf" else toString e

def strLe (a b : String) : Bool := !(b < a)

def render (dec : Nat → Option Str) (comps : List Str) (withExp : Bool) (l : List (Fact × Nat)) : String :=
  let es := l.filterMap fun (f, e) =>
    match dec f.p with
    | none => none
    | some ps => match stripPrefix ps comps with
      | none => none
      | some (c, loc) =>
        some (showStr c ++ "~" ++ toString f.s ++ "~" ++ showStr loc ++ "~" ++ toString f.o ++
          (if withExp then "@" ++ showExp e else ""))
  let es := (es.mergeSort strLe).eraseDups
  if es.isEmpty then "-" else joinWith "," es

def fuelRounds : Nat := 400

structure Acc where
  prevModel : List (Fact × Nat) := []
  prevWin : List (Str × List (Fact × Nat)) := []
  prevNow : Option Nat := none
  mOut : List String := []
  sOut : List String := []
  inconsistent : Bool := false
  fuelOut : Bool := false

def handle (args : List String) : String :=
  match args.mapM parseItem with
  | none => "bad-request"
  | some items =>
    let wins := items.filterMap fun i => match i with | .win iri a => some (iri, a) | _ => none
    let stats := items.filterMap fun i => match i with | .stat g => some g | _ => none
    let outs := items.filterMap fun i => match i with | .out o => some o | _ => none
    let rrules := items.filterMap fun i => match i with | .rule r => some r | _ => none
    let steps := items.filterMap fun i => match i with | .step n c => some (n, c) | _ => none
    if rrules.any (fun r => !r.neg.isEmpty) then "bad-request" else
    -- dictionary of annotated predicate strings
    let stepPreds := steps.flatMap fun (_, c) => c.flatMap fun (iri, ts) => ts.map fun wt => annotate iri wt.pred
    let statPreds := stats.flatMap fun g => g.triples.map fun (_, p, _) => annotate g.iri p
    let rulePreds := rrules.flatMap fun r => (r.prem ++ r.concl).flatMap rpatPreds
    let dict := (stepPreds ++ statPreds ++ rulePreds).eraseDups
    let enc : Str → Nat := fun s => predBase + indexOf dict s
    let dec : Nat → Option Str := fun n => if n < predBase then none else dict[n - predBase]?
    let rules := rrules.map (convRule enc)
    if !(rules.all fun r => safeRule r && !r.prem.isEmpty && !r.concl.isEmpty) then "bad-request" else
    let mkSds (c : List (Str × List WTriple)) : Sds :=
      { windows := wins.map fun (iri, a) => ⟨iri, a, (c.filter fun x => x.1 == iri).flatMap (·.2)⟩,
        statics := stats, outputs := outs }
    let comps := componentIris (mkSds [])
    let keep := keepOf dec comps
    -- hypotheses
    let headsOk := rrules.all fun r => r.concl.all fun p => match p.2.1 with
      | .pred s => (stripPrefix s comps).isSome
      | _ => false
    let pairs := (steps.flatMap fun (_, c) => c.flatMap fun (iri, ts) => ts.map fun wt => (iri, wt.pred))
      ++ (stats.flatMap fun g => g.triples.map fun (_, p, _) => (g.iri, p))
    let unamb := pairs.all fun (w, l) => stripPrefix (annotate w l) comps == some (w, l)
    let declared := steps.all fun (_, c) => c.all fun (iri, _) => wins.any fun w => w.1 == iri
    if !declared then "bad-request" else
    let acc := steps.foldl (fun (acc : Acc) (now, c) =>
      let sds := mkSds c
      let base := translate enc sds now
      -- window consistency is a property of each window's own listing (and of increasing times)
      let perWin := sds.windows.all fun w =>
        consistentStep (acc.prevWin.filterMap fun (iri, b) => if iri == w.iri then some b else none).flatten
          (translate enc { windows := [w], statics := [], outputs := [] } now) now
      let cons := perWin && (match acc.prevNow with | none => true | some t => decide (t < now))
      let inc := incStep rules keep base acc.prevModel now fuelRounds
      let nv := naiveFacts rules base fuelRounds
      let sp := expStar rules base fuelRounds
      match inc, nv, sp with
      | some st, some nf, some sf =>
        let sfk := sf.filter fun e => keep e.1
        { prevModel := st, prevNow := some now,
          prevWin := sds.windows.map fun w => (w.iri, translate enc { windows := [w], statics := [], outputs := [] } now),
          mOut := acc.mOut ++ ["I=" ++ render dec comps true st,
                               "N=" ++ render dec comps false ((nf.filter keep).map fun f => (f, 0))],
          sOut := acc.sOut ++ ["I=" ++ render dec comps true sfk, "N=" ++ render dec comps false sfk],
          inconsistent := acc.inconsistent || !cons, fuelOut := acc.fuelOut }
      | _, _, _ => { acc with fuelOut := true }) {}
    if acc.fuelOut then "fuel" else
    let hs := (if acc.inconsistent then ["not_window_consistent"] else [])
      ++ (if headsOk then [] else ["heads_not_annotated"]) ++ (if unamb then [] else ["ambiguous_annotation"])
    -- outside the property's own hypotheses there is nothing to judge: only the correspondence impl = model is checked
    if hs.isEmpty then "M " ++ joinWith " " acc.mOut ++ " | S " ++ joinWith " " acc.sOut
    else if !unamb then
      -- aliasing of annotated predicates: the code's result depends on hash order, so there is no model line;
      -- a window-consistent history is still judged by the specification
      if acc.inconsistent || !headsOk then "H " ++ joinWith "," hs
      else "S " ++ joinWith " " acc.sOut ++ " | H " ++ joinWith "," hs
    else "M " ++ joinWith " " acc.mOut ++ " | H " ++ joinWith "," hs

end Kolibrie.Driver.C12
