import Kolibrie.Core.Proto
import Kolibrie.Model.Syntax
import Kolibrie.Driver.C16Scan
import Kolibrie.Model.Arith
/-
Driver for C16.  Requests (after the keyword `parse`):
  scan <which> <hex input> <classes>      scanner-level differential (see Driver/C16Scan.lean)
  rt <lay1/lay2/…> <tree>                 print the tree with each layout, lex, parse; reply = for each layout the
                                          FNV hash of the printed text and the prefix code of the parsed tree
       lay     <dots>:<codes>   dots = a | n | b (`.` after every element / never / between elements);
               codes = comma-separated small numbers (separator and keyword-case choices, cycled)
       tree    prefix code of a SELECT (Model/Syntax.lean `encode`)
  text <hex text> <tree>                  a text and the tree it must denote (sub-selects printed directly inside
                                          GRAPH / WHERE braces, which the Lean printer does not produce)
  fuzz <hex text>                         totality: the real parsers return Ok/Err; Ok means everything consumed
  nest <kind> <n>                         n-fold nesting of one recursive construct (run in a child process)
  arith <extra> <ws> <tree>               FILTER arithmetic: the tree (prefix code `+,-,*,/,o<hex operand>`) is printed with minimal
                                          (extra=0) or redundant (extra=1) parentheses and parsed back; `ws` only drives the
                                          harness' whitespace choices
Reply: `M … | S … [| H …]`
-/
namespace Kolibrie.Driver.C16
open Kolibrie.Proto Kolibrie.Syntax

def keyword : String := "parse"

def lexemeOf (s : String) : Option Lexeme := (unhex s).map String.toList

def decF : Nat → List String → Option (FExpr × List String)
  | 0, _ => none
  | _ + 1, "C" :: l :: op :: r :: rest => do
      let l ← lexemeOf l; let r ← lexemeOf r; pure (.cmp l op r, rest)
  | f + 1, "A" :: rest => do let (a, r1) ← decF f rest; let (b, r2) ← decF f r1; pure (.and a b, r2)
  | f + 1, "O" :: rest => do let (a, r1) ← decF f rest; let (b, r2) ← decF f r1; pure (.or a b, r2)
  | f + 1, "X" :: rest => do let (a, r1) ← decF f rest; pure (.not a, r1)
  | _ + 1, _ => none

def decLexemes : Nat → List String → Option (List Lexeme × List String)
  | 0, rest => some ([], rest)
  | n + 1, x :: rest => do let l ← lexemeOf x; let (ls, r) ← decLexemes n rest; pure (l :: ls, r)
  | _ + 1, [] => none

def decPairs : Nat → List String → Option (List (Lexeme × Lexeme) × List String)
  | 0, rest => some ([], rest)
  | n + 1, a :: b :: rest => do
      let a ← lexemeOf a; let b ← lexemeOf b; let (ls, r) ← decPairs n rest; pure ((a, b) :: ls, r)
  | _ + 1, _ => none

def decOrder : Nat → List String → Option (List (Lexeme × Bool) × List String)
  | 0, rest => some ([], rest)
  | n + 1, a :: b :: rest => do
      let a ← lexemeOf a; let (ls, r) ← decOrder n rest; pure ((a, b == "1") :: ls, r)
  | _ + 1, _ => none

mutual
def decPat : Nat → List String → Option (Pat × List String)
  | 0, _ => none
  | _ + 1, "U" :: rest => some (.unit, rest)
  | _ + 1, "B" :: s :: n :: rest => do
      let s ← lexemeOf s; let n ← n.toNat?; let (pos, r) ← decPairs n rest; pure (.bgp s pos, r)
  | f + 1, "J" :: n :: rest => do let n ← n.toNat?; let (ps, r) ← decList f n rest; pure (.join ps, r)
  | f + 1, "N" :: n :: rest => do let n ← n.toNat?; let (ps, r) ← decList f n rest; pure (.union ps, r)
  | f + 1, "G" :: g :: rest => do let g ← lexemeOf g; let (p, r) ← decPat f rest; pure (.graph g p, r)
  | f + 1, "F" :: rest => do let (e, r) ← decF f rest; pure (.filter e, r)
  | f + 1, "Q" :: rest => do let (q, r) ← decSel f rest; pure (.sub q, r)
  | _ + 1, _ => none
def decList : Nat → Nat → List String → Option (PatList × List String)
  | 0, _, _ => none
  | _ + 1, 0, rest => some (.nil, rest)
  | f + 1, n + 1, rest => do let (p, r1) ← decPat f rest; let (ps, r2) ← decList f n r1; pure (.cons p ps, r2)
def decSel : Nat → List String → Option (Sel × List String)
  | 0, _ => none
  | f + 1, "S" :: d :: nv :: rest => do
      let nv ← nv.toNat?
      let (vars, r1) ← decLexemes nv rest
      let (pat, r2) ← decPat f r1
      match r2 with
      | ng :: r3 =>
        let ng ← ng.toNat?
        let (gb, r4) ← decLexemes ng r3
        match r4 with
        | no :: r5 =>
          let no ← no.toNat?
          let (ob, r6) ← decOrder no r5
          match r6 with
          | lim :: r7 =>
            let lim ← (if lim == "-" then some none else lim.toNat?.map some)
            pure (.mk (d == "1") vars pat gb ob lim, r7)
          | [] => none
        | [] => none
      | [] => none
  | _ + 1, _ => none
end

def decode (s : String) : Option Sel :=
  let toks := splitOnChar s ','
  match decSel (toks.length + 1) toks with
  | some (q, []) => some q
  | _ => none

def parseDots : String → Option Dots
  | "a" => some .all | "n" => some .none | "b" => some .between | _ => none

/-- may two adjacent tokens be printed without a separator?  (conservative; mirrored in the Rust printer) -/
def tightSym (s : String) : Bool := s == "{" || s == "}" || s == "(" || s == ")" || s == ";" || s == ","

def canTouch (prev next : Tok) : Bool :=
  match prev, next with
  | .sym a, .sym b => (tightSym a && tightSym b) || (a == "}" && b == ".") || (a == ")" && b == ".")
  | .sym a, _ => tightSym a
  | .term t, .sym b => tightSym b || (b == "." && isVarLex t)
  | .kw _, .sym b => tightSym b
  | _, _ => false

def sepOfCode (c : Nat) (tightOk : Bool) : List Piece :=
  match c % 10 with
  | 0 => [.sp] | 1 => [.nl] | 2 => [.tab] | 3 => [.sp, .sp]
  | 4 => [.sp, .comment " c".toList]
  | 5 => [.cr, .nl]
  | 6 => if tightOk then [] else [.sp]
  | 7 => if tightOk then [] else [.nl]
  | 8 => [.comment "{ ?x } \"".toList, .tab]
  | _ => [.sp]

/-- executable layout built from the request's number list and the token list being printed -/
def layoutOf (codes : List Nat) (toks : List Tok) : Layout :=
  let n := codes.length
  let code (i : Nat) : Nat := if n == 0 then 0 else codes.getD (i % n) 0
  { sep := fun i =>
      if i == 0 then (if code 0 % 2 == 0 then [] else [.nl])
      else
        let tightOk := match toks[i - 1]?, toks[i]? with
          | some a, some b => canTouch a b
          | _, _ => false
        sepOfCode (code i) tightOk,
    kwCase := fun i => code (i + 1) / 10 }

def showParse : Option Sel → String
  | some q => encode q
  | none => "err"

/-- nesting the guard counter needs for `n`-fold nesting of one construct (closed form, see the `nest` kinds) -/
def nestNeeds (kind : String) (n : Nat) : Option Nat :=
  match kind with
  | "group" => some n            -- SELECT * WHERE {^n }^n
  | "graph" => some (n + 1)      -- { GRAPH ?g {^… : one group per GRAPH plus the outer group
  | "union" => some (n + 2)
  | "sub" => some (n + 1)        -- { SELECT * WHERE {^n
  | "paren" => some (n + 3)      -- FILTER( (^n ?x > 1 )^n ): group, atom, n atoms, operand
  | "not" => some (n + 4)        -- FILTER( !^n (?x > 1) )
  | "arith" => some (n + 3)      -- FILTER( (^n ?x )^n > 1 )
  | "quoted" => some (n + 1)     -- ?s ?p <<^n … >>^n
  | _ => none

open Kolibrie.Arith in
def decA : Nat → List String → Option (AExpr × List String)
  | 0, _ => none
  | f + 1, "+" :: rest => do let (a, r1) ← decA f rest; let (b, r2) ← decA f r1; pure (.add a b, r2)
  | f + 1, "-" :: rest => do let (a, r1) ← decA f rest; let (b, r2) ← decA f r1; pure (.sub a b, r2)
  | f + 1, "*" :: rest => do let (a, r1) ← decA f rest; let (b, r2) ← decA f r1; pure (.mul a b, r2)
  | f + 1, "/" :: rest => do let (a, r1) ← decA f rest; let (b, r2) ← decA f r1; pure (.div a b, r2)
  | _ + 1, x :: rest => if x.startsWith "o" then (unhex (x.drop 1).toString).map fun s => (.opnd s, rest) else none
  | _ + 1, [] => none

open Kolibrie.Arith in
def encA : AExpr → List String
  | .opnd s => ["o" ++ hex s]
  | .add l r => "+" :: encA l ++ encA r
  | .sub l r => "-" :: encA l ++ encA r
  | .mul l r => "*" :: encA l ++ encA r
  | .div l r => "/" :: encA l ++ encA r

open Kolibrie.Arith in
def tokText : Kolibrie.Arith.Tok → String
  | .atom s => s
  | .op c => String.singleton c
  | .lp => "("
  | .rp => ")"

def handle (args : List String) : String :=
  match args with
  | "scan" :: rest => Kolibrie.Driver.C16Scan.handleScan rest
  | ["rt", lays, tree] =>
    match decode tree with
    | some q =>
      let one (lay : String) : Option (String × String) :=
        match splitOnChar lay ':' with
        | [d, codes] =>
          (match parseDots d, natList codes with
           | some dots, some codes =>
             let toks := toksSel dots q
             let text := render (layoutOf codes toks) 0 toks
             let h := toString (fnv (String.ofList text))
             let parsed := (tokens text).bind parseTok
             -- the specification: the source tree itself, or `err` when it needs more nesting than the parser allows
             let spec := match parseTok toks with
               | some _ => encode q
               | none => "err"
             some ("h=" ++ h ++ " " ++ showParse parsed, "h=" ++ h ++ " " ++ spec)
           | _, _ => none)
        | _ => none
      match (splitOnChar lays '/').mapM one with
      | some rs => "M " ++ joinWith " / " (rs.map (·.1)) ++ " | S " ++ joinWith " / " (rs.map (·.2))
      | none => "bad-request"
    | none => "bad-request"
  | ["text", hx, tree] =>
    -- a text together with the tree it must denote; the model lexes and parses the text itself
    match unhex hx, decode tree with
    | some text, some q =>
      "M " ++ showParse ((tokens text.toList).bind parseTok) ++ " | S " ++ encode q
    | _, _ => "bad-request"
  | ["fuzz", _] => "M total | S total"
  | ["nestseq", items] =>
    -- a history of texts parsed on one thread: each outcome is a function of its own text only
    let one (it : String) : Option String :=
      match splitOnChar it ':' with
      | [kind, n] => (n.toNat?.bind (nestNeeds kind)).map fun need =>
          if need ≤ Kolibrie.Extracted.maxNestingDepth then "ok" else "err"
      | _ => none
    match (splitOnChar items ',').mapM one with
    | some rs => let r := joinWith "," rs; "M " ++ r ++ " | S " ++ r
    | none => "bad-request"
  | ["arith", extra, _ws, tree] =>
    let codes := splitOnChar tree ','
    match decA (codes.length + 1) codes with
    | some (t, []) =>
      let toks := Kolibrie.Arith.printA (extra == "1") t
      let h := "h=" ++ toString (fnv (joinWith " " (toks.map tokText)))
      let m := match Kolibrie.Arith.parseA toks with
        | some t' => joinWith "," (encA t')
        | none => "err"
      "M " ++ h ++ " " ++ m ++ " | S " ++ h ++ " " ++ joinWith "," (encA t)
    | _ => "bad-request"
  | ["nest", kind, n] =>
    match n.toNat?.bind (nestNeeds kind) with
    | some need =>
      let r := if need ≤ Kolibrie.Extracted.maxNestingDepth then "ok" else "err"
      "M " ++ r ++ " | S " ++ r
    | none => "bad-request"
  | _ => "bad-request"

end Kolibrie.Driver.C16
