import Kolibrie.Core.Proto
import Kolibrie.Model.Prov
import Kolibrie.Spec.Prov
/-
Driver for C06.  Request:  `prov <mode> <D> <item> <item> …`
  mode  : dnf | sdd | minmax | bool
  D     : denominator of all probabilities (probability of a tagged fact = k / D)
  items : f:<s>.<p>.<o>:c            certain input fact (add_abox_triple)
          f:<s>.<p>.<o>:<k>          uncertain input fact with probability k/D (add_tagged_triple)
          r:<prems>~<negs>><concls>  rule; patterns `t.t.t` separated by `,`; term = `v<name>` | <id>
Reply:  `M <entries> # <new facts> | S <entries> | H <violated hypotheses>`
  entry = `s.p.o=<num>/<den>` (+ `@<dnf tag>` in the model line of mode dnf); S lists the facts with non-zero value.
  mode sdd has no model line (SddProvenance is a black box judged by the specification only).
-/
namespace Kolibrie.Driver.C06
open Kolibrie.Proto Kolibrie.Prov

def keyword : String := "prov"

def parseTerm (s : String) : Option Term :=
  if s.startsWith "v" && s.length > 1 then some (.var (s.drop 1).toString)
  else s.toNat?.map .const

def parsePat (s : String) : Option Pat :=
  match splitOnChar s '.' with
  | [a, b, c] => do let x ← parseTerm a; let y ← parseTerm b; let z ← parseTerm c; pure ⟨x, y, z⟩
  | _ => none

def parsePats (s : String) : Option (List Pat) :=
  if s.isEmpty then some [] else (splitOnChar s ',').mapM parsePat

def parseRule (s : String) : Option Rule :=
  match splitOnChar s '>' with
  | [body, hd] =>
    match splitOnChar body '~' with
    | [pr, ng] => do let p ← parsePats pr; let n ← parsePats ng; let c ← parsePats hd; pure ⟨p, n, c⟩
    | _ => none
  | _ => none

def parseFact (s : String) : Option Fact :=
  match natList s '.' with
  | some [a, b, c] => some ⟨a, b, c⟩
  | _ => none

inductive Item
  | certain (f : Fact)
  | seed (f : Fact) (k : Nat)
  | rule (r : Rule)

def parseItem (t : String) : Option Item :=
  match splitOnChar t ':' with
  | ["f", f, "c"] => (parseFact f).map .certain
  | ["f", f, k] => do let f ← parseFact f; let k ← k.toNat?; pure (.seed f k)
  | ["r", r] => (parseRule r).map .rule
  | _ => none

structure Req where
  facts : List Fact            -- dataset, request order
  certain : List Fact
  seeds : List (Fact × Nat)
  rules : List Rule

def mkReq (items : List Item) : Req :=
  items.foldl (fun r it => match it with
    | .certain f => { r with facts := r.facts ++ [f], certain := r.certain ++ [f] }
    | .seed f k => { r with facts := r.facts ++ [f], seeds := r.seeds ++ [(f, k)] }
    | .rule ru => { r with rules := r.rules ++ [ru] }) ⟨[], [], [], []⟩

def showFact (f : Fact) : String := s!"{f.s}.{f.p}.{f.o}"
def factKey (f : Fact) : List Nat := [f.s, f.p, f.o]

def showLit (l : Nat) : String := toString (litVar l) ++ (if litPol l then "+" else "-")
def showDnf (φ : Dnf) : String :=
  if φ.isEmpty then "F"
  else if φ.any (·.isEmpty) && φ.length == 1 then "T"
  else
    let cs := sortBy natListLe (φ.map fun c => c.mergeSort (fun a b => decide (a ≤ b)))
    joinWith "," (cs.map fun c => if c.isEmpty then "E" else joinWith "." (c.map showLit))

/-- generator invariants: head and NOT variables are bound by the positive premises; input facts are distinct -/
def wellFormed (r : Req) (D : Nat) : Bool :=
  r.rules.all (fun ru => safeRule ru && safeNeg ru && !ru.prem.isEmpty && !ru.concl.isEmpty)
  && r.facts.eraseDups.length == r.facts.length
  && r.seeds.all (fun s => s.2 ≤ D) && D > 0

def couldMatchT (a b : Term) : Bool :=
  match a, b with
  | .const x, .const y => x == y
  | _, _ => true
def couldMatch (h b : Pat) : Bool := couldMatchT h.s b.s && couldMatchT h.p b.p && couldMatchT h.o b.o

/-- hypothesis of `neg_pass_exact`: no head of a NOT rule can feed a premise or a negated atom of any rule -/
def negHeadsFeedNothing (rules : List Rule) : Bool :=
  (rules.filter fun r => !r.neg.isEmpty).all fun nr =>
    nr.concl.all fun h => rules.all fun r => (r.prem ++ r.neg).all fun b => !couldMatch h b

/-- the program is stratified in two strata: no negated atom can be fed by a NOT-rule head, directly or through
    positive rules (conservative predicate-level reachability, computed on patterns) -/
def stratified (rules : List Rule) : Bool :=
  let negRules := rules.filter fun r => !r.neg.isEmpty
  -- heads reachable from NOT-rule heads through rules
  let step (hs : List Pat) : List Pat :=
    (hs ++ (rules.filter fun r => r.prem.any fun b => hs.any fun h => couldMatch h b).flatMap (·.concl)).eraseDups
  let reach := (List.range (rules.length + 1)).foldl (fun hs _ => step hs) (negRules.flatMap (·.concl))
  negRules.all fun nr => nr.neg.all fun np => reach.all fun h => !couldMatch h np

def pw (D n : Nat) : Nat := D ^ n

def entry (f : Fact) (num den : Nat) (tag : String) : String :=
  showFact f ++ "=" ++ toString num ++ "/" ++ toString den ++ tag

def sortFacts (l : List Fact) : List Fact := l.mergeSort factLe

def showOutcome {T} (P : Prov T) (o : Outcome T) (val : T → Nat) (den : Nat) (tag : T → String) : String :=
  joinWith " " ((sortFacts o.all).map fun f => let t := getTag P o.tags f; entry f (val t) den (tag t))
    ++ " # " ++ joinWith ";" ((sortFacts o.newFacts).map showFact)

def showSpec (l : List (Fact × Nat)) (den : Nat) : String :=
  joinWith " " (((l.filter fun e => e.2 != 0).mergeSort fun a b => factLe a.1 b.1).map fun e => entry e.1 e.2 den "")

def fuelRounds : Nat := 400

def handleRaw (args : List String) : String :=
  match args with
  | mode :: d :: items =>
    match d.toNat?, items.mapM parseItem with
    | some D, some its =>
      let r := mkReq its
      if !wellFormed r D then "bad-request" else
      let hasNeg := r.rules.any fun ru => !ru.neg.isEmpty
      let feeds := hasNeg && !negHeadsFeedNothing r.rules
      -- no two-strata reading exists: nothing to judge
      if hasNeg && !stratified r.rules then "H unstratified" else
      let hsec := if feeds then " | H neg_head_feeds_rule" else ""
      let n := r.seeds.length
      let sorted := sortSeeds r.seeds
      if mode == "dnf" || mode == "sdd" then
        let spec := match probSpec D r.rules r.certain r.seeds fuelRounds with
          | none => "fuel"
          | some l => showSpec l (pw D n)
        if mode == "sdd" || feeds then "S " ++ spec ++ hsec else
        let m := match inferProv dnfProv (fun _ id => [[mkLit id true]]) r.rules r.facts r.seeds fuelRounds with
          | none => "fuel"
          | some o => showOutcome dnfProv o (fun t => shannon D (tblOf sorted) (List.range n) t) (pw D n)
                        (fun t => "@" ++ showDnf t)
        "M " ++ m ++ " | S " ++ spec ++ hsec
      else if mode == "minmax" then
        if hasNeg then "bad-request" else
        let spec := match cutSpec D r.rules r.certain r.seeds fuelRounds with
          | none => "fuel"
          | some l => showSpec l D
        let m := match inferProv (minmaxProv D) (fun k _ => min k D) r.rules r.facts r.seeds fuelRounds with
          | none => "fuel"
          | some o => showOutcome (minmaxProv D) o id D (fun _ => "")
        "M " ++ m ++ " | S " ++ spec
      else if mode == "bool" then
        let spec := match boolSpec r.rules r.certain r.seeds fuelRounds with
          | none => "fuel"
          | some l => showSpec (l.map fun f => (f, 1)) 1
        let m := match inferProv boolProv (fun k _ => decide (k > 0)) r.rules r.facts r.seeds fuelRounds with
          | none => "fuel"
          | some o => showOutcome boolProv o (fun t => if t then 1 else 0) 1 (fun _ => "")
        if feeds then "S " ++ spec ++ hsec else "M " ++ m ++ " | S " ++ spec ++ hsec
      else "bad-request"
    | _, _ => "bad-request"
  | _ => "bad-request"

/-- a reply containing a `fuel` section means the model or the specification ran out of fuel: inconclusive -/
def handle (args : List String) : String :=
  let r := handleRaw args
  if (r.splitOn " fuel").length > 1 then "fuel" else r

end Kolibrie.Driver.C06
