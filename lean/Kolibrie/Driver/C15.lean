import Kolibrie.Core.Proto
import Kolibrie.Model.Dict
import Kolibrie.Spec.TermIds
/-
Driver for C15.  Keyword `dict`, four request kinds (strings are hex, `-` = empty string; quoted ids are written
as plain numbers ≥ 2^31):

`dict seq [N:<next_id>] [NQ:<next_qt_id>] <op>…`       one dictionary + one quoted store, ops in order
    e:<hex>      Dictionary::encode            → id | panic
    d:<id>       Dictionary::decode            → hex | none
    q:a,b,c      QuotedTripleStore::encode     → id | panic
    r:<id>       QuotedTripleStore::decode     → a,b,c | none
    t:<id>       Dictionary::decode_term       → hex of the rendered term | none
    i:<id>       is_quoted_triple_id           → t | f
    Z            dump of both maps of both stores and the counters
  M = the model (two maps in lock-step, `&`-test), S = the first-appearance specification (`Abs`).

`dict union <build A> / <build B>`     build ops:
    N:<next_id> (first op only)   e:<hex>   q:a,b,c   x:<term>  (encode_term_star; term = hex | (t,t,t))
    a:s,p,o,g (add_quad by ids, g = `_` for the default graph)   c:g (create_graph)   s:s,p,o,prob (seed)
    T:<hex>,<hex>,<hex> (add_triple_parts)   P:<hex>,<hex>,<hex>,prob (add_tagged_triple)
    G:<term>,<term>,<term>,<hex> (add_quad_parts)
  → lexical dataset of `A.union(&B)`:  T[terms] G[graph names] Q[quads] P[seeds]  (sorted; M keeps duplicates,
    S is the duplicate-free set union of the two lexical datasets), then `K[…]`: what every identifier of A
    denotes in the union (S: what it denoted in A).

`dict uid <build A> / <build B>`       exact identifiers of the union (dictionary, quoted store, dataset); M only.

`dict mrg <hex,…> / <hex,…> / <hex,…>`  Dictionary::merge: two dictionaries built by encoding the listed strings,
    `a.merge(&b)`, then encode/decode of every probe string.  S = what a dictionary union must answer.
    H = `merge_ids_clash` when the two dictionaries give some id to different strings.
-/
namespace Kolibrie.Driver.C15
open Kolibrie.Proto Kolibrie.Dict Kolibrie.Extracted

def keyword : String := "dict"

/-! ### rendering -/

def render : LTerm → String
  | .plain s => s
  | .quoted s p o => "<< " ++ render s ++ " " ++ render p ++ " " ++ render o ++ " >>"

def showOT : OT → String
  | none => "?"
  | some t => hex (render t)

def strLe (a b : String) : Bool := !(b < a)
def sortStr (l : List String) : List String := sortBy strLe l
def dedupSorted : List String → List String
  | a :: b :: l => if a == b then dedupSorted (b :: l) else a :: dedupSorted (b :: l)
  | l => l
def bracket (tag : String) (l : List String) : String := tag ++ "[" ++ joinWith "," l ++ "]"

def showComp (c : Comp) : String := s!"{c.1}.{c.2.1}.{c.2.2}"
def showOptNat : Option Nat → String
  | none => "_"
  | some g => toString g

def showLQuad (qd : LQuad) : String :=
  joinWith "." [showOT qd.s, showOT qd.p, showOT qd.o, match qd.g with | none => "_" | some g => showOT g]
def showLSeed (e : LSeed) : String :=
  joinWith "." [showOT e.1.1, showOT e.1.2.1, showOT e.1.2.2] ++ "=" ++ toString e.2

/-- lexical dataset, sorted; `set = true` removes duplicates (the specification is a set) -/
def showLDB (x : LDB) (set : Bool) : String :=
  let f (l : List String) := if set then dedupSorted (sortStr l) else sortStr l
  joinWith " " [bracket "T" (f (x.terms.map showOT)), bracket "G" (f (x.graphs.map showOT)),
                bracket "Q" (f (x.quads.map showLQuad)), bracket "P" (f (x.seeds.map showLSeed))]

def sortPairs {β} (l : List (Nat × β)) : List (Nat × β) := sortBy (fun a b => decide (a.1 ≤ b.1)) l

def dumpDict (d : Dict) : String :=
  let a := (sortPairs d.i2s).map fun e => s!"{e.1}={hex e.2}"
  let b := (sortPairs (d.s2i.map fun e => (e.2, e.1))).map fun e => s!"{hex e.2}={e.1}"
  bracket "D" a ++ bracket "S" (sortStr b) ++ s!"n={d.next}"
def dumpQ (q : QStore) : String :=
  let a := (sortPairs q.i2c).map fun e => s!"{e.1}={showComp e.2}"
  let b := (sortPairs (q.c2i.map fun e => (e.2, e.1))).map fun e => s!"{showComp e.2}={e.1}"
  bracket "Q" a ++ bracket "C" (sortStr b) ++ s!"n={q.next}"

def quadKey (qd : QuadI) : List Nat := [qd.s, qd.p, qd.o, match qd.g with | none => 0 | some g => g + 1]
def dumpDB (db : DB) : String :=
  let qs := (sortBy natListLe (db.quads.map quadKey)).map fun k => joinWith "." (k.map toString)
  let ss := (sortBy natListLe (db.seeds.map fun e => [e.1.1, e.1.2.1, e.1.2.2, e.2])).map fun k => joinWith "." (k.map toString)
  joinWith " " [dumpDict db.d, dumpQ db.q, bracket "G" ((sortNat db.graphs).map toString), bracket "A" qs, bracket "P" ss]

/-! ### parsing -/

def parseComp (s : String) : Option Comp :=
  match natList s with
  | some [a, b, c] => some (a, b, c)
  | _ => none

def isHexChar (c : Char) : Bool := ('0' ≤ c && c ≤ '9') || ('a' ≤ c && c ≤ 'f') || c == '-'

/-- term = hex | `(` term `,` term `,` term `)` -/
def parseTermF : Nat → List Char → Option (LTerm × List Char)
  | 0, _ => none
  | f + 1, cs =>
    match cs with
    | '(' :: rest =>
      match parseTermF f rest with
      | some (s, ',' :: r1) =>
        match parseTermF f r1 with
        | some (p, ',' :: r2) =>
          match parseTermF f r2 with
          | some (o, ')' :: r3) => some (.quoted s p o, r3)
          | _ => none
        | _ => none
      | _ => none
    | _ =>
      let h := cs.takeWhile isHexChar
      if h.isEmpty then none else (unhex (String.ofList h)).map fun s => (.plain s, cs.dropWhile isHexChar)

/-- comma separated terms up to the end of the token -/
def parseTermsF : Nat → List Char → Option (List LTerm)
  | 0, _ => none
  | f + 1, cs =>
    match parseTermF cs.length cs with
    | some (t, []) => some [t]
    | some (t, ',' :: rest) => (parseTermsF f rest).map (t :: ·)
    | _ => none

def parseTerms (s : String) : Option (List LTerm) := parseTermsF (s.length + 1) s.toList

def asPlain : LTerm → Option String
  | .plain s => some s
  | _ => none

def parseBOp (t : String) : Option BOp :=
  match splitOnChar t ':' with
  | ["e", h] => (unhex h).map .enc
  | ["q", c] => (parseComp c).map .qenc
  | ["x", tm] => match parseTerms tm with
      | some [x] => some (.star x)
      | _ => none
  | ["a", a] => match splitOnChar a ',' with
      | [s, p, o, g] => do
          let s ← s.toNat?; let p ← p.toNat?; let o ← o.toNat?; let g ← optNat g
          pure (.quad ⟨s, p, o, g⟩)
      | _ => none
  | ["c", g] => g.toNat?.map .create
  | ["s", a] => match natList a with
      | some [s, p, o, pr] => some (.seed (s, p, o) pr)
      | _ => none
  | ["T", a] => match splitOnChar a ',' with
      | [s, p, o] => do let s ← unhex s; let p ← unhex p; let o ← unhex o; pure (.triple s p o)
      | _ => none
  | ["P", a] => match splitOnChar a ',' with
      | [s, p, o, pr] => do let s ← unhex s; let p ← unhex p; let o ← unhex o; let pr ← pr.toNat?; pure (.tagged s p o pr)
      | _ => none
  | ["G", a] => match parseTerms a with
      | some [s, p, o, g] => (asPlain g).map fun g => .quadParts s p o g
      | _ => none
  | _ => none

/-- a build script: optional leading `N:<next_id>`, then ops -/
def parseBuild (toks : List String) : Option (DB × List BOp) :=
  match toks with
  | t :: rest =>
    match splitOnChar t ':' with
    | ["N", v] => do
        let v ← v.toNat?
        let ops ← rest.mapM parseBOp
        pure ({ DB.empty with d := ⟨[], [], v⟩ }, ops)
    | _ => (toks.mapM parseBOp).map fun ops => (DB.empty, ops)
  | [] => some (DB.empty, [])

def splitAt (sep : String) (l : List String) : List (List String) :=
  let r := l.foldl (fun (acc : List (List String) × List String) t =>
      if t == sep then (acc.2.reverse :: acc.1, []) else (acc.1, t :: acc.2)) ([], [])
  (r.2.reverse :: r.1).reverse

/-! ### `seq` -/

structure SeqSt where
  d : Dict
  q : QStore
  a : Abs

def resNat : Except Err Nat → String
  | .ok n => toString n
  | .error .panic => "panic"
  | .error .fuel => "fuel"
def resOT : Except Err OT → String
  | .ok none => "none"
  | .ok (some t) => hex (render t)
  | .error .panic => "panic"
  | .error .fuel => "fuel"

def dumpAbs (a : Abs) : String :=
  let ds := a.strs.items.zipIdx.map fun (s, k) => (a.strs.base + k, s)
  let cs := a.comps.items.zipIdx.map fun (c, k) => (a.comps.base + k, c)
  bracket "D" (ds.map fun e => s!"{e.1}={hex e.2}") ++ bracket "S" (sortStr (ds.map fun e => s!"{hex e.2}={e.1}")) ++
    s!"n={a.strs.base + a.strs.items.length}" ++ "/" ++
  bracket "Q" (cs.map fun e => s!"{e.1}={showComp e.2}") ++ bracket "C" (sortStr (cs.map fun e => s!"{showComp e.2}={e.1}")) ++
    s!"n={a.comps.base + a.comps.items.length}"

/-- one op: (new state, model output, spec output); `none` = malformed token -/
def seqStep (st : SeqSt) (t : String) : Option (SeqSt × String × String) :=
  match splitOnChar t ':' with
  | ["e", h] => (unhex h).map fun s =>
      let (d, mo) := match st.d.encode s with
        | .ok (d, id) => (d, toString id)
        | .error e => (st.d, resNat (.error e))
      let (a, so) := match st.a.encode s with
        | .ok (a, id) => (a, toString id)
        | .error e => (st.a, resNat (.error e))
      ({ st with d := d, a := a }, mo, so)
  | ["d", i] => i.toNat?.map fun i =>
      let f (o : Option String) := match o with | some s => hex s | none => "none"
      (st, f (st.d.decode i), f (st.a.decode i))
  | ["q", c] => (parseComp c).map fun c =>
      let (q, mo) := match st.q.encode c with
        | .ok (q, id) => (q, toString id)
        | .error e => (st.q, resNat (.error e))
      let (a, so) := match st.a.qencode c with
        | .ok (a, id) => (a, toString id)
        | .error e => (st.a, resNat (.error e))
      ({ st with q := q, a := a }, mo, so)
  | ["r", i] => i.toNat?.map fun i =>
      let f (o : Option Comp) := match o with | some c => showComp c | none => "none"
      (st, f (st.q.decode i), f (st.a.qdecode i))
  | ["t", i] => i.toNat?.map fun i =>
      -- an ill-founded store (forward reference through the raw API) is outside the hypotheses: report `fuel`
      if st.q.wf then (st, resOT (decodeTerm st.d st.q i), resOT (st.a.term i)) else (st, "fuel", "fuel")
  | ["i", i] => i.toNat?.map fun i =>
      let f (b : Bool) := if b then "t" else "f"
      (st, f (isQuoted i), f (specIsQuoted i))
  | ["Z"] => some (st, dumpDict st.d ++ "/" ++ dumpQ st.q, dumpAbs st.a)
  | _ => none

def seqRun : List String → SeqSt → List String → List String → Option (List String × List String)
  | [], _, mo, so => some (mo.reverse, so.reverse)
  | t :: rest, st, mo, so =>
    match seqStep st t with
    | none => none
    | some (st', m, s) => seqRun rest st' (m :: mo) (s :: so)

def seqInit : List String → SeqSt × List String
  | toks =>
    let st : SeqSt := ⟨Dict.empty, QStore.empty, Abs.empty⟩
    let (st, toks) := match toks with
      | t :: rest => match splitOnChar t ':' with
          | ["N", v] => match v.toNat? with
              | some v => ({ st with d := ⟨[], [], v⟩, a := { st.a with strs := ⟨v, []⟩ } }, rest)
              | none => (st, toks)
          | _ => (st, toks)
      | [] => (st, toks)
    match toks with
    | t :: rest => match splitOnChar t ':' with
        | ["NQ", v] => match v.toNat? with
            | some v => ({ st with q := ⟨[], [], v⟩, a := { st.a with comps := ⟨v, []⟩ } }, rest)
            | none => (st, toks)
        | _ => (st, toks)
    | [] => (st, toks)

/-- forward references: a quoted component that is not yet allocated (the hypothesis `WfHist` of the theorems) -/
def forwardRefs (toks : List String) (qstart : Nat) : Bool :=
  (toks.foldl (fun (acc : Nat × Bool) t =>
    match splitOnChar t ':' with
    | ["q", c] => match parseComp c with
        | some (a, b, c) =>
          let bad (x : Nat) := isQuoted x && decide (acc.1 ≤ x)
          (acc.1 + 1, acc.2 || bad a || bad b || bad c)
        | none => acc
    | _ => acc) (qstart, false)).2

def handleSeq (toks : List String) : String :=
  let (st, ops) := seqInit toks
  match seqRun ops st [] [] with
  | none => "bad-request"
  | some (mo, so) =>
    let h := if st.q.wf && !forwardRefs ops st.q.next then "" else " | H forward_ref"
    "M " ++ joinWith " " mo ++ " | S " ++ joinWith " " so ++ h

/-! ### `union` / `uid` -/

def buildBoth (toks : List String) : Option (Except Err DB × Except Err DB) :=
  match splitAt "/" toks with
  | [ta, tb] => do
      let (a0, opsA) ← parseBuild ta
      let (b0, opsB) ← parseBuild tb
      pure (DB.build opsA a0, DB.build opsB b0)
  | _ => none

/-- what every identifier of `a` denotes in `u` -/
def showStable (a u : DB) : String :=
  bracket "K" ((sortNat (keys a.d.i2s ++ keys a.q.i2c)).map fun id => s!"{id}={showOT (u.den id)}")

/-- the specification of `union`: panics exactly when `other` contains an identifier that does not decode or
    when an id range is exhausted; otherwise the set union of the two lexical datasets, and `self`'s identifiers
    keep their meaning -/
def specUnion (a b : DB) : String :=
  if !b.closed then "panic"
  else if newPlain a b > 0 && a.d.next + newPlain a b > quotedBit then "panic"
  else if newQuoted a b > 0 && a.q.next + newQuoted a b > u32Max then "panic"
  else showLDB (lunion a.lex b.lex) true ++ " " ++ showStable a a

def hyps (a b : DB) : String :=
  let hs := (if a.q.wf && b.q.wf then [] else ["forward_ref"]) ++ (if b.closed then [] else ["dangling_ids"])
  if hs.isEmpty then "" else " | H " ++ joinWith "," hs

def handleUnion (toks : List String) : String :=
  match buildBoth toks with
  | none => "bad-request"
  | some (.ok a, .ok b) =>
    if !(a.q.wf && b.q.wf) then "M fuel | S fuel" ++ hyps a b else
    let m := match union a b with
      | .ok u => showLDB u.lex false ++ " " ++ showStable a u
      | .error .panic => "panic"
      | .error .fuel => "fuel"
    -- identifiers of `self` that decode to nothing may be captured by the union's fresh ids: no claim (M only)
    if !a.closed then "M " ++ m ++ " | H dangling_ids_self" else
    "M " ++ m ++ " | S " ++ specUnion a b ++ hyps a b
  | some _ => "M panic | S panic"

def handleUid (toks : List String) : String :=
  match buildBoth toks with
  | none => "bad-request"
  | some (.ok a, .ok b) =>
    if !(a.q.wf && b.q.wf) then "M fuel" else
    match union a b with
    | .ok u => "M " ++ dumpDB u
    | .error .panic => "M panic"
    | .error .fuel => "M fuel"
  | some _ => "M panic"

/-! ### `mrg` -/

def encAll (l : List String) : Dict :=
  l.foldl (fun d s => match d.encode s with | .ok (d', _) => d' | .error _ => d) Dict.empty

/-- `.` = empty list -/
def parseHexList (s : String) : Option (List String) :=
  if s == "." then some [] else (splitOnChar s ',').mapM unhex

def handleMrg (toks : List String) : String :=
  match splitAt "/" toks with
  | [[ta], [tb], [tp]] =>
    match parseHexList ta, parseHexList tb, parseHexList tp with
    | some sa, some sb, some probes =>
      let a := encAll sa
      let b := encAll sb
      let m := a.merge b
      -- model: for every probe, `decode(encode(s))` on the merged dictionary (encode may allocate)
      let r := probes.foldl (fun (acc : Dict × List String) s =>
        match acc.1.encode s with
        | .ok (d, id) => (d, (match d.decode id with | some r => hex r | none => "none") :: acc.2)
        | .error _ => (acc.1, "panic" :: acc.2)) (m, [])
      let mo := r.2.reverse
      -- specification: a dictionary is a bijection, so `decode(encode(s)) = s`, one id per distinct string
      let so := probes.map hex
      let cnt := toString (dedupSorted (sortStr ((sa ++ sb ++ probes).map hex))).length
      let mcnt := toString (keys r.1.i2s).length
      "M " ++ joinWith " " (mo ++ [mcnt]) ++ " | S " ++ joinWith " " (so ++ [cnt]) ++
        (if idsClash a b then " | H merge_ids_clash" else "")
    | _, _, _ => "bad-request"
  | _ => "bad-request"

def handle (args : List String) : String :=
  match args with
  | "seq" :: rest => handleSeq rest
  | "union" :: rest => handleUnion rest
  | "uid" :: rest => handleUid rest
  | "mrg" :: rest => handleMrg rest
  | _ => "bad-request"

end Kolibrie.Driver.C15
