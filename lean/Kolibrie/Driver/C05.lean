import Kolibrie.Core.Proto
import Kolibrie.Model.Datalog
import Kolibrie.Spec.LeastModel
/-
Driver for C05.  Request:  `dl <strategy> <vals> R:<rule> … F:s,p,o …`
  strategy  n (naive) | s (semi-naive) | p (semi-naive parallel) | b (provenance, BooleanProvenance)
  vals      one entry per constant id 0..k-1, comma separated: `e` (symbolic, numeric reading 0) or an integer
  rule      prem+prem/neg+neg/filter+filter/concl+concl   (`-` = empty section)
            pattern `t.t.t`, term `v<n>` | `c<id>`; filter `v<n>.<op>.<rhs>`, op gt|lt|ge|le|eq|ne|xx, rhs `n<int>` | `v<n>`
Reply: `M [s.p.o;…] n=<new facts> r2=<new facts of a second run> | S … | H <violated hypotheses>`
-/
namespace Kolibrie.Driver.C05
open Kolibrie.Proto Kolibrie.Datalog

def keyword : String := "dl"

def parseTerm (s : String) : Option Term :=
  match s.toList with
  | 'v' :: r => (String.ofList r).toNat?.map Term.var
  | 'c' :: r => (String.ofList r).toNat?.map Term.const
  | _ => none

def parsePat (s : String) : Option Pat :=
  match splitOnChar s '.' with
  | [a, b, c] => do let x ← parseTerm a; let y ← parseTerm b; let z ← parseTerm c; pure ⟨x, y, z⟩
  | _ => none

def parsePats (s : String) : Option (List Pat) :=
  if s == "-" then some [] else (splitOnChar s '+').mapM parsePat

def parseOp (s : String) : Option CmpOp :=
  match s with
  | "gt" => some .gt | "lt" => some .lt | "ge" => some .ge | "le" => some .le
  | "eq" => some .eq | "ne" => some .ne | "xx" => some .other | _ => none

def parseInt (s : String) : Option Int :=
  match s.toList with
  | '-' :: r => (String.ofList r).toNat?.map fun n => - (Int.ofNat n)
  | _ => s.toNat?.map Int.ofNat

def parseFilter (s : String) : Option Filter :=
  match splitOnChar s '.' with
  | [a, b, c] => do
      let v ← (match parseTerm a with | some (.var v) => some v | _ => none)
      let op ← parseOp b
      let rhs ← (match c.toList with
        | 'n' :: r => (parseInt (String.ofList r)).map Rhs.num
        | _ => match parseTerm c with | some (.var w) => some (Rhs.var w) | _ => none)
      pure ⟨v, op, rhs⟩
  | _ => none

def parseRule (s : String) : Option Rule :=
  match splitOnChar s '/' with
  | [a, b, c, d] => do
      let pr ← parsePats a; let ng ← parsePats b
      let fs ← (if c == "-" then some [] else (splitOnChar c '+').mapM parseFilter)
      let cs ← parsePats d
      pure ⟨pr, ng, fs, cs⟩
  | _ => none

def parseVals (s : String) : Option (List Int) :=
  (splitOnChar s ',').mapM fun t => if t == "e" then some 0 else parseInt t

def parseFact (s : String) : Option Fact :=
  match natList s with
  | some [a, b, c] => some ⟨a, b, c⟩
  | _ => none

def parseBody : List String → List Rule → List Fact → Option (List Rule × List Fact)
  | [], rs, fs => some (rs.reverse, fs.reverse)
  | t :: rest, rs, fs =>
      match t.toList with
      | 'R' :: ':' :: r => (parseRule (String.ofList r)).bind fun x => parseBody rest (x :: rs) fs
      | 'F' :: ':' :: r => (parseFact (String.ofList r)).bind fun x => parseBody rest rs (x :: fs)
      | _ => none

def termConst : Term → List Nat
  | .const c => [c]
  | .var _ => []
def patConsts (p : Pat) : List Nat := termConst p.s ++ termConst p.p ++ termConst p.o
def ruleConsts (r : Rule) : List Nat := (r.premise ++ r.negative ++ r.conclusion).flatMap patConsts

def showFacts (l : List Fact) : String :=
  let ks := sortBy natListLe (l.map fun f => [f.s, f.p, f.o])
  "[" ++ joinWith ";" (ks.map fun k => joinWith "." (k.map toString)) ++ "]"

def runStrategy (strat : String) (val : Nat → Int) (rules : List Rule) (fuel : Nat) (facts : List Fact) :
    Option (List Fact) :=
  match strat with
  | "n" => inferNaive val rules fuel facts
  | "s" => inferSemi val rules fuel facts
  | "p" => inferPar rules fuel facts
  | "b" => provModel val rules fuel facts
  | _ => none

def report (n0 : Nat) (first second : List Fact) : String :=
  showFacts first ++ " n=" ++ toString (first.length - n0) ++ " r2=" ++ toString (second.length - first.length)

def hyps (strat : String) (rules : List Rule) : List String :=
  let par := strat == "p"
  let hasNeg := rules.any fun r => !r.negative.isEmpty
  (if par && rules.any (fun r => decide (r.premise.length ∉ Kolibrie.Extracted.parallelArities))
    then ["parallel_rule_has_3plus_premises"] else [])
  ++ (if par && rules.any (fun r => r.premise.any fun p => match p.p with | .var _ => true | .const _ => false)
    then ["parallel_variable_predicate"] else [])
  ++ (if par && rules.any (fun r => !r.filters.isEmpty) then ["parallel_filters"] else [])
  ++ (if strat != "b" && hasNeg then ["negation_non_provenance_strategy"] else [])
  ++ (if !negHeadsFeedNoPremise rules then ["negation_head_feeds_rule"] else [])
  ++ (if !stratified rules then ["negation_not_stratified"] else [])
  ++ (if !allSafe rules then ["unsafe_rule"] else [])

def handle (args : List String) : String :=
  match args with
  | strat :: vals :: body =>
    match parseVals vals, parseBody body [] [] with
    | some vs, some (rules, facts0) =>
        let k := vs.length
        if !(["n", "s", "p", "b"].contains strat) then "bad-request"
        else if facts0.any (fun f => f.s ≥ k || f.p ≥ k || f.o ≥ k) then "bad-request"
        else if rules.any (fun r => (ruleConsts r).any (· ≥ k)) then "bad-request"
        else if rules.any (fun r => !negSafe r) then "M rejected | S rejected"   -- `try_add_rule` / `check_rule_safety`
        else
          let val : Nat → Int := fun i => vs.getD i 0
          let facts := freshOf [] facts0          -- the store is a set
          let fuel := k * k * k + 3
          let h := hyps strat rules
          let hs := if h.isEmpty then "" else " | H " ++ joinWith "," h
          let s := match specModel val rules fuel facts with
            | some m => report facts.length m m
            | none => "fuel"
          match runStrategy strat val rules fuel facts with
          | none => "M fuel | S " ++ s ++ hs
          | some first =>
              match runStrategy strat val rules fuel first with
              | none => "M fuel | S " ++ s ++ hs
              | some second => "M " ++ report facts.length first second ++ " | S " ++ s ++ hs
    | _, _ => "bad-request"
  | _ => "bad-request"

end Kolibrie.Driver.C05
