import Kolibrie.Core.Proto
import Kolibrie.Model.Window
import Kolibrie.Spec.Window
/-
Driver for C09.  Request: `win <width> <slide> <mode> <tick>/<strategies> <ts>:<item> <ts>:<item> …`
  mode        `cb` (CSPARQLWindow + register_callback) | `rx` (WindowRunner: start_receiver/push/drain) |
              `pb` (add_probabilistic_to_window + callback) — only the harness distinguishes them, the model is the same
  tick        `T` TimeDriven | `U` TupleDriven | `B` BatchDriven
  strategies  `-` (none) or `.`-separated list of `C` (OnWindowClose) `N` (NonEmptyContent) `P<k>` (Periodic(k), k ≥ 1)
Reply: `M <firings> | S <firings> | H <…>` with firings = `<trigger>:[i.j.k]` (items sorted) or `-` when nothing fired.
`S` is printed only for the combination the property speaks about (`T/C`) on in-order streams; otherwise the
request only exercises the correspondence (`H` then names why: `out_of_order`, `other_strategy`).
-/
namespace Kolibrie.Driver.C09
open Kolibrie.Proto Kolibrie.Window

def keyword : String := "win"

def showFiring (f : Firing) : String :=
  toString f.trigger ++ ":[" ++ joinWith "." ((f.content.mergeSort (· ≤ ·)).map toString) ++ "]"

def showFirings (l : List Firing) : String :=
  if l.isEmpty then "-" else joinWith " " (l.map showFiring)

def parseStrategy (s : String) : Option Strategy :=
  if s == "C" then some .onWindowClose
  else if s == "N" then some .nonEmptyContent
  else match s.toList with
    | 'P' :: ds => match (String.ofList ds).toNat? with
        | some k => if k ≥ 1 then some (.periodic k) else none
        | none => none
    | _ => none

def parseCfgTok (s : String) : Option (Tick × List Strategy) :=
  match splitOnChar s '/' with
  | [t, ss] => do
      let tick ← (if t == "T" then some Tick.timeDriven else if t == "U" then some Tick.tupleDriven
                  else if t == "B" then some Tick.batchDriven else none)
      let strats ← (if ss == "-" then some [] else (splitOnChar ss '.').mapM parseStrategy)
      pure (tick, strats)
  | _ => none

def parseItem (s : String) : Option (Nat × Nat) :=
  match splitOnChar s ':' with
  | [t, x] => do let t ← t.toNat?; let x ← x.toNat?; pure (x, t)
  | _ => none

def handle (args : List String) : String :=
  match args with
  | w :: s :: mode :: c :: items =>
    match w.toNat?, s.toNat?, parseCfgTok c, items.mapM parseItem with
    | some w, some s, some (tick, strats), some stream =>
      if s == 0 || !(mode == "cb" || mode == "rx" || mode == "pb") then "bad-request" else
      let cfg : Cfg := ⟨w, s, strats, tick⟩
      let m := "M " ++ showFirings (run cfg stream)
      let std := decide (tick = .timeDriven) && decide (strats = [.onWindowClose])
      let ord := inOrderB stream
      if std && ord then m ++ " | S " ++ showFirings (reports w s stream)
      else m ++ " | H " ++ joinWith "," ((if ord then [] else ["out_of_order"]) ++ (if std then [] else ["other_strategy"]))
    | _, _, _, _ => "bad-request"
  | _ => "bad-request"

end Kolibrie.Driver.C09
