import Kolibrie.Core.Proto
import Kolibrie.Model.Repairs
import Kolibrie.Spec.Repairs
/-
Driver for C19.  Request: `rep <mode> <facts> <constraints> <rules> <goal>`
  facts        `s.p.o;s.p.o;…`            (`-` = none)          ids are decimal numbers
  constraints  `pat,pat/pat,…`            (`-` = none)          pat = `t.t.t`, t = number | `?name`
  rules        `pat,pat>pat,pat/…`        (`-` = none)
  goal         `t.t.t`
modes:  q  query_with_repairs(goal)            reply `[X=1,Y=2;…]` (bindings sorted)
        r  the repair list                     reply `{[1.2.3;…]|[…]}` in the order the code returns it
        o  the repair list of the *pre-fix* search for the given fact order (model only; used by the corpus)
        i  infer_new_facts_semi_naive_with_repairs   reply `base=[…] cons=t closed=t sound=t final=[…]|*`
Reply: `M … | S … | H inconsistent_facts?`
-/
namespace Kolibrie.Driver.C19
open Kolibrie.Proto Kolibrie.Terms Kolibrie.Repairs Kolibrie.RepairSpec

def keyword : String := "rep"

def parseTerm (s : String) : Option Term :=
  if s.startsWith "?" then some (.var (s.drop 1).toString) else s.toNat?.map .const

def parsePat (s : String) : Option Pattern :=
  match splitOnChar s '.' with
  | [a, b, c] => do pure ⟨← parseTerm a, ← parseTerm b, ← parseTerm c⟩
  | _ => none

def parseFact (s : String) : Option Fact :=
  match natList s '.' with
  | some [a, b, c] => some ⟨a, b, c⟩
  | _ => none

def parseList {β} (f : String → Option β) (sep : Char) (s : String) : Option (List β) :=
  if s == "-" then some [] else (splitOnChar s sep).mapM f

def parseRule (s : String) : Option Rule :=
  match splitOnChar s '>' with
  | [a, b] => do pure ⟨← parseList parsePat ',' a, ← parseList parsePat ',' b⟩
  | _ => none

def showFact (f : Fact) : String := s!"{f.s}.{f.p}.{f.o}"
def showFacts (l : List Fact) : String := "[" ++ joinWith ";" ((l.mergeSort Fact.le).map showFact) ++ "]"
def showRepairs (l : List (List Fact)) : String := "{" ++ joinWith "|" (l.map showFacts) ++ "}"

/-- the empty binding (an answer to a variable-free goal) is shown as `T`, so that "one answer" and "no answer" differ -/
def showBinding (b : Binding) : String :=
  if b.isEmpty then "T" else
  joinWith "," ((b.mergeSort fun x y => decide (x.1 ≤ y.1)).map fun (v, x) => s!"{v}={x}")
def showBindings (l : List Binding) : String :=
  "[" ++ joinWith ";" ((l.map showBinding).mergeSort fun a b => decide (a ≤ b)) ++ "]"

def canonRepairs (l : List (List Fact)) : List (List Fact) :=
  l.mergeSort fun a b => factsLe (sortedKey a) (sortedKey b)

def b2s (b : Bool) : String := if b then "t" else "f"

/-- least fixpoint of the rules over a base (no constraints): what the materialisation reaches when nothing is rejected -/
def closure (rules : List Rule) (base : List Fact) : Option (List Fact) :=
  (inferLoop [] rules id 64 base base []).map (·.1)

def inferLine (C : List (List Pattern)) (rules : List Rule) (base : List Fact) : String :=
  match closure rules base with
  | none => "fuel"
  | some cl =>
    let fin := if violates C cl then "*" else showFacts cl
    s!"base={showFacts base} cons=t closed=t sound=t final={fin}"

def handle (args : List String) : String :=
  match args with
  | [mode, fs, cs, rs, g] =>
    match parseList parseFact ';' fs, parseList (parseList parsePat ',') '/' cs, parseList parseRule '/' rs, parsePat g with
    | some F, some C, some R, some q =>
      let F := F.eraseDups
      let h := if violates C F then " | H inconsistent_facts" else ""
      let fuel := repairFuel F.length
      match mode with
      | "q" =>
        match computeRepairs (violates C) fuel F with
        | none => "M fuel"
        | some reps =>
          "M " ++ showBindings (queryWithRepairs reps q) ++ " | S " ++ showBindings (iarAnswers (specViolates C) F q) ++ h
      | "h" =>
        -- history on one reasoner object (query, repair-aware materialisation, query): the first answer is mode `q`'s;
        -- the second must equal a fresh reasoner's answer on the materialised facts (compared inside the harness)
        match computeRepairs (violates C) fuel F with
        | none => "M fuel"
        | some reps =>
          "M " ++ showBindings (queryWithRepairs reps q) ++ " again=same | S " ++
            showBindings (iarAnswers (specViolates C) F q) ++ " again=same" ++ h
      | "r" =>
        match computeRepairs (violates C) fuel F with
        | none => "M fuel"
        | some reps =>
          "M " ++ showRepairs reps ++ " | S " ++ showRepairs (canonRepairs (allRepairs (specViolates C) F)) ++ h
      | "o" =>
        match searchOld (violates C) fuel F with
        | none => "M fuel"
        | some reps =>
          "M " ++ showRepairs reps ++ " | S " ++ showRepairs (canonRepairs (allRepairs (specViolates C) F)) ++ h
      | "i" =>
        if R.any fun r => r.conclusion.any fun c => c.vars.any fun v => !(r.premise.any fun p => decide (v ∈ p.vars)) then
          "bad-request"
        else
        match computeRepairs (violates C) fuel F with
        | none => "M fuel"
        | some reps =>
          let base := if violates C F then (maxByLen reps).getD F else F
          let sreps := canonRepairs (allRepairs (specViolates C) F)
          let sbase := if specViolates C F then (maxByLen sreps).getD F else F
          "M " ++ inferLine C R base ++ " | S " ++ inferLine C R sbase ++ h
      | _ => "bad-request"
    | _, _, _, _ => "bad-request"
  | _ => "bad-request"

end Kolibrie.Driver.C19
