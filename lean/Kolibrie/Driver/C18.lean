import Kolibrie.Core.Proto
import Kolibrie.Model.Sld
import Kolibrie.Spec.Sld
import Kolibrie.Driver.C19
/-
Driver for C18.  Request: `bc <facts> <rules> <goal>`   (syntax of facts / rules / patterns as in Driver/C19.lean)
Reply: `M <answers> | S <answers> [| H goal_uses_v_names]`; answers = the distinct bindings of the goal's variables, canonically sorted,
`X=_` for a variable the answer leaves unbound.
  M  backward chaining model (`Model/Sld.lean`, MAX_DEPTH extracted from the source)
  S  facts of the least model with derivation height ≤ MAX_DEPTH that match the goal (`Spec/Sld.lean`)
-/
namespace Kolibrie.Driver.C18
open Kolibrie.Proto Kolibrie.Terms Kolibrie.Sld Kolibrie.SldSpec

def keyword : String := "bc"

def showTermVal (t : Term) : Option String :=
  match t with
  | .const c => some (toString c)
  | .var _ => some "_"

/-- one answer, restricted to the goal's variables; `none` = the resolution ran out of fuel (cyclic bindings) -/
def showAnswer (goal : Pattern) (b : Subst) : Option String :=
  let vs := (goal.vars.eraseDups).mergeSort fun a c => decide (a ≤ c)
  (vs.mapM fun v =>
    let r := resolveT b (.var v)
    match r with
    | .var w => if (lookupT w b).isSome then none else some s!"{v}=_"
    | .const c => some s!"{v}={c}").map fun (parts : List String) => if parts.isEmpty then "T" else joinWith "," parts

def canon (l : List String) : String :=
  "[" ++ joinWith ";" ((l.eraseDups).mergeSort fun a b => decide (a ≤ b)) ++ "]"

def handle (args : List String) : String :=
  match args with
  | [fs, rs, g] =>
    match C19.parseList C19.parseFact ';' fs, C19.parseList C19.parseRule '/' rs, C19.parsePat g with
    | some F, some R, some goal =>
      let d := Kolibrie.Extracted.bcMaxDepth
      match (bc F R goal).mapM (showAnswer goal) with
      | none => "M fuel"
      | some ms =>
        let ss := (specAnswers F R d goal).map C19.showBinding
        -- trigger of the (repaired) finding C18-goal-uses-generated-names: a goal variable is one of the names `v{k}`
        let h := if goal.vars.any (fun v => (List.range 64).any fun k => genName k == v) then " | H goal_uses_v_names" else ""
        "M " ++ canon ms ++ " | S " ++ canon ss ++ h
    | _, _, _ => "bad-request"
  | _ => "bad-request"

end Kolibrie.Driver.C18
