import Kolibrie.Core.Proto
import Kolibrie.Model.Scan
/-
Scanner-level driver for C16.  Request tokens after `parse scan`:
  <which> <hexInput> <classes>
  which     ws | var | iri | bnode | pname | num | lit
  hexInput  hex UTF-8 of the scanner's input (`-` = empty)
  classes   `-` or comma separated `cp:flags` (decimal code point; flags 1 = is_alphabetic, 2 = is_numeric,
            4 = is_whitespace) for the distinct non-ASCII code points of the input; unlisted → all false
Reply `M <r> | S <r>` with <r> = `ok <consumed> <tokStart> <tokLen>` | `err <Kind> <off> <len>` | `panic` | `fuel`
(for `ws`: `ok <skipped> 0 0`).  S = M: the scanner model is the reference the theorems of Lemmas/Scan speak about.
-/
namespace Kolibrie.Driver.C16Scan
open Kolibrie.Proto Kolibrie.Scan

def parseClasses (c : String) : Option (List (Nat × Nat)) :=
  if c == "-" then some []
  else (splitOnChar c ',').mapM (fun e =>
    match splitOnChar e ':' with
    | [a, b] => do let x ← a.toNat?; let y ← b.toNat?; pure (x, y)
    | _ => none)

def flagOf (tbl : List (Nat × Nat)) (bit : Nat) (cp : Nat) : Bool :=
  match tbl.find? (fun e => e.1 == cp) with
  | some e => (e.2 / bit) % 2 == 1
  | none => false

def mkClass (tbl : List (Nat × Nat)) : CharClass :=
  { alpha := flagOf tbl 1, numeric := flagOf tbl 2, white := flagOf tbl 4 }

def showRes : Res → String
  | .ok n a l => "ok " ++ toString n ++ " " ++ toString a ++ " " ++ toString l
  | .err k o l => "err " ++ k ++ " " ++ toString o ++ " " ++ toString l
  | .panic => "panic"
  | .fuel => "fuel"

def scanner : String → Option (CharClass → Utf8.Bytes → Res)
  | "ws" => some skipWs | "var" => some scanVar | "iri" => some scanIri | "bnode" => some scanBnode
  | "pname" => some scanPname | "num" => some scanNum | "lit" => some scanLit | _ => none

def handleScan (args : List String) : String :=
  match args with
  | [which, hx, cl] =>
    let bytes? := if hx == "-" then some [] else hexBytes hx.toList
    match scanner which, bytes?, parseClasses cl with
    | some f, some bytes, some tbl =>
      let r := showRes (f (mkClass tbl) bytes)
      "M " ++ r ++ " | S " ++ r
    | _, _, _ => "bad-request"
  | _ => "bad-request"

end Kolibrie.Driver.C16Scan
