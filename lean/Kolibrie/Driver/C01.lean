import Kolibrie.Driver.EngineProto
/-!
Driver for C01.  Request: `select DB Select`.
Reply: `M alt1 || alt2 … | S spec | H not_well_scoped?`
`M` lists the distinct answers of the model over *every* assignment of {bind, hash, nested-loop} to the join
nodes of the lowered plan (the cost model's choice is an oracle); the implementation must produce one of them.
Each answer: `<sorted rows>` then, if ORDER BY is present, ` ord=<keys in sequence>` is **not** compared here — the
harness checks sortedness of the real sequence itself and prints `sorted=ok`; the model echoes `sorted=ok` (theorem
`order_sorted`).  LIMIT queries are generated only with a total ORDER BY… see harness.
-/
namespace Kolibrie.Driver.C01
open Kolibrie.Proto Kolibrie.Engine Kolibrie.Driver.EngineProto

def keyword : String := "select"

/-- table = the answer without LIMIT (a LIMIT answer is judged as a legal cut by the harness), `n` = the number
    of rows the limited answer must have -/
def render (run : Select → List (List (Option Val))) (q : Select) : String :=
  let full := run { q with spec := { q.spec with limit := none } }
  let n := match q.spec.limit with | none => full.length | some k => min k full.length
  showTable full ++ " n=" ++ toString n ++ " sorted=ok"

def handle (args : List String) : String :=
  match pDB args with
  | none => "bad-request"
  | some (db, ts) =>
    match pSelect ts with
    | some (q, []) =>
        let k := min (countJoins q.where_) 6
        let alts := ((allAlgs k).map (fun a => render (fun q => runSelect db q a) q)).eraseDups
        let spec := render (specSelect db) q
        let h := if wellScoped [] q.where_ then "" else " | H not_well_scoped"
        "M " ++ joinWith " || " alts ++ " | S " ++ spec ++ h
    | _ => "bad-request"

end Kolibrie.Driver.C01
