import Kolibrie.Core.Proto
import Kolibrie.Core.TermTok
import Kolibrie.Model.Load
/-
Driver for C13.
  `load <nt|nq|ttl|n3> <threads> <hex document> <prior quad>…`
      The prior quads are stored first (terms encoded subject, predicate, object, graph — so ids are as in the harness),
      then the document is loaded with the real entry point (`<threads>` = size of the rayon pool; the model ignores it).
      reply `M n=<k> <quad>… | S n=<k> <quad>… | H <violated forced hypotheses>`; quads = lexical quads of the final
      database, sorted, duplicates removed; a quad with an id that has no dictionary entry prints `?`.
      `S` = prior quads ∪ the document's triples read chunk-free (Model/Load.triples*).
  `load cross <quad>…`  the same triples written as N-Triples, N-Quads, Turtle and N3 (IRIs in `<>`, literals in `""`),
      each loaded into an empty database: reply `M nt=<h> nq=<h> ttl=<h> n3=<h> | S …` with `h` a hash of the quad set.
-/
namespace Kolibrie.Driver.C13
open Kolibrie.Proto Kolibrie.Lines Kolibrie.Load Kolibrie.TermTok Kolibrie.Extracted

def keyword : String := "load"

def showOpt : Option LQuad → String
  | some q => showQuad q
  | none => "?"

def showSet (l : List (Option LQuad)) : String :=
  let ks := dedupSorted (sortBy (fun a b => !(b < a)) (l.map showOpt))
  "n=" ++ toString ks.length ++ (if ks.isEmpty then "" else " " ++ joinWith " " ks)

def prior (qs : List LQuad) : DB := encodeSeq DB.empty qs

def loadModel (fmt : String) (db : DB) (doc : Str) : Option DB :=
  if fmt == "nt" then some (loadNT chunkSizeNT db doc)
  else if fmt == "nq" then some (loadNQ db doc)
  else if fmt == "ttl" then loadTTL db doc
  else some (loadN3 chunkSizeN3 db doc)

def docTriples (fmt : String) (doc : Str) : Option (List LQuad) :=
  if fmt == "nt" then some (triplesNT doc)
  else if fmt == "nq" then some (parseNQ doc)
  else if fmt == "ttl" then (parseTTL [] doc).map (·.2)
  else some (triplesN3 doc)

/-- forced hypotheses of `loadN3_spec_partial` -/
def n3Violations (priorQs : List LQuad) (doc : Str) : List String :=
  (if priorQs.isEmpty then [] else ["n3_prior_dictionary_nonempty"]) ++
  (if (lines doc).length ≤ chunkSizeN3 then [] else ["n3_multi_chunk"])

/-- the harness' own plain writer for `cross`: IRIs (anything with a `:`) in `<>`, other values as `"…"` -/
def crossTerm (s : Str) : Str := if s.contains ':' then angle s else '"' :: s ++ ['"']
def crossDoc (fmt : String) (qs : List LQuad) : Str :=
  qs.flatMap fun q => crossTerm (render q.s) ++ ' ' :: crossTerm (render q.p) ++ ' ' :: crossTerm (render q.o) ++ " .\n".toList

def hashSet (l : List (Option LQuad)) : String := toString (fnv (showSet l))

/-- RDF/XML generated family (mirrors `xml_triple` of the harness): the k-th resource's triple, as a shown quad -/
def xmlTriple (i : Nat) : LQuad :=
  let o : String := if i % 3 == 0 then "http://e/r" ++ toString ((i * 7) % 1000) else "v" ++ toString i ++ " x"
  ⟨.plain ("http://e/r" ++ toString i).toList, .plain ("http://e/p" ++ toString (i % 5)).toList, .plain o.toList, none⟩

def sumHash (l : List String) : UInt64 := l.foldl (fun acc q => acc + fnv q) 0

def handle (args : List String) : String :=
  match args with
  | ["xml", n, extra, _layout, prior] =>
    -- the RDF/XML reader itself is not modelled (quick-xml tokenisation): the expected store is the specification's
    -- (previous quads plus the document's triples), compared by cardinality and an order-independent checksum
    match n.toNat?, extra.toNat?, prior.toNat? with
    | some n, some extra, some prior =>
      let fam := (List.range (n + extra)).map xmlTriple
      let pri : List LQuad :=
        if prior == 2 then
          [⟨.plain "urn:x".toList, .plain "urn:y".toList, .plain "urn:z".toList, none⟩,
           ⟨.plain "http://e/p1".toList, .plain "http://e/r1".toList, .plain "v1 x".toList, none⟩]
        else []
      let all := (fam ++ pri).map showQuad
      let r := "n=" ++ toString all.length ++ " sum=" ++ toString (sumHash all)
      "M " ++ r ++ " | S " ++ r
    | _, _, _ => "bad-request"
  | "cross" :: qs =>
    match qs.mapM parseQuadTok with
    | none => "bad-request"
    | some d =>
      let one (fmt : String) : String :=
        match loadModel fmt DB.empty (crossDoc fmt d) with
        | some db => fmt ++ "=" ++ hashSet (lex db)
        | none => fmt ++ "=panic"
      let exp (fmt : String) : String := fmt ++ "=" ++ hashSet (d.map some)
      let fmts := ["nt", "nq", "ttl", "n3"]
      let lit := d.any fun q => match q.o with | .plain o => !o.contains ':' | _ => false
      "M " ++ joinWith " " (fmts.map one) ++ " | S " ++ joinWith " " (fmts.map exp) ++
        (if lit then " | H n3_literal_object" else "")
  | fmt :: _threads :: doc :: qs =>
    if fmt != "nt" && fmt != "nq" && fmt != "ttl" && fmt != "n3" then "bad-request" else
    match unhex doc, qs.mapM parseQuadTok with
    | some text, some pq =>
      let db := prior pq
      let doc := text.toList
      let m := match loadModel fmt db doc with
        | some db' => showSet (lex db')
        | none => "panic"
      let s := match docTriples fmt doc with
        | some ts => " | S " ++ showSet ((pq ++ ts).map some)
        | none => ""
      let hs := if fmt == "n3" then n3Violations pq doc else []
      "M " ++ m ++ s ++ (if hs.isEmpty then "" else " | H " ++ joinWith "," hs)
    | _, _ => "bad-request"
  | _ => "bad-request"

end Kolibrie.Driver.C13
