import Kolibrie.Core.Proto
import Kolibrie.Model.Sdd
import Kolibrie.Spec.TruthTable
/-
Driver for C07.  Request: `sdd <n> <tok> <tok> …`   (variables are `0 … n-1`, n ≤ 8)

handle references `<h>`: `T`, `F`, or the index of an earlier *slot* (every handle-producing token fills the
next slot; a budgeted operation that reports exhaustion fills its slot with FALSE).

  v:<var>:<p>                 ensure_variable(var, p)                      p, q rationals `a/b`, `-a/b`, `a`
  w:<var>:<p>:<q>             ensure_variable_weights(var, p, q, Independent)
  x:<var>:<p>:<q>:<g>         ensure_variable_weights(var, p, q, ExclusiveGroup(g))
  l:<var>:<0|1>               literal                                     → slot
  a:<h>:<h>  o:<h>:<h>        apply And / Or                              → slot
  n:<h>                       negate                                      → slot
  e:<v.v.v>                   exactly_one                                 → slot
  f:<bits>                    the function with truth-table number <bits> (bit k = value under assignment k),
                              built as OR over its minterms of AND over the literals of variables 0 … n-1  → slot
  tl:<var>:<0|1>:<k>:<nb>  ta:<h>:<h>:<k>:<nb>  to:…  tn:<h>:<k>:<nb>  te:<vars>:<k>:<nb>
                              try_* with a fresh budget: deadline unavailable from the k-th checkpoint on
                              (`_` = never), node budget nb (`_` = unlimited)   → slot
  W:<h>  G:<h>  M:<h>  K:<h>  C     wmc, wmc_gradient, enumerate_models (M: judged, K: exact cube list), node_count

Output, one token per request token:
  v/w/x → `.`;  slot tokens → `<truth table, hex>.<first slot holding the same handle>`, `Ed` / `En` on exhaustion;
  W → `r:<rational>`; G → `g:<r0>,<r1>,…` (variables 0 … n-1); M → `<truth table of the union of the cubes>.<d|o>`
  (d = cubes pairwise disjoint); K → cube list; C → node count; `P` = the operation panicked (processing stops).
The last token `wf` reports that the final arena of the model satisfies the ordering discipline `ordOk`
(the implementation side prints the constant `wf`); not claimed after a literal of an unregistered variable.
`fuel` as the whole model output = the model ran out of fuel.
-/
namespace Kolibrie.Driver.C07
open Kolibrie.Proto Kolibrie.Sdd

def keyword : String := "sdd"

def fuelAmount : Nat := 4000

/-! rationals -/
def parseRat (s : String) : Option Rat :=
  let (neg, body) := if s.startsWith "-" then (true, (s.drop 1).toString) else (false, s)
  let r : Option Rat := match splitOnChar body '/' with
    | [a] => a.toNat?.map (fun x => (x : Rat))
    | [a, b] => do
        let x ← a.toNat?; let y ← b.toNat?
        if y = 0 then none else some ((x : Rat) / (y : Rat))
    | _ => none
  r.map (fun q => if neg then -q else q)

def showRat (q : Rat) : String :=
  if q.den = 1 then toString q.num else toString q.num ++ "/" ++ toString q.den

/-! truth tables as bit masks over `2^n` assignments -/
def hexOfNat (x : Nat) : String :=
  if x = 0 then "0" else String.ofList (Nat.toDigits 16 x)

def maskOfFn (n : Nat) (f : Fn) : Nat :=
  (List.range (2 ^ n)).foldl (fun acc k => if f (asgOfBits k) then acc ||| (1 <<< k) else acc) 0

def fullMask (n : Nat) : Nat := 2 ^ (2 ^ n) - 1

def bitsOfAsg (n : Nat) (σ : Asg) : Nat :=
  (List.range n).foldl (fun acc v => if σ v then acc ||| (1 <<< v) else acc) 0

def fnOfMask (n : Nat) (mask : Nat) : Fn := fun σ => mask.testBit (bitsOfAsg n σ)

def showLit (l : Nat × Bool) : String := toString l.1 ++ (if l.2 then "+" else "-")

def cubeLe : List (Nat × Bool) → List (Nat × Bool) → Bool
  | [], _ => true
  | _ :: _, [] => false
  | a :: l, b :: r => if a = b then cubeLe l r else litLe a b

def showCubes (cs : List (List (Nat × Bool))) : String :=
  let cs := cs.mergeSort cubeLe
  "[" ++ joinWith ";" (cs.map (fun c => if c.isEmpty then "*" else joinWith "." (c.map showLit))) ++ "]"

def cubeFn (c : List (Nat × Bool)) : Fn := fun σ => c.all (fun l => σ l.1 == l.2)

def cubesDisjoint (n : Nat) (cs : List (List (Nat × Bool))) : Bool :=
  (List.range (2 ^ n)).all (fun k => (cs.filter (fun c => cubeFn c (asgOfBits k))).length ≤ 1)

/-! tokens -/
inductive HRef | t | f | slot (i : Nat)

def parseH (s : String) : Option HRef :=
  if s == "T" then some .t else if s == "F" then some .f else s.toNat?.map .slot

inductive Tok
  | var (v : Nat) (p : Rat)
  | wvar (v : Nat) (p q : Rat) (k : Kind)
  | lit (v : Nat) (pol : Bool) (bud : Option Budget)
  | app (a c : HRef) (op : Op) (bud : Option Budget)
  | neg (a : HRef) (bud : Option Budget)
  | xone (vs : List Nat) (bud : Option Budget)
  | fn (bits : Nat)
  | wmc (a : HRef) | grad (a : HRef) | models (a : HRef) | cubes (a : HRef) | count

def parseBudget (k nb : String) : Option Budget := do
  let k ← optNat k
  let nb ← optNat nb
  pure ⟨fun i => match k with | none => true | some k => decide (i < k), nb⟩

def parseBool (s : String) : Option Bool :=
  if s == "1" then some true else if s == "0" then some false else none

def parseTok (t : String) : Option Tok :=
  match splitOnChar t ':' with
  | ["v", v, p] => do pure (.var (← v.toNat?) (← parseRat p))
  | ["w", v, p, q] => do pure (.wvar (← v.toNat?) (← parseRat p) (← parseRat q) .indep)
  | ["x", v, p, q, g] => do pure (.wvar (← v.toNat?) (← parseRat p) (← parseRat q) (.excl (← g.toNat?)))
  | ["l", v, pol] => do pure (.lit (← v.toNat?) (← parseBool pol) none)
  | ["tl", v, pol, k, nb] => do pure (.lit (← v.toNat?) (← parseBool pol) (some (← parseBudget k nb)))
  | ["a", a, c] => do pure (.app (← parseH a) (← parseH c) .and none)
  | ["o", a, c] => do pure (.app (← parseH a) (← parseH c) .or none)
  | ["ta", a, c, k, nb] => do pure (.app (← parseH a) (← parseH c) .and (some (← parseBudget k nb)))
  | ["to", a, c, k, nb] => do pure (.app (← parseH a) (← parseH c) .or (some (← parseBudget k nb)))
  | ["n", a] => do pure (.neg (← parseH a) none)
  | ["tn", a, k, nb] => do pure (.neg (← parseH a) (some (← parseBudget k nb)))
  | ["e", vs] => do pure (.xone (← natList vs '.') none)
  | ["te", vs, k, nb] => do pure (.xone (← natList vs '.') (some (← parseBudget k nb)))
  | ["f", bits] => do pure (.fn (← bits.toNat?))
  | ["W", a] => do pure (.wmc (← parseH a))
  | ["G", a] => do pure (.grad (← parseH a))
  | ["M", a] => do pure (.models (← parseH a))
  | ["K", a] => do pure (.cubes (← parseH a))
  | ["C"] => some .count
  | _ => none

/-! the specification side: registered variables with weights, slots as truth-table masks -/
structure SpecSt where
  vars : List (Nat × Rat × Rat × Kind) := []     -- registered variables, newest binding first
  slots : Array Nat := #[]

def SpecSt.reg (s : SpecSt) (v : Nat) (p q : Rat) (k : Kind) : SpecSt :=
  { s with vars := (v, clamp01 p, clamp01 q, k) :: s.vars.filter (fun e => e.1 ≠ v) }

def SpecSt.varIds (s : SpecSt) : List Nat := (s.vars.map (·.1)).mergeSort (· ≤ ·)

def SpecSt.pw (s : SpecSt) : Nat → Rat := fun v =>
  match s.vars.find? (fun e => e.1 = v) with | some e => e.2.1 | none => 1
def SpecSt.nw (s : SpecSt) : Nat → Rat := fun v =>
  match s.vars.find? (fun e => e.1 = v) with | some e => e.2.2.1 | none => 0
def SpecSt.kind (s : SpecSt) (v : Nat) : Kind :=
  match s.vars.find? (fun e => e.1 = v) with | some e => e.2.2.2 | none => .indep

def litMask (n v : Nat) (pol : Bool) : Nat := maskOfFn n (Fn.lit v pol)

def specH (n : Nat) (s : SpecSt) : HRef → Nat
  | .t => fullMask n
  | .f => 0
  | .slot i => s.slots.getD i 0

/-- hypothesis of `wmc_exact` for the variables other than `skip`: weights sum to one, or the function is
determined in the variable -/
def normalisedExcept (n : Nat) (s : SpecSt) (mask : Nat) (skip : Option Nat) : Bool :=
  s.varIds.all (fun v => some v == skip || s.pw v + s.nw v == 1 || determinedB n (fnOfMask n mask) v)

/-! the model side -/
structure ModSt where
  m : Mgr := {}
  slots : Array Id := #[]

def modH (s : ModSt) : HRef → Id
  | .t => TRUE
  | .f => FALSE
  | .slot i => s.slots.getD i FALSE

/-- `f:<bits>`: OR over the minterms (ascending assignment number) of AND over literals of variables 0 … n-1 -/
def buildFn (n bits : Nat) : M Id := do
  let b := Budget.unlimited
  let rec minterm (k : Nat) (acc : Id) : List Nat → M Id
    | [] => pure acc
    | v :: vs => do
      let l ← literal b v (k.testBit v)
      let acc' ← apply b fuelAmount acc l .and
      minterm k acc' vs
  let rec go (res : Id) : List Nat → M Id
    | [] => pure res
    | k :: ks =>
      if bits.testBit k then do
        let mt ← minterm k TRUE (List.range n)
        let res' ← apply b fuelAmount res mt .or
        go res' ks
      else go res ks
  go FALSE (List.range (2 ^ n))

structure Out where
  mo : List String := []
  so : List String := []
  hs : List String := []
  fuel : Bool := false

def firstIdx {α} [BEq α] (a : Array α) (x : α) : Nat :=
  match a.toList.findIdx? (· == x) with | some i => i | none => a.size

/-- result of running one slot-producing operation on the model -/
inductive SlotRes | ok (id : Id) | exhausted (tag : String) | panic | fuel

def runSlot (ms : ModSt) (x : M Id) : SlotRes × Mgr :=
  match run x ms.m with
  | (.ok id, m') => (.ok id, m')
  | (.error .deadline, m') => (.exhausted "Ed", m')
  | (.error .nodeBudget, m') => (.exhausted "En", m')
  | (.error .panic, m') => (.panic, m')
  | (.error .fuel, m') => (.fuel, m')

/-- pending truth-table tokens: the model's truth tables are computed on the *final* manager (the arena is
append-only); `some (slot index)` marks an output position to be filled in -/
inductive MTok | str (s : String) | slotTT (i : Nat) | cubesTT (id : Id)

structure Run where
  n : Nat
  ms : ModSt := {}
  ss : SpecSt := {}
  mo : List MTok := []
  so : List String := []
  hs : List String := []
  stop : Bool := false
  fuel : Bool := false
  misused : Bool := false

def addH (r : Run) (h : String) : Run := if r.hs.contains h then r else { r with hs := h :: r.hs }

def slotStep (r : Run) (x : M Id) (specMask : Nat) (misuse : Bool) : Run :=
  let r := if misuse then { r with misused := true } else r
  let (res, m') := runSlot r.ms x
  match res with
  | .ok id =>
    let i := r.ms.slots.size
    let slots' := r.ms.slots.push id
    let sslots' := r.ss.slots.push specMask
    { r with ms := { m := m', slots := slots' }, ss := { r.ss with slots := sslots' },
             mo := .slotTT i :: r.mo,
             so := (hexOfNat specMask ++ "." ++ toString (firstIdx sslots' specMask)) :: r.so }
  | .exhausted tag =>
    { r with ms := { m := m', slots := r.ms.slots.push FALSE }, ss := { r.ss with slots := r.ss.slots.push 0 },
             mo := .str tag :: r.mo, so := tag :: r.so }
  | .panic =>
    let r := if r.misused then addH r "unregistered_variable" else r
    { r with ms := { r.ms with m := m' }, mo := .str "P" :: r.mo, so := "P" :: r.so, stop := true }
  | .fuel => { r with fuel := true, stop := true }

def registered (r : Run) (v : Nat) : Bool := r.ss.vars.any (fun e => e.1 = v)

def step (r : Run) (t : Tok) : Run :=
  if r.stop then r else
  let n := r.n
  let bud (b : Option Budget) : Budget := b.getD Budget.unlimited
  match t with
  | .var v p =>
    let pc := clamp01 p
    { r with ms := { r.ms with m := ensureVariable r.ms.m v p }, ss := r.ss.reg v pc (1 - pc) .indep,
             mo := .str "." :: r.mo, so := "." :: r.so }
  | .wvar v p q k =>
    { r with ms := { r.ms with m := ensureVariableWeights r.ms.m v p q k }, ss := r.ss.reg v p q k,
             mo := .str "." :: r.mo, so := "." :: r.so }
  | .lit v pol b => slotStep r (literal (bud b) v pol) (litMask n v pol) (!registered r v)
  | .app a c op b =>
    let fa := specH n r.ss a
    let fc := specH n r.ss c
    let mask := match op with | .and => fa &&& fc | .or => fa ||| fc
    slotStep r (apply (bud b) fuelAmount (modH r.ms a) (modH r.ms c) op) mask false
  | .neg a b => slotStep r (negate (bud b) fuelAmount (modH r.ms a)) (fullMask n ^^^ specH n r.ss a) false
  | .xone vs b =>
    slotStep r (exactlyOne (bud b) fuelAmount vs) (maskOfFn n (Fn.exactlyOne vs)) (vs.any (fun v => !registered r v))
  | .fn bits =>
    slotStep r (buildFn n bits) (bits &&& fullMask n) ((List.range n).any (fun v => !registered r v))
  | .wmc a =>
    let mv := wmc r.ms.m (modH r.ms a)
    let mask := specH n r.ss a
    if normalisedExcept n r.ss mask none then
      let sv := ttWmc r.ss.pw r.ss.nw r.ss.varIds (fun _ => false) (fnOfMask n mask)
      { r with mo := .str ("r:" ++ showRat mv) :: r.mo, so := ("r:" ++ showRat sv) :: r.so }
    else
      { addH r "unnormalised_weights" with mo := .str ("r:" ++ showRat mv) :: r.mo, so := ("r:" ++ showRat mv) :: r.so }
  | .grad a =>
    let id := modH r.ms a
    let g := wmcGradient r.ms.m id
    let mvals := (List.range n).map (fun v => match g.find? (fun e => e.1 = v) with | some e => e.2 | none => 0)
    let mask := specH n r.ss a
    let okH := r.ss.varIds.all (fun v => normalisedExcept n r.ss mask (some v))
    let svals := (List.range n).map (fun v =>
      if registered r v then ttGrad r.ss.pw r.ss.nw (r.ss.kind v) v r.ss.varIds (fun _ => false) (fnOfMask n mask) else 0)
    let ms := "g:" ++ joinWith "," (mvals.map showRat)
    if okH then { r with mo := .str ms :: r.mo, so := ("g:" ++ joinWith "," (svals.map showRat)) :: r.so }
    else { addH r "unnormalised_weights" with mo := .str ms :: r.mo, so := ms :: r.so }
  | .models a =>
    let mask := specH n r.ss a
    { r with mo := .cubesTT (modH r.ms a) :: r.mo, so := (hexOfNat mask ++ ".d") :: r.so }
  | .cubes a =>
    let s := showCubes (enumerateModels r.ms.m (modH r.ms a))
    { r with mo := .str s :: r.mo, so := s :: r.so }
  | .count =>
    let s := toString r.ms.m.nodes.length
    { r with mo := .str s :: r.mo, so := s :: r.so }

/-- truth tables of all arena nodes on the final manager: `tables[id]` = mask -/
def allMasks (n : Nat) (m : Mgr) : Array Nat :=
  (List.range (2 ^ n)).foldl (fun (acc : Array Nat) k =>
    let vals := evalAll (asgOfBits k) m.nodes
    let rec upd (i : Nat) (acc : Array Nat) : List Bool → Array Nat
      | [] => acc
      | b :: bs => upd (i + 1) (if b then acc.modify i (· ||| (1 <<< k)) else acc) bs
    upd 0 acc vals) (Array.replicate m.nodes.length 0)

def finish (r : Run) : String :=
  if r.fuel then "M fuel | S fuel" else
  let masks := allMasks r.n r.ms.m
  let slotMask (i : Nat) : Nat := masks.getD (r.ms.slots.getD i FALSE) 0
  let mtoks := r.mo.reverse.map (fun t => match t with
    | .str s => s
    | .slotTT i =>
      let id := r.ms.slots.getD i FALSE
      hexOfNat (slotMask i) ++ "." ++ toString (firstIdx (r.ms.slots.extract 0 (i + 1)) id)
    | .cubesTT id =>
      let cs := enumerateModels r.ms.m id
      hexOfNat (maskOfFn r.n (fun σ => cs.any (fun c => cubeFn c σ))) ++ (if cubesDisjoint r.n cs then ".d" else ".o"))
  -- the ordering discipline of the final arena (hypothesis of `wmc_exact`), checked on every request
  let (mw, sw) := if r.stop then ([], []) else ([if r.misused || ordOk r.ms.m then "wf" else "NOT-ORDERED"], ["wf"])
  "M " ++ joinWith " " (mtoks ++ mw) ++ " | S " ++ joinWith " " (r.so.reverse ++ sw) ++
    (if r.hs.isEmpty then "" else " | H " ++ joinWith "," r.hs.reverse)

def handle (args : List String) : String :=
  match args with
  | n :: toks =>
    match n.toNat?, toks.mapM parseTok with
    | some n, some toks =>
      if n > 8 then "bad-request" else
      finish (toks.foldl step { n := n })
    | _, _ => "bad-request"
  | _ => "bad-request"

end Kolibrie.Driver.C07
