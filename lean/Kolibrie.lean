import Kolibrie.Model.Store
import Kolibrie.Spec.QuadSet
