import Kolibrie.Driver.C04
/-! Line-protocol driver: `kdriver < requests > replies` -/
open Kolibrie

def dispatch (line : String) : String :=
  match Proto.tokens line with
  | "store" :: args => Driver.C04.handle args
  | _ => "bad-request"

partial def loop (h : IO.FS.Stream) (out : IO.FS.Stream) : IO Unit := do
  let line ← h.getLine
  if line.isEmpty then return ()
  out.putStrLn (dispatch line)
  out.flush
  loop h out

def main : IO Unit := do
  let i ← IO.getStdin
  let o ← IO.getStdout
  loop i o
  o.flush
