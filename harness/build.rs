//! Detects optional verification hooks in the Kolibrie tree the harness is built against, so that a missing hook
//! breaks only the property that needs it instead of the whole harness build.
use std::fs;

fn main() {
    println!("cargo:rustc-check-cfg=cfg(kverif_has_parser_verif)");
    println!("cargo:rerun-if-changed=Cargo.toml");
    let manifest = fs::read_to_string("Cargo.toml").unwrap_or_default();
    // kolibrie = { path = "/repo/kolibrie" }
    let path = manifest
        .lines()
        .find(|l| l.trim_start().starts_with("kolibrie"))
        .and_then(|l| l.split('"').nth(1))
        .unwrap_or("/repo/kolibrie")
        .to_string();
    let parser = format!("{}/src/parser.rs", path);
    println!("cargo:rerun-if-changed={}", parser);
    if let Ok(src) = fs::read_to_string(&parser) {
        if src.contains("pub mod verif") && src.contains("cfg(kolibrie_verif)") {
            println!("cargo:rustc-cfg=kverif_has_parser_verif");
        }
    }
}
