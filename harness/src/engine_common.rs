//! Shared by C01/C02/C03: the query/plan AST of the protocol (mirrors lean/Kolibrie/Driver/EngineProto.lean),
//! its token printer/parser, the SPARQL pretty-printer, database construction and physical-plan construction.
#![allow(dead_code)]
use crate::proto::{hex, unhex};
use crate::rng::Rng;
use kolibrie::sparql_database::SparqlDatabase;
use kolibrie::streamertail_optimizer::{
    Condition, ConditionExpression, DatasetView, PhysicalOperator, SubqueryProjection, SubquerySpec,
};
use shared::dataset_index::{GraphId, GraphTerm, QuadPattern};
use shared::query::SortDirection;
use shared::terms::Term as RTerm;
use std::collections::HashMap;

#[derive(Clone, Debug, PartialEq)]
pub enum Term {
    Var(u32),
    Const(String),
}
#[derive(Clone, Debug, PartialEq)]
pub enum GTerm {
    Dflt,
    Named(String),
    Var(u32),
}
#[derive(Clone, Debug, PartialEq)]
pub enum Opnd {
    Var(u32),
    Const(String),
}
#[derive(Clone, Debug, PartialEq)]
pub enum Cond {
    Cmp(u32, String, Opnd), // op name: eq ne lt le gt ge
    And(Box<Cond>, Box<Cond>),
    Or(Box<Cond>, Box<Cond>),
    Not(Box<Cond>),
}
#[derive(Clone, Debug, PartialEq)]
pub enum Item {
    Var(u32),
    Agg(String, u32, u32), // kind (count sum avg min max), input, output
}
#[derive(Clone, Debug, PartialEq)]
pub struct Spec {
    pub proj: Option<Vec<Item>>,
    pub distinct: bool,
    pub group_vars: Vec<u32>,
    pub order: Vec<(u32, bool)>, // (var, descending)
    pub limit: Option<usize>,
}
impl Spec {
    pub fn star() -> Spec {
        Spec { proj: None, distinct: false, group_vars: vec![], order: vec![], limit: None }
    }
}
#[derive(Clone, Debug, PartialEq)]
pub enum Pat {
    Unit,
    Bgp(Vec<(Term, Term, Term)>),
    Group(Vec<Pat>),
    Union(Vec<Pat>),
    Graph(GTerm, Box<Pat>),
    Filter(Cond),
    Bind(Vec<Opnd>, u32),
    Values(Vec<u32>, Vec<Vec<Option<String>>>),
    Sub(Spec, Box<Pat>),
}
#[derive(Clone, Debug, PartialEq)]
pub struct Select {
    pub spec: Spec,
    pub from: Vec<String>,
    pub from_named: Vec<String>,
    pub pat: Pat,
}
#[derive(Clone, Debug, PartialEq)]
pub enum Plan {
    Unit,
    Empty,
    Scan(Term, Term, Term, GTerm),
    Union(Vec<Plan>),
    Graph(GTerm, Box<Plan>),
    Filter(Cond, Box<Plan>),
    Project(Vec<u32>, Box<Plan>),
    Bind(Box<Plan>, Box<Plan>),
    Hash(Box<Plan>, Box<Plan>),
    Nl(Box<Plan>, Box<Plan>),
    Star(Vec<(Term, Term, Term)>),
    Values(Vec<u32>, Vec<Vec<Option<String>>>),
    Sub(Spec, Box<Plan>),
    Ext(Vec<Opnd>, u32, Box<Plan>),
}
#[derive(Clone, Debug, PartialEq)]
pub struct Db {
    pub quads: Vec<(String, String, String, Option<String>)>,
    pub graphs: Vec<String>,
}
#[derive(Clone, Debug, PartialEq)]
pub struct View {
    pub dflt: Vec<Option<String>>,
    pub named: Vec<String>,
}

// ------------------------------------------------------------------------------------------------ tokens out

pub fn t_term(t: &Term, out: &mut Vec<String>) {
    match t {
        Term::Var(v) => out.push(format!("?{}", v)),
        Term::Const(c) => out.push(format!("c{}", hex(c))),
    }
}
pub fn t_gterm(t: &GTerm, out: &mut Vec<String>) {
    match t {
        GTerm::Dflt => out.push("D".into()),
        GTerm::Named(g) => out.push(format!("N{}", hex(g))),
        GTerm::Var(v) => out.push(format!("?{}", v)),
    }
}
pub fn t_opnd(t: &Opnd, out: &mut Vec<String>) {
    match t {
        Opnd::Var(v) => out.push(format!("?{}", v)),
        Opnd::Const(c) => out.push(format!("c{}", hex(c))),
    }
}
pub fn t_cond(c: &Cond, out: &mut Vec<String>) {
    match c {
        Cond::Cmp(v, op, r) => {
            out.push("cmp".into());
            out.push(format!("?{}", v));
            out.push(op.clone());
            t_opnd(r, out);
        }
        Cond::And(a, b) => {
            out.push("and".into());
            t_cond(a, out);
            t_cond(b, out);
        }
        Cond::Or(a, b) => {
            out.push("or".into());
            t_cond(a, out);
            t_cond(b, out);
        }
        Cond::Not(a) => {
            out.push("not".into());
            t_cond(a, out);
        }
    }
}
pub fn t_spec(s: &Spec, out: &mut Vec<String>) {
    out.push("spec".into());
    match &s.proj {
        None => out.push("*".into()),
        Some(items) => {
            out.push(items.len().to_string());
            for i in items {
                match i {
                    Item::Var(v) => out.push(format!("v?{}", v)),
                    Item::Agg(k, i, o) => out.push(format!("a{}:{}:{}", k, i, o)),
                }
            }
        }
    }
    out.push(if s.distinct { "1".into() } else { "0".into() });
    out.push(s.group_vars.len().to_string());
    for v in &s.group_vars {
        out.push(format!("?{}", v));
    }
    out.push(s.order.len().to_string());
    for (v, d) in &s.order {
        out.push(format!("?{}", v));
        out.push(if *d { "d".into() } else { "a".into() });
    }
    out.push(match s.limit {
        None => "_".into(),
        Some(n) => n.to_string(),
    });
}
fn t_values(vars: &[u32], rows: &[Vec<Option<String>>], out: &mut Vec<String>) {
    out.push(vars.len().to_string());
    for v in vars {
        out.push(format!("?{}", v));
    }
    out.push(rows.len().to_string());
    for r in rows {
        for c in r {
            out.push(match c {
                None => "U".into(),
                Some(x) => hex(x),
            });
        }
    }
}
pub fn t_pat(p: &Pat, out: &mut Vec<String>) {
    match p {
        Pat::Unit => out.push("unit".into()),
        Pat::Bgp(tps) => {
            out.push("bgp".into());
            out.push(tps.len().to_string());
            for (s, p, o) in tps {
                t_term(s, out);
                t_term(p, out);
                t_term(o, out);
            }
        }
        Pat::Group(es) => {
            out.push("group".into());
            out.push(es.len().to_string());
            for e in es {
                t_pat(e, out);
            }
        }
        Pat::Union(bs) => {
            out.push("union".into());
            out.push(bs.len().to_string());
            for e in bs {
                t_pat(e, out);
            }
        }
        Pat::Graph(g, p) => {
            out.push("graph".into());
            t_gterm(g, out);
            t_pat(p, out);
        }
        Pat::Filter(c) => {
            out.push("filter".into());
            t_cond(c, out);
        }
        Pat::Bind(args, o) => {
            out.push("bind".into());
            out.push(args.len().to_string());
            for a in args {
                t_opnd(a, out);
            }
            out.push(format!("?{}", o));
        }
        Pat::Values(vars, rows) => {
            out.push("values".into());
            t_values(vars, rows, out);
        }
        Pat::Sub(s, p) => {
            out.push("sub".into());
            t_spec(s, out);
            t_pat(p, out);
        }
    }
}
pub fn t_select(q: &Select, out: &mut Vec<String>) {
    out.push("select".into());
    t_spec(&q.spec, out);
    out.push(q.from.len().to_string());
    for g in &q.from {
        out.push(hex(g));
    }
    out.push(q.from_named.len().to_string());
    for g in &q.from_named {
        out.push(hex(g));
    }
    t_pat(&q.pat, out);
}
pub fn t_db(db: &Db, out: &mut Vec<String>) {
    out.push("db".into());
    out.push(db.quads.len().to_string());
    for (s, p, o, g) in &db.quads {
        out.push(hex(s));
        out.push(hex(p));
        out.push(hex(o));
        out.push(match g {
            None => "_".into(),
            Some(g) => hex(g),
        });
    }
    out.push(db.graphs.len().to_string());
    for g in &db.graphs {
        out.push(hex(g));
    }
}
pub fn t_view(v: &View, out: &mut Vec<String>) {
    out.push("view".into());
    out.push(v.dflt.len().to_string());
    for g in &v.dflt {
        out.push(match g {
            None => "_".into(),
            Some(g) => hex(g),
        });
    }
    out.push(v.named.len().to_string());
    for g in &v.named {
        out.push(hex(g));
    }
}
pub fn t_plan(p: &Plan, out: &mut Vec<String>) {
    match p {
        Plan::Unit => out.push("punit".into()),
        Plan::Empty => out.push("pempty".into()),
        Plan::Scan(s, pp, o, g) => {
            out.push("pscan".into());
            t_term(s, out);
            t_term(pp, out);
            t_term(o, out);
            t_gterm(g, out);
        }
        Plan::Union(bs) => {
            out.push("punion".into());
            out.push(bs.len().to_string());
            for b in bs {
                t_plan(b, out);
            }
        }
        Plan::Graph(g, p) => {
            out.push("pgraph".into());
            t_gterm(g, out);
            t_plan(p, out);
        }
        Plan::Filter(c, p) => {
            out.push("pfilter".into());
            t_cond(c, out);
            t_plan(p, out);
        }
        Plan::Project(vs, p) => {
            out.push("pproject".into());
            out.push(vs.len().to_string());
            for v in vs {
                out.push(format!("?{}", v));
            }
            t_plan(p, out);
        }
        Plan::Bind(l, r) => {
            out.push("pbind".into());
            t_plan(l, out);
            t_plan(r, out);
        }
        Plan::Hash(l, r) => {
            out.push("phash".into());
            t_plan(l, out);
            t_plan(r, out);
        }
        Plan::Nl(l, r) => {
            out.push("pnl".into());
            t_plan(l, out);
            t_plan(r, out);
        }
        Plan::Star(tps) => {
            out.push("pstar".into());
            out.push(tps.len().to_string());
            for (s, p, o) in tps {
                t_term(s, out);
                t_term(p, out);
                t_term(o, out);
            }
        }
        Plan::Values(vars, rows) => {
            out.push("pvalues".into());
            t_values(vars, rows, out);
        }
        Plan::Sub(s, p) => {
            out.push("psub".into());
            t_spec(s, out);
            t_plan(p, out);
        }
        Plan::Ext(args, o, p) => {
            out.push("pext".into());
            out.push(args.len().to_string());
            for a in args {
                t_opnd(a, out);
            }
            out.push(format!("?{}", o));
            t_plan(p, out);
        }
    }
}

// ------------------------------------------------------------------------------------------------ tokens in

pub struct Toks<'a> {
    pub t: Vec<&'a str>,
    pub i: usize,
}
impl<'a> Toks<'a> {
    pub fn new(s: &'a str) -> Self {
        Toks { t: s.split_whitespace().collect(), i: 0 }
    }
    pub fn next(&mut self) -> Option<&'a str> {
        let x = self.t.get(self.i).copied();
        self.i += 1;
        x
    }
    pub fn peek(&self) -> Option<&'a str> {
        self.t.get(self.i).copied()
    }
    pub fn done(&self) -> bool {
        self.i >= self.t.len()
    }
    pub fn nat(&mut self) -> Option<usize> {
        self.next()?.parse().ok()
    }
    pub fn var(&mut self) -> Option<u32> {
        self.next()?.strip_prefix('?')?.parse().ok()
    }
    pub fn hexs(&mut self) -> Option<String> {
        unhex(self.next()?)
    }
    pub fn gname(&mut self) -> Option<Option<String>> {
        let t = self.next()?;
        if t == "_" {
            Some(None)
        } else {
            unhex(t).map(Some)
        }
    }
}
pub fn p_term(t: &mut Toks) -> Option<Term> {
    let x = t.next()?;
    if let Some(v) = x.strip_prefix('?') {
        Some(Term::Var(v.parse().ok()?))
    } else {
        Some(Term::Const(unhex(x.strip_prefix('c')?)?))
    }
}
pub fn p_gterm(t: &mut Toks) -> Option<GTerm> {
    let x = t.next()?;
    if x == "D" {
        Some(GTerm::Dflt)
    } else if let Some(v) = x.strip_prefix('?') {
        Some(GTerm::Var(v.parse().ok()?))
    } else {
        Some(GTerm::Named(unhex(x.strip_prefix('N')?)?))
    }
}
pub fn p_opnd(t: &mut Toks) -> Option<Opnd> {
    let x = t.next()?;
    if let Some(v) = x.strip_prefix('?') {
        Some(Opnd::Var(v.parse().ok()?))
    } else {
        Some(Opnd::Const(unhex(x.strip_prefix('c')?)?))
    }
}
pub fn p_cond(t: &mut Toks) -> Option<Cond> {
    match t.next()? {
        "cmp" => {
            let v = t.var()?;
            let op = t.next()?.to_string();
            let r = p_opnd(t)?;
            Some(Cond::Cmp(v, op, r))
        }
        "and" => Some(Cond::And(Box::new(p_cond(t)?), Box::new(p_cond(t)?))),
        "or" => Some(Cond::Or(Box::new(p_cond(t)?), Box::new(p_cond(t)?))),
        "not" => Some(Cond::Not(Box::new(p_cond(t)?))),
        _ => None,
    }
}
pub fn p_spec(t: &mut Toks) -> Option<Spec> {
    if t.next()? != "spec" {
        return None;
    }
    let proj = if t.peek()? == "*" {
        t.next();
        None
    } else {
        let n = t.nat()?;
        let mut items = Vec::new();
        for _ in 0..n {
            let x = t.next()?;
            if let Some(v) = x.strip_prefix("v?") {
                items.push(Item::Var(v.parse().ok()?));
            } else {
                let parts: Vec<&str> = x.strip_prefix('a')?.split(':').collect();
                if parts.len() != 3 {
                    return None;
                }
                items.push(Item::Agg(parts[0].to_string(), parts[1].parse().ok()?, parts[2].parse().ok()?));
            }
        }
        Some(items)
    };
    let distinct = t.nat()? == 1;
    let ngv = t.nat()?;
    let mut group_vars = Vec::new();
    for _ in 0..ngv {
        group_vars.push(t.var()?);
    }
    let no = t.nat()?;
    let mut order = Vec::new();
    for _ in 0..no {
        let v = t.var()?;
        let d = t.next()? == "d";
        order.push((v, d));
    }
    let l = t.next()?;
    let limit = if l == "_" { None } else { Some(l.parse().ok()?) };
    Some(Spec { proj, distinct, group_vars, order, limit })
}
fn p_values(t: &mut Toks) -> Option<(Vec<u32>, Vec<Vec<Option<String>>>)> {
    let nv = t.nat()?;
    let mut vars = Vec::new();
    for _ in 0..nv {
        vars.push(t.var()?);
    }
    let nr = t.nat()?;
    let mut rows = Vec::new();
    for _ in 0..nr {
        let mut r = Vec::new();
        for _ in 0..nv {
            let x = t.next()?;
            r.push(if x == "U" { None } else { Some(unhex(x)?) });
        }
        rows.push(r);
    }
    Some((vars, rows))
}
fn p_triples(t: &mut Toks) -> Option<Vec<(Term, Term, Term)>> {
    let n = t.nat()?;
    let mut v = Vec::new();
    for _ in 0..n {
        v.push((p_term(t)?, p_term(t)?, p_term(t)?));
    }
    Some(v)
}
pub fn p_pat(t: &mut Toks) -> Option<Pat> {
    match t.next()? {
        "unit" => Some(Pat::Unit),
        "bgp" => Some(Pat::Bgp(p_triples(t)?)),
        "group" => {
            let n = t.nat()?;
            let mut v = Vec::new();
            for _ in 0..n {
                v.push(p_pat(t)?);
            }
            Some(Pat::Group(v))
        }
        "union" => {
            let n = t.nat()?;
            let mut v = Vec::new();
            for _ in 0..n {
                v.push(p_pat(t)?);
            }
            Some(Pat::Union(v))
        }
        "graph" => {
            let g = p_gterm(t)?;
            Some(Pat::Graph(g, Box::new(p_pat(t)?)))
        }
        "filter" => Some(Pat::Filter(p_cond(t)?)),
        "bind" => {
            let n = t.nat()?;
            let mut args = Vec::new();
            for _ in 0..n {
                args.push(p_opnd(t)?);
            }
            Some(Pat::Bind(args, t.var()?))
        }
        "values" => {
            let (v, r) = p_values(t)?;
            Some(Pat::Values(v, r))
        }
        "sub" => {
            let s = p_spec(t)?;
            Some(Pat::Sub(s, Box::new(p_pat(t)?)))
        }
        _ => None,
    }
}
pub fn p_select(t: &mut Toks) -> Option<Select> {
    if t.next()? != "select" {
        return None;
    }
    let spec = p_spec(t)?;
    let nf = t.nat()?;
    let mut from = Vec::new();
    for _ in 0..nf {
        from.push(t.hexs()?);
    }
    let nn = t.nat()?;
    let mut from_named = Vec::new();
    for _ in 0..nn {
        from_named.push(t.hexs()?);
    }
    let pat = p_pat(t)?;
    Some(Select { spec, from, from_named, pat })
}
pub fn p_db(t: &mut Toks) -> Option<Db> {
    if t.next()? != "db" {
        return None;
    }
    let n = t.nat()?;
    let mut quads = Vec::new();
    for _ in 0..n {
        quads.push((t.hexs()?, t.hexs()?, t.hexs()?, t.gname()?));
    }
    let ng = t.nat()?;
    let mut graphs = Vec::new();
    for _ in 0..ng {
        graphs.push(t.hexs()?);
    }
    Some(Db { quads, graphs })
}
pub fn p_view(t: &mut Toks) -> Option<View> {
    if t.next()? != "view" {
        return None;
    }
    let n = t.nat()?;
    let mut dflt = Vec::new();
    for _ in 0..n {
        dflt.push(t.gname()?);
    }
    let nn = t.nat()?;
    let mut named = Vec::new();
    for _ in 0..nn {
        named.push(t.hexs()?);
    }
    Some(View { dflt, named })
}
pub fn p_plan(t: &mut Toks) -> Option<Plan> {
    match t.next()? {
        "punit" => Some(Plan::Unit),
        "pempty" => Some(Plan::Empty),
        "pscan" => Some(Plan::Scan(p_term(t)?, p_term(t)?, p_term(t)?, p_gterm(t)?)),
        "punion" => {
            let n = t.nat()?;
            let mut v = Vec::new();
            for _ in 0..n {
                v.push(p_plan(t)?);
            }
            Some(Plan::Union(v))
        }
        "pgraph" => {
            let g = p_gterm(t)?;
            Some(Plan::Graph(g, Box::new(p_plan(t)?)))
        }
        "pfilter" => {
            let c = p_cond(t)?;
            Some(Plan::Filter(c, Box::new(p_plan(t)?)))
        }
        "pproject" => {
            let n = t.nat()?;
            let mut vs = Vec::new();
            for _ in 0..n {
                vs.push(t.var()?);
            }
            Some(Plan::Project(vs, Box::new(p_plan(t)?)))
        }
        "pbind" => Some(Plan::Bind(Box::new(p_plan(t)?), Box::new(p_plan(t)?))),
        "phash" => Some(Plan::Hash(Box::new(p_plan(t)?), Box::new(p_plan(t)?))),
        "pnl" => Some(Plan::Nl(Box::new(p_plan(t)?), Box::new(p_plan(t)?))),
        "pstar" => Some(Plan::Star(p_triples(t)?)),
        "pvalues" => {
            let (v, r) = p_values(t)?;
            Some(Plan::Values(v, r))
        }
        "psub" => {
            let s = p_spec(t)?;
            Some(Plan::Sub(s, Box::new(p_plan(t)?)))
        }
        "pext" => {
            let n = t.nat()?;
            let mut args = Vec::new();
            for _ in 0..n {
                args.push(p_opnd(t)?);
            }
            let o = t.var()?;
            Some(Plan::Ext(args, o, Box::new(p_plan(t)?)))
        }
        _ => None,
    }
}

// ------------------------------------------------------------------------------------------------ SPARQL text

pub fn is_iri(v: &str) -> bool {
    // `rel…` are scheme-less (relative) IRIs: legal in data, but not recognisable as IRIs from their spelling
    v.starts_with("urn:") || v.starts_with("rel")
}
pub fn lex(v: &str) -> String {
    if is_iri(v) {
        format!("<{}>", v)
    } else {
        format!("\"{}\"", v)
    }
}
pub fn var_name(v: u32) -> String {
    format!("?x{}", v)
}
fn s_term(t: &Term) -> String {
    match t {
        Term::Var(v) => var_name(*v),
        Term::Const(c) => lex(c),
    }
}
fn s_opnd(t: &Opnd) -> String {
    match t {
        Opnd::Var(v) => var_name(*v),
        Opnd::Const(c) => lex(c),
    }
}
pub fn op_symbol(op: &str) -> &'static str {
    match op {
        "eq" => "=",
        "ne" => "!=",
        "lt" => "<",
        "le" => "<=",
        "gt" => ">",
        "ge" => ">=",
        _ => "=",
    }
}
pub fn s_cond(c: &Cond) -> String {
    match c {
        Cond::Cmp(v, op, r) => format!("{} {} {}", var_name(*v), op_symbol(op), s_opnd(r)),
        Cond::And(a, b) => format!("({}) && ({})", s_cond(a), s_cond(b)),
        Cond::Or(a, b) => format!("({}) || ({})", s_cond(a), s_cond(b)),
        Cond::Not(a) => format!("!({})", s_cond(a)),
    }
}
fn s_spec_head(s: &Spec) -> String {
    let mut out = String::from("SELECT ");
    if s.distinct {
        out.push_str("DISTINCT ");
    }
    match &s.proj {
        None => out.push('*'),
        Some(items) => {
            let parts: Vec<String> = items
                .iter()
                .map(|i| match i {
                    Item::Var(v) => var_name(*v),
                    Item::Agg(k, i, o) => format!("{}({}) AS {}", k.to_uppercase(), var_name(*i), var_name(*o)),
                })
                .collect();
            out.push_str(&parts.join(" "));
        }
    }
    out
}
fn s_spec_tail(s: &Spec) -> String {
    let mut out = String::new();
    if !s.group_vars.is_empty() {
        out.push_str(" GROUP BY");
        for v in &s.group_vars {
            out.push(' ');
            out.push_str(&var_name(*v));
        }
    }
    if !s.order.is_empty() {
        out.push_str(" ORDER BY");
        for (v, d) in &s.order {
            if *d {
                out.push_str(&format!(" DESC({})", var_name(*v)));
            } else {
                out.push_str(&format!(" {}", var_name(*v)));
            }
        }
    }
    if let Some(n) = s.limit {
        out.push_str(&format!(" LIMIT {}", n));
    }
    out
}
fn s_gterm(g: &GTerm) -> String {
    match g {
        GTerm::Dflt => "<urn:kolibrie:default>".into(),
        GTerm::Named(n) => format!("<{}>", n),
        GTerm::Var(v) => var_name(*v),
    }
}
/// body of a group (without the braces)
fn s_elems(p: &Pat) -> String {
    match p {
        Pat::Group(es) => es.iter().map(s_elem).collect::<Vec<_>>().join(" "),
        other => s_elem(other),
    }
}
fn s_braced(p: &Pat) -> String {
    format!("{{ {} }}", s_elems(p))
}
fn s_elem(p: &Pat) -> String {
    match p {
        Pat::Unit => "{ }".into(),
        Pat::Bgp(tps) => tps.iter().map(|(s, p, o)| format!("{} {} {} .", s_term(s), s_term(p), s_term(o))).collect::<Vec<_>>().join(" "),
        Pat::Group(_) => s_braced(p),
        Pat::Union(bs) => bs.iter().map(s_braced).collect::<Vec<_>>().join(" UNION "),
        Pat::Graph(g, inner) => format!("GRAPH {} {}", s_gterm(g), s_braced(inner)),
        Pat::Filter(c) => format!("FILTER({})", s_cond(c)),
        Pat::Bind(args, o) => format!("BIND(CONCAT({}) AS {})", args.iter().map(s_opnd).collect::<Vec<_>>().join(", "), var_name(*o)),
        Pat::Values(vars, rows) => {
            let cell = |c: &Option<String>| match c {
                None => "UNDEF".to_string(),
                Some(x) => lex(x),
            };
            if vars.len() == 1 {
                format!("VALUES {} {{ {} }}", var_name(vars[0]), rows.iter().map(|r| cell(&r[0])).collect::<Vec<_>>().join(" "))
            } else {
                format!(
                    "VALUES ({}) {{ {} }}",
                    vars.iter().map(|v| var_name(*v)).collect::<Vec<_>>().join(" "),
                    rows.iter().map(|r| format!("({})", r.iter().map(cell).collect::<Vec<_>>().join(" "))).collect::<Vec<_>>().join(" ")
                )
            }
        }
        Pat::Sub(s, inner) => format!("{{ {} WHERE {}{} }}", s_spec_head(s), s_braced(inner), s_spec_tail(s)),
    }
}
pub fn sparql_where(p: &Pat) -> String {
    s_braced(p)
}
pub fn sparql_select(q: &Select) -> String {
    let mut out = s_spec_head(&q.spec);
    for g in &q.from {
        out.push_str(&format!(" FROM <{}>", g));
    }
    for g in &q.from_named {
        out.push_str(&format!(" FROM NAMED <{}>", g));
    }
    out.push_str(" WHERE ");
    out.push_str(&s_braced(&q.pat));
    out.push_str(&s_spec_tail(&q.spec));
    out
}

// ------------------------------------------------------------------------------------------------ database

pub fn build_db(db: &Db) -> SparqlDatabase {
    let mut d = SparqlDatabase::new();
    for g in &db.graphs {
        let id = d.dictionary.write().unwrap().encode(g);
        d.dataset_index.create_graph(GraphId::Named(id));
    }
    for (s, p, o, g) in &db.quads {
        match g {
            None => d.add_triple_parts(s, p, o),
            Some(g) => {
                d.add_quad_parts(s, p, o, g);
            }
        }
    }
    // The dataset also has a history: quads that were stored and deleted again (reversed and re-predicated variants of some
    // stored quads, in graphs that exist anyway).  Whatever is answered afterwards depends on the stored quads only.
    let finals: std::collections::HashSet<(String, String, String, Option<String>)> = db.quads.iter().cloned().collect();
    let mut transient: Vec<(String, String, String, Option<String>)> = Vec::new();
    for (i, (s, p, o, g)) in db.quads.iter().enumerate() {
        let h = crate::proto::fnv(&format!("{} {} {} {}", s, p, o, i));
        let t = match h % 5 {
            0 => (o.clone(), p.clone(), s.clone(), g.clone()),
            1 => {
                let (_, p2, _, _) = &db.quads[(i + 1) % db.quads.len()];
                (s.clone(), p2.clone(), o.clone(), g.clone())
            }
            _ => continue,
        };
        if !finals.contains(&t) && !transient.contains(&t) {
            transient.push(t);
        }
    }
    let quad_of = |d: &SparqlDatabase, t: &(String, String, String, Option<String>)| shared::dataset_index::Quad {
        subject: enc(d, &t.0),
        predicate: enc(d, &t.1),
        object: enc(d, &t.2),
        graph: gid(d, &t.3),
    };
    for t in &transient {
        let q = quad_of(&d, t);
        d.dataset_index.insert_quad(&q);
    }
    for t in &transient {
        let q = quad_of(&d, t);
        d.dataset_index.delete_quad(&q);
    }
    d
}
pub fn enc(d: &SparqlDatabase, v: &str) -> u32 {
    d.dictionary.write().unwrap().encode(v)
}
pub fn gid(d: &SparqlDatabase, g: &Option<String>) -> GraphId {
    match g {
        None => GraphId::Default,
        Some(g) => GraphId::Named(enc(d, g)),
    }
}
pub fn build_view(d: &SparqlDatabase, v: &View) -> DatasetView {
    DatasetView::new(v.dflt.iter().map(|g| gid(d, g)).collect::<Vec<_>>(), v.named.iter().map(|g| GraphId::Named(enc(d, g))).collect::<Vec<_>>())
}

// ------------------------------------------------------------------------------------------------ physical plans

fn r_term(d: &SparqlDatabase, t: &Term) -> RTerm {
    match t {
        Term::Var(v) => RTerm::Variable(var_name(*v)),
        Term::Const(c) => RTerm::Constant(enc(d, c)),
    }
}
fn r_gterm(d: &SparqlDatabase, g: &GTerm) -> GraphTerm {
    match g {
        GTerm::Dflt => GraphTerm::Default,
        GTerm::Named(n) => GraphTerm::Named(enc(d, n)),
        GTerm::Var(v) => GraphTerm::Variable(var_name(*v)),
    }
}
pub fn r_cond_expr(c: &Cond) -> ConditionExpression {
    match c {
        Cond::Cmp(v, op, r) => ConditionExpression::Comparison(
            var_name(*v),
            op_symbol(op).to_string(),
            match r {
                Opnd::Var(w) => var_name(*w),
                Opnd::Const(c) => c.clone(),
            },
        ),
        Cond::And(a, b) => ConditionExpression::And(Box::new(r_cond_expr(a)), Box::new(r_cond_expr(b))),
        Cond::Or(a, b) => ConditionExpression::Or(Box::new(r_cond_expr(a)), Box::new(r_cond_expr(b))),
        Cond::Not(a) => ConditionExpression::Not(Box::new(r_cond_expr(a))),
    }
}
pub fn r_spec(s: &Spec) -> SubquerySpec {
    SubquerySpec {
        projection: s.proj.as_ref().map(|items| {
            items
                .iter()
                .map(|i| match i {
                    Item::Var(v) => SubqueryProjection { kind: "VAR".into(), variable: var_name(*v), alias: None },
                    Item::Agg(k, i, o) => SubqueryProjection { kind: k.to_uppercase(), variable: var_name(*i), alias: Some(var_name(*o)) },
                })
                .collect()
        }),
        distinct: s.distinct,
        group_vars: s.group_vars.iter().map(|v| var_name(*v)).collect(),
        order_conditions: s.order.iter().map(|(v, d)| (var_name(*v), if *d { SortDirection::Desc } else { SortDirection::Asc })).collect(),
        limit: s.limit,
    }
}
pub fn to_physical(d: &SparqlDatabase, p: &Plan, flip: &mut bool) -> PhysicalOperator {
    match p {
        Plan::Unit => PhysicalOperator::unit(),
        Plan::Empty => PhysicalOperator::union(vec![]),
        Plan::Scan(s, pp, o, g) => {
            let pat = QuadPattern { subject: r_term(d, s), predicate: r_term(d, pp), object: r_term(d, o), graph: r_gterm(d, g) };
            // alternate between the two scan operators: they must behave identically
            *flip = !*flip;
            if *flip {
                PhysicalOperator::quad_index_scan(pat)
            } else {
                PhysicalOperator::quad_table_scan(pat)
            }
        }
        Plan::Union(bs) => PhysicalOperator::union(bs.iter().map(|b| to_physical(d, b, flip)).collect()),
        Plan::Graph(g, p) => PhysicalOperator::graph(to_physical(d, p, flip), r_gterm(d, g)),
        Plan::Filter(c, p) => PhysicalOperator::filter(to_physical(d, p, flip), Condition { expression: r_cond_expr(c) }),
        Plan::Project(vs, p) => PhysicalOperator::projection(to_physical(d, p, flip), vs.iter().map(|v| var_name(*v)).collect()),
        Plan::Bind(l, r) => PhysicalOperator::bind_join(to_physical(d, l, flip), to_physical(d, r, flip)),
        Plan::Hash(l, r) => PhysicalOperator::hash_join(to_physical(d, l, flip), to_physical(d, r, flip)),
        Plan::Nl(l, r) => PhysicalOperator::nested_loop_join(to_physical(d, l, flip), to_physical(d, r, flip)),
        Plan::Star(tps) => PhysicalOperator::StarJoin {
            join_var: "?x0".into(),
            patterns: tps.iter().map(|(s, p, o)| (r_term(d, s), r_term(d, p), r_term(d, o))).collect(),
        },
        Plan::Values(vars, rows) => PhysicalOperator::values(
            vars.iter().map(|v| var_name(*v)).collect(),
            rows.iter().map(|r| r.iter().map(|c| c.as_ref().map(|x| enc(d, x))).collect()).collect(),
        ),
        Plan::Sub(s, p) => PhysicalOperator::subquery(to_physical(d, p, flip), r_spec(s)),
        Plan::Ext(args, o, p) => PhysicalOperator::bind(
            to_physical(d, p, flip),
            "CONCAT".into(),
            args.iter()
                .map(|a| match a {
                    Opnd::Var(v) => var_name(*v),
                    Opnd::Const(c) => format!("\"{}\"", c),
                })
                .collect(),
            var_name(*o),
        ),
    }
}

// ------------------------------------------------------------------------------------------------ canonical output

/// variable name as the engine reports it (`x7`) -> number
pub fn var_num(name: &str) -> Option<u32> {
    name.trim_start_matches(|c| c == '?' || c == '$').strip_prefix('x')?.parse().ok()
}
/// float formatting only: the f64 sum of no numbers prints as `-0`; non-integral results are not compared digit by digit
pub fn canon_value(v: &str) -> String {
    if v == "-0" {
        return "0".into();
    }
    if v.contains('.') {
        if let Ok(f) = v.parse::<f64>() {
            if f.fract() != 0.0 {
                return "inexact".into();
            }
        }
    }
    v.to_string()
}
pub fn show_bag(d: &SparqlDatabase, rows: &[HashMap<String, u32>]) -> String {
    let mut out: Vec<String> = rows
        .iter()
        .map(|r| {
            let mut cells: Vec<(u32, String)> =
                r.iter().map(|(k, v)| (var_num(k).unwrap_or(9999), hex(&canon_value(&d.decode_any(*v).unwrap_or_else(|| "?".into()))))).collect();
            cells.sort();
            cells.iter().map(|(k, v)| format!("{}={}", k, v)).collect::<Vec<_>>().join(",")
        })
        .collect();
    out.sort();
    format!("{{{}}}", out.join(";"))
}

// ------------------------------------------------------------------------------------------------ generators

pub struct Universe {
    pub iris: Vec<String>,
    pub preds: Vec<String>,
    pub lits: Vec<String>,
    pub graphs: Vec<String>,
    /// triples of the generated dataset: patterns are mostly derived from them so that answers are non-empty
    pub seeds: Vec<(String, String, String)>,
}
pub fn universe(rng: &mut Rng) -> Universe {
    let ni = rng.range(2, 4);
    let np = rng.range(1, 3);
    let ng = rng.range(1, 3);
    let mut lits: Vec<String> = Vec::new();
    for k in 0..rng.range(2, 4) {
        lits.push(((k as i64) * 3 - 2).to_string());
    }
    lits.push("w".into());
    if rng.chance(1, 2) {
        lits.push("10".into());
    }
    let mut iris: Vec<String> = (0..ni).map(|i| format!("urn:s{}", i)).collect();
    let mut preds: Vec<String> = (0..np).map(|i| format!("urn:p{}", i)).collect();
    if rng.chance(1, 3) {
        iris.push("rel0".into());
        if rng.chance(1, 2) {
            iris.push("rel1".into());
        }
        if rng.chance(1, 2) {
            preds.push("relp".into());
        }
    }
    let graphs: Vec<String> = (0..ng).map(|i| format!("urn:g{}", i)).collect();
    if rng.chance(1, 4) {
        // graph names also occur as ordinary terms (a graph described in the default graph): a variable bound by a triple
        // pattern or VALUES can then name a graph, stored or not, visible to the query or not
        iris.push(rng.pick(&graphs).clone());
        if rng.chance(1, 2) {
            iris.push("urn:g2".into());
        }
    }
    Universe {
        iris,
        preds,
        lits,
        graphs,
        seeds: Vec::new(),
    }
}
pub fn gen_db(rng: &mut Rng, u: &mut Universe) -> Db {
    let mut quads = Vec::new();
    let n = rng.range(0, 16);
    for _ in 0..n {
        let s = rng.pick(&u.iris).clone();
        let p = rng.pick(&u.preds).clone();
        let o = if rng.chance(1, 2) { rng.pick(&u.iris).clone() } else { rng.pick(&u.lits).clone() };
        let g = if rng.chance(1, 2) { None } else { Some(rng.pick(&u.graphs).clone()) };
        // duplicates across graphs are likely with a small universe; exact duplicates are harmless
        quads.push((s, p, o, g));
    }
    quads.sort();
    quads.dedup();
    rng.shuffle(&mut quads);
    let mut graphs = Vec::new();
    for g in &u.graphs {
        if rng.chance(1, 3) {
            graphs.push(g.clone()); // possibly an empty named graph
        }
    }
    u.seeds = quads.iter().map(|(s, p, o, _)| (s.clone(), p.clone(), o.clone())).collect();
    Db { quads, graphs }
}

/// a dataset large enough for the executor's parallel / chunked code paths (more than 64 intermediate rows per join
/// input): 25-40 subjects, the universe's predicates, objects drawn from the subjects and the literals
pub fn gen_big_db(rng: &mut Rng, u: &mut Universe) -> Db {
    let ns = rng.range(25, 40);
    let subs: Vec<String> = (0..ns).map(|i| format!("urn:n{}", i)).collect();
    let mut quads = Vec::new();
    let n = rng.range(90, 260);
    for _ in 0..n {
        let s = rng.pick(&subs).clone();
        let p = rng.pick(&u.preds).clone();
        let o = if rng.chance(2, 3) { rng.pick(&subs).clone() } else { rng.pick(&u.lits).clone() };
        let g = if rng.chance(3, 4) { None } else { Some(rng.pick(&u.graphs).clone()) };
        quads.push((s, p, o, g));
    }
    quads.sort();
    quads.dedup();
    rng.shuffle(&mut quads);
    u.iris.extend(subs.iter().take(4).cloned());
    u.seeds = quads.iter().map(|(s, p, o, _)| (s.clone(), p.clone(), o.clone())).collect();
    Db { quads, graphs: vec![] }
}

