//! C03 — SPARQL Update applies exactly the standard effect.  Protocol: lean/Kolibrie/Driver/C03.lean
use super::c02::gen_group;
use super::{Prop, Stats, Tier};
use crate::engine_common::*;
use crate::proto::{fnv, hex, unhex};
use crate::rng::Rng;
use kolibrie::sparql_database::SparqlDatabase;
use shared::dataset_index::GraphId;

pub struct C03;

#[derive(Clone, Debug)]
enum TT {
    Var(u32),
    Const(String),
    Bnode(String),
}
#[derive(Clone, Debug)]
struct QT {
    s: TT,
    p: TT,
    o: TT,
    g: Option<TT>,
}
#[derive(Clone, Debug)]
enum Upd {
    InsertData(Vec<QT>),
    DeleteData(Vec<QT>),
    DeleteWhere(Vec<QT>),
    Modify(Option<Vec<QT>>, Option<Vec<QT>>, Pat),
}

fn t_tt(t: &TT, out: &mut Vec<String>) {
    out.push(match t {
        TT::Var(v) => format!("?{}", v),
        TT::Const(c) => format!("c{}", hex(c)),
        TT::Bnode(l) => format!("b{}", hex(l)),
    });
}
fn t_qts(qs: &[QT], out: &mut Vec<String>) {
    out.push(qs.len().to_string());
    for q in qs {
        t_tt(&q.s, out);
        t_tt(&q.p, out);
        t_tt(&q.o, out);
        match &q.g {
            None => out.push("_".into()),
            Some(g) => t_tt(g, out),
        }
    }
}
fn t_upd(u: &Upd, out: &mut Vec<String>) {
    match u {
        Upd::InsertData(q) => {
            out.push("idata".into());
            t_qts(q, out);
        }
        Upd::DeleteData(q) => {
            out.push("ddata".into());
            t_qts(q, out);
        }
        Upd::DeleteWhere(q) => {
            out.push("dwhere".into());
            t_qts(q, out);
        }
        Upd::Modify(d, i, w) => {
            out.push("modify".into());
            match d {
                None => out.push("-".into()),
                Some(q) => {
                    out.push("d".into());
                    t_qts(q, out);
                }
            }
            match i {
                None => out.push("-".into()),
                Some(q) => {
                    out.push("i".into());
                    t_qts(q, out);
                }
            }
            t_pat(w, out);
        }
    }
}
fn p_tt(t: &mut Toks) -> Option<TT> {
    let x = t.next()?;
    if let Some(v) = x.strip_prefix('?') {
        Some(TT::Var(v.parse().ok()?))
    } else if let Some(c) = x.strip_prefix('c') {
        Some(TT::Const(unhex(c)?))
    } else {
        Some(TT::Bnode(unhex(x.strip_prefix('b')?)?))
    }
}
fn p_qts(t: &mut Toks) -> Option<Vec<QT>> {
    let n = t.nat()?;
    let mut v = Vec::new();
    for _ in 0..n {
        let s = p_tt(t)?;
        let p = p_tt(t)?;
        let o = p_tt(t)?;
        let g = if t.peek()? == "_" {
            t.next();
            None
        } else {
            Some(p_tt(t)?)
        };
        v.push(QT { s, p, o, g });
    }
    Some(v)
}
fn p_upd(t: &mut Toks) -> Option<Upd> {
    match t.next()? {
        "idata" => Some(Upd::InsertData(p_qts(t)?)),
        "ddata" => Some(Upd::DeleteData(p_qts(t)?)),
        "dwhere" => Some(Upd::DeleteWhere(p_qts(t)?)),
        "modify" => {
            let d = if t.peek()? == "-" {
                t.next();
                None
            } else {
                t.next();
                Some(p_qts(t)?)
            };
            let i = if t.peek()? == "-" {
                t.next();
                None
            } else {
                t.next();
                Some(p_qts(t)?)
            };
            Some(Upd::Modify(d, i, p_pat(t)?))
        }
        _ => None,
    }
}

fn s_tt(t: &TT) -> String {
    match t {
        TT::Var(v) => var_name(*v),
        TT::Const(c) => lex(c),
        TT::Bnode(l) => format!("_:{}", l),
    }
}
fn s_block(qs: &[QT]) -> String {
    let mut parts = Vec::new();
    for q in qs {
        let triple = format!("{} {} {}", s_tt(&q.s), s_tt(&q.p), s_tt(&q.o));
        match &q.g {
            None => parts.push(format!("{} .", triple)),
            Some(g) => parts.push(format!("GRAPH {} {{ {} }}", s_tt(g), triple)),
        }
    }
    format!("{{ {} }}", parts.join(" "))
}
fn s_upd(u: &Upd) -> String {
    match u {
        Upd::InsertData(q) => format!("INSERT DATA {}", s_block(q)),
        Upd::DeleteData(q) => format!("DELETE DATA {}", s_block(q)),
        Upd::DeleteWhere(q) => format!("DELETE WHERE {}", s_block(q)),
        Upd::Modify(d, i, w) => {
            let mut out = String::new();
            if let Some(d) = d {
                out.push_str(&format!("DELETE {} ", s_block(d)));
            }
            if let Some(i) = i {
                out.push_str(&format!("INSERT {} ", s_block(i)));
            }
            out.push_str(&format!("WHERE {}", sparql_where(w)));
            out
        }
    }
}

/// The same update written with prefixed names.  Style 1 binds `z:` to `urn:`, style 2 binds the SAME label `z:` to
/// `urn:s` (only IRIs below it are abbreviated): within one history the label is re-bound from request to request, and each
/// request's own declaration is what counts.
fn restyle(text: &str, style: u64) -> String {
    let ns = match style {
        1 => "urn:",
        2 => "urn:s",
        _ => return text.to_string(),
    };
    let mut out = String::new();
    let mut used = false;
    let mut rest = text;
    while let Some(i) = rest.find('<') {
        out.push_str(&rest[..i]);
        let tail = &rest[i..];
        match tail.find('>') {
            Some(j) => {
                let iri = &tail[1..j];
                let local = iri.strip_prefix(ns);
                match local {
                    Some(l) if !l.is_empty() && l.chars().all(|c| c.is_ascii_alphanumeric()) && l.chars().next().map_or(false, |c| c.is_ascii_alphanumeric()) => {
                        out.push_str(&format!("z:{}", l));
                        used = true;
                    }
                    _ => out.push_str(&tail[..=j]),
                }
                rest = &tail[j + 1..];
            }
            None => {
                out.push_str(tail);
                rest = "";
            }
        }
    }
    out.push_str(rest);
    if used { format!("PREFIX z: <{}> {}", ns, out) } else { text.to_string() }
}

fn canon_val(v: &str) -> String {
    if v.starts_with("_:kolibrie-update-") {
        hex("_:B")
    } else {
        hex(v)
    }
}
fn canon_dataset(db: &SparqlDatabase) -> String {
    let quads = db.dataset_index.all_quads();
    let dec = |id: u32| db.decode_any(id).unwrap_or_else(|| "?".into());
    let mut rows: Vec<String> = Vec::new();
    let mut blanks: Vec<String> = Vec::new();
    let mut lexq: Vec<[String; 3]> = Vec::new();
    for q in &quads {
        let (s, p, o) = (dec(q.subject), dec(q.predicate), dec(q.object));
        let g = match q.graph {
            GraphId::Default => "_".to_string(),
            GraphId::Named(g) => canon_val(&dec(g)),
        };
        rows.push(format!("{},{},{},{}", canon_val(&s), canon_val(&p), canon_val(&o), g));
        for t in [&s, &p, &o] {
            if t.starts_with("_:kolibrie-update-") && !blanks.contains(t) {
                blanks.push(t.clone());
            }
        }
        lexq.push([s, p, o]);
    }
    rows.sort();
    let mut degrees: Vec<usize> = blanks.iter().map(|b| lexq.iter().filter(|q| q.iter().any(|t| t == b)).count()).collect();
    degrees.sort();
    let mut graphs: Vec<String> = db
        .dataset_index
        .named_graphs()
        .into_iter()
        .filter_map(|g| match g {
            GraphId::Named(id) => Some(hex(&dec(id))),
            _ => None,
        })
        .collect();
    graphs.sort();
    format!(
        "{{{}}}G=[{}]B={}:{}",
        rows.join(";"),
        graphs.join(","),
        blanks.len(),
        degrees.iter().map(|d| d.to_string()).collect::<Vec<_>>().join(".")
    )
}

fn gen_tt(rng: &mut Rng, u: &Universe, nvars: u32, pos: u8, allow_var: bool, allow_bnode: bool) -> TT {
    let k = rng.below(100);
    if allow_var && k < 55 {
        TT::Var(rng.below(nvars as usize) as u32)
    } else if allow_bnode && k < 65 && pos != 1 {
        TT::Bnode(rng.pick(&["b0", "b1"]).to_string())
    } else {
        TT::Const(match pos {
            0 => rng.pick(&u.iris).clone(),
            1 => rng.pick(&u.preds).clone(),
            _ => {
                if rng.chance(1, 2) {
                    rng.pick(&u.iris).clone()
                } else {
                    rng.pick(&u.lits).clone()
                }
            }
        })
    }
}
fn gen_qts(rng: &mut Rng, u: &Universe, nvars: u32, allow_var: bool, allow_bnode: bool) -> Vec<QT> {
    (0..rng.range(1, 3))
        .map(|_| QT {
            s: gen_tt(rng, u, nvars, 0, allow_var, allow_bnode),
            p: gen_tt(rng, u, nvars, 1, allow_var, false),
            o: gen_tt(rng, u, nvars, 2, allow_var, allow_bnode),
            g: match rng.below(5) {
                0 | 1 => Some(TT::Const(rng.pick(&u.graphs).clone())),
                2 if allow_var => Some(TT::Var(rng.below(nvars as usize) as u32)),
                _ => None,
            },
        })
        .collect()
}

impl Prop for C03 {
    fn id(&self) -> &'static str {
        "update"
    }
    fn cases(&self, tier: Tier) -> usize {
        match tier {
            Tier::Quick => 3000,
            Tier::Thorough => 20000,
        }
    }
    fn gen(&self, rng: &mut Rng, tier: Tier, _i: usize, stats: &mut Stats) -> String {
        let mut u = universe(rng);
        let db = gen_db(rng, &mut u);
        let nvars = rng.range(2, 4) as u32;
        let n = rng.range(1, if tier == Tier::Quick { 8 } else { 14 });
        let mut ops = Vec::new();
        for _ in 0..n {
            let mut fresh = 10;
            let k = rng.below(100);
            let malformed = rng.chance(1, 8);
            let op = if k < 22 {
                stats.hit("insert_data");
                Upd::InsertData(gen_qts(rng, &u, nvars, malformed, true))
            } else if k < 40 {
                stats.hit("delete_data");
                {
                    let with_var = malformed && rng.chance(1, 2);
                    Upd::DeleteData(gen_qts(rng, &u, nvars, with_var, malformed))
                }
            } else if k < 52 {
                stats.hit("delete_where_shorthand");
                Upd::DeleteWhere(gen_qts(rng, &u, nvars, true, malformed))
            } else {
                let mut w = gen_group(rng, &u, nvars, 1, true, &mut fresh);
                let shape = if !u.seeds.is_empty() && rng.chance(1, 4) { 3 } else if !u.seeds.is_empty() && rng.chance(1, 6) { 4 } else { rng.below(3) };
                let (d, i) = match shape {
                    4 => {
                        // the WHERE clause yields the same solution several times (both branches of a UNION match, or a sub-select
                        // projects the distinguishing variable away) and the INSERT template allocates blank nodes: solutions form
                        // a multiset, one fresh blank node per solution occurrence
                        stats.hit("duplicate_solutions_with_template_bnodes");
                        let (_, sp, _) = rng.pick(&u.seeds).clone();
                        let tp = (Term::Var(0), Term::Const(sp), Term::Var(1));
                        let g1 = Pat::Group(vec![Pat::Bgp(vec![tp.clone()])]);
                        w = match rng.below(3) {
                            0 => Pat::Group(vec![Pat::Union(vec![g1.clone(), g1.clone()])]),
                            1 => {
                                let g2 = super::c02::near_copy(rng, &u, &g1);
                                Pat::Group(vec![Pat::Union(vec![g1.clone(), g2])])
                            }
                            _ => {
                                let mut spec = Spec::star();
                                spec.proj = Some(vec![Item::Var(0)]);
                                Pat::Group(vec![Pat::Sub(spec, Box::new(g1.clone()))])
                            }
                        };
                        let b = TT::Bnode("b0".into());
                        let i = vec![
                            QT { s: b.clone(), p: TT::Const(rng.pick(&u.preds).clone()), o: TT::Var(0), g: None },
                            QT { s: TT::Var(0), p: TT::Const(rng.pick(&u.preds).clone()), o: b, g: if rng.chance(1, 3) { Some(TT::Const(rng.pick(&u.graphs).clone())) } else { None } },
                        ];
                        (None, Some(i))
                    }
                    3 => {
                        // "move"/"rename": the WHERE matches a whole family of stored quads, the DELETE template removes
                        // exactly what was matched and the INSERT template re-attaches the matched terms elsewhere
                        // (so the last quad mentioning a term in a position may disappear in the same operation)
                        stats.hit("move_shape");
                        let (ss, sp, _) = rng.pick(&u.seeds).clone();
                        let s = if rng.chance(1, 2) { Term::Var(0) } else { Term::Const(ss) };
                        let pr = if rng.chance(1, 2) { Term::Var(1) } else { Term::Const(sp) };
                        let bgp = Pat::Bgp(vec![(s.clone(), pr.clone(), Term::Var(2))]);
                        let g = match rng.below(4) {
                            0 => Some(TT::Const(rng.pick(&u.graphs).clone())),
                            _ => None,
                        };
                        w = match &g {
                            Some(TT::Const(gn)) => Pat::Group(vec![Pat::Graph(GTerm::Named(gn.clone()), Box::new(Pat::Group(vec![bgp])))]),
                            _ => Pat::Group(vec![bgp]),
                        };
                        let tt = |t: &Term| match t {
                            Term::Var(v) => TT::Var(*v),
                            Term::Const(c) => TT::Const(c.clone()),
                        };
                        let d = vec![QT { s: tt(&s), p: tt(&pr), o: TT::Var(2), g: g.clone() }];
                        let mut i = Vec::new();
                        for _ in 0..rng.range(1, 2) {
                            // the matched terms change position or keep it under a new predicate/graph
                            let order = rng.below(4);
                            let np = TT::Const(rng.pick(&u.preds).clone());
                            let q = match order {
                                0 => QT { s: tt(&s), p: np, o: TT::Var(2), g: None },
                                1 => QT { s: TT::Var(2), p: tt(&pr), o: tt(&s), g: g.clone() },
                                2 => QT { s: tt(&s), p: tt(&pr), o: TT::Const(rng.pick(&u.lits).clone()), g: Some(TT::Const(rng.pick(&u.graphs).clone())) },
                                _ => QT { s: tt(&s), p: tt(&pr), o: TT::Var(2), g: Some(tt(&s)) },
                            };
                            i.push(q);
                        }
                        (Some(d), Some(i))
                    }
                    0 => {
                        stats.hit("insert_where");
                        (None, Some(gen_qts(rng, &u, nvars, true, true)))
                    }
                    1 => {
                        stats.hit("delete_where");
                        (Some(gen_qts(rng, &u, nvars, true, malformed)), None)
                    }
                    _ => {
                        stats.hit("delete_insert_where");
                        let d = gen_qts(rng, &u, nvars, true, malformed);
                        let mut i = gen_qts(rng, &u, nvars, true, true);
                        if rng.chance(2, 5) {
                            // the two templates overlap: the same quad is deleted and re-inserted
                            stats.hit("templates_overlap");
                            let k = rng.below(d.len());
                            let pos = rng.below(i.len() + 1);
                            i.insert(pos, d[k].clone());
                        }
                        (Some(d), Some(i))
                    }
                };
                Upd::Modify(d, i, w)
            };
            if malformed {
                stats.hit("possibly_rejected");
            }
            ops.push(op);
        }
        let mut toks: Vec<String> = vec!["update".into()];
        t_db(&db, &mut toks);
        toks.push(ops.len().to_string());
        for o in &ops {
            t_upd(o, &mut toks);
        }
        toks.join(" ")
    }
    fn exec(&self, req: &str) -> String {
        let mut t = Toks::new(req);
        if t.next() != Some("update") {
            return "bad-request".into();
        }
        let db_ast = match p_db(&mut t) {
            Some(d) => d,
            None => return "bad-request".into(),
        };
        let n = match t.nat() {
            Some(n) => n,
            None => return "bad-request".into(),
        };
        let mut ops = Vec::new();
        for _ in 0..n {
            match p_upd(&mut t) {
                Some(o) => ops.push(o),
                None => return "bad-request".into(),
            }
        }
        if !t.done() {
            return "bad-request".into();
        }
        let mut db = build_db(&db_ast);
        let mut out = Vec::new();
        for (k, o) in ops.iter().enumerate() {
            let text = s_upd(o);
            let text = restyle(&text, (fnv(&text) + k as u64) % 4);
            if std::env::var("KVERIF_C03_TRACE").is_ok() {
                eprintln!("--- before: {}\n--- op: {}", canon_dataset(&db), text.replace('\n', " "));
            }
            match db.execute_update(&text) {
                Ok(s) => out.push(format!("ok:{},{}:{}", s.inserted_quads, s.deleted_quads, fnv(&canon_dataset(&db)))),
                Err(_) => out.push(format!("rej:{}", fnv(&canon_dataset(&db)))),
            }
        }
        out.push(canon_dataset(&db));
        out.join(" ")
    }
}
