use crate::rng::Rng;
use std::collections::BTreeMap;

#[derive(Clone, Copy, PartialEq, Eq, Debug)]
pub enum Tier {
    Quick,
    Thorough,
}

/// distribution counters printed into the evidence
#[derive(Default)]
pub struct Stats {
    pub counts: BTreeMap<String, u64>,
}
impl Stats {
    pub fn hit(&mut self, k: &str) {
        *self.counts.entry(k.to_string()).or_insert(0) += 1;
    }
    pub fn add(&mut self, k: &str, n: u64) {
        *self.counts.entry(k.to_string()).or_insert(0) += n;
    }
}

pub trait Prop: Sync {
    /// protocol keyword (first token of every request line)
    fn id(&self) -> &'static str;
    /// number of generated cases for the tier
    fn cases(&self, tier: Tier) -> usize;
    /// deterministic, exhaustively enumerated requests (small universes) that run before the random ones
    fn exhaustive(&self, _tier: Tier, _stats: &mut Stats) -> Vec<String> {
        Vec::new()
    }
    /// one generated request line (without trailing newline)
    fn gen(&self, rng: &mut Rng, tier: Tier, i: usize, stats: &mut Stats) -> String;
    /// run the real implementation on a request line; canonical reply
    fn exec(&self, req: &str) -> String;
}

mod registry;
pub use registry::lookup;
