//! C11 — multi-window results are joins of what each window itself reported.
//! Protocol documented in lean/Kolibrie/Driver/C11.lean.
//!
//! Request: `rspm <S|M<seed>> <W|X|TS|TD> <staticPats|-> <staticData|-> <win> <win> <event>…`
//!   policy = W wait | X steal | TS timeout(steal) | TD timeout(drop)
//!   win    = `stream/width/slide/pats`   (pats as in C10: `t,t,t;t,t,t`)
//!   event  = `ts:stream:s,p,o` | `STOP`
//! Reply (single-thread): `W0 {content}… W1 {content}… E [rows]…` — per window the contents an independent probe window
//!   with the same parameters reported, then every non-empty emission (rows sorted).
//! Reply (multi-thread):  `W0 … W1 … R [rows]` — the set of distinct rows emitted over the whole run (grouping into
//!   emissions depends on the coordinator's timing; judged against the allowed rows only).
use super::c10::{nt_line, parse_pats, pats_text, probe_window, show_content, show_pats, show_rows, gen_bgp, Jitter, jit, Pat, Tm};
use super::{Prop, Stats, Tier};
use crate::rng::Rng;
use kolibrie::rsp_engine::{OperationMode, QueryExecutionMode, RSPBuilder, RSPEngine, ResultConsumer, SimpleR2R};
use shared::query::{Fallback, SyncPolicy};
use shared::triple::Triple;
use std::sync::{Arc, Mutex};
use std::time::Duration;

pub struct C11;

struct Win {
    stream: u32,
    width: usize,
    slide: usize,
    pats: Vec<Pat>,
}
fn parse_win(s: &str) -> Option<Win> {
    let v: Vec<&str> = s.split('/').collect();
    if v.len() != 4 {
        return None;
    }
    let w = Win { stream: v[0].parse().ok()?, width: v[1].parse().ok()?, slide: v[2].parse().ok()?, pats: parse_pats(v[3])? };
    if w.width == 0 || w.slide == 0 || w.pats.is_empty() {
        return None;
    }
    Some(w)
}
enum Ev {
    Add(usize, u32, u32, u32, u32),
    Stop,
}
fn parse_ev(s: &str) -> Option<Ev> {
    if s == "STOP" {
        return Some(Ev::Stop);
    }
    let v: Vec<&str> = s.split(':').collect();
    if v.len() != 3 {
        return None;
    }
    let t: Vec<u32> = v[2].split(',').map(|x| x.parse().ok()).collect::<Option<Vec<_>>>()?;
    if t.len() != 3 {
        return None;
    }
    Some(Ev::Add(v[0].parse().ok()?, v[1].parse().ok()?, t[0], t[1], t[2]))
}
fn parse_triples(s: &str) -> Option<Vec<(u32, u32, u32)>> {
    if s == "-" {
        return Some(vec![]);
    }
    s.split(';')
        .map(|t| {
            let v: Vec<u32> = t.split(',').map(|x| x.parse().ok()).collect::<Option<Vec<_>>>()?;
            if v.len() == 3 {
                Some((v[0], v[1], v[2]))
            } else {
                None
            }
        })
        .collect()
}

fn run(req: &str) -> Option<String> {
    let toks: Vec<&str> = req.split(' ').collect();
    if toks.len() < 7 || toks[0] != "rspm" {
        return None;
    }
    let (multi, jitter) = match toks[1] {
        "S" => (false, None),
        "M" => (true, None),
        m if m.starts_with('M') => (true, Some(Jitter::new(m[1..].parse().ok()?))),
        _ => return None,
    };
    // a trailing `r`: the WINDOW blocks are written in the WHERE clause in the reverse of their declaration order (and
    // the static pattern first), which must not matter
    // a trailing `n`: the streams are named by full IRIs that share their last segment (<http://plant0.example/obs>,
    // <http://plant1.example/obs>) instead of :s0 / :s1
    let reversed = toks[2].contains('r');
    let namespaced = toks[2].contains('n');
    let sname = |k: u32| if namespaced { format!("<http://plant{}.example/obs>", k) } else { format!(":s{}", k) };
    let spush = |k: u32| if namespaced { format!("http://plant{}.example/obs", k) } else { format!("s{}", k) };
    let policy = match toks[2].trim_end_matches(|c| c == 'r' || c == 'n') {
        "W" => SyncPolicy::Wait,
        "X" => SyncPolicy::Steal,
        "TS" => SyncPolicy::Timeout { duration: Duration::from_millis(3), fallback: Fallback::Steal },
        "TD" => SyncPolicy::Timeout { duration: Duration::from_millis(3), fallback: Fallback::Drop },
        _ => return None,
    };
    let static_pats = parse_pats(toks[3])?;
    let static_data = parse_triples(toks[4])?;
    let wins = vec![parse_win(toks[5])?, parse_win(toks[6])?];
    let evs: Vec<Ev> = toks[7..].iter().map(|t| parse_ev(t)).collect::<Option<Vec<_>>>()?;

    let log: Arc<Mutex<Vec<Vec<(String, String)>>>> = Arc::new(Mutex::new(Vec::new()));
    let l2 = Arc::clone(&log);
    let j2 = jitter.clone();
    let consumer = ResultConsumer {
        function: Arc::new(move |r: Vec<(String, String)>| {
            jit(&j2);
            l2.lock().unwrap().push(r);
        }),
    };
    let r2r = Box::new(SimpleR2R::with_execution_mode(QueryExecutionMode::Volcano));
    let mut text = String::from("REGISTER RSTREAM <http://out/stream> AS\nSELECT *\n");
    for (i, w) in wins.iter().enumerate() {
        text.push_str(&format!("FROM NAMED WINDOW :w{} ON {} [RANGE {} STEP {}]\n", i, sname(w.stream), w.width, w.slide));
    }
    text.push_str("WHERE {\n");
    if reversed && !static_pats.is_empty() {
        text.push_str(&format!("  {}\n", pats_text(&static_pats)));
    }
    let mut order: Vec<usize> = (0..wins.len()).collect();
    if reversed {
        order.reverse();
    }
    for i in order {
        text.push_str(&format!("  WINDOW :w{} {{ {}}}\n", i, pats_text(&wins[i].pats)));
    }
    if !reversed && !static_pats.is_empty() {
        text.push_str(&format!("  {}\n", pats_text(&static_pats)));
    }
    text.push_str("}");
    let mut engine: RSPEngine<Triple, Vec<(String, String)>> = match RSPBuilder::new()
        .add_rsp_ql_query(&text)
        .add_consumer(consumer)
        .add_r2r(r2r)
        .set_operation_mode(if multi { OperationMode::MultiThread } else { OperationMode::SingleThread })
        .set_sync_policy(policy)
        .build()
    {
        Ok(e) => e,
        Err(e) => return Some(format!("build-error:{}", e.replace(' ', "_"))),
    };
    if !static_data.is_empty() {
        let nt: Vec<String> = static_data.iter().map(|(s, p, o)| nt_line(*s, *p, *o)).collect();
        engine.add_static_ntriples(&nt.join("\n"));
    }
    let mut probes: Vec<_> = wins.iter().map(|w| probe_window(w.width, w.slide)).collect();
    let mut groups: Vec<Vec<Vec<(String, String)>>> = Vec::new();
    let mut seen = 0usize;
    let mut stopped = false;
    for ev in &evs {
        if stopped {
            break;
        }
        match ev {
            Ev::Add(ts, stream, s, p, o) => {
                jit(&jitter);
                for t in engine.parse_data(&nt_line(*s, *p, *o)) {
                    engine.add_to_stream(&spush(*stream), t, *ts);
                }
                for (i, w) in wins.iter().enumerate() {
                    if w.stream == *stream {
                        probes[i].0.add_to_window((*s, *p, *o), *ts);
                    }
                }
            }
            Ev::Stop => {
                engine.stop();
                for p in probes.iter_mut() {
                    p.0.flush();
                    p.0.stop();
                }
                stopped = true;
            }
        }
        if !multi {
            let l = log.lock().unwrap();
            if l.len() > seen {
                groups.push(l[seen..].to_vec());
                seen = l.len();
            }
        }
    }
    if multi {
        // let a pending timeout cycle expire before the channel is closed, then join all threads deterministically
        std::thread::sleep(Duration::from_millis(8));
    }
    drop(engine);
    let mut spins = 0u64;
    while Arc::strong_count(&log) > 1 {
        std::thread::sleep(Duration::from_micros(200));
        spins += 1;
        if spins > 100_000 {
            return Some("timeout-waiting-for-workers".to_string());
        }
    }
    let mut out = String::new();
    for (i, p) in probes.iter().enumerate() {
        out.push_str(&format!("W{} {} ", i, p.1.lock().unwrap().iter().map(|c| show_content(c)).collect::<Vec<_>>().join(" ")));
    }
    if multi {
        let mut rows = log.lock().unwrap().clone();
        rows.sort();
        rows.dedup();
        out.push_str(&format!("R {}", show_rows(&rows)));
    } else {
        out.push_str(&format!("E {}", groups.iter().map(|g| show_rows(g)).collect::<Vec<_>>().join(" ")));
    }
    Some(out.replace("  ", " ").trim_end().to_string())
}

fn gen_block(rng: &mut Rng, npat: usize, vars: &[u32], preds: &[u32], allow_var_pred: bool, stats: &mut Stats) -> Vec<Pat> {
    let mut ps = Vec::new();
    for _ in 0..npat {
        let sv = *rng.pick(vars);
        let s = if rng.chance(9, 10) { Tm::V(sv) } else { Tm::C(rng.range(1, 3) as u32) };
        let p = if allow_var_pred && rng.chance(1, 12) {
            stats.hit("block_var_predicate");
            Tm::V(*rng.pick(vars))
        } else {
            Tm::C(*rng.pick(preds))
        };
        // object: usually a variable different from the subject's
        let others: Vec<u32> = vars.iter().cloned().filter(|v| *v != sv).collect();
        let o = if rng.chance(4, 5) {
            if !others.is_empty() && rng.chance(9, 10) { Tm::V(*rng.pick(&others)) } else { Tm::V(sv) }
        } else {
            Tm::C(rng.range(1, 3) as u32)
        };
        ps.push((s, p, o));
    }
    ps
}

impl C11 {
    fn random_case(&self, rng: &mut Rng, tier: Tier, stats: &mut Stats) -> String {
        let multi = rng.chance(1, 4);
        let mode = if multi { format!("M{}", rng.range(1, 999_999)) } else { "S".to_string() };
        stats.hit(if multi { "mode_multi" } else { "mode_single" });
        let policy = *rng.pick(&["W", "W", "W", "X", "X", "TS", "TD"]);
        stats.hit(&format!("policy_{}", policy));
        let policy = if rng.chance(1, 3) {
            stats.hit("blocks_in_reverse_order");
            format!("{}r", policy)
        } else {
            policy.to_string()
        };
        let policy = if rng.chance(1, 4) {
            stats.hit("streams_named_by_full_iris_sharing_the_last_segment");
            format!("{}n", policy)
        } else {
            policy
        };
        let shared_vocab = rng.chance(1, 2);
        stats.hit(if shared_vocab { "vocab_shared" } else { "vocab_disjoint" });
        let (pa, pb): (Vec<u32>, Vec<u32>) = if shared_vocab { (vec![10, 11, 12], vec![10, 11, 12]) } else { (vec![10, 11], vec![12, 13]) };
        // variable pools: overlapping pools make the blocks join on shared variables
        let (va, vb): (Vec<u32>, Vec<u32>) = match rng.below(3) {
            0 => {
                stats.hit("blocks_no_shared_vars");
                (vec![0, 1], vec![2, 3])
            }
            1 => {
                stats.hit("blocks_share_one_var");
                (vec![0, 1], vec![1, 2])
            }
            _ => {
                stats.hit("blocks_same_vars");
                (vec![0, 1], vec![0, 1])
            }
        };
        let na = if rng.chance(3, 4) { 1 } else { 2 };
        let nb = if rng.chance(3, 4) { 1 } else { 2 };
        let qa = gen_block(rng, na, &va, &pa, shared_vocab, stats);
        let qb = gen_block(rng, nb, &vb, &pb, shared_vocab, stats);
        let same_stream = rng.chance(1, 10);
        if same_stream {
            stats.hit("both_windows_on_one_stream");
        }
        let sa = 0u32;
        let sb = if same_stream { 0 } else { 1 };
        let mut wl = |rng: &mut Rng| {
            let w = rng.range(1, 4);
            let l = if rng.chance(4, 5) { rng.range(1, w) } else { rng.range(w, 5) };
            (w, l)
        };
        let (wa, la) = wl(rng);
        let (wb, lb) = if rng.chance(1, 3) { (wa, la) } else { wl(rng) };
        // static part
        let mut spats = Vec::new();
        let mut sdata: Vec<(u32, u32, u32)> = Vec::new();
        if rng.chance(2, 5) {
            stats.hit("with_static_plan");
            let mut allv = va.clone();
            allv.extend(vb.iter());
            spats = if rng.chance(3, 4) {
                vec![(Tm::V(*rng.pick(&va)), Tm::C(14), Tm::V(*rng.pick(&vb)))]
            } else {
                gen_block(rng, 1, &allv, &[14], false, stats)
            };
            let n = rng.below(7);
            for _ in 0..n {
                // static triples over the static predicate, and sometimes over window predicates (must never show up in a block)
                let p = if rng.chance(1, 4) {
                    stats.hit("static_triple_with_window_predicate");
                    *rng.pick(&pa)
                } else {
                    14
                };
                sdata.push((rng.range(1, 3) as u32, p, rng.range(1, 3) as u32));
            }
            if sdata.is_empty() {
                stats.hit("static_data_empty");
            }
        }
        let maxn = if tier == Tier::Quick { 24 } else { 48 };
        let n = rng.range(6, maxn);
        let mut ts = rng.below(2);
        let mut evs = Vec::new();
        for _ in 0..n {
            ts += match rng.below(12) {
                0..=4 => 0,
                5..=9 => 1,
                10 => 2,
                _ => rng.range(2, 7),
            };
            let on_a = rng.chance(1, 2);
            let stream = if on_a { sa } else { sb };
            let pool = if on_a { &pa } else { &pb };
            evs.push(format!("{}:{}:{},{},{}", ts, stream, rng.range(1, 3), rng.pick(pool), rng.range(1, 3)));
        }
        if rng.chance(1, 3) {
            evs.push("STOP".to_string());
            stats.hit("with_stop_flush");
        }
        let sd = if sdata.is_empty() { "-".to_string() } else { sdata.iter().map(|(s, p, o)| format!("{},{},{}", s, p, o)).collect::<Vec<_>>().join(";") };
        format!(
            "rspm {} {} {} {} {}/{}/{}/{} {}/{}/{}/{} {}",
            mode,
            policy,
            if spats.is_empty() { "-".to_string() } else { show_pats(&spats) },
            sd,
            sa, wa, la, show_pats(&qa),
            sb, wb, lb, show_pats(&qb),
            evs.join(" ")
        )
    }
}

impl Prop for C11 {
    fn id(&self) -> &'static str {
        "C11"
    }
    fn cases(&self, tier: Tier) -> usize {
        match tier {
            Tier::Quick => 3000,
            Tier::Thorough => 40000,
        }
    }
    /// exhaustive small universe: two tumbling windows [2k,2k+2) over streams 0/1, blocks `?a 10 5` / `?b 10 5`
    /// (the class-sharing witness shape); each of 2 (quick) / 3 (thorough) rounds gives each stream one of
    /// {nothing, item 1, item 2, items 1 and 2}; all policies
    fn exhaustive(&self, tier: Tier, stats: &mut Stats) -> Vec<String> {
        let opts: [&[u32]; 4] = [&[], &[1], &[2], &[1, 2]];
        let rounds = if tier == Tier::Quick { 2 } else { 3 };
        let total = 16usize.pow(rounds as u32);
        let mut out = Vec::new();
        for code in 0..total {
            let mut c = code;
            let mut evs = Vec::new();
            for k in 0..rounds {
                let a = opts[c % 4];
                c /= 4;
                let b = opts[c % 4];
                c /= 4;
                for x in a {
                    evs.push(format!("{}:0:{},10,5", 2 * k, x));
                }
                for x in b {
                    evs.push(format!("{}:1:{},10,5", 2 * k, x + 2));
                }
            }
            evs.push(format!("{}:0:9,15,9", 2 * rounds));
            evs.push(format!("{}:1:9,15,9", 2 * rounds));
            evs.push(format!("{}:0:9,15,9", 2 * rounds + 2));
            for pol in ["W", "X"] {
                out.push(format!("rspm S {} - - 0/2/2/v0,10,5 1/2/2/v1,10,5 {}", pol, evs.join(" ")));
            }
        }
        stats.add("exhaustive_round_sequences", total as u64);
        out
    }
    fn gen(&self, rng: &mut Rng, tier: Tier, _i: usize, stats: &mut Stats) -> String {
        let _ = gen_bgp as fn(&mut Rng, usize, u32, &mut Stats, &str) -> Vec<Pat>;
        self.random_case(rng, tier, stats)
    }
    fn exec(&self, req: &str) -> String {
        let _quiet = super::c10::gag::Gag::new();
        run(req).unwrap_or_else(|| "bad-request".to_string())
    }
}
