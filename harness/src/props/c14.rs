//! C14 — exported data re-imports to the same dataset.
//! Protocol documented in lean/Kolibrie/Driver/C14.lean.
use super::{Prop, Stats, Tier};
use crate::proto::*;
use crate::rng::Rng;
use kolibrie::sparql_database::SparqlDatabase;
use shared::dataset_index::{GraphId, Quad};
use shared::quoted_triple_store::is_quoted_triple_id;
use std::collections::BTreeSet;

pub struct C14;

/// the loaders report malformed lines with `eprintln!`; keep the line protocol clean (stderr -> /dev/null, once)
pub fn silence_stderr() {
    use std::sync::Once;
    static ONCE: Once = Once::new();
    ONCE.call_once(|| {
        extern "C" {
            fn dup2(a: i32, b: i32) -> i32;
        }
        if let Ok(f) = std::fs::OpenOptions::new().write(true).open("/dev/null") {
            use std::os::unix::io::AsRawFd;
            unsafe {
                dup2(f.as_raw_fd(), 2);
            }
            std::mem::forget(f);
        }
    });
}

#[derive(Clone, Debug)]
pub enum Term {
    Plain(String),
    Quoted(Box<Term>, Box<Term>, Box<Term>),
}

pub fn show_term(t: &Term) -> String {
    match t {
        Term::Plain(s) => hex(s),
        Term::Quoted(a, b, c) => format!("[{};{};{}]", show_term(a), show_term(b), show_term(c)),
    }
}

fn parse_term(b: &[u8], i: &mut usize) -> Option<Term> {
    if *i < b.len() && b[*i] == b'[' {
        *i += 1;
        let a = parse_term(b, i)?;
        if b.get(*i) != Some(&b';') {
            return None;
        }
        *i += 1;
        let p = parse_term(b, i)?;
        if b.get(*i) != Some(&b';') {
            return None;
        }
        *i += 1;
        let o = parse_term(b, i)?;
        if b.get(*i) != Some(&b']') {
            return None;
        }
        *i += 1;
        Some(Term::Quoted(Box::new(a), Box::new(p), Box::new(o)))
    } else {
        let st = *i;
        while *i < b.len() && (b[*i].is_ascii_digit() || (b'a'..=b'f').contains(&b[*i]) || b[*i] == b'-') {
            *i += 1;
        }
        if st == *i {
            return None;
        }
        Some(Term::Plain(unhex(std::str::from_utf8(&b[st..*i]).ok()?)?))
    }
}

pub type QuadT = (Term, Term, Term, Option<Term>);

pub fn parse_quad_tok(t: &str) -> Option<QuadT> {
    let b = t.as_bytes();
    let mut i = 0;
    let s = parse_term(b, &mut i)?;
    if b.get(i) != Some(&b',') {
        return None;
    }
    i += 1;
    let p = parse_term(b, &mut i)?;
    if b.get(i) != Some(&b',') {
        return None;
    }
    i += 1;
    let o = parse_term(b, &mut i)?;
    if b.get(i) != Some(&b',') {
        return None;
    }
    i += 1;
    if &b[i..] == b"_" {
        return Some((s, p, o, None));
    }
    let g = parse_term(b, &mut i)?;
    if i != b.len() {
        return None;
    }
    Some((s, p, o, Some(g)))
}

pub fn show_quad_tok(q: &QuadT) -> String {
    format!(
        "{},{},{},{}",
        show_term(&q.0),
        show_term(&q.1),
        show_term(&q.2),
        match &q.3 {
            None => "_".to_string(),
            Some(g) => show_term(g),
        }
    )
}

/// store a term exactly as the database would hold it: plain strings in the dictionary, quoted triples in the
/// quoted-triple store
pub fn encode(db: &SparqlDatabase, t: &Term) -> u32 {
    match t {
        Term::Plain(s) => db.dictionary.write().unwrap().encode(s),
        Term::Quoted(a, b, c) => {
            let (x, y, z) = (encode(db, a), encode(db, b), encode(db, c));
            db.quoted_triple_store.write().unwrap().encode(x, y, z)
        }
    }
}

pub fn build_db(quads: &[QuadT]) -> SparqlDatabase {
    let mut db = SparqlDatabase::new();
    for (s, p, o, g) in quads {
        let q = Quad {
            subject: encode(&db, s),
            predicate: encode(&db, p),
            object: encode(&db, o),
            graph: match g {
                None => GraphId::Default,
                Some(g) => GraphId::Named(encode(&db, g)),
            },
        };
        db.add_quad(q);
    }
    db
}

fn lex(db: &SparqlDatabase, id: u32) -> String {
    if is_quoted_triple_id(id) {
        let d = db.quoted_triple_store.read().unwrap().decode(id);
        match d {
            Some((s, p, o)) => format!("[{};{};{}]", lex(db, s), lex(db, p), lex(db, o)),
            None => "?".to_string(),
        }
    } else {
        match db.dictionary.read().unwrap().decode(id) {
            Some(s) => hex(s),
            None => "?".to_string(),
        }
    }
}

/// lexical quads of a database, sorted, duplicates removed
pub fn lex_quads(db: &SparqlDatabase) -> Vec<String> {
    let mut set: BTreeSet<String> = BTreeSet::new();
    for q in db.dataset_index.all_quads() {
        let g = match q.graph {
            GraphId::Default => "_".to_string(),
            GraphId::Named(g) => lex(db, g),
        };
        set.insert(format!("{},{},{},{}", lex(db, q.subject), lex(db, q.predicate), lex(db, q.object), g));
    }
    set.into_iter().collect()
}

pub fn tok_hash(text: &str) -> u64 {
    let mut v: Vec<&str> = text.split(|c| c == ' ' || c == '\n').filter(|s| !s.is_empty()).collect();
    v.sort();
    fnv(&v.join(" "))
}

pub fn generate(db: &SparqlDatabase, fmt: &str) -> String {
    match fmt {
        "nq" => db.generate_nquads(),
        "nt" => db.generate_ntriples(),
        _ => db.generate_turtle(),
    }
}

pub fn parse_into(db: &mut SparqlDatabase, fmt: &str, text: &str) {
    match fmt {
        "nq" => db.parse_nquads_and_add(text),
        "nt" => db.parse_ntriples_and_add(text),
        _ => db.parse_turtle(text),
    }
}

fn with_sp(v: &[String]) -> String {
    if v.is_empty() {
        String::new()
    } else {
        format!(" {}", v.join(" "))
    }
}

// ------------------------------------------------------------------------------------------------ generators

const IRIS: &[&str] = &[
    "http://ex.org/a", "http://ex.org/b", "https://ex.org/c#frag", "urn:x:y", "mailto:a@b.c", "ex:thing", "a+b.c-d:zz",
    "http://ex.org/\u{fc}", "http://ex.org/%20x", "http://ex.org/p", "http://ex.org/q", "tag:x,2020:it;em.",
];
const BAD_IRIS: &[&str] = &["http://a b", "http://a>b", "noscheme", "http://a\"b", "http://a\\b", "1x:y", "http://a<b", ""];
const BLANKS: &[&str] = &["_:b0", "_:x-1", "_:", "_:n_2"];
const BAD_BLANKS: &[&str] = &["_:a b", "_:a\"b", "_:<x>"];
const PIECES: &[&str] = &[
    "a", "hello", "x y", " ", "\"", "\\", "\n", "\r", "\t", "\u{1F600}", "\u{e9}", "\u{a0}", "<", ">", ".", ";", ",", "{|", "|}",
    "^^", "@en", "#", "_:", "<<", ">>", "x:", "http://", "'", "\\u0041", "\\n", "\"\"", "  ", "\u{2028}", "\u{3000}", "\u{85}", "42",
    "<b>", "\u{8a9e}", "\r\n", "^^<http://dt>", "\u{c}", "\u{8}", "\u{0}", "\\\"",
];
const SPECIALS: &[&str] = &[
    "\"", "\\", "\n", "\r", "\t", " ", "a", "<", ">", ".", ";", ",", "{|", "|}", "^", "@", "#", "_:", "<<", "x:", "'", "\u{1F600}",
    "\u{a0}", "",
];

fn literal(rng: &mut Rng, stats: &mut Stats) -> String {
    let k = rng.below(100);
    if k < 8 {
        stats.hit("lit_empty");
        return String::new();
    }
    if k < 30 {
        stats.hit("lit_plain");
        return rng.pick(&["hello", "hello world", "42", "a.b;c,d", "caf\u{e9} \u{1F600}", "x"]).to_string();
    }
    stats.hit("lit_hostile");
    let n = rng.range(1, 6);
    let mut s = String::new();
    for _ in 0..n {
        s.push_str(*rng.pick(PIECES));
    }
    s
}

fn iri(rng: &mut Rng, stats: &mut Stats) -> String {
    if rng.chance(1, 25) {
        stats.hit("iri_invalid");
        rng.pick(BAD_IRIS).to_string()
    } else {
        rng.pick(IRIS).to_string()
    }
}

fn blank(rng: &mut Rng, stats: &mut Stats) -> String {
    if rng.chance(1, 15) {
        stats.hit("blank_invalid");
        rng.pick(BAD_BLANKS).to_string()
    } else {
        rng.pick(BLANKS).to_string()
    }
}

fn quoted(rng: &mut Rng, depth: usize, stats: &mut Stats) -> Term {
    stats.hit("term_quoted");
    let s = if depth > 0 && rng.chance(1, 4) {
        quoted(rng, depth - 1, stats)
    } else if rng.chance(1, 5) {
        Term::Plain(blank(rng, stats))
    } else {
        Term::Plain(iri(rng, stats))
    };
    let p = Term::Plain(iri(rng, stats));
    let o = if depth > 0 && rng.chance(1, 4) {
        quoted(rng, depth - 1, stats)
    } else if rng.chance(1, 2) {
        Term::Plain(iri(rng, stats))
    } else if rng.chance(2, 3) {
        stats.hit("quoted_simple_literal");
        Term::Plain(rng.pick(&["42", "hello", "x", "caf\u{e9}"]).to_string())
    } else {
        stats.hit("quoted_hostile_literal");
        Term::Plain(literal(rng, stats))
    };
    Term::Quoted(Box::new(s), Box::new(p), Box::new(o))
}

pub fn gen_quad(rng: &mut Rng, stats: &mut Stats, named: bool) -> QuadT {
    let k = rng.below(100);
    let s = if k < 70 {
        Term::Plain(iri(rng, stats))
    } else if k < 85 {
        stats.hit("subj_blank");
        Term::Plain(blank(rng, stats))
    } else {
        quoted(rng, 2, stats)
    };
    let p = Term::Plain(iri(rng, stats));
    let k = rng.below(100);
    let o = if k < 20 {
        stats.hit("obj_iri");
        Term::Plain(iri(rng, stats))
    } else if k < 28 {
        stats.hit("obj_blank");
        Term::Plain(blank(rng, stats))
    } else if k < 38 {
        quoted(rng, 2, stats)
    } else {
        Term::Plain(literal(rng, stats))
    };
    let g = if named && rng.chance(2, 5) {
        stats.hit("graph_named");
        Some(Term::Plain(if rng.chance(1, 5) { blank(rng, stats) } else { iri(rng, stats) }))
    } else {
        None
    };
    (s, p, o, g)
}

const HAND_DOCS: &[(&str, &str)] = &[
    ("nt", "<http://a> <http://b> \"x\"^^<http://www.w3.org/2001/XMLSchema#string> .\n<http://a> <http://b> \"y\"@en-GB .\n"),
    ("nt", "# comment\n\n<http://a> a <http://C> .\n<http://a> <http://b> <http://c>\n  <http://a>   <http://b>\t\"t a b\" .  \r\n"),
    ("nt", "<http://a> <http://b> \"unterminated .\n<http://a> <http://b> \"bad \\q escape\" .\n<http://a> <http://b> \"\\u00e9\\U0001F600\" .\n"),
    ("nt", "<< <http://a> <http://b> \"x y\" >> <http://p> << <http://a> <http://b> <http://c> >> .\n_:b <http://p> _:c .\n"),
    ("nq", "<http://a> <http://b> \"x\" <http://g> .\n<http://a> <http://b> \"x\" _:g .\n<http://a> <http://b> \"x\" .\n<a> <b> <c> <d> <e> .\n<a> <b> .\n"),
    ("nq", "<http://a> <http://b> \"x\"^^<http://dt> <http://g> .\n<http://a> <http://b> \"x\"@en <http://g> .\n<http://a> <http://b> \"x\"^^ <http://g> .\n"),
    ("ttl", "@prefix ex: <http://ex.org/> .\nex:a ex:b ex:c , ex:d ; ex:e \"lit; with, dots.\" .\nPREFIX foo: <http://foo/>\nfoo:x a foo:Y .\n"),
    ("ttl", "<http://a> <http://b> <http://c> {| <http://src> <http://d> |} .\n<http://a> <http://b> \"x\" {| <http://src> |} .\n"),
    ("ttl", "<< <http://a> <http://b> <http://c> >> <http://p> \"o\" .\n<http://s> <http://p> << <http://a> <http://b> \"x\" >> .\n"),
    ("ttl", "<http://a> <http://b> \"\n<http://a> <http://b> \" .\n<http://a> <http://b> \"x\"@en .\n<http://a> <http://b> \"5\"^^<http://dt> .\n"),
    ("ttl", "<http://a> <http://b> \"{|}\" .\n"),
];

const MUT_CHARS: &[&str] = &["\"", "\\", "<", ">", " ", ".", "^", "@", "<<", ">>", "\t", ";", ",", "#", "a", "_:", "{|", "|}", "\u{e9}", "\n", ":"];

fn mutate(rng: &mut Rng, text: &str) -> String {
    let mut cs: Vec<char> = text.chars().collect();
    let n = rng.range(1, 3);
    for _ in 0..n {
        if cs.is_empty() {
            break;
        }
        let pos = rng.below(cs.len());
        match rng.below(3) {
            0 => {
                cs.remove(pos);
            }
            1 => {
                let ins: Vec<char> = rng.pick(MUT_CHARS).chars().collect();
                for (k, c) in ins.into_iter().enumerate() {
                    cs.insert(pos + k, c);
                }
            }
            _ => {
                let rep: Vec<char> = rng.pick(MUT_CHARS).chars().collect();
                cs[pos] = rep[0];
            }
        }
    }
    cs.into_iter().collect()
}

fn fmt_of(k: usize) -> &'static str {
    ["nq", "nt", "ttl"][k % 3]
}

impl Prop for C14 {
    fn id(&self) -> &'static str {
        "export"
    }
    fn cases(&self, tier: Tier) -> usize {
        match tier {
            Tier::Quick => 4000,
            Tier::Thorough => 60000,
        }
    }

    /// every literal made of ≤ 2 pieces of SPECIALS, as the object of one triple, through every format;
    /// plus the hand-written documents
    fn exhaustive(&self, _tier: Tier, stats: &mut Stats) -> Vec<String> {
        let mut out = Vec::new();
        for a in SPECIALS {
            for b in SPECIALS {
                let lit = format!("{}{}", a, b);
                for f in 0..3 {
                    let q: QuadT = (Term::Plain("http://ex.org/s".into()), Term::Plain("http://ex.org/p".into()), Term::Plain(lit.clone()), None);
                    out.push(format!("export rt {} {}", fmt_of(f), show_quad_tok(&q)));
                }
            }
        }
        stats.add("exhaustive_literal_pairs", (SPECIALS.len() * SPECIALS.len() * 3) as u64);
        for (f, d) in HAND_DOCS {
            out.push(format!("export parse {} {}", f, hex(d)));
            stats.hit("hand_docs");
        }
        out
    }

    fn gen(&self, rng: &mut Rng, _tier: Tier, i: usize, stats: &mut Stats) -> String {
        let fmt = fmt_of(i);
        let n = if rng.chance(1, 20) { 0 } else { rng.range(1, 5) };
        let mut quads: Vec<QuadT> = (0..n).map(|_| gen_quad(rng, stats, true)).collect();
        // shared subjects/predicates make Turtle's `;` and `,` groups appear
        if quads.len() >= 2 && rng.chance(1, 2) {
            quads[1].0 = quads[0].0.clone();
            if rng.chance(1, 2) {
                quads[1].1 = quads[0].1.clone();
                stats.hit("shared_subject_predicate");
            } else {
                stats.hit("shared_subject");
            }
        }
        if i % 6 == 1 {
            // the database also carries prefix declarations (as after loading a Turtle document with @prefix); terms inside
            // the declared namespaces, with local parts that are not plain names
            stats.hit("db_with_prefixes");
            let fmt = if rng.chance(3, 4) { "ttl" } else { fmt };
            let locals = ["alice", "report.v2.pdf", "a.b", "x-1", "v1.", "a/b", "a#b", "", "%41", "q?x=1"];
            let nss = [("ex", "http://ex.org/"), ("ns", "http://ex.org/ns#"), ("e", "http://e/")];
            let np = rng.range(1, 2);
            let mut chosen: Vec<(&str, &str)> = Vec::new();
            for _ in 0..np {
                let c = *rng.pick(&nss);
                if !chosen.iter().any(|x| x.0 == c.0) {
                    chosen.push(c);
                }
            }
            let mut in_ns = |rng: &mut Rng| format!("{}{}", rng.pick(&chosen).1, rng.pick(&locals));
            for q in quads.iter_mut() {
                if rng.chance(1, 2) {
                    q.0 = Term::Plain(in_ns(rng));
                }
                if rng.chance(1, 2) {
                    q.1 = Term::Plain(in_ns(rng));
                }
                if rng.chance(1, 2) {
                    q.2 = Term::Plain(in_ns(rng));
                }
            }
            let pf: Vec<String> = chosen.iter().map(|(k, v)| format!("{}={}", k, hex(v))).collect();
            let toks: Vec<String> = quads.iter().map(show_quad_tok).collect();
            return format!("export rtp {} {}{}", fmt, pf.join(","), with_sp(&toks));
        }
        if i % 5 == 4 {
            // malformed stream: text produced by the real generator, then damaged (readers' correspondence only)
            stats.hit(&format!("parse_mutated_{}", fmt));
            let db = build_db(&quads);
            let mut lines: Vec<String> = generate(&db, fmt).split_inclusive('\n').map(|s| s.to_string()).collect();
            if fmt != "ttl" {
                lines.sort();
            }
            let text = mutate(rng, &lines.concat());
            return format!("export parse {} {}", fmt, hex(&text));
        }
        stats.hit(&format!("rt_{}", fmt));
        stats.hit(&format!("rt_quads_{}", quads.len()));
        let toks: Vec<String> = quads.iter().map(show_quad_tok).collect();
        format!("export rt {}{}", fmt, with_sp(&toks))
    }

    fn exec(&self, req: &str) -> String {
        silence_stderr();
        let toks: Vec<&str> = req.split(' ').filter(|t| !t.is_empty()).collect();
        if toks.len() < 3 || toks[0] != "export" {
            return "bad-request".into();
        }
        let fmt = toks[2];
        if !["nq", "nt", "ttl"].contains(&fmt) {
            return "bad-request".into();
        }
        match toks[1] {
            "rt" | "rtp" => {
                let mut quads = Vec::new();
                let mut prefixes: Vec<(String, String)> = Vec::new();
                let first = if toks[1] == "rtp" {
                    if toks.len() < 4 {
                        return "bad-request".into();
                    }
                    if toks[3] != "-" {
                        for item in toks[3].split(',') {
                            let mut it = item.split('=');
                            match (it.next(), it.next().and_then(unhex)) {
                                (Some(k), Some(v)) => prefixes.push((k.to_string(), v)),
                                _ => return "bad-request".into(),
                            }
                        }
                    }
                    4
                } else {
                    3
                };
                for t in &toks[first..] {
                    match parse_quad_tok(t) {
                        Some(q) => quads.push(q),
                        None => return "bad-request".into(),
                    }
                }
                let mut db = build_db(&quads);
                for (k, v) in prefixes {
                    db.prefixes.insert(k, v);
                }
                let text = generate(&db, fmt);
                let r = std::panic::catch_unwind(std::panic::AssertUnwindSafe(|| {
                    let mut db2 = SparqlDatabase::new();
                    parse_into(&mut db2, fmt, &text);
                    lex_quads(&db2)
                }));
                match r {
                    Ok(qs) => format!("{}{}", tok_hash(&text), with_sp(&qs)),
                    Err(_) => "panic".into(),
                }
            }
            "parse" => {
                if toks.len() != 4 {
                    return "bad-request".into();
                }
                let text = match unhex(toks[3]) {
                    Some(t) => t,
                    None => return "bad-request".into(),
                };
                let r = std::panic::catch_unwind(std::panic::AssertUnwindSafe(|| {
                    let mut db2 = SparqlDatabase::new();
                    parse_into(&mut db2, fmt, &text);
                    lex_quads(&db2)
                }));
                match r {
                    Ok(qs) => format!("n={}{}", qs.len(), with_sp(&qs)),
                    Err(_) => "panic".into(),
                }
            }
            _ => "bad-request".into(),
        }
    }
}
