//! C07 — decision-diagram operations are exact, canonical and interruption-safe.
//! Protocol documented in lean/Kolibrie/Driver/C07.lean.
use super::{Prop, Stats, Tier};
use crate::rng::Rng;
use shared::diff_sdd::wmc_gradient;
use shared::sdd::{BoolOp, SddBudgetError, SddId, SddManager, SddOperationBudget, VarKind};
use std::panic::{catch_unwind, AssertUnwindSafe};

pub struct C07;

// ---- small helpers ------------------------------------------------------------------------------

fn parse_rat(s: &str) -> Option<f64> {
    let (neg, body) = if let Some(r) = s.strip_prefix('-') { (true, r) } else { (false, s) };
    let v = match body.split('/').collect::<Vec<_>>().as_slice() {
        [a] => a.parse::<u64>().ok()? as f64,
        [a, b] => {
            let x = a.parse::<u64>().ok()? as f64;
            let y = b.parse::<u64>().ok()? as f64;
            if y == 0.0 {
                return None;
            }
            x / y
        }
        _ => return None,
    };
    Some(if neg { -v } else { v })
}

fn opt_usize(s: &str) -> Option<Option<usize>> {
    if s == "_" {
        Some(None)
    } else {
        s.parse::<usize>().ok().map(Some)
    }
}

/// hex of the number whose bit k is bits[k]
fn hex_of_bits(bits: &[bool]) -> String {
    let mut digits: Vec<u8> = Vec::new();
    for chunk in bits.chunks(4) {
        let mut d = 0u8;
        for (i, b) in chunk.iter().enumerate() {
            if *b {
                d |= 1 << i;
            }
        }
        digits.push(d);
    }
    while digits.len() > 1 && *digits.last().unwrap() == 0 {
        digits.pop();
    }
    digits.iter().rev().map(|d| std::char::from_digit(*d as u32, 16).unwrap()).collect()
}

fn bits_of_number(n: usize, s: &str) -> Option<Vec<bool>> {
    // decimal string (may exceed u128 for n = 8): schoolbook division by 2
    let mut digits: Vec<u8> = s.bytes().map(|b| b.wrapping_sub(b'0')).collect();
    if digits.is_empty() || digits.iter().any(|d| *d > 9) {
        return None;
    }
    let mut out = Vec::new();
    for _ in 0..(1usize << n) {
        let mut rem = 0u8;
        for d in digits.iter_mut() {
            let cur = rem * 10 + *d;
            *d = cur / 2;
            rem = cur % 2;
        }
        out.push(rem == 1);
    }
    Some(out)
}

#[derive(Clone, Copy)]
enum HRef {
    T,
    F,
    Slot(usize),
}
fn parse_h(s: &str) -> Option<HRef> {
    match s {
        "T" => Some(HRef::T),
        "F" => Some(HRef::F),
        _ => s.parse::<usize>().ok().map(HRef::Slot),
    }
}

struct Sess {
    n: usize,
    mgr: SddManager,
    slots: Vec<SddId>,
    slot_tt: Vec<Option<String>>,
    /// checkpoints consumed by the last budgeted operation (used by the generator only)
    last_checkpoints: usize,
}

enum Step {
    Out(String),
    Bad,
}

impl Sess {
    fn new(n: usize) -> Self {
        Sess { n, mgr: SddManager::new(), slots: Vec::new(), slot_tt: Vec::new(), last_checkpoints: 0 }
    }
    fn h(&self, r: HRef) -> SddId {
        match r {
            HRef::T => SddId::TRUE,
            HRef::F => SddId::FALSE,
            HRef::Slot(i) => self.slots.get(i).copied().unwrap_or(SddId::FALSE),
        }
    }
    /// truth table from `enumerate_models`, cross-checked against point-weight `wmc` evaluations
    fn table_of_cubes(&self, id: SddId) -> (Vec<bool>, bool) {
        let cubes = self.mgr.enumerate_models(id);
        let mut bits = vec![false; 1 << self.n];
        let mut disjoint = true;
        for (k, b) in bits.iter_mut().enumerate() {
            let mut cnt = 0;
            for c in &cubes {
                if c.iter().all(|(v, pol)| ((k >> *v) & 1 == 1) == *pol) {
                    cnt += 1;
                }
            }
            *b = cnt > 0;
            if cnt > 1 {
                disjoint = false;
            }
        }
        (bits, disjoint)
    }
    fn point_eval(&mut self, id: SddId, k: usize) -> f64 {
        let pos: Vec<f64> = self.mgr.pos_weight().to_vec();
        let neg: Vec<f64> = self.mgr.neg_weight().to_vec();
        for v in 0..pos.len() {
            let bit = (k >> v) & 1 == 1;
            self.mgr.set_pos_weight(v as u32, if bit { 1.0 } else { 0.0 });
            self.mgr.set_neg_weight(v as u32, if bit { 0.0 } else { 1.0 });
        }
        let r = self.mgr.wmc(id);
        for v in 0..pos.len() {
            self.mgr.set_pos_weight(v as u32, pos[v]);
            self.mgr.set_neg_weight(v as u32, neg[v]);
        }
        r
    }
    fn truth_table(&mut self, id: SddId, salt: usize) -> String {
        let (bits, _) = self.table_of_cubes(id);
        let total = 1usize << self.n;
        let points: Vec<usize> = if self.n > self.mgr.pos_weight().len() {
            // some variable of the universe has no weight slot yet: point weights cannot be set for it
            Vec::new()
        } else if self.n <= 4 {
            (0..total).collect()
        } else {
            (0..12).map(|j| (salt.wrapping_mul(2654435761).wrapping_add(j * 40503 + j * j * 7)) % total).collect()
        };
        for k in points {
            let v = self.point_eval(id, k);
            let expect = if bits[k] { 1.0 } else { 0.0 };
            if v != expect {
                return format!("MISMATCH(cubes={},wmc@{}={})", hex_of_bits(&bits), k, v);
            }
        }
        hex_of_bits(&bits)
    }
    fn push_slot(&mut self, id: SddId) -> String {
        let i = self.slots.len();
        self.slots.push(id);
        let tt = self.truth_table(id, i);
        self.slot_tt.push(Some(tt.clone()));
        let first = self.slots.iter().position(|x| *x == id).unwrap();
        format!("{}.{}", tt, first)
    }
    fn push_failed(&mut self, e: SddBudgetError) -> String {
        self.slots.push(SddId::FALSE);
        self.slot_tt.push(None);
        match e {
            SddBudgetError::DeadlineExceeded => "Ed".into(),
            SddBudgetError::NodeBudgetExceeded => "En".into(),
        }
    }
    fn budgeted<F>(&mut self, k: Option<usize>, nb: Option<usize>, f: F) -> String
    where
        F: FnOnce(&mut SddManager, &mut SddOperationBudget<'_>) -> Result<SddId, SddBudgetError>,
    {
        let mut calls = 0usize;
        let res = {
            let mut avail = || {
                let ok = k.map_or(true, |k| calls < k);
                calls += 1;
                ok
            };
            let mut budget = SddOperationBudget::new(nb.unwrap_or(usize::MAX), &mut avail);
            f(&mut self.mgr, &mut budget)
        };
        self.last_checkpoints = calls;
        match res {
            Ok(id) => self.push_slot(id),
            Err(e) => self.push_failed(e),
        }
    }
    fn build_fn(&mut self, bits: &[bool]) -> SddId {
        let mut res = SddId::FALSE;
        for (k, b) in bits.iter().enumerate() {
            if !*b {
                continue;
            }
            let mut mt = SddId::TRUE;
            for v in 0..self.n {
                let l = self.mgr.literal(v as u32, (k >> v) & 1 == 1);
                mt = self.mgr.apply(mt, l, BoolOp::And);
            }
            res = self.mgr.apply(res, mt, BoolOp::Or);
        }
        res
    }

    fn tok(&mut self, t: &str) -> Step {
        let parts: Vec<&str> = t.split(':').collect();
        macro_rules! opt {
            ($e:expr) => {
                match $e {
                    Some(x) => x,
                    None => return Step::Bad,
                }
            };
        }
        let vars_of = |s: &str| -> Option<Vec<u32>> {
            if s.is_empty() {
                Some(vec![])
            } else {
                s.split('.').map(|x| x.parse::<u32>().ok()).collect()
            }
        };
        Step::Out(match parts.as_slice() {
            ["v", v, p] => {
                self.mgr.ensure_variable(opt!(v.parse().ok()), opt!(parse_rat(p)));
                ".".into()
            }
            ["w", v, p, q] => {
                self.mgr.ensure_variable_weights(opt!(v.parse().ok()), opt!(parse_rat(p)), opt!(parse_rat(q)), VarKind::Independent);
                ".".into()
            }
            ["x", v, p, q, g] => {
                self.mgr.ensure_variable_weights(
                    opt!(v.parse().ok()),
                    opt!(parse_rat(p)),
                    opt!(parse_rat(q)),
                    VarKind::ExclusiveGroup(opt!(g.parse().ok())),
                );
                ".".into()
            }
            ["l", v, pol] => {
                let id = self.mgr.literal(opt!(v.parse().ok()), *pol == "1");
                self.push_slot(id)
            }
            ["tl", v, pol, k, nb] => {
                let (v, pol) = (opt!(v.parse().ok()), *pol == "1");
                self.budgeted(opt!(opt_usize(k)), opt!(opt_usize(nb)), |m, b| m.try_literal(v, pol, b))
            }
            [op @ ("a" | "o"), a, c] => {
                let (a, c) = (self.h(opt!(parse_h(a))), self.h(opt!(parse_h(c))));
                let id = self.mgr.apply(a, c, if *op == "a" { BoolOp::And } else { BoolOp::Or });
                self.push_slot(id)
            }
            [op @ ("ta" | "to"), a, c, k, nb] => {
                let (a, c) = (self.h(opt!(parse_h(a))), self.h(opt!(parse_h(c))));
                let bop = if *op == "ta" { BoolOp::And } else { BoolOp::Or };
                self.budgeted(opt!(opt_usize(k)), opt!(opt_usize(nb)), |m, b| m.try_apply(a, c, bop, b))
            }
            ["n", a] => {
                let a = self.h(opt!(parse_h(a)));
                let id = self.mgr.negate(a);
                self.push_slot(id)
            }
            ["tn", a, k, nb] => {
                let a = self.h(opt!(parse_h(a)));
                self.budgeted(opt!(opt_usize(k)), opt!(opt_usize(nb)), |m, b| m.try_negate(a, b))
            }
            ["e", vs] => {
                let vs = opt!(vars_of(vs));
                let id = self.mgr.exactly_one(&vs);
                self.push_slot(id)
            }
            ["te", vs, k, nb] => {
                let vs = opt!(vars_of(vs));
                self.budgeted(opt!(opt_usize(k)), opt!(opt_usize(nb)), |m, b| m.try_exactly_one(&vs, b))
            }
            ["f", bits] => {
                let bits = opt!(bits_of_number(self.n, bits));
                let id = self.build_fn(&bits);
                self.push_slot(id)
            }
            ["W", a] => {
                let a = self.h(opt!(parse_h(a)));
                format!("r:{:?}", self.mgr.wmc(a))
            }
            ["G", a] => {
                let a = self.h(opt!(parse_h(a)));
                let g = wmc_gradient(&mut self.mgr, a);
                let vals: Vec<String> =
                    (0..self.n).map(|v| format!("{:?}", g.get(&(v as u32)).copied().unwrap_or(0.0))).collect();
                format!("g:{}", vals.join(","))
            }
            ["M", a] => {
                let a = self.h(opt!(parse_h(a)));
                let (bits, disjoint) = self.table_of_cubes(a);
                format!("{}.{}", hex_of_bits(&bits), if disjoint { "d" } else { "o" })
            }
            ["K", a] => {
                let a = self.h(opt!(parse_h(a)));
                let mut cubes: Vec<Vec<(u32, bool)>> =
                    self.mgr.enumerate_models(a).into_iter().map(|s| s.into_iter().collect()).collect();
                cubes.sort();
                let strs: Vec<String> = cubes
                    .iter()
                    .map(|c| {
                        if c.is_empty() {
                            "*".to_string()
                        } else {
                            c.iter().map(|(v, p)| format!("{}{}", v, if *p { "+" } else { "-" })).collect::<Vec<_>>().join(".")
                        }
                    })
                    .collect();
                format!("[{}]", strs.join(";"))
            }
            ["C"] => self.mgr.node_count().to_string(),
            _ => return Step::Bad,
        })
    }

    /// after the whole history: every slot must still denote what it denoted when it was created
    fn stability(&mut self) -> Option<String> {
        for i in 0..self.slots.len() {
            if let Some(old) = self.slot_tt[i].clone() {
                let now = self.truth_table(self.slots[i], i);
                if now != old {
                    return Some(format!("UNSTABLE(slot {}: {} -> {})", i, old, now));
                }
            }
        }
        None
    }
}

fn run_request(req: &str) -> (String, Option<Sess>) {
    let toks: Vec<&str> = req.split_whitespace().collect();
    if toks.len() < 2 || toks[0] != "sdd" {
        return ("bad-request".into(), None);
    }
    let n: usize = match toks[1].parse() {
        Ok(n) if n <= 8 => n,
        _ => return ("bad-request".into(), None),
    };
    let mut sess = Sess::new(n);
    let mut out: Vec<String> = Vec::new();
    for t in &toks[2..] {
        let r = catch_unwind(AssertUnwindSafe(|| sess.tok(t)));
        match r {
            Ok(Step::Out(s)) => out.push(s),
            Ok(Step::Bad) => return ("bad-request".into(), None),
            Err(_) => {
                out.push("P".into());
                return (out.join(" "), None);
            }
        }
    }
    if let Some(u) = sess.stability() {
        out.push(u);
    }
    out.push("wf".into());
    (out.join(" "), Some(sess))
}

// ---- generation ---------------------------------------------------------------------------------

const PROBS: [&str; 14] = ["1/2", "1/4", "3/4", "1/8", "5/16", "13/16", "1/3", "1/10", "7/10", "0", "1", "2/5", "3/2", "-1/4"];

fn rand_prob(rng: &mut Rng) -> String {
    // out-of-range values (exercise the clamp) are rare
    if rng.chance(1, 25) {
        PROBS[12 + rng.below(2)].to_string()
    } else {
        PROBS[rng.below(12)].to_string()
    }
}

/// number of checkpoints consumed and nodes before/after when `op` (a budgeted token with `_:_`) runs after `prefix`
fn measure(n: usize, prefix: &[String], op_unlimited: &str) -> Option<(usize, usize, usize)> {
    if std::env::var("KVERIF_NO_EXEC").is_ok() {
        // requests-only mode (the code under test kills the process): do not run it here either; sweep a fixed range
        return Some((16, 2, 14));
    }
    let mut s = Sess::new(n);
    for t in prefix {
        if let Step::Bad = s.tok(t) {
            return None;
        }
    }
    let before = s.mgr.node_count();
    if let Step::Bad = s.tok(op_unlimited) {
        return None;
    }
    Some((s.last_checkpoints, before, s.mgr.node_count()))
}

fn href(rng: &mut Rng, nslots: usize) -> String {
    if nslots == 0 || rng.chance(1, 12) {
        if rng.chance(1, 2) { "T".into() } else { "F".into() }
    } else if rng.chance(1, 2) {
        // recent slots are more interesting operands
        (nslots - 1 - rng.below(nslots.min(4))).to_string()
    } else {
        rng.below(nslots).to_string()
    }
}

fn decimal_of_bits(bits: &[bool]) -> String {
    // big number → decimal string
    let mut digits: Vec<u8> = vec![0];
    for b in bits.iter().rev() {
        let mut carry = if *b { 1 } else { 0 };
        for d in digits.iter_mut() {
            let cur = *d * 2 + carry;
            *d = cur % 10;
            carry = cur / 10;
        }
        if carry > 0 {
            digits.push(carry);
        }
    }
    digits.iter().rev().map(|d| (b'0' + d) as char).collect()
}

/// followup after a budgeted operation: the manager must still answer correctly
fn followup(toks: &mut Vec<String>, plain: &str, slot_of_try: usize) {
    toks.push("C".into());
    toks.push(plain.to_string());
    let s = slot_of_try + 1;
    toks.push(format!("n:{}", s));
    toks.push(format!("o:{}:{}", s, s + 1));
    toks.push(format!("W:{}", s));
    toks.push(format!("M:{}", s + 1));
    toks.push("C".into());
}

fn plain_of(try_tok: &str) -> String {
    // ta:a:c:k:nb → a:a:c etc.
    let p: Vec<&str> = try_tok.split(':').collect();
    match p[0] {
        "ta" => format!("a:{}:{}", p[1], p[2]),
        "to" => format!("o:{}:{}", p[1], p[2]),
        "tn" => format!("n:{}", p[1]),
        "te" => format!("e:{}", p[1]),
        "tl" => format!("l:{}:{}", p[1], p[2]),
        _ => unreachable!(),
    }
}

fn with_budget(try_tok: &str, k: Option<usize>, nb: Option<usize>) -> String {
    let p: Vec<&str> = try_tok.split(':').collect();
    let body = p[..p.len() - 2].join(":");
    format!(
        "{}:{}:{}",
        body,
        k.map_or("_".to_string(), |x| x.to_string()),
        nb.map_or("_".to_string(), |x| x.to_string())
    )
}

/// a random scenario: registrations + formula building; returns (n, tokens, number of slots)
fn random_prefix(rng: &mut Rng, stats: &mut Stats, maxlen: usize, nmax: usize) -> (usize, Vec<String>, usize) {
    let n = if rng.chance(1, 4) { rng.range(6, nmax.max(6)) } else { rng.range(1, 5.min(nmax)) };
    let mut order: Vec<usize> = (0..n).collect();
    rng.shuffle(&mut order);
    let mut toks: Vec<String> = Vec::new();
    let mut registered: Vec<usize> = Vec::new();
    let mut pending: Vec<usize> = order.clone();
    let mut nslots = 0usize;
    // optional exclusive group among the first variables
    let group_size = if n >= 2 && rng.chance(1, 4) { rng.range(2, 3.min(n)) } else { 0 };
    let mut group: Vec<usize> = Vec::new();
    let first = rng.range(1, n);
    for _ in 0..first {
        let v = pending.remove(0);
        if group.len() < group_size {
            let ps = ["1/5", "3/10", "1/2", "1/4", "1/8"];
            toks.push(format!("x:{}:{}:1:0", v, ps[rng.below(ps.len())]));
            group.push(v);
            stats.hit("reg_exclusive");
        } else if rng.chance(1, 5) {
            toks.push(format!("w:{}:{}:{}", v, rand_prob(rng), rand_prob(rng)));
            stats.hit("reg_weights_unnormalised");
        } else {
            toks.push(format!("v:{}:{}", v, rand_prob(rng)));
            stats.hit("reg_independent");
        }
        registered.push(v);
    }
    let mut group_slot: Option<usize> = None;
    if group.len() >= 2 {
        let vs: Vec<String> = group.iter().map(|v| v.to_string()).collect();
        toks.push(format!("e:{}", vs.join(".")));
        group_slot = Some(nslots);
        nslots += 1;
        stats.hit("op_exactly_one_group");
    }
    let len = rng.range(3, maxlen);
    for _ in 0..len {
        let k = rng.below(100);
        if k < 8 && !pending.is_empty() {
            let v = pending.remove(0);
            toks.push(format!("v:{}:{}", v, rand_prob(rng)));
            registered.push(v);
            stats.hit("reg_late");
        } else if k < 11 {
            let v = *rng.pick(&registered);
            if !group.contains(&v) {
                toks.push(format!("v:{}:{}", v, rand_prob(rng)));
                stats.hit("reg_again");
            }
        } else if k < 36 || nslots < 2 {
            let v = *rng.pick(&registered);
            toks.push(format!("l:{}:{}", v, rng.below(2)));
            nslots += 1;
            stats.hit("op_literal");
        } else if k < 58 {
            toks.push(format!("a:{}:{}", href(rng, nslots), href(rng, nslots)));
            nslots += 1;
            stats.hit("op_and");
        } else if k < 78 {
            toks.push(format!("o:{}:{}", href(rng, nslots), href(rng, nslots)));
            nslots += 1;
            stats.hit("op_or");
        } else if k < 88 {
            toks.push(format!("n:{}", href(rng, nslots)));
            nslots += 1;
            stats.hit("op_not");
        } else if k < 91 {
            let mut vs: Vec<usize> = registered.clone();
            rng.shuffle(&mut vs);
            vs.truncate(rng.range(0, vs.len().min(4)));
            let s: Vec<String> = vs.iter().map(|v| v.to_string()).collect();
            toks.push(format!("e:{}", s.join(".")));
            nslots += 1;
            stats.hit("op_exactly_one");
        } else if k < 93 && pending.is_empty() && n <= 4 {
            let bits: Vec<bool> = (0..(1usize << n)).map(|_| rng.chance(1, 2)).collect();
            toks.push(format!("f:{}", decimal_of_bits(&bits)));
            nslots += 1;
            stats.hit("op_fn");
        } else {
            let h = href(rng, nslots);
            match rng.below(5) {
                0 => {
                    toks.push(format!("W:{}", h));
                    stats.hit("obs_wmc");
                }
                1 => {
                    toks.push(format!("G:{}", h));
                    stats.hit("obs_grad");
                }
                2 => {
                    toks.push(format!("M:{}", h));
                    stats.hit("obs_models");
                }
                3 => {
                    toks.push(format!("K:{}", h));
                    stats.hit("obs_cubes");
                }
                _ => {
                    toks.push("C".into());
                    stats.hit("obs_count");
                }
            }
        }
    }
    // a diagram that contains a function and its negation side by side (z <-> h, z xor h): counts of complementary
    // sub-diagrams are related by P(not f) = 1 - P(f) only when every variable's weights sum to one
    if nslots >= 1 && rng.chance(1, 3) {
        let h = if let (Some(g), true) = (group_slot, rng.chance(1, 2)) { g } else { rng.below(nslots) };
        let z = *rng.pick(&registered);
        toks.push(format!("n:{}", h)); // nslots
        toks.push(format!("l:{}:1", z)); // nslots + 1
        toks.push(format!("l:{}:0", z)); // nslots + 2
        let (pos_side, neg_side) = if rng.chance(1, 2) { (h, nslots) } else { (nslots, h) };
        toks.push(format!("a:{}:{}", nslots + 1, pos_side)); // nslots + 3
        toks.push(format!("a:{}:{}", nslots + 2, neg_side)); // nslots + 4
        toks.push(format!("o:{}:{}", nslots + 3, nslots + 4)); // nslots + 5
        nslots += 6;
        toks.push(format!("W:{}", nslots - 1));
        toks.push(format!("G:{}", nslots - 1));
        stats.hit("obs_wmc_of_iff_with_complement");
    }
    // a sub-diagram shared by parents at different depths: ite(z1, g, ite(z2, g, g2)) - whatever traverses the diagram
    // (counts, gradients) must handle a node reached along paths of unequal length
    if nslots >= 2 && registered.len() >= 2 && rng.chance(1, 3) {
        let g = rng.below(nslots);
        let g2 = rng.below(nslots);
        let z1 = *rng.pick(&registered);
        let z2 = *rng.pick(&registered);
        let b = nslots;
        toks.push(format!("l:{}:1", z2)); // b
        toks.push(format!("l:{}:0", z2)); // b+1
        toks.push(format!("a:{}:{}", b, g)); // b+2
        toks.push(format!("a:{}:{}", b + 1, g2)); // b+3
        toks.push(format!("o:{}:{}", b + 2, b + 3)); // b+4 = ite(z2, g, g2)
        toks.push(format!("l:{}:1", z1)); // b+5
        toks.push(format!("l:{}:0", z1)); // b+6
        toks.push(format!("a:{}:{}", b + 5, g)); // b+7
        toks.push(format!("a:{}:{}", b + 6, b + 4)); // b+8
        toks.push(format!("o:{}:{}", b + 7, b + 8)); // b+9
        nslots += 10;
        toks.push(format!("W:{}", nslots - 1));
        toks.push(format!("G:{}", nslots - 1));
        stats.hit("obs_shared_subdiagram_at_two_depths");
    }
    // weighted counts relative to the group constraint
    if let Some(g) = group_slot {
        if nslots > 1 {
            toks.push(format!("a:{}:{}", nslots - 1, g));
            nslots += 1;
            toks.push(format!("W:{}", nslots - 1));
            toks.push(format!("G:{}", nslots - 1));
            stats.hit("obs_wmc_under_group_constraint");
        }
    }
    (n, toks, nslots)
}

fn random_try_tok(rng: &mut Rng, n: usize, nslots: usize) -> String {
    match rng.below(10) {
        0..=3 => format!("ta:{}:{}:_:_", href(rng, nslots), href(rng, nslots)),
        4..=6 => format!("to:{}:{}:_:_", href(rng, nslots), href(rng, nslots)),
        7 | 8 => format!("tn:{}:_:_", href(rng, nslots)),
        _ => format!("tl:{}:{}:_:_", rng.below(n), rng.below(2)),
    }
}

impl Prop for C07 {
    fn id(&self) -> &'static str {
        "sdd"
    }
    fn cases(&self, tier: Tier) -> usize {
        match tier {
            Tier::Quick => 1500,
            Tier::Thorough => 12000,
        }
    }

    fn exhaustive(&self, tier: Tier, stats: &mut Stats) -> Vec<String> {
        let mut out = Vec::new();
        // (1) operand pairs over 3 variables: f_i against blocks of 16 f_j, both operators, 6 registration orders
        let perms: [[usize; 3]; 6] = [[0, 1, 2], [0, 2, 1], [1, 0, 2], [1, 2, 0], [2, 0, 1], [2, 1, 0]];
        let stride = if tier == Tier::Quick { 16 } else { 1 };
        let mut blk = 0usize;
        for i in 0..256usize {
            for jb in 0..16usize {
                blk += 1;
                if (blk + i) % stride != 0 {
                    continue;
                }
                let p = perms[(i + jb) % 6];
                let mut toks: Vec<String> = p.iter().map(|v| format!("v:{}:{}", v, PROBS[(i + v + jb) % 12])).collect();
                toks.push(format!("f:{}", i));
                for j in 0..16 {
                    toks.push(format!("f:{}", jb * 16 + j));
                }
                for j in 0..16 {
                    toks.push(format!("a:0:{}", j + 1));
                    toks.push(format!("o:0:{}", j + 1));
                }
                toks.push("n:0".into());
                toks.push("W:0".into());
                toks.push("C".into());
                out.push(format!("sdd 3 {}", toks.join(" ")));
                stats.add("exh_pairs_3var", 32);
            }
        }
        // (2) every interruption point of budgeted operations, followed by further use of the manager
        let scenarios = if tier == Tier::Quick { 25 } else { 500 };
        let mut rng = Rng::fork(0xC07, "sdd-budget-scenarios", 0);
        let mut made = 0;
        let mut guard = 0;
        while made < scenarios && guard < scenarios * 20 {
            guard += 1;
            let mut dummy = Stats::default();
            let (n, prefix, nslots) = random_prefix(&mut rng, &mut dummy, 14, 5);
            let try_tok = if rng.chance(1, 8) && n >= 2 {
                let vs: Vec<String> = (0..rng.range(2, n.min(4))).map(|v| v.to_string()).collect();
                // exactly-one over registered variables only
                format!("te:{}:_:_", vs.join("."))
            } else {
                random_try_tok(&mut rng, n, nslots)
            };
            // all variables must be registered for `tl`/`te` to be within the API contract
            let mut prefix = prefix;
            for v in 0..n {
                if !prefix.iter().any(|t| {
                    let p: Vec<&str> = t.split(':').collect();
                    (p[0] == "v" || p[0] == "x" || p[0] == "w") && p[1] == v.to_string()
                }) {
                    prefix.push(format!("v:{}:1/2", v));
                }
            }
            let (cps, before, after) = match catch_unwind(AssertUnwindSafe(|| measure(n, &prefix, &try_tok))) {
                Ok(Some(x)) => x,
                _ => continue,
            };
            if cps < 4 {
                // trivial operation (terminal case / cache hit): keep only a few of those
                if !rng.chance(1, 10) {
                    continue;
                }
            }
            made += 1;
            let plain = plain_of(&try_tok);
            for k in 0..=cps {
                let mut toks = prefix.clone();
                toks.push(with_budget(&try_tok, Some(k), None));
                followup(&mut toks, &plain, nslots);
                out.push(format!("sdd {} {}", n, toks.join(" ")));
                stats.hit("exh_deadline_points");
            }
            let lo = before.saturating_sub(1);
            for nb in lo..=after + 1 {
                let mut toks = prefix.clone();
                toks.push(with_budget(&try_tok, None, Some(nb)));
                followup(&mut toks, &plain, nslots);
                out.push(format!("sdd {} {}", n, toks.join(" ")));
                stats.hit("exh_node_budgets");
            }
        }
        stats.add("exh_budget_scenarios", made as u64);
        out
    }

    fn gen(&self, rng: &mut Rng, tier: Tier, _i: usize, stats: &mut Stats) -> String {
        let maxlen = if tier == Tier::Quick { 30 } else { 60 };
        let (n, mut toks, mut nslots) = random_prefix(rng, stats, maxlen, 8);
        let stream = rng.below(100);
        if stream < 35 {
            // budgeted operations with random deadline / node budget, then further use
            let rounds = rng.range(1, 3);
            for _ in 0..rounds {
                let t = random_try_tok(rng, n, nslots);
                let registered_all = !t.starts_with("tl") || {
                    let v = t.split(':').nth(1).unwrap().to_string();
                    toks.iter().any(|x| {
                        let p: Vec<&str> = x.split(':').collect();
                        (p[0] == "v" || p[0] == "x" || p[0] == "w") && p[1] == v
                    })
                };
                if !registered_all {
                    continue;
                }
                let m = catch_unwind(AssertUnwindSafe(|| measure(n, &toks, &t)));
                let (cps, before, after) = match m {
                    Ok(Some(x)) => x,
                    _ => continue,
                };
                let k = if rng.chance(1, 3) { None } else { Some(rng.below(cps + 2)) };
                let nb = if rng.chance(1, 2) { None } else { Some(before.saturating_sub(1) + rng.below(after - before + 3)) };
                toks.push(with_budget(&t, k, nb));
                stats.hit("op_budgeted");
                let plain = plain_of(&t);
                followup(&mut toks, &plain, nslots);
                nslots += 4;
            }
        } else if stream < 40 {
            // malformed stream: literals of unregistered variables, later combined
            let v = n; // never registered (n ≤ 8 so v ≤ 8)
            if v < 8 {
                toks.push(format!("l:{}:1", v));
                nslots += 1;
                toks.push(format!("a:{}:{}", nslots - 1, href(rng, nslots)));
                nslots += 1;
                stats.hit("malformed_unregistered_literal");
                return format!("sdd {} {}", n + 1, toks.join(" "));
            }
        }
        toks.push("C".into());
        if nslots > 0 {
            toks.push(format!("W:{}", nslots - 1));
            toks.push(format!("M:{}", nslots - 1));
        }
        stats.add("tokens_total", toks.len() as u64);
        stats.hit(&format!("nvars_{}", n));
        format!("sdd {} {}", n, toks.join(" "))
    }

    fn exec(&self, req: &str) -> String {
        run_request(req).0
    }
}
